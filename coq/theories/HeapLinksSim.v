(** The pointer-level model (HeapLinksModel.v) simulates the functional model
    (HeapModel.v): from related states every operation returns the same
    results, faults exactly when the functional model faults, and leaves a
    memory that represents the functional tree again -- [rep]: every child
    link, every parent pointer and the root pointer are the right ones.  So
    everything proved about the functional model in HeapProofs.v holds for the
    linked structure, and parent-pointer consistency is a theorem. *)
From Cstl Require Import Prelude HeapModel HeapProofs HeapLinksModel HeapLinks.
Local Open Scope N_scope.

(** address of the node returned by the functional find *)
Definition addr_of (r : option (ctx * tree)) : option nat :=
  match r with Some (_, T _ x _) => Some (eid x) | _ => None end.

Lemma p_find_loop_refines m loc : forall t fuel par a b c,
  b < 2 ^ N.of_nat fuel -> rep m par a t ->
  p_find_loop fuel m loc b a = addr_of (find_loop loc b c t).
Proof.
  induction t as [|l IHl x r IHr]; intros fuel par a b c Hb Hr; cbn [rep] in Hr.
  - subst a. destruct fuel; reflexivity.
  - destruct Hr as (-> & Hp & Hl & Hr). cbn [find_loop].
    destruct fuel as [|f]; cbn [p_find_loop].
    + change (2 ^ N.of_nat 0) with 1 in Hb. assert (b = 0) as -> by lia. reflexivity.
    + destruct (N.eqb_spec b 0) as [->|Hnz]; [reflexivity|].
      assert (Hb' : b / 2 < 2 ^ N.of_nat f).
      { rewrite Nat2N.inj_succ, N.pow_succ_r in Hb by lia.
        apply N.div_lt_upper_bound; lia. }
      destruct (N.land loc b =? 0).
      * apply (IHl f (Some (eid x))); auto.
      * apply (IHr f (Some (eid x))); auto.
Qed.

Lemma p_find_refines m root t id :
  rep m None root t ->
  p_find m root id = match find t id with Flt => Flt | Ok r => Ok (addr_of r) end.
Proof.
  intros Hr. unfold p_find, find.
  destruct ((fls (wrap32 (id + 1)) <? 0)%Z || (31 <=? fls (wrap32 (id + 1)))%Z); [reflexivity|].
  f_equal. apply (p_find_loop_refines m _ t 33 None); auto.
  unfold wrap32.
  assert (H : (2 ^ Z.to_N (fls ((id + 1) mod 2 ^ 32))) mod 2 ^ 32 < 2 ^ 32) by (apply N.mod_lt; lia).
  change (2 ^ N.of_nat 33) with (2 * 2 ^ 32).
  assert (forall y, y / 2 <= y) by (intros; apply N.div_le_upper_bound; lia).
  specialize (H0 ((2 ^ Z.to_N (fls ((id + 1) mod 2 ^ 32))) mod 2 ^ 32)). lia.
Qed.


Section Sim.
  Variable key : nat -> Z.

  (** the keys stored in the functional tree are the keys of the nodes *)
  Definition keyed (l : list elem) : Prop := Forall (fun x => ekey x = key (eid x)) l.

  Lemma keyed_elem x : ekey x = key (eid x) -> mkE (eid x) (key (eid x)) = x.
  Proof. destruct x; cbn; intros ->; reflexivity. Qed.

  Lemma pgt_spec a b :
    ekey a = key (eid a) -> ekey b = key (eid b) ->
    pgt key (eid a) (eid b) = (0 <? cmp a b)%Z.
  Proof. intros Ha Hb. unfold pgt. rewrite !keyed_elem; auto. Qed.

  Lemma keyed_perm a b : Permutation a b -> keyed a -> keyed b.
  Proof. intros P H. unfold keyed in *. eapply Permutation_Forall; eauto. Qed.

  Lemma swap_perm_L c0 cl cx cr px sib :
    Permutation (elems (zip c0 (T (T cl px cr) cx sib))) (elems (zip c0 (T (T cl cx cr) px sib))).
  Proof. rewrite !elems_zip. apply Permutation_app_tail. cbn [elems app]. apply perm_swap. Qed.

  Lemma swap_perm_R c0 cl cx cr px sib :
    Permutation (elems (zip c0 (T sib cx (T cl px cr)))) (elems (zip c0 (T sib px (T cl cx cr)))).
  Proof.
    rewrite !elems_zip. apply Permutation_app_tail. cbn [elems].
    etransitivity; [apply perm_skip; symmetry; apply Permutation_middle|].
    etransitivity; [apply perm_swap|]. apply perm_skip. apply Permutation_middle.
  Qed.

  Lemma ids_perm a b : Permutation (elems a) (elems b) -> Permutation (ids a) (ids b).
  Proof. intros P. unfold ids. apply Permutation_map. exact P. Qed.

  Lemma zip_top_elems c x l r : In x (elems (zip c (T l x r))).
  Proof. rewrite elems_zip. apply in_or_app. left. cbn; auto. Qed.

  (** the sift-up loop on pointers = sift_up on the zipper *)
  Lemma p_sift_up_refines : forall c l x r m root fuel,
    NoDup (ids (zip c (T l x r))) -> keyed (elems (zip c (T l x r))) ->
    rep m None root (zip c (T l x r)) -> (length c <= fuel)%nat ->
    exists m' root', p_sift_up key fuel m root (eid x) = Ok (m', root') /\
                     rep m' None root' (sift_up c l x r).
  Proof.
    induction c as [|[[d px] sib] c IH]; intros l x r m root fuel Hd Hk Hr Hf.
    - cbn [zip] in Hr. cbn [rep] in Hr. destruct Hr as (Hroot & Hp & Hl & Hrr).
      destruct fuel; cbn [p_sift_up]; rewrite Hp; eexists _, _; (split; [reflexivity|]);
        cbn [sift_up rep]; auto.
    - pose proof Hr as Hr0. apply rep_zip in Hr. destruct Hr as (hole & R1 & R2).
      cbn [rep] in R1. destruct R1 as (-> & Hp & _). cbn [ctx_par] in Hp.
      assert (Kx : ekey x = key (eid x)).
      { unfold keyed in Hk. rewrite Forall_forall in Hk. apply Hk. rewrite elems_zip.
        apply in_or_app. left. cbn; auto. }
      assert (Kp : ekey px = key (eid px)).
      { unfold keyed in Hk. rewrite Forall_forall in Hk. apply Hk. rewrite elems_zip.
        apply in_or_app. right. cbn; auto. }
      cbn [sift_up].
      assert (Hstep : p_sift_up key fuel m root (eid x) =
              if (0 <? cmp x px)%Z then
                match fuel with
                | O => Flt
                | S f => match promote m root (eid x) with
                         | None => Flt
                         | Some (m', root') => p_sift_up key f m' root' (eid x)
                         end
                end
              else Ok (m, root)).
      { destruct fuel; cbn [p_sift_up]; rewrite Hp, pgt_spec; auto. }
      rewrite Hstep. destruct (0 <? cmp x px)%Z.
      + destruct fuel as [|f]; [cbn [length] in Hf; lia|].
        destruct d; cbn [zip] in *.
        * destruct (promote_left_refines m root c l x r px sib Hd Hr0) as (m' & root' & -> & Hr').
          apply (IH (T l px r) x sib m' root' f); auto; try (cbn [length] in Hf; lia).
          -- eapply Permutation_NoDup; [|exact Hd]. symmetry. apply ids_perm. apply swap_perm_L.
          -- eapply keyed_perm; [|exact Hk]. symmetry. apply swap_perm_L.
        * destruct (promote_right_refines m root c l x r px sib Hd Hr0) as (m' & root' & -> & Hr').
          apply (IH sib x (T l px r) m' root' f); auto; try (cbn [length] in Hf; lia).
          -- eapply Permutation_NoDup; [|exact Hd]. symmetry. apply ids_perm. apply swap_perm_R.
          -- eapply keyed_perm; [|exact Hk]. symmetry. apply swap_perm_R.
      + eexists _, _. split; [reflexivity|]. exact Hr0.
  Qed.
End Sim.


Lemma find_loop_zip loc : forall t b c c' s,
  find_loop loc b c t = Some (c', s) -> zip c' s = zip c t /\ s <> E.
Proof.
  induction t as [|l IHl x r IHr]; intros b c c' s H; cbn [find_loop] in H; [discriminate|].
  destruct (b =? 0).
  - injection H as <- <-. split; auto; discriminate.
  - destruct (N.land loc b =? 0).
    + apply IHl in H. cbn [zip] in H. exact H.
    + apply IHr in H. cbn [zip] in H. exact H.
Qed.

Lemma find_zip t id c s : find t id = Ok (Some (c, s)) -> zip c s = t /\ s <> E.
Proof.
  unfold find. destruct (_ || _)%bool; [discriminate|]. intros [= H].
  apply find_loop_zip in H. exact H.
Qed.

Lemma setp_other m a v y : y <> a -> setp m a v y = m y.
Proof. intros H. unfold setp, pupd. destruct (Nat.eqb_spec y a); congruence. Qed.
Lemma setl_other m a v y : y <> a -> setl m a v y = m y.
Proof. intros H. unfold setl, pupd. destruct (Nat.eqb_spec y a); congruence. Qed.
Lemma setr_other m a v y : y <> a -> setr m a v y = m y.
Proof. intros H. unfold setr, pupd. destruct (Nat.eqb_spec y a); congruence. Qed.

Lemma length_elems_ctx c : (length c <= length (elems_ctx c))%nat.
Proof.
  induction c as [|[[d x] s] c IH]; cbn [length elems_ctx]; [lia|].
  rewrite app_length. lia.
Qed.

Lemma NoDup_app_drop_mid {A} (a b c : list A) : NoDup (a ++ b ++ c) -> NoDup (a ++ c).
Proof.
  induction a as [|x a IH]; cbn [app]; intros H.
  - apply NoDup_app_inv in H. tauto.
  - inversion H as [|? ? Hn Hd]; subst. constructor; auto.
    intros Hx. apply Hn. rewrite !in_app_iff in *. tauto.
Qed.

Lemma ids_perm' a b : Permutation a b -> Permutation (map eid a) (map eid b).
Proof. apply Permutation_map. Qed.

Section SimPush.
  Variable key : nat -> Z.

  (** n->p = pa; pa->l (or r) = n; then the sift-up loop *)
  Lemma p_attach_refines (d : dir) c pl px pr m0 root n fuel :
    let t := zip c (T pl px pr) in
    let pa := eid px in
    let e := mkE n (key n) in
    let sib := match d with L => pr | R => pl end in
    let m1 := setp m0 n (Some pa) in
    let m2 := match d with L => setl m1 pa (Some n) | R => setr m1 pa (Some n) end in
    NoDup (ids t) -> keyed key (elems t) -> ~ In n (ids t) ->
    rep m0 None root t -> nl (m0 n) = None -> nr (m0 n) = None -> (length c < fuel)%nat ->
    exists m3 root3, p_sift_up key fuel m2 root n = Ok (m3, root3) /\
                     rep m3 None root3 (sift_up ((d, px, sib) :: c) E e E).
  Proof.
    intros t pa e sib m1 m2 Hd Hk Hn Hr Hnl Hnr Hf.
    apply rep_zip in Hr. destruct Hr as (hole & R1 & R2). cbn [rep] in R1.
    destruct R1 as (-> & Hpp & Rpl & Rpr). fold pa in Hpp, Rpl, Rpr, R2.
    unfold t in Hd, Hn. apply (Permutation_NoDup (ids_zip c (T pl px pr))) in Hd.
    assert (HnP : ~ In n (ids (T pl px pr) ++ ids_ctx c)).
    { intros H. apply Hn. eapply Permutation_in; [symmetry; apply ids_zip|exact H]. }
    rewrite ids_T in Hd, HnP. fold pa in Hd, HnP. cbn [app] in Hd, HnP.
    inversion Hd as [|? ? HpaN Hd']; subst.
    assert (Hnpa : n <> pa) by (intros ->; apply HnP; cbn; auto).
    assert (Hsub : forall y, In y (ids sib ++ ids_ctx c) -> In y ((ids pl ++ ids pr) ++ ids_ctx c)).
    { intros y. unfold sib. rewrite !in_app_iff. destruct d; tauto. }
    assert (Hdsib : NoDup (ids sib ++ ids_ctx c)).
    { unfold sib. destruct d.
      - rewrite <- app_assoc in Hd'. apply NoDup_app_inv in Hd'. tauto.
      - rewrite <- app_assoc in Hd'. apply NoDup_app_drop_mid in Hd'. exact Hd'. }
    (* the memory after the two stores *)
    assert (M2n : m2 n = mkN (Some pa) None None).
    { rewrite (node_eta (m2 n)). unfold m2, m1. destruct d; autorewrite with fld0;
        rewrite ?Nat.eqb_refl, ?(proj2 (Nat.eqb_neq n pa) Hnpa), ?Hnl, ?Hnr; reflexivity. }
    assert (Hpan : pa <> n) by congruence.
    assert (M2pa : np (m2 pa) = ctx_par c /\
                   match d with
                   | L => nl (m2 pa) = Some n /\ nr (m2 pa) = nr (m0 pa)
                   | R => nr (m2 pa) = Some n /\ nl (m2 pa) = nl (m0 pa)
                   end).
    { unfold m2, m1. destruct d; autorewrite with fld0;
        rewrite ?Nat.eqb_refl, ?(proj2 (Nat.eqb_neq pa n) Hpan), ?Hpp; auto. }
    assert (M2o : forall y, y <> n -> y <> pa -> m2 y = m0 y).
    { intros y Y1 Y2. unfold m2, m1. destruct d; rewrite ?setl_other, ?setr_other, ?setp_other; auto. }
    assert (Fr : forall y, In y (ids sib ++ ids_ctx c) -> m2 y = m0 y).
    { intros y Hy. apply Hsub in Hy. apply M2o.
      - intros ->. apply HnP. right. exact Hy.
      - intros ->. apply HpaN. exact Hy. }
    assert (Rnew : rep m2 None root (zip ((d, px, sib) :: c) (T E e E))).
    { apply rep_zip. exists (Some n). split.
      - cbn [rep ctx_par]. fold pa. cbn [e eid]. rewrite M2n. cbn [np nl nr]. auto.
      - assert (Fc : rep_ctx m2 c (Some pa) root).
        { apply (rep_ctx_frame m0); auto. intros y Hy. apply Fr. apply in_or_app; auto. }
        destruct M2pa as (B0 & B12).
        destruct d; cbn [rep_ctx]; fold pa; destruct B12 as (B1 & B2); rewrite B0, B1, B2;
          repeat split; auto; apply (rep_frame m0); auto; intros y Hy; apply Fr; apply in_or_app; auto. }
    assert (Pnew : Permutation (elems (zip ((d, px, sib) :: c) (T E e E)))
                               (e :: px :: elems sib ++ elems_ctx c)).
    { rewrite elems_zip. cbn [elems elems_ctx app]. reflexivity. }
    apply (p_sift_up_refines key ((d, px, sib) :: c) E e E m2 root fuel); auto.
    - eapply Permutation_NoDup; [symmetry; apply ids_perm'; exact Pnew|].
      cbn [map eid e]. fold pa. rewrite map_app. fold (ids sib) (ids_ctx c).
      constructor; [|constructor; auto].
      cbn [In]. intros [H|H]; [congruence|]. apply HnP. right. apply Hsub. exact H.
    - eapply keyed_perm; [symmetry; exact Pnew|].
      unfold keyed in *. rewrite Forall_forall in *. intros y [<-|[<-|Hy]].
      + reflexivity.
      + apply Hk. unfold t. rewrite elems_zip. apply in_or_app. left. cbn; auto.
      + apply Hk. unfold t. rewrite elems_zip. cbn [elems]. rewrite !in_app_iff in *. cbn [In].
        rewrite in_app_iff. unfold sib in Hy. destruct d; tauto.
  Qed.
End SimPush.


Section SimPush2.
  Variable key : nat -> Z.

  (** the simulation relation: the functional tree is laid out in the memory
      from the root pointer, with consistent parent pointers; same size field *)
  Definition sim (ph : pheap) (h : heap) : Prop :=
    rep (pm ph) None (proot ph) (root h) /\ psize ph = size h.

  Lemma p_push_refines ph h n :
    inv h -> keyed key (elems (root h)) -> sim ph h -> ~ In n (ids (root h)) ->
    match push h (mkE n (key n)) with
    | Ok h' => exists ph', p_push key ph n = Ok ph' /\ sim ph' h'
    | Flt => p_push key ph n = Flt
    end.
  Proof.
    intros Hi Hk (Hr & Hs) Hn. destruct ph as [m root sz]. destruct h as [t size].
    cbn [pm proot psize HeapModel.root HeapModel.size] in *. subst sz.
    unfold push, p_push, sim. cbn [pm proot psize HeapModel.root HeapModel.size].
    set (e := mkE n (key n)).
    set (m0 := setr (setl m n None) n None).
    assert (F0 : forall y, y <> n -> m0 y = m y).
    { intros y Hy. unfold m0. rewrite setr_other, setl_other; auto. }
    assert (Hr0 : rep m0 None root t).
    { apply (rep_frame m); auto. intros y Hy. apply F0. intros ->. auto. }
    assert (Hn0 : nl (m0 n) = None /\ nr (m0 n) = None).
    { unfold m0. autorewrite with fld0. rewrite !Nat.eqb_refl. auto. }
    destruct Hn0 as (Hnl & Hnr).
    destruct t as [|l0 x0 r0].
    - cbn [rep] in Hr. subst root. eexists. split; [reflexivity|].
      cbn [pm proot psize HeapModel.root HeapModel.size rep]. split; auto.
      unfold e. cbn [eid]. autorewrite with fld0. rewrite Nat.eqb_refl, Hnl, Hnr. auto.
    - set (t := T l0 x0 r0) in *.
      assert (exists r1, root = Some r1) as (r1 & ->)
        by (cbn [t rep] in Hr; destruct Hr as (-> & _); eauto).
      rewrite (p_find_refines m0 (Some r1) t _ Hr0).
      destruct (find t (wrap32 (dec64 size / 2))) as [[[c [|pl px pr]]|]|] eqn:Ef; try reflexivity.
      destruct (find_zip _ _ _ _ Ef) as (Hz & _).
      cbn [addr_of].
      assert (Hlen : (length c < N.to_nat size)%nat).
      { pose proof (inv_size _ Hi) as Hsz. cbn [HeapModel.root HeapModel.size] in Hsz.
        rewrite <- Hz in Hsz. rewrite (Permutation_length (elems_zip c (T pl px pr))) in Hsz.
        rewrite app_length in Hsz. cbn [elems length] in Hsz.
        pose proof (length_elems_ctx c). lia. }
      assert (Hd : NoDup (ids (zip c (T pl px pr)))) by (rewrite Hz; apply (inv_nodup _ Hi)).
      assert (Hkz : keyed key (elems (zip c (T pl px pr)))) by (rewrite Hz; exact Hk).
      assert (Hnz : ~ In n (ids (zip c (T pl px pr)))) by (rewrite Hz; exact Hn).
      assert (Hrz : rep m0 None (Some r1) (zip c (T pl px pr))) by (rewrite Hz; exact Hr0).
      destruct (size mod 2 =? 0).
      + destruct (p_attach_refines key R c pl px pr m0 (Some r1) n (N.to_nat size)
                    Hd Hkz Hnz Hrz Hnl Hnr Hlen) as (m3 & root3 & -> & R3).
        eexists. split; [reflexivity|]. cbn [pm proot psize HeapModel.root HeapModel.size]. auto.
      + destruct (p_attach_refines key L c pl px pr m0 (Some r1) n (N.to_nat size)
                    Hd Hkz Hnz Hrz Hnl Hnr Hlen) as (m3 & root3 & -> & R3).
        eexists. split; [reflexivity|]. cbn [pm proot psize HeapModel.root HeapModel.size]. auto.
  Qed.
End SimPush2.


Fixpoint height (t : tree) : nat :=
  match t with E => 0 | T l _ r => S (Nat.max (height l) (height r)) end.

Lemma height_le_size t : (height t <= length (elems t))%nat.
Proof.
  induction t as [|l IHl x r IHr]; cbn [height elems length]; [lia|].
  rewrite app_length. lia.
Qed.

(** the child chosen by one round of the do-while loop of cstl_heap_pop *)
Definition choose (x : elem) (l r : tree) : option dir :=
  let c1 := match l with
            | T _ lx _ => if (0 <? cmp lx x)%Z then Some (L, lx) else None
            | E => None
            end in
  let c2 := match r with
            | T _ rx _ =>
              let cx := match c1 with Some (_, y) => y | None => x end in
              if (0 <? cmp rx cx)%Z then Some (R, rx) else c1
            | E => c1
            end in
  option_map fst c2.

Lemma sift_down_choose x l y r :
  sift_down x (T l y r) =
  match choose x l r, l, r with
  | Some L, T _ lx _, _ => T (sift_down x l) lx r
  | Some R, _, T _ rx _ => T l rx (sift_down x r)
  | _, _, _ => T l x r
  end.
Proof.
  unfold choose. cbn [sift_down].
  destruct l as [|ll lx lr], r as [|rl rx rr]; cbn [option_map fst].
  - reflexivity.
  - destruct (0 <? cmp rx x)%Z; reflexivity.
  - destruct (0 <? cmp lx x)%Z; reflexivity.
  - destruct (0 <? cmp lx x)%Z; cbn [option_map fst];
      match goal with |- context [(0 <? cmp rx ?a)%Z] => destruct (0 <? cmp rx a)%Z end; reflexivity.
Qed.

Section SimDown.
  Variable key : nat -> Z.

  Lemma p_sift_down_unfold fuel m root n :
    p_sift_down key fuel m root n =
    let c1 := match nl (m n) with Some l => if pgt key l n then l else n | None => n end in
    let c2 := match nr (m n) with Some r => if pgt key r c1 then r else c1 | None => c1 end in
    if Nat.eqb c2 n then Ok (m, root)
    else match fuel with
         | O => Flt
         | S f =>
           match promote m root c2 with
           | None => Flt
           | Some (m', root') => p_sift_down key f m' root' n
           end
         end.
  Proof. destruct fuel; reflexivity. Qed.

  (** the pointer-level choice is the functional one *)
  Lemma choose_ptr m x l r :
    nl (m (eid x)) = root_addr l -> nr (m (eid x)) = root_addr r ->
    keyed key (x :: elems l ++ elems r) ->
    (let c1 := match nl (m (eid x)) with Some a => if pgt key a (eid x) then a else eid x | None => eid x end in
     match nr (m (eid x)) with Some b => if pgt key b c1 then b else c1 | None => c1 end) =
    match choose x l r, l, r with
    | Some L, T _ lx _, _ => eid lx
    | Some R, _, T _ rx _ => eid rx
    | _, _, _ => eid x
    end.
  Proof.
    intros Hl Hr Hk. rewrite Hl, Hr. unfold choose. unfold keyed in Hk. rewrite Forall_forall in Hk.
    assert (Kx : ekey x = key (eid x)) by (apply Hk; cbn; auto).
    destruct l as [|ll lx lr], r as [|rl rx rr]; cbn [root_addr option_map fst].
    - reflexivity.
    - assert (Kr : ekey rx = key (eid rx)) by (apply Hk; cbn; auto).
      rewrite pgt_spec by auto. destruct (0 <? cmp rx x)%Z; reflexivity.
    - assert (Kl : ekey lx = key (eid lx)) by (apply Hk; cbn; auto).
      rewrite pgt_spec by auto. destruct (0 <? cmp lx x)%Z; reflexivity.
    - assert (Kl : ekey lx = key (eid lx)) by (apply Hk; cbn; auto).
      assert (Kr : ekey rx = key (eid rx)).
      { apply Hk. cbn [elems In]. right. apply in_or_app. right. cbn; auto. }
      rewrite (pgt_spec key lx x) by auto.
      destruct (0 <? cmp lx x)%Z; cbn [option_map fst].
      + rewrite (pgt_spec key rx lx) by auto. destruct (0 <? cmp rx lx)%Z; reflexivity.
      + rewrite (pgt_spec key rx x) by auto. destruct (0 <? cmp rx x)%Z; reflexivity.
  Qed.
End SimDown.


Section SimDown2.
  Variable key : nat -> Z.

  Lemma swap_down_L c ll lx lr x r :
    Permutation (elems (zip c (T (T ll x lr) lx r))) (elems (zip c (T (T ll lx lr) x r))).
  Proof. apply (swap_perm_L c ll lx lr x r). Qed.

  Lemma p_sift_down_refines : forall t c l y r x m root fuel,
    t = T l y r -> NoDup (ids (zip c (T l x r))) -> keyed key (elems (zip c (T l x r))) ->
    rep m None root (zip c (T l x r)) -> (height t <= fuel)%nat ->
    exists m' root', p_sift_down key fuel m root (eid x) = Ok (m', root') /\
                     rep m' None root' (zip c (sift_down x t)).
  Proof.
    induction t as [|tl IHl ty tr IHr]; intros c l y r x m root fuel Et Hd Hk Hr Hf; [discriminate|].
    injection Et as -> -> ->.
    pose proof Hr as Hr0. apply rep_zip in Hr. destruct Hr as (hole & R1 & R2). cbn [rep] in R1.
    destruct R1 as (-> & Hp & Rl & Rr).
    pose proof (rep_root _ _ _ _ Rl) as Hnl. pose proof (rep_root _ _ _ _ Rr) as Hnr.
    assert (Hks : keyed key (x :: elems l ++ elems r)).
    { unfold keyed in *. rewrite Forall_forall in *. intros z Hz. apply Hk.
      rewrite elems_zip. apply in_or_app. left. exact Hz. }
    assert (Hds : ~ In (eid x) (ids l ++ ids r)).
    { apply (Permutation_NoDup (ids_zip c (T l x r))) in Hd. apply NoDup_app_inv in Hd.
      destruct Hd as (Hd & _). rewrite ids_T in Hd. inversion Hd; auto. }
    rewrite p_sift_down_unfold. cbv zeta.
    pose proof (choose_ptr key m x l r Hnl Hnr Hks) as Hch. cbv zeta in Hch. rewrite Hch. clear Hch.
    rewrite sift_down_choose.
    destruct (choose x l r) as [[|]|] eqn:Ec.
    - destruct l as [|ll lx lr].
      + rewrite Nat.eqb_refl. eexists _, _. split; [reflexivity|]. exact Hr0.
      + assert (Hne : eid lx <> eid x).
        { intros E1. apply Hds. rewrite <- E1, ids_T. cbn; auto. }
        rewrite (proj2 (Nat.eqb_neq _ _) Hne).
        destruct fuel as [|f]; [cbn [height] in Hf; lia|].
        destruct (promote_left_refines m root c ll lx lr x r Hd Hr0) as (m' & root' & -> & Hr').
        destruct (IHl ((L, lx, r) :: c) ll lx lr x m' root' f eq_refl) as (m'' & root'' & E2 & R2'); auto.
        * cbn [zip]. eapply Permutation_NoDup; [|exact Hd]. symmetry. apply ids_perm. apply swap_perm_L.
        * cbn [zip]. eapply keyed_perm; [|exact Hk]. symmetry. apply swap_perm_L.
        * cbn [height] in *. lia.
        * eexists _, _. split; [exact E2|]. exact R2'.
    - destruct r as [|rl rx rr].
      + destruct l; rewrite Nat.eqb_refl; eexists _, _; (split; [reflexivity|]); exact Hr0.
      + assert (Hne : eid rx <> eid x).
        { intros E1. apply Hds. rewrite <- E1. apply in_or_app. right. rewrite ids_T. cbn; auto. }
        assert (Hgo : exists m' root',
                   (if Nat.eqb (eid rx) (eid x) then Ok (m, root)
                    else match fuel with
                         | O => Flt
                         | S f => match promote m root (eid rx) with
                                  | None => Flt
                                  | Some (m', root') => p_sift_down key f m' root' (eid x)
                                  end
                         end) = Ok (m', root') /\
                   rep m' None root' (zip c (T l rx (sift_down x (T rl rx rr))))).
        { rewrite (proj2 (Nat.eqb_neq _ _) Hne).
          destruct fuel as [|f]; [cbn [height] in Hf; lia|].
          destruct (promote_right_refines m root c rl rx rr x l Hd Hr0) as (m' & root' & -> & Hr').
          destruct (IHr ((R, rx, l) :: c) rl rx rr x m' root' f eq_refl) as (m'' & root'' & E2 & R2'); auto.
          * cbn [zip]. eapply Permutation_NoDup; [|exact Hd]. symmetry. apply ids_perm. apply swap_perm_R.
          * cbn [zip]. eapply keyed_perm; [|exact Hk]. symmetry. apply swap_perm_R.
          * cbn [height] in *. lia.
          * eexists _, _. split; [exact E2|]. exact R2'. }
        destruct l; exact Hgo.
    - rewrite Nat.eqb_refl. eexists _, _. split; [reflexivity|].
      destruct l, r; exact Hr0.
  Qed.
End SimDown2.


Lemma pupd_same m a v : pupd m a v a = v.
Proof. unfold pupd. rewrite Nat.eqb_refl. reflexivity. Qed.
Lemma pupd_other m a v y : y <> a -> pupd m a v y = m y.
Proof. intros H. unfold pupd. destruct (Nat.eqb_spec y a); congruence. Qed.

(** [*n = *root; if (n->l) n->l->p = n; if (n->r) n->r->p = n;] *)
Lemma replace_root_mem (m1 : pmem) (n r1 : nat) (la ra : option nat) :
  nl (m1 r1) = la -> nr (m1 r1) = ra -> np (m1 r1) = None ->
  la <> Some n -> ra <> Some n -> (la = None \/ la <> ra) ->
  let m2 := pupd m1 n (m1 r1) in
  let m3 := match nl (m2 n) with Some x => setp m2 x (Some n) | None => m2 end in
  let m4 := match nr (m3 n) with Some x => setp m3 x (Some n) | None => m3 end in
  m4 n = mkN None la ra /\
  (forall x, la = Some x \/ ra = Some x -> m4 x = mkN (Some n) (nl (m1 x)) (nr (m1 x))) /\
  (forall y, y <> n -> la <> Some y -> ra <> Some y -> m4 y = m1 y).
Proof.
  intros Hl Hr Hp Hln Hrn Hd m2 m3 m4.
  assert (M2n : m2 n = mkN None la ra).
  { unfold m2. rewrite pupd_same, (node_eta (m1 r1)), Hl, Hr, Hp. reflexivity. }
  assert (M2o : forall y, y <> n -> m2 y = m1 y) by (intros; unfold m2; apply pupd_other; auto).
  unfold m4, m3. rewrite M2n. cbn [nl].
  destruct la as [a|], ra as [b|].
  - assert (a <> n) by congruence. assert (b <> n) by congruence.
    assert (a <> b) by (destruct Hd; congruence).
    rewrite (setp_other m2 a _ n), M2n by auto. cbn [nr].
    repeat split.
    + rewrite !setp_other, M2n by auto. reflexivity.
    + intros x [[= <-]|[= <-]].
      * rewrite setp_other by auto. unfold setp. rewrite pupd_same, M2o by auto. reflexivity.
      * unfold setp at 1. rewrite pupd_same. rewrite (setp_other m2 a _ b), M2o by auto. reflexivity.
    + intros y Y1 Y2 Y3. rewrite !setp_other, M2o by congruence. reflexivity.
  - assert (a <> n) by congruence.
    rewrite (setp_other m2 a _ n), M2n by auto. cbn [nr].
    repeat split.
    + rewrite !setp_other, M2n by auto. reflexivity.
    + intros x [[= <-]|[=]]. unfold setp. rewrite pupd_same, M2o by auto. reflexivity.
    + intros y Y1 Y2 Y3. rewrite !setp_other, M2o by congruence. reflexivity.
  - rewrite M2n. cbn [nr]. assert (b <> n) by congruence.
    repeat split.
    + rewrite !setp_other, M2n by auto. reflexivity.
    + intros x [[=]|[= <-]]. unfold setp. rewrite pupd_same, M2o by auto. reflexivity.
    + intros y Y1 Y2 Y3. rewrite !setp_other, M2o by congruence. reflexivity.
  - rewrite M2n. cbn [nr]. repeat split; auto.
    intros x [[=]|[=]].
Qed.


Section SimPop.
  Variable key : nat -> Z.

  Lemma p_pop_refines ph h :
    inv h -> keyed key (elems (root h)) -> sim ph h ->
    match pop h with
    | Ok (h', r) => exists ph', p_pop key ph = Ok (ph', option_map eid r) /\ sim ph' h'
    | Flt => p_pop key ph = Flt
    end.
  Proof.
    intros Hi Hk (Hr & Hs). destruct ph as [m root sz]. destruct h as [t size].
    cbn [pm proot psize HeapModel.root HeapModel.size] in *. subst sz.
    unfold pop, p_pop, sim. cbn [pm proot psize HeapModel.root HeapModel.size].
    destruct t as [|l0 top r0].
    - cbn [rep] in Hr. subst root. eexists. split; [reflexivity|]. cbn. auto.
    - set (t := T l0 top r0) in *.
      assert (root = Some (eid top)) as -> by (cbn [t rep] in Hr; tauto).
      rewrite (p_find_refines m (Some (eid top)) t _ Hr).
      destruct (find t (wrap32 (dec64 size))) as [[[c [|zl z zr]]|]|] eqn:Ef; try reflexivity.
      destruct (find_zip _ _ _ _ Ef) as (Hz & _).
      cbn [addr_of]. set (n := eid z).
      assert (Hrz : rep m None (Some (eid top)) (zip c (T zl z zr))) by (rewrite Hz; exact Hr).
      apply rep_zip in Hrz. destruct Hrz as (hole & R1 & R2). cbn [rep] in R1.
      destruct R1 as (-> & Hpn & _). fold n in Hpn, R2.
      assert (Hd : NoDup (ids (zip c (T zl z zr)))) by (rewrite Hz; apply (inv_nodup _ Hi)).
      apply (Permutation_NoDup (ids_zip c (T zl z zr))) in Hd. rewrite ids_T in Hd. fold n in Hd.
      destruct (NoDup_app_inv _ _ Hd) as (_ & NG & DG).
      assert (HnG : ~ In n (ids_ctx c)) by (intros H; apply (DG n); cbn; auto).
      destruct c as [|[[d qx] sib] c'].
      + cbn [ctx_par] in Hpn. rewrite Hpn. cbn [zip].
        eexists. split; [reflexivity|]. cbn. auto.
      + cbn [ctx_par] in Hpn. rewrite Hpn. set (q := eid qx) in *.
        rewrite ids_ctx_cons in NG, HnG. fold q in NG, HnG.
        inversion NG as [|? ? HqG NG']; subst.
        assert (Hunlink : exists m1,
                   (if oeqb (nl (m q)) (Some n) then (setl m q None, Some (eid top))
                    else (setr m q None, Some (eid top))) = (m1, Some (eid top)) /\
                   rep m1 None (Some (eid top)) (zip ((d, qx, sib) :: c') E)).
        { assert (Fr : forall m1, (forall y, y <> q -> m1 y = m y) ->
                       forall y, In y (ids sib ++ ids_ctx c') -> m1 y = m y).
          { intros m1 F y Hy. apply F. intros ->. auto. }
          cbn [rep_ctx] in R2. fold q in R2. destruct d; destruct R2 as (H1 & H2 & H3 & H4).
          - rewrite H1. cbn [oeqb]. rewrite Nat.eqb_refl. eexists. split; [reflexivity|].
            apply rep_zip. exists None. split; [reflexivity|]. cbn [rep_ctx]. fold q.
            autorewrite with fld0. rewrite Nat.eqb_refl. repeat split; auto.
            + apply (rep_frame m); auto. intros y Hy. apply (Fr _ (fun y H => setl_other m q None y H)).
              apply in_or_app; auto.
            + apply (rep_ctx_frame m); auto. intros y Hy. apply (Fr _ (fun y H => setl_other m q None y H)).
              apply in_or_app; auto.
          - assert (Hf : oeqb (nl (m q)) (Some n) = false).
            { destruct (oeqb (nl (m q)) (Some n)) eqn:E1; auto. apply oeqb_some in E1.
              apply rep_root in H3. rewrite H3 in E1. apply root_addr_in in E1.
              exfalso. apply HnG. right. apply in_or_app; auto. }
            rewrite Hf. eexists. split; [reflexivity|].
            apply rep_zip. exists None. split; [reflexivity|]. cbn [rep_ctx]. fold q.
            autorewrite with fld0. rewrite Nat.eqb_refl. repeat split; auto.
            + apply (rep_frame m); auto. intros y Hy. apply (Fr _ (fun y H => setr_other m q None y H)).
              apply in_or_app; auto.
            + apply (rep_ctx_frame m); auto. intros y Hy. apply (Fr _ (fun y H => setr_other m q None y H)).
              apply in_or_app; auto. }
        destruct Hunlink as (m1 & -> & Rm1).
        assert (Hri : troot (zip ((d, qx, sib) :: c') E) = troot t).
        { rewrite <- Hz. apply zip_root_indep. discriminate. }
        destruct (zip _ E) as [|l1 y1 r1'] eqn:Et1.
        { apply zip_E in Et1. destruct Et1; discriminate. }
        assert (y1 = top) as ->.
        { cbn in Hri. congruence. }
        assert (Hsubel : forall y, In y (elems (T l1 top r1')) -> In y (elems t)).
        { intros y Hy. rewrite <- Et1 in Hy. rewrite <- Hz. rewrite elems_zip in *.
          cbn [elems app] in Hy. apply in_or_app. auto. }
        assert (Pt1 : Permutation (ids (T l1 top r1')) (q :: ids sib ++ ids_ctx c')).
        { rewrite <- Et1, ids_zip, ids_ctx_cons. reflexivity. }
        cbn [rep] in Rm1. destruct Rm1 as (_ & Hp1 & Rl1 & Rr1).
        pose proof (rep_root _ _ _ _ Rl1) as Hla. pose proof (rep_root _ _ _ _ Rr1) as Hra.
        (* facts about the addresses of the remaining tree *)
        assert (Hd1 : NoDup (ids (T l1 top r1'))).
        { eapply Permutation_NoDup; [symmetry; exact Pt1|]. exact NG. }
        assert (Hn1 : ~ In n (ids (T l1 top r1'))).
        { intros H. eapply Permutation_in in H; [|exact Pt1]. auto. }
        rewrite ids_T in Hd1, Hn1. inversion Hd1 as [|? ? Htop Hd1']; subst.
        destruct (NoDup_app_inv _ _ Hd1') as (NL & NR & DLR).
        assert (Hln : root_addr l1 <> Some n).
        { intros E1. apply root_addr_in in E1. apply Hn1. right. apply in_or_app; auto. }
        assert (Hrn : root_addr r1' <> Some n).
        { intros E1. apply root_addr_in in E1. apply Hn1. right. apply in_or_app; auto. }
        assert (Hlr : root_addr l1 = None \/ root_addr l1 <> root_addr r1').
        { destruct (root_addr l1) as [a|] eqn:Ea; auto. right. intros E1. symmetry in E1.
          apply root_addr_in in Ea, E1. eauto. }
        rewrite <- Hla in Hln, Hlr. rewrite <- Hra in Hrn, Hlr.
        destruct (replace_root_mem m1 n (eid top) _ _ eq_refl eq_refl Hp1 Hln Hrn Hlr)
          as (M4n & M4c & M4o).
        cbv zeta in M4n, M4c, M4o.
        match goal with |- context [p_sift_down key _ ?mm _ _] => set (m4 := mm) in * end.
        assert (Rnew : rep m4 None (Some n) (zip [] (T l1 z r1'))).
        { cbn [zip rep]. fold n. rewrite M4n. cbn [np nl nr]. repeat split; auto.
          - apply (rep_reparent m1 m4 l1 (Some (eid top))); auto.
            intros y Hy Hny. apply M4o; auto.
            + intros ->. apply Hn1. right. apply in_or_app; auto.
            + intros E1. rewrite Hra in E1. apply root_addr_in in E1. eauto.
          - apply (rep_reparent m1 m4 r1' (Some (eid top))); auto.
            intros y Hy Hny. apply M4o; auto.
            + intros ->. apply Hn1. right. apply in_or_app; auto.
            + intros E1. rewrite Hla in E1. apply root_addr_in in E1. eauto. }
        destruct (p_sift_down_refines key (T l1 top r1') [] l1 top r1' z m4 (Some n) (N.to_nat size) eq_refl)
          as (m5 & root5 & E5 & R5); auto.
        * cbn [zip]. rewrite ids_T. fold n. constructor; auto.
          intros H. apply Hn1. right. exact H.
        * cbn [zip]. unfold keyed in *. rewrite Forall_forall in *. intros y Hy. apply Hk.
          cbn [elems In] in Hy. destruct Hy as [<-|Hy].
          -- rewrite <- Hz. apply zip_top_elems.
          -- apply Hsubel. cbn [elems]. right. exact Hy.
        * pose proof (height_le_size (T l1 top r1')) as Hh.
          pose proof (inv_size _ Hi) as Hsz. cbn [HeapModel.root HeapModel.size] in Hsz.
          assert (length (elems (T l1 top r1')) <= length (elems t))%nat.
          { rewrite <- Et1, <- Hz.
            rewrite (Permutation_length (elems_zip _ E)).
            rewrite (Permutation_length (elems_zip _ (T zl z zr))).
            rewrite !app_length. apply Nat.add_le_mono_r. cbn [elems length]. lia. }
          lia.
        * fold n in E5. rewrite E5. eexists. split; [reflexivity|]. cbn [pm proot psize HeapModel.root HeapModel.size zip] in *. auto.
  Qed.
End SimPop.


Section SimStep.
  Variable key : nat -> Z.

  Lemma p_post_refines m : forall t fuel par a,
    rep m par a t -> (height t <= fuel)%nat -> p_post fuel m a = map eid (postorder t).
  Proof.
    induction t as [|l IHl x r IHr]; intros fuel par a Hr Hf; cbn [rep] in Hr.
    - subst a. destruct fuel; reflexivity.
    - destruct Hr as (-> & _ & Hl & Hr). destruct fuel as [|f]; [cbn [height] in Hf; lia|].
      cbn [p_post postorder height] in *. rewrite !map_app. cbn [map].
      rewrite (IHl f (Some (eid x))), (IHr f (Some (eid x))); auto; lia.
  Qed.

  (** one operation: the pointer-level model returns the same results and its
      memory represents the functional tree again (all parent pointers
      consistent); it faults exactly when the functional model does *)
  Theorem p_step_refines ph h o :
    inv h -> keyed key (elems (root h)) -> sim ph h ->
    match step key h o with
    | Done h' out =>
      exists ph', p_step key ph o = Done ph' out /\ sim ph' h' /\ keyed key (elems (root h'))
    | Fault => p_step key ph o = Fault
    | Precond => True
    | Abort => False
    end.
  Proof.
    intros Hi Hk Hsim. destruct o as [e| | | |]; cbn [step p_step].
    - destruct (mem e (root h)) eqn:Em; auto.
      assert (Hn : ~ In e (ids (root h))) by (rewrite <- mem_spec; congruence).
      pose proof (p_push_refines key ph h e Hi Hk Hsim Hn) as P.
      pose proof (push_correct h (mkE e (key e)) Hi Hn) as Q.
      destruct (push h (mkE e (key e))) as [h'|].
      + destruct P as (ph' & -> & S'). exists ph'. split; [reflexivity|]. split; [exact S'|].
        destruct Q as (_ & Q & _). eapply keyed_perm; [symmetry; exact Q|].
        constructor; auto.
      + rewrite P. reflexivity.
    - pose proof (p_pop_refines key ph h Hi Hk Hsim) as P.
      pose proof (pop_correct h Hi) as Q.
      destruct (pop h) as [[h' r]|].
      + destruct P as (ph' & -> & S'). exists ph'. split; [reflexivity|]. split; [exact S'|].
        destruct r as [x|].
        * destruct Q as (_ & _ & Q & _). apply (keyed_perm key _ _ Q) in Hk.
          inversion Hk; auto.
        * destruct Q as (_ & ->). exact Hk.
      + rewrite P. reflexivity.
    - exists ph. split; [|split; auto]. destruct Hsim as (Hr & _). unfold get, p_get.
      destruct (root h); cbn [rep] in Hr.
      + rewrite Hr. reflexivity.
      + destruct Hr as (-> & _). reflexivity.
    - exists ph. split; [|split; auto]. destruct Hsim as (Hr & Hs). rewrite Hs. reflexivity.
    - destruct Hsim as (Hr & Hs). unfold clear, p_clear.
      destruct (root h) as [|l x r] eqn:Et; cbn [rep] in Hr.
      + rewrite Hr. exists ph. split; [reflexivity|]. split; [split; auto; rewrite Et; exact Hr|rewrite Et; exact Hk].
      + assert (proot ph = Some (eid x)) as Hp by tauto. rewrite Hp, <- Hp.
        eexists. split; [|split].
        * f_equal. rewrite (p_post_refines (pm ph) (T l x r) _ None (proot ph)).
          -- rewrite map_map. reflexivity.
          -- cbn [rep]. exact Hr.
          -- rewrite Hs, (inv_size _ Hi), Et, Nat2N.id. apply height_le_size.
        * split; cbn; auto.
        * constructor.
  Qed.

  (** whole histories: same outputs, and the final memory represents the final
      functional state *)
  Theorem p_run_refines ops : forall ph h,
    inv h -> keyed key (elems (root h)) -> sim ph h ->
    match run (step key) h ops with
    | (Done h' _, outs) =>
      exists ph', run (p_step key) ph ops = (Done ph' [], outs) /\ sim ph' h'
    | (Fault, outs) => run (p_step key) ph ops = (Fault, outs)
    | (Precond, _) => True
    | (Abort, _) => False
    end.
  Proof.
    induction ops as [|o ops IH]; intros ph h Hi Hk Hs; cbn [run].
    - exists ph. auto.
    - pose proof (p_step_refines ph h o Hi Hk Hs) as P.
      pose proof (step_correct key h o Hi) as Q.
      destruct (step key h o) as [h' out| | |]; auto.
      + destruct P as (ph' & -> & S' & K'). destruct Q as (Hi' & _).
        specialize (IH ph' h' Hi' K' S').
        destruct (run (step key) h' ops) as [[h''| | |] outs]; auto.
        * destruct IH as (ph'' & -> & S''). exists ph''. auto.
        * rewrite IH. reflexivity.
      + rewrite P. reflexivity.
  Qed.

  Lemma sim_init : sim ph_init h_init.
  Proof. split; reflexivity. Qed.
End SimStep.


Section SimInit.
  Variable key : nat -> Z.

  (** from the freshly initialised heap, for every script *)
  Theorem p_run_refines_init ops :
    match run (step key) h_init ops with
    | (Done h' _, outs) =>
      exists ph', run (p_step key) ph_init ops = (Done ph' [], outs) /\ sim ph' h'
    | (Fault, outs) => run (p_step key) ph_init ops = (Fault, outs)
    | (Precond, _) => True
    | (Abort, _) => False
    end.
  Proof. apply p_run_refines; [apply inv_init|constructor|apply sim_init]. Qed.
End SimInit.
