(** Executable model of src/map.c (C08, C15, C16), statement by statement, on
    top of the red-black tree model (TreeModel.v) and the allocator model
    (AllocModel.v).

    A map node ([struct cstl_map_node], 48 bytes on LP64) is an allocator
    block; its identity is the block id.  The tree links and the colour of
    the embedded [struct cstl_rbtree_node] live in the inductive [tree] of
    TreeModel.v whose elements are [mkE node (ck key)]: [eid] = the node,
    [ekey] = the canonical comparison key of the key stored in the node
    ([cstl_map_node_cmp] calls the user comparison on [a->key], [b->key];
    the user comparison is modelled as the order of [ck k], so that distinct
    key pointers may compare equal).  The [key] and [val] fields of the nodes
    are the table [mtab] : node -> (key id, value id); an entry exists exactly
    while the node's memory is allocated, and reading a field of a node
    without an entry is a [Fault].  Key and value ids stand for the caller's
    pointers; the map never dereferences them itself.

    [ck] and the allocator oracle [ok] are section variables: every function
    and every theorem is parametric in them. *)
From Cstl Require Import Prelude AllocModel TreeModel.
Local Open Scope Z_scope.

(** sizeof(struct cstl_map_node): key, val, colour (+ padding), p, l, r *)
Definition NODE_SIZE : N := 48.

Definition table := list (nat * (nat * nat)).

Fixpoint tab_get (tb : table) (n : nat) : option (nat * nat) :=
  match tb with
  | [] => None
  | (m, kv) :: r => if Nat.eqb m n then Some kv else tab_get r n
  end.

Definition tab_del (tb : table) (n : nat) : table :=
  filter (fun p => negb (Nat.eqb (fst p) n)) tb.

(** cstl_map_t: the tree ([t.t.root] with the nodes' links and colours), the
    size field of the embedded binary tree, the nodes' key/val fields, and
    the heap *)
Record mstate := mkM { mt : tree; msz : N; mtab : table; mal : alloc }.
Definition m_init : mstate := mkM E 0 [] alloc_init.

(** cstl_map_iterator_t: key, val, _ (the node); [None] = NULL *)
Record iter := mkI { ikey : option nat; ival : option nat; inode : option nat }.
(** cstl_map_iterator_end *)
Definition iter_end : iter := mkI None None None.

(** what a clear does to the nodes, in program order: the user callback is
    handed (key, val) of node [n] / node [n] is passed to free *)
Inductive cev := CbEv (n k v : nat) | FrEv (n : nat).

Inductive mop :=
| MInsert (k v : nat) (it : bool)      (* it = false: the iterator argument is NULL *)
| MFind (k : nat)
| MErase (k : nat) (it : bool)
| MEraseIter (k : nat)                 (* find, then erase_iterator on the result *)
| MSize
| MClear (cb : bool)                   (* cb = false: clr == NULL *)
| MLive.                               (* harness: number of live heap blocks *)

Section Map.
  Variable ck : nat -> Z.
  Variable ok : nat -> N -> bool.

  (** cstl_map_iterator_init(m, i, node) *)
  Definition iterator_init (tb : table) (node : option nat) : option iter :=
    match node with
    | Some n =>
      match tab_get tb n with
      | Some (k, v) => Some (mkI (Some k) (Some v) (Some n))   (* i->key = node->key; i->val = node->val; i->_ = node *)
      | None => None
      end
    | None => Some iter_end
    end.

  (** __cstl_map_find(map, key, &p) = cstl_rbtree_find = cstl_bintree_find
      with a stack node holding [key]: (found node, would-be parent) *)
  Definition map_find_node (s : mstate) (k : nat) : option nat * option nat :=
    let '(f, p) := bt_find (mt s) (ck k) in (option_map eid f, option_map eid p).

  (** cstl_map_find *)
  Definition map_find (s : mstate) (k : nat) : option iter :=
    iterator_init (mtab s) (fst (map_find_node s k)).

  (** cstl_map_erase_iterator(map, i):
      n = i->_; __cstl_rbtree_erase(&map->t, &n->n); cstl_map_node_free(n) *)
  Definition map_erase_iterator (s : mstate) (i : iter) : option mstate :=
    match inode i with
    | None => None                       (* __cstl_rbtree_erase dereferences &n->n *)
    | Some n =>
      match locate n (mt s) [] with
      | Some (T nc nl ne nr, c) =>
        match rb_erase_at nc nl ne nr c with
        | Some t' =>
          Some (mkM t' (msz s - 1)%N (tab_del (mtab s) n) (free (mal s) (Some n)))
        | None => None
        end
      | _ => None                        (* not a node of this tree *)
      end
    end.

  (** cstl_map_erase(map, key, _i): (state, err, *_i) *)
  Definition map_erase (s : mstate) (k : nat) : option (mstate * Z * iter) :=
    (* err = -1; cstl_map_find(map, key, &i) *)
    match map_find s k with
    | None => None
    | Some i =>
      (* *_i = i; _i->_ = NULL *)
      let i' := mkI (ikey i) (ival i) None in
      match inode i with
      | Some _ =>                        (* i._ != NULL *)
        match map_erase_iterator s i with
        | Some s' => Some (s', 0, i')
        | None => None
        end
      | None => Some (s, -1, i')
      end
    end.

  (** cstl_map_insert(map, key, val, i) up to the final iterator_init:
      (state, err, node) *)
  Definition map_insert (s : mstate) (k v : nat) : option (mstate * Z * option nat) :=
    (* err = 1; node = __cstl_map_find(map, key, &p) *)
    let '(node, p) := map_find_node s k in
    match node with
    | Some n => Some (s, 1, Some n)
    | None =>
      (* err = -1; node = cstl_map_node_alloc(key, val) *)
      let '(a', r) := malloc ok (mal s) NODE_SIZE in
      match r with
      | Some b =>
        let tb' := (b, (k, v)) :: mtab s in          (* n->key = key; n->val = val *)
        (* cstl_rbtree_insert(&map->t, node, p); err = 0 *)
        match rb_insert_from p (mt s) (mkE b (ck k)) with
        | Some (Some t') => Some (mkM t' (msz s + 1)%N tb' a', 0, Some b)
        | _ => None                                  (* fix-up fault / p is not a node of the tree *)
        end
      | None => Some (mkM (mt s) (msz s) (mtab s) a', -1, None)
      end
    end.

  (** __cstl_map_node_clear for the nodes in the order in which
      cstl_bintree_clear calls back: user callback with a detached iterator
      (if clr != NULL), then free.  Returns table, heap, what the user
      callback observed (key, val, number of live heap blocks at that
      moment; the harness callback records these) and the event trace. *)
  Fixpoint clear_nodes (cb : bool) (l : list elem) (tb : table) (a : alloc)
    : option (table * alloc * list Z * list cev) :=
    match l with
    | [] => Some (tb, a, [], [])
    | e :: r =>
      let n := eid e in
      let user :=
        if cb then
          (* cstl_map_iterator_init(cmc->map, &i, node); i._ = NULL; cmc->clr(&i, cmc->priv) *)
          match tab_get tb n with
          | Some (k, v) => Some ([zid k; zid v; Z.of_nat (length (live a))], [CbEv n k v])
          | None => None                             (* node->key read from freed memory *)
          end
        else Some ([], []) in
      match user with
      | None => None
      | Some (o1, t1) =>
        (* cstl_map_node_free(node) *)
        match clear_nodes cb r (tab_del tb n) (free a (Some n)) with
        | Some (tb', a', o2, t2) => Some (tb', a', o1 ++ o2, t1 ++ FrEv n :: t2)
        | None => None
        end
      end
    end.

  (** cstl_map_clear = cstl_bintree_clear with __cstl_map_node_clear *)
  Definition map_clear (cb : bool) (s : mstate) : option (mstate * list Z * list cev) :=
    match mt s with
    | E => Some (s, [], [])                          (* bt->root == NULL *)
    | _ =>
      match clear_nodes cb (bt_clear (mt s)) (mtab s) (mal s) with
      | Some (tb', a', out, tr) => Some (mkM E 0 tb' a', out, tr)   (* bt->root = NULL; bt->size = 0 *)
      | None => None
      end
    end.

  (** ** number of calls of the user comparison (through cstl_map_node_cmp)

      cstl_bintree_find compares once per node it visits, the found one
      included; cstl_bintree_insert compares once per node of its descent,
      which starts at the hinted node (at the root without a hint).  With
      the would-be parent as hint the descent is one comparison long
      (MapProofs.hinted_insert_one_cmp). *)
  Definition find_cmps (t : tree) (k : Z) : nat :=
    let '(sub, c) := find_ctx k t [] in length c + (if isE sub then 0 else 1).

  Definition insert_cmps (hint : option nat) (t : tree) (x : elem) : nat :=
    match hint with
    | None => length (descend x t [])
    | Some h =>
      match locate h t [] with
      | Some (sub, c) => length (descend x sub c) - length c
      | None => O
      end
    end.

  Definition op_cmps (s : mstate) (o : mop) : nat :=
    match o with
    | MInsert k v _ =>
      let '(node, p) := map_find_node s k in
      find_cmps (mt s) (ck k) +
      match node with
      | Some _ => O
      | None => if grant ok (mal s) NODE_SIZE
                then insert_cmps p (mt s) (mkE (next (mal s)) (ck k)) else O
      end
    | MFind k | MErase k _ | MEraseIter k => find_cmps (mt s) (ck k)
    | MSize | MClear _ | MLive => O
    end.

  Definition iter_out (i : iter) : list Z :=
    [zopt (ikey i); zopt (ival i); match inode i with Some _ => 1 | None => 0 end].

  Definition step (s : mstate) (o : mop) : outcome mstate :=
    match o with
    | MInsert k v it =>
      match map_insert s k v with
      | Some (s', err, node) =>
        if it then
          (* if (i != NULL) cstl_map_iterator_init(map, i, node) *)
          match iterator_init (mtab s') node with
          | Some i => Done s' (err :: iter_out i)
          | None => Fault
          end
        else Done s' [err]
      | None => Fault
      end
    | MFind k =>
      match map_find s k with
      | Some i => Done s (iter_out i)
      | None => Fault
      end
    | MErase k it =>
      match map_erase s k with
      | Some (s', err, i) => Done s' (err :: (if it then iter_out i else []))
      | None => Fault
      end
    | MEraseIter k =>
      match map_find s k with
      | Some i =>
        match inode i with
        | None => Precond                            (* erase_iterator of the end iterator *)
        | Some _ =>
          match map_erase_iterator s i with
          | Some s' => Done s' []
          | None => Fault
          end
        end
      | None => Fault
      end
    | MSize => Done s [Z.of_N (msz s)]               (* cstl_map_size *)
    | MClear cb =>
      match map_clear cb s with
      | Some (s', out, _) => Done s' out
      | None => Fault
      end
    | MLive => Done s [Z.of_nat (length (live (mal s)))]
    end.
End Map.

(** canonical comparison key used by the scripts: the key id itself, or the
    key id modulo [m] when the header says [cmpmod m] with m > 0 *)
Definition ck_mod (m : nat) (k : nat) : Z :=
  match m with O => Z.of_nat k | _ => Z.of_nat (Nat.modulo k m) end.

(** allocator events logged by one operation (oldest first), given the heap
    before and after *)
Definition new_events (a a' : alloc) : list aev :=
  rev (firstn (length (AllocModel.events a') - length (AllocModel.events a)) (AllocModel.events a')).
