(** The scripted system of TreeModel.v: invariant of every reachable state,
    refinement of every operation to the ordered-bag specification, absence
    of faults (C01, C02, C15). *)
From Cstl Require Import Prelude TreeModel TreeProofs RBProofs.
Local Open Scope Z_scope.

Lemma held_spec t e : held t e = true <-> In e (ids t).
Proof.
  unfold held, ids. rewrite existsb_exists. split.
  - intros (y & Hy & He). apply Nat.eqb_eq in He. subst e. apply in_map; auto.
  - intros H. apply in_map_iff in H. destruct H as (y & <- & Hy). exists y. split; auto.
    apply Nat.eqb_refl.
Qed.

Lemma ids_perm a b : Permutation a b -> Permutation (map eid a) (map eid b).
Proof. apply Permutation_map. Qed.

Lemma NoDup_ids_remove l1 (e : elem) l2 :
  NoDup (map eid (l1 ++ e :: l2)) -> NoDup (map eid (l1 ++ l2)).
Proof. rewrite !map_app. cbn [map]. apply NoDup_remove_1. Qed.

Section Sys.
  Variable key : nat -> Z.
  Variable kd : kind.
  Notation step := (TreeModel.step key kd).

  (** what holds in every reachable state *)
  Definition tinv (s : tstate) : Prop :=
    bst (tr s) /\ NoDup (ids (tr s)) /\ sz s = N.of_nat (length (inorder (tr s))) /\
    (kd = RB -> rb_inv (tr s)).

  (** abstraction: the held elements in traversal order *)
  Definition abs (s : tstate) : list elem := inorder (tr s).

  Definition zids (l : list elem) : list Z := map (fun e => zid (eid e)) l.

  (** the specification the model refines: an ordered bag of elements with
      identity *)
  Definition spec (b : list elem) (o : op) (b' : list elem) (out : list Z) : Prop :=
    match o with
    | Insert e => out = [] /\ b' = ins_sorted (mkE e (key e)) b
    | InsertH e =>
      b' = ins_sorted (mkE e (key e)) b /\
      exists p, out = [zelem p] /\ (forall x, p = Some x -> In x b)
    | Find k =>
      b' = b /\ exists r p, out = [zelem r; zelem p] /\
      match r with
      | Some e => In e b /\ ekey e = k
      | None => forall e, In e b -> ekey e <> k
      end
    | Erase k =>
      (exists e l1 l2, out = [zid (eid e)] /\ ekey e = k /\ b = l1 ++ e :: l2 /\ b' = l1 ++ l2)
      \/ (out = [znull] /\ b' = b /\ forall e, In e b -> ekey e <> k)
    | Foreach rev stop =>
      b' = b /\
      exists evs,
        mid_leaf evs = (if rev then List.rev b else b) /\
        (forall e, In e b -> occ e evs = [LEAF] \/ occ e evs = [PRE; MID; POST]) /\
        out = (if ((stop =? O)%nat || (length evs <? stop)%nat)%bool
               then 0 :: zevents evs
               else Z.of_nat stop :: zevents (firstn stop evs))
    | Clear => b' = [] /\ exists log, Permutation log b /\ out = zids log
    | Height => b' = b
    | Size => b' = b /\ out = [Z.of_nat (length b)]
    end.

  Lemma tinv_init : tinv t_init.
  Proof.
    unfold tinv, bst, ids. cbn. split; [constructor|]. split; [constructor|]. split; auto.
    intros _. apply rb_inv_E.
  Qed.

  Lemma insert_tinv s x t' :
    tinv s -> ~ In (eid x) (ids (tr s)) ->
    inorder t' = ins_sorted x (inorder (tr s)) -> (kd = RB -> rb_inv t') ->
    tinv (mkS t' (sz s + 1)).
  Proof.
    intros (B & Nd & Sz & Rb) Hn Hi Hr. unfold tinv, bst, ids. cbn [tr sz]. rewrite Hi.
    pose proof (ins_sorted_perm x (inorder (tr s))) as P.
    split; [|split; [|split]]; auto.
    - apply ins_sorted_sorted; auto.
    - eapply Permutation_NoDup; [apply Permutation_sym, ids_perm, P|]. cbn. constructor; auto.
    - rewrite (Permutation_length P). cbn [length]. lia.
  Qed.

  (** insert, plain or with a hint that leads to the same link *)
  Lemma do_insert_ok s hint x out :
    tinv s -> ~ In (eid x) (ids (tr s)) ->
    insert_ctx hint (tr s) x = Some (descend x (tr s) []) ->
    exists s', do_insert kd s hint x out = Done s' out /\ tinv s' /\
               abs s' = ins_sorted x (abs s).
  Proof.
    intros I Hn Hc. pose proof I as (B & Nd & Sz & Rb). unfold do_insert, abs. destruct kd eqn:Ek.
    - unfold bt_insert_from. rewrite Hc. fold (bt_insert (tr s) x).
      eexists; split; [reflexivity|]. cbn [tr]. split.
      + apply (insert_tinv s x); auto; [apply bt_insert_inorder; auto|intros Hk; congruence].
      + apply bt_insert_inorder; auto.
    - unfold rb_insert_from. rewrite Hc. fold (rb_insert (tr s) x).
      destruct (rb_insert_inv _ x (Rb eq_refl)) as (t' & Et & Rt). rewrite Et.
      apply rb_insert_inorder in Et. rewrite bt_insert_inorder in Et by auto.
      eexists; split; [reflexivity|]. cbn [tr]. split; auto.
      apply (insert_tinv s x); auto.
  Qed.

  Lemma erase_tinv s e l1 l2 t' :
    tinv s -> inorder (tr s) = l1 ++ e :: l2 -> inorder t' = l1 ++ l2 ->
    (kd = RB -> rb_inv t') -> tinv (mkS t' (sz s - 1)).
  Proof.
    intros (B & Nd & Sz & Rb) H1 H2 Hr. unfold tinv, bst, ids in *. cbn [tr sz].
    rewrite H1 in *. rewrite H2. split; [|split; [|split]]; auto.
    - eapply sorted_remove; eauto.
    - eapply NoDup_ids_remove; eauto.
    - rewrite Sz, !app_length. cbn [length]. lia.
  Qed.

  Theorem step_correct s o :
    tinv s ->
    match step s o with
    | Done s' out => tinv s' /\ spec (abs s) o (abs s') out
    | Precond => True
    | Abort => False
    | Fault => False
    end.
  Proof.
    intros I. pose proof I as (B & Nd & Sz & Rb).
    destruct o as [e|e|k|k|rev stop| | |]; cbn [TreeModel.step].
    - (* insert *)
      destruct (held (tr s) e) eqn:Eh; [exact Logic.I|].
      assert (Hn : ~ In (eid (mkE e (key e))) (ids (tr s))).
      { cbn. rewrite <- held_spec, Eh. discriminate. }
      destruct (do_insert_ok s None _ [] I Hn eq_refl) as (s' & -> & I' & Ha).
      split; auto. cbn. auto.
    - (* insert with the hint from find *)
      destruct (held (tr s) e) eqn:Eh; [exact Logic.I|].
      assert (Hn : ~ In (eid (mkE e (key e))) (ids (tr s))).
      { cbn. rewrite <- held_spec, Eh. discriminate. }
      pose proof (insert_ctx_hint (tr s) (mkE e (key e)) Nd) as Hc. cbn [ekey] in Hc.
      destruct (do_insert_ok s _ _ [zelem (snd (bt_find (tr s) (key e)))] I Hn Hc)
        as (s' & -> & I' & Ha).
      split; auto. cbn. split; auto. eexists; split; [reflexivity|].
      intros x Hx. unfold bt_find in Hx. destruct (find_ctx (key e) (tr s) []) as [sub c'] eqn:Ef.
      cbn [snd] in Hx. destruct c' as [|f c'']; [discriminate|]. injection Hx as <-.
      apply find_ctx_path in Ef. destruct Ef as (new & Hc' & _ & Hin).
      rewrite app_nil_r in Hc'. subst new. apply Hin. cbn; auto.
    - (* find *)
      pose proof (bt_find_spec (tr s) k B) as F.
      destruct (bt_find (tr s) k) as [f p]. split; auto. cbn. split; auto. exists f, p. auto.
    - (* erase *)
      destruct kd eqn:Ek.
      + pose proof (bt_erase_spec (tr s) k) as Es.
        destruct (bt_erase (tr s) k) as [[e|] t'].
        * destruct Es as (Hk & l1 & l2 & H1 & H2). split.
          -- eapply erase_tinv; eauto. intros Hk'; congruence.
          -- left. exists e, l1, l2. auto.
        * destruct Es as (-> & Hno). split.
          -- destruct s; exact I.
          -- right. unfold abs. cbn. auto.
      + destruct (rb_erase_inv _ k (Rb eq_refl)) as (r & t' & Er & Rt). rewrite Er.
        apply rb_erase_inorder in Er. destruct Er as (-> & Hi).
        pose proof (bt_erase_spec (tr s) k) as Es.
        destruct (bt_erase (tr s) k) as [[e|] t0]; cbn [fst snd] in *.
        * destruct Es as (Hk & l1 & l2 & H1 & H2). rewrite H2 in Hi. split.
          -- eapply erase_tinv; eauto.
          -- left. exists e, l1, l2. auto.
        * destruct Es as (-> & Hno). split.
          -- destruct I as (B' & Nd' & Sz' & _). unfold tinv, bst, ids. cbn [tr sz].
             rewrite Hi. auto.
          -- right. unfold abs. cbn [tr]. auto.
    - (* foreach *)
      pose proof (foreach_script (if rev then Rt else Lf) (tr s) stop) as F. cbn zeta in F.
      destruct (foreach _ _ _ _) as [[n log] res].
      split; auto. cbn. split; auto.
      exists (events (if rev then Rt else Lf) (tr s)). split; [|split].
      + rewrite events_mid_leaf. destruct rev; reflexivity.
      + intros e He. apply events_bracketing; auto. apply in_map; auto.
      + destruct (_ || _)%bool; injection F as _ -> ->; rewrite rev_involutive; reflexivity.
    - (* clear *)
      destruct (tr s) eqn:Et.
      + split; auto. unfold abs. rewrite Et. cbn. split; auto. exists []. auto.
      + split; [apply tinv_init|]. cbn. split; auto. exists (bt_clear (T c t1 x t2)).
        split; auto. unfold abs. rewrite Et. apply clear_log_perm.
    - (* height *)
      destruct (bt_height (tr s)). split; auto. reflexivity.
    - (* size *)
      split; auto. cbn. split; auto. rewrite Sz, nat_N_Z. reflexivity.
  Qed.

  Theorem reach_tinv s : reach step t_init s -> tinv s.
  Proof.
    intros R. induction R as [|s o s' out R IH Hs]; [apply tinv_init|].
    pose proof (step_correct s o IH) as H. rewrite Hs in H. tauto.
  Qed.

  Theorem run_safe ops :
    match fst (run step t_init ops) with
    | Done s _ => tinv s
    | Precond => True
    | _ => False
    end.
  Proof.
    generalize tinv_init. generalize t_init.
    induction ops as [|o ops IH]; intros s W; cbn; auto.
    pose proof (step_correct s o W) as H.
    destruct (step s o) as [s' out| | |]; try tauto.
    destruct H as (W' & _). specialize (IH s' W').
    destruct (run step s' ops); cbn in *; auto.
  Qed.

  (** ** the unordered view: a bag with identity; erase removes some element
      comparing equal *)
  Definition bag_spec (b : list elem) (o : op) (b' : list elem) (out : list Z) : Prop :=
    match o with
    | Insert e | InsertH e => Permutation b' (mkE e (key e) :: b)
    | Erase k =>
      (exists e, out = [zid (eid e)] /\ ekey e = k /\ In e b /\ Permutation b (e :: b'))
      \/ (out = [znull] /\ b' = b /\ forall e, In e b -> ekey e <> k)
    | Clear => b' = []
    | Size => b' = b /\ out = [Z.of_nat (length b)]
    | _ => b' = b
    end.

  Lemma spec_bag b o b' out : spec b o b' out -> bag_spec b o b' out.
  Proof.
    destruct o; cbn; try tauto.
    - intros (_ & ->). apply ins_sorted_perm.
    - intros (-> & _). apply ins_sorted_perm.
    - intros [(e & l1 & l2 & Ho & Hk & -> & ->)|H]; [left|right; auto].
      exists e. repeat split; auto.
      + apply in_or_app; cbn; auto.
      + apply Permutation_sym, Permutation_middle.
  Qed.

  (** bag-level runs *)
  Inductive bag_run : list elem -> list op -> list (list Z) -> list elem -> Prop :=
  | bag_nil b : bag_run b [] [] b
  | bag_cons b o b1 out ops outs b2 :
      bag_spec b o b1 out -> bag_run b1 ops outs b2 -> bag_run b (o :: ops) (out :: outs) b2.

  Theorem run_refines_bag ops : forall s, tinv s ->
    match run step s ops with
    | (Done s' _, outs) => bag_run (abs s) ops outs (abs s') /\ tinv s'
    | _ => True
    end.
  Proof.
    induction ops as [|o ops IH]; intros s W; cbn.
    - split; auto. constructor.
    - pose proof (step_correct s o W) as H.
      destruct (step s o) as [s1 out| | |]; auto.
      destruct H as (W1 & Sp). specialize (IH s1 W1).
      destruct (run step s1 ops) as [[s2 o2| | |] outs]; auto.
      destruct IH as (Br & W2). split; auto. econstructor; eauto. apply spec_bag; auto.
  Qed.

  (** C15: clear hands every held element to the callback exactly once and
      leaves the freshly initialised tree *)
  Theorem clear_result_init s s' out :
    tinv s -> step s Clear = Done s' out ->
    s' = t_init /\ exists log, out = zids log /\ Permutation log (abs s) /\ NoDup (map eid log).
  Proof.
    intros (B & Nd & Sz & Rb). cbn [TreeModel.step]. unfold abs. destruct (tr s) eqn:Et.
    - intros [= <- <-]. split.
      + destruct s as [t n]. cbn in *. subst. reflexivity.
      + exists []. repeat split; auto; try constructor.
    - intros [= <- <-]. split; auto. exists (bt_clear (T c t1 x t2)). repeat split.
      + apply clear_log_perm.
      + apply clear_log_nodup. auto.
  Qed.
End Sys.
