(** Executable model of the raw-array algorithms of src/array.c (C11):
    cstl_raw_array_reverse / _search / _find / _qsort_p / _qsort / _hsort_b /
    _hsort / _sort, as called directly and through src/vector.c.

    An array is a [list A]; every element access is *checked*: an index
    outside the list is [Ub] (the C code would read or write outside the
    array).  The only other memory the C code hands to the swap callback is
    the one scratch element; it is used by [swap] and by nothing else, so it
    does not appear as a separate index.  Swapping an element with itself is
    [Ub] as well (cstl_swap's generic path is memcpy(x, y, sz) with x == y).

    Each recursive call of cstl_raw_array_qsort and each call of
    cstl_raw_array_hsort_b receives a (pointer, count) pair that denotes a
    sub-array; the model runs the callee on that sub-list, so its accesses are
    checked against *its own* count, and shifts its event log by the offset.

    Every comparison-callback and swap-callback call is logged with the
    indices of the elements involved; rand() calls are logged with the
    value drawn.  The C driver logs the same tuples from inside its callbacks.

    Index variables: the sort code uses size_t (and ssize_t for the two
    loops of hsort); those are modelled as [nat] (no wrap below 2^63
    elements; see notes/C11.md).  reverse and search used [int] before the
    repair of F11 and use ssize_t now; both are modelled in [Z] with the
    width as a parameter: conversions from size_t wrap (gcc), signed
    arithmetic that leaves the range is [Ub]. *)
From Cstl Require Import Prelude.

Inductive res (X : Type) : Type :=
| Ok (x : X)
| Ub          (* out-of-bounds access, self-swap, signed overflow *)
| NoFuel.     (* the model ran out of fuel: the C loop would still be running *)
Arguments Ok {X} x.
Arguments Ub {X}.
Arguments NoFuel {X}.

Definition bind {X Y} (r : res X) (f : X -> res Y) : res Y :=
  match r with Ok x => f x | Ub => Ub | NoFuel => NoFuel end.

Notation "x <- r ;; k" := (bind r (fun x => k))
  (at level 61, r at next level, right associativity).
Notation "' p <- r ;; k" := (bind r (fun x => let 'p := x in k))
  (at level 61, p pattern, r at next level, right associativity).

(** callback events *)
Inductive ev :=
| ECmp (i j : nat)            (* cmp(&arr[i], &arr[j]) *)
| ESwap (i j : nat)           (* swap(&arr[i], &arr[j], scratch, size) *)
| EProbe (i : nat)            (* cmp(probe, &arr[i]) *)
| ERand (count : nat) (v : N).  (* rand() returned v; reduced modulo count *)

Definition shift (d : nat) (e : ev) : ev :=
  match e with
  | ECmp i j => ECmp (d + i) (d + j)
  | ESwap i j => ESwap (d + i) (d + j)
  | EProbe i => EProbe (d + i)
  | ERand c v => ERand c v
  end.

Inductive alg := Quick | QuickR | QuickM | Heap.

(** cstl_sort_algorithm_t as an integer; anything else falls through to
    the default (QUICK_M) in cstl_raw_array_sort *)
Definition decode (sel : Z) : alg :=
  match sel with
  | 0%Z => Quick
  | 1%Z => QuickR
  | 2%Z => QuickM
  | 3%Z => Heap
  | _ => QuickM
  end.

Section Model.
  Context {A : Type}.
  Variable cmp : A -> A -> Z.

  Definition swap (a : list A) (i j : nat) : res (list A) :=
    if Nat.eqb i j then Ub else
    match nth_error a i, nth_error a j with
    | Some x, Some y => Ok (upd (upd a i y) j x)
    | _, _ => Ub
    end.

  Definition cmpi (a : list A) (i j : nat) : res Z :=
    match nth_error a i, nth_error a j with
    | Some x, Some y => Ok (cmp x y)
    | _, _ => Ub
    end.

  (** ** cstl_raw_array_qsort_p *)

  (** while (cmp(a = at(i), p) < 0) i++; *)
  Fixpoint scan_up (fuel : nat) (a : list A) (i p : nat) : res (nat * list ev) :=
    match fuel with
    | O => NoFuel
    | S f =>
      c <- cmpi a i p ;;
      if (c <? 0)%Z then
        '(i', l) <- scan_up f a (S i) p ;; Ok (i', ECmp i p :: l)
      else Ok (i, [ECmp i p])
    end.

  (** while (cmp(b = at(j), p) > 0) j--;   (j-- at 0 wraps to SIZE_MAX and the
      next access is outside the array) *)
  Fixpoint scan_down (a : list A) (j p : nat) : res (nat * list ev) :=
    match j with
    | O =>
      c <- cmpi a 0 p ;;
      if (c >? 0)%Z then Ub else Ok (0, [ECmp 0 p])
    | S j' =>
      c <- cmpi a j p ;;
      if (c >? 0)%Z then
        '(j1, l) <- scan_down a j' p ;; Ok (j1, ECmp j p :: l)
      else Ok (j, [ECmp j p])
    end.

  (** One trip of the do-while loop from the two scans on; the swap that the
      C code performs at the top of the *next* trip (a != b holds exactly
      when the loop continues, i.e. i < j) is done at the bottom of this
      one: the sequence of callback calls is the same.  [p] is the tracked
      pivot index. *)
  Fixpoint part_loop (fuel : nat) (a : list A) (i j p : nat)
    : res (nat * list A * list ev) :=
    match fuel with
    | O => NoFuel
    | S f =>
      '(i1, l1) <- scan_up (S (length a)) a i p ;;
      '(j1, l2) <- scan_down a j p ;;
      if i1 <? j1 then
        a' <- swap a i1 j1 ;;
        let p' := if Nat.eqb p i1 then j1 else if Nat.eqb p j1 then i1 else p in
        '(m, a'', l3) <- part_loop f a' (S i1) (j1 - 1) p' ;;
        Ok (m, a'', l1 ++ l2 ++ ESwap i1 j1 :: l3)
      else Ok (j1, a, l1 ++ l2)
    end.

  Definition qsort_p (a : list A) (p : nat) : res (nat * list A * list ev) :=
    part_loop (S (length a)) a 0 (length a - 1) p.

  (** ** pivot selection of cstl_raw_array_qsort *)

  (** median of three: in-place 3-sort of first / middle / last *)
  Definition med3 (a : list A) : res (list A * list ev) :=
    let e := length a - 1 in
    let p := (length a - 1) / 2 in
    c1 <- cmpi a e 0 ;;
    '(a1, l1) <- (if (c1 <? 0)%Z then a' <- swap a e 0 ;; Ok (a', [ECmp e 0; ESwap e 0])
                  else Ok (a, [ECmp e 0])) ;;
    c2 <- cmpi a1 p 0 ;;
    if (c2 <? 0)%Z then
      a' <- swap a1 p 0 ;; Ok (a', l1 ++ [ECmp p 0; ESwap p 0])
    else
      c3 <- cmpi a1 e p ;;
      if (c3 <? 0)%Z then
        a' <- swap a1 e p ;; Ok (a', l1 ++ [ECmp p 0; ECmp e p; ESwap e p])
      else Ok (a1, l1 ++ [ECmp p 0; ECmp e p]).

  Definition is_m (al : alg) : bool := match al with QuickM => true | _ => false end.

  (** cstl_raw_array_qsort.  [rnd k] is the value of the k-th call of
      rand(); the counter is threaded through the recursion in call order
      (left part before right part).  [fuel] bounds the recursion depth. *)
  Fixpoint qsort (fuel : nat) (al : alg) (rnd : nat -> N) (k : nat) (a : list A)
    : res (list A * nat * list ev) :=
    let count := length a in
    if 1 <? count then
      match fuel with
      | O => NoFuel
      | S f =>
        '(a1, p, k1, l1) <-
          (match al with
           | QuickR =>
             let v := rnd k in
             Ok (a, N.to_nat (v mod N.of_nat count), S k, [ERand count v])
           | QuickM =>
             '(a', l) <- med3 a ;; Ok (a', (count - 1) / 2, k, l)
           | _ => Ok (a, 0, k, [])
           end) ;;
        if negb (is_m al) || (3 <? count) then
          '(m, a2, l2) <- qsort_p a1 p ;;
          '(lo, k2, l3) <- qsort f al rnd k1 (firstn (S m) a2) ;;
          '(hi, k3, l4) <- qsort f al rnd k2 (skipn (S m) a2) ;;
          Ok (lo ++ hi, k3, l1 ++ l2 ++ l3 ++ map (shift (S m)) l4)
        else Ok (a1, k1, l1)
      end
    else Ok (a, k, []).

  (** ** heap sort *)

  (** the part of the loop body of cstl_raw_array_hsort_b that selects the
      greatest of n and its children *)
  Definition pick (a : list A) (n : nat) : res (nat * list ev) :=
    let count := length a in
    let l := 2 * n + 1 in
    let r := l + 1 in
    '(c1, l1) <- (if l <? count then
                    c <- cmpi a l n ;; Ok (if (c >? 0)%Z then l else n, [ECmp l n])
                  else Ok (n, [])) ;;
    if r <? count then
      c <- cmpi a r c1 ;; Ok (if (c >? 0)%Z then r else c1, l1 ++ [ECmp r c1])
    else Ok (c1, l1).

  (** cstl_raw_array_hsort_b; as in [part_loop] the swap at the top of the
      next trip is done at the bottom of this one *)
  Fixpoint sift (fuel : nat) (a : list A) (n : nat) : res (list A * list ev) :=
    match fuel with
    | O => NoFuel
    | S f =>
      '(c, l1) <- pick a n ;;
      if Nat.eqb n c then Ok (a, l1)
      else
        a' <- swap a n c ;;
        '(a'', l2) <- sift f a' c ;;
        Ok (a'', l1 ++ ESwap n c :: l2)
    end.

  Definition hsort_b (a : list A) (n : nat) : res (list A * list ev) :=
    sift (S (length a)) a n.

  (** for (i = count / 2 - 1; i >= 0; i--) hsort_b(arr, count, i);
      [k] = i + 1 *)
  Fixpoint heapify (k : nat) (a : list A) : res (list A * list ev) :=
    match k with
    | O => Ok (a, [])
    | S i =>
      '(a1, l1) <- hsort_b a i ;;
      '(a2, l2) <- heapify i a1 ;;
      Ok (a2, l1 ++ l2)
    end.

  (** for (i = count - 1; i > 0; i--) { swap(arr, at(i)); hsort_b(arr, i, 0); } *)
  Fixpoint extract (i : nat) (a : list A) : res (list A * list ev) :=
    match i with
    | O => Ok (a, [])
    | S i' =>
      a1 <- swap a 0 i ;;
      '(h, l1) <- hsort_b (firstn i a1) 0 ;;
      '(a2, l2) <- extract i' (h ++ skipn i a1) ;;
      Ok (a2, ESwap 0 i :: l1 ++ l2)
    end.

  Definition hsort (a : list A) : res (list A * list ev) :=
    let count := length a in
    if 1 <? count then
      '(a1, l1) <- heapify (count / 2) a ;;
      '(a2, l2) <- extract (count - 1) a1 ;;
      Ok (a2, l1 ++ l2)
    else Ok (a, []).

  (** ** cstl_raw_array_sort: selector dispatch.  [extra] is additional
      recursion fuel (only the randomised variant can need any). *)
  Definition sort_alg (al : alg) (extra : nat) (rnd : nat -> N) (a : list A)
    : res (list A * list ev) :=
    match al with
    | Heap => hsort a
    | _ => '(a', _, l) <- qsort (length a + extra) al rnd 0 a ;; Ok (a', l)
    end.

  Definition sort (sel : Z) (extra : nat) (rnd : nat -> N) (a : list A)
    : res (list A * list ev) :=
    sort_alg (decode sel) extra rnd a.

  (** ** signed index arithmetic of reverse and search *)

  Definition smax (bits : Z) : Z := (2 ^ (bits - 1) - 1)%Z.
  Definition smin (bits : Z) : Z := (- 2 ^ (bits - 1))%Z.
  (** conversion of a size_t value to the signed type (modulo, as gcc does) *)
  Definition cast (bits : Z) (z : Z) : Z :=
    ((z + 2 ^ (bits - 1)) mod 2 ^ bits - 2 ^ (bits - 1))%Z.
  (** result of a signed operation: outside the range is undefined *)
  Definition chk (bits : Z) (z : Z) : res Z :=
    if ((smin bits <=? z) && (z <=? smax bits))%Z then Ok z else Ub.
  (** at(arr, size, n) with a signed n: a negative n converts to a huge size_t *)
  Definition zidx (n : Z) : res nat :=
    if (n <? 0)%Z then Ub else Ok (Z.to_nat n).

  (** initial value of j in both functions: (T)(count - 1), the
      subtraction being done in size_t *)
  Definition j_init (bits : Z) (count : nat) : Z :=
    cast bits ((Z.of_nat count - 1) mod 2 ^ 64)%Z.

  (** ** cstl_raw_array_reverse *)
  Fixpoint rev_loop (bits : Z) (fuel : nat) (a : list A) (i j : Z)
    : res (list A * list ev) :=
    if (i <? j)%Z then
      match fuel with
      | O => NoFuel
      | S f =>
        ii <- zidx i ;;
        jj <- zidx j ;;
        a' <- swap a ii jj ;;
        i' <- chk bits (i + 1) ;;
        j' <- chk bits (j - 1) ;;
        '(a'', l) <- rev_loop bits f a' i' j' ;;
        Ok (a'', ESwap ii jj :: l)
      end
    else Ok (a, []).

  Definition reverse_gen (bits : Z) (a : list A) : res (list A * list ev) :=
    rev_loop bits (length a) a 0 (j_init bits (length a)).

  (** as repaired (ssize_t indices) / as found (int indices) *)
  Definition reverse := reverse_gen 64.
  Definition reverse_v0 := reverse_gen 32.

  (** ** cstl_raw_array_search *)

  (** the midpoint: (i + j) / 2 as found; i + (j - i) / 2 as repaired *)
  Definition mid_v0 (bits : Z) (i j : Z) : res Z :=
    s <- chk bits (i + j) ;; Ok (Z.quot s 2).
  Definition mid_fix (bits : Z) (i j : Z) : res Z :=
    d <- chk bits (j - i) ;; chk bits (i + Z.quot d 2).

  Section Search.
    Variable bits : Z.
    Variable mid : Z -> Z -> res Z.
    Variable ex : A.

    Fixpoint search_loop (fuel : nat) (a : list A) (i j : Z) : res (Z * list ev) :=
      if (i <=? j)%Z then
        match fuel with
        | O => NoFuel
        | S f =>
          n <- mid i j ;;
          nn <- zidx n ;;
          match nth_error a nn with
          | None => Ub
          | Some x =>
            let eq := cmp ex x in
            if (eq =? 0)%Z then Ok (n, [EProbe nn])
            else if (eq <? 0)%Z then
              j' <- chk bits (n - 1) ;;
              '(r, l) <- search_loop f a i j' ;; Ok (r, EProbe nn :: l)
            else
              i' <- chk bits (n + 1) ;;
              '(r, l) <- search_loop f a i' j ;; Ok (r, EProbe nn :: l)
          end
        end
      else Ok ((-1)%Z, []).

    Definition search_gen (a : list A) : res (Z * list ev) :=
      search_loop (S (length a)) a 0 (j_init bits (length a)).
  End Search.

  Definition search := search_gen 64 (mid_fix 64).
  Definition search_v0 := search_gen 32 (mid_v0 32).

  (** ** cstl_raw_array_find *)
  Fixpoint find_from (ex : A) (l : list A) (i : nat) : Z * list ev :=
    match l with
    | [] => ((-1)%Z, [])
    | x :: r =>
      if (cmp ex x =? 0)%Z then (Z.of_nat i, [EProbe i])
      else let '(z, lg) := find_from ex r (S i) in (z, EProbe i :: lg)
    end.
  Definition find (ex : A) (a : list A) : Z * list ev := find_from ex a 0.

  (** is the array in non-decreasing order (documented precondition of search) *)
  Fixpoint sortedb (l : list A) : bool :=
    match l with
    | [] => true
    | x :: r =>
      match r with
      | [] => true
      | y :: _ => (cmp x y <=? 0)%Z && sortedb r
      end
    end.

  (** ** scripted interface.  Every operation is applied to the array given
      in the state; the state after the operation is the resulting array. *)
  Inductive op :=
  | OSort (sel : Z) (draws : list N)
  | OSearch (probe : A)
  | OFind (probe : A)
  | OReverse.

  Definition enc (e : ev) : list Z :=
    match e with
    | ECmp i j => [0; Z.of_nat i; Z.of_nat j]
    | ESwap i j => [1; Z.of_nat i; Z.of_nat j]
    | EProbe i => [2; Z.of_nat i; 0]
    | ERand c v => [3; Z.of_nat c; Z.of_N v]
    end%Z.

  Definition lift {X} (r : res X) (f : X -> outcome (list A)) : outcome (list A) :=
    match r with
    | Ok x => f x
    | Ub => Fault
    | NoFuel => Fault
    end.

  (** [v0] selects the code as found (int indices in reverse and search).
      Output: the return value (0 for void functions), then the encoded
      event log. *)
  Definition step (v0 : bool) (a : list A) (o : op) : outcome (list A) :=
    match o with
    | OSort sel draws =>
      lift (sort sel (length draws) (fun k => nth k draws 0%N) a)
           (fun '(a', l) => Done a' (0%Z :: flat_map enc l))
    | OSearch ex =>
      if sortedb a then
        lift ((if v0 then search_v0 else search) ex a)
             (fun '(r, l) => Done a (r :: flat_map enc l))
      else Precond
    | OFind ex =>
      let '(r, l) := find ex a in Done a (r :: flat_map enc l)
    | OReverse =>
      lift ((if v0 then reverse_v0 else reverse) a)
           (fun '(a', l) => Done a' (0%Z :: flat_map enc l))
    end.
End Model.
