(** Pointer-level executable model of src/slist.c: one heap of [n] links, one
    (tail pointer, count) pair per list object; every C assignment is one
    update, in program order.  SListPtrProofs.v proves that it is simulated by
    the sequence model SListModel.v (whose theorems are the ones in
    Properties_C13.v); the correspondence check runs both models and the C
    code on the same scripts. *)
From Cstl Require Import Prelude SListModel.
Local Open Scope N_scope.

(** the head link embedded in list object [l], or the link of element [e] *)
Inductive addr := Hd (l : nat) | Nd (e : nat).

Definition addr_eqb (a b : addr) : bool :=
  match a, b with
  | Hd x, Hd y => Nat.eqb x y
  | Nd x, Nd y => Nat.eqb x y
  | _, _ => false
  end.

Definition heap := addr -> option addr.       (* the [n] field; None = NULL *)
Definition hupd (h : heap) (a : addr) (v : option addr) : heap :=
  fun b => if addr_eqb b a then v else h b.

Record lobj := mkLO { lt : addr; lcount : N }.
Record pstate := mkP { nx : heap; objs : list lobj }.

Definition p_init (n : nat) : pstate :=
  mkP (fun _ => None) (map (fun i => mkLO (Hd i) 0) (seq 0 n)).

Definition set_obj (p : pstate) (l : nat) (o : lobj) : pstate := mkP (nx p) (upd (objs p) l o).

(** __cstl_slist_insert_after(sl, in, nn) *)
Definition p_insert_after (p : pstate) (l : nat) (o : lobj) (i : addr) (nn : nat) : pstate :=
  let h1 := hupd (nx p) (Nd nn) (nx p i) in            (* nn->n = in->n *)
  let h2 := hupd h1 i (Some (Nd nn)) in                (* in->n = nn *)
  mkP h2 (upd (objs p) l
              (mkLO (if addr_eqb (lt o) i then Nd nn else lt o)   (* if (sl->t == in) sl->t = nn *)
                    (lcount o + 1))).

(** __cstl_slist_erase_after(sl, e) *)
Definition p_erase_after (p : pstate) (l : nat) (o : lobj) (e : addr) : res (pstate * addr) :=
  match nx p e with
  | None => Flt                                         (* n = e->n is NULL; n->n *)
  | Some n =>
    let h1 := hupd (nx p) e (nx p n) in                 (* e->n = n->n *)
    Ok (mkP h1 (upd (objs p) l
                    (mkLO (if addr_eqb (lt o) n then e else lt o)  (* if (sl->t == n) sl->t = e *)
                          (lcount o - 1))), n)
  end.

Definition elem_of (a : addr) : option nat := match a with Nd e => Some e | Hd _ => None end.

(** loop of cstl_slist_reverse; [fuel] bounds the iterations *)
Fixpoint p_rev_loop (fuel : nat) (h : heap) (hd c : addr) : res heap :=
  match h c with
  | None => Ok h
  | Some n =>
    match fuel with
    | O => Flt
    | S f =>
      let h1 := hupd h c (h n) in                       (* c->n = n->n *)
      let h2 := hupd h1 n (h1 hd) in                    (* n->n = sl->h.n *)
      let h3 := hupd h2 hd (Some n) in                  (* sl->h.n = n *)
      p_rev_loop f h3 hd c
    end
  end.

(** traversal that reads the successor before visiting (foreach, clear) *)
Fixpoint p_walk (fuel : nat) (h : heap) (c : option addr) (stop : nat) (k : nat) (acc : list nat)
  : res (list nat * Z) :=
  match c with
  | None => Ok (rev acc, 0%Z)
  | Some a =>
    match fuel, elem_of a with
    | S f, Some e =>
      let n := h a in
      let acc' := e :: acc in
      if (0 <? stop)%nat && Nat.eqb (S k) stop then Ok (rev acc', Z.of_nat stop)
      else p_walk f h n stop (S k) acc'
    | _, _ => Flt
    end
  end.

(** cstl_slist_pop_front(sl) as a function on the pointer state (the same
    statements as the [PopFront] case of [p_step]); [None] = NULL *)
Definition p_pop_front (p : pstate) (l : nat) (o : lobj) : res (pstate * option addr) :=
  if addr_eqb (lt o) (Hd l) then Ok (p, None)               (* if (sl->t == &sl->h) return NULL *)
  else match p_erase_after p l o (Hd l) with
       | Ok (p', n) => Ok (p', Some n)
       | Flt => Flt
       end.

(** cstl_slist_foreach(l, visit, ctx) with the visitor that moves the element
    it is shown to the back of list [d]:

      c = sl->h.n;
      while (c != NULL && res == 0) {
          n = c->n;                       <- saved before the visitor runs
          res = visit(elem(c), ctx);      <- r = pop_front(l); bad += (r != e); push_back(d, e)
          c = n;
      }

    The visitor is this model's own [p_pop_front] and [p_insert_after] (at
    [d->t]) acting on the pointer state; the loop continues with the link
    value read *before* them.  [fuel] bounds the iterations (exhaustion =
    a loop that does not end = [Flt]). *)
Fixpoint p_fmove_loop (fuel : nat) (p : pstate) (l d : nat) (c : option addr) (stop k : nat)
         (acc : list nat) (bad : nat) : res (pstate * list nat * Z * nat) :=
  match c with
  | None => Ok (p, rev acc, 0%Z, bad)
  | Some a =>
    match fuel, elem_of a with
    | S f, Some e =>
      let n := nx p a in                                           (* n = c->n *)
      match nth_error (objs p) l with
      | None => Flt
      | Some ol =>
        match p_pop_front p l ol with                              (* visitor: pop_front(l) *)
        | Flt => Flt
        | Ok (p1, got) =>
          let same := match got with Some g => addr_eqb g (Nd e) | None => false end in
          let bad' := if same then bad else S bad in
          match nth_error (objs p1) d with
          | None => Flt
          | Some od =>
            let p2 := p_insert_after p1 d od (lt od) e in          (* push_back(d, e) *)
            if (0 <? stop)%nat && Nat.eqb (S k) stop
            then Ok (p2, rev (e :: acc), Z.of_nat stop, bad')
            else p_fmove_loop f p2 l d n stop (S k) (e :: acc) bad'   (* c = n *)
          end
        end
      end
    | _, _ => Flt
    end
  end.

(** is element [e] among the first [fuel] nodes of the chain starting at [c]? *)
Fixpoint reachb (h : heap) (e : nat) (fuel : nat) (c : option addr) : bool :=
  match c, fuel with
  | Some a, S f => addr_eqb a (Nd e) || reachb h e f (h a)
  | _, _ => false
  end.

Section PStep.
  Variable key : nat -> Z.

  Definition with_obj (p : pstate) (l : nat) (f : lobj -> outcome pstate) : outcome pstate :=
    match nth_error (objs p) l with
    | None => Precond
    | Some o => f o
    end.

  Definition linked (p : pstate) (e : nat) : bool :=
    (* an element is linked iff some chain reaches it *)
    existsb (fun l => match nth_error (objs p) l with
                      | Some o => reachb (nx p) e (S (N.to_nat (lcount o))) (nx p (Hd l))
                      | None => false
                      end) (seq 0 (length (objs p))).

  Definition in_list (p : pstate) (l : nat) (o : lobj) (b : nat) : bool :=
    reachb (nx p) b (S (N.to_nat (lcount o))) (nx p (Hd l)).

  (** cstl_slist_sort on list object [l]; the two stack-local lists of the C
      function live at the next two free object indices. *)
  Fixpoint p_walk_links (k : nat) (h : heap) (t : addr) : res addr :=
    match k with
    | O => Ok t
    | S k' => match h t with None => Flt | Some n => p_walk_links k' h n end
    end.

  Definition p_concat (p : pstate) (d s : nat) (od os : lobj) : pstate :=
    if 0 <? lcount os then
      let h1 := hupd (nx p) (lt od) (nx p (Hd s)) in     (* dst->t->n = src->h.n *)
      let h2 := hupd h1 (Hd s) None in                   (* cstl_slist_init(src) *)
      mkP h2 (upd (upd (objs p) d (mkLO (lt os) (lcount od + lcount os))) s (mkLO (Hd s) 0))
    else p.

  Fixpoint p_merge (fuel : nat) (p : pstate) (l a b : nat) : res pstate :=
    match nth_error (objs p) l, nth_error (objs p) a, nth_error (objs p) b with
    | Some ol, Some oa, Some ob =>
      if (0 <? lcount oa) && (0 <? lcount ob) then
        match fuel with
        | O => Flt
        | S f =>
          match nx p (Hd a), nx p (Hd b) with
          | Some (Nd x), Some (Nd y) =>
            let src := if (key x <=? key y)%Z then a else b in
            let osrc := if (key x <=? key y)%Z then oa else ob in
            match p_erase_after p src osrc (Hd src) with
            | Ok (p1, Nd n) =>
              match nth_error (objs p1) l with
              | Some ol1 => p_merge f (p_insert_after p1 l ol1 (lt ol1) n) l a b
              | None => Flt
              end
            | _ => Flt
            end
          | _, _ => Flt
          end
        end
      else Ok p
    | _, _, _ => Flt
    end.

  Fixpoint p_sort (fuel : nat) (p : pstate) (l : nat) : res pstate :=
    match nth_error (objs p) l with
    | None => Flt
    | Some o =>
      if 1 <? lcount o then
        match fuel with
        | O => Flt
        | S f =>
          let a := length (objs p) in
          let b := S a in
          let k := N.to_nat (lcount o / 2) in
          match p_walk_links k (nx p) (Hd l) with
          | Flt => Flt
          | Ok t =>
            (* _sl[0] = first k nodes, _sl[1] = the rest; sl re-initialised *)
            let h1 := hupd (nx p) (Hd a) (nx p (Hd l)) in
            let h2 := hupd h1 (Hd b) (h1 t) in
            let h3 := hupd h2 t None in
            let h4 := hupd h3 (Hd l) None in
            let objs1 := upd (objs p) l (mkLO (Hd l) 0) ++
                         [mkLO t (N.of_nat k); mkLO (lt o) (lcount o - N.of_nat k)] in
            match p_sort f (mkP h4 objs1) a with
            | Flt => Flt
            | Ok p1 =>
              match p_sort f p1 b with
              | Flt => Flt
              | Ok p2 =>
                match nth_error (objs p2) a, nth_error (objs p2) b with
                | Some oa2, Some ob2 =>
                  match p_merge (N.to_nat (lcount oa2 + lcount ob2)) p2 l a b with
                  | Flt => Flt
                  | Ok p3 =>
                    match nth_error (objs p3) l, nth_error (objs p3) a, nth_error (objs p3) b with
                    | Some ol, Some oa, Some ob =>
                      let p4 := if 0 <? lcount oa then p_concat p3 l a ol oa else p_concat p3 l b ol ob in
                      Ok (mkP (nx p4) (firstn a (objs p4)))
                    | _, _, _ => Flt
                    end
                  end
                | _, _ => Flt
                end
              end
            end
          end
        end
      else Ok p
    end.

  Definition p_step (p : pstate) (o : op) : outcome pstate :=
    match o with
    | PushFront l e =>
      with_obj p l (fun ob => if linked p e then Precond else Done (p_insert_after p l ob (Hd l) e) [])
    | PushBack l e =>
      with_obj p l (fun ob => if linked p e then Precond else Done (p_insert_after p l ob (lt ob) e) [])
    | InsertAfter l b e =>
      with_obj p l (fun ob =>
        if linked p e || negb (in_list p l ob b) then Precond
        else Done (p_insert_after p l ob (Nd b) e) [])
    | EraseAfter l b =>
      with_obj p l (fun ob =>
        if negb (in_list p l ob b) then Precond else
        match nx p (Nd b) with
        | None => Precond
        | Some _ =>
          match p_erase_after p l ob (Nd b) with
          | Ok (p', Nd n) => Done p' [zid n]
          | _ => Fault
          end
        end)
    | PopFront l =>
      with_obj p l (fun ob =>
        if addr_eqb (lt ob) (Hd l) then Done p [znull]
        else match p_erase_after p l ob (Hd l) with
             | Ok (p', Nd n) => Done p' [zid n]
             | _ => Fault
             end)
    | Front l =>
      with_obj p l (fun ob =>
        if addr_eqb (lt ob) (Hd l) then Done p [znull]
        else match nx p (Hd l) with Some (Nd e) => Done p [zid e] | _ => Fault end)
    | Back l =>
      with_obj p l (fun ob =>
        if addr_eqb (lt ob) (Hd l) then Done p [znull]
        else match lt ob with Nd e => Done p [zid e] | Hd _ => Fault end)
    | Size l => with_obj p l (fun ob => Done p [Z.of_N (lcount ob)])
    | Reverse l =>
      with_obj p l (fun ob =>
        if 1 <? lcount ob then
          match nx p (Hd l) with
          | None => Fault
          | Some c =>
            match p_rev_loop (N.to_nat (lcount ob)) (nx p) (Hd l) c with
            | Ok h => Done (mkP h (upd (objs p) l (mkLO c (lcount ob)))) []
            | Flt => Fault
            end
          end
        else Done p [])
    | Sort l =>
      with_obj p l (fun ob =>
        match p_sort (N.to_nat (lcount ob)) p l with
        | Ok p' => Done p' []
        | Flt => Fault
        end)
    | Concat d s =>
      if Nat.eqb d s then Precond else
      with_obj p d (fun od => with_obj p s (fun os => Done (p_concat p d s od os) []))
    | Swap a b =>
      with_obj p a (fun oa => with_obj p b (fun ob =>
        if Nat.eqb a b then Done p [] else
        (* byte swap of the two structures: h.n, t, count *)
        let h1 := hupd (hupd (nx p) (Hd a) (nx p (Hd b))) (Hd b) (nx p (Hd a)) in
        let fix_ (l : nat) (o : lobj) := if lcount o =? 0 then mkLO (Hd l) (lcount o) else o in
        Done (mkP h1 (upd (upd (objs p) a (fix_ a ob)) b (fix_ b oa))) []))
    | Foreach l stop =>
      with_obj p l (fun ob =>
        match p_walk (S (N.to_nat (lcount ob))) (nx p) (nx p (Hd l)) stop 0 [] with
        | Ok (log, r) => Done p (r :: zids log)
        | Flt => Fault
        end)
    | Clear l =>
      with_obj p l (fun ob =>
        match p_walk (S (N.to_nat (lcount ob))) (nx p) (nx p (Hd l)) 0 0 [] with
        | Ok (log, _) => Done (mkP (hupd (nx p) (Hd l) None) (upd (objs p) l (mkLO (Hd l) 0))) (zids log)
        | Flt => Fault
        end)
    | FMove l d stop =>
      if Nat.eqb l d then Precond else
      with_obj p l (fun ol => with_obj p d (fun _ =>
        match p_fmove_loop (S (N.to_nat (lcount ol))) p l d (nx p (Hd l)) stop 0 [] 0 with
        | Ok (p', log, r, bad) => Done p' (r :: Z.of_nat bad :: zids log)
        | Flt => Fault
        end))
    end.
End PStep.

(** observable dump, same format as [SListModel.dump] *)
Definition p_dump (p : pstate) (l : nat) : list Z :=
  match nth_error (objs p) l with
  | None => []
  | Some ob =>
    let items := match p_walk (S (N.to_nat (lcount ob))) (nx p) (nx p (Hd l)) 0 0 [] with
                 | Ok (log, _) => log | Flt => [] end in
    Z.of_N (lcount ob)
    :: (if addr_eqb (lt ob) (Hd l) then znull
        else match nx p (Hd l) with Some (Nd e) => zid e | _ => znull end)
    :: (if addr_eqb (lt ob) (Hd l) then znull
        else match lt ob with Nd e => zid e | Hd _ => znull end)
    :: zids items
  end.
