(** Proofs about the slist model: the tail/count fields always describe the
    chain, every operation refines the corresponding list operation, and no
    operation of the (repaired) code faults. *)
From Cstl Require Import Prelude SListModel.
Local Open Scope N_scope.

Definition wf (sl : slist) : Prop :=
  tail sl = last_opt (items sl) /\
  count sl = N.of_nat (length (items sl)) /\
  NoDup (items sl).

Lemma wf_init : wf sl_init.
Proof. repeat split; simpl; auto. constructor. Qed.

Lemma opt_eqb_spec a b : reflect (a = b) (opt_eqb a b).
Proof.
  destruct a as [x|], b as [y|]; simpl; try (constructor; congruence).
  destruct (Nat.eqb_spec x y); constructor; congruence.
Qed.

(** ** chain surgery on duplicate-free lists *)

Lemma split_first (x : nat) l : In x l -> exists a r, l = a ++ x :: r /\ ~ In x a.
Proof.
  induction l as [|y l IH]; simpl; [tauto|]. intros H.
  destruct (Nat.eq_dec y x) as [->|Hn].
  - exists [], l; simpl; auto.
  - destruct H as [H|H]; [congruence|]. destruct (IH H) as (a & r & -> & Ha).
    exists (y :: a), r; split; auto. simpl; intros [E|E]; auto.
Qed.

Lemma link_after_app x nn a r :
  ~ In x a -> link_after x nn (a ++ x :: r) = Some (a ++ x :: nn :: r).
Proof.
  induction a as [|y a IH]; simpl; intros H.
  - rewrite Nat.eqb_refl; auto.
  - destruct (Nat.eqb_spec y x) as [->|Hn]; [tauto|]. rewrite IH; auto.
Qed.

Lemma next_of_app x a r :
  ~ In x a -> next_of x (a ++ x :: r) = Some (hd_error r).
Proof.
  induction a as [|y a IH]; simpl; intros H.
  - rewrite Nat.eqb_refl; auto.
  - destruct (Nat.eqb_spec y x) as [->|Hn]; [tauto|]. auto.
Qed.

Lemma next_of_In x l o : next_of x l = Some o -> In x l.
Proof.
  induction l as [|y l IH]; simpl; [discriminate|].
  destruct (Nat.eqb_spec y x); auto.
Qed.

Lemma unlink_after_app x a r :
  ~ In x a -> unlink_after x (a ++ x :: r) = Some (a ++ x :: tl r).
Proof.
  induction a as [|y a IH]; simpl; intros H.
  - rewrite Nat.eqb_refl; auto.
  - destruct (Nat.eqb_spec y x) as [->|Hn]; [tauto|]. rewrite IH; auto.
Qed.

Lemma cut_after_app x a r :
  ~ In x a -> cut_after x (a ++ x :: r) = Some (a ++ [x]).
Proof.
  induction a as [|y a IH]; simpl; intros H.
  - rewrite Nat.eqb_refl; auto.
  - destruct (Nat.eqb_spec y x) as [->|Hn]; [tauto|]. rewrite IH; auto.
Qed.

Lemma NoDup_app_inv {A} (a b : list A) :
  NoDup (a ++ b) -> NoDup a /\ NoDup b /\ (forall x, In x a -> ~ In x b).
Proof.
  induction a as [|y a IH]; simpl; intros H.
  - repeat split; auto. constructor.
  - inversion H as [|? ? Hy Hr]; subst. destruct (IH Hr) as (Ha & Hb & Hd).
    repeat split; auto.
    + constructor; auto. intros Hin; apply Hy, in_or_app; auto.
    + intros x [->|Hx]; auto. intros Hin; apply Hy, in_or_app; auto.
Qed.

Lemma NoDup_mid_notin (x : nat) a r : NoDup (a ++ x :: r) -> ~ In x a /\ ~ In x r.
Proof.
  intros H. apply NoDup_remove_2 in H. split; intros Hin; apply H, in_or_app; auto.
Qed.

Lemma last_opt_mid (x : nat) a r :
  NoDup (a ++ x :: r) -> (last_opt (a ++ x :: r) = Some x <-> r = []).
Proof.
  intros H. split.
  - intros E. destruct r as [|y r]; auto.
    rewrite last_opt_app_ne in E by discriminate.
    rewrite last_opt_cons in E by discriminate.
    apply last_opt_In in E. apply NoDup_mid_notin in H. tauto.
  - intros ->. apply last_opt_app.
Qed.

Lemma last_split {A} (l : list A) x : last_opt l = Some x -> exists a, l = a ++ [x].
Proof.
  induction l as [|y l IH]; simpl; [discriminate|].
  destruct l as [|z l].
  - intros [= ->]. exists []; auto.
  - intros H. destruct (IH H) as (a & E). exists (y :: a). simpl. rewrite E; auto.
Qed.

(** ** single-object operations *)

Lemma insert_after_head sl nn :
  wf sl -> ~ In nn (items sl) ->
  exists sl', insert_after sl None nn = Ok sl' /\ items sl' = nn :: items sl /\ wf sl'.
Proof.
  intros (Ht & Hc & Hn) Hf. unfold insert_after. eexists; split; [reflexivity|].
  split; [reflexivity|]. unfold wf; simpl.
  repeat split.
  - destruct (opt_eqb_spec (tail sl) None) as [E|E].
    + rewrite Ht in E. apply last_opt_None in E. rewrite E; auto.
    + rewrite Ht in *. destruct (items sl); [simpl in E; congruence|]. reflexivity.
  - rewrite Hc. lia.
  - constructor; auto.
Qed.

Lemma insert_after_mid sl x nn a r :
  wf sl -> items sl = a ++ x :: r -> ~ In nn (items sl) ->
  exists sl', insert_after sl (Some x) nn = Ok sl' /\
              items sl' = a ++ x :: nn :: r /\ wf sl'.
Proof.
  intros (Ht & Hc & Hn) E Hf. unfold insert_after. rewrite E in *.
  destruct (NoDup_mid_notin _ _ _ Hn) as (Ha & Hr).
  rewrite link_after_app by auto.
  eexists; split; [reflexivity|]. split; [reflexivity|]. unfold wf; simpl.
  repeat split.
  - destruct (opt_eqb_spec (tail sl) (Some x)) as [E1|E1].
    + rewrite Ht in E1. apply last_opt_mid in E1; auto. subst r.
      change (a ++ [x; nn]) with (a ++ [x] ++ [nn]). rewrite app_assoc. rewrite last_opt_app; auto.
    + rewrite Ht in *. destruct r as [|y r].
      * exfalso; apply E1. apply last_opt_app.
      * rewrite !last_opt_app_ne by discriminate.
        rewrite (last_opt_cons x) by discriminate.
        rewrite (last_opt_cons x) by discriminate.
        rewrite (last_opt_cons nn) by discriminate. auto.
  - rewrite Hc, !app_length; simpl. lia.
  - apply NoDup_remove in Hn as (Hn1 & Hn2).
    apply (NoDup_Add (a := nn) (l := a ++ x :: r)).
    + change (x :: nn :: r) with ([x] ++ nn :: r). rewrite app_assoc.
      change (x :: r) with ([x] ++ r). rewrite app_assoc. apply Add_app.
    + split; auto.
      change (x :: r) with ([x] ++ r). rewrite app_assoc.
      apply (NoDup_Add (a := x) (l := a ++ r)).
      * rewrite <- app_assoc. simpl. apply Add_app.
      * split; auto.
Qed.

Lemma push_back_spec sl nn :
  wf sl -> ~ In nn (items sl) ->
  exists sl', push_back sl nn = Ok sl' /\ items sl' = items sl ++ [nn] /\ wf sl'.
Proof.
  intros W Hf. unfold push_back. destruct W as (Ht & Hc & Hn).
  destruct (tail sl) as [t|] eqn:Et.
  - symmetry in Ht. destruct (last_split _ _ Ht) as (a & E).
    destruct (insert_after_mid sl t nn a [] (conj (eq_trans Et (eq_sym Ht)) (conj Hc Hn)) E Hf)
      as (sl' & H1 & H2 & H3).
    rewrite <- Et. exists sl'. rewrite Et. split; auto. split; auto.
    rewrite H2, E, <- app_assoc; auto.
  - symmetry in Ht. apply last_opt_None in Ht.
    destruct (insert_after_head sl nn) as (sl' & H1 & H2 & H3); auto.
    { repeat split; auto. rewrite Ht; auto. }
    exists sl'; split; auto. split; auto. rewrite H2, Ht; auto.
Qed.

Lemma erase_after_head sl n r :
  wf sl -> items sl = n :: r ->
  exists sl', erase_after sl None = Ok (sl', n) /\ items sl' = r /\ wf sl'.
Proof.
  intros (Ht & Hc & Hn) E. unfold erase_after. rewrite E in *. simpl.
  eexists; split; [reflexivity|]. split; [reflexivity|]. unfold wf; simpl.
  inversion Hn as [|? ? Hx Hr]; subst.
  repeat split; auto.
  - destruct (opt_eqb_spec (tail sl) (Some n)) as [E1|E1].
    + rewrite Ht in E1. apply (last_opt_mid n [] r) in E1; auto. subst; auto.
    + rewrite Ht in *. destruct r; [simpl in E1; congruence|]. reflexivity.
  - rewrite Hc. simpl length. lia.
Qed.

Lemma erase_after_mid sl x n a r :
  wf sl -> items sl = a ++ x :: n :: r ->
  exists sl', erase_after sl (Some x) = Ok (sl', n) /\ items sl' = a ++ x :: r /\ wf sl'.
Proof.
  intros (Ht & Hc & Hn) E. unfold erase_after. rewrite E in *.
  destruct (NoDup_mid_notin _ _ _ Hn) as (Ha & Hr).
  rewrite next_of_app, unlink_after_app by auto. simpl.
  eexists; split; [reflexivity|]. split; [reflexivity|]. unfold wf; simpl.
  assert (Hn' : NoDup (a ++ x :: r)).
  { change (x :: n :: r) with ([x] ++ n :: r) in Hn. rewrite app_assoc in Hn.
    apply NoDup_remove_1 in Hn. rewrite <- app_assoc in Hn. exact Hn. }
  repeat split; auto.
  - destruct (opt_eqb_spec (tail sl) (Some n)) as [E1|E1].
    + rewrite Ht in E1.
      change (a ++ x :: n :: r) with (a ++ [x] ++ n :: r) in E1, Hn. rewrite app_assoc in E1, Hn.
      apply last_opt_mid in E1; auto. subst r. symmetry; apply last_opt_app.
    + rewrite Ht in *. destruct r as [|y r].
      * exfalso; apply E1. change (a ++ [x; n]) with (a ++ [x] ++ [n]).
        rewrite app_assoc; apply last_opt_app.
      * rewrite !last_opt_app_ne by discriminate.
        rewrite (last_opt_cons x) by discriminate.
        rewrite (last_opt_cons n) by discriminate.
        rewrite (last_opt_cons x) by discriminate. auto.
  - rewrite Hc, !app_length; simpl. lia.
Qed.

Lemma wf_tail_None sl : wf sl -> (tail sl = None <-> items sl = []).
Proof. intros (Ht & _). rewrite Ht. apply last_opt_None. Qed.

Lemma wf_count0 sl : wf sl -> (count sl = 0 <-> items sl = []).
Proof.
  intros (_ & Hc & _). rewrite Hc. destruct (items sl); simpl; split; try lia; try discriminate; auto.
Qed.

Lemma pop_front_spec sl :
  wf sl ->
  match items sl with
  | [] => pop_front sl = Ok (sl, None)
  | n :: r => exists sl', pop_front sl = Ok (sl', Some n) /\ items sl' = r /\ wf sl'
  end.
Proof.
  intros W. unfold pop_front. destruct (items sl) as [|n r] eqn:E.
  - apply (wf_tail_None _ W) in E. rewrite E; reflexivity.
  - destruct (opt_eqb_spec (tail sl) None) as [E1|E1].
    + apply (wf_tail_None _ W) in E1. congruence.
    + destruct (erase_after_head sl n r W E) as (sl' & H1 & H2 & H3).
      rewrite H1. eauto.
Qed.

Lemma front_spec sl : wf sl -> front sl = Ok (hd_error (items sl)).
Proof.
  intros W. unfold front. destruct (opt_eqb_spec (tail sl) None) as [E|E].
  - apply (wf_tail_None _ W) in E. rewrite E; auto.
  - destruct (items sl) eqn:E1; auto. exfalso; apply E. apply (wf_tail_None _ W); auto.
Qed.

Lemma back_spec sl : wf sl -> back sl = last_opt (items sl).
Proof. intros (Ht & _); exact Ht. Qed.

Lemma rev_loop_spec front c rest : rev_loop front c rest = rev rest ++ front ++ [c].
Proof.
  revert front; induction rest as [|n r IH]; intros front; simpl; auto.
  rewrite IH. rewrite <- !app_assoc. reflexivity.
Qed.

Lemma reverse_spec sl :
  wf sl -> exists sl', reverse sl = Ok sl' /\ items sl' = rev (items sl) /\ wf sl'.
Proof.
  intros W. unfold reverse. destruct (N.ltb_spec 1 (count sl)) as [H|H].
  - destruct W as (Ht & Hc & Hn). destruct (items sl) as [|c rest] eqn:E.
    + simpl in Hc; lia.
    + eexists; split; [reflexivity|]. simpl items. rewrite rev_loop_spec. simpl.
      split; auto. unfold wf; simpl. repeat split.
      * rewrite last_opt_app; auto.
      * rewrite Hc, app_length, rev_length. simpl. lia.
      * change (rev rest ++ [c]) with (rev (c :: rest)). apply NoDup_rev; auto.
  - exists sl; split; auto. split; auto.
    destruct W as (Ht & Hc & Hn). destruct (items sl) as [|c [|d r]]; auto. simpl in Hc; lia.
Qed.

Lemma concat_spec d s :
  wf d -> wf s -> (forall x, In x (items d) -> ~ In x (items s)) ->
  exists d' s', concat d s = Ok (d', s') /\ items d' = items d ++ items s /\
                items s' = [] /\ wf d' /\ wf s'.
Proof.
  intros Wd Ws Hdis. unfold concat. destruct (N.ltb_spec 0 (count s)) as [H|H].
  - assert (Hs : items s <> []). { intros E. apply (wf_count0 _ Ws) in E. lia. }
    assert (exists it, set_next d (tail d) (items s) = Some it /\ it = items d ++ items s) as (it & E1 & E2).
    { unfold set_next. destruct (tail d) as [t|] eqn:Et.
      - destruct Wd as (Ht & Hc & Hn). rewrite Et in Ht. symmetry in Ht.
        destruct (last_split _ _ Ht) as (a & E). rewrite E in *.
        destruct (NoDup_mid_notin _ _ _ Hn) as (Ha & _).
        rewrite cut_after_app by auto. simpl. eauto.
      - apply (wf_tail_None _ Wd) in Et. rewrite Et. simpl; eauto. }
    rewrite E1. subst it. do 2 eexists; split; [reflexivity|]. simpl.
    split; auto. split; auto. split; [|apply wf_init].
    destruct Wd as (Htd & Hcd & Hnd), Ws as (Hts & Hcs & Hns). unfold wf; simpl. repeat split.
    + rewrite last_opt_app_ne; auto.
    + rewrite app_length. lia.
    + clear -Hnd Hns Hdis. induction (items d) as [|y l IH]; simpl; auto.
      inversion Hnd; subst. constructor.
      * rewrite in_app_iff. intros [?|?]; auto. eapply Hdis; eauto. left; auto.
      * apply IH; auto. intros x Hx. apply Hdis; right; auto.
  - assert (E : items s = []). { apply (wf_count0 _ Ws). lia. }
    exists d, s. rewrite E, app_nil_r. auto.
Qed.

(** ** sort *)
Section Sorting.
  Variable key : nat -> Z.
  Definition kle (a b : nat) : Prop := (key a <= key b)%Z.
  Definition all_le (l : list nat) (y : nat) := Forall (fun x => kle x y) l.

  Lemma HdRel_of_Forall a l : Forall (kle a) l -> HdRel kle a l.
  Proof. destruct l; constructor. inversion H; auto. Qed.

  Lemma Sorted_Forall a l : Sorted kle (a :: l) -> Forall (kle a) l.
  Proof.
    intros H. apply Sorted_StronglySorted in H.
    - inversion H; auto.
    - intros x y z; unfold kle; lia.
  Qed.

  Lemma Sorted_snoc l x : Sorted kle l -> Forall (fun y => kle y x) l -> Sorted kle (l ++ [x]).
  Proof.
    induction l as [|y l IH]; simpl; intros Hs Hf.
    - repeat constructor.
    - inversion Hs; subst. inversion Hf; subst. constructor; auto.
      destruct l; simpl; constructor; auto. inversion H2; auto.
  Qed.

  Lemma Sorted_app l1 l2 :
    Sorted kle l1 -> Sorted kle l2 -> (forall x y, In x l1 -> In y l2 -> kle x y) ->
    Sorted kle (l1 ++ l2).
  Proof.
    induction l1 as [|a l1 IH]; simpl; auto. intros H1 H2 H.
    inversion H1 as [|? ? Hs Hh]; subst. constructor.
    - apply IH; auto.
    - destruct l1 as [|b l1]; simpl.
      + destruct l2; constructor. apply H; simpl; auto.
      + constructor. inversion Hh; auto.
  Qed.

  (** merge loop invariant *)
  Lemma merge_loop_spec fuel : forall out a b,
    wf out -> wf a -> wf b ->
    NoDup (items out ++ items a ++ items b) ->
    Sorted kle (items out) -> Sorted kle (items a) -> Sorted kle (items b) ->
    (forall x y, In x (items out) -> In y (items a ++ items b) -> kle x y) ->
    (length (items a) + length (items b) <= fuel)%nat ->
    exists out' a' b',
      merge_loop key fuel out a b = Ok (out', a', b') /\
      wf out' /\ wf a' /\ wf b' /\
      (items a' = [] \/ items b' = []) /\
      Permutation (items out ++ items a ++ items b) (items out' ++ items a' ++ items b') /\
      Sorted kle (items out' ++ items a' ++ items b').
  Proof.
    induction fuel as [|f IH]; intros out a b Wo Wa Wb Hnd So Sa Sb Hle Hfuel.
    - assert (Ea : items a = []) by (destruct (items a); simpl in *; auto; lia).
      assert (Eb : items b = []) by (destruct (items b); simpl in *; auto; lia).
      simpl. apply (wf_count0 _ Wa) in Ea as Ca. rewrite Ca. simpl.
      exists out, a, b. repeat split; auto; try apply Wo; try apply Wa; try apply Wb.
      rewrite Ea, Eb, app_nil_r; auto.
    - cbn [merge_loop].
      destruct (N.ltb_spec 0 (count a)) as [Ha|Ha]; cbn [andb].
      2:{ assert (Ea : items a = []) by (apply (wf_count0 _ Wa); lia).
          exists out, a, b. repeat split; auto; try apply Wo; try apply Wa; try apply Wb.
          rewrite Ea. simpl. apply Sorted_app; auto. intros; apply Hle; auto. rewrite Ea; auto. }
      destruct (N.ltb_spec 0 (count b)) as [Hb|Hb].
      2:{ assert (Eb : items b = []) by (apply (wf_count0 _ Wb); lia).
          exists out, a, b. repeat split; auto; try apply Wo; try apply Wa; try apply Wb.
          rewrite Eb, app_nil_r. apply Sorted_app; auto. intros; apply Hle; auto. rewrite Eb, app_nil_r; auto. }
      destruct (items a) as [|x ra] eqn:Ea.
      { exfalso. apply (wf_count0 _ Wa) in Ea. lia. }
      destruct (items b) as [|y rb] eqn:Eb.
      { exfalso. apply (wf_count0 _ Wb) in Eb. lia. }
      destruct (Z.leb_spec (key x) (key y)) as [Hxy|Hxy].
      + destruct (erase_after_head a x ra Wa Ea) as (a' & E1 & E2 & Wa'). rewrite E1.
        assert (Hfresh : ~ In x (items out)).
        { apply NoDup_app_inv in Hnd as (_ & _ & Hd). intros Hin. apply (Hd x Hin). simpl; auto. }
        destruct (push_back_spec out x Wo Hfresh) as (out' & E3 & E4 & Wo').
        unfold push_back in E3. rewrite E3.
        destruct (IH out' a' b) as (o2 & a2 & b2 & R1 & R2 & R3 & R4 & R5 & R6 & R7); auto.
        * rewrite E4, E2, Eb, <- app_assoc. simpl. exact Hnd.
        * rewrite E4. apply Sorted_snoc; auto. apply Forall_forall. intros z Hz. apply Hle; simpl; auto.
        * rewrite E2. inversion Sa; auto.
        * rewrite Eb; auto.
        * rewrite E4, E2, Eb. intros u v Hu Hv. apply in_app_or in Hu as [Hu|[<-|[]]].
          -- apply Hle; auto. simpl. right. exact Hv.
          -- apply in_app_or in Hv as [Hv|Hv].
             ++ apply Sorted_Forall in Sa. rewrite Forall_forall in Sa. apply Sa; auto.
             ++ destruct Hv as [<-|Hv]; [exact Hxy|].
                apply Sorted_Forall in Sb. rewrite Forall_forall in Sb. unfold kle in *.
                specialize (Sb _ Hv). lia.
        * rewrite E2, Eb. simpl in *. lia.
        * exists o2, a2, b2. split; [exact R1|]. do 4 (split; [assumption|]). split; [|exact R7].
          rewrite <- R6, E4, E2, Eb, <- app_assoc. simpl. reflexivity.
      + destruct (erase_after_head b y rb Wb Eb) as (b' & E1 & E2 & Wb'). rewrite E1.
        assert (Hfresh : ~ In y (items out)).
        { apply NoDup_app_inv in Hnd as (_ & _ & Hd). intros Hin. apply (Hd y Hin).
          apply in_or_app; right. simpl; auto. }
        destruct (push_back_spec out y Wo Hfresh) as (out' & E3 & E4 & Wo').
        unfold push_back in E3. rewrite E3.
        assert (HP : Permutation (items out ++ (x :: ra) ++ y :: rb) ((items out ++ [y]) ++ (x :: ra) ++ rb)).
        { rewrite <- app_assoc. apply Permutation_app_head. simpl.
          rewrite (Permutation_middle (x :: ra) rb y). reflexivity. }
        destruct (IH out' a b') as (o2 & a2 & b2 & R1 & R2 & R3 & R4 & R5 & R6 & R7); auto.
        * rewrite E4, E2, Ea. eapply Permutation_NoDup; [exact HP|]. exact Hnd.
        * rewrite E4. apply Sorted_snoc; auto. apply Forall_forall. intros z Hz. apply Hle; auto.
          apply in_or_app; right; simpl; auto.
        * rewrite Ea; auto.
        * rewrite E2. inversion Sb; auto.
        * rewrite E4, E2, Ea. intros u v Hu Hv. apply in_app_or in Hu as [Hu|[<-|[]]].
          -- apply Hle; auto. apply in_app_or in Hv as [Hv|Hv]; apply in_or_app; auto. right; right; auto.
          -- apply in_app_or in Hv as [Hv|Hv].
             ++ destruct Hv as [<-|Hv]; [unfold kle; lia|].
                apply Sorted_Forall in Sa. rewrite Forall_forall in Sa. unfold kle in *.
                specialize (Sa _ Hv). lia.
             ++ apply Sorted_Forall in Sb. rewrite Forall_forall in Sb. apply Sb; auto.
        * rewrite E2, Ea. simpl in *. lia.
        * exists o2, a2, b2. split; [exact R1|]. do 4 (split; [assumption|]). split; [|exact R7].
          rewrite <- R6, E4, E2, Ea. exact HP.
  Qed.

  Lemma wf_firstn sl k :
    wf sl -> (1 <= k <= length (items sl))%nat ->
    wf (mkSL (firstn k (items sl)) (nth_error (items sl) (k - 1)) (N.of_nat k)).
  Proof.
    intros (Ht & Hc & Hn) Hk. unfold wf; simpl. repeat split.
    - clear -Hk. revert k Hk. induction (items sl) as [|x l IH]; intros k Hk; simpl in *; [lia|].
      destruct k as [|[|k]]; [lia| |].
      + simpl. destruct l; auto.
      + specialize (IH (S k)). simpl in IH. rewrite Nat.sub_0_r in IH. simpl Nat.sub. simpl nth_error.
        rewrite IH by lia. destruct l; [simpl in Hk; lia|]. reflexivity.
    - rewrite firstn_length. lia.
    - rewrite <- (firstn_skipn k (items sl)) in Hn. apply NoDup_app_inv in Hn. tauto.
  Qed.

  Lemma wf_skipn sl k :
    wf sl -> (k < length (items sl))%nat ->
    wf (mkSL (skipn k (items sl)) (tail sl) (count sl - N.of_nat k)).
  Proof.
    intros (Ht & Hc & Hn) Hk. unfold wf; simpl. repeat split.
    - rewrite Ht. rewrite <- (firstn_skipn k (items sl)) at 1.
      apply last_opt_app_ne. intros E. apply (f_equal (@length nat)) in E.
      rewrite skipn_length in E. simpl in E. lia.
    - rewrite skipn_length, Hc. lia.
    - rewrite <- (firstn_skipn k (items sl)) in Hn. apply NoDup_app_inv in Hn. tauto.
  Qed.

  Lemma sort_spec fuel : forall sl,
    wf sl -> (length (items sl) <= fuel)%nat ->
    exists sl', sort key fuel sl = Ok sl' /\ wf sl' /\
                Permutation (items sl) (items sl') /\ Sorted kle (items sl').
  Proof.
    induction fuel as [|f IH]; intros sl W Hf.
    - exists sl. assert (E : items sl = []) by (destruct (items sl); simpl in *; auto; lia).
      simpl. apply (wf_count0 _ W) in E as C. rewrite C. simpl. rewrite E. repeat split; auto; try apply W.
    - cbn [sort]. destruct (N.ltb_spec 1 (count sl)) as [H|H].
      2:{ exists sl. repeat split; auto; try apply W.
          destruct W as (_ & Hc & _). destruct (items sl) as [|x [|y r]]; [constructor|repeat constructor|simpl in Hc; lia]. }
      pose proof W as (Ht & Hc & Hn).
      set (k := N.to_nat (count sl / 2)).
      assert (Hk : (1 <= k /\ k < length (items sl))%nat).
      { unfold k. rewrite Hc in *.
        assert (1 <= N.of_nat (length (items sl)) / 2) by (apply N.div_le_lower_bound; lia).
        assert (N.of_nat (length (items sl)) / 2 < N.of_nat (length (items sl))) by (apply N.div_lt; lia).
        lia. }
      destruct (Nat.ltb_spec (length (items sl)) k) as [?|_]; [lia|].
      assert (Et : match k with O => None | S k' => nth_error (items sl) k' end
                   = nth_error (items sl) (k - 1)).
      { destruct k; [lia|]. simpl. rewrite Nat.sub_0_r. auto. }
      rewrite Et.
      pose proof (wf_firstn sl k W ltac:(lia)) as W0.
      pose proof (wf_skipn sl k W ltac:(lia)) as W1.
      destruct (IH _ W0) as (s0 & E0 & W0' & P0 & S0).
      { simpl. rewrite firstn_length. lia. }
      destruct (IH _ W1) as (s1 & E1 & W1' & P1 & S1).
      { simpl. rewrite skipn_length. lia. }
      rewrite E0, E1. simpl items in *.
      assert (HND : NoDup (items s0 ++ items s1)).
      { eapply Permutation_NoDup; [|exact Hn].
        rewrite <- (firstn_skipn k (items sl)) at 1. apply Permutation_app; auto. }
      destruct (merge_loop_spec (N.to_nat (count s0 + count s1)) sl_init s0 s1)
        as (out & a & b & M1 & Wo & Wa & Wb & Hor & MP & MS); auto.
      { apply wf_init. } { constructor. } { simpl; tauto. }
      { destruct W0' as (_ & C0 & _), W1' as (_ & C1 & _). rewrite C0, C1. lia. }
      rewrite M1. simpl in MP.
      assert (HND2 : NoDup (items out ++ items a ++ items b)).
      { eapply Permutation_NoDup; [exact MP|auto]. }
      assert (PP : Permutation (items sl) (items out ++ items a ++ items b)).
      { rewrite <- MP. rewrite <- (firstn_skipn k (items sl)) at 1. apply Permutation_app; auto. }
      destruct (N.ltb_spec 0 (count a)) as [Ca|Ca].
      + assert (Eb : items b = []).
        { destruct Hor as [E|E]; auto. apply (wf_count0 _ Wa) in E. lia. }
        rewrite Eb, app_nil_r in *.
        destruct (concat_spec out a Wo Wa) as (d' & s' & C1 & C2 & C3 & C4 & C5).
        { apply NoDup_app_inv in HND2. tauto. }
        rewrite C1. exists d'. rewrite C2. repeat split; auto; apply C4.
      + assert (Ea : items a = []) by (apply (wf_count0 _ Wa); lia).
        rewrite Ea in *. simpl in *.
        destruct (concat_spec out b Wo Wb) as (d' & s' & C1 & C2 & C3 & C4 & C5).
        { apply NoDup_app_inv in HND2. tauto. }
        rewrite C1. exists d'. rewrite C2. repeat split; auto; apply C4.
  Qed.
End Sorting.

(** ** foreach with the visitor that moves the visited element to another list *)

(** number of visits and result of a foreach whose visitor answers non-zero at
    its [stop]-th call (0 = never) on a list of [n] elements *)
Definition fm_hit (stop k n : nat) : bool := ((0 <? stop) && (stop <=? k + n))%nat.
Definition fm_count (stop n : nat) : nat := if fm_hit stop 0 n then stop else n.
Definition fm_res (stop n : nat) : Z := if fm_hit stop 0 n then Z.of_nat stop else 0%Z.

(** Loop invariant of [fmove_loop]: entered with [c] = the head of the
    traversed list after [k] visits, it visits the next [m] elements in order,
    leaves the rest in the traversed list and appends the visited ones to the
    other list; pop_front returns the visited element at every visit. *)
Lemma fmove_loop_spec fuel : forall sl dl stop k acc bad,
  wf sl -> wf dl -> (forall x, In x (items sl) -> ~ In x (items dl)) ->
  (length (items sl) < fuel)%nat -> (stop = 0 \/ k < stop)%nat ->
  exists sl' dl',
    fmove_loop fuel (hd_error (items sl)) sl dl stop k acc bad =
      Ok (sl', dl',
          rev acc ++ firstn (if fm_hit stop k (length (items sl)) then stop - k else length (items sl)) (items sl),
          (if fm_hit stop k (length (items sl)) then Z.of_nat stop else 0%Z), bad) /\
    items sl' = skipn (if fm_hit stop k (length (items sl)) then stop - k else length (items sl)) (items sl) /\
    items dl' = items dl ++ firstn (if fm_hit stop k (length (items sl)) then stop - k else length (items sl)) (items sl) /\
    wf sl' /\ wf dl'.
Proof.
  induction fuel as [|f IH]; intros sl dl stop k acc bad Wl Wd Hdis Hf Hk; [lia|].
  destruct (items sl) as [|e r] eqn:EL.
  - (* c == NULL *)
    assert (Hh : fm_hit stop k (length (@nil nat)) = false).
    { unfold fm_hit. simpl length. destruct (Nat.ltb_spec 0 stop); simpl; auto.
      destruct (Nat.leb_spec stop (k + 0)); auto; lia. }
    rewrite Hh. simpl. exists sl, dl. rewrite !app_nil_r. repeat split; auto; try apply Wl; try apply Wd.
  - cbn [hd_error fmove_loop]. rewrite EL. cbn [next_of]. rewrite Nat.eqb_refl.
    pose proof (pop_front_spec sl Wl) as P. rewrite EL in P.
    destruct P as (sl1 & E1 & I1 & W1). rewrite E1.
    assert (He : ~ In e (items dl)) by (apply Hdis; simpl; auto).
    destruct (push_back_spec dl e Wd He) as (dl1 & E2 & I2 & W2). rewrite E2.
    cbn [opt_eqb]. rewrite Nat.eqb_refl.
    assert (Hnd : NoDup (e :: r)) by (rewrite <- EL; apply Wl).
    simpl length.
    destruct (Nat.ltb_spec 0 stop) as [Hs|Hs]; cbn [andb].
    + destruct (Nat.eqb_spec (S k) stop) as [Es|Es].
      * (* the visitor asks to stop at this element *)
        assert (Hh : fm_hit stop k (S (length r)) = true).
        { unfold fm_hit. destruct (Nat.ltb_spec 0 stop); [|lia].
          destruct (Nat.leb_spec stop (k + S (length r))); auto; lia. }
        rewrite Hh. replace (stop - k)%nat with 1%nat by lia. simpl.
        exists sl1, dl1. repeat split; auto; try apply W1; try apply W2.
      * destruct (IH sl1 dl1 stop (S k) (e :: acc) bad) as (sl' & dl' & E3 & I3 & I4 & W3 & W4); auto.
        { intros x Hx. rewrite I1 in Hx. rewrite I2, in_app_iff. intros [Hin|[<-|[]]].
          - apply (Hdis x); auto. simpl; auto.
          - inversion Hnd; auto. }
        { rewrite I1. simpl in Hf. lia. }
        { lia. }
        rewrite I1 in E3, I3, I4.
        assert (Hh : fm_hit stop (S k) (length r) = fm_hit stop k (S (length r))).
        { unfold fm_hit. replace (S k + length r)%nat with (k + S (length r))%nat by lia. auto. }
        rewrite Hh in E3, I3, I4. rewrite E3. exists sl', dl'.
        destruct (fm_hit stop k (S (length r))) eqn:Eh.
        -- assert (stop <= k + S (length r))%nat.
           { unfold fm_hit in Eh. apply andb_prop in Eh as (_ & Eh). apply Nat.leb_le in Eh; auto. }
           replace (stop - k)%nat with (S (stop - S k))%nat by lia.
           simpl. rewrite <- app_assoc in *. simpl. rewrite I2, <- app_assoc in I4. simpl in I4.
           repeat split; auto; try apply W3; try apply W4.
        -- simpl. rewrite <- app_assoc in *. simpl. rewrite I2, <- app_assoc in I4. simpl in I4.
           repeat split; auto; try apply W3; try apply W4.
    + (* stop = 0: never stops *)
      assert (stop = 0)%nat by lia. subst stop.
      destruct (IH sl1 dl1 0%nat (S k) (e :: acc) bad) as (sl' & dl' & E3 & I3 & I4 & W3 & W4); auto.
      { intros x Hx. rewrite I1 in Hx. rewrite I2, in_app_iff. intros [Hin|[<-|[]]].
        - apply (Hdis x); auto. simpl; auto.
        - inversion Hnd; auto. }
      { rewrite I1. simpl in Hf. lia. }
      rewrite I1 in E3, I3, I4. unfold fm_hit in *. simpl in E3, I3, I4 |- *.
      rewrite E3. exists sl', dl'. rewrite <- app_assoc in *. simpl.
      rewrite I2, <- app_assoc in I4. simpl in I4.
      repeat split; auto; try apply W3; try apply W4.
Qed.

(** cstl_slist_foreach with the moving visitor, from any two well-formed
    disjoint lists: exactly the first [fm_count stop n] elements are visited
    (in order), they leave the traversed list and are appended to the other
    one in the same order; both lists are well formed again (tail = true
    last, count = length); pop_front handed back the visited element at every
    visit (mismatch count 0). *)
Lemma fmove_spec sl dl stop :
  wf sl -> wf dl -> (forall x, In x (items sl) -> ~ In x (items dl)) ->
  exists sl' dl',
    fmove sl dl stop = Ok (sl', dl', firstn (fm_count stop (length (items sl))) (items sl),
                           fm_res stop (length (items sl)), 0%nat) /\
    items sl' = skipn (fm_count stop (length (items sl))) (items sl) /\
    items dl' = items dl ++ firstn (fm_count stop (length (items sl))) (items sl) /\
    wf sl' /\ wf dl'.
Proof.
  intros Wl Wd Hdis. unfold fmove, fm_count, fm_res.
  destruct (fmove_loop_spec (S (N.to_nat (count sl))) sl dl stop 0 [] 0 Wl Wd Hdis)
    as (sl' & dl' & E & I1 & I2 & W1 & W2).
  { destruct Wl as (_ & Hc & _). rewrite Hc. lia. }
  { lia. }
  rewrite Nat.sub_0_r in *. simpl rev in E. simpl app in E.
  exists sl', dl'. repeat split; auto; try apply W1; try apply W2.
Qed.

(** ** The scripted system *)

Definition sys_wf (s : sys) : Prop :=
  Forall wf s /\ NoDup (flat_map items s).

Definition abs (s : sys) : list (list nat) := map items s.

Lemma in_any_spec s e : in_any s e = true <-> In e (flat_map items s).
Proof.
  unfold in_any. rewrite existsb_exists, in_flat_map. split.
  - intros (sl & H1 & H2). exists sl; split; auto.
    apply existsb_exists in H2 as (y & Hy & E). apply Nat.eqb_eq in E. subst; auto.
  - intros (sl & H1 & H2). exists sl; split; auto.
    apply existsb_exists. exists e; split; auto. apply Nat.eqb_refl.
Qed.

Lemma flat_map_upd_perm (s : sys) l sl sl' :
  nth_error s l = Some sl ->
  exists pre post, flat_map items s = pre ++ items sl ++ post /\
                   flat_map items (upd s l sl') = pre ++ items sl' ++ post.
Proof.
  revert l; induction s as [|x s IH]; intros [|l] H; simpl in *; try discriminate.
  - inversion H; subst. exists [], (flat_map items s); auto.
  - destruct (IH _ H) as (pre & post & E1 & E2). exists (items x ++ pre), post.
    rewrite E1, E2, <- !app_assoc. auto.
Qed.

Lemma Forall_upd {A} (P : A -> Prop) l i x : Forall P l -> P x -> Forall P (upd l i x).
Proof.
  revert i; induction l as [|y l IH]; intros [|i] H Hx; simpl; auto; inversion H; subst; constructor; auto.
Qed.

Lemma nth_error_Forall {A} (P : A -> Prop) l i x : Forall P l -> nth_error l i = Some x -> P x.
Proof. intros H E. rewrite Forall_forall in H. apply H. eapply nth_error_In; eauto. Qed.

Lemma abs_upd s l sl : abs (upd s l sl) = upd (abs s) l (items sl).
Proof. unfold abs. revert l; induction s as [|x s IH]; intros [|l]; simpl; auto. rewrite IH; auto. Qed.

(** replacing one list's items by a duplicate-free list of the same or fewer
    elements (plus possibly one fresh element) keeps the system duplicate-free *)
Lemma sys_wf_upd s l sl sl' :
  sys_wf s -> nth_error s l = Some sl -> wf sl' ->
  (forall pre post, NoDup (pre ++ items sl ++ post) ->
                    flat_map items s = pre ++ items sl ++ post ->
                    NoDup (pre ++ items sl' ++ post)) ->
  sys_wf (upd s l sl').
Proof.
  intros (Hf & Hn) E W H. split.
  - apply Forall_upd; auto.
  - destruct (flat_map_upd_perm s l sl sl' E) as (pre & post & E1 & E2).
    rewrite E2. apply H; auto. rewrite <- E1; auto.
Qed.

Lemma NoDup_swap_mid {A} (pre a b post : list A) :
  Permutation a b -> NoDup (pre ++ a ++ post) -> NoDup (pre ++ b ++ post).
Proof.
  intros P H. eapply Permutation_NoDup; [|exact H].
  apply Permutation_app_head, Permutation_app_tail; auto.
Qed.

Lemma NoDup_app_intro {A} (l1 l2 : list A) :
  NoDup l1 -> NoDup l2 -> (forall x, In x l1 -> ~ In x l2) -> NoDup (l1 ++ l2).
Proof.
  induction l1 as [|y l1 IH]; simpl; intros H1 H2 Hd; auto. inversion H1; subst. constructor.
  - rewrite in_app_iff. intros [?|?]; auto. eapply Hd; eauto.
  - apply IH; auto.
Qed.

Lemma NoDup_sub_mid {A} (pre a b post : list A) :
  NoDup b -> incl b a -> NoDup (pre ++ a ++ post) -> NoDup (pre ++ b ++ post).
Proof.
  intros Hb Hi H.
  apply NoDup_app_inv in H as (Hp & Hap & Hd1).
  apply NoDup_app_inv in Hap as (Ha & Hpo & Hd2).
  apply NoDup_app_intro; auto.
  - apply NoDup_app_intro; auto.
  - intros x Hx Hin. apply (Hd1 x Hx). apply in_app_or in Hin as [Hin|Hin]; apply in_or_app; auto.
Qed.

Lemma NoDup_add_mid {A} (pre a b post : list A) (e : A) :
  ~ In e (pre ++ a ++ post) -> Permutation (e :: a) b ->
  NoDup (pre ++ a ++ post) -> NoDup (pre ++ b ++ post).
Proof.
  intros He P H. eapply Permutation_NoDup with (l := e :: pre ++ a ++ post).
  - rewrite <- P. simpl. rewrite Permutation_middle. reflexivity.
  - constructor; auto.
Qed.

Lemma perm_pull {A} (X pre Y post : list A) :
  Permutation (X ++ pre ++ Y ++ post) (pre ++ (X ++ Y) ++ post).
Proof.
  rewrite <- (app_assoc X Y post). rewrite !app_assoc.
  do 2 apply Permutation_app_tail. apply Permutation_app_comm.
Qed.

(** replacing two distinct members whose joint contents are a permutation of
    the old joint contents permutes the element pool *)
Lemma flat_map_upd2 (s : sys) a b al bl a' b' :
  a <> b -> nth_error s a = Some al -> nth_error s b = Some bl ->
  Permutation (items a' ++ items b') (items al ++ items bl) ->
  Permutation (flat_map items (upd (upd s a a') b b')) (flat_map items s).
Proof.
  revert a b; induction s as [|y s IH]; intros [|a] [|b] Hne Ea Eb P; simpl in *;
    try discriminate; try congruence.
  - inversion Ea; subst.
    destruct (flat_map_upd_perm s b bl b' Eb) as (pre & post & E1 & E2).
    rewrite E1, E2. rewrite !perm_pull. apply Permutation_app_head, Permutation_app_tail. auto.
  - inversion Eb; subst.
    destruct (flat_map_upd_perm s a al a' Ea) as (pre & post & E1 & E2).
    rewrite E1, E2. rewrite !perm_pull. apply Permutation_app_head, Permutation_app_tail.
    rewrite Permutation_app_comm, P. apply Permutation_app_comm.
  - apply Permutation_app_head. apply IH; auto.
Qed.

Lemma sys_disjoint (s : sys) d sr dl sl :
  NoDup (flat_map items s) -> d <> sr ->
  nth_error s d = Some dl -> nth_error s sr = Some sl ->
  forall x, In x (items dl) -> ~ In x (items sl).
Proof.
  revert d sr. induction s as [|y s IH]; intros [|d] [|sr] Wn Hne Ed Es; simpl in *;
    try discriminate; try congruence.
  - inversion Ed; subst. apply NoDup_app_inv in Wn as (_ & _ & Hd). intros x Hx Hin.
    apply (Hd x Hx). apply in_flat_map. exists sl; split; auto. eapply nth_error_In; eauto.
  - inversion Es; subst. apply NoDup_app_inv in Wn as (_ & _ & Hd). intros x Hx Hin.
    apply (Hd x Hin). apply in_flat_map. exists dl; split; auto. eapply nth_error_In; eauto.
  - apply NoDup_app_inv in Wn as (_ & Wn & _). apply (IH d sr); auto.
Qed.

Section System.
  Variable key : nat -> Z.
  Notation step := (step key false).

  (** Reference semantics on plain sequences. [spec s o s' out] relates the
      abstract states before and after [o] and the observable output. *)
  Inductive spec (a : list (list nat)) : op -> list (list nat) -> list Z -> Prop :=
  | sp_push_front l e L : nth_error a l = Some L ->
      spec a (PushFront l e) (upd a l (e :: L)) []
  | sp_push_back l e L : nth_error a l = Some L ->
      spec a (PushBack l e) (upd a l (L ++ [e])) []
  | sp_insert_after l b e L1 L2 : nth_error a l = Some (L1 ++ b :: L2) ->
      spec a (InsertAfter l b e) (upd a l (L1 ++ b :: e :: L2)) []
  | sp_erase_after l b n L1 L2 : nth_error a l = Some (L1 ++ b :: n :: L2) ->
      spec a (EraseAfter l b) (upd a l (L1 ++ b :: L2)) [zid n]
  | sp_pop_front_empty l : nth_error a l = Some [] ->
      spec a (PopFront l) a [znull]
  | sp_pop_front l n L : nth_error a l = Some (n :: L) ->
      spec a (PopFront l) (upd a l L) [zid n]
  | sp_front l L : nth_error a l = Some L -> spec a (Front l) a [zopt (hd_error L)]
  | sp_back l L : nth_error a l = Some L -> spec a (Back l) a [zopt (last_opt L)]
  | sp_size l L : nth_error a l = Some L -> spec a (Size l) a [Z.of_nat (length L)]
  | sp_reverse l L : nth_error a l = Some L -> spec a (Reverse l) (upd a l (rev L)) []
  | sp_sort l L L' : nth_error a l = Some L -> Permutation L L' -> Sorted (kle key) L' ->
      spec a (Sort l) (upd a l L') []
  | sp_concat d s D S : d <> s -> nth_error a d = Some D -> nth_error a s = Some S ->
      spec a (Concat d s) (upd (upd a d (D ++ S)) s []) []
  | sp_swap x y X Y : nth_error a x = Some X -> nth_error a y = Some Y ->
      spec a (Swap x y) (upd (upd a x Y) y X) []
  | sp_foreach_all l L stop : nth_error a l = Some L -> (stop = 0 \/ length L < stop)%nat ->
      spec a (Foreach l stop) a (0%Z :: zids L)
  | sp_foreach_stop l L stop : nth_error a l = Some L -> (1 <= stop <= length L)%nat ->
      spec a (Foreach l stop) a (Z.of_nat stop :: zids (firstn stop L))
  | sp_clear l L : nth_error a l = Some L -> spec a (Clear l) (upd a l []) (zids L)
  (* foreach over [l] with the visitor that pops the visited element off [l] and
     pushes it onto the back of [d]: with k = number of visits, l' = skipn k l,
     d' = d ++ firstn k l, log = firstn k l, no mismatch seen by the visitor *)
  | sp_fmove l d L D stop : l <> d -> nth_error a l = Some L -> nth_error a d = Some D ->
      spec a (FMove l d stop)
           (upd (upd a l (skipn (fm_count stop (length L)) L)) d (D ++ firstn (fm_count stop (length L)) L))
           (fm_res stop (length L) :: 0%Z :: zids (firstn (fm_count stop (length L)) L)).

  Lemma nth_abs s l sl : nth_error s l = Some sl -> nth_error (abs s) l = Some (items sl).
  Proof. unfold abs. intros H. rewrite nth_error_map, H; auto. Qed.

  Lemma upd_same {A} (l : list A) i x : nth_error l i = Some x -> upd l i x = l.
  Proof. revert i; induction l as [|y l IH]; intros [|i]; simpl; auto; intros H; try discriminate.
         - inversion H; auto. - rewrite IH; auto. Qed.

  Lemma notin_flat s l sl e :
    nth_error s l = Some sl -> ~ In e (flat_map items s) -> ~ In e (items sl).
  Proof. intros E H Hin. apply H. apply in_flat_map. exists sl; split; auto. eapply nth_error_In; eauto. Qed.

  Ltac wl E := unfold with_list; rewrite E.

  (** Main per-operation theorem: from a well-formed system state, a call
      inside the domain never faults, re-establishes well-formedness and
      refines the reference semantics. *)
  Theorem step_correct s o :
    sys_wf s ->
    match step s o with
    | Done s' out => sys_wf s' /\ spec (abs s) o (abs s') out
    | Precond => True
    | Abort => False
    | Fault => False
    end.
  Proof.
    intros W. pose proof W as (Wf & Wn).
    destruct o as [l e|l e|l b e|l b|l|l|l|l|l|l|d sr|a b|l stop|l|l d stop]; cbn [SListModel.step].
    - (* PushFront *)
      unfold with_list. destruct (nth_error s l) as [sl|] eqn:E; auto.
      destruct (in_any s e) eqn:Ein; auto.
      assert (Hfresh : ~ In e (flat_map items s)).
      { intros H. apply in_any_spec in H. congruence. }
      pose proof (nth_error_Forall _ _ _ _ Wf E) as Wsl.
      destruct (insert_after_head sl e Wsl (notin_flat _ _ _ _ E Hfresh)) as (sl' & H1 & H2 & H3).
      unfold push_front. rewrite H1. simpl. split.
      + eapply sys_wf_upd; eauto. intros pre post Hnd Eq. rewrite H2.
        eapply NoDup_add_mid with (e := e) (a := items sl); eauto. rewrite <- Eq; auto.
      + rewrite abs_upd, H2. constructor. apply nth_abs; auto.
    - (* PushBack *)
      unfold with_list. destruct (nth_error s l) as [sl|] eqn:E; auto.
      destruct (in_any s e) eqn:Ein; auto.
      assert (Hfresh : ~ In e (flat_map items s)).
      { intros H. apply in_any_spec in H. congruence. }
      pose proof (nth_error_Forall _ _ _ _ Wf E) as Wsl.
      destruct (push_back_spec sl e Wsl (notin_flat _ _ _ _ E Hfresh)) as (sl' & H1 & H2 & H3).
      rewrite H1. simpl. split.
      + eapply sys_wf_upd; eauto. intros pre post Hnd Eq. rewrite H2.
        eapply NoDup_add_mid with (e := e) (a := items sl); eauto. rewrite <- Eq; auto.
        apply Permutation_cons_append.
      + rewrite abs_upd, H2. constructor. apply nth_abs; auto.
    - (* InsertAfter *)
      unfold with_list. destruct (nth_error s l) as [sl|] eqn:E; auto.
      destruct (in_any s e) eqn:Ein; cbn [orb]; auto.
      destruct (existsb (Nat.eqb b) (items sl)) eqn:Eb; cbn [negb]; auto.
      assert (Hfresh : ~ In e (flat_map items s)).
      { intros H. apply in_any_spec in H. congruence. }
      pose proof (nth_error_Forall _ _ _ _ Wf E) as Wsl.
      apply existsb_exists in Eb as (b' & Hb & Eb). apply Nat.eqb_eq in Eb. subst b'.
      destruct (split_first b _ Hb) as (L1 & L2 & EL & _).
      destruct (insert_after_mid sl b e L1 L2 Wsl EL (notin_flat _ _ _ _ E Hfresh)) as (sl' & H1 & H2 & H3).
      rewrite H1. simpl. split.
      + eapply sys_wf_upd; eauto. intros pre post Hnd Eq. rewrite H2.
        eapply NoDup_add_mid with (e := e) (a := items sl); eauto. rewrite <- Eq; auto.
        rewrite EL. rewrite (Permutation_middle L1 (b :: L2) e).
        apply Permutation_app_head. apply perm_swap.
      + rewrite abs_upd, H2. constructor. rewrite (nth_abs _ _ _ E), EL; auto.
    - (* EraseAfter *)
      unfold with_list. destruct (nth_error s l) as [sl|] eqn:E; auto.
      destruct (next_of b (items sl)) as [[n|]|] eqn:En; auto.
      pose proof (nth_error_Forall _ _ _ _ Wf E) as Wsl.
      destruct (split_first b _ (next_of_In _ _ _ En)) as (L1 & L2 & EL & Hb).
      rewrite EL, next_of_app in En by auto. destruct L2 as [|n' L2]; [discriminate|].
      simpl in En. inversion En; subst n'.
      destruct (erase_after_mid sl b n L1 L2 Wsl EL) as (sl' & H1 & H2 & H3).
      rewrite H1. split.
      + eapply sys_wf_upd; eauto. intros pre post Hnd Eq. rewrite H2.
        eapply NoDup_sub_mid; [rewrite <- H2; apply H3| |exact Hnd].
        rewrite EL. intros z Hz. apply in_app_or in Hz as [Hz|[Hz|Hz]]; apply in_or_app; simpl; auto.
      + rewrite abs_upd, H2. constructor. rewrite (nth_abs _ _ _ E), EL; auto.
    - (* PopFront *)
      unfold with_list. destruct (nth_error s l) as [sl|] eqn:E; auto.
      pose proof (nth_error_Forall _ _ _ _ Wf E) as Wsl.
      pose proof (pop_front_spec sl Wsl) as P. destruct (items sl) as [|n r] eqn:EL.
      + rewrite P. rewrite upd_same by auto. split; auto.
        apply sp_pop_front_empty. rewrite (nth_abs _ _ _ E), EL; auto.
      + destruct P as (sl' & H1 & H2 & H3). rewrite H1. split.
        * eapply sys_wf_upd; eauto. intros pre post Hnd Eq. rewrite H2.
          eapply NoDup_sub_mid; [rewrite <- H2; apply H3| |exact Hnd]. rewrite EL. intros z Hz; simpl; auto.
        * rewrite abs_upd, H2. apply sp_pop_front. rewrite (nth_abs _ _ _ E), EL; auto.
    - (* Front *)
      unfold with_list. destruct (nth_error s l) as [sl|] eqn:E; auto.
      pose proof (nth_error_Forall _ _ _ _ Wf E) as Wsl.
      rewrite (front_spec _ Wsl). split; auto. constructor. apply nth_abs; auto.
    - (* Back *)
      unfold with_list. destruct (nth_error s l) as [sl|] eqn:E; auto.
      pose proof (nth_error_Forall _ _ _ _ Wf E) as Wsl.
      rewrite (back_spec _ Wsl). split; auto. constructor. apply nth_abs; auto.
    - (* Size *)
      unfold with_list. destruct (nth_error s l) as [sl|] eqn:E; auto.
      pose proof (nth_error_Forall _ _ _ _ Wf E) as Wsl.
      split; auto. destruct Wsl as (_ & Hc & _). rewrite Hc, nat_N_Z.
      constructor. apply nth_abs; auto.
    - (* Reverse *)
      unfold with_list. destruct (nth_error s l) as [sl|] eqn:E; auto.
      pose proof (nth_error_Forall _ _ _ _ Wf E) as Wsl.
      destruct (reverse_spec sl Wsl) as (sl' & H1 & H2 & H3). rewrite H1. simpl. split.
      + eapply sys_wf_upd; eauto. intros pre post Hnd Eq. rewrite H2.
        eapply NoDup_swap_mid; [|exact Hnd]. apply Permutation_rev.
      + rewrite abs_upd, H2. constructor. apply nth_abs; auto.
    - (* Sort *)
      unfold with_list. destruct (nth_error s l) as [sl|] eqn:E; auto.
      pose proof (nth_error_Forall _ _ _ _ Wf E) as Wsl.
      destruct (sort_spec key (length (items sl)) sl Wsl (le_n _)) as (sl' & H1 & H2 & H3 & H4).
      rewrite H1. simpl. split.
      + eapply sys_wf_upd; eauto. intros pre post Hnd Eq.
        eapply NoDup_swap_mid; [|exact Hnd]. auto.
      + rewrite abs_upd. econstructor; eauto. apply nth_abs; auto.
    - (* Concat *)
      destruct (Nat.eqb_spec d sr) as [->|Hne]; auto.
      unfold with_list. destruct (nth_error s d) as [dl|] eqn:Ed; auto.
      destruct (nth_error s sr) as [sl|] eqn:Es; auto.
      pose proof (nth_error_Forall _ _ _ _ Wf Ed) as Wd.
      pose proof (nth_error_Forall _ _ _ _ Wf Es) as Ws.
      pose proof (sys_disjoint s d sr dl sl Wn Hne Ed Es) as Hdis.
      destruct (concat_spec dl sl Wd Ws Hdis) as (d' & s' & C1 & C2 & C3 & C4 & C5).
      rewrite C1. split.
      + split.
        * apply Forall_upd; auto. apply Forall_upd; auto.
        * eapply Permutation_NoDup; [|exact Wn]. symmetry.
          apply flat_map_upd2 with (al := dl) (bl := sl); auto.
          rewrite C2, C3, app_nil_r. reflexivity.
      + rewrite !abs_upd, C2, C3. constructor; auto; apply nth_abs; auto.
    - (* Swap *)
      unfold with_list. destruct (nth_error s a) as [al|] eqn:Ea; auto.
      destruct (nth_error s b) as [bl|] eqn:Eb; auto.
      pose proof (nth_error_Forall _ _ _ _ Wf Ea) as Wa.
      pose proof (nth_error_Forall _ _ _ _ Wf Eb) as Wb.
      destruct (Nat.eqb_spec a b) as [->|Hne].
      + split; auto. rewrite Ea in Eb. inversion Eb; subst.
        replace (abs s) with (upd (upd (abs s) b (items bl)) b (items bl)) at 2.
        * constructor; apply nth_abs; auto.
        * rewrite !upd_same; auto; rewrite ?upd_same; apply nth_abs; auto.
      + assert (Hfix : forall sl, wf sl -> wf (swap_fix sl) /\ items (swap_fix sl) = items sl).
        { intros sl Wsl. unfold swap_fix. destruct (N.eqb_spec (count sl) 0) as [C|C]; auto.
          split; auto. apply (wf_count0 _ Wsl) in C as C'. destruct Wsl as (Ht & Hc & Hn).
          unfold wf; simpl. rewrite C' in *. auto. }
        destruct (Hfix _ Wa) as (Wa' & Ia). destruct (Hfix _ Wb) as (Wb' & Ib).
        unfold swap. split.
        * split. { apply Forall_upd; auto. apply Forall_upd; auto. }
          eapply Permutation_NoDup; [|exact Wn]. symmetry.
          apply flat_map_upd2 with (al := al) (bl := bl); auto.
          rewrite Ia, Ib. apply Permutation_app_comm.
        * rewrite !abs_upd, Ia, Ib. constructor; apply nth_abs; auto.
    - (* Foreach *)
      unfold with_list. destruct (nth_error s l) as [sl|] eqn:E; auto.
      unfold foreach. destruct stop as [|st].
      + split; auto. apply sp_foreach_all; auto. apply nth_abs; auto.
      + destruct (Nat.leb_spec (S st) (length (items sl))) as [H|H]; split; auto.
        * apply sp_foreach_stop; auto. apply nth_abs; auto. lia.
        * apply sp_foreach_all; auto. apply nth_abs; auto.
    - (* Clear *)
      unfold with_list. destruct (nth_error s l) as [sl|] eqn:E; auto.
      simpl. split.
      + eapply sys_wf_upd; eauto. apply wf_init. intros pre post Hnd Eq. simpl.
        eapply NoDup_sub_mid with (b := []); [constructor| |exact Hnd]. intros z [].
      + rewrite abs_upd. simpl. constructor. apply nth_abs; auto.
    - (* FMove *)
      destruct (Nat.eqb_spec l d) as [->|Hne]; auto.
      unfold with_list. destruct (nth_error s l) as [sl|] eqn:El; auto.
      destruct (nth_error s d) as [dl|] eqn:Ed; auto.
      pose proof (nth_error_Forall _ _ _ _ Wf El) as Wl.
      pose proof (nth_error_Forall _ _ _ _ Wf Ed) as Wd.
      pose proof (sys_disjoint s l d sl dl Wn Hne El Ed) as Hdis.
      destruct (fmove_spec sl dl stop Wl Wd Hdis) as (sl' & dl' & E1 & I1 & I2 & W1 & W2).
      rewrite E1. split.
      + split.
        * apply Forall_upd; auto. apply Forall_upd; auto.
        * eapply Permutation_NoDup; [|exact Wn]. symmetry.
          apply flat_map_upd2 with (al := sl) (bl := dl); auto.
          rewrite I1, I2. rewrite (Permutation_app_comm (skipn _ _)). rewrite <- app_assoc.
          rewrite firstn_skipn. apply Permutation_app_comm.
      + rewrite !abs_upd, I1, I2. apply sp_fmove; auto; apply nth_abs; auto.
  Qed.

  (** foreach with the moving visitor, from any well-formed system state and
      any two distinct lists of it: completes, yields exactly the reference
      result, and the state is well formed again *)
  Lemma fmove_step s l d stop sl dl :
    sys_wf s -> l <> d -> nth_error s l = Some sl -> nth_error s d = Some dl ->
    exists s',
      step s (FMove l d stop) =
        Done s' (fm_res stop (length (items sl)) :: 0%Z
                 :: zids (firstn (fm_count stop (length (items sl))) (items sl))) /\
      sys_wf s' /\
      abs s' = upd (upd (abs s) l (skipn (fm_count stop (length (items sl))) (items sl))) d
                   (items dl ++ firstn (fm_count stop (length (items sl))) (items sl)).
  Proof.
    intros W Hne El Ed. pose proof (step_correct s (FMove l d stop) W) as H.
    cbn [SListModel.step] in *. rewrite (proj2 (Nat.eqb_neq l d) Hne) in *.
    unfold with_list in *. rewrite El, Ed in *.
    pose proof W as (Wf & Wn).
    destruct (fmove_spec sl dl stop (nth_error_Forall _ _ _ _ Wf El) (nth_error_Forall _ _ _ _ Wf Ed)
                         (sys_disjoint s l d sl dl Wn Hne El Ed)) as (sl' & dl' & E1 & I1 & I2 & _).
    rewrite E1 in *. destruct H as (W' & _). eexists; split; [reflexivity|]. split; auto.
    rewrite !abs_upd, I1, I2. reflexivity.
  Qed.

  Lemma sys_wf_init n : sys_wf (sys_init n).
  Proof.
    unfold sys_init. split.
    - apply Forall_forall. intros x Hx. apply repeat_spec in Hx. subst. apply wf_init.
    - induction n; simpl; auto. constructor.
  Qed.

  (** Every state reachable from [n] freshly initialised lists is well formed. *)
  Theorem reach_wf n s : reach step (sys_init n) s -> sys_wf s.
  Proof.
    apply reach_ind_inv.
    - apply sys_wf_init.
    - intros s0 o s' out W E. pose proof (step_correct s0 o W) as H. rewrite E in H. tauto.
  Qed.
End System.

(** ** clear (used by C15) *)

Fixpoint no_access_after_call (evs : list ev) : Prop :=
  match evs with
  | [] => True
  | EvCall n :: r => ~ In (EvRead n) r /\ ~ In (EvCall n) r /\ no_access_after_call r
  | _ :: r => no_access_after_call r
  end.

Lemma clear_log sl : fst (clear sl) = items sl.
Proof. reflexivity. Qed.

Lemma clear_result_init sl : snd (clear sl) = sl_init.
Proof. reflexivity. Qed.

Lemma in_clear_events_read x l :
  In (EvRead x) (flat_map (fun y => [EvRead y; EvCall y]) l) -> In x l.
Proof.
  induction l as [|y l IH]; simpl; auto. intros [E|[E|H]]; try discriminate; auto.
  inversion E; auto.
Qed.

Lemma in_clear_events_call x l :
  In (EvCall x) (flat_map (fun y => [EvRead y; EvCall y]) l) -> In x l.
Proof.
  induction l as [|y l IH]; simpl; auto. intros [E|[E|H]]; try discriminate; auto.
  inversion E; auto.
Qed.

(** every node is read (its successor link) before its callback and never
    touched afterwards; every node gets exactly one callback *)
Lemma clear_no_access_after_callback sl :
  NoDup (items sl) -> no_access_after_call (clear_events sl).
Proof.
  unfold clear_events. induction (items sl) as [|x l IH]; simpl; auto.
  intros H. inversion H as [|? ? Hx Hl]; subst. repeat split; auto.
  - intros Hin. apply Hx. apply in_clear_events_read; auto.
  - intros Hin. apply Hx. apply in_clear_events_call; auto.
Qed.

Lemma clear_calls_each_once sl :
  map (fun x => EvCall x) (items sl) = filter (fun e => match e with EvCall _ => true | _ => false end) (clear_events sl).
Proof. unfold clear_events. induction (items sl) as [|x l IH]; simpl; auto. rewrite IH; auto. Qed.
