(** C09 — a vector never reports size or capacity it has no storage for.
    Statements only; proofs are in VectorProofs.v.  Everything is about the
    repaired code ([v0 = false], fixes/F8-*.patch), for every allocator
    oracle [ok], every element size >= 1 and sizes anywhere in [0, 2^64);
    the code as found is refuted in FindingsVecStr.v. *)
From Cstl Require Import Prelude AllocModel VectorModel VectorProofs.
Local Open Scope N_scope.

Section C09.
  Variable ok : nat -> N -> bool.
  Notation step := (VectorModel.step ok false).

  (** Every operation, from a state satisfying the invariant [sys_ok]
      (per vector: count <= cap, contents length = count, no buffer -> cap = 0,
      the live block holds (cap+1)*esize bytes as natural numbers; buffers of
      different vectors are different blocks; every live block is some
      vector's buffer; no bad free so far): the invariant is re-established,
      nothing faults, and an abort happens only for at/put with index >= size
      and for a resize whose growth is refused. *)
  Theorem C09_step_preserves_invariant s o :
    sys_ok s ->
    match step s o with
    | Done s' _ => sys_ok s'
    | Precond => True
    | Abort => abort_ok ok s o
    | Fault => False
    end.
  Proof. exact (step_ok ok s o). Qed.

  (** ... hence in every state reachable from freshly initialised vectors *)
  Theorem C09_reachable_invariant shape s :
    Forall (fun p => 1 <= fst (fst p)) shape -> reach step (sys_init shape) s -> sys_ok s.
  Proof. exact (reach_ok ok shape s). Qed.

  (** no script, however long and with whatever sizes, faults or frees badly *)
  Theorem C09_run_never_faults shape ops :
    Forall (fun p => 1 <= fst (fst p)) shape ->
    match fst (run step (sys_init shape) ops) with
    | Done s _ => sys_ok s /\ no_bad_free (heap s)
    | Fault => False
    | _ => True
    end.
  Proof.
    intros F. pose proof (run_safe ok (sys_init shape) ops (sys_ok_init shape F)) as H.
    destruct (fst (run step (sys_init shape) ops)); auto. split; auto. apply H.
  Qed.

  (** the storage claim, spelled out for one vector of a reachable state *)
  Theorem C09_capacity_has_storage shape s i v :
    Forall (fun p => 1 <= fst (fst p)) shape -> reach step (sys_init shape) s ->
    nth_error (vecs s) i = Some v ->
    count v <= cap v /\ length (elems v) = N.to_nat (count v) /\
    (base v = None -> cap v = 0 /\ count v = 0) /\
    (forall b, base v = Some b ->
       exists bs, block_size (heap s) b = Some bs /\ (cap v + 1) * esize v <= bs).
  Proof.
    intros F R E. destruct (reach_ok ok shape s F R) as (_ & _ & Fa & _).
    destruct (Forall_nth_error _ _ _ _ Fa E) as (He & Hc & Hl & Hb).
    repeat split; auto.
    - rewrite H in Hb. lia.
    - rewrite H in Hb. lia.
    - intros b B. rewrite B in Hb. destruct Hb as (bs & E1 & E2 & _). eauto.
  Qed.

  (** every index below size, and the scratch cell at index cap, is a cell
      of that block, at byte offset index * esize computed without wrap *)
  Theorem C09_index_inside_block al v k :
    vec_ok al v -> base v <> None -> k <= cap v ->
    slot al v k = Some (N.to_nat k) /\ wrap64 (k * esize v) = k * esize v.
  Proof.
    intros V B K. split; [apply slot_in; auto|].
    destruct V as (He & _ & _ & Hb). destruct (base v) as [b|]; [|congruence].
    destruct Hb as (bs & _ & Hs & Hl). apply wrap64_small.
    pose proof (mul_le_succ k (cap v) (esize v) K). pose proof LIMIT_lt_W64. lia.
  Qed.

  (** cstl_vector_at aborts exactly when the index is at or beyond size *)
  Theorem C09_at_aborts_iff v k : at_ v k = Abt <-> count v <= k.
  Proof.
    unfold at_. destruct (N.leb_spec (count v) k); split; intros; auto; try discriminate; lia.
  Qed.

  (** ... and otherwise returns a pointer to an element wholly inside the block *)
  Theorem C09_at_inside_block al v k :
    vec_ok al v -> k < count v ->
    at_ v k = Ok (k * esize v) /\
    exists b bs, base v = Some b /\ block_size al b = Some bs /\ k * esize v + esize v <= bs.
  Proof. intros V H. apply (at_spec al v k V); auto. Qed.

  (** reserve: shape, size and contents never change; either nothing at all
      changes (enough capacity already, or the request is refused: byte
      count not representable or allocation failed) or the capacity is
      exactly the request over a fresh block *)
  Theorem C09_reserve al v sz :
    alloc_ok al -> no_bad_free al -> vec_ok al v ->
    match reserve ok false al v sz with
    | Ok (al', v') =>
      alloc_ok al' /\ no_bad_free al' /\ vec_ok al' v' /\ heap_frame al al' (base v) (base v') /\
      same_shape v v' /\ count v' = count v /\ elems v' = elems v /\
      ((v' = v /\ live al' = live al /\ (sz <= cap v \/ refused ok al v sz)) \/
       (cap v < sz /\ cap v' = sz /\ base v' = Some (next al) /\ ~ refused ok al v sz))
    | Abt => False
    | Flt => False
    end.
  Proof. exact (reserve_spec ok al v sz). Qed.

  (** unsatisfiable growth is a quiet no-op for reserve *)
  Theorem C09_reserve_refused_is_identity al v sz :
    alloc_ok al -> no_bad_free al -> vec_ok al v -> refused ok al v sz ->
    exists al', reserve ok false al v sz = Ok (al', v) /\ live al' = live al.
  Proof.
    intros A NB V R. pose proof (reserve_spec ok al v sz A NB V) as H.
    destruct (reserve ok false al v sz) as [[al' v']| |]; try contradiction.
    destruct H as (_ & _ & _ & _ & _ & _ & _ & [(-> & L & _)|(_ & _ & _ & X)]); [eauto|contradiction].
  Qed.

  Theorem C09_shrink_to_fit al v :
    alloc_ok al -> no_bad_free al -> vec_ok al v ->
    match shrink_to_fit ok false al v with
    | Ok (al', v') =>
      alloc_ok al' /\ no_bad_free al' /\ vec_ok al' v' /\ heap_frame al al' (base v) (base v') /\
      same_shape v v' /\ count v' = count v /\ elems v' = elems v /\
      ((v' = v /\ live al' = live al) \/
       (count v < cap v /\ cap v' = count v /\ base v' = Some (next al) /\ ~ refused ok al v (count v)))
    | Abt => False
    | Flt => False
    end.
  Proof. exact (shrink_spec ok al v). Qed.

  (** resize: the new size is the request, surviving elements keep their
      values (also across the reallocation), entering elements are
      constructed (or indeterminate), the callback log is [resize_log] *)
  Theorem C09_resize al v sz :
    alloc_ok al -> no_bad_free al -> vec_ok al v ->
    match resize ok false al v sz with
    | Ok (al', v', log) =>
      alloc_ok al' /\ no_bad_free al' /\ vec_ok al' v' /\ heap_frame al al' (base v) (base v') /\
      same_shape v v' /\ count v' = sz /\ cap v' = N.max (cap v) sz /\
      elems v' = resized v sz /\ log = resize_log v sz /\
      (sz <= cap v -> al' = al /\ base v' = base v) /\
      (cap v < sz -> ~ refused ok al v sz /\ base v' = Some (next al))
    | Abt => cap v < sz /\ refused ok al v sz
    | Flt => False
    end.
  Proof. exact (resize_spec ok al v sz). Qed.

  (** unsatisfiable growth is an abort for resize, and nothing else is *)
  Theorem C09_resize_aborts_iff al v sz :
    alloc_ok al -> no_bad_free al -> vec_ok al v ->
    (resize ok false al v sz = Abt <-> cap v < sz /\ refused ok al v sz).
  Proof.
    intros A NB V. pose proof (resize_spec ok al v sz A NB V) as H.
    destruct (resize ok false al v sz) as [[[al' v'] log]| |]; split; auto; try discriminate; try contradiction.
    intros (H1 & H2). destruct H as (_ & _ & _ & _ & _ & _ & _ & _ & _ & _ & G).
    destruct (G H1) as (X & _). contradiction.
  Qed.

  (** what is in [0, sz) after a resize: the old elements below min(count, sz)
      unchanged, then constructed / indeterminate ones *)
  Theorem C09_resize_contents v sz k :
    length (elems v) = N.to_nat (count v) -> (k < N.to_nat sz)%nat ->
    nth k (resized v sz) 0 =
    if (k <? N.to_nat (count v))%nat then nth k (elems v) 0
    else if xcons v then CTORV else POISON.
  Proof.
    intros Hl Hk. unfold resized. destruct (Nat.ltb_spec k (N.to_nat (count v))) as [H|H].
    - rewrite app_nth1 by (rewrite firstn_length; lia). apply nth_firstn_lt; auto.
    - rewrite app_nth2 by (rewrite firstn_length; lia).
      rewrite firstn_length, Hl. rewrite Nat.min_r by lia.
      rewrite nth_repeat_lt; auto. lia.
  Qed.

  (** the constructor runs exactly once for each index entering [0, size),
      in increasing order, and nothing else is called *)
  Theorem C09_constructor_once_in_order v sz :
    count v <= sz -> xcons v = true ->
    length (resize_log v sz) = N.to_nat (sz - count v) /\
    forall k, (k < N.to_nat (sz - count v))%nat ->
      nth_error (resize_log v sz) k = Some (XCons (count v + N.of_nat k)).
  Proof.
    intros H X. unfold resize_log. rewrite X.
    replace (N.to_nat (count v - sz)) with O by lia.
    assert (E : (if xdest v then dest_log (elems v) (count v) 0 else []) = []) by (destruct (xdest v); auto).
    rewrite E, app_nil_r. split; [apply cons_log_length|]. intros k Hk. apply cons_log_nth; auto.
  Qed.

  (** the destructor runs exactly once for each index leaving [0, size),
      in decreasing order, on the value the element held *)
  Theorem C09_destructor_once_in_order v sz :
    sz <= count v -> xdest v = true ->
    length (resize_log v sz) = N.to_nat (count v - sz) /\
    forall k, (k < N.to_nat (count v - sz))%nat ->
      nth_error (resize_log v sz) k =
      Some (XDest (count v - 1 - N.of_nat k) (nth (N.to_nat (count v - 1 - N.of_nat k)) (elems v) POISON)).
  Proof.
    intros H X. unfold resize_log. rewrite X.
    replace (N.to_nat (sz - count v)) with O by lia.
    assert (E : (if xcons v then cons_log (count v) 0 else []) = []) by (destruct (xcons v); auto).
    rewrite E. simpl. split; [apply dest_log_length|]. intros k Hk. apply dest_log_nth; auto. lia.
  Qed.

  (** without the callback nothing is called *)
  Theorem C09_no_callback_no_call v sz :
    (count v <= sz -> xcons v = false -> resize_log v sz = []) /\
    (sz <= count v -> xdest v = false -> resize_log v sz = []).
  Proof.
    unfold resize_log. split; intros H X; rewrite X.
    - replace (N.to_nat (count v - sz)) with O by lia. destruct (xdest v); reflexivity.
    - replace (N.to_nat (sz - count v)) with O by lia. destruct (xcons v); reflexivity.
  Qed.

  (** clear: destructors for every element (highest index first), buffer
      released, empty vector *)
  Theorem C09_clear al v :
    alloc_ok al -> no_bad_free al -> vec_ok al v ->
    match clear ok false al v with
    | Ok (al', v', log) =>
      alloc_ok al' /\ no_bad_free al' /\ vec_ok al' v' /\ heap_frame al al' (base v) None /\
      same_shape v v' /\ base v' = None /\ cap v' = 0 /\ count v' = 0 /\ elems v' = [] /\
      log = (if xdest v then dest_log (elems v) (count v) (N.to_nat (count v)) else [])
    | Abt => False
    | Flt => False
    end.
  Proof. exact (clear_spec ok al v). Qed.

  (** after any history, once every vector has been cleared no block is live *)
  Theorem C09_no_leak shape s :
    Forall (fun p => 1 <= fst (fst p)) shape -> reach step (sys_init shape) s ->
    Forall (fun v => base v = None) (vecs s) -> live (heap s) = [].
  Proof. intros F R. apply no_leak. apply (reach_ok ok shape s F R). Qed.


  (** a refused shrink_to_fit changes nothing either *)
  Theorem C09_shrink_refused_is_identity al v :
    alloc_ok al -> no_bad_free al -> vec_ok al v -> refused ok al v (count v) ->
    exists al', shrink_to_fit ok false al v = Ok (al', v) /\ live al' = live al.
  Proof.
    intros A NB V R. pose proof (shrink_spec ok al v A NB V) as H.
    destruct (shrink_to_fit ok false al v) as [[al' v']| |]; try contradiction.
    destruct H as (_ & _ & _ & _ & _ & _ & _ & [(-> & L)|(_ & _ & _ & X)]); [eauto|contradiction].
  Qed.

  (** clearing one vector leaves the buffers of the others alone; clearing
      all of them, after any history, leaves no live block *)
  Theorem C09_clear_all_no_leak shape s :
    Forall (fun p => 1 <= fst (fst p)) shape -> reach step (sys_init shape) s ->
    match fst (run step s (map Clear (seq 0 (length (vecs s))))) with
    | Done s' _ => live (heap s') = []
    | _ => False
    end.
  Proof.
    intros F R. apply (clear_all_no_leak ok). apply (reach_ok ok shape s F R).
  Qed.

  (** sort and reverse permute [0, size) (sorted / reversed), touch nothing else *)
  Theorem C09_sort_reverse al v :
    vec_ok al v ->
    (exists v', sort al v = Ok v' /\ vec_ok al v' /\ base v' = base v /\ cap v' = cap v /\ count v' = count v /\
                Permutation (elems v) (elems v') /\ Sorted (fun a b => a <= b) (elems v')) /\
    (exists v', reverse al v = Ok v' /\ vec_ok al v' /\ base v' = base v /\ cap v' = cap v /\ count v' = count v /\
                elems v' = rev (elems v)).
  Proof.
    intros V. split.
    - destruct (sort_spec al v V) as (v' & E & V' & _ & B & C & N & L). exists v'.
      split; [exact E|]. split; [exact V'|]. rewrite L. auto using isort_perm, isort_sorted.
    - destruct (reverse_spec al v V) as (v' & E & V' & _ & B & C & N & L). exists v'. auto 10.
  Qed.
End C09.

(** Non-vacuity: a concrete history with a failing allocation (ordinal 1),
    an unrepresentable reserve, constructor and destructor, reaches a
    non-trivial state satisfying the invariant. *)
Example C09_example_run :
  let ok := script_oracle [1%nat] None in
  let ops := [Resize 0 3; Put 0 1 7; Reserve 0 10; Reserve 0 SIZE_MAX; Reserve 0 (SIZE_MAX / 4);
              Resize 0 2; Shrink 0; Put 0 0 9; Sort 0; Resize 1 2; Swap 0 1; Reverse 1] in
  match fst (run (VectorModel.step ok false) (sys_init [(4, true, true); (1, false, false)]) ops) with
  | Done s _ => map elems (vecs s) = [[POISON; POISON]; [9; 7]] /\ map cap (vecs s) = [2; 2]
  | _ => False
  end.
Proof. vm_compute. auto. Qed.

Print Assumptions C09_step_preserves_invariant.
Print Assumptions C09_reachable_invariant.
Print Assumptions C09_run_never_faults.
Print Assumptions C09_capacity_has_storage.
Print Assumptions C09_index_inside_block.
Print Assumptions C09_at_aborts_iff.
Print Assumptions C09_at_inside_block.
Print Assumptions C09_reserve.
Print Assumptions C09_reserve_refused_is_identity.
Print Assumptions C09_shrink_to_fit.
Print Assumptions C09_resize.
Print Assumptions C09_resize_aborts_iff.
Print Assumptions C09_resize_contents.
Print Assumptions C09_constructor_once_in_order.
Print Assumptions C09_destructor_once_in_order.
Print Assumptions C09_no_callback_no_call.
Print Assumptions C09_clear.
Print Assumptions C09_no_leak.
Print Assumptions C09_shrink_refused_is_identity.
Print Assumptions C09_clear_all_no_leak.
Print Assumptions C09_sort_reverse.
