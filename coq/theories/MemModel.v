(** Executable model of src/memory.c and the inline functions of
    include/cstl/memory.h (C05, C20; basis of C14).

    Objects of the caller live at fixed pool slots; the address of slot [i]
    is [ASlot i].  Every guarded pointer carries its stored self-address
    explicitly ([gself]); the guarded getter compares it with the address
    the object is accessed at and aborts on a mismatch, exactly as
    cstl_guarded_ptr_get_const does.  A stray bitwise copy ([StrayCopy])
    duplicates the bytes of one slot into another, stored self-address
    included.  The guarded pointer is also an object kind of its own ([KG],
    cstl_guarded_ptr_init / set / get / get_const / copy / swap applied to a
    caller's struct cstl_guarded_ptr).

    Heap blocks are identified by the allocator's block ids (AllocModel.v).
    The contents of a bookkeeping block (struct cstl_shared_ptr_data) are
    [sdata]: the two counters and the embedded unique pointer, whose own
    address is [AData d].  The atomic_flag [lock] is not modelled: in a
    single thread test_and_set always succeeds and the flag is cleared
    again before weak_lock returns (C06 models it).  Counter arithmetic is
    on [N] without wrap-around (2^64 references cannot exist); the
    conversion of the reference count to [int] in cstl_shared_ptr_unique is
    modelled ([soft mod 2^32]).

    Every function below is a statement-by-statement transcription: the same
    guarded reads in the same order, the same order of counter updates,
    callback, free and re-initialisation.  Reading a block that is not live
    is [Flt] (use after free); that this never happens is a theorem. *)
From Cstl Require Import Prelude AllocModel.
Local Open Scope N_scope.

(** * Small result monad for the internal functions *)
Inductive res (A : Type) := Ok (a : A) | Ab | Flt.
Arguments Ok {A} a.
Arguments Ab {A}.
Arguments Flt {A}.

Definition bind {A B} (r : res A) (f : A -> res B) : res B :=
  match r with Ok a => f a | Ab => Ab | Flt => Flt end.
Notation "x <- e ;; f" := (bind e (fun x => f))
  (at level 61, e at next level, right associativity).

(** * Addresses, guarded pointers, objects *)
Inductive addr := ASlot (i : nat) | AData (d : nat).

Definition addr_eqb (a b : addr) : bool :=
  match a, b with
  | ASlot i, ASlot j => Nat.eqb i j
  | AData i, AData j => Nat.eqb i j
  | _, _ => false
  end.

(** struct cstl_guarded_ptr *)
Record gptr := mkG { gself : addr; gp : option nat }.

(** cstl_unique_ptr_t: guarded pointer + clear callback.  [uclr = None] is
    a NULL function pointer; [Some t] is the harness' logging callback with
    private pointer [t]. *)
Record uptr := mkU { ugp : gptr; uclr : option nat }.

Inductive kind := KU | KS | KW | KA | KG.
Definition kind_eqb (a b : kind) : bool :=
  match a, b with KU, KU | KS, KS | KW, KW | KA, KA | KG, KG => true | _, _ => false end.

(** One pool slot.  All kinds share one record (the unused fields keep
    their initial value): [KU] cstl_unique_ptr_t = {gp, clr};
    [KS]/[KW] cstl_shared_ptr_t / cstl_weak_ptr_t = {gp};
    [KA] cstl_array_t = {ptr = {gp}, off, len};
    [KG] struct cstl_guarded_ptr used directly as an object = {gp}: the
    stored pointer is an arbitrary value of the caller ([Some v], [None] =
    NULL) which the library never dereferences and never owns. *)
Record obj := mkO { okind : kind; ogp : gptr; oclr : option nat; ooff : N; olen : N }.

(** struct cstl_shared_ptr_data *)
Record sdata := mkD { hard : N; soft : N; dup : uptr }.

(** struct cstl_raw_array stored at the start of a managed block *)
Inductive bufloc := Inline | Ext (e : nat).
Record desc := mkDesc { dsz : N; dnm : N; dbuf : bufloc }.

(** Events the properties talk about: allocator events and clear-callback
    invocations (argument, private pointer), in program order, newest first. *)
Inductive mev := MA (e : aev) | MClear (p : option nat) (tag : nat).

Record st := mkSt {
  al : alloc;
  objs : list obj;
  datas : list (nat * sdata);   (* contents of live bookkeeping blocks *)
  descs : list (nat * desc);    (* array headers inside live managed blocks *)
  exts : list N;                (* byte sizes of the caller's external buffers *)
  log : list mev
}.

Definition DATA_SZ : N := 56.   (* sizeof(struct cstl_shared_ptr_data) *)

(** association lists keyed by block id *)
Fixpoint lookup {A} (k : nat) (l : list (nat * A)) : option A :=
  match l with
  | [] => None
  | (k', v) :: r => if Nat.eqb k' k then Some v else lookup k r
  end.
Fixpoint remove_key {A} (k : nat) (l : list (nat * A)) : list (nat * A) :=
  match l with
  | [] => []
  | (k', v) :: r => if Nat.eqb k' k then remove_key k r else (k', v) :: remove_key k r
  end.
Definition store {A} (k : nat) (v : A) (l : list (nat * A)) : list (nat * A) :=
  (k, v) :: remove_key k l.

Definition set_al (s : st) a := mkSt a (objs s) (datas s) (descs s) (exts s) (log s).
Definition set_objs (s : st) o := mkSt (al s) o (datas s) (descs s) (exts s) (log s).
Definition set_datas (s : st) d := mkSt (al s) (objs s) d (descs s) (exts s) (log s).
Definition set_descs (s : st) d := mkSt (al s) (objs s) (datas s) d (exts s) (log s).
Definition add_log (s : st) e := mkSt (al s) (objs s) (datas s) (descs s) (exts s) (e :: log s).

Definition obj_init (k : kind) (i : nat) : obj := mkO k (mkG (ASlot i) None) None 0 0.

Fixpoint pool_init (ks : list kind) (i : nat) : list obj :=
  match ks with [] => [] | k :: r => obj_init k i :: pool_init r (S i) end.

(** all objects initialised (the DECLARE_CSTL_... macros), nothing allocated *)
Definition st_init (ks : list kind) (ex : list N) : st :=
  mkSt alloc_init (pool_init ks 0) [] [] ex [].

(** the guarded getter: cstl_guarded_ptr_get_const on the object at [a] *)
Definition gget (a : addr) (g : gptr) : res (option nat) :=
  if addr_eqb (gself g) a then Ok (gp g) else Ab.

Section WithOracle.
  Variable ok : nat -> N -> bool.

  Definition do_malloc (s : st) (sz : N) : st * option nat :=
    let '(a', r) := malloc ok (al s) sz in
    (add_log (set_al s a')
             (MA (match r with Some b => EvMalloc b sz | None => EvMallocFail sz end)), r).

  (** free(p): the contents of the block are gone with it *)
  Definition do_free (s : st) (p : option nat) : st :=
    match p with
    | None => s
    | Some b =>
      mkSt (free (al s) p) (objs s) (remove_key b (datas s)) (remove_key b (descs s)) (exts s)
           (MA (if is_live (al s) b then EvFree b else EvBadFree b) :: log s)
    end.

  (** ** Unique pointers, at a pool slot or embedded in a bookkeeping block *)
  Definition rd_up (s : st) (a : addr) : res uptr :=
    match a with
    | ASlot i => match nth_error (objs s) i with
                 | Some o => Ok (mkU (ogp o) (oclr o))
                 | None => Flt
                 end
    | AData d => match lookup d (datas s) with
                 | Some D => Ok (dup D)
                 | None => Flt
                 end
    end.

  Definition wr_up (s : st) (a : addr) (u : uptr) : st :=
    match a with
    | ASlot i => match nth_error (objs s) i with
                 | Some o => set_objs s (upd (objs s) i (mkO (okind o) (ugp u) (uclr u) (ooff o) (olen o)))
                 | None => s
                 end
    | AData d => match lookup d (datas s) with
                 | Some D => set_datas s (store d (mkD (hard D) (soft D) u) (datas s))
                 | None => s
                 end
    end.

  (** cstl_unique_ptr_init *)
  Definition unique_init (s : st) (a : addr) : st := wr_up s a (mkU (mkG a None) None).

  (** cstl_unique_ptr_reset: guarded read, callback (if any, even on a NULL
      pointer), free, re-initialise *)
  Definition unique_reset (s : st) (a : addr) : res st :=
    u <- rd_up s a;;
    p <- gget a (ugp u);;
    let s1 := match uclr u with Some t => add_log s (MClear p t) | None => s end in
    let s2 := do_free s1 p in
    Ok (unique_init s2 a).

  (** cstl_unique_ptr_alloc *)
  Definition unique_alloc (s : st) (a : addr) (sz : N) (cb : option nat) : res st :=
    s1 <- unique_reset s a;;
    if 0 <? sz then
      let '(s2, r) := do_malloc s1 sz in
      match r with
      | Some m => Ok (wr_up s2 a (mkU (mkG a (Some m)) cb))
      | None => Ok s2
      end
    else Ok s1.

  (** cstl_unique_ptr_get *)
  Definition unique_get (s : st) (a : addr) : res (option nat) :=
    u <- rd_up s a;; gget a (ugp u).

  (** cstl_unique_ptr_release: pointer and callback go to the caller *)
  Definition unique_release (s : st) (a : addr) : res (st * option nat * option nat) :=
    u <- rd_up s a;;
    p <- gget a (ugp u);;
    Ok (unique_init s a, p, uclr u).

  (** cstl_unique_ptr_swap: cstl_guarded_ptr_swap, then the callbacks *)
  Definition unique_swap (s : st) (a b : addr) : res st :=
    ua <- rd_up s a;;
    t <- gget a (ugp ua);;
    ub <- rd_up s b;;
    pb <- gget b (ugp ub);;
    let s1 := wr_up s a (mkU (mkG a pb) (uclr ua)) in
    ub1 <- rd_up s1 b;;
    let s2 := wr_up s1 b (mkU (mkG b t) (uclr ub1)) in
    ua2 <- rd_up s2 a;;
    ub2 <- rd_up s2 b;;
    let s3 := wr_up s2 a (mkU (ugp ua2) (uclr ub2)) in
    ub3 <- rd_up s3 b;;
    Ok (wr_up s3 b (mkU (ugp ub3) (uclr ua2))).

  (** ** Shared and weak pointers (pool slots of kind KS, KW, KA) *)
  Definition rd_gp (s : st) (i : nat) : res gptr :=
    match nth_error (objs s) i with Some o => Ok (ogp o) | None => Flt end.

  Definition wr_gp (s : st) (i : nat) (g : gptr) : st :=
    match nth_error (objs s) i with
    | Some o => set_objs s (upd (objs s) i (mkO (okind o) g (oclr o) (ooff o) (olen o)))
    | None => s
    end.

  Definition rd_data (s : st) (d : nat) : res sdata :=
    match lookup d (datas s) with Some D => Ok D | None => Flt end.

  Definition wr_data (s : st) (d : nat) (D : sdata) : st :=
    set_datas s (store d D (datas s)).

  (** cstl_weak_ptr_reset *)
  Definition weak_reset (s : st) (i : nat) : res st :=
    g <- rd_gp s i;;
    p <- gget (ASlot i) g;;
    match p with
    | None => Ok s
    | Some d =>
      let s1 := wr_gp s i (mkG (ASlot i) None) in
      D <- rd_data s1 d;;
      let s2 := wr_data s1 d (mkD (hard D) (soft D - 1) (dup D)) in
      if soft D =? 1 then Ok (do_free s2 (Some d)) else Ok s2
    end.

  (** cstl_shared_ptr_reset *)
  Definition shared_reset (s : st) (i : nat) : res st :=
    g <- rd_gp s i;;
    p <- gget (ASlot i) g;;
    match p with
    | None => Ok s
    | Some d =>
      D <- rd_data s d;;
      let s1 := wr_data s d (mkD (hard D - 1) (soft D) (dup D)) in
      s2 <- (if hard D =? 1 then unique_reset s1 (AData d) else Ok s1);;
      weak_reset s2 i
    end.

  (** cstl_shared_ptr_alloc *)
  Definition shared_alloc (s : st) (i : nat) (sz : N) (cb : option nat) : res st :=
    s1 <- shared_reset s i;;
    if 0 <? sz then
      let '(s2, r) := do_malloc s1 DATA_SZ in
      match r with
      | None => Ok s2
      | Some d =>
        (* atomic_init hard, soft; cstl_unique_ptr_init(&data->up) *)
        let s3 := wr_data s2 d (mkD 1 1 (mkU (mkG (AData d) None) None)) in
        s4 <- unique_alloc s3 (AData d) sz cb;;
        p <- unique_get s4 (AData d);;
        match p with
        | Some _ => Ok (wr_gp s4 i (mkG (ASlot i) (Some d)))   (* data = NULL; free(NULL) *)
        | None => Ok (do_free s4 (Some d))
        end
      end
    else Ok s1.

  (** cstl_shared_ptr_unique: [int count = soft; return count == 1] *)
  Definition shared_unique (s : st) (i : nat) : res bool :=
    g <- rd_gp s i;;
    p <- gget (ASlot i) g;;
    match p with
    | None => Ok true
    | Some d => D <- rd_data s d;; Ok ((soft D) mod 4294967296 =? 1)
    end.

  (** cstl_shared_ptr_get_const *)
  Definition shared_get (s : st) (i : nat) : res (option nat) :=
    g <- rd_gp s i;;
    p <- gget (ASlot i) g;;
    match p with
    | None => Ok None
    | Some d => D <- rd_data s d;; gget (AData d) (ugp (dup D))
    end.

  (** cstl_shared_ptr_share(e, n): n is reset first *)
  Definition shared_share (s : st) (e n : nat) : res st :=
    s1 <- shared_reset s n;;
    ge <- rd_gp s1 e;;
    pe <- gget (ASlot e) ge;;
    let s2 := wr_gp s1 n (mkG (ASlot n) pe) in
    gn <- rd_gp s2 n;;
    pn <- gget (ASlot n) gn;;
    match pn with
    | None => Ok s2
    | Some d =>
      D <- rd_data s2 d;;
      Ok (wr_data s2 d (mkD (hard D + 1) (soft D + 1) (dup D)))
    end.

  (** cstl_guarded_ptr_swap on two pool slots (shared_ptr_swap, weak_ptr_swap,
      and the guarded pointer objects themselves) *)
  Definition gp_swap (s : st) (a b : nat) : res st :=
    ga <- rd_gp s a;;
    t <- gget (ASlot a) ga;;
    gb <- rd_gp s b;;
    pb <- gget (ASlot b) gb;;
    let s1 := wr_gp s a (mkG (ASlot a) pb) in
    Ok (wr_gp s1 b (mkG (ASlot b) t)).

  (** cstl_weak_ptr_from *)
  Definition weak_from (s : st) (w sp : nat) : res st :=
    s1 <- weak_reset s w;;
    gs <- rd_gp s1 sp;;
    ps <- gget (ASlot sp) gs;;
    let s2 := wr_gp s1 w (mkG (ASlot w) ps) in
    gw <- rd_gp s2 w;;
    pw <- gget (ASlot w) gw;;
    match pw with
    | None => Ok s2
    | Some d =>
      D <- rd_data s2 d;;
      Ok (wr_data s2 d (mkD (hard D) (soft D + 1) (dup D)))
    end.

  (** cstl_weak_ptr_lock: the owner count is incremented first and put back
      when it was 0 *)
  Definition weak_lock (s : st) (w sp : nat) : res st :=
    s1 <- shared_reset s sp;;
    gw <- rd_gp s1 w;;
    pw <- gget (ASlot w) gw;;
    let s2 := wr_gp s1 sp (mkG (ASlot sp) pw) in
    gs <- rd_gp s2 sp;;
    ps <- gget (ASlot sp) gs;;
    match ps with
    | None => Ok s2
    | Some d =>
      D <- rd_data s2 d;;
      let s3 := wr_data s2 d (mkD (hard D + 1) (soft D) (dup D)) in
      if 0 <? hard D then
        D3 <- rd_data s3 d;;
        Ok (wr_data s3 d (mkD (hard D3) (soft D3 + 1) (dup D3)))
      else
        D3 <- rd_data s3 d;;
        let s4 := wr_data s3 d (mkD (hard D3 - 1) (soft D3) (dup D3)) in
        Ok (wr_gp s4 sp (mkG (ASlot sp) None))
    end.

  (** ** Guarded pointers used directly as objects (pool slots of kind KG) *)
  (** cstl_guarded_ptr_set: [gp->ptr = ptr; gp->self = gp], whatever the
      object held before (no guarded read) *)
  Definition guarded_set (s : st) (i : nat) (p : option nat) : st := wr_gp s i (mkG (ASlot i) p).

  (** cstl_guarded_ptr_init: cstl_guarded_ptr_set(gp, NULL) *)
  Definition guarded_init (s : st) (i : nat) : st := guarded_set s i None.

  (** cstl_guarded_ptr_get_const: abort unless [gp->self == gp] *)
  Definition guarded_get_const (s : st) (i : nat) : res (option nat) :=
    g <- rd_gp s i;; gget (ASlot i) g.

  (** cstl_guarded_ptr_get: a cast around cstl_guarded_ptr_get_const *)
  Definition guarded_get (s : st) (i : nat) : res (option nat) := guarded_get_const s i.

  (** cstl_guarded_ptr_copy(dst, src): guarded read of the source, then the
      destination is overwritten and stamped with its own address *)
  Definition guarded_copy (s : st) (dst src : nat) : res st :=
    p <- guarded_get_const s src;; Ok (guarded_set s dst p).

  (** cstl_guarded_ptr_swap(a, b) is [gp_swap] above: t = get(a);
      set(a, get(b)); set(b, t) *)

  (** cstl_shared_ptr_init, cstl_weak_ptr_init, cstl_array_init: no guarded read *)
  Definition obj_reinit (s : st) (i : nat) : st :=
    match nth_error (objs s) i with
    | Some o => set_objs s (upd (objs s) i (obj_init (okind o) i))
    | None => s
    end.

  (** plain assignment / memcpy of the object bytes *)
  Definition stray_copy (s : st) (src dst : nat) : st :=
    match nth_error (objs s) src with
    | Some o => set_objs s (upd (objs s) dst o)
    | None => s
    end.
End WithOracle.

(** * The scripted system for the pointer objects *)
Inductive mop :=
| UInit (u : nat) | UAlloc (u : nat) (sz : N) (cb : option nat) | UGet (u : nat)
| URelease (u : nat) | USwap (u v : nat) | UReset (u : nat)
| SInit (s : nat) | SAlloc (s : nat) (sz : N) (cb : bool) | SGet (s : nat) | SUnique (s : nat)
| SShare (e n : nat) | SSwap (a b : nat) | SReset (s : nat)
| WInit (w : nat) | WFrom (w s : nat) | WLock (w s : nat) | WSwap (a b : nat) | WReset (w : nat)
| StrayCopy (src dst : nat)
| GInit (g : nat) | GSet (g : nat) (p : option nat) | GGet (g : nat) | GGetC (g : nat)
| GCopy (dst src : nat) | GSwap (a b : nat).

Definition kind_at (s : st) (i : nat) : option kind := option_map okind (nth_error (objs s) i).
Definition has_kind (s : st) (i : nat) (k : kind) : bool :=
  match kind_at s i with Some k' => kind_eqb k' k | None => false end.

(** the object at slot [i] carries its own address *)
Definition wfb (s : st) (i : nat) : bool :=
  match nth_error (objs s) i with
  | Some o => addr_eqb (gself (ogp o)) (ASlot i)
  | None => false
  end.
Definition ptr_at (s : st) (i : nat) : option nat :=
  match nth_error (objs s) i with Some o => gp (ogp o) | None => None end.

(** An object may be re-initialised / overwritten without losing a
    reference: it is a stray copy, or it is empty. *)
Definition disposable (s : st) (i : nat) : bool :=
  negb (wfb s i) || match ptr_at s i with None => true | Some _ => false end.

(** Domain of the scripted calls: slots exist and have the C type the
    function takes; *_init and StrayCopy only overwrite disposable objects
    (a guarded pointer object owns nothing and may be overwritten in any
    state); a stray copy never lands on the address stored in it; swapping a
    unique pointer with itself (memcpy on identical ranges) is excluded. *)
Definition mdom (s : st) (o : mop) : bool :=
  match o with
  | UInit u => has_kind s u KU && disposable s u
  | UAlloc u _ _ | UGet u | URelease u | UReset u => has_kind s u KU
  | USwap u v => has_kind s u KU && has_kind s v KU && negb (Nat.eqb u v)
  | SInit x => has_kind s x KS && disposable s x
  | SAlloc x _ _ | SGet x | SUnique x | SReset x => has_kind s x KS
  | SShare e n => has_kind s e KS && has_kind s n KS
  | SSwap a b => has_kind s a KS && has_kind s b KS
  | WInit w => has_kind s w KW && disposable s w
  | WFrom w x | WLock w x => has_kind s w KW && has_kind s x KS
  | WSwap a b => has_kind s a KW && has_kind s b KW
  | WReset w => has_kind s w KW
  | StrayCopy src dst =>
    negb (Nat.eqb src dst) &&
    match nth_error (objs s) src, nth_error (objs s) dst with
    | Some o, Some o' =>
      kind_eqb (okind o) (okind o') && (kind_eqb (okind o') KG || disposable s dst) &&
      negb (addr_eqb (gself (ogp o)) (ASlot dst))
    | _, _ => false
    end
  | GInit g | GSet g _ | GGet g | GGetC g => has_kind s g KG
  | GCopy a b | GSwap a b => has_kind s a KG && has_kind s b KG
  end.

Definition of_res {A} (r : res A) (f : A -> outcome st) : outcome st :=
  match r with Ok a => f a | Ab => Abort | Flt => Fault end.

Definition zb (b : bool) : Z := if b then 1%Z else 0%Z.

Section Step.
  Variable ok : nat -> N -> bool.

  Definition mexec (s : st) (o : mop) : outcome st :=
    match o with
    | UInit u => Done (unique_init s (ASlot u)) []
    | UAlloc u sz cb => of_res (unique_alloc ok s (ASlot u) sz cb) (fun s' => Done s' [])
    | UGet u => of_res (unique_get s (ASlot u)) (fun p => Done s [zopt p])
    | URelease u =>
      (* p = cstl_unique_ptr_release(u, &clr, &priv); the caller, now the
         owner, frees p at once *)
      of_res (unique_release s (ASlot u))
             (fun r => let '(s', p, c) := r in Done (do_free s' p) [zopt p; zopt c])
    | USwap u v => of_res (unique_swap s (ASlot u) (ASlot v)) (fun s' => Done s' [])
    | UReset u => of_res (unique_reset s (ASlot u)) (fun s' => Done s' [])
    | SInit x | WInit x => Done (obj_reinit s x) []
    | SAlloc x sz cb =>
      of_res (shared_alloc ok s x sz (if cb then Some O else None)) (fun s' => Done s' [])
    | SGet x => of_res (shared_get s x) (fun p => Done s [zopt p])
    | SUnique x => of_res (shared_unique s x) (fun b => Done s [zb b])
    | SShare e n => of_res (shared_share s e n) (fun s' => Done s' [])
    | SSwap a b | WSwap a b => of_res (gp_swap s a b) (fun s' => Done s' [])
    | SReset x => of_res (shared_reset s x) (fun s' => Done s' [])
    | WFrom w x => of_res (weak_from s w x) (fun s' => Done s' [])
    | WLock w x => of_res (weak_lock s w x) (fun s' => Done s' [])
    | WReset w => of_res (weak_reset s w) (fun s' => Done s' [])
    | StrayCopy src dst => Done (stray_copy s src dst) []
    | GInit g => Done (guarded_init s g) []
    | GSet g p => Done (guarded_set s g p) []
    | GGet g => of_res (guarded_get s g) (fun p => Done s [zopt p])
    | GGetC g => of_res (guarded_get_const s g) (fun p => Done s [zopt p])
    | GCopy dst src => of_res (guarded_copy s dst src) (fun s' => Done s' [])
    | GSwap a b => of_res (gp_swap s a b) (fun s' => Done s' [])
    end.

  Definition mstep (s : st) (o : mop) : outcome st :=
    if mdom s o then mexec s o else Precond.
End Step.

(** Operations labelled with the allocator oracle in force during the call:
    histories over labelled operations cover every single global oracle
    (request ordinals only grow) and more. *)
Definition oracle := nat -> N -> bool.
Definition lmstep (s : st) (l : oracle * mop) : outcome st := mstep (fst l) s (snd l).
