(** Refutations for C09 / C10: what the faithful model of the code AS FOUND
    ([v0 = true]: before fixes/F8, F9, F10, F12) does, each with a concrete
    witness computed by the kernel.  The same inputs are in corpus/C09 and
    corpus/C10 and are replayed against the C code on every run. *)
From Cstl Require Import Prelude AllocModel VectorModel StrModel StrProofs.
Local Open Scope N_scope.

Definition always : nat -> N -> bool := script_oracle [] None.

(** * F8 / C09: the byte count (cap + 1) * esize wraps *)

Notation vrun0 es ops :=
  (fst (run (VectorModel.step always true) (sys_init [(es, false, false)]) ops)).

(** reserve(SIZE_MAX) on an empty vector of 1-byte elements: capacity
    2^64 - 1 is reported over a block of 0 bytes *)
Theorem F8_reserve_size_max_refuted :
  exists es ops,
    match vrun0 es ops with
    | Done s _ => exists v, nth_error (vecs s) 0 = Some v /\ cap v = SIZE_MAX /\ blk (heap s) v = Some 0
    | _ => False
    end.
Proof. exists 1, [Reserve 0 SIZE_MAX]. vm_compute. eexists. repeat split; reflexivity. Qed.

(** reserve(SIZE_MAX / 4) on a vector of 4-byte elements holding 2 elements
    in a 12-byte block: the request wraps to 0 bytes, realloc(p, 0) frees the
    buffer, which stays installed; the next clear frees it a second time *)
Theorem F8_reserve_frees_live_buffer_refuted :
  exists es ops,
    match vrun0 es ops with
    | Done s _ =>
      (exists v, nth_error (vecs s) 0 = Some v /\ count v = 2 /\ base v = Some 0%nat /\
                 is_live (heap s) 0 = false) /\
      VectorModel.step always true s (Clear 0) = Fault
    | _ => False
    end.
Proof.
  exists 4, [Resize 0 2; Reserve 0 (SIZE_MAX / 4)]. vm_compute.
  split; [eexists; repeat split; reflexivity|reflexivity].
Qed.

(** a reserve whose byte count wraps to a small positive number: the vector
    reports 2^60 elements of 16 bytes over a 16-byte block, and the element at
    index 1, written before, is no longer inside the buffer *)
Theorem F8_reserve_wraps_to_small_block_refuted :
  exists es ops,
    match vrun0 es ops with
    | Done s _ =>
      exists v, nth_error (vecs s) 0 = Some v /\ count v = 2 /\ cap v = 1152921504606846976 /\
                blk (heap s) v = Some 16 /\ slot (heap s) v 1 = None
    | _ => False
    end.
Proof.
  exists 16, [Resize 0 2; Put 0 1 9; Reserve 0 1152921504606846976]. vm_compute.
  eexists. repeat split; reflexivity.
Qed.

(** the repaired code on the first input: a quiet no-op *)
Example F8_repaired :
  VectorModel.step always false (sys_init [(1, false, false)]) (Reserve 0 SIZE_MAX)
  = Done (sys_init [(1, false, false)]) [].
Proof. vm_compute. reflexivity. Qed.

(** * C10: the string code as found *)

Notation srun0 w n ops := (fst (run (StrModel.sstep always true) (str_init w n) ops)).
Notation srun1 w n ops := (fst (run (StrModel.sstep always false) (str_init w n) ops)).

Definition abcdef : list N := [97; 98; 99; 100; 101; 102].

(** F9: the clamp [pos + len > size] of erase/substr wraps.
    erase(1, SIZE_MAX) on "abcdef" gives "aabcdef" instead of "a" ... *)
Theorem F9_erase_clamp_refuted :
  exists w ops,
    match srun0 w 1 ops with
    | Done s _ => sabs_sys s = [[97; 97; 98; 99; 100; 101; 102]]
    | _ => False
    end /\
    match srun1 w 1 ops with
    | Done s _ => sabs_sys s = [[97]]
    | _ => False
    end.
Proof. exists 1, [SSet 0 abcdef; SErase 0 1 SIZE_MAX]. vm_compute. auto. Qed.

(** ... and substr(2, SIZE_MAX) writes through a NULL-based pointer (the
    destination is resized to SIZE_MAX + 1 = 0 cells), where the repaired
    code gives "cdef" *)
Theorem F9_substr_clamp_refuted :
  exists w ops,
    srun0 w 2 ops = Fault /\
    match srun1 w 2 ops with
    | Done s _ => sabs_sys s = [abcdef; [99; 100; 101; 102]]
    | _ => False
    end.
Proof. exists 1, [SSet 0 abcdef; SSubstr 0 2 SIZE_MAX 1]. vm_compute. auto. Qed.

(** F10: resize(SIZE_MAX): n + 1 wraps to 0, the terminator is written one
    character before the buffer; the repaired code aborts *)
Theorem F10_resize_size_max_refuted :
  exists w ops, srun0 w 1 ops = Fault /\ srun1 w 1 ops = Abort.
Proof. exists 1, [SSet 0 [97; 98; 99]; SResize 0 SIZE_MAX]. vm_compute. auto. Qed.

(** F10: insert_ch(0, SIZE_MAX, c): size + cnt wraps, the buffer is shrunk
    and the memmove lands outside it; the repaired code aborts *)
Theorem F10_insert_ch_size_max_refuted :
  exists w ops, srun0 w 1 ops = Fault /\ srun1 w 1 ops = Abort.
Proof. exists 1, [SSet 0 [97; 98; 99]; SInsertCh 0 0 SIZE_MAX 120]. vm_compute. auto. Qed.

(** F10 on the wide instantiation: append_ch with size + cnt = 2^64 *)
Theorem F10_wide_append_ch_refuted :
  exists ops, srun0 4 1 ops = Fault /\ srun1 4 1 ops = Abort.
Proof. exists [SSet 0 [97; 98]; SAppendCh 0 (SIZE_MAX - 1) 98]. vm_compute. auto. Qed.

(** F8 through the string interface (wide): reserve(2^62 - 1) reports a
    capacity of 2^62 - 1 characters over a 4-byte block *)
Theorem F8_wide_string_reserve_refuted :
  exists ops,
    match srun0 4 1 ops with
    | Done s _ => map (fun v => (s_capacity v, blk (heap s) v)) (vecs s) = [(4611686018427387903, Some 4)]
    | _ => False
    end /\
    match srun1 4 1 ops with
    | Done s _ => map (fun v => (s_capacity v, blk (heap s) v)) (vecs s) = [(0, None)]
    | _ => False
    end.
Proof. exists [SReserve 0 4611686018427387903]. vm_compute. auto. Qed.

(** F12: reserve on a never-assigned string installs a buffer while the
    vector holds no element; str() then returns that uninitialised,
    unterminated storage (compare reads it: Fault); the repaired str()
    returns the static NUL *)
Theorem F12_str_after_reserve_refuted :
  exists w ops,
    srun0 w 2 ops = Fault /\
    match srun1 w 2 ops with
    | Done s _ => sabs_sys s = [[]; []]
    | _ => False
    end.
Proof. exists 1, [SReserve 0 8; SCompare 0 1]. vm_compute. auto. Qed.

(** F12, seen through the dump used by the correspondence check: the
    NUL flag of the string is 0 in the code as found *)
Theorem F12_not_terminated_refuted :
  exists w ops,
    match srun0 w 1 ops with
    | Done s _ => map (fun v => nth 2 (sdump true (heap s) v) 7%Z) (vecs s) = [0%Z]
    | _ => False
    end.
Proof. exists 1, [SReserve 0 8]. vm_compute. auto. Qed.
