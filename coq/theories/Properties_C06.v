(** C06 — statements (work in progress: pipeline first). *)
From Cstl Require Import Prelude ConcModel.

Theorem C06_finished_no_step gl t : prog t = [] -> step_thread gl t = None.
Proof. intros H. unfold step_thread. rewrite H. reflexivity. Qed.

Print Assumptions C06_finished_no_step.
