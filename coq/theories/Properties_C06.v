(** C06 — reference counting is correct under every thread interleaving.
    Statements only; proofs are in ConcProofs.v; the model (one small step per
    atomic operation of src/memory.c, any number of threads) is ConcModel.v. *)
From Cstl Require Import Prelude ConcModel ConcProofs.

(** The inductive invariant [conc_inv] (ConcProofs.v): every thread's objects
    agree with its program counter, and with O = counted owners, P = transient
    lock probes, S = counted references, W/C/F = threads inside the flag window /
    about to clear / about to free the bookkeeping block (all summed over ALL
    threads):  hard = O + P,  soft = S,  lock <-> W = 1 (never 2),  C <= 1,
    mem Live <-> O + C > 0,  C > 0 -> O = 0,  P > 0 -> O = 0,  F <= 1,
    data Live <-> S + F > 0,  F > 0 -> S = 0,  error flag clear. *)

(** it holds in every well-formed initial configuration: any number of threads,
    each holding counted shared objects, counted weak objects and empty ones,
    about to run any program on them *)
Theorem C06_inv_initial ts : Forall thread_init_ok ts -> conc_inv (init_state ts).
Proof. exact (conc_inv_init ts). Qed.

(** every small step of every thread preserves it *)
Theorem C06_inv_step st tid st' : conc_inv st -> step st tid = Some st' -> conc_inv st'.
Proof. exact (conc_inv_step st tid st'). Qed.

(** hence it holds after every schedule, for any number of threads *)
Theorem C06_inv_every_schedule ts sched :
  Forall thread_init_ok ts -> conc_inv (run (init_state ts) sched).
Proof. intros H. apply conc_inv_run. apply conc_inv_init; auto. Qed.

(* ---------------------------------------------------------------- *)
(** ** Destruction of the managed memory *)

(** the step that clears and frees the managed memory (event [EClear]) is
    taken in a state with NO counted owner; the memory was alive until then
    and is dead afterwards *)
Theorem C06_clear_only_without_owner st tid st' i :
  conc_inv st -> step st tid = Some st' -> log st' = log st ++ [i] ->
  nev is_clear (i_evs i) > 0 ->
  tot own (ths st) = 0 /\ mem (g st) = Live /\ mem (g st') = Dead /\ i_lab i = LClear.
Proof. exact (clear_only_without_owner st tid st' i). Qed.

(** in every execution (any threads, any programs, any schedule) the memory
    is cleared at most once and freed at most once, and so is the
    bookkeeping block *)
Theorem C06_destroy_at_most_once ts sched :
  let st := run (init_state ts) sched in
  log_count is_clear (log st) <= 1 /\ log_count is_freemem (log st) <= 1 /\
  log_count is_freedata (log st) <= 1.
Proof. exact (clear_at_most_once ts sched). Qed.

(** exactly once in every execution that ends with every thread finished and
    every object reset (given that there was an owner / a reference at all) *)
Theorem C06_destroy_exactly_once ts sched :
  Forall thread_init_ok ts ->
  let st := run (init_state ts) sched in
  Forall released (ths st) ->
  (tot hardc ts > 0 -> log_count is_clear (log st) = 1 /\ log_count is_freemem (log st) = 1) /\
  (tot softc ts > 0 -> log_count is_freedata (log st) = 1).
Proof. exact (destroyed_exactly_once ts sched). Qed.

(* ---------------------------------------------------------------- *)
(** ** Owners see live memory; the weak lock *)

(** whoever holds a counted owner object ([SHard]/[SFull]) in a reachable
    state: the managed memory is alive *)
Theorem C06_owner_memory_live st tid t i :
  conc_inv st -> nth_error (ths st) tid = Some t -> own_obj (get_sh t i) = 1 -> mem (g st) = Live.
Proof. exact (owner_live st tid t i). Qed.

(** the lock's increment (made while holding the spin flag) reads exactly the
    number of counted owners: no other thread's transient increment is in it *)
Theorem C06_lock_reads_owner_count st tid t :
  conc_inv st -> nth_error (ths st) tid = Some t -> tpc t = PLockHard ->
  hard (g st) = N.of_nat (tot own (ths st)) /\ lock (g st) = true.
Proof. exact (lock_reads_owner_count st tid t). Qed.

(** so the lock yields an owner iff a counted owner exists at that instant,
    and then the destination is a counted owner of LIVE memory from that very
    step on; otherwise it is a probe that the next step undoes *)
Theorem C06_lock_success_live st tid t w d rest st' :
  conc_inv st -> nth_error (ths st) tid = Some t -> tpc t = PLockHard -> prog t = Lock w d :: rest ->
  step st tid = Some st' ->
  (tot own (ths st) > 0 ->
     exists t', nth_error (ths st') tid = Some t' /\ get_sh t' d = SHard /\ tpc t' = PLockSoft /\
                mem (g st') = Live) /\
  (tot own (ths st) = 0 ->
     exists t', nth_error (ths st') tid = Some t' /\ get_sh t' d = SProbe /\ tpc t' = PLockUndo).
Proof. exact (lock_success_live st tid t w d rest st'). Qed.

(** an object keeps its state under every step of every other thread and
    under its own thread's steps in calls that do not target it: the owner
    obtained by a lock stays a counted owner - and by
    [C06_owner_memory_live] its memory stays alive - until its own thread
    starts a call on it (its reset) *)
Theorem C06_owner_kept st tid st' tid' t i :
  conc_inv st -> step st tid = Some st' -> nth_error (ths st) tid' = Some t ->
  (tid' <> tid \/ exists o rest, prog t = o :: rest /\ ~ touches_sh o i) ->
  exists t', nth_error (ths st') tid' = Some t' /\ get_sh t' i = get_sh t i.
Proof. exact (object_kept st tid st' tid' t i). Qed.

(* ---------------------------------------------------------------- *)
(** ** The bookkeeping block *)

(** once it is freed, no thread has an enabled step that accesses it *)
Theorem C06_no_access_after_free st tid l :
  conc_inv st -> data (g st) = Dead -> next_label st tid = Some l -> access l = 0.
Proof. exact (no_access_after_free st tid l). Qed.

(** the error flag (access to the freed block, second clear, second free,
    counter underflow) is never set and no such event is ever logged *)
Theorem C06_never_error ts sched :
  Forall thread_init_ok ts ->
  let st := run (init_state ts) sched in
  err (g st) = false /\ log_count is_bad (log st) = 0.
Proof. exact (never_err ts sched). Qed.

(* ---------------------------------------------------------------- *)
(** ** Data-race freedom at the SC level *)

(** no reachable state enables two conflicting accesses of different threads
    to the bookkeeping block: non-atomic read/write of [data->up] (get, clear)
    against each other, or free(data) against ANY access, atomic or not *)
Theorem C06_race_free ts sched :
  Forall thread_init_ok ts -> has_race (run (init_state ts) sched) = false.
Proof. intros H. apply race_free. apply conc_inv_run, conc_inv_init; auto. Qed.

Theorem C06_no_conflicting_pair st i j : conc_inv st -> race_at st i j = false.
Proof. exact (no_race_at st i j). Qed.

(* ---------------------------------------------------------------- *)
(** ** Progress *)

(** in ANY schedule the number of non-spin steps is at most 9 per library
    call (every non-spin step decreases a global measure; a failed
    test-and-set leaves it unchanged): with finitely many calls every weakly
    fair schedule terminates *)
Theorem C06_nonspin_steps_bounded ts sched :
  nonspin (log (run (init_state ts) sched)) <= 9 * tot (fun t => length (prog t)) ts.
Proof. exact (nonspin_le_calls ts sched). Qed.

(** whenever the flag is held, its holder exists, has an enabled non-spin
    step, and each of its own steps brings it one closer to the release:
    at most 3 of its own steps *)
Theorem C06_lock_holder_progress st :
  conc_inv st -> lock (g st) = true ->
  exists tid t ts, nth_error (ths st) tid = Some t /\ win t = 1 /\
    step_thread (g st) t = Some ts /\ ts_lab ts <> LTas /\
    ((wdist (tpc t) = 1 /\ lock (ts_g ts) = false) \/
     (wdist (tpc (ts_t ts)) + 1 = wdist (tpc t) /\ win (ts_t ts) = 1)) /\
    wdist (tpc t) <= 3.
Proof. exact (lock_holder_progress st). Qed.

(** a thread that spins is never alone: ANOTHER thread holds the flag and has
    an enabled non-spin step *)
Theorem C06_spinner_not_alone st tid st' i :
  conc_inv st -> step st tid = Some st' -> log st' = log st ++ [i] -> is_spin i = true ->
  exists tid' t' ts', tid' <> tid /\ nth_error (ths st) tid' = Some t' /\ win t' = 1 /\
    step_thread (g st) t' = Some ts' /\ ts_lab ts' <> LTas.
Proof. exact (spinner_not_alone st tid st' i). Qed.

(** no deadlock: while some thread has not finished, some thread has an
    enabled step that is not a failed test-and-set *)
Theorem C06_no_deadlock st tid t :
  conc_inv st -> nth_error (ths st) tid = Some t -> prog t <> [] ->
  exists tid' t' ts', nth_error (ths st) tid' = Some t' /\ step_thread (g st) t' = Some ts' /\
    (ts_lab ts' <> LTas \/ ts_ret ts' = 0%N).
Proof. exact (some_thread_runs st tid t). Qed.

(** Non-vacuity: three threads in the middle of their calls.  Thread 0 (the
    last owner) has taken the owner count to 0 and is about to clear the
    memory; thread 2 holds the spin flag and has just incremented the owner
    count from 0 (a probe it will undo); thread 1 spins on the flag. *)
Example C06_example_midflight :
  let ts := [mk_thread 1 1 0 1 [Reset 0];
             mk_thread 0 1 1 0 [Lock 0 0; Get 0; Reset 0; WeakReset 0];
             mk_thread 0 1 1 0 [Lock 0 0; Get 0; Reset 0; WeakReset 0]] in
  let st := run (init_state ts) [0; 2; 2; 1] in
  conc_inv st /\
  map tpc (ths st) = [PClear; PLockSpin; PLockUndo] /\
  (hard (g st), soft (g st), lock (g st), mem (g st), data (g st)) = (1%N, 3%N, true, Live, Live) /\
  has_race st = false.
Proof.
  split.
  - apply conc_inv_run. apply conc_inv_init.
    repeat (apply Forall_cons; [apply mk_thread_init_ok; repeat constructor; simpl; lia|]).
    constructor.
  - vm_compute. auto.
Qed.

(** a complete run of the same scenario: everything released, memory
    destroyed exactly once, bookkeeping block freed exactly once *)
Example C06_example_complete :
  let ts := [mk_thread 1 1 0 1 [Reset 0];
             mk_thread 0 1 1 0 [Lock 0 0; Get 0; Reset 0; WeakReset 0];
             mk_thread 0 1 1 0 [Lock 0 0; Get 0; Reset 0; WeakReset 0]] in
  let st := run (init_state ts) ([1; 1; 2; 0; 0; 1; 1; 2; 2] ++ repeat 0 5 ++ repeat 1 20 ++ repeat 2 20) in
  Forall (fun t => prog t = []) (ths st) /\
  (log_count is_clear (log st), log_count is_freedata (log st), nonspin (log st)) = (1, 1, 20).
Proof. vm_compute. repeat constructor. Qed.

Print Assumptions C06_inv_initial.
Print Assumptions C06_inv_step.
Print Assumptions C06_inv_every_schedule.
Print Assumptions C06_clear_only_without_owner.
Print Assumptions C06_destroy_at_most_once.
Print Assumptions C06_destroy_exactly_once.
Print Assumptions C06_owner_memory_live.
Print Assumptions C06_lock_reads_owner_count.
Print Assumptions C06_lock_success_live.
Print Assumptions C06_owner_kept.
Print Assumptions C06_no_access_after_free.
Print Assumptions C06_never_error.
Print Assumptions C06_race_free.
Print Assumptions C06_no_conflicting_pair.
Print Assumptions C06_nonspin_steps_bounded.
Print Assumptions C06_lock_holder_progress.
Print Assumptions C06_spinner_not_alone.
Print Assumptions C06_no_deadlock.
