(** C06 — reference counting is correct under every thread interleaving.
    Statements only; proofs are in ConcProofs.v; the model (one small step per
    atomic operation of src/memory.c, any number of threads) is ConcModel.v. *)
From Cstl Require Import Prelude ConcModel ConcProofs.

(** The inductive invariant [conc_inv] (ConcProofs.v): every thread's objects
    agree with its program counter, and with O = counted owners, P = transient
    lock probes, S = counted references, W/C/F = threads inside the flag window /
    about to clear / about to free the bookkeeping block (all summed over ALL
    threads):  hard = O + P,  soft = S,  lock <-> W = 1 (never 2),  C <= 1,
    mem Live <-> O + C > 0,  C > 0 -> O = 0,  P > 0 -> O = 0,  F <= 1,
    data Live <-> S + F > 0,  F > 0 -> S = 0,  error flag clear. *)

(** it holds in every well-formed initial configuration: any number of threads,
    each holding counted shared objects, counted weak objects and empty ones,
    about to run any program on them *)
Theorem C06_inv_initial ts : Forall thread_init_ok ts -> conc_inv (init_state ts).
Proof. exact (conc_inv_init ts). Qed.

(** every small step of every thread preserves it *)
Theorem C06_inv_step st tid st' : conc_inv st -> step st tid = Some st' -> conc_inv st'.
Proof. exact (conc_inv_step st tid st'). Qed.

(** hence it holds after every schedule, for any number of threads *)
Theorem C06_inv_every_schedule ts sched :
  Forall thread_init_ok ts -> conc_inv (run (init_state ts) sched).
Proof. intros H. apply conc_inv_run. apply conc_inv_init; auto. Qed.

(** Non-vacuity: three threads in the middle of their calls.  Thread 0 (the
    last owner) has taken the owner count to 0 and is about to clear the
    memory; thread 2 holds the spin flag and has just incremented the owner
    count from 0 (a probe it will undo); thread 1 spins on the flag. *)
Example C06_example_midflight :
  let ts := [mk_thread 1 1 0 1 [Reset 0];
             mk_thread 0 1 1 0 [Lock 0 0; Get 0; Reset 0; WeakReset 0];
             mk_thread 0 1 1 0 [Lock 0 0; Get 0; Reset 0; WeakReset 0]] in
  let st := run (init_state ts) [0; 2; 2; 1] in
  conc_inv st /\
  map tpc (ths st) = [PClear; PLockSpin; PLockUndo] /\
  (hard (g st), soft (g st), lock (g st), mem (g st), data (g st)) = (1%N, 3%N, true, Live, Live) /\
  has_race st = false.
Proof.
  split.
  - apply conc_inv_run. apply conc_inv_init.
    repeat (apply Forall_cons; [apply mk_thread_init_ok; repeat constructor; simpl; lia|]).
    constructor.
  - vm_compute. auto.
Qed.

Print Assumptions C06_inv_initial.
Print Assumptions C06_inv_step.
Print Assumptions C06_inv_every_schedule.
