(** Proofs about HashModel.v, part 6: the allocator side (used by C16,
    "allocation failure never corrupts a container").  [alloc_inv]: the live
    blocks of the allocator are exactly the bucket arrays of the tables, each
    with [16 * capacity] bytes (nothing leaked, nothing dangling), block ids
    are distinct, and no free of a non-live block ever happened.  It is
    preserved by every operation for every allocator oracle; a failing
    realloc inside resize / shrink_to_fit leaves the allocator's blocks and
    the contents of every table as they were. *)
From Cstl Require Import Prelude AllocModel HashModel HashProofs HashInv HashOps HashTable HashSys.
Local Open Scope N_scope.

Arguments HashModel.bucket_raw : simpl never.
Arguments N.mul : simpl never.

(** * Facts about AllocModel *)

Lemma is_live_in a b : is_live a b = true <-> In b (map fst (AllocModel.live a)).
Proof.
  unfold is_live. rewrite existsb_exists, in_map_iff. split.
  - intros (p & Hp & E). apply Nat.eqb_eq in E. exists p. auto.
  - intros (p & E & Hp). exists p. split; auto. apply Nat.eqb_eq. auto.
Qed.

Lemma remove_block_in b l p : In p (remove_block b l) <-> In p l /\ fst p <> b.
Proof.
  unfold remove_block. rewrite filter_In. rewrite negb_true_iff, Nat.eqb_neq. tauto.
Qed.

Lemma remove_block_perm b sz l :
  NoDup (map fst l) -> In (b, sz) l -> Permutation l ((b, sz) :: remove_block b l).
Proof.
  induction l as [|[b' s'] l IH]; simpl; intros Nd Hin; [destruct Hin|].
  inversion Nd as [|? ? Hn Nd']; subst.
  destruct (Nat.eqb_spec b' b) as [->|Hne]; simpl.
  - destruct Hin as [[= ->]|Hin].
    + constructor. assert (E : remove_block b l = l); [|rewrite E; auto].
      unfold remove_block. clear - Hn. induction l as [|[b1 s1] l IH]; simpl; auto.
      simpl in Hn. destruct (Nat.eqb_spec b1 b) as [->|]; simpl; [tauto|]. f_equal. apply IH. tauto.
    + exfalso. apply Hn. apply in_map_iff. exists (b, sz). auto.
  - destruct Hin as [[= -> _]|Hin]; [congruence|].
    rewrite perm_swap. constructor. apply IH; auto.
Qed.

Lemma remove_block_nodup b l : NoDup (map fst l) -> NoDup (map fst (remove_block b l)).
Proof.
  induction l as [|[b' s'] l IH]; simpl; intros Nd; [constructor|].
  inversion Nd as [|? ? Hn Nd']; subst.
  destruct (Nat.eqb_spec b' b); simpl; auto. constructor; auto.
  intros Hin. apply Hn. apply in_map_iff in Hin. destruct Hin as (p & E & Hp).
  apply remove_block_in in Hp. apply in_map_iff. exists p. tauto.
Qed.

(** * Blocks owned by the tables *)

Definition tab_block (t : table) : list (nat * N) :=
  match at_blk t with Some b => [(b, BUCKET_BYTES * cap t)] | None => [] end.
Definition tab_blocks (ts : list table) : list (nat * N) := flat_map tab_block ts.

Lemma tab_blocks_app a b : tab_blocks (a ++ b) = tab_blocks a ++ tab_blocks b.
Proof. apply flat_map_app. Qed.

Lemma tab_blocks_upd ts i t t' :
  nth_error ts i = Some t ->
  exists l1 l2, tab_blocks ts = l1 ++ tab_block t ++ l2 /\ tab_blocks (upd ts i t') = l1 ++ tab_block t' ++ l2.
Proof.
  intros H. destruct (nth_error_split _ _ _ H) as (p & q & -> & <-).
  rewrite upd_app. exists (tab_blocks p), (tab_blocks q). rewrite !tab_blocks_app.
  unfold tab_blocks at 2 4. simpl. fold (tab_blocks q). auto.
Qed.

Record alloc_inv (s : sys) : Prop := mkAI {
  ai_live : Permutation (AllocModel.live (al s)) (tab_blocks (tabs s));
  ai_nodup : NoDup (map fst (AllocModel.live (al s)));
  ai_fresh : forall p, In p (AllocModel.live (al s)) -> (fst p < next (al s))%nat;
  ai_nobad : no_bad_free (al s);
  ai_none : Forall (fun t => hash t = None -> cap t = 0) (tabs s)
}.

Lemma alloc_inv_init n : alloc_inv (sys_init n).
Proof.
  split; simpl.
  - replace (tab_blocks (repeat t_init n)) with (@nil (nat * N)); auto.
    induction n; simpl; auto.
  - constructor.
  - intros p [].
  - intros b [].
  - apply Forall_forall. intros t Ht. apply repeat_spec in Ht. now subst.
Qed.

(** a table whose block and capacity are unchanged *)
Lemma alloc_inv_same_block s i t t' :
  alloc_inv s -> nth_error (tabs s) i = Some t ->
  at_blk t' = at_blk t -> cap t' = cap t -> (hash t' = None -> cap t' = 0) ->
  alloc_inv (mkSys (upd (tabs s) i t') (al s)).
Proof.
  intros [A1 A2 A3 A4 A5] Et Ea Ec Hn. split; simpl; auto.
  - destruct (tab_blocks_upd (tabs s) i t t' Et) as (l1 & l2 & E1 & E2). rewrite E2.
    unfold tab_block at 1. rewrite Ea, Ec. fold (tab_block t). now rewrite <- E1.
  - apply Forall_upd; auto.
Qed.

Section AllocSteps.
  Variable ok : nat -> N -> bool.

  (** the table [t] trades its block for the result of a realloc *)
  Lemma alloc_inv_realloc s i t sz :
    alloc_inv s -> nth_error (tabs s) i = Some t -> 0 < sz ->
    forall t',
    (match snd (realloc ok (al s) (at_blk t) (BUCKET_BYTES * sz)) with
     | Some b => at_blk t' = Some b /\ cap t' = sz
     | None => at_blk t' = at_blk t /\ cap t' = cap t
     end) ->
    (hash t' = None -> cap t' = 0) ->
    alloc_inv (mkSys (upd (tabs s) i t') (fst (realloc ok (al s) (at_blk t) (BUCKET_BYTES * sz)))) /\
    (snd (realloc ok (al s) (at_blk t) (BUCKET_BYTES * sz)) = None ->
       AllocModel.live (fst (realloc ok (al s) (at_blk t) (BUCKET_BYTES * sz))) = AllocModel.live (al s)).
  Proof.
    intros [A1 A2 A3 A4 A5] Et Hsz t' Ht' Hn.
    destruct (tab_blocks_upd (tabs s) i t t' Et) as (l1 & l2 & E1 & E2).
    assert (Hb : forall b, at_blk t = Some b -> In (b, BUCKET_BYTES * cap t) (AllocModel.live (al s))).
    { intros b Eb. eapply Permutation_in; [symmetry; exact A1|]. rewrite E1. unfold tab_block. rewrite Eb.
      apply in_or_app. right. now left. }
    assert (Hnz : (BUCKET_BYTES * sz =? 0) = false).
    { apply N.eqb_neq. unfold BUCKET_BYTES. lia. }
    unfold realloc in *. destruct (at_blk t) as [b|] eqn:Eb.
    - rewrite Hnz in *. specialize (Hb b eq_refl).
      destruct (grant ok (al s) (BUCKET_BYTES * sz)) eqn:Eg; simpl in *.
      + destruct Ht' as (Ea & Ec). split; [|discriminate]. split; simpl.
        * rewrite E2. unfold tab_block at 1. rewrite Ea, Ec.
          pose proof (remove_block_perm b _ _ A2 Hb) as P.
          apply (Permutation_trans (Permutation_sym A1)) in P. rewrite E1 in P.
          unfold tab_block at 1 in P. rewrite Eb in P. simpl in P.
          rewrite <- Permutation_middle in P. apply Permutation_cons_inv in P.
          simpl. rewrite <- Permutation_middle. constructor. symmetry. exact P.
        * constructor; [|apply remove_block_nodup; auto].
          intros Hin. apply in_map_iff in Hin. destruct Hin as (p & E & Hp).
          apply remove_block_in in Hp. destruct Hp as (Hp & _). specialize (A3 p Hp). lia.
        * intros p [<-|Hp]; simpl; [lia|]. apply remove_block_in in Hp. destruct Hp as (Hp & _).
          specialize (A3 p Hp). lia.
        * intros b' [E|Hin]; [discriminate|]. apply (A4 b' Hin).
        * apply Forall_upd; auto.
      + destruct Ht' as (Ea & Ec). split; [|auto]. split; simpl; auto.
        * rewrite E2. unfold tab_block at 1. rewrite Ea, Ec.
          rewrite A1, E1. unfold tab_block. now rewrite Eb.
        * intros b' [E|Hin]; [discriminate|]. apply (A4 b' Hin).
        * apply Forall_upd; auto.
    - destruct (grant ok (al s) (BUCKET_BYTES * sz)) eqn:Eg; simpl in *.
      + destruct Ht' as (Ea & Ec). split; [|discriminate]. split; simpl.
        * rewrite E2. unfold tab_block at 1. rewrite Ea, Ec. simpl.
          rewrite <- Permutation_middle. constructor. rewrite A1, E1. unfold tab_block. now rewrite Eb.
        * constructor; auto. intros Hin. apply in_map_iff in Hin. destruct Hin as (p & E & Hp).
          specialize (A3 p Hp). lia.
        * intros p [<-|Hp]; simpl; [lia|]. specialize (A3 p Hp). lia.
        * intros b' [E|Hin]; [discriminate|]. apply (A4 b' Hin).
        * apply Forall_upd; auto.
      + destruct Ht' as (Ea & Ec). split; [|auto]. split; simpl; auto.
        * rewrite E2. unfold tab_block at 1. rewrite Ea.
          rewrite A1, E1. unfold tab_block. now rewrite Eb.
        * intros b' [E|Hin]; [discriminate|]. apply (A4 b' Hin).
        * apply Forall_upd; auto.
  Qed.

  Lemma alloc_inv_free s i t t' :
    alloc_inv s -> nth_error (tabs s) i = Some t -> at_blk t' = None -> cap t' = 0 ->
    alloc_inv (mkSys (upd (tabs s) i t') (free (al s) (at_blk t))).
  Proof.
    intros [A1 A2 A3 A4 A5] Et Ea Ec.
    destruct (tab_blocks_upd (tabs s) i t t' Et) as (l1 & l2 & E1 & E2).
    assert (Hu : tab_block t' = []) by (unfold tab_block; now rewrite Ea).
    unfold free. destruct (at_blk t) as [b|] eqn:Eb.
    - assert (Hb : In (b, BUCKET_BYTES * cap t) (AllocModel.live (al s))).
      { eapply Permutation_in; [symmetry; exact A1|]. rewrite E1. unfold tab_block. rewrite Eb.
        apply in_or_app. right. now left. }
      assert (Hl : is_live (al s) b = true).
      { apply is_live_in. apply in_map_iff. exists (b, BUCKET_BYTES * cap t). auto. }
      rewrite Hl. split; simpl.
      + rewrite E2, Hu. simpl.
        pose proof (remove_block_perm b _ _ A2 Hb) as P.
        apply (Permutation_trans (Permutation_sym A1)) in P. rewrite E1 in P.
        unfold tab_block at 1 in P. rewrite Eb in P. simpl in P.
        rewrite <- Permutation_middle in P. apply Permutation_cons_inv in P. symmetry. exact P.
      + apply remove_block_nodup; auto.
      + intros p Hp. apply remove_block_in in Hp. apply A3. tauto.
      + intros b' [E|Hin]; [discriminate|]. apply (A4 b' Hin).
      + apply Forall_upd; auto.
    - split; simpl; auto.
      + rewrite E2, Hu. simpl. rewrite A1, E1. unfold tab_block. now rewrite Eb.
      + apply Forall_upd; auto.
  Qed.
End AllocSteps.

Section AllocInv.
  Variable hf : fn_id -> N -> N -> option N.
  Variable key : nat -> N.
  Variable ok : nat -> N -> bool.
  Hypothesis Hdef : hf_def hf.

  Notation exec := (exec hf key fixed ok).
  Notation sys_inv := (sys_inv hf key).
  Notation inv := (inv hf key).

  Lemma tgt_none_hash_none t : inv t -> tgt_hash t = None -> hash t = None.
  Proof. unfold tgt_hash. destruct (rhash t); [discriminate|auto]. Qed.

  (** every operation keeps the allocator consistent with the tables *)
  Theorem exec_alloc_inv s o s' r w :
    sys_inv s -> alloc_inv s -> exec s o = XDone s' r w -> alloc_inv s'.
  Proof.
    intros SI AI E. pose proof SI as (F & _).
    destruct o as [i e|i k vis|i e|i n f|i|i|i j|i er stop|i stop|i cb|i|i];
      cbn [HashModel.exec] in E; unfold with_tab in E;
      destruct (nth_error (tabs s) i) as [t|] eqn:Et; try discriminate;
      pose proof (Forall_nth _ _ _ _ F Et) as I;
      pose proof (Forall_nth _ _ _ _ (ai_none s AI) Et) as Hnone.
    - (* insert *)
      destruct (in_any s e || negb (is_some (hash t))) eqn:Ec; [discriminate|].
      apply orb_false_iff in Ec. destruct Ec as (Ea & Eh).
      assert (Hh : hash t <> None) by (destruct (hash t); [congruence|discriminate]).
      assert (Hn : ~ In e (live t)).
      { intros H. assert (in_any s e = true); [|congruence]. apply in_any_spec. apply in_lives. eauto. }
      pose proof (insert_spec hf key Hdef t e I Hh Hn) as P.
      destruct (insert hf key t e) as [t' w'| |]; cbn [lift] in E; try discriminate.
      injection E as <- _ _. destruct P as (_ & _ & _ & (_ & _ & Hh' & C & A & _) & _).
      eapply alloc_inv_same_block; eauto. congruence.
    - (* find *)
      destruct (negb (is_some (hash t))) eqn:Eh; [discriminate|].
      assert (Hh : hash t <> None) by (destruct (hash t); [congruence|discriminate]).
      pose proof (find_spec hf key Hdef t k vis I Hh) as P.
      destruct (find hf key t k vis) as [[t' x] w'| |]; cbn [lift fst snd] in E; try discriminate.
      injection E as <- _ _. destruct P as (_ & _ & _ & (_ & _ & Hh' & C & A & _) & _).
      eapply alloc_inv_same_block; eauto. simpl in *. congruence.
    - (* erase *)
      destruct (negb (is_some (hash t))) eqn:Eh; [discriminate|].
      assert (Hh : hash t <> None) by (destruct (hash t); [congruence|discriminate]).
      pose proof (erase_d_spec hf key Hdef [] t e I Hh ltac:(intros x [])) as P.
      unfold erase in E. destruct (erase_d hf key [] t e) as [t' w'| |]; cbn [lift] in E; try discriminate.
      injection E as <- _ _. destruct P as (_ & (_ & _ & Hh' & C & A & _) & _).
      eapply alloc_inv_same_block; eauto. congruence.
    - (* resize *)
      destruct (N.ltb_spec MAX_BUCKETS n) as [|Hm]; [discriminate|].
      pose proof (resize_spec hf key Hdef ok t (al s) n f I Hm) as P.
      destruct (resize hf key fixed ok t (al s) n f) as [[t' a'] w'| |]; cbn [lift fst snd] in E; try discriminate.
      injection E as <- _ _. cbn [HashProofs.safe fst snd] in P.
      destruct P as (I' & _ & _ & Land & Keep & Zero & Ha & Hgrow & Hsame & _).
      assert (Hn' : hash t' = None -> cap t' = 0).
      { intros Hh'. destruct (N.ltb_spec 0 n) as [Hn|Hn].
        - destruct (N.ltb_spec (cap t') n) as [Hlt|Hge].
          + rewrite (Keep Hlt). apply Hnone. rewrite <- (Keep Hlt). auto.
          + destruct (Land Hn Hge) as (_ & TH). exfalso.
            pose proof (sh_none t' (inv_shape _ _ t' (proj1 I')) Hh') as (_ & Hr').
            unfold tgt_hash in TH. rewrite Hr', Hh' in TH. unfold new_hash in TH.
            destruct f; [discriminate|]. destruct (tgt_hash t); discriminate.
        - assert (n = 0) by lia. specialize (Zero H). injection Zero as -> _. auto. }
      destruct (N.ltb_spec 0 n) as [Hn|Hn].
      2: { assert (n = 0) by lia. specialize (Zero H). injection Zero as -> ->.
           rewrite upd_same by auto. now destruct s. }
      rewrite (Ha Hn). destruct (N.ltb_spec (cap t) n) as [Hlt|Hge].
      + apply (alloc_inv_realloc ok s i t n AI Et Hn t'); auto.
        specialize (Hgrow Hn Hlt). destruct (snd (realloc ok (al s) (at_blk t) (BUCKET_BYTES * n))); auto.
        subst t'. auto.
      + destruct (Hsame ltac:(lia)) as (A & C). eapply alloc_inv_same_block; eauto.
    - (* rehash *)
      pose proof (rehash_inv hf key Hdef t I) as P.
      destruct (rehash hf key t) as [t' w'| |]; cbn [lift] in E; try discriminate.
      injection E as <- _ _. destruct P as (_ & _ & _ & _ & Hh & C & A & _).
      eapply alloc_inv_same_block; eauto. intros Hh'. rewrite C. apply Hnone.
      apply (tgt_none_hash_none t I). congruence.
    - (* shrink *)
      pose proof (shrink_spec hf key Hdef ok t (al s) I) as P.
      destruct (shrink_to_fit hf key ok t (al s)) as [[t' a'] w'| |]; cbn [lift fst snd] in E; try discriminate.
      injection E as <- _ _. cbn [HashProofs.safe fst snd] in P.
      destruct P as (I' & _ & _ & TC & TH & Hnop & Hdo & _).
      destruct (N.ltb_spec (tgt_count t) (cap t)) as [Hlt|Hge].
      + destruct (Hdo Hlt) as (Hr' & Ea' & Hb'). rewrite Ea'.
        assert (Hpos : 0 < tgt_count t).
        { destruct (N.ltb_spec 0 (tgt_count t)); auto. exfalso.
          assert (Hh0 : hash t = None).
          { pose proof (inv_shape _ _ t (proj1 I)) as S. unfold tgt_count in *.
            destruct (rhash t) eqn:Er.
            - destruct (sh_rh t S ltac:(congruence)). lia.
            - destruct (hash t) eqn:Eh; auto. pose proof (sh_pos t S ltac:(congruence)). lia. }
          rewrite (Hnone Hh0) in Hlt. lia. }
        apply (alloc_inv_realloc ok s i t (tgt_count t) AI Et Hpos t'); auto.
        intros Hh'. exfalso.
        pose proof (sh_none t' (inv_shape _ _ t' (proj1 I')) Hh') as (Hc' & _).
        unfold tgt_count at 1 in TC. rewrite Hr' in TC. lia.
      + specialize (Hnop Hge). injection Hnop as -> ->. rewrite upd_same by auto. now destruct s.
    - (* swap *)
      destruct (nth_error (tabs s) j) as [tj|] eqn:Ej; [|discriminate].
      injection E as <- _ _. destruct AI as [A1 A2 A3 A4 A5]. split; simpl; auto.
      + rewrite A1. clear - Et Ej. rename t into ti.
        destruct (Nat.eq_dec i j) as [->|Hne].
        * rewrite upd_upd. rewrite Et in Ej. injection Ej as ->. now rewrite upd_same.
        * destruct (tab_blocks_upd (tabs s) i ti tj Et) as (l1 & l2 & E1 & E2).
          assert (Hj' : nth_error (upd (tabs s) i tj) j = Some tj) by (rewrite nth_error_upd_other; auto).
          destruct (tab_blocks_upd (upd (tabs s) i tj) j tj ti Hj') as (m1 & m2 & E3 & E4).
          rewrite E4, E1. rewrite E2 in E3.
          assert (P1 : forall (x m n : list (nat * N)), Permutation (m ++ x ++ n) (x ++ m ++ n)).
          { intros x m n. rewrite app_assoc. rewrite (Permutation_app_comm m x). now rewrite <- app_assoc. }
          rewrite (P1 (tab_block ti) m1 m2), (P1 (tab_block ti) l1 l2). apply Permutation_app_head.
          apply (Permutation_app_inv_l (tab_block tj)).
          rewrite <- (P1 (tab_block tj) m1 m2), <- (P1 (tab_block tj) l1 l2), <- E3. reflexivity.
      + apply Forall_upd; [apply Forall_upd; auto|].
        * apply (Forall_nth _ _ _ _ A5 Ej).
        * apply (Forall_nth _ _ _ _ A5 Et).
    - (* foreach *)
      pose proof (foreach_spec hf key Hdef t er stop I) as P.
      destruct (foreach hf key fixed t er stop) as [[t' res] w'| |]; cbn [lift fst snd] in E; try discriminate.
      injection E as <- _ _. cbn [HashProofs.safe fst snd] in P.
      destruct P as (_ & _ & _ & Hh & C & A & _).
      eapply alloc_inv_same_block; eauto. intros Hh'. rewrite C. apply Hnone.
      apply (tgt_none_hash_none t I). congruence.
    - (* foreach_const *)
      rewrite (foreach_const_spec hf key t stop (proj1 I)) in E. cbn [lift fst snd] in E.
      injection E as <- _ _. rewrite upd_same by auto. now destruct s.
    - (* clear *)
      rewrite (clear_spec hf key t (al s) cb I) in E. cbn [lift fst snd] in E.
      injection E as <- _ _. apply alloc_inv_free; auto.
    - injection E as <- _ _. auto.
    - destruct (negb (is_some (hash t))); [discriminate|]. injection E as <- _ _. auto.
  Qed.

  (** a refused request changes neither the live blocks nor the pointer *)
  Lemma realloc_refused a p sz :
    sz <> 0 -> grant ok a sz = false ->
    snd (realloc ok a p sz) = None /\ AllocModel.live (fst (realloc ok a p sz)) = AllocModel.live a /\
    events (fst (realloc ok a p sz)) = EvReallocFail p sz :: events a.
  Proof.
    intros Hz Hg. unfold realloc. destruct p as [b|].
    - destruct (N.eqb_spec sz 0); [contradiction|]. rewrite Hg. simpl. auto.
    - rewrite Hg. simpl. auto.
  Qed.

  (** C16 for the hash table, resize: when the bucket array has to grow and
      the allocator refuses, the call returns normally, no table changes at
      all, no block is allocated or freed, and the invariants (table
      invariant, allocator/table agreement, no bad free) hold *)
  Theorem resize_alloc_failure s i t n f :
    sys_inv s -> alloc_inv s -> nth_error (tabs s) i = Some t ->
    0 < n -> n <= MAX_BUCKETS -> cap t < n -> grant ok (al s) (BUCKET_BYTES * n) = false ->
    exists s' w,
      exec s (Resize i n f) = XDone s' [0%Z] w /\
      tabs s' = tabs s /\ AllocModel.live (al s') = AllocModel.live (al s) /\
      events (al s') = EvReallocFail (at_blk t) (BUCKET_BYTES * n) :: events (al s) /\
      sys_inv s' /\ alloc_inv s'.
  Proof.
    intros SI AI Et Hn Hm Hlt Hg.
    pose proof (Forall_nth _ _ _ _ (proj1 SI) Et) as I.
    assert (Hz : BUCKET_BYTES * n <> 0) by (unfold BUCKET_BYTES; lia).
    destruct (realloc_refused (al s) (at_blk t) _ Hz Hg) as (Rn & Rl & Re).
    assert (Er : resize hf key fixed ok t (al s) n f =
                 Ok (t, fst (realloc ok (al s) (at_blk t) (BUCKET_BYTES * n))) []).
    { unfold resize. destruct (N.ltb_spec 0 n); [|lia]. destruct (N.ltb_spec (cap t) n); [|lia].
      unfold set_capacity. destruct (realloc ok (al s) (at_blk t) (BUCKET_BYTES * n)) as [a' r'].
      simpl in Rn. subst r'. cbn [fst snd]. destruct (N.leb_spec n (cap t)); [lia|].
      now rewrite andb_false_r. }
    assert (Ech : changed t t = 0%Z).
    { unfold changed, geom_eqb. rewrite !N.eqb_refl, Bool.eqb_reflx.
      assert (Hf : forall x, fopt_eqb x x = true) by (intros [x|]; simpl; auto using Nat.eqb_refl).
      rewrite !Hf. destruct (rhash t); auto. }
    assert (E : exec s (Resize i n f) =
                XDone (mkSys (tabs s) (fst (realloc ok (al s) (at_blk t) (BUCKET_BYTES * n)))) [0%Z] []).
    { cbn [HashModel.exec]. unfold with_tab. rewrite Et. destruct (N.ltb_spec MAX_BUCKETS n); [lia|].
      rewrite Er. cbn [lift fst snd]. rewrite Ech, (upd_same _ _ _ Et). reflexivity. }
    eexists _, _. split; [exact E|]. simpl.
    split; [reflexivity|]. split; [exact Rl|]. split; [exact Re|]. split.
    - pose proof (exec_refines hf key ok Hdef s (Resize i n f) SI) as R. unfold outcome_ok in R.
      rewrite E in R. tauto.
    - apply (exec_alloc_inv s _ _ _ _ SI AI E).
  Qed.

  (** ... shrink_to_fit: when the allocator refuses to shrink the bucket
      array, the table keeps exactly its elements (a pending rehash has been
      completed, which is all that happened), its bucket array, capacity and
      the geometry it was heading for; all other tables are untouched; no
      block is allocated or freed *)
  Theorem shrink_alloc_failure s i t :
    in_range hf -> sys_inv s -> alloc_inv s -> nth_error (tabs s) i = Some t ->
    tgt_count t < cap t -> grant ok (al s) (BUCKET_BYTES * tgt_count t) = false ->
    exists s' t' r w,
      exec s (Shrink i) = XDone s' r w /\ tabs s' = upd (tabs s) i t' /\
      Permutation (HashModel.live t') (HashModel.live t) /\ size t' = size t /\
      cap t' = cap t /\ at_blk t' = at_blk t /\
      tgt_count t' = tgt_count t /\ tgt_hash t' = tgt_hash t /\
      AllocModel.live (al s') = AllocModel.live (al s) /\ sys_inv s' /\ alloc_inv s'.
  Proof.
    intros Rng SI AI Et Hlt Hg.
    pose proof (Forall_nth _ _ _ _ (proj1 SI) Et) as I.
    pose proof (Forall_nth _ _ _ _ (ai_none s AI) Et) as Hnone.
    assert (Hpos : 0 < tgt_count t).
    { destruct (N.ltb_spec 0 (tgt_count t)); auto. exfalso.
      assert (Hh0 : hash t = None).
      { pose proof (inv_shape _ _ t (proj1 I)) as S. unfold tgt_count in *.
        destruct (rhash t) eqn:Er.
        - destruct (sh_rh t S ltac:(congruence)). lia.
        - destruct (hash t) eqn:Eh; auto. pose proof (sh_pos t S ltac:(congruence)). lia. }
      rewrite (Hnone Hh0) in Hlt. lia. }
    assert (Hz : BUCKET_BYTES * tgt_count t <> 0) by (unfold BUCKET_BYTES; lia).
    destruct (realloc_refused (al s) (at_blk t) _ Hz Hg) as (Rn & Rl & Re).
    pose proof (shrink_spec hf key Hdef ok t (al s) I) as Q.
    pose proof (exec_refines hf key ok Hdef s (Shrink i) SI) as R. unfold outcome_ok in R.
    destruct (exec s (Shrink i)) as [s' r w| | |] eqn:E; pose proof E as E';
      cbn [HashModel.exec] in E; unfold with_tab in E; rewrite Et in E;
      destruct (shrink_to_fit hf key ok t (al s)) as [[t' a'] w'| |]; cbn [lift fst snd] in E; try discriminate;
      cbn [HashProofs.safe fst snd] in Q; try contradiction.
    destruct Q as (_ & Pl & Z & TC & TH & _ & Hdo & _).
    destruct (Hdo Hlt) as (_ & Ea' & Hb'). rewrite Rn in Hb'. destruct Hb' as (A' & C').
    injection E as <- <- <-. exists (mkSys (upd (tabs s) i t') a'), t', [changed t t'], w'.
    simpl. repeat (split; [solve [auto]|]).
    split; [rewrite Ea'; auto|]. split; [tauto|].
    apply (exec_alloc_inv s _ _ _ _ SI AI E').
  Qed.
End AllocInv.
