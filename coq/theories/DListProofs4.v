(** Proofs about DListModel.v, part 4: cstl_dlist_reverse (DESIGN.md A.6). *)
From Cstl Require Import Prelude DListModel DListProofs DListProofs2.

(** whole-cell loads and stores, seen through the fields *)
Lemma ld_fields h a p q : gnx h a = Some p -> gpv h a = Some q -> ld h a = Ok (mkN p q).
Proof.
  unfold gnx, gpv, ld. destruct (hm h a) as [[x y]|]; simpl; congruence.
Qed.

Lemma st_ex h a c : valid h a -> exists h', st h a c = Ok h' /\
  (forall x, gnx h' x = if Nat.eqb x a then Some (nx c) else gnx h x) /\
  (forall x, gpv h' x = if Nat.eqb x a then Some (pv c) else gpv h x) /\
  hs h' = hs h /\ (forall x, valid h' x <-> valid h x).
Proof.
  intros V. destruct (st_spec h a c V) as (h' & E & M & S). exists h'. split; auto.
  unfold gnx, gpv, valid in *. rewrite M. unfold setm. split; [|split; [|split; auto]].
  - intros x; destruct (Nat.eqb_spec x a) as [->|]; simpl; auto.
  - intros x; destruct (Nat.eqb_spec x a) as [->|]; simpl; auto.
  - intros x; destruct (Nat.eqb_spec x a) as [->|]; [|tauto]. split; [auto|congruence].
Qed.

Ltac do_st V h' N P S Va :=
  match type of V with valid ?h ?a =>
    match goal with |- context [st h a ?c] =>
      let E := fresh "E" in
      destruct (st_ex h a c V) as (h' & E & N & P & S & Va); rewrite E; clear E
    end
  end.

(** links that survive when exactly the sources / targets of two groups of
    links [E1], [E2] are rewritten *)
Lemma keep_parts5 h h' X E1 M E2 Y Wn Wp :
  Forall (linkp h) (X ++ E1 ++ M ++ E2 ++ Y) ->
  NoDup (map fst (X ++ E1 ++ M ++ E2 ++ Y)) -> NoDup (map snd (X ++ E1 ++ M ++ E2 ++ Y)) ->
  (forall x, ~ In x Wn -> gnx h' x = gnx h x) ->
  (forall x, ~ In x Wp -> gpv h' x = gpv h x) ->
  (forall x, In x Wn -> In x (map fst (E1 ++ E2))) ->
  (forall x, In x Wp -> In x (map snd (E1 ++ E2))) ->
  Forall (linkp h') X /\ Forall (linkp h') M /\ Forall (linkp h') Y.
Proof.
  intros F Nf Ns Hn Hp In_n In_p.
  assert (Forall (linkp h) X /\ Forall (linkp h) M /\ Forall (linkp h) Y) as (FX & FM & FY).
  { rewrite !Forall_app in F. tauto. }
  split; [|split].
  - apply (keep_part h h' [] X (E1 ++ M ++ E2 ++ Y) Wn Wp); auto.
    + intros x I. left. specialize (In_n x I). simpl. rewrite !map_app, !in_app_iff in *. tauto.
    + intros x I. left. specialize (In_p x I). simpl. rewrite !map_app, !in_app_iff in *. tauto.
  - apply (keep_part h h' (X ++ E1) M (E2 ++ Y) Wn Wp); auto; rewrite <- ?app_assoc; auto.
    + intros x I. left. specialize (In_n x I). rewrite !map_app, !in_app_iff in *. tauto.
    + intros x I. left. specialize (In_p x I). rewrite !map_app, !in_app_iff in *. tauto.
  - apply (keep_part h h' (X ++ E1 ++ M ++ E2) Y [] Wn Wp); auto; rewrite ?app_nil_r, <- ?app_assoc; auto.
    + intros x I. left. specialize (In_n x I). rewrite !map_app, !in_app_iff in *. tauto.
    + intros x I. left. specialize (In_p x I). rewrite !map_app, !in_app_iff in *. tauto.
Qed.

(** the links of a ring around two nodes [x], [y] with a non-empty stretch
    [mf :: m'] between them ... *)
Lemma cpairs_2 hd A x mf m' y B :
  cpairs hd (A ++ x :: (mf :: m') ++ y :: B) =
  pairs hd A ++ [(last A hd, x); (x, mf)] ++ pairs mf m' ++
  [(last m' mf, y); (y, hd_or B hd)] ++ pairs (hd_or B hd) (tl (B ++ [hd])).
Proof.
  rewrite cpairs_mid. f_equal. simpl hd_or. simpl app at 2. f_equal. f_equal.
  simpl tl. rewrite <- app_assoc. rewrite pairs_app. f_equal.
  change ((y :: B) ++ [hd]) with (y :: (B ++ [hd])). rewrite pairs_cons, pairs_hd. reflexivity.
Qed.
(** ... and around two adjacent nodes *)
Lemma cpairs_adj hd A x y B :
  cpairs hd (A ++ x :: y :: B) =
  pairs hd A ++ [(last A hd, x); (x, y); (y, hd_or B hd)] ++ pairs (hd_or B hd) (tl (B ++ [hd])).
Proof.
  rewrite cpairs_mid. f_equal. simpl hd_or. simpl tl.
  change ((y :: B) ++ [hd]) with (y :: (B ++ [hd])). rewrite pairs_hd. reflexivity.
Qed.

Lemma NoDup_in_split {A} (l1 l2 : list A) a : NoDup (l1 ++ a :: l2) -> ~ In a l1 /\ ~ In a l2.
Proof. intros H. apply NoDup_remove_2 in H. rewrite in_app_iff in H. tauto. Qed.

Lemma nd5 (hd : addr) A x m y B :
  NoDup (hd :: A ++ x :: m ++ y :: B) ->
  x <> y /\ ~ In x (hd :: A) /\ ~ In y (hd :: A) /\ ~ In x m /\ ~ In y m /\ ~ In x B /\ ~ In y B /\
  (forall a, In a (hd :: A) -> In a m -> False) /\
  (forall a, In a m -> In a (B ++ [hd]) -> False) /\
  (forall a, In a (hd :: A) -> In a B -> False) /\ ~ In hd A.
Proof.
  intros ND.
  pose proof (NoDup_in_split (hd :: A) (m ++ y :: B) x ND) as (X1 & X2).
  assert (NoDup ((hd :: A ++ x :: m) ++ y :: B)) as ND'.
  { simpl. rewrite <- app_assoc. simpl. exact ND. }
  pose proof (NoDup_in_split _ _ _ ND') as (Y1 & Y2).
  rewrite in_app_iff in X2. simpl in X2.
  assert (~ In y (hd :: A) /\ ~ In y m) as (Y3 & Y4).
  { split; intros I; apply Y1; destruct I as [<-|I] || idtac.
    - left; auto.
    - right. rewrite in_app_iff. auto.
    - right. rewrite in_app_iff. right. right. auto. }
  split; [intros ->; apply X2; right; left; auto|].
  split; auto. split; auto. split; [tauto|]. split; auto. split; [tauto|]. split; auto.
  split; [|split; [|split]].
  - intros a I1 I2. apply (NoDup_app_disj (hd :: A) (x :: m ++ y :: B) a ND); auto.
    right. rewrite in_app_iff. auto.
  - intros a I1 I2. rewrite in_app_iff in I2. destruct I2 as [I2|[<-|[]]].
    + apply (NoDup_app_disj _ _ a ND'); [|right; auto]. right. rewrite in_app_iff. right. right. auto.
    + inversion ND; subst. apply H1. rewrite in_app_iff. right. right. rewrite in_app_iff. auto.
  - intros a I1 I2. apply (NoDup_app_disj (hd :: A) (x :: m ++ y :: B) a ND); auto.
    right. rewrite in_app_iff. right. right. auto.
  - inversion ND; subst. intros I. apply H1. rewrite in_app_iff. auto.
Qed.

(** the part of cstl_dlist_reverse after its loop *)
Definition rev_fin (h : heap) (i j : addr) : res heap :=
  i_n <- rnx h i ;;
  if Nat.eqb i_n j then
    ip <- rpv h i ;; h <- wnx h ip j ;;
    jn <- rnx h j ;; h <- wpv h jn i ;;
    jn <- rnx h j ;; h <- wnx h i jn ;;
    h <- wnx h j i ;;
    ip <- rpv h i ;; h <- wpv h j ip ;;
    wpv h i j
  else Ok h.

Lemma reverse_unfold h l :
  reverse h l =
  (i <- rnx h l ;; j <- rpv h l ;;
   '(h, i, j) <- rev_loop (S (N.to_nat (rsz h l))) h i j ;; rev_fin h i j).
Proof. reflexivity. Qed.

Definition same_out (F : list addr) (h h' : heap) : Prop :=
  (forall v, ~ In v F -> hm h' v = hm h v) /\ hs h' = hs h /\ (forall v, valid h' v <-> valid h v).

Lemma same_out_trans F h h1 h2 : same_out F h h1 -> same_out F h1 h2 -> same_out F h h2.
Proof.
  intros (A & B & C) (A' & B' & C'). split; [|split].
  - intros v Hv. rewrite A', A; auto.
  - congruence.
  - intros v. rewrite C', C. tauto.
Qed.

Lemma In_last_cons (l : list addr) d : In (last l d) (d :: l).
Proof. apply last_In_cons. Qed.
Lemma In_hd_or_snoc (l : list addr) d : In (hd_or l d) (l ++ [d]).
Proof. destruct l; simpl; auto. Qed.

(** epilogue on an adjacent pair: the two nodes change places *)
Lemma rev_fin_adj h hd A x y B :
  ring h hd (A ++ x :: y :: B) ->
  exists h', rev_fin h x y = Ok h' /\ ring h' hd (A ++ y :: x :: B) /\
             same_out (hd :: A ++ x :: y :: B) h h'.
Proof.
  intros R.
  pose proof (nd5 hd A x [] y B (proj1 R)) as (Nxy & Nx1 & Ny1 & _ & _ & Nx2 & Ny2 & _ & _ & DAB & NhA).
  destruct (ring_mid h hd A x (y :: B) R) as (Nxx & Pvx). simpl hd_or in Nxx.
  replace (A ++ x :: y :: B) with ((A ++ [x]) ++ y :: B) in R by (rewrite <- app_assoc; auto).
  destruct (ring_mid h hd (A ++ [x]) y B R) as (Nxy' & Pvy). rewrite last_app1 in Pvy.
  rewrite <- app_assoc in R. simpl app in R.
  set (ip := last A hd) in *. set (jn := hd_or B hd) in *.
  assert (In ip (hd :: A)) as Iip by apply In_last_cons.
  assert (In jn (B ++ [hd])) as Ijn by apply In_hd_or_snoc.
  assert (ip <> x) as E1 by (intros E; apply Nx1; rewrite <- E; auto).
  assert (ip <> y) as E2 by (intros E; apply Ny1; rewrite <- E; auto).
  assert (jn <> x) as E3.
  { intros E. rewrite E in Ijn. rewrite in_app_iff in Ijn. destruct Ijn as [I|[I|[]]]; [auto|].
    apply Nx1. left; auto. }
  assert (jn <> y) as E4.
  { intros E. rewrite E in Ijn. rewrite in_app_iff in Ijn. destruct Ijn as [I|[I|[]]]; [auto|].
    apply Ny1. left; auto. }
  assert (forall v, In v (hd :: A ++ x :: y :: B) -> valid h v) as Va by (intros v; apply (ring_valid _ _ _ _ R)).
  assert (valid h ip) as Vip.
  { apply Va. destruct Iip as [<-|I]; [left; auto|right; rewrite in_app_iff; auto]. }
  assert (valid h jn) as Vjn.
  { apply Va. rewrite in_app_iff in Ijn. destruct Ijn as [I|[<-|[]]]; [|left; auto].
    right. rewrite in_app_iff. right. right. right. auto. }
  assert (valid h x) as Vx by (apply Va; right; rewrite in_app_iff; right; left; auto).
  assert (valid h y) as Vy by (apply Va; right; rewrite in_app_iff; right; right; left; auto).
  unfold rev_fin. rewrite (rnx_gnx _ _ _ Nxx), Nat.eqb_refl.
  rewrite (rpv_gpv _ _ _ Pvx).
  do_wnx Vip h1 N1 P1 S1 V1.
  assert (gnx h1 y = Some jn) as T by (rewrite N1, if_neq; auto). rewrite (rnx_gnx _ _ _ T). clear T.
  assert (valid h1 jn) as Vjn1 by (apply V1; auto).
  do_wpv Vjn1 h2 N2 P2 S2 V2.
  assert (gnx h2 y = Some jn) as T by (rewrite N2, N1, if_neq; auto). rewrite (rnx_gnx _ _ _ T). clear T.
  assert (valid h2 x) as Vx2 by (apply V2, V1; auto).
  do_wnx Vx2 h3 N3 P3 S3 V3.
  assert (valid h3 y) as Vy3 by (apply V3, V2, V1; auto).
  do_wnx Vy3 h4 N4 P4 S4 V4.
  assert (gpv h4 x = Some ip) as T by (rewrite P4, P3, P2, if_neq, P1; auto). rewrite (rpv_gpv _ _ _ T). clear T.
  assert (valid h4 y) as Vy4 by (apply V4; auto).
  do_wpv Vy4 h5 N5 P5 S5 V5.
  assert (valid h5 x) as Vx5 by (apply V5, V4, V3; auto).
  destruct (wpv_ex h5 x y Vx5) as (h6 & E & N6 & P6 & S6 & V6). rewrite E. clear E.
  assert (forall v, gnx h6 v = if Nat.eqb v y then Some x else if Nat.eqb v x then Some jn
                               else if Nat.eqb v ip then Some y else gnx h v) as N'.
  { intros v. rewrite N6, N5, N4, N3, N2, N1. auto. }
  assert (forall v, gpv h6 v = if Nat.eqb v x then Some y else if Nat.eqb v y then Some ip
                               else if Nat.eqb v jn then Some x else gpv h v) as P'.
  { intros v. rewrite P6, P5, P4, P3, P2, P1. auto. }
  exists h6. split; auto. split.
  - apply ring_pairs in R. destruct R as (ND & F). apply ring_pairs. split.
    { eapply Permutation_NoDup; [|exact ND]. apply perm_skip. apply Permutation_app_head. apply perm_swap. }
    pose proof (cpairs_fst hd (A ++ x :: y :: B)) as Mf. pose proof (cpairs_snd hd (A ++ x :: y :: B)) as Ms.
    rewrite cpairs_adj in F, Mf, Ms. fold ip jn in F, Mf, Ms. rewrite cpairs_adj. fold ip jn.
    assert (NoDup ((A ++ x :: y :: B) ++ [hd])) as ND2 by (apply NoDup_snoc; auto).
    rewrite <- Mf in ND. rewrite <- Ms in ND2.
    apply Forall_app; split; [|apply Forall_app; split].
    + eapply (keep_X h h6 _ _ _ [y; x; ip] [x; y; jn]); eauto.
      * wframe N'.
      * wframe P'.
      * intros v [<-|[<-|[<-|[]]]]; left; simpl; auto.
      * intros v [<-|[<-|[<-|[]]]]; left; simpl; auto.
    + constructor; [|constructor; [|constructor; [|constructor]]]; split; simpl.
      * rewrite N', (if_neq ip y), (if_neq ip x), Nat.eqb_refl; auto.
      * rewrite P', (if_neq y x), Nat.eqb_refl; auto.
      * rewrite N', Nat.eqb_refl; auto.
      * rewrite P', Nat.eqb_refl; auto.
      * rewrite N', (if_neq x y), Nat.eqb_refl; auto.
      * rewrite P', (if_neq jn x), (if_neq jn y), Nat.eqb_refl; auto.
    + eapply (keep_Y h h6 _ _ _ [y; x; ip] [x; y; jn]); eauto.
      * wframe N'.
      * wframe P'.
      * intros v [<-|[<-|[<-|[]]]]; left; rewrite map_app, in_app_iff; simpl; auto.
      * intros v [<-|[<-|[<-|[]]]]; left; rewrite map_app, in_app_iff; simpl; auto.
  - split; [|split].
    + intros v Hv.
      assert (forall w, In w (hd :: A ++ x :: y :: B) -> v <> w) as Ne by (intros w Hw ->; auto).
      assert (v <> x) by (apply Ne; right; rewrite in_app_iff; right; left; auto).
      assert (v <> y) by (apply Ne; right; rewrite in_app_iff; right; right; left; auto).
      assert (v <> ip).
      { apply Ne. destruct Iip as [<-|I]; [left; auto|right; rewrite in_app_iff; auto]. }
      assert (v <> jn).
      { apply Ne. rewrite in_app_iff in Ijn. destruct Ijn as [I|[<-|[]]]; [|left; auto].
        right. rewrite in_app_iff. right. right. right. auto. }
      apply fields_eq_hm; [rewrite N'|rewrite P']; rewrite !if_neq; auto.
    + congruence.
    + intros v. rewrite V6, V5, V4, V3, V2, V1. tauto.
Qed.

Lemma last_app_ne {A} (l1 l2 : list A) d : l2 <> [] -> last (l1 ++ l2) d = last l2 d.
Proof.
  intros H. induction l1 as [|a l1 IH]; auto.
  change ((a :: l1) ++ l2) with (a :: (l1 ++ l2)).
  destruct (l1 ++ l2) eqn:E; [apply app_eq_nil in E; tauto|]. rewrite <- E.
  rewrite <- IH. simpl. rewrite E. reflexivity.
Qed.

(** one iteration of the loop: the outermost nodes [x], [y] of the middle
    stretch change places; [i], [j] move one step inward *)
Lemma rev_body h hd A x mf m' y B f :
  ring h hd (A ++ x :: (mf :: m') ++ y :: B) ->
  exists h', rev_loop (S f) h x y = rev_loop f h' mf (last m' mf) /\
             ring h' hd (A ++ y :: (mf :: m') ++ x :: B) /\
             same_out (hd :: A ++ x :: (mf :: m') ++ y :: B) h h'.
Proof.
  intros R. set (m := mf :: m') in *. set (ml := last m' mf).
  pose proof (nd5 hd A x m y B (proj1 R)) as (Nxy & Nx1 & Ny1 & Nxm & Nym & Nx2 & Ny2 & DAm & DmB & DAB & NhA).
  destruct (ring_mid h hd A x (m ++ y :: B) R) as (Nxx & Pvx). simpl hd_or in Nxx.
  assert (ring h hd ((A ++ x :: m) ++ y :: B)) as R2 by (rewrite <- app_assoc; exact R).
  destruct (ring_mid h hd (A ++ x :: m) y B R2) as (Nxy' & Pvy). clear R2.
  replace (last (A ++ x :: m) hd) with ml in Pvy.
  2:{ unfold m. rewrite last_app_ne by discriminate. rewrite !last_cons. reflexivity. }
  set (ip := last A hd) in *. set (jn := hd_or B hd) in *.
  assert (In ip (hd :: A)) as Iip by apply In_last_cons.
  assert (In jn (B ++ [hd])) as Ijn by apply In_hd_or_snoc.
  assert (In mf m) as Imf by (left; auto).
  assert (In ml m) as Iml by (apply In_last_cons).
  assert (ip <> x) as E1 by (intros E; apply Nx1; rewrite <- E; auto).
  assert (ip <> y) as E2 by (intros E; apply Ny1; rewrite <- E; auto).
  assert (forall v, In v (B ++ [hd]) -> v <> x /\ v <> y) as EB.
  { intros v I. rewrite in_app_iff in I. destruct I as [I|[<-|[]]].
    - split; intros ->; auto.
    - split; intros E; [apply Nx1|apply Ny1]; left; auto. }
  destruct (EB jn Ijn) as (E3 & E4).
  assert (mf <> x /\ mf <> y /\ ml <> x /\ ml <> y) as (E5 & E6 & E7 & E8).
  { repeat split; intros E; [apply Nxm|apply Nym|apply Nxm|apply Nym]; rewrite <- E; auto. }
  assert (ip <> ml) as E9 by (intros E; apply (DAm ip); auto; rewrite E; auto).
  assert (mf <> jn) as E10 by (intros E; apply (DmB mf); auto; rewrite E; auto).
  assert (forall v, In v (hd :: A ++ x :: m ++ y :: B) -> valid h v) as Va by (intros v; apply (ring_valid _ _ _ _ R)).
  assert (forall v, In v (hd :: A) -> In v (hd :: A ++ x :: m ++ y :: B)) as SubA.
  { intros v [<-|I]; [left; auto|right; rewrite in_app_iff; auto]. }
  assert (forall v, In v m -> In v (hd :: A ++ x :: m ++ y :: B)) as Subm.
  { intros v I. right. rewrite in_app_iff. right. right. rewrite in_app_iff. auto. }
  assert (forall v, In v (B ++ [hd]) -> In v (hd :: A ++ x :: m ++ y :: B)) as SubB.
  { intros v I. rewrite in_app_iff in I. destruct I as [I|[<-|[]]]; [|left; auto].
    right. rewrite in_app_iff. right. right. rewrite in_app_iff. right. right. auto. }
  assert (valid h ip) as Vip by (apply Va, SubA; auto).
  assert (valid h jn) as Vjn by (apply Va, SubB; auto).
  assert (valid h mf) as Vmf by (apply Va, Subm; auto).
  assert (valid h ml) as Vml by (apply Va, Subm; auto).
  assert (valid h x) as Vx by (apply Va; right; rewrite in_app_iff; right; left; auto).
  assert (valid h y) as Vy.
  { apply Va. right. rewrite in_app_iff. right. right. rewrite in_app_iff. right. left. auto. }
  simpl rev_loop. rewrite (proj2 (Nat.eqb_neq x y)); auto.
  rewrite (rnx_gnx _ _ _ Nxx). rewrite (proj2 (Nat.eqb_neq mf y)); auto.
  rewrite (rpv_gpv _ _ _ Pvx).
  do_wnx Vip h1 N1 P1 S1 V1.
  assert (gnx h1 x = Some mf) as T by (rewrite N1, if_neq; auto). rewrite (rnx_gnx _ _ _ T). clear T.
  assert (valid h1 mf) as Vmf1 by (apply V1; auto).
  do_wpv Vmf1 h2 N2 P2 S2 V2.
  assert (gnx h2 y = Some jn) as T by (rewrite N2, N1, if_neq; auto). rewrite (rnx_gnx _ _ _ T). clear T.
  assert (valid h2 jn) as Vjn2 by (apply V2, V1; auto).
  do_wpv Vjn2 h3 N3 P3 S3 V3.
  assert (gpv h3 y = Some ml) as T by (rewrite P3, if_neq, P2, if_neq, P1; auto). rewrite (rpv_gpv _ _ _ T). clear T.
  assert (valid h3 ml) as Vml3 by (apply V3, V2, V1; auto).
  do_wnx Vml3 h4 N4 P4 S4 V4.
  assert (gnx h4 x = Some mf) as Gx1 by (rewrite N4, if_neq, N3, N2, N1, if_neq; auto).
  assert (gpv h4 x = Some ip) as Gx2 by (rewrite P4, P3, if_neq, P2, if_neq, P1; auto).
  assert (gnx h4 y = Some jn) as Gy1 by (rewrite N4, if_neq, N3, N2, N1, if_neq; auto).
  assert (gpv h4 y = Some ml) as Gy2 by (rewrite P4, P3, if_neq, P2, if_neq, P1; auto).
  rewrite (ld_fields _ _ _ _ Gx1 Gx2), (ld_fields _ _ _ _ Gy1 Gy2).
  assert (valid h4 x) as Vx4 by (apply V4, V3, V2, V1; auto).
  do_st Vx4 h5 N5 P5 S5 V5.
  assert (valid h5 y) as Vy5 by (apply V5, V4, V3, V2, V1; auto).
  do_st Vy5 h6 N6 P6 S6 V6.
  simpl nx in *. simpl pv in *.
  assert (forall v, gnx h6 v = if Nat.eqb v y then Some mf else if Nat.eqb v x then Some jn
                               else if Nat.eqb v ml then Some x else if Nat.eqb v ip then Some y
                               else gnx h v) as N'.
  { intros v. rewrite N6, N5, N4, N3, N2, N1. auto. }
  assert (forall v, gpv h6 v = if Nat.eqb v y then Some ip else if Nat.eqb v x then Some ml
                               else if Nat.eqb v jn then Some x else if Nat.eqb v mf then Some y
                               else gpv h v) as P'.
  { intros v. rewrite P6, P5, P4, P3, P2, P1. auto. }
  assert (gpv h6 x = Some ml) as T by (rewrite P', (if_neq x y), Nat.eqb_refl; auto).
  rewrite (rpv_gpv _ _ _ T). clear T.
  assert (gnx h6 y = Some mf) as T by (rewrite N', Nat.eqb_refl; auto).
  rewrite (rnx_gnx _ _ _ T). clear T.
  exists h6. split; [reflexivity|]. split.
  - apply ring_pairs in R. destruct R as (ND & F). apply ring_pairs. split.
    { eapply Permutation_NoDup; [|exact ND]. apply perm_skip. apply Permutation_app_head.
      transitivity (x :: y :: m ++ B).
      - apply perm_skip. symmetry. apply Permutation_middle.
      - transitivity (y :: x :: m ++ B); [apply perm_swap|]. apply perm_skip. apply Permutation_middle. }
    pose proof (cpairs_fst hd (A ++ x :: m ++ y :: B)) as Mf. pose proof (cpairs_snd hd (A ++ x :: m ++ y :: B)) as Ms.
    unfold m in F, Mf, Ms. rewrite cpairs_2 in F, Mf, Ms. fold ip jn ml in F, Mf, Ms.
    unfold m. rewrite cpairs_2. fold ip jn ml.
    assert (NoDup ((A ++ x :: m ++ y :: B) ++ [hd])) as ND2 by (apply NoDup_snoc; auto).
    unfold m in ND, ND2. rewrite <- Mf in ND. rewrite <- Ms in ND2.
    destruct (keep_parts5 h h6 _ _ _ _ _ [y; x; ml; ip] [y; x; jn; mf] F ND ND2) as (FX & FM & FY).
    { wframe N'. }
    { wframe P'. }
    { intros v [<-|[<-|[<-|[<-|[]]]]]; simpl; auto. }
    { intros v [<-|[<-|[<-|[<-|[]]]]]; simpl; auto. }
    apply Forall_app; split; [exact FX|].
    apply Forall_app; split.
    { constructor; [|constructor; [|constructor]]; split; simpl.
      - rewrite N', (if_neq ip y), (if_neq ip x), (if_neq ip ml), Nat.eqb_refl; auto.
      - rewrite P', Nat.eqb_refl; auto.
      - rewrite N', Nat.eqb_refl; auto.
      - rewrite P', (if_neq mf y), (if_neq mf x), (if_neq mf jn), Nat.eqb_refl; auto. }
    apply Forall_app; split; [exact FM|].
    apply Forall_app; split; [|exact FY].
    constructor; [|constructor; [|constructor]]; split; simpl.
    + rewrite N', (if_neq ml y), (if_neq ml x), Nat.eqb_refl; auto.
    + rewrite P', (if_neq x y), Nat.eqb_refl; auto.
    + rewrite N', (if_neq x y), Nat.eqb_refl; auto.
    + rewrite P', (if_neq jn y), (if_neq jn x), Nat.eqb_refl; auto.
  - split; [|split].
    + intros v Hv.
      assert (forall w, In w (hd :: A ++ x :: m ++ y :: B) -> v <> w) as Ne by (intros w Hw ->; auto).
      assert (v <> x) by (apply Ne; right; rewrite in_app_iff; right; left; auto).
      assert (v <> y).
      { apply Ne. right. rewrite in_app_iff. right. right. rewrite in_app_iff. right. left. auto. }
      assert (v <> ip) by (apply Ne, SubA; auto).
      assert (v <> jn) by (apply Ne, SubB; auto).
      assert (v <> mf) by (apply Ne, Subm; auto).
      assert (v <> ml) by (apply Ne, Subm; auto).
      apply fields_eq_hm; [rewrite N'|rewrite P']; rewrite !if_neq; auto.
    + congruence.
    + intros v. rewrite V6, V5, V4, V3, V2, V1. tauto.
Qed.

Lemma same_out_refl F h : same_out F h h.
Proof. split; [|split]; auto; tauto. Qed.
Lemma same_out_incl F F' h h' : incl F F' -> same_out F h h' -> same_out F' h h'.
Proof. intros I (A & B & C). split; [|split]; auto. Qed.

Lemma rev_loop_stop_eq fuel h x : rev_loop fuel h x x = Ok (h, x, x).
Proof. destruct fuel; simpl; rewrite Nat.eqb_refl; reflexivity. Qed.
Lemma rev_loop_stop_adj fuel h x y : x <> y -> gnx h x = Some y -> rev_loop fuel h x y = Ok (h, x, y).
Proof.
  intros N G. destruct fuel; simpl; rewrite (proj2 (Nat.eqb_neq x y)), (rnx_gnx _ _ _ G), Nat.eqb_refl; auto.
Qed.

(** loop + epilogue reverse the middle stretch (A.6) *)
Lemma rev_mid_spec hd : forall n mid, length mid <= n -> mid <> [] -> forall h A B fuel,
  ring h hd (A ++ mid ++ B) -> length mid <= fuel ->
  exists h1 i' j' h',
    rev_loop fuel h (hd_or mid hd) (last mid hd) = Ok (h1, i', j') /\ rev_fin h1 i' j' = Ok h' /\
    ring h' hd (A ++ rev mid ++ B) /\ same_out (hd :: A ++ mid ++ B) h h'.
Proof.
  induction n as [|n IH]; intros mid Ln Ne h A B fuel R Lf.
  { destruct mid; [congruence|simpl in Ln; lia]. }
  destruct mid as [|x rest]; [congruence|]. clear Ne.
  destruct rest as [|r0 rest'].
  - (* a single node in the middle: nothing to do *)
    simpl hd_or. simpl last. rewrite rev_loop_stop_eq.
    exists h, x, x, h. split; auto. split; [|split; [exact R|apply same_out_refl]].
    unfold rev_fin. simpl app in R. destruct (ring_mid h hd A x B R) as (Nx & _).
    rewrite (rnx_gnx _ _ _ Nx).
    rewrite (proj2 (Nat.eqb_neq (hd_or B hd) x)); auto.
    intros E. pose proof (In_hd_or_snoc B hd) as I. rewrite E in I.
    destruct R as (ND & _). rewrite in_app_iff in I.
    destruct I as [I|[I|[]]].
    + inversion ND; subst. apply NoDup_in_split in H2. tauto.
    + subst x. inversion ND; subst. apply H1. rewrite in_app_iff. simpl. auto.
  - destruct (exists_last (l := r0 :: rest') ltac:(discriminate)) as (m & y & Em). rewrite Em in *. clear Em r0 rest'.
    simpl hd_or. rewrite last_cons, last_app1.
    destruct m as [|mf m'].
    + (* two adjacent nodes: the epilogue exchanges them *)
      simpl app in *. destruct (ring_mid h hd A x (y :: B) R) as (Nx & _). simpl hd_or in Nx.
      pose proof (nd5 hd A x [] y B (proj1 R)) as (Nxy & _).
      rewrite (rev_loop_stop_adj fuel h x y Nxy Nx).
      destruct (rev_fin_adj h hd A x y B R) as (h' & E & R' & S).
      exists h, x, y, h'. auto.
    + (* at least three: one iteration, then the inner stretch *)
      destruct fuel as [|f]; [simpl in Lf; lia|].
      assert (ring h hd (A ++ x :: (mf :: m') ++ y :: B)) as R0.
      { replace (A ++ x :: (mf :: m') ++ y :: B) with (A ++ (x :: (mf :: m') ++ [y]) ++ B); auto.
        simpl. rewrite <- app_assoc. reflexivity. }
      destruct (rev_body h hd A x mf m' y B f R0) as (h2 & E2 & R2 & S2).
      rewrite E2.
      assert (ring h2 hd ((A ++ [y]) ++ (mf :: m') ++ (x :: B))) as R2'.
      { rewrite <- app_assoc. exact R2. }
      destruct (IH (mf :: m') ltac:(simpl in *; rewrite app_length in Ln; simpl in Ln; lia) ltac:(discriminate)
                   h2 (A ++ [y]) (x :: B) f R2')
        as (h1 & i' & j' & h' & E1 & Ef & R' & S').
      { simpl in *. rewrite app_length in Lf. simpl in Lf. lia. }
      simpl hd_or in E1. rewrite last_cons in E1.
      exists h1, i', j', h'. split; auto. split; auto. split.
      * replace (A ++ rev (x :: (mf :: m') ++ [y]) ++ B) with ((A ++ [y]) ++ rev (mf :: m') ++ x :: B); auto.
        simpl rev at 2. rewrite rev_app_distr. simpl rev at 2. simpl app.
        rewrite <- !app_assoc. simpl. reflexivity.
      * eapply same_out_trans; eapply same_out_incl; try eassumption.
        -- intros v. simpl. rewrite !in_app_iff. simpl. rewrite !in_app_iff. simpl. tauto.
        -- intros v. simpl. rewrite !in_app_iff. simpl. rewrite !in_app_iff. simpl. tauto.
Qed.

(** ** cstl_dlist_reverse: the ring afterwards spells the mirror image *)
Theorem reverse_dl h hd l :
  dl h hd l ->
  exists h', reverse h hd = Ok h' /\ dl h' hd (rev l) /\ upd1 h h' hd (hd :: l).
Proof.
  intros (R & Z). rewrite reverse_unfold.
  rewrite (rnx_gnx _ _ _ (ring_head_nx _ _ _ R)), (rpv_gpv _ _ _ (ring_head_pv _ _ _ R)).
  destruct l as [|x r].
  - (* empty list: i = j = &h, the epilogue rewrites the head with the same values *)
    simpl hd_or. simpl last. rewrite rev_loop_stop_eq.
    pose proof (ring_head_nx _ _ _ R) as Nx. pose proof (ring_head_pv _ _ _ R) as Pv. simpl in Nx, Pv.
    assert (valid h hd) as V by (apply (ring_valid _ _ _ _ R); left; auto).
    unfold rev_fin. rewrite (rnx_gnx _ _ _ Nx), Nat.eqb_refl, (rpv_gpv _ _ _ Pv).
    do_wnx V h1 N1 P1 S1 V1.
    assert (gnx h1 hd = Some hd) as T by (rewrite N1, Nat.eqb_refl; auto). rewrite (rnx_gnx _ _ _ T).
    assert (valid h1 hd) as Vh1 by (apply V1; auto).
    do_wpv Vh1 h2 N2 P2 S2 V2.
    assert (gnx h2 hd = Some hd) as T2 by (rewrite N2; auto). rewrite (rnx_gnx _ _ _ T2).
    assert (valid h2 hd) as Vh2 by (apply V2; auto).
    do_wnx Vh2 h3 N3 P3 S3 V3.
    assert (valid h3 hd) as Vh3 by (apply V3; auto).
    do_wnx Vh3 h4 N4 P4 S4 V4.
    assert (gpv h4 hd = Some hd) as T4 by (rewrite P4, P3, P2, Nat.eqb_refl; auto). rewrite (rpv_gpv _ _ _ T4).
    assert (valid h4 hd) as Vh4 by (apply V4; auto).
    do_wpv Vh4 h5 N5 P5 S5 V5.
    assert (valid h5 hd) as Vh5 by (apply V5; auto).
    destruct (wpv_ex h5 hd hd Vh5) as (h6 & E & N6 & P6 & S6 & V6). rewrite E.
    exists h6. split; auto. split; [split|].
    + apply ring_nil; [rewrite N6, N5, N4, Nat.eqb_refl|rewrite P6, Nat.eqb_refl]; auto.
    + unfold rsz in *. rewrite S6, S5, S4, S3, S2, S1. auto.
    + split.
      * intros v Hv. assert (v <> hd) as Nv by (intros ->; apply Hv; left; auto).
        apply fields_eq_hm.
        -- rewrite N6, N5, N4, if_neq, N3, if_neq, N2, N1, if_neq; auto.
        -- rewrite P6, if_neq, P5, if_neq, P4, P3, P2, if_neq, P1; auto.
      * intros v _. rewrite S6, S5, S4, S3, S2, S1. auto.
      * intros v. rewrite V6, V5, V4, V3, V2, V1. tauto.
  - assert (ring h hd ([] ++ (x :: r) ++ [])) as R0 by (rewrite app_nil_r; exact R).
    destruct (rev_mid_spec hd (length (x :: r)) (x :: r) (le_n _) ltac:(discriminate) h [] []
                (S (N.to_nat (rsz h hd))) R0) as (h1 & i' & j' & h' & E1 & Ef & R' & (Fr & Sz & Va)).
    { rewrite Z. lia. }
    simpl hd_or in *. rewrite E1, Ef.
    rewrite app_nil_r in *. simpl app in *.
    exists h'. split; auto. split; [split; auto|].
    + unfold rsz in *. rewrite Sz, Z, rev_length. auto.
    + split; auto. intros v _. rewrite Sz. auto.
Qed.
