(* CmpRep.v -- "comparison callbacks are modelled as key projections" loses no generality.

   The C containers take   int cmp(const void *a, const void *b, void *priv)
   of which only the SIGN of the result is specified.  The Coq models compare integer keys
   (key a ? key b).  This file proves that, on the finitely many elements that ever meet
   (the contents of a container plus the probes of a history), EVERY comparison function
   that abides by its contract has exactly the signs of the integer order on the keys
   [rank cmp l], where [rank cmp l a] = number of elements of [l] strictly below [a].
   Conversely every key order is a legal comparison function.                              *)

From Coq Require Import List ZArith Lia Bool.
Import ListNotations.

Local Open Scope Z_scope.

(* ------------------------------------------------------------------------------------ *)
(* 1. The contract, relative to the list of elements that ever meet                      *)
(* ------------------------------------------------------------------------------------ *)

Definition cmp_antisym {A : Type} (cmp : A -> A -> Z) (l : list A) : Prop :=
  forall a b, In a l -> In b l -> Z.sgn (cmp a b) = - Z.sgn (cmp b a).

Definition cmp_trans {A : Type} (cmp : A -> A -> Z) (l : list A) : Prop :=
  forall a b c, In a l -> In b l -> In c l ->
    cmp a b <= 0 -> cmp b c <= 0 -> cmp a c <= 0.

(* Totality is built into the type: every pair has a sign. *)
Definition cmp_contract {A : Type} (cmp : A -> A -> Z) (l : list A) : Prop :=
  cmp_antisym cmp l /\ cmp_trans cmp l.

(* ------------------------------------------------------------------------------------ *)
(* 2. The rank function                                                                  *)
(* ------------------------------------------------------------------------------------ *)

Definition rank {A : Type} (cmp : A -> A -> Z) (l : list A) (a : A) : Z :=
  Z.of_nat (length (filter (fun x => cmp x a <? 0) l)).

(* ------------------------------------------------------------------------------------ *)
(* Auxiliary facts                                                                       *)
(* ------------------------------------------------------------------------------------ *)

Lemma sgn_cases : forall z : Z,
  (z < 0 /\ Z.sgn z = -1) \/ (z = 0 /\ Z.sgn z = 0) \/ (z > 0 /\ Z.sgn z = 1).
Proof.
  intros z. destruct z as [|p|p]; cbn [Z.sgn].
  - right; left; split; reflexivity.
  - right; right; split; [ apply Zgt_pos_0 | reflexivity ].
  - left; split; [ apply Zlt_neg_0 | reflexivity ].
Qed.

(* filter-length monotonicity *)
Lemma filter_length_le : forall (A : Type) (f g : A -> bool) (l : list A),
  (forall x, In x l -> f x = true -> g x = true) ->
  (length (filter f l) <= length (filter g l))%nat.
Proof.
  intros A f g l. induction l as [|y l IH]; intros Hsub.
  - apply le_n.
  - assert (IH' : (length (filter f l) <= length (filter g l))%nat).
    { apply IH. intros x Hx. apply Hsub. right; exact Hx. }
    cbn [filter].
    destruct (f y) eqn:Hfy.
    + rewrite (Hsub y (or_introl eq_refl) Hfy). cbn [length]. lia.
    + destruct (g y); cbn [length]; lia.
Qed.

Lemma filter_length_lt : forall (A : Type) (f g : A -> bool) (l : list A) (w : A),
  (forall x, In x l -> f x = true -> g x = true) ->
  In w l -> f w = false -> g w = true ->
  (length (filter f l) < length (filter g l))%nat.
Proof.
  intros A f g l w. induction l as [|y l IH]; intros Hsub Hin Hfw Hgw.
  - destruct Hin.
  - assert (Hsub' : forall x, In x l -> f x = true -> g x = true).
    { intros x Hx. apply Hsub. right; exact Hx. }
    pose proof (filter_length_le A f g l Hsub') as Hle.
    cbn [filter].
    destruct Hin as [Heq | Hin].
    + subst y. rewrite Hfw, Hgw. cbn [length]. lia.
    + pose proof (IH Hsub' Hin Hfw Hgw) as Hlt.
      destruct (f y) eqn:Hfy.
      * rewrite (Hsub y (or_introl eq_refl) Hfy). cbn [length]. lia.
      * destruct (g y); cbn [length]; lia.
Qed.

Section Representation.
  Variable A : Type.
  Variable cmp : A -> A -> Z.
  Variable l : list A.
  Hypothesis Hc : cmp_contract cmp l.

  Lemma cmp_refl0 : forall a, In a l -> cmp a a = 0.
  Proof.
    intros a Ha. destruct Hc as [Hanti _].
    pose proof (Hanti a a Ha Ha) as H.
    destruct (sgn_cases (cmp a a)) as [[? ?]|[[? ?]|[? ?]]]; lia.
  Qed.

  (* a <= b  iff  not (b < a) *)
  Lemma cmp_le_flip : forall a b, In a l -> In b l -> (cmp a b <= 0 <-> cmp b a >= 0).
  Proof.
    intros a b Ha Hb. destruct Hc as [Hanti _].
    pose proof (Hanti a b Ha Hb) as H.
    destruct (sgn_cases (cmp a b)) as [[? ?]|[[? ?]|[? ?]]];
    destruct (sgn_cases (cmp b a)) as [[? ?]|[[? ?]|[? ?]]]; lia.
  Qed.

  Lemma cmp_lt_flip : forall a b, In a l -> In b l -> (cmp a b < 0 <-> cmp b a > 0).
  Proof.
    intros a b Ha Hb. destruct Hc as [Hanti _].
    pose proof (Hanti a b Ha Hb) as H.
    destruct (sgn_cases (cmp a b)) as [[? ?]|[[? ?]|[? ?]]];
    destruct (sgn_cases (cmp b a)) as [[? ?]|[[? ?]|[? ?]]]; lia.
  Qed.

  (* x < a, a <= b  ==>  x < b *)
  Lemma cmp_lt_le_trans : forall x a b, In x l -> In a l -> In b l ->
    cmp x a < 0 -> cmp a b <= 0 -> cmp x b < 0.
  Proof.
    intros x a b Hx Ha Hb Hxa Hab.
    destruct Hc as [_ Htr].
    destruct (Z_lt_ge_dec (cmp x b) 0) as [Hlt | Hge]; [ exact Hlt | exfalso ].
    (* b <= x, hence a <= x, contradicting x < a *)
    assert (Hbx : cmp b x <= 0) by (apply cmp_le_flip; assumption).
    pose proof (Htr a b x Ha Hb Hx Hab Hbx) as Hax.
    apply (cmp_lt_flip x a Hx Ha) in Hxa. lia.
  Qed.

  Lemma rank_le_of_le : forall a b, In a l -> In b l ->
    cmp a b <= 0 -> rank cmp l a <= rank cmp l b.
  Proof.
    intros a b Ha Hb Hab. unfold rank. apply inj_le.
    apply filter_length_le. intros x Hx Hxa.
    apply Z.ltb_lt in Hxa. apply Z.ltb_lt.
    exact (cmp_lt_le_trans x a b Hx Ha Hb Hxa Hab).
  Qed.

  Lemma rank_lt_of_lt : forall a b, In a l -> In b l ->
    cmp a b < 0 -> rank cmp l a < rank cmp l b.
  Proof.
    intros a b Ha Hb Hab. unfold rank. apply inj_lt.
    apply filter_length_lt with (w := a).
    - intros x Hx Hxa. apply Z.ltb_lt in Hxa. apply Z.ltb_lt.
      apply (cmp_lt_le_trans x a b Hx Ha Hb Hxa). lia.
    - exact Ha.
    - apply Z.ltb_ge. rewrite (cmp_refl0 a Ha). lia.
    - apply Z.ltb_lt. exact Hab.
  Qed.

  Lemma rank_eq_of_eq : forall a b, In a l -> In b l ->
    cmp a b = 0 -> rank cmp l a = rank cmp l b.
  Proof.
    intros a b Ha Hb Hab.
    assert (Hba : cmp b a <= 0).
    { apply cmp_le_flip; [exact Hb | exact Ha | lia]. }
    pose proof (rank_le_of_le a b Ha Hb ltac:(lia)) as H1.
    pose proof (rank_le_of_le b a Hb Ha Hba) as H2.
    lia.
  Qed.

  Lemma cmp_represented_by_keys_sec : forall a b, In a l -> In b l ->
    Z.sgn (cmp a b) = Z.sgn (rank cmp l a - rank cmp l b).
  Proof.
    intros a b Ha Hb.
    destruct (sgn_cases (cmp a b)) as [[Hlt Hs]|[[Heq Hs]|[Hgt Hs]]]; rewrite Hs.
    - pose proof (rank_lt_of_lt a b Ha Hb Hlt) as Hr.
      destruct (sgn_cases (rank cmp l a - rank cmp l b)) as [[? ?]|[[? ?]|[? ?]]]; lia.
    - pose proof (rank_eq_of_eq a b Ha Hb Heq) as Hr.
      destruct (sgn_cases (rank cmp l a - rank cmp l b)) as [[? ?]|[[? ?]|[? ?]]]; lia.
    - assert (Hba : cmp b a < 0) by (apply cmp_lt_flip; assumption).
      pose proof (rank_lt_of_lt b a Hb Ha Hba) as Hr.
      destruct (sgn_cases (rank cmp l a - rank cmp l b)) as [[? ?]|[[? ?]|[? ?]]]; lia.
  Qed.
End Representation.

(* ------------------------------------------------------------------------------------ *)
(* 3. The representation theorem                                                         *)
(* ------------------------------------------------------------------------------------ *)

Theorem cmp_represented_by_keys :
  forall A (cmp : A -> A -> Z) (l : list A),
    cmp_contract cmp l ->
    forall a b, In a l -> In b l ->
      Z.sgn (cmp a b) = Z.sgn (rank cmp l a - rank cmp l b).
Proof.
  intros A cmp l Hc a b Ha Hb.
  exact (cmp_represented_by_keys_sec A cmp l Hc a b Ha Hb).
Qed.

(* ------------------------------------------------------------------------------------ *)
(* 4. Corollary: order equivalences                                                      *)
(* ------------------------------------------------------------------------------------ *)

Corollary cmp_key_order_equiv :
  forall A (cmp : A -> A -> Z) (l : list A),
    cmp_contract cmp l ->
    let key := rank cmp l in
    forall a b, In a l -> In b l ->
      (cmp a b < 0 <-> key a < key b) /\
      (cmp a b = 0 -> key a = key b) /\
      (cmp a b > 0 <-> key a > key b) /\
      (cmp a b <= 0 <-> key a <= key b).
Proof.
  intros A cmp l Hc key a b Ha Hb. subst key.
  pose proof (cmp_represented_by_keys A cmp l Hc a b Ha Hb) as H.
  destruct (sgn_cases (cmp a b)) as [[? ?]|[[? ?]|[? ?]]];
  destruct (sgn_cases (rank cmp l a - rank cmp l b)) as [[? ?]|[[? ?]|[? ?]]];
  repeat split; intros; lia.
Qed.

(* The "= 0" direction is an equivalence as well (stated separately: the task statement
   asks for the implication; the converse also holds). *)
Corollary cmp_key_eq_equiv :
  forall A (cmp : A -> A -> Z) (l : list A),
    cmp_contract cmp l ->
    forall a b, In a l -> In b l ->
      (cmp a b = 0 <-> rank cmp l a = rank cmp l b).
Proof.
  intros A cmp l Hc a b Ha Hb.
  pose proof (cmp_represented_by_keys A cmp l Hc a b Ha Hb) as H.
  destruct (sgn_cases (cmp a b)) as [[? ?]|[[? ?]|[? ?]]];
  destruct (sgn_cases (rank cmp l a - rank cmp l b)) as [[? ?]|[[? ?]|[? ?]]];
  split; intros; lia.
Qed.

(* ------------------------------------------------------------------------------------ *)
(* 5. Converse: every key order is a legal comparison callback                           *)
(* ------------------------------------------------------------------------------------ *)

Lemma key_order_satisfies_contract :
  forall A (key : A -> Z) (l : list A),
    cmp_contract (fun a b => key a - key b) l /\
    cmp_contract (fun a b => Z.sgn (key a - key b)) l.
Proof.
  intros A key l. split; split.
  - intros a b _ _.
    destruct (sgn_cases (key a - key b)) as [[? ?]|[[? ?]|[? ?]]];
    destruct (sgn_cases (key b - key a)) as [[? ?]|[[? ?]|[? ?]]]; lia.
  - intros a b c _ _ _ Hab Hbc. lia.
  - intros a b _ _.
    destruct (sgn_cases (key a - key b)) as [[? Hs1]|[[? Hs1]|[? Hs1]]];
    destruct (sgn_cases (key b - key a)) as [[? Hs2]|[[? Hs2]|[? Hs2]]];
    rewrite Hs1, Hs2; try reflexivity; lia.
  - intros a b c _ _ _ Hab Hbc.
    destruct (sgn_cases (key a - key b)) as [[? ?]|[[? ?]|[? ?]]];
    destruct (sgn_cases (key b - key c)) as [[? ?]|[[? ?]|[? ?]]];
    destruct (sgn_cases (key a - key c)) as [[? ?]|[[? ?]|[? ?]]]; lia.
Qed.

(* ------------------------------------------------------------------------------------ *)
(* 6. Non-vacuity: a concrete comparison that is not of the form key a - key b           *)
(* ------------------------------------------------------------------------------------ *)

(* Elements are pairs (tag, payload); the callback compares the tag modulo 10 only and
   returns results of wildly different magnitudes (only the sign is meaningful), so
   (13,1) and (3,2) are distinct elements that compare equal. *)
Definition ex_cmp (p q : Z * Z) : Z :=
  let a := fst p mod 10 in
  let b := fst q mod 10 in
  if a <? b then -7 * (b - a) else if b <? a then 1000 else 0.

Definition ex_list : list (Z * Z) := [(25, 0); (13, 1); (41, 7); (3, 2); (9, 9)].

Lemma forallb_In : forall (A : Type) (f : A -> bool) (l : list A),
  forallb f l = true -> forall x, In x l -> f x = true.
Proof. intros A f l H x Hx. exact (proj1 (forallb_forall f l) H x Hx). Qed.

Lemma ex_contract : cmp_contract ex_cmp ex_list.
Proof.
  split.
  - intros a b Ha Hb.
    assert (Hall : forallb (fun a => forallb (fun b =>
              Z.sgn (ex_cmp a b) =? - Z.sgn (ex_cmp b a)) ex_list) ex_list = true)
      by (vm_compute; reflexivity).
    apply Z.eqb_eq.
    exact (forallb_In _ _ _ (forallb_In _ _ _ Hall a Ha) b Hb).
  - intros a b c Ha Hb Hc Hab Hbc.
    assert (Hall : forallb (fun a => forallb (fun b => forallb (fun c =>
              implb ((ex_cmp a b <=? 0) && (ex_cmp b c <=? 0)) (ex_cmp a c <=? 0))
              ex_list) ex_list) ex_list = true)
      by (vm_compute; reflexivity).
    pose proof (forallb_In _ _ _ (forallb_In _ _ _ (forallb_In _ _ _ Hall a Ha) b Hb) c Hc)
      as H.
    cbv beta in H.
    apply Z.leb_le in Hab. apply Z.leb_le in Hbc. rewrite Hab, Hbc in H.
    cbn [andb implb] in H. apply Z.leb_le. exact H.
Qed.

Example ex_ranks :
  map (rank ex_cmp ex_list) ex_list = [3; 1; 0; 1; 4].
Proof. vm_compute. reflexivity. Qed.

Example ex_represented :
  cmp_contract ex_cmp ex_list /\
  (* the two distinct elements (13,1) and (3,2) compare equal and get the same key *)
  ex_cmp (13, 1) (3, 2) = 0 /\
  rank ex_cmp ex_list (13, 1) = rank ex_cmp ex_list (3, 2) /\
  (* the theorem, instantiated, and checked by evaluation on all 25 pairs *)
  (forall a b, In a ex_list -> In b ex_list ->
     Z.sgn (ex_cmp a b) = Z.sgn (rank ex_cmp ex_list a - rank ex_cmp ex_list b)) /\
  forallb (fun a => forallb (fun b =>
     Z.sgn (ex_cmp a b) =? Z.sgn (rank ex_cmp ex_list a - rank ex_cmp ex_list b))
     ex_list) ex_list = true.
Proof.
  split; [ exact ex_contract | ].
  split; [ vm_compute; reflexivity | ].
  split; [ vm_compute; reflexivity | ].
  split; [ exact (cmp_represented_by_keys _ ex_cmp ex_list ex_contract) | ].
  vm_compute; reflexivity.
Qed.

(* A comparison that violates the contract (a "rock-paper-scissors" cycle) is rejected:
   the contract is not trivially true. *)
Example ex_cycle_not_contract :
  ~ cmp_contract (fun a b : Z => if (b - a) mod 3 =? 1 then -1
                                 else if (a - b) mod 3 =? 1 then 1 else 0) [0; 1; 2].
Proof.
  intros [_ Htr].
  specialize (Htr 0 1 2 ltac:(cbn; tauto) ltac:(cbn; tauto) ltac:(cbn; tauto)).
  (* 0 < 1 and 1 < 2 but 2 < 0 *)
  assert (H : (1 <= 0)%Z) by (apply Htr; vm_compute; intros Hd; discriminate Hd).
  lia.
Qed.

Print Assumptions cmp_represented_by_keys.
Print Assumptions cmp_key_order_equiv.
Print Assumptions key_order_satisfies_contract.
