(** Pointer-level executable model of src/map.c (C08, parent links): the
    operations of MapModel.v with the embedded red-black tree held in the
    node memory of TreeLinksModel.v ({p; l; r; colour} per node, root pointer,
    size field) instead of an inductive tree.

    The map functions call the pointer-level transcriptions of the rbtree
    functions the way map.c calls the C functions:
      __cstl_map_find        = [l_find]      (cstl_rbtree_find = cstl_bintree_find)
      cstl_map_insert        = find; malloc; [l_rb_insert] below the reported parent
      cstl_map_erase_iterator= [l_rb_erase] of the iterator's node; free
      cstl_map_clear         = the walk of cstl_bintree_clear (callback order of
                               the tree decoded from the memory, as [lstep Clear]),
                               user callback then free per node; root = NULL; size = 0.
    The node of heap block [b] is at address [addr b] = [S b].

    The comparison the tree functions make is [cstl_map_node_cmp]: the user
    comparison of the [key] fields of the two nodes, modelled as the integer
    order of [ck key].  The [key] field of a linked node is read from the
    node table of the moment ([nkey]); a node without node memory reads as 0
    (MapModel.v has no such read either: its tree elements carry [ck key]
    themselves; MapLinksProofs.v shows that every node the walks visit has
    node memory).  No proofs here: MapLinksProofs.v. *)
From Cstl Require Import Prelude AllocModel TreeModel TreeLinksModel MapModel.
Local Open Scope Z_scope.

(** cstl_map_t at pointer level: the tree's node memory + root + size field,
    the nodes' key/val fields, the heap *)
Record mlstate := mkML { ml : lstate; mltab : table; mlal : alloc }.
Definition ml_init : mlstate := mkML l_init [] alloc_init.

Section MapLinks.
  Variable ck : nat -> Z.
  Variable ok : nat -> N -> bool.

  (** canonical comparison key of the [key] field of node [n] *)
  Definition nkey (tb : table) (n : nat) : Z :=
    match tab_get tb n with Some (k, _) => ck k | None => 0 end.

  (** __cstl_map_find(map, key, &p): (found node, would-be parent), as
      addresses *)
  Definition ml_find_node (s : mlstate) (k : nat) : option (option nat * option nat) :=
    l_find (nkey (mltab s)) (lfuel (ml s)) (lm (ml s)) (ck k) (lroot (ml s)) None.

  (** cstl_map_find *)
  Definition ml_find (s : mlstate) (k : nat) : option iter :=
    match ml_find_node s k with
    | Some (f, _) => iterator_init (mltab s) (option_map pred f)
    | None => None
    end.

  (** cstl_map_erase_iterator(map, i) *)
  Definition ml_erase_iterator (s : mlstate) (i : iter) : option mlstate :=
    match inode i with
    | None => None
    | Some n =>
      (* __cstl_rbtree_erase(&map->t, &n->n) *)
      match l_rb_erase (lfuel (ml s)) (lm (ml s)) (lroot (ml s)) (addr n) with
      | Some (m', root') =>
        (* bt->size--; cstl_map_node_free(n) *)
        Some (mkML (mkL m' root' (lsz (ml s) - 1)) (tab_del (mltab s) n) (free (mlal s) (Some n)))
      | None => None
      end
    end.

  (** cstl_map_erase(map, key, _i) *)
  Definition ml_erase (s : mlstate) (k : nat) : option (mlstate * Z * iter) :=
    match ml_find s k with
    | None => None
    | Some i =>
      let i' := mkI (ikey i) (ival i) None in
      match inode i with
      | Some _ =>
        match ml_erase_iterator s i with
        | Some s' => Some (s', 0, i')
        | None => None
        end
      | None => Some (s, -1, i')
      end
    end.

  (** cstl_map_insert(map, key, val, i) up to the final iterator_init *)
  Definition ml_insert (s : mlstate) (k v : nat) : option (mlstate * Z * option nat) :=
    match ml_find_node s k with
    | None => None
    | Some (Some a, _) => Some (s, 1, Some (pred a))
    | Some (None, p) =>
      let '(a', r) := malloc ok (mlal s) NODE_SIZE in
      match r with
      | Some b =>
        let tb' := (b, (k, v)) :: mltab s in          (* n->key = key; n->val = val *)
        (* cstl_rbtree_insert(&map->t, node, p); bt->size++ *)
        match l_rb_insert (nkey tb') (lfuel (ml s)) (lm (ml s)) (lroot (ml s)) (addr b) p with
        | Some (m', root') => Some (mkML (mkL m' root' (lsz (ml s) + 1)) tb' a', 0, Some b)
        | None => None
        end
      | None => Some (mkML (ml s) (mltab s) a', -1, None)
      end
    end.

  (** cstl_map_clear *)
  Definition ml_clear (cb : bool) (s : mlstate) : option (mlstate * list Z * list cev) :=
    match lroot (ml s) with
    | None => Some (s, [], [])                        (* bt->root == NULL *)
    | Some _ =>
      match decode (nkey (mltab s)) (ml s) with
      | None => None
      | Some t =>
        match clear_nodes cb (bt_clear t) (mltab s) (mlal s) with
        | Some (tb', a', out, tr) =>
          Some (mkML (mkL (lm (ml s)) None 0) tb' a', out, tr)   (* bt->root = NULL; bt->size = 0 *)
        | None => None
        end
      end
    end.

  (** same operations and outputs as [MapModel.step] *)
  Definition mlstep (s : mlstate) (o : mop) : outcome mlstate :=
    match o with
    | MInsert k v it =>
      match ml_insert s k v with
      | Some (s', err, node) =>
        if it then
          match iterator_init (mltab s') node with
          | Some i => Done s' (err :: iter_out i)
          | None => Fault
          end
        else Done s' [err]
      | None => Fault
      end
    | MFind k =>
      match ml_find s k with
      | Some i => Done s (iter_out i)
      | None => Fault
      end
    | MErase k it =>
      match ml_erase s k with
      | Some (s', err, i) => Done s' (err :: (if it then iter_out i else []))
      | None => Fault
      end
    | MEraseIter k =>
      match ml_find s k with
      | Some i =>
        match inode i with
        | None => Precond
        | Some _ =>
          match ml_erase_iterator s i with
          | Some s' => Done s' []
          | None => Fault
          end
        end
      | None => Fault
      end
    | MSize => Done s [Z.of_N (lsz (ml s))]
    | MClear cb =>
      match ml_clear cb s with
      | Some (s', out, _) => Done s' out
      | None => Fault
      end
    | MLive => Done s [Z.of_nat (length (live (mlal s)))]
    end.
End MapLinks.

(** the calls of the red-black tree functions one map operation makes, as
    operations of the scripted tree system (TreeModel.step / lstep, kind RB)
    over the element pool "heap block ids":
    a find is [Find]; find + cstl_rbtree_insert below the reported parent of
    the freshly allocated node [b] is [InsertH b]; find + __cstl_rbtree_erase
    of the found node is [Erase]; cstl_bintree_clear is [Clear] *)
Definition tree_ops (ck : nat -> Z) (ok : nat -> N -> bool) (s : mstate) (o : mop) : list op :=
  match o with
  | MInsert k _ _ =>
    match fst (map_find_node ck s k) with
    | Some _ => [Find (ck k)]
    | None => if grant ok (mal s) NODE_SIZE then [InsertH (next (mal s))] else [Find (ck k)]
    end
  | MFind k => [Find (ck k)]
  | MErase k _ | MEraseIter k => [Erase (ck k)]
  | MSize | MLive => []
  | MClear _ => [Clear]
  end.
