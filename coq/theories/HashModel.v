(** Executable model of src/hash.c and the inline functions of
    include/cstl/hash.h (C03, C04, C17(b), C19).

    A table is modelled by the public fields of [struct cstl_hash], one for
    one: the bucket array [bks] (one entry per allocated bucket, i.e.
    [capacity] entries: a chain of element ids in link order plus the
    per-bucket clean bit), [bcount]/[cap], the current hash function, the
    table-wide clean bit [cst], the pending geometry [rcount]/[rclean]/[rhash]
    (a rehash is pending iff [rhash] is not NULL) and the element counter
    [size].  Fields that the C code leaves stale ([rcount], [rclean] after
    the rehash has finished, bits of buckets beyond the current count) are
    kept stale here as well.

    Every function is a transcription of the C function of the same name:
    same case analysis, same order of updates.  Indexing the bucket array
    outside its allocation, or calling a NULL function pointer, is [RFault];
    [abort()] is [RAbort].  Every function returns the work it performed as
    a list of events (hash-function calls with their arguments, buckets whose
    contents were relocated, callbacks).

    The hash functions are a parameter [hf : id -> key -> table size -> option
    N] -- ANY function: it may return values >= the table size (the range
    check of [__cstl_hash_get_bucket] then aborts) and it may itself trap
    ([None], e.g. a division by a table size of 0).  Elements are pool
    indices; [key e] is the key stored in the element's node. *)
From Cstl Require Import Prelude AllocModel.
Local Open Scope N_scope.

Definition fn_id := nat.
(** id 0 stands for the built-in [cstl_hash_mul], which [cstl_hash_resize]
    installs by itself when no function was ever given *)
Definition FN_MUL : fn_id := 0%nat.
Definition SIZE_MAX : N := 18446744073709551615.
(** [sizeof(struct cstl_hash_bucket)]: a pointer and a bool (printed by the
    driver and compared on every run) *)
Definition BUCKET_BYTES : N := 16.
(** largest bucket count for which [sizeof(bucket) * n] does not wrap; the C
    code does not check this (observation in DESIGN.md section 7), requests
    beyond it are outside the domain of every theorem ([Precond]) *)
Definition MAX_BUCKETS : N := 1152921504606846975.

Record bucket := mkB { chain : list nat; bbit : bool }.

Record table := mkT {
  at_blk : option nat;      (* bucket.at: allocator block, None = NULL *)
  bks : list bucket;        (* contents of that block *)
  bcount : N;               (* bucket.count *)
  cap : N;                  (* bucket.capacity *)
  hash : option fn_id;      (* bucket.hash *)
  cst : bool;               (* bucket.cst *)
  rcount : N;               (* bucket.rh.count *)
  rclean : N;               (* bucket.rh.clean *)
  rhash : option fn_id;     (* bucket.rh.hash; Some = rehash pending *)
  size : N                  (* count *)
}.

Definition t_init : table := mkT None [] 0 0 None false 0 0 None 0.

Definition set_bks (t : table) (b : list bucket) : table :=
  mkT (at_blk t) b (bcount t) (cap t) (hash t) (cst t) (rcount t) (rclean t) (rhash t) (size t).
Definition set_rclean (t : table) (c : N) : table :=
  mkT (at_blk t) (bks t) (bcount t) (cap t) (hash t) (cst t) (rcount t) c (rhash t) (size t).
Definition set_size (t : table) (n : N) : table :=
  mkT (at_blk t) (bks t) (bcount t) (cap t) (hash t) (cst t) (rcount t) (rclean t) (rhash t) n.

(** Which of the three repaired defects are *present* ([true] = the code as
    found, before the fix): F2 walk bound of foreach_const/clear, F3 clear
    keeps bucket.hash, F4 resize compares with the current geometry. *)
Record vers := mkV { pre_f2 : bool; pre_f3 : bool; pre_f4 : bool }.
Definition fixed : vers := mkV false false false.
Definition asfound : vers := mkV true true true.

Inductive ev :=
| EvHash (f : fn_id) (k m : N)   (* the hash function f was called with (k, m) *)
| EvClean (i : nat)              (* the contents of dirty bucket i were relocated *)
| EvOffer (e : nat)              (* find called the caller's visit function on e *)
| EvNext (e : nat)               (* a walk read the successor link of e *)
| EvVisit (e : nat)              (* foreach / foreach_const visited e *)
| EvClear (e : nat).             (* clear handed e to the clear callback *)

Inductive res (A : Type) :=
| Ok (a : A) (w : list ev)
| RAbort
| RFault.
Arguments Ok {A} a w.
Arguments RAbort {A}.
Arguments RFault {A}.

Definition bind {A B} (r : res A) (f : A -> res B) : res B :=
  match r with
  | Ok a w =>
    match f a with
    | Ok b w' => Ok b (w ++ w')
    | RAbort => RAbort
    | RFault => RFault
    end
  | RAbort => RAbort
  | RFault => RFault
  end.

Notation "x <- r ;; k" := (bind r (fun x => k))
  (at level 61, r at next level, right associativity).

Definition is_some {A} (o : option A) : bool := match o with Some _ => true | None => false end.
Definition fopt_eqb (a b : option fn_id) : bool :=
  match a, b with
  | None, None => true
  | Some x, Some y => Nat.eqb x y
  | _, _ => false
  end.

(** h->count--  (size_t) *)
Definition dec64 (n : N) : N := if n =? 0 then SIZE_MAX else n - 1.

(** element handed back by realloc when the array grows: indeterminate
    contents, written before they are read *)
Definition junk : bucket := mkB [] false.
Definition resize_list (l : list bucket) (n : nat) : list bucket :=
  firstn n l ++ repeat junk (n - length l).

Section Model.
  Variable hf : fn_id -> N -> N -> option N.
  Variable key : nat -> N.
  Variable vs : vers.

  (** __cstl_hash_get_bucket: [&h->bucket.at[i]] after the range check *)
  Definition bucket_raw (f : option fn_id) (k m : N) : res nat :=
    match f with
    | None => RFault
    | Some g =>
      match hf g k m with
      | None => RFault
      | Some i => if m <=? i then RAbort else Ok (N.to_nat i) [EvHash g k m]
      end
    end.

  (** loop of cstl_clean_bucket over the detached chain: every node goes to
      the head of its bucket under the pending geometry, in chain order *)
  Fixpoint reinsert (l : list nat) (f : option fn_id) (m : N) (bs : list bucket)
    : res (list bucket) :=
    match l with
    | [] => Ok bs []
    | e :: r =>
      j <- bucket_raw f (key e) m ;;
      match nth_error bs j with
      | None => RFault
      | Some b => reinsert r f m (upd bs j (mkB (e :: chain b) (bbit b)))
      end
    end.

  (** cstl_clean_bucket *)
  Definition clean_bucket (t : table) (i : nat) : res table :=
    match nth_error (bks t) i with
    | None => RFault
    | Some b =>
      if Bool.eqb (cst t) (bbit b) then Ok t []
      else
        bs <- reinsert (chain b) (rhash t) (rcount t) (upd (bks t) i (mkB [] (bbit b))) ;;
        match nth_error bs i with
        | None => RFault
        | Some b' => Ok (set_bks t (upd bs i (mkB (chain b') (cst t)))) [EvClean i]
        end
    end.

  (** first loop of __cstl_hash_rehash: skip over already-cleaned buckets.
      [fuel] = count - rh.clean iterations always suffice. *)
  Fixpoint skip_clean (fuel : nat) (t : table) : res table :=
    match fuel with
    | O => Ok t []
    | S fu =>
      if rclean t <? bcount t then
        match nth_error (bks t) (N.to_nat (rclean t)) with
        | None => RFault
        | Some b =>
          if Bool.eqb (bbit b) (cst t) then skip_clean fu (set_rclean t (rclean t + 1))
          else Ok t []
        end
      else Ok t []
    end.

  (** second loop: clean up to [n] buckets *)
  Fixpoint sweep (fuel : nat) (n : N) (t : table) : res table :=
    match fuel with
    | O => Ok t []
    | S fu =>
      if (rclean t <? bcount t) && (0 <? n) then
        t1 <- clean_bucket t (N.to_nat (rclean t)) ;;
        sweep fu (n - 1) (set_rclean t1 (rclean t1 + 1))
      else Ok t []
    end.

  (** end of __cstl_hash_rehash: adopt the pending geometry *)
  Definition finish (t : table) : table :=
    if bcount t <=? rclean t then
      mkT (at_blk t) (bks t) (rcount t) (cap t) (rhash t) (cst t) (rcount t) (rclean t) None (size t)
    else t.

  (** __cstl_hash_rehash(h, n) *)
  Definition rehash_n (t : table) (n : N) : res table :=
    t1 <- skip_clean (N.to_nat (bcount t - rclean t)) t ;;
    t2 <- sweep (N.to_nat (bcount t1 - rclean t1)) n t1 ;;
    Ok (finish t2) [].

  (** cstl_hash_rehash *)
  Definition rehash (t : table) : res table :=
    match rhash t with
    | Some _ => rehash_n t SIZE_MAX
    | None => Ok t []
    end.

  (** cstl_hash_get_bucket *)
  Definition get_bucket (t : table) (k : N) : res (table * nat) :=
    i <- bucket_raw (hash t) k (bcount t) ;;
    match rhash t with
    | None => Ok (t, i) []
    | Some _ =>
      j <- bucket_raw (rhash t) k (rcount t) ;;
      t1 <- clean_bucket t i ;;
      t2 <- clean_bucket t1 j ;;
      t3 <- rehash_n t2 1 ;;
      Ok (t3, j) []
    end.

  (** cstl_hash_insert (the element's node key is [key e]) *)
  Definition insert (t : table) (e : nat) : res table :=
    p <- get_bucket t (key e) ;;
    let '(t1, j) := p in
    match nth_error (bks t1) j with
    | None => RFault
    | Some b =>
      Ok (set_size (set_bks t1 (upd (bks t1) j (mkB (e :: chain b) (bbit b)))) (size t1 + 1)) []
    end.

  (** cstl_hash_bucket_foreach with cstl_hash_find_visit.  [vis = None]: no
      visit function; [Some acc]: the visit function accepts exactly the
      elements of [acc].  Returns the elements offered, in order, and the
      result. *)
  Fixpoint find_chain (k : N) (vis : option (list nat)) (l : list nat) : list nat * option nat :=
    match l with
    | [] => ([], None)
    | e :: r =>
      if key e =? k then
        match vis with
        | None => ([], Some e)
        | Some acc =>
          if existsb (Nat.eqb e) acc then ([e], Some e)
          else let '(o, x) := find_chain k vis r in (e :: o, x)
        end
      else find_chain k vis r
    end.

  (** cstl_hash_find *)
  Definition find (t : table) (k : N) (vis : option (list nat)) : res (table * option nat) :=
    p <- get_bucket t k ;;
    let '(t1, j) := p in
    match nth_error (bks t1) j with
    | None => RFault
    | Some b =>
      let '(o, x) := find_chain k vis (chain b) in
      Ok (t1, x) (map EvOffer o)
    end.

  (** the pointer-to-pointer walk of cstl_hash_erase: unlink the node whose
      address is [e] *)
  Fixpoint remove_first (e : nat) (l : list nat) : option (list nat) :=
    match l with
    | [] => None
    | x :: r => if Nat.eqb x e then Some r else option_map (cons x) (remove_first e r)
    end.

  (** does the chain walk of cstl_hash_erase (it reads the successor link of
      every node from the head of the bucket up to and including [e], or of
      the whole chain when [e] is not there) touch a node whose memory has
      been freed? *)
  Fixpoint touches_dead (dead : list nat) (e : nat) (l : list nat) : bool :=
    match l with
    | [] => false
    | x :: r => existsb (Nat.eqb x) dead || (if Nat.eqb x e then false else touches_dead dead e r)
    end.

  (** cstl_hash_erase, called while the elements [dead] have been freed (by
      the visit function of a foreach in progress; [[]] for a plain call):
      reading a freed node is [RFault] *)
  Definition erase_d (dead : list nat) (t : table) (e : nat) : res table :=
    p <- get_bucket t (key e) ;;
    let '(t1, j) := p in
    match nth_error (bks t1) j with
    | None => RFault
    | Some b =>
      if touches_dead dead e (chain b) then RFault
      else
        match remove_first e (chain b) with
        | None => Ok t1 []
        | Some l => Ok (set_size (set_bks t1 (upd (bks t1) j (mkB l (bbit b)))) (dec64 (size t1))) []
        end
    end.

  Definition erase (t : table) (e : nat) : res table := erase_d [] t e.

  (** number of buckets walked by __cstl_hash_foreach.  Repaired code: also
      the buckets added by a pending grow; as found (F2): [bucket.count]. *)
  Definition walk_bound (t : table) : N :=
    if pre_f2 vs then bcount t
    else match rhash t with
         | Some _ => N.max (bcount t) (rcount t)
         | None => bcount t
         end.

  (** the nodes in the order __cstl_hash_foreach reaches them *)
  Definition walk_seq (t : table) : option (list nat) :=
    let n := N.to_nat (walk_bound t) in
    if Nat.leb n (length (bks t)) then Some (concat (map chain (firstn n (bks t)))) else None.

  (** a visit function that answers [stop] at its [stop]-th call (0: never) *)
  Definition visit_upto (stop : nat) (l : list nat) : list nat * Z :=
    match stop with
    | O => (l, 0%Z)
    | S _ => if Nat.leb stop (length l) then (firstn stop l, Z.of_nat stop) else (l, 0%Z)
    end.

  Definition walk_events (l : list nat) : list ev := flat_map (fun e => [EvNext e; EvVisit e]) l.

  (** cstl_hash_foreach_const *)
  Definition foreach_const (t : table) (stop : nat) : res (table * Z) :=
    match walk_seq t with
    | None => RFault
    | Some l => let '(log, r) := visit_upto stop l in Ok (t, r) (walk_events log)
    end.

  (** cstl_hash_bucket_foreach driven by the visit function of the library's
      own manual_clear test: erase the visited element from the table, then
      free it (the driver poisons and frees the memory).  HASH_LIST_FOREACH
      reads the successor link of the current node *before* the body runs
      ([EvNext] precedes [EvVisit]); a node already freed must never be read
      again ([RFault]).  Erasing the visited node rewrites only the link that
      points to it, so the rest of the walk is the rest of the chain as it
      was when the walk started. *)
  Fixpoint walk_erase (t : table) (dead l : list nat) : res table :=
    match l with
    | [] => Ok t []
    | e :: r =>
      if existsb (Nat.eqb e) dead then RFault
      else
        t1 <- bind (Ok tt [EvNext e; EvVisit e]) (fun _ => erase_d dead t e) ;;
        walk_erase t1 (e :: dead) r
    end.

  (** cstl_hash_foreach *)
  Definition foreach (t : table) (er : bool) (stop : nat) : res (table * Z) :=
    t1 <- rehash t ;;
    match walk_seq t1 with
    | None => RFault
    | Some l =>
      let '(log, r) := visit_upto stop l in
      if er then t2 <- walk_erase t1 [] log ;; Ok (t2, r) []
      else Ok (t1, r) (walk_events log)
    end.

  (** a walk whose callback frees every node it is given must not come back
      to a node: the second visit would read freed memory *)
  Fixpoint revisits (seen l : list nat) : bool :=
    match l with
    | [] => false
    | e :: r => existsb (Nat.eqb e) seen || revisits (e :: seen) r
    end.

  (** cstl_hash_clear: the callback log and the re-initialised object.
      Repaired code resets bucket.hash; as found (F3) it is kept. *)
  Definition clear_events (l : list nat) : list ev := flat_map (fun e => [EvNext e; EvClear e]) l.

  Definition cleared (t : table) : table :=
    mkT None [] 0 0 (if pre_f3 vs then hash t else None) (cst t) (rcount t) (rclean t) None 0.

  Section Alloc.
    Variable ok : nat -> N -> bool.

    Definition clear (t : table) (a : alloc) (cb : bool) : res (table * alloc) :=
      match (if cb then walk_seq t else Some []) with
      | None => RFault
      | Some l =>
        if revisits [] l then RFault
        else Ok (cleared t, free a (at_blk t)) (clear_events l)
      end.

    (** __cstl_hash_set_capacity *)
    Definition set_capacity (t : table) (a : alloc) (sz : N) : table * alloc :=
      let '(a', r) := realloc ok a (at_blk t) (BUCKET_BYTES * sz) in
      match r with
      | Some b =>
        (mkT (Some b) (resize_list (bks t) (N.to_nat sz)) (bcount t) sz (hash t) (cst t)
             (rcount t) (rclean t) (rhash t) (size t), a')
      | None => (t, a')
      end.

    (** loop "for (i = h->bucket.count; i < count; i++)" of cstl_hash_resize *)
    Fixpoint init_loop (fuel i : nat) (c : bool) (bs : list bucket) : option (list bucket) :=
      match fuel with
      | O => Some bs
      | S fu => if Nat.ltb i (length bs) then init_loop fu (S i) c (upd bs i (mkB [] c)) else None
      end.

    (** geometry a rehash in progress is heading for, else the current one *)
    Definition tgt_count (t : table) : N :=
      match rhash t with Some _ => rcount t | None => bcount t end.
    Definition tgt_hash (t : table) : option fn_id :=
      match rhash t with Some g => Some g | None => hash t end.

    (** cstl_hash_resize.  Repaired code compares the request with the
        geometry the table is heading for; as found (F4) with the current. *)
    Definition resize (t : table) (a : alloc) (n : N) (f : option fn_id) : res (table * alloc) :=
      if 0 <? n then
        let '(t1, a1) := if cap t <? n then set_capacity t a n else (t, a) in
        let cc := if pre_f4 vs then bcount t1 else tgt_count t1 in
        let ch := if pre_f4 vs then hash t1 else tgt_hash t1 in
        if is_some (at_blk t1) && (n <=? cap t1)
           && (negb (n =? cc) || (is_some f && negb (fopt_eqb f ch))) then
          t2 <- rehash t1 ;;
          let c := negb (cst t2) in
          match init_loop (N.to_nat n - N.to_nat (bcount t2)) (N.to_nat (bcount t2)) c (bks t2) with
          | None => RFault
          | Some bs =>
            let rh := match f with
                      | Some g => Some g
                      | None => match hash t2 with Some g => Some g | None => Some FN_MUL end
                      end in
            match hash t2 with
            | None =>   (* first resize *)
              Ok (mkT (at_blk t2) bs n (cap t2) rh c n 0 None (size t2), a1) []
            | Some _ =>
              Ok (mkT (at_blk t2) bs (bcount t2) (cap t2) (hash t2) c n 0 rh (size t2), a1) []
            end
          end
        else Ok (t1, a1) []
      else Ok (t, a) [].

    (** cstl_hash_shrink_to_fit *)
    Definition shrink_to_fit (t : table) (a : alloc) : res (table * alloc) :=
      if tgt_count t <? cap t then
        t1 <- rehash t ;;
        Ok (set_capacity t1 a (bcount t1)) []
      else Ok (t, a) [].
  End Alloc.

  (** cstl_hash_load: numerator and denominator of the float division *)
  Definition load (t : table) : N * N := (size t, tgt_count t).
End Model.

(** * The scripted system: a family of tables over one element pool and one
    allocator *)

Record sys := mkSys { tabs : list table; al : alloc }.

Definition sys_init (n : nat) : sys := mkSys (repeat t_init n) alloc_init.

Inductive op :=
| Insert (t e : nat)
| Find (t : nat) (k : N) (vis : option (list nat))
| Erase (t e : nat)
| Resize (t : nat) (n : N) (f : option fn_id)
| Rehash (t : nat)
| Shrink (t : nat)
| Swap (a b : nat)
| Foreach (t : nat) (er : bool) (stop : nat)
| ForeachConst (t : nat) (stop : nat)
| Clear (t : nat) (cb : bool)
| Size (t : nat)
| Load (t : nat).

Definition live (t : table) : list nat := concat (map chain (bks t)).

Definition in_any (s : sys) (e : nat) : bool :=
  existsb (fun t => existsb (Nat.eqb e) (live t)) (tabs s).

(** what resize/rehash/shrink_to_fit report: did any geometry field change *)
Definition geom (t : table) : N * N * option fn_id * bool * option fn_id * N :=
  (bcount t, cap t, hash t, cst t, rhash t, match rhash t with Some _ => rcount t | None => 0 end).
Definition geom_eqb (t u : table) : bool :=
  (bcount t =? bcount u) && (cap t =? cap u) && fopt_eqb (hash t) (hash u)
  && Bool.eqb (cst t) (cst u) && fopt_eqb (rhash t) (rhash u)
  && (match rhash t with Some _ => rcount t =? rcount u | None => true end).
Definition changed (t u : table) : Z := if geom_eqb t u then 0%Z else 1%Z.

(** result of one scripted call: new system, returned integers, work log *)
Inductive xres :=
| XDone (s : sys) (r : list Z) (w : list ev)
| XAbort
| XFault
| XPrecond.

Section Step.
  Variable hf : fn_id -> N -> N -> option N.
  Variable key : nat -> N.
  Variable vs : vers.
  Variable ok : nat -> N -> bool.

  Definition with_tab (s : sys) (i : nat) (f : table -> xres) : xres :=
    match nth_error (tabs s) i with
    | None => XPrecond
    | Some t => f t
    end.

  (** a call that changes only table [i] *)
  Definition lift {A} (s : sys) (i : nat) (r : res A) (k : A -> table * alloc * list Z) : xres :=
    match r with
    | Ok a w => let '(t', a', out) := k a in XDone (mkSys (upd (tabs s) i t') a') out w
    | RAbort => XAbort
    | RFault => XFault
    end.

  Definition exec (s : sys) (o : op) : xres :=
    match o with
    | Insert i e =>
      with_tab s i (fun t =>
        if in_any s e || negb (is_some (hash t)) then XPrecond
        else lift s i (insert hf key t e) (fun t' => (t', al s, [])))
    | Find i k vis =>
      with_tab s i (fun t =>
        if negb (is_some (hash t)) then XPrecond
        else lift s i (find hf key t k vis) (fun p => (fst p, al s, [zopt (snd p)])))
    | Erase i e =>
      with_tab s i (fun t =>
        if negb (is_some (hash t)) then XPrecond
        else lift s i (erase hf key t e) (fun t' => (t', al s, [])))
    | Resize i n f =>
      with_tab s i (fun t =>
        if MAX_BUCKETS <? n then XPrecond
        else lift s i (resize hf key vs ok t (al s) n f)
                  (fun p => (fst p, snd p, [changed t (fst p)])))
    | Rehash i =>
      with_tab s i (fun t =>
        lift s i (rehash hf key t) (fun t' => (t', al s, [changed t t'])))
    | Shrink i =>
      with_tab s i (fun t =>
        lift s i (shrink_to_fit hf key ok t (al s)) (fun p => (fst p, snd p, [changed t (fst p)])))
    | Swap i j =>
      with_tab s i (fun ti => with_tab s j (fun tj =>
        XDone (mkSys (upd (upd (tabs s) i tj) j ti) (al s)) [] []))
    | Foreach i er stop =>
      with_tab s i (fun t =>
        lift s i (foreach hf key vs t er stop) (fun p => (fst p, al s, [snd p])))
    | ForeachConst i stop =>
      with_tab s i (fun t =>
        lift s i (foreach_const vs t stop) (fun p => (fst p, al s, [snd p])))
    | Clear i cb =>
      with_tab s i (fun t =>
        lift s i (clear vs t (al s) cb) (fun p => (fst p, snd p, [])))
    | Size i => with_tab s i (fun t => XDone s [Z.of_N (size t)] [])
    | Load i =>
      with_tab s i (fun t =>
        if negb (is_some (hash t)) then XPrecond
        else XDone s [Z.of_N (fst (load t)); Z.of_N (snd (load t))] [])
    end.

  Definition ev_out (e : ev) : list Z :=
    match e with
    | EvHash f k m => [1; zid f; Z.of_N k; Z.of_N m]
    | EvClean i => [2; zid i]
    | EvOffer x => [3; zid x]
    | EvNext x => [4; zid x]
    | EvVisit x => [5; zid x]
    | EvClear x => [6; zid x]
    end%Z.

  (** the same step in the shared [outcome] format: number of returned
      integers, the integers, then the encoded work log *)
  Definition step (s : sys) (o : op) : outcome sys :=
    match exec s o with
    | XDone s' r w => Done s' (Z.of_nat (length r) :: r ++ flat_map ev_out w)
    | XAbort => Abort
    | XFault => Fault
    | XPrecond => Precond
    end.
End Step.

(** Concrete hash functions selectable from scripts.  0 = the built-in
    cstl_hash_mul, 3 = the same function reached through a logging wrapper
    (single-precision code: evaluated outside Coq and passed in as [mulf]),
    1 = k mod m (cstl_hash_div), 2 = (3k+1) mod m, 4/5/6 = deliberately
    out of range (m, m+1, SIZE_MAX), 7 = out of range for odd keys only. *)
Definition script_hf (mulf : N -> N -> N) (f : fn_id) (k m : N) : option N :=
  match f with
  | 0%nat | 3%nat => Some (mulf k m)
  | 1%nat => if m =? 0 then None else Some (k mod m)
  | 2%nat => if m =? 0 then None else Some (((3 * k + 1) mod 18446744073709551616) mod m)
  | 4%nat => Some m
  | 5%nat => Some ((m + 1) mod 18446744073709551616)
  | 6%nat => Some SIZE_MAX
  | 7%nat => if N.odd k then Some m else if m =? 0 then None else Some (k mod m)
  | _ => Some 0
  end.
