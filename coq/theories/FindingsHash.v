(** Refutations for src/hash.c as found (before fixes/F2, F3, F4): the
    faithful model of the unrepaired code ([vers] flags [pre_f2], [pre_f3],
    [pre_f4]) does not satisfy C04 / C19.  Each witness is computed by the
    kernel; replayed on the C code it is the finding (corpus/C04, corpus/C19). *)
From Cstl Require Import Prelude AllocModel HashModel HashProofs HashInv HashOps.
Local Open Scope N_scope.

Definition f_key : nat -> N := fun e => nth e [0; 0; 1; 2] 0.
Definition f_hf := script_hf (fun _ _ => 0).
Definition f_ok := fun (_ : nat) (_ : N) => true.

(** F2 / C04: foreach_const (and clear) walk only [bucket.count] buckets; an
    element already relocated into a bucket added by the pending grow is
    missed: the table holds element 3, foreach_const visits nothing, clear
    calls back nothing. *)
Theorem F2_foreach_const_misses_refuted :
  exists ops s t w1 w2 s1 s2,
    fst (run (step f_hf f_key (mkV true false false) f_ok) (sys_init 1) ops) = Done s [] /\
    nth_error (tabs s) 0 = Some t /\ live t = [3%nat] /\ rhash t <> None /\
    exec f_hf f_key (mkV true false false) f_ok s (ForeachConst 0 0) = XDone s1 [0%Z] w1 /\ visits w1 = [] /\
    exec f_hf f_key (mkV true false false) f_ok s (Clear 0 true) = XDone s2 [] w2 /\ clears w2 = [].
Proof.
  exists [Resize 0 2 (Some 1%nat); Insert 0 3; Resize 0 3 None; Erase 0 2].
  vm_compute. do 6 eexists. repeat split; try reflexivity. discriminate.
Qed.

(** F3 / C04: clear leaves bucket.hash set, so the next resize is not the
    "first" one: it starts a rehash from a table with 0 buckets, and the next
    keyed operation calls the hash function with table size 0 (k % 0 for
    cstl_hash_div: SIGFPE) or aborts (cstl_hash_mul returns 0 >= 0). *)
Theorem F3_clear_resize_insert_refuted :
  fst (run (step f_hf f_key (mkV false true false) f_ok) (sys_init 1)
           [Resize 0 2 (Some 1%nat); Insert 0 0; Clear 0 true; Resize 0 3 None; Insert 0 1]) = Fault /\
  fst (run (step f_hf f_key (mkV false true false) f_ok) (sys_init 1)
           [Resize 0 2 None; Insert 0 0; Clear 0 true; Resize 0 3 None; Insert 0 1]) = Abort.
Proof. vm_compute. split; reflexivity. Qed.

(** F4 / C19: a request is compared with the current instead of the pending
    geometry: resize(1) while 1 -> 2 is pending is dropped although it could
    be satisfied; the table keeps heading for 2 buckets (load = size/2). *)
Theorem F4_resize_lands_refuted :
  exists ops s t,
    fst (run (step f_hf f_key (mkV false false true) f_ok) (sys_init 1) (ops ++ [Resize 0 1 None])) = Done s [] /\
    nth_error (tabs s) 0 = Some t /\ 1 <= cap t /\ tgt_count t = 2.
Proof.
  exists [Resize 0 1 None; Resize 0 2 None]. vm_compute. do 2 eexists. repeat split; try reflexivity.
  discriminate.
Qed.
