(** Proofs about MemModel.v (C05, C20): the counting invariant, its
    preservation by every library function, the event-log invariants and
    the guard theorems. *)
From Cstl Require Import Prelude AllocModel MemModel.
Local Open Scope N_scope.

(** * Association lists *)
Lemma lookup_remove_same {A} k (l : list (nat * A)) : lookup k (remove_key k l) = None.
Proof.
  induction l as [|[k' v] r IH]; simpl; auto.
  destruct (Nat.eqb_spec k' k); simpl; auto.
  destruct (Nat.eqb_spec k' k); congruence.
Qed.

Lemma lookup_remove_other {A} k k' (l : list (nat * A)) :
  k <> k' -> lookup k' (remove_key k l) = lookup k' l.
Proof.
  intros H. induction l as [|[k0 v] r IH]; simpl; auto.
  destruct (Nat.eqb_spec k0 k); simpl.
  - subst. destruct (Nat.eqb_spec k k'); congruence.
  - destruct (Nat.eqb_spec k0 k'); auto.
Qed.

Lemma lookup_remove {A} k k' (l : list (nat * A)) :
  lookup k' (remove_key k l) = if Nat.eqb k k' then None else lookup k' l.
Proof.
  destruct (Nat.eqb_spec k k') as [->|H].
  - apply lookup_remove_same.
  - apply lookup_remove_other; auto.
Qed.

Lemma lookup_store {A} k k' (v : A) l :
  lookup k' (store k v l) = if Nat.eqb k k' then Some v else lookup k' l.
Proof.
  unfold store. simpl. destruct (Nat.eqb_spec k k'); auto.
  apply lookup_remove_other; auto.
Qed.

(** * Counting objects that satisfy an index-dependent predicate *)
Definition b2n (b : bool) : N := if b then 1 else 0.

Fixpoint cnt (p : nat -> obj -> bool) (i : nat) (l : list obj) : N :=
  match l with
  | [] => 0
  | o :: r => b2n (p i o) + cnt p (S i) r
  end.

Lemma b2n_le1 b : b2n b <= 1.
Proof. destruct b; simpl; lia. Qed.

Lemma cnt_upd p i0 l i x o :
  nth_error l i = Some o ->
  cnt p i0 (upd l i x) + b2n (p (i0 + i)%nat o) = cnt p i0 l + b2n (p (i0 + i)%nat x).
Proof.
  revert i0 i. induction l as [|y r IH]; intros i0 [|i] E; simpl in *; try discriminate.
  - injection E as ->. rewrite Nat.add_0_r. lia.
  - specialize (IH (S i0) i E). rewrite <- Nat.add_succ_comm. lia.
Qed.

Lemma cnt_upd_same p i0 l i x o :
  nth_error l i = Some o -> p (i0 + i)%nat x = p (i0 + i)%nat o ->
  cnt p i0 (upd l i x) = cnt p i0 l.
Proof. intros E H. pose proof (cnt_upd p i0 l i x o E) as C. rewrite H in C. lia. Qed.

Lemma cnt_ge p i0 l i o :
  nth_error l i = Some o -> p (i0 + i)%nat o = true -> 1 <= cnt p i0 l.
Proof.
  revert i0 i. induction l as [|y r IH]; intros i0 [|i] E H; simpl in *; try discriminate.
  - injection E as ->. rewrite Nat.add_0_r in H. rewrite H. cbn [b2n]. lia.
  - rewrite <- Nat.add_succ_comm in H. specialize (IH (S i0) i E H). lia.
Qed.

Lemma cnt_pos p i0 l :
  0 < cnt p i0 l -> exists i o, nth_error l i = Some o /\ p (i0 + i)%nat o = true.
Proof.
  revert i0. induction l as [|y r IH]; intros i0 H; simpl in *; [lia|].
  destruct (p i0 y) eqn:E.
  - exists 0%nat, y. rewrite Nat.add_0_r. auto.
  - simpl in H. destruct (IH (S i0)) as (i & o & E1 & E2); [lia|].
    exists (S i), o. rewrite <- Nat.add_succ_comm. auto.
Qed.

Lemma cnt_zero p i0 l i o :
  cnt p i0 l = 0 -> nth_error l i = Some o -> p (i0 + i)%nat o = false.
Proof.
  intros Z E. destruct (p (i0 + i)%nat o) eqn:H; auto.
  pose proof (cnt_ge p i0 l i o E H). lia.
Qed.

Lemma cnt_le_length p i0 l : cnt p i0 l <= N.of_nat (length l).
Proof.
  revert i0. induction l as [|y r IH]; intros i0; simpl length; cbn [cnt]; [lia|].
  specialize (IH (S i0)). pose proof (b2n_le1 (p i0 y)). lia.
Qed.

Lemma cnt_ext p q i0 l :
  (forall i o, nth_error l i = Some o -> p (i0 + i)%nat o = q (i0 + i)%nat o) ->
  cnt p i0 l = cnt q i0 l.
Proof.
  revert i0. induction l as [|y r IH]; intros i0 H; simpl; auto.
  rewrite (IH (S i0)).
  - specialize (H 0%nat y eq_refl). rewrite Nat.add_0_r in H. rewrite H. auto.
  - intros i o E. specialize (H (S i) o E). rewrite <- Nat.add_succ_comm in H. auto.
Qed.

(** two distinct positions both satisfying [p] *)
Lemma cnt_except p k i0 l i o :
  k = (i0 + i)%nat -> nth_error l i = Some o -> p k o = true ->
  cnt (fun j o => if Nat.eqb j k then false else p j o) i0 l + 1 = cnt p i0 l.
Proof.
  revert i0 i. induction l as [|y r IH]; intros i0 [|i] K E H; cbn [nth_error cnt] in *; try discriminate.
  - injection E as ->. rewrite Nat.add_0_r in K. subst k. rewrite Nat.eqb_refl, H. cbn [b2n].
    rewrite (cnt_ext _ p (S i0) r); [lia|].
    intros j o' _. destruct (Nat.eqb_spec (S i0 + j) i0); auto; lia.
  - rewrite <- Nat.add_succ_comm in K. specialize (IH (S i0) i K E H).
    destruct (Nat.eqb_spec i0 k); [lia|]. lia.
Qed.

Lemma cnt_ge2 p i0 l i j oi oj :
  i <> j -> nth_error l i = Some oi -> nth_error l j = Some oj ->
  p (i0 + i)%nat oi = true -> p (i0 + j)%nat oj = true -> 2 <= cnt p i0 l.
Proof.
  intros N Ei Ej Hi Hj.
  pose proof (cnt_except p (i0 + i)%nat i0 l i oi eq_refl Ei Hi) as Q.
  assert (1 <= cnt (fun j o => if Nat.eqb j (i0 + i)%nat then false else p j o) i0 l).
  { apply (cnt_ge _ i0 l j oj Ej). destruct (Nat.eqb_spec (i0 + j) (i0 + i)); [lia|auto]. }
  lia.
Qed.

(** * Allocator facts *)
Definition alloc_ok (a : alloc) : Prop :=
  NoDup (map fst (live a)) /\ forall b, In b (map fst (live a)) -> (b < next a)%nat.

Lemma is_live_In a b : is_live a b = true <-> In b (map fst (live a)).
Proof.
  unfold is_live. rewrite existsb_exists. split.
  - intros ((x & y) & I & E). apply Nat.eqb_eq in E. simpl in E. subst. apply in_map_iff. exists (b, y); auto.
  - intros I. apply in_map_iff in I. destruct I as ((x & y) & E & I). simpl in E. subst.
    exists (b, y). split; auto. apply Nat.eqb_refl.
Qed.

Lemma alloc_ok_init : alloc_ok alloc_init.
Proof. split; simpl; [constructor|tauto]. Qed.

Lemma fresh_not_live a : alloc_ok a -> is_live a (next a) = false.
Proof.
  intros (_ & H). destruct (is_live a (next a)) eqn:E; auto.
  apply is_live_In in E. apply H in E. lia.
Qed.

Lemma remove_block_In b b' l : In b' (map fst (remove_block b l)) <-> b' <> b /\ In b' (map fst l).
Proof.
  unfold remove_block. rewrite !in_map_iff. split.
  - intros ((x & y) & E & I). apply filter_In in I. destruct I as (I & F). simpl in *. subst.
    apply negb_true_iff, Nat.eqb_neq in F. split; auto. exists (b', y); auto.
  - intros (N & (x & y) & E & I). simpl in E. subst. exists (b', y). split; auto.
    apply filter_In. split; auto. simpl. apply negb_true_iff, Nat.eqb_neq; auto.
Qed.

Lemma NoDup_map_filter {A B} (f : A -> B) p (l : list A) : NoDup (map f l) -> NoDup (map f (filter p l)).
Proof.
  induction l as [|x r IH]; simpl; auto. intros H. inversion H; subst.
  destruct (p x); simpl; auto. constructor; auto.
  intros I. apply H2. apply in_map_iff in I. destruct I as (y & E & I). apply filter_In in I.
  apply in_map_iff. exists y. tauto.
Qed.

Section Alloc.
  Variable ok : nat -> N -> bool.

  Lemma malloc_some a sz a' b :
    malloc ok a sz = (a', Some b) ->
    b = next a /\ live a' = (b, sz) :: live a /\ next a' = S (next a).
  Proof. unfold malloc. destruct (grant ok a sz); intros E; inversion E; subst; simpl; auto. Qed.

  Lemma malloc_none a sz a' :
    malloc ok a sz = (a', None) -> live a' = live a /\ next a' = next a.
  Proof. unfold malloc. destruct (grant ok a sz); intros E; inversion E; subst; simpl; auto. Qed.

  Lemma malloc_ok a sz a' r : alloc_ok a -> malloc ok a sz = (a', r) -> alloc_ok a'.
  Proof.
    intros (ND & LT) E. destruct r as [b|].
    - apply malloc_some in E. destruct E as (-> & L & Nx). unfold alloc_ok. rewrite L, Nx. simpl. split.
      + constructor; auto. intros I. apply LT in I. lia.
      + intros b [<-|I]; [lia|]. apply LT in I. lia.
    - apply malloc_none in E. destruct E as (L & Nx). unfold alloc_ok. rewrite L, Nx. split; auto.
  Qed.

  Lemma is_live_malloc a sz a' r b :
    malloc ok a sz = (a', r) ->
    is_live a' b = (match r with Some b' => Nat.eqb b' b | None => false end) || is_live a b.
  Proof.
    intros E. destruct r as [b'|].
    - apply malloc_some in E. destruct E as (-> & L & _). unfold is_live. rewrite L. reflexivity.
    - apply malloc_none in E. destruct E as (L & _). unfold is_live. rewrite L. reflexivity.
  Qed.

End Alloc.

Lemma is_live_free a b b' :
  is_live a b = true ->
  is_live (free a (Some b)) b' = negb (Nat.eqb b b') && is_live a b'.
Proof.
  intros L. unfold free. rewrite L. unfold is_live at 1. simpl.
  destruct (Nat.eqb_spec b b') as [->|N]; simpl.
  - destruct (existsb _ _) eqn:E; auto. apply existsb_exists in E. destruct E as ((x & y) & I & E).
    apply Nat.eqb_eq in E. simpl in E. subst.
    assert (In b' (map fst (remove_block b' (live a)))) as I' by (apply in_map_iff; exists (b', y); auto).
    apply remove_block_In in I'. tauto.
  - apply eq_true_iff_eq. fold (is_live a b'). rewrite is_live_In.
    change (existsb _ _ = true) with (is_live (mkAlloc (remove_block b (live a)) (next a) (ord a) (EvFree b :: events a)) b' = true).
    rewrite is_live_In. simpl. rewrite remove_block_In. intuition congruence.
Qed.

Lemma free_ok a b : alloc_ok a -> alloc_ok (free a (Some b)).
Proof.
  intros (ND & LT). unfold free. destruct (is_live a b); [|split; auto].
  split; simpl.
  - apply NoDup_map_filter; auto.
  - intros b' I. apply remove_block_In in I. apply LT; tauto.
Qed.


(** * The counting invariant *)
Definition wf_obj (i : nat) (o : obj) : bool := addr_eqb (gself (ogp o)) (ASlot i).
(** the block a well-formed object refers to (stray copies refer to nothing) *)
Definition tgt (i : nat) (o : obj) : option nat := if wf_obj i o then gp (ogp o) else None.
Definition opt_is (x : option nat) (b : nat) : bool :=
  match x with Some y => Nat.eqb y b | None => false end.
Definition ownerk (k : kind) : bool := match k with KS | KA => true | _ => false end.

(** effective kind: inside cstl_shared_ptr_reset, after the owner count has
    been given up, the object [x] is only a weak reference any more *)
Definition ek (x : option nat) (j : nat) (o : obj) : kind :=
  match x with
  | Some i => if Nat.eqb i j then KW else okind o
  | None => okind o
  end.
Definition hp (x : option nat) (d : nat) (j : nat) (o : obj) : bool :=
  ownerk (ek x j o) && opt_is (tgt j o) d.
Definition wp (x : option nat) (d : nat) (j : nat) (o : obj) : bool :=
  kind_eqb (ek x j o) KW && opt_is (tgt j o) d.
Definition upr (m : nat) (j : nat) (o : obj) : bool :=
  kind_eqb (okind o) KU && opt_is (tgt j o) m.

Definition up_init (d : nat) : uptr := mkU (mkG (AData d) None) None.

(** blocks released so far, in the order of the log *)
Definition freed (l : list mev) : list nat :=
  flat_map (fun e => match e with MA (EvFree b) => [b] | _ => [] end) l.

(** every clear callback is given live managed memory and is immediately
    followed by the release of that memory (the log is newest first) *)
Fixpoint ctf (l : list mev) : Prop :=
  match l with
  | [] => True
  | MA (EvFree m) :: r =>
    match r with
    | MClear p _ :: r' => p = Some m /\ ctf r'
    | _ => ctf r
    end
  | MClear _ _ :: _ => False
  | _ :: r => ctf r
  end.

(** allocator + event log part of the invariant: the allocator is
    consistent, nothing was ever freed that was not live, every block id
    below [next] that is not live has been freed exactly once, clear
    callbacks are immediately followed by the release of their argument *)
Definition linv (a : alloc) (l : list mev) : Prop :=
  alloc_ok a /\
  (forall b, ~ In (MA (EvBadFree b)) l) /\
  NoDup (freed l) /\
  (forall b, In b (freed l) <-> (b < next a)%nat /\ is_live a b = false) /\
  ctf l.

Record pinv (x : option nat) (s : st) : Prop := {
  inv_log : linv (al s) (log s);
  inv_live : forall d D, lookup d (datas s) = Some D -> is_live (al s) d = true;
  inv_hard : forall d D, lookup d (datas s) = Some D -> hard D = cnt (hp x d) 0 (objs s);
  inv_soft : forall d D, lookup d (datas s) = Some D ->
    soft D = cnt (hp x d) 0 (objs s) + cnt (wp x d) 0 (objs s);
  inv_pos : forall d D, lookup d (datas s) = Some D -> 0 < soft D;
  inv_self : forall d D, lookup d (datas s) = Some D -> gself (ugp (dup D)) = AData d;
  inv_hard0 : forall d D, lookup d (datas s) = Some D -> hard D = 0 -> dup D = up_init d;
  inv_mem : forall d D, lookup d (datas s) = Some D -> 0 < hard D ->
    exists m, gp (ugp (dup D)) = Some m /\ is_live (al s) m = true /\ lookup m (datas s) = None;
  inv_nodata : forall d, lookup d (datas s) = None ->
    cnt (hp x d) 0 (objs s) = 0 /\ cnt (wp x d) 0 (objs s) = 0;
  inv_uniq : forall i o, nth_error (objs s) i = Some o -> okind o = KU -> wf_obj i o = true ->
    match gp (ogp o) with
    | Some m => is_live (al s) m = true /\ lookup m (datas s) = None
    | None => oclr o = None
    end;
  inv_excl_dd : forall d1 d2 D1 D2 m, lookup d1 (datas s) = Some D1 -> lookup d2 (datas s) = Some D2 ->
    gp (ugp (dup D1)) = Some m -> gp (ugp (dup D2)) = Some m -> d1 = d2;
  inv_excl_du : forall d D m, lookup d (datas s) = Some D -> gp (ugp (dup D)) = Some m ->
    cnt (upr m) 0 (objs s) = 0;
  inv_excl_uu : forall m, cnt (upr m) 0 (objs s) <= 1;
  inv_noleak : forall b, is_live (al s) b = true ->
    lookup b (datas s) <> None \/
    (exists d D, lookup d (datas s) = Some D /\ gp (ugp (dup D)) = Some b) \/
    0 < cnt (upr b) 0 (objs s)
}.

Notation inv := (pinv None).

(** ** the allocator/log part under malloc and free *)
Lemma ctf_cons_other e l :
  match e with MA (EvFree _) => False | MClear _ _ => False | _ => True end -> ctf l -> ctf (e :: l).
Proof. destruct e as [[]|]; simpl; tauto. Qed.

Lemma ctf_free b l : ctf l -> ctf (MA (EvFree b) :: l).
Proof. intros H. destruct l as [|[[]|] r]; simpl in *; tauto. Qed.

Lemma ctf_clear_free b t l : ctf l -> ctf (MA (EvFree b) :: MClear (Some b) t :: l).
Proof. simpl. auto. Qed.

Lemma next_free a p : next (free a p) = next a.
Proof. destruct p as [b|]; simpl; auto. unfold free. destruct (is_live a b); reflexivity. Qed.

Lemma linv_malloc ok a l sz a' r :
  linv a l -> malloc ok a sz = (a', r) ->
  linv a' (MA (match r with Some b => EvMalloc b sz | None => EvMallocFail sz end) :: l).
Proof.
  intros (A & B & C & D & E) M. split; [eapply malloc_ok; eauto|].
  split; [|split; [|split]].
  - intros b [H|H]; [destruct r; discriminate|]. eapply B; eauto.
  - destruct r; simpl; auto.
  - intros b. replace (freed (MA (match r with Some b0 => EvMalloc b0 sz | None => EvMallocFail sz end) :: l)) with (freed l)
      by (destruct r; reflexivity).
    rewrite D. rewrite (is_live_malloc ok a sz a' r b M).
    destruct r as [b'|].
    + apply malloc_some in M. destruct M as (-> & _ & ->).
      pose proof (fresh_not_live a A) as F.
      destruct (Nat.eqb_spec (next a) b) as [<-|N]; simpl.
      * rewrite F. intuition (try lia; try discriminate).
      * intuition lia.
    + apply malloc_none in M. destruct M as (_ & ->). simpl. tauto.
  - apply ctf_cons_other; auto. destruct r; exact I.
Qed.

Lemma freed_cons_free b l : freed (MA (EvFree b) :: l) = b :: freed l.
Proof. reflexivity. Qed.
Lemma freed_cons_clear p t l : freed (MClear p t :: l) = freed l.
Proof. reflexivity. Qed.

Lemma linv_free_gen a l l' b :
  linv a l -> is_live a b = true ->
  freed l' = freed l -> (forall e, In e l' -> In e l \/ exists p t, e = MClear p t) ->
  ctf (MA (EvFree b) :: l') ->
  linv (free a (Some b)) (MA (EvFree b) :: l').
Proof.
  intros (A & B & C & D & E) L F I T. split; [apply free_ok; auto|].
  split; [|split; [|split]]; auto.
  - intros b' [H|H]; [discriminate|]. destruct (I _ H) as [H'|(p & t & H')]; [eapply B; eauto|discriminate].
  - rewrite freed_cons_free, F. constructor; auto. rewrite D. rewrite L. intros (_ & X). discriminate.
  - intros b'. rewrite freed_cons_free, F, next_free. cbn [In]. rewrite D, is_live_free by auto.
    destruct (Nat.eqb_spec b b') as [->|N]; simpl.
    + split; [intros _|auto]. split; auto. destruct A as (_ & A). apply A. apply is_live_In; auto.
    + intuition congruence.
Qed.

Lemma linv_free a l b :
  linv a l -> is_live a b = true -> linv (free a (Some b)) (MA (EvFree b) :: l).
Proof.
  intros H L. apply linv_free_gen with (l := l); auto.
  apply ctf_free. apply H.
Qed.

Lemma linv_clear_free a l b t :
  linv a l -> is_live a b = true ->
  linv (free a (Some b)) (MA (EvFree b) :: MClear (Some b) t :: l).
Proof.
  intros H L. apply linv_free_gen with (l := l); auto.
  - intros e [<-|I]; eauto.
  - apply ctf_clear_free. apply H.
Qed.

Arguments free : simpl never.
Arguments malloc : simpl never.
Arguments store : simpl never.
Arguments remove_key : simpl never.
Arguments lookup : simpl never.
Arguments is_live : simpl never.
Arguments N.sub : simpl never.
Arguments N.add : simpl never.

Lemma addr_eqb_refl a : addr_eqb a a = true.
Proof. destruct a; simpl; apply Nat.eqb_refl. Qed.
Lemma addr_eqb_eq a b : addr_eqb a b = true <-> a = b.
Proof. destruct a, b; simpl; rewrite ?Nat.eqb_eq; split; intros H; try discriminate; congruence. Qed.

(** the invariant depends on [x] only through the counts *)
Lemma pinv_change x y s :
  (forall d, cnt (hp y d) 0 (objs s) = cnt (hp x d) 0 (objs s)) ->
  (forall d, cnt (wp y d) 0 (objs s) = cnt (wp x d) 0 (objs s)) ->
  pinv x s -> pinv y s.
Proof.
  intros Hh Hw []. constructor; auto; intros; rewrite ?Hh, ?Hw; eauto.
Qed.

(** object [i] with its pointer cleared / set, everything else kept *)
Definition null_obj (i : nat) (o : obj) : obj :=
  mkO (okind o) (mkG (ASlot i) None) (oclr o) (ooff o) (olen o).
Definition ptr_obj (i : nat) (o : obj) (p : option nat) : obj :=
  mkO (okind o) (mkG (ASlot i) p) (oclr o) (ooff o) (olen o).

Lemma tgt_ptr_obj i o p : tgt i (ptr_obj i o p) = p.
Proof. unfold tgt, wf_obj, ptr_obj. cbn. rewrite Nat.eqb_refl. reflexivity. Qed.

Lemma ek_other x i j o : (x = None \/ x = Some i) -> i <> j -> ek x j o = okind o.
Proof. intros [->| ->] N; simpl; auto. destruct (Nat.eqb_spec i j); congruence. Qed.

Lemma cnt_agree_off p q i0 l i o :
  nth_error l i = Some o -> (forall j o', j <> (i0 + i)%nat -> p j o' = q j o') ->
  cnt p i0 l + b2n (q (i0 + i)%nat o) = cnt q i0 l + b2n (p (i0 + i)%nat o).
Proof.
  revert i0 i. induction l as [|y r IH]; intros i0 [|i] E H; cbn [nth_error cnt] in *; try discriminate.
  - injection E as ->. rewrite Nat.add_0_r in *.
    rewrite (cnt_ext p q (S i0) r); [lia|]. intros j o' _. apply H. lia.
  - rewrite <- Nat.add_succ_comm in *. specialize (IH (S i0) i E H).
    rewrite (H i0 y) by lia. lia.
Qed.

Lemma cnt_upd2 p q i0 l i x o :
  nth_error l i = Some o -> (forall j o', j <> (i0 + i)%nat -> p j o' = q j o') ->
  cnt p i0 (upd l i x) + b2n (q (i0 + i)%nat o) = cnt q i0 l + b2n (p (i0 + i)%nat x).
Proof.
  intros E H. pose proof (cnt_upd p i0 l i x o E). pose proof (cnt_agree_off p q i0 l i o E H). lia.
Qed.

(** counts after replacing object [i] (effective kind taken from [x] before,
    plain kind after) *)
Lemma cnt_hp_set x l i o p d :
  (x = None \/ x = Some i) -> nth_error l i = Some o ->
  cnt (hp None d) 0 (upd l i (ptr_obj i o p)) + b2n (hp x d i o) =
  cnt (hp x d) 0 l + b2n (ownerk (okind o) && opt_is p d).
Proof.
  intros X E.
  pose proof (cnt_upd2 (hp None d) (hp x d) 0 l i (ptr_obj i o p) o E) as C. cbn [Nat.add] in C.
  rewrite C.
  - do 2 f_equal. unfold hp. rewrite tgt_ptr_obj. reflexivity.
  - intros j o' N. unfold hp. rewrite (ek_other x i j) by auto. reflexivity.
Qed.

Lemma cnt_wp_set x l i o p d :
  (x = None \/ x = Some i) -> nth_error l i = Some o ->
  cnt (wp None d) 0 (upd l i (ptr_obj i o p)) + b2n (wp x d i o) =
  cnt (wp x d) 0 l + b2n (kind_eqb (okind o) KW && opt_is p d).
Proof.
  intros X E.
  pose proof (cnt_upd2 (wp None d) (wp x d) 0 l i (ptr_obj i o p) o E) as C. cbn [Nat.add] in C.
  rewrite C.
  - do 2 f_equal. unfold wp. rewrite tgt_ptr_obj. reflexivity.
  - intros j o' N. unfold wp. rewrite (ek_other x i j) by auto. reflexivity.
Qed.

Lemma cnt_upr_set l i o p c m :
  nth_error l i = Some o ->
  cnt (upr m) 0 (upd l i (mkO (okind o) (mkG (ASlot i) p) c (ooff o) (olen o))) + b2n (upr m i o) =
  cnt (upr m) 0 l + b2n (kind_eqb (okind o) KU && opt_is p m).
Proof.
  intros E. rewrite (cnt_upd (upr m) 0 l i _ o E). cbn [Nat.add].
  do 2 f_equal. unfold upr, tgt, wf_obj. cbn. rewrite Nat.eqb_refl. reflexivity.
Qed.

Lemma hp_weak x d i o : ek x i o = KW -> hp x d i o = false.
Proof. unfold hp. intros ->. reflexivity. Qed.
Lemma wp_weak x d i o d0 : ek x i o = KW -> tgt i o = Some d0 -> wp x d i o = Nat.eqb d0 d.
Proof. unfold wp. intros -> ->. reflexivity. Qed.

Ltac eqb_cases :=
  repeat match goal with
  | H : context [Nat.eqb ?a ?b] |- _ => destruct (Nat.eqb_spec a b); try subst; try discriminate; try congruence
  | |- context [Nat.eqb ?a ?b] => destruct (Nat.eqb_spec a b); try subst; try discriminate; try congruence
  end.

Lemma upd_same {A} (l : list A) i x : nth_error l i = Some x -> upd l i x = l.
Proof. revert i; induction l as [|y r IH]; intros [|i] E; simpl in *; try congruence. f_equal; auto. Qed.

Lemma ptr_obj_same i o : wf_obj i o = true -> ptr_obj i o (gp (ogp o)) = o.
Proof.
  unfold wf_obj. intros W. apply addr_eqb_eq in W. destruct o as [k [sf p] c of ln]. cbn in *. subst. reflexivity.
Qed.

Lemma tgt_none_hp x y d i o : tgt i o = None -> hp x d i o = hp y d i o.
Proof. unfold hp. intros ->. cbn. rewrite !andb_false_r. reflexivity. Qed.
Lemma tgt_none_wp x y d i o : tgt i o = None -> wp x d i o = wp y d i o.
Proof. unfold wp. intros ->. cbn. rewrite !andb_false_r. reflexivity. Qed.

(** an object without target does not care about its effective kind *)
Lemma pinv_forget s i o :
  pinv (Some i) s -> nth_error (objs s) i = Some o -> tgt i o = None -> inv s.
Proof.
  intros I E T. apply (pinv_change (Some i) None); auto; intros d; apply cnt_ext; intros j o' E'; cbn [Nat.add].
  - destruct (Nat.eq_dec i j) as [<-|N]; [rewrite E in E'; injection E' as <-; apply tgt_none_hp; auto|].
    unfold hp. rewrite (ek_other (Some i) i j); auto.
  - destruct (Nat.eq_dec i j) as [<-|N]; [rewrite E in E'; injection E' as <-; apply tgt_none_wp; auto|].
    unfold wp. rewrite (ek_other (Some i) i j); auto.
Qed.

Lemma weak_reset_spec x s i o :
  pinv x s -> (x = None \/ x = Some i) ->
  nth_error (objs s) i = Some o -> ek x i o = KW -> okind o <> KU -> wf_obj i o = true ->
  exists s', weak_reset s i = Ok s' /\ inv s' /\ objs s' = upd (objs s) i (ptr_obj i o None).
Proof.
  intros I X E K NU W. unfold weak_reset, rd_gp. rewrite E. cbn [bind].
  unfold gget. unfold wf_obj in W. rewrite W. cbn [bind].
  assert (T : tgt i o = gp (ogp o)) by (unfold tgt, wf_obj; rewrite W; auto).
  destruct (gp (ogp o)) as [d|] eqn:P.
  2:{ exists s. split; auto. split.
      - destruct X as [->| ->]; auto. eapply pinv_forget; eauto.
      - rewrite <- P, ptr_obj_same, upd_same; auto. }
  unfold wr_gp. rewrite E. unfold rd_data. cbn [datas set_objs].
  assert (WW : forall d', cnt (wp None d') 0 (upd (objs s) i (ptr_obj i o None)) + b2n (Nat.eqb d d') = cnt (wp x d') 0 (objs s)).
  { intros d'. pose proof (cnt_wp_set x _ i o None d' X E) as Q. rewrite (wp_weak x d' i o d) in Q by auto.
    cbn [opt_is] in Q. rewrite andb_false_r in Q. cbn [b2n] in Q. lia. }
  destruct (lookup d (datas s)) as [D|] eqn:L.
  2:{ exfalso. destruct (inv_nodata _ _ I d L) as (_ & Z). specialize (WW d). rewrite Nat.eqb_refl in WW. cbn [b2n] in WW. lia. }
  cbn [bind].
  fold (null_obj i o). change (null_obj i o) with (ptr_obj i o None).
  assert (HH : forall d', cnt (hp None d') 0 (upd (objs s) i (ptr_obj i o None)) = cnt (hp x d') 0 (objs s)).
  { intros d'. pose proof (cnt_hp_set x _ i o None d' X E) as Q. rewrite hp_weak in Q by auto.
    cbn [opt_is] in Q. rewrite andb_false_r in Q. cbn [b2n] in Q. lia. }
  assert (UU : forall m, cnt (upr m) 0 (upd (objs s) i (ptr_obj i o None)) = cnt (upr m) 0 (objs s)).
  { intros m. apply cnt_upd_same with (o := o); auto. cbn [Nat.add].
    unfold upr. cbn [okind ptr_obj]. destruct (okind o); try congruence; reflexivity. }
  pose proof (inv_live _ _ I d D L) as Dl.
  pose proof (inv_hard _ _ I d D L) as Dh.
  pose proof (inv_soft _ _ I d D L) as Ds.
  pose proof (inv_pos _ _ I d D L) as Dp.
  assert (Wd : 1 <= cnt (wp x d) 0 (objs s)).
  { specialize (WW d). rewrite Nat.eqb_refl in WW. cbn [b2n] in WW. lia. }
  assert (NTH : forall j o', nth_error (upd (objs s) i (ptr_obj i o None)) j = Some o' ->
                 (j = i /\ o' = ptr_obj i o None) \/ (j <> i /\ nth_error (objs s) j = Some o')).
  { intros j o' E'. rewrite nth_error_upd in E'. destruct (Nat.eqb_spec i j) as [->|N].
    - destruct (Nat.ltb j (length (objs s))); [|discriminate]. left. split; congruence.
    - right. auto. }
  destruct I as [Lg Il Ih Is Ip Ig Iz Im In Iu Edd Edu Euu Nl].
  destruct (N.eqb_spec (soft D) 1) as [S1|S1].
  - (* last reference: the bookkeeping block goes *)
    eexists. split; [reflexivity|]. split; [|reflexivity].
    unfold do_free, wr_data, set_datas, set_objs. cbn [al objs datas descs exts log]. rewrite Dl.
    assert (H0 : hard D = 0) by lia.
    constructor; cbn [al objs datas descs exts log].
    + apply linv_free; auto.
    + intros d' D' L'. rewrite lookup_remove, lookup_store in L'. rewrite is_live_free by auto.
      eqb_cases. rewrite (Il _ _ L'). destruct (Nat.eqb_spec d d'); auto; congruence.
    + intros d' D' L'. rewrite lookup_remove, lookup_store in L'. eqb_cases. rewrite HH; eauto.
    + intros d' D' L'. rewrite lookup_remove, lookup_store in L'. specialize (WW d'). eqb_cases.
      rewrite HH. cbn [b2n] in WW. rewrite (Is _ _ L'). lia.
    + intros d' D' L'. rewrite lookup_remove, lookup_store in L'. eqb_cases. eauto.
    + intros d' D' L'. rewrite lookup_remove, lookup_store in L'. eqb_cases. eauto.
    + intros d' D' L'. rewrite lookup_remove, lookup_store in L'. eqb_cases. eauto.
    + intros d' D' L' Hp. rewrite lookup_remove, lookup_store in L'. eqb_cases.
      destruct (Im _ _ L' Hp) as (m & M1 & M2 & M3). exists m. rewrite is_live_free by auto.
      rewrite lookup_remove, lookup_store. eqb_cases. simpl. auto.
    + intros d' L'. rewrite lookup_remove, lookup_store in L'. rewrite HH. specialize (WW d').
      destruct (Nat.eqb_spec d d') as [->|N].
      * cbn [b2n] in WW. lia.
      * cbn [b2n] in WW. destruct (In d' L'). lia.
    + intros j o' E' KU Wf. destruct (NTH _ _ E') as [(-> & ->)|(N & E'')].
      * cbn in KU. congruence.
      * specialize (Iu _ _ E'' KU Wf). destruct (gp (ogp o')) as [m|]; auto.
        rewrite is_live_free, lookup_remove, lookup_store by auto. destruct Iu as (U1 & U2).
        eqb_cases. simpl. auto.
    + intros d1 d2 D1 D2 m L1 L2. rewrite lookup_remove, lookup_store in L1, L2. eqb_cases. eauto.
    + intros d' D' m L'. rewrite lookup_remove, lookup_store in L'. eqb_cases. rewrite UU. eauto.
    + intros m. rewrite UU. auto.
    + intros b Lb. rewrite is_live_free in Lb by auto. rewrite UU.
      destruct (Nat.eqb_spec d b) as [->|N]; [discriminate|]. simpl in Lb.
      destruct (Nl b Lb) as [H|[(d' & D' & L' & M')|H]]; auto.
      * left. rewrite lookup_remove, lookup_store. eqb_cases.
      * right. left. exists d', D'. rewrite lookup_remove, lookup_store. 
        destruct (Nat.eqb_spec d d') as [->|N']; auto.
        exfalso. assert (D' = D) by congruence. subst D'. rewrite (Iz _ _ L H0) in M'. discriminate.
  - eexists. split; [reflexivity|]. split; [|reflexivity].
    unfold wr_data, set_datas, set_objs. cbn [al objs datas descs exts log].
    constructor; cbn [al objs datas descs exts log]; auto.
    + intros d' D' L'. rewrite lookup_store in L'. eqb_cases; eauto.
    + intros d' D' L'. rewrite lookup_store in L'. rewrite HH. destruct (Nat.eqb_spec d d') as [->|N]; eauto.
      injection L' as <-. auto.
    + intros d' D' L'. rewrite lookup_store in L'. rewrite HH. specialize (WW d').
      destruct (Nat.eqb_spec d d') as [->|N]; cbn [b2n] in WW.
      * injection L' as <-. cbn [soft]. lia.
      * rewrite (Is _ _ L'). lia.
    + intros d' D' L'. rewrite lookup_store in L'. destruct (Nat.eqb_spec d d') as [->|N]; eauto.
      injection L' as <-. cbn [soft]. lia.
    + intros d' D' L'. rewrite lookup_store in L'. destruct (Nat.eqb_spec d d') as [->|N]; eauto.
      injection L' as <-. cbn. eauto.
    + intros d' D' L'. rewrite lookup_store in L'. destruct (Nat.eqb_spec d d') as [->|N]; eauto.
      injection L' as <-. cbn. eauto.
    + intros d' D' L' Hp. rewrite lookup_store in L'.
      assert (exists m, gp (ugp (dup D')) = Some m /\ is_live (al s) m = true /\ lookup m (datas s) = None) as (m & M1 & M2 & M3).
      { destruct (Nat.eqb_spec d d') as [->|N]; eauto. injection L' as <-. cbn in *. eauto. }
      exists m. rewrite lookup_store. repeat split; auto. eqb_cases.
    + intros d' L'. rewrite lookup_store in L'. rewrite HH. specialize (WW d').
      destruct (Nat.eqb_spec d d') as [->|N]; [discriminate|]. cbn [b2n] in WW. destruct (In d' L'). lia.
    + intros j o' E' KU Wf. destruct (NTH _ _ E') as [(-> & ->)|(N & E'')].
      * cbn in KU. congruence.
      * specialize (Iu _ _ E'' KU Wf). destruct (gp (ogp o')) as [m|]; auto.
        rewrite lookup_store. destruct Iu as (U1 & U2). eqb_cases. auto.
    + intros d1 d2 D1 D2 m L1 L2. rewrite lookup_store in L1, L2.
      destruct (Nat.eqb_spec d d1) as [<-|N1]; destruct (Nat.eqb_spec d d2) as [<-|N2]; auto.
      * injection L1 as <-. cbn. intros. eapply Edd; eauto.
      * injection L2 as <-. cbn. intros. eapply Edd; eauto.
      * eauto.
    + intros d' D' m L'. rewrite lookup_store in L'. rewrite UU.
      destruct (Nat.eqb_spec d d') as [->|N]; eauto. injection L' as <-. cbn. eauto.
    + intros m. rewrite UU. auto.
    + intros b Lb. rewrite UU.
      destruct (Nl b Lb) as [H|[(d' & D' & L' & M')|H]]; auto.
      * left. rewrite lookup_store. eqb_cases.
      * right. left. destruct (Nat.eqb_spec d d') as [->|N'].
        -- exists d'. eexists. rewrite lookup_store, Nat.eqb_refl. split; [reflexivity|]. cbn. congruence.
        -- exists d', D'. rewrite lookup_store. destruct (Nat.eqb_spec d d'); [congruence|auto].
Qed.

(** the invariant only looks at [datas] through [lookup], at the allocator
    through [is_live] and [linv] *)
Lemma pinv_ext x s al' datas' descs' log' :
  pinv x s -> linv al' log' ->
  (forall b, is_live al' b = is_live (al s) b) ->
  (forall d, lookup d datas' = lookup d (datas s)) ->
  pinv x (mkSt al' (objs s) datas' descs' (exts s) log').
Proof.
  intros [Lg Il Ih Is Ip Ig Iz Im In Iu Edd Edu Euu Nl] LI AL DL.
  constructor; cbn [al objs datas descs exts log]; auto.
  - intros d D. rewrite DL, AL. eauto.
  - intros d D. rewrite DL. eauto.
  - intros d D. rewrite DL. eauto.
  - intros d D. rewrite DL. eauto.
  - intros d D. rewrite DL. eauto.
  - intros d D. rewrite DL. eauto.
  - intros d D. rewrite DL. intros L Hp. destruct (Im _ _ L Hp) as (m & M1 & M2 & M3). exists m.
    rewrite DL, AL. auto.
  - intros d. rewrite DL. eauto.
  - intros i o E K W. specialize (Iu i o E K W). destruct (gp (ogp o)); auto. rewrite DL, AL. auto.
  - intros d1 d2 D1 D2 m. rewrite !DL. eauto.
  - intros d D m. rewrite DL. eauto.
  - intros b. rewrite AL, DL. intros L. destruct (Nl b L) as [H|[(d & D & L' & M)|H]]; auto.
    right. left. exists d, D. rewrite DL. auto.
Qed.

(** replacing the object list by one with the same counts *)
Lemma pinv_same_counts x y s objs' :
  pinv x s ->
  (forall d, cnt (hp y d) 0 objs' = cnt (hp x d) 0 (objs s)) ->
  (forall d, cnt (wp y d) 0 objs' = cnt (wp x d) 0 (objs s)) ->
  (forall m, cnt (upr m) 0 objs' = cnt (upr m) 0 (objs s)) ->
  (forall i o, nth_error objs' i = Some o -> okind o = KU -> wf_obj i o = true ->
     match gp (ogp o) with
     | Some m => 0 < cnt (upr m) 0 objs'
     | None => oclr o = None
     end) ->
  pinv y (set_objs s objs').
Proof.
  intros I Hh Hw Hu HU.
  assert (UL : forall m, 0 < cnt (upr m) 0 (objs s) -> is_live (al s) m = true /\ lookup m (datas s) = None).
  { intros m P. apply cnt_pos in P. destruct P as (j & o & E & U). cbn [Nat.add] in U.
    unfold upr in U. apply andb_prop in U. destruct U as (K & T).
    assert (okind o = KU) as K' by (destruct (okind o); try discriminate; auto).
    unfold tgt in T. destruct (wf_obj j o) eqn:W; [|discriminate].
    pose proof (inv_uniq _ _ I j o E K' W) as Q. destruct (gp (ogp o)) as [m'|]; [|discriminate].
    cbn in T. apply Nat.eqb_eq in T. subst. auto. }
  destruct I as [Lg Il Ih Is Ip Ig Iz Im In Iu Edd Edu Euu Nl].
  constructor; unfold set_objs; cbn [al objs datas descs exts log]; auto.
  - intros d D L. rewrite Hh. eauto.
  - intros d D L. rewrite Hh, Hw. eauto.
  - intros d L. rewrite Hh, Hw. eauto.
  - intros i o E K W. specialize (HU i o E K W). destruct (gp (ogp o)) as [m|]; auto.
    rewrite Hu in HU. auto.
  - intros d D m L M. rewrite Hu. eauto.
  - intros m. rewrite Hu. auto.
  - intros b L. rewrite Hu. auto.
Qed.

Lemma upr_live x s m :
  pinv x s -> 0 < cnt (upr m) 0 (objs s) -> is_live (al s) m = true /\ lookup m (datas s) = None.
Proof.
  intros I P. apply cnt_pos in P. destruct P as (j & o & E & U). cbn [Nat.add] in U.
  unfold upr in U. apply andb_prop in U. destruct U as (K & T).
  assert (okind o = KU) as K' by (destruct (okind o); try discriminate; auto).
  unfold tgt in T. destruct (wf_obj j o) eqn:W; [|discriminate].
  pose proof (inv_uniq _ _ I j o E K' W) as Q. destruct (gp (ogp o)) as [m'|]; [|discriminate].
  cbn in T. apply Nat.eqb_eq in T. subst. auto.
Qed.

(** the counters of one bookkeeping block and the object list change
    together; everything else is kept *)
Lemma pinv_retarget x y s objs' d D h' :
  pinv x s -> lookup d (datas s) = Some D ->
  h' = cnt (hp y d) 0 objs' ->
  0 < h' + cnt (wp y d) 0 objs' ->
  (h' = 0 -> hard D = 0) -> (0 < h' -> 0 < hard D) ->
  (forall d', d' <> d -> cnt (hp y d') 0 objs' = cnt (hp x d') 0 (objs s)) ->
  (forall d', d' <> d -> cnt (wp y d') 0 objs' = cnt (wp x d') 0 (objs s)) ->
  (forall m, cnt (upr m) 0 objs' = cnt (upr m) 0 (objs s)) ->
  (forall i o, nth_error objs' i = Some o -> okind o = KU -> wf_obj i o = true ->
     match gp (ogp o) with
     | Some m => 0 < cnt (upr m) 0 objs'
     | None => oclr o = None
     end) ->
  pinv y (mkSt (al s) objs' (store d (mkD h' (h' + cnt (wp y d) 0 objs') (dup D)) (datas s))
               (descs s) (exts s) (log s)).
Proof.
  intros I L Hh Pos H0 H1 Oh Ow Hu HU.
  pose proof (upr_live x s) as UL. specialize (fun m => UL m I).
  destruct I as [Lg Il Ih Is Ip Ig Iz Im In Iu Edd Edu Euu Nl].
  constructor; cbn [al objs datas descs exts log]; auto.
  - intros d' D' L'. rewrite lookup_store in L'. eqb_cases; eauto.
  - intros d' D' L'. rewrite lookup_store in L'. destruct (Nat.eqb_spec d d') as [->|N].
    + injection L' as <-. auto.
    + rewrite Oh by auto. eauto.
  - intros d' D' L'. rewrite lookup_store in L'. destruct (Nat.eqb_spec d d') as [->|N].
    + injection L' as <-. cbn. rewrite <- Hh. auto.
    + rewrite Oh, Ow by auto. eauto.
  - intros d' D' L'. rewrite lookup_store in L'. destruct (Nat.eqb_spec d d') as [->|N]; eauto.
    injection L' as <-. auto.
  - intros d' D' L'. rewrite lookup_store in L'. destruct (Nat.eqb_spec d d') as [->|N]; eauto.
    injection L' as <-. cbn. eauto.
  - intros d' D' L'. rewrite lookup_store in L'. destruct (Nat.eqb_spec d d') as [->|N]; eauto.
    injection L' as <-. cbn. eauto.
  - intros d' D' L' Hp. rewrite lookup_store in L'.
    assert (exists m, gp (ugp (dup D')) = Some m /\ is_live (al s) m = true /\ lookup m (datas s) = None) as (m & M1 & M2 & M3).
    { destruct (Nat.eqb_spec d d') as [->|N]; eauto. injection L' as <-. cbn in *. eauto. }
    exists m. rewrite lookup_store. repeat split; auto. eqb_cases.
  - intros d' L'. rewrite lookup_store in L'.
    destruct (Nat.eqb_spec d d') as [->|N]; [discriminate|]. rewrite Oh, Ow by auto. eauto.
  - intros j o' E' KU Wf. specialize (HU j o' E' KU Wf). destruct (gp (ogp o')) as [m|]; auto.
    rewrite Hu in HU. destruct (UL m HU) as (U1 & U2). rewrite lookup_store. eqb_cases. auto.
  - intros d1 d2 D1 D2 m L1 L2. rewrite lookup_store in L1, L2.
    assert (X1 : exists D1', lookup d1 (datas s) = Some D1' /\ dup D1' = dup D1).
    { destruct (Nat.eqb_spec d d1) as [->|]; [injection L1 as <-; cbn; eauto | eauto]. }
    assert (X2 : exists D2', lookup d2 (datas s) = Some D2' /\ dup D2' = dup D2).
    { destruct (Nat.eqb_spec d d2) as [->|]; [injection L2 as <-; cbn; eauto | eauto]. }
    destruct X1 as (D1' & X1 & <-). destruct X2 as (D2' & X2 & <-). eauto.
  - intros d' D' m L'. rewrite lookup_store in L'. rewrite Hu.
    destruct (Nat.eqb_spec d d') as [->|N]; eauto. injection L' as <-. cbn. eauto.
  - intros m. rewrite Hu. auto.
  - intros b Lb. rewrite Hu.
    destruct (Nl b Lb) as [H|[(d' & D' & L' & M')|H]]; auto.
    + left. rewrite lookup_store. eqb_cases.
    + right. left. destruct (Nat.eqb_spec d d') as [->|N'].
      * exists d'. eexists. rewrite lookup_store, Nat.eqb_refl. split; [reflexivity|]. cbn. congruence.
      * exists d', D'. rewrite lookup_store. destruct (Nat.eqb_spec d d'); [congruence|auto].
Qed.

Lemma cnt_demote l i o d d' :
  nth_error l i = Some o -> ownerk (okind o) = true -> tgt i o = Some d ->
  cnt (hp (Some i) d') 0 l + b2n (Nat.eqb d d') = cnt (hp None d') 0 l /\
  cnt (wp (Some i) d') 0 l = cnt (wp None d') 0 l + b2n (Nat.eqb d d').
Proof.
  intros E K T. split.
  - pose proof (cnt_agree_off (hp (Some i) d') (hp None d') 0 l i o E) as C. cbn [Nat.add] in C.
    assert (hp None d' i o = Nat.eqb d d') as Z.
    { unfold hp. cbn [ek]. rewrite K, T. reflexivity. }
    assert (hp (Some i) d' i o = false) as Z'.
    { unfold hp. cbn [ek]. rewrite Nat.eqb_refl. reflexivity. }
    rewrite Z, Z' in C. cbn [b2n] in C. rewrite C; [lia|].
    intros j o' N. unfold hp. rewrite (ek_other (Some i) i j); auto.
  - pose proof (cnt_agree_off (wp (Some i) d') (wp None d') 0 l i o E) as C. cbn [Nat.add] in C.
    assert (wp None d' i o = false) as Z.
    { unfold wp. cbn [ek]. destruct (okind o); try discriminate; reflexivity. }
    assert (wp (Some i) d' i o = Nat.eqb d d') as Z'.
    { unfold wp. cbn [ek]. rewrite Nat.eqb_refl, T. reflexivity. }
    rewrite Z, Z' in C. cbn [b2n] in C. rewrite <- C; [lia|].
    intros j o' N. unfold wp. rewrite (ek_other (Some i) i j); auto.
Qed.

Definition clear_evs (m : nat) (c : option nat) : list mev :=
  match c with Some t => [MClear (Some m) t] | None => [] end.

Lemma linv_destroy a l m c :
  linv a l -> is_live a m = true -> linv (free a (Some m)) (MA (EvFree m) :: clear_evs m c ++ l).
Proof. intros. destruct c; simpl; [apply linv_clear_free|apply linv_free]; auto. Qed.

(** the last owner gives up the memory: owner count 0, callback, release,
    embedded unique pointer re-initialised *)
Lemma pinv_last_owner s i o d D m descs' :
  inv s -> nth_error (objs s) i = Some o -> ownerk (okind o) = true -> tgt i o = Some d ->
  lookup d (datas s) = Some D -> hard D = 1 -> gp (ugp (dup D)) = Some m ->
  pinv (Some i) (mkSt (free (al s) (Some m)) (objs s) (store d (mkD 0 (soft D) (up_init d)) (datas s))
                      descs' (exts s) (MA (EvFree m) :: clear_evs m (uclr (dup D)) ++ log s)).
Proof.
  intros I E K T L H1 M.
  pose proof (fun d' => cnt_demote (objs s) i o d d' E K T) as DM.
  destruct (inv_mem _ _ I d D L ltac:(lia)) as (m0 & M0 & Ml & Mn). assert (m0 = m) by congruence. subst m0.
  pose proof (inv_hard _ _ I d D L) as Dh. pose proof (inv_soft _ _ I d D L) as Ds.
  pose proof (inv_pos _ _ I d D L) as Dp.
  pose proof (upr_live None s) as UL. specialize (fun m => UL m I).
  destruct I as [Lg Il Ih Is Ip Ig Iz Im In Iu Edd Edu Euu Nl].
  assert (Um : cnt (upr m) 0 (objs s) = 0) by eauto.
  constructor; cbn [al objs datas descs exts log].
  - apply linv_destroy; auto.
  - intros d' D' L'. rewrite lookup_store in L'. rewrite is_live_free by auto.
    destruct (Nat.eqb_spec m d') as [->|N]; simpl.
    + destruct (Nat.eqb_spec d d'); congruence.
    + destruct (Nat.eqb_spec d d') as [->|N']; eauto.
  - intros d' D' L'. rewrite lookup_store in L'. destruct (DM d') as (DM1 & DM2).
    destruct (Nat.eqb_spec d d') as [->|N]; cbn [b2n] in *.
    + injection L' as <-. cbn. lia.
    + rewrite (Ih _ _ L'). lia.
  - intros d' D' L'. rewrite lookup_store in L'. destruct (DM d') as (DM1 & DM2).
    destruct (Nat.eqb_spec d d') as [->|N]; cbn [b2n] in *.
    + injection L' as <-. cbn. lia.
    + rewrite (Is _ _ L'). lia.
  - intros d' D' L'. rewrite lookup_store in L'. destruct (Nat.eqb_spec d d') as [->|N]; eauto.
    injection L' as <-. auto.
  - intros d' D' L'. rewrite lookup_store in L'. destruct (Nat.eqb_spec d d') as [->|N]; eauto.
    injection L' as <-. reflexivity.
  - intros d' D' L'. rewrite lookup_store in L'. destruct (Nat.eqb_spec d d') as [->|N]; eauto.
    injection L' as <-. reflexivity.
  - intros d' D' L' Hp. rewrite lookup_store in L'. destruct (Nat.eqb_spec d d') as [->|N].
    + injection L' as <-. cbn in Hp. lia.
    + destruct (Im _ _ L' Hp) as (m' & M1 & M2 & M3). exists m'. rewrite is_live_free by auto.
      rewrite lookup_store. split; auto. split.
      * destruct (Nat.eqb_spec m m') as [->|]; auto. exfalso. apply N. eapply Edd; eauto.
      * destruct (Nat.eqb_spec d m'); congruence.
  - intros d' L'. rewrite lookup_store in L'. destruct (DM d') as (DM1 & DM2).
    destruct (Nat.eqb_spec d d') as [->|N]; [discriminate|]. cbn [b2n] in *. destruct (In d' L'). lia.
  - intros j o' E' KU Wf. specialize (Iu _ _ E' KU Wf). destruct (gp (ogp o')) as [m'|] eqn:G; auto.
    destruct Iu as (U1 & U2). rewrite is_live_free, lookup_store by auto. split.
    + destruct (Nat.eqb_spec m m') as [->|]; auto. exfalso.
      assert (1 <= cnt (upr m') 0 (objs s)); [|lia].
      apply (cnt_ge _ 0 _ j o' E'). cbn [Nat.add]. unfold upr, tgt. rewrite KU, Wf, G. cbn. apply Nat.eqb_refl.
    + destruct (Nat.eqb_spec d m'); congruence.
  - intros d1 d2 D1 D2 m' L1 L2. rewrite lookup_store in L1, L2.
    destruct (Nat.eqb_spec d d1) as [->|N1]; [injection L1 as <-; cbn; discriminate|].
    destruct (Nat.eqb_spec d d2) as [->|N2]; [injection L2 as <-; cbn; discriminate|]. eauto.
  - intros d' D' m' L'. rewrite lookup_store in L'.
    destruct (Nat.eqb_spec d d') as [->|N]; [injection L' as <-; cbn; discriminate|]. eauto.
  - auto.
  - intros b Lb. rewrite is_live_free in Lb by auto. destruct (Nat.eqb_spec m b) as [->|N]; [discriminate|].
    simpl in Lb. destruct (Nl b Lb) as [H|[(d' & D' & L' & M')|H]]; auto.
    + left. rewrite lookup_store. destruct (Nat.eqb_spec d b); congruence.
    + right. left. exists d', D'. rewrite lookup_store. destruct (Nat.eqb_spec d d') as [->|]; auto.
      exfalso. assert (D' = D) by congruence. subst. congruence.
Qed.

Lemma tgt_wf i o d : tgt i o = Some d -> wf_obj i o = true /\ gp (ogp o) = Some d.
Proof. unfold tgt. destruct (wf_obj i o); [auto|discriminate]. Qed.

Lemma owner_data x s i o d :
  pinv x s -> nth_error (objs s) i = Some o -> ownerk (ek x i o) = true -> tgt i o = Some d ->
  exists D, lookup d (datas s) = Some D /\ 0 < hard D.
Proof.
  intros I E K T. assert (1 <= cnt (hp x d) 0 (objs s)).
  { apply (cnt_ge _ 0 _ i o E). cbn [Nat.add]. unfold hp. rewrite K, T. cbn. apply Nat.eqb_refl. }
  destruct (lookup d (datas s)) as [D|] eqn:L.
  - exists D. split; auto. rewrite (inv_hard _ _ I d D L). lia.
  - destruct (inv_nodata _ _ I d L). lia.
Qed.

Lemma unique_reset_data_some s d D m :
  lookup d (datas s) = Some D -> gself (ugp (dup D)) = AData d -> gp (ugp (dup D)) = Some m -> m <> d ->
  unique_reset s (AData d) =
  Ok (mkSt (free (al s) (Some m)) (objs s)
           (store d (mkD (hard D) (soft D) (up_init d)) (remove_key m (datas s)))
           (remove_key m (descs s)) (exts s)
           (MA (if is_live (al s) m then EvFree m else EvBadFree m) :: clear_evs m (uclr (dup D)) ++ log s)).
Proof.
  intros L G M N. unfold unique_reset, rd_up. rewrite L. cbn [bind]. unfold gget. rewrite G, addr_eqb_refl.
  cbn [bind]. rewrite M. unfold unique_init, wr_up, do_free.
  destruct (uclr (dup D)) as [t|]; unfold add_log; cbn [al objs datas descs exts log clear_evs app];
    rewrite lookup_remove, L; (destruct (Nat.eqb_spec m d); [congruence|]); reflexivity.
Qed.

Lemma unique_reset_data_none s d D :
  lookup d (datas s) = Some D -> gself (ugp (dup D)) = AData d -> gp (ugp (dup D)) = None -> uclr (dup D) = None ->
  unique_reset s (AData d) =
  Ok (set_datas s (store d (mkD (hard D) (soft D) (up_init d)) (datas s))).
Proof.
  intros L G M C. unfold unique_reset, rd_up. rewrite L. cbn [bind]. unfold gget. rewrite G, addr_eqb_refl.
  cbn [bind]. rewrite M, C. unfold unique_init, wr_up, do_free. rewrite L. reflexivity.
Qed.

Lemma shared_reset_spec s i o :
  inv s -> nth_error (objs s) i = Some o -> ownerk (okind o) = true -> wf_obj i o = true ->
  exists s', shared_reset s i = Ok s' /\ inv s' /\ objs s' = upd (objs s) i (ptr_obj i o None).
Proof.
  intros I E K W. unfold shared_reset, rd_gp. rewrite E. cbn [bind].
  unfold gget. pose proof W as W'. unfold wf_obj in W'. rewrite W'. cbn [bind].
  assert (T : tgt i o = gp (ogp o)) by (unfold tgt; rewrite W; auto).
  assert (NU : okind o <> KU) by (destruct (okind o); discriminate).
  destruct (gp (ogp o)) as [d|] eqn:P.
  2:{ exists s. split; auto. split; auto. rewrite <- P, ptr_obj_same, upd_same; auto. }
  destruct (owner_data None s i o d I E K T) as (D & L & Hp).
  unfold rd_data. rewrite L. cbn [bind].
  pose proof (fun d' => cnt_demote (objs s) i o d d' E K T) as DM.
  pose proof (inv_hard _ _ I d D L) as Dh. pose proof (inv_soft _ _ I d D L) as Ds.
  destruct (N.eqb_spec (hard D) 1) as [H1|H1].
  - (* last owner *)
    destruct (inv_mem _ _ I d D L Hp) as (m & M & Ml & Mn).
    assert (Nmd : m <> d) by congruence.
    rewrite (unique_reset_data_some _ d (mkD (hard D - 1) (soft D) (dup D)) m).
    2:{ unfold wr_data, set_datas. cbn [datas]. rewrite lookup_store, Nat.eqb_refl. reflexivity. }
    2:{ cbn. apply (inv_self _ _ I d D L). }
    2:{ cbn. auto. }
    2:{ auto. }
    cbn [bind]. unfold wr_data, set_datas. cbn [al objs datas descs exts log hard soft dup]. rewrite Ml.
    match goal with |- exists s', weak_reset ?t i = _ /\ _ => set (s2 := t) end.
    assert (I2 : pinv (Some i) s2).
    { pose proof (pinv_last_owner s i o d D m (remove_key m (descs s)) I E K T L H1 M) as Q.
      apply (pinv_ext _ _ _ _ _ _ Q); cbn [al objs datas descs exts log]; auto.
      + apply Q.
      + intros d'. rewrite !lookup_store, lookup_remove, lookup_store. replace (hard D - 1) with 0 by lia.
        destruct (Nat.eqb_spec d d'); auto. destruct (Nat.eqb_spec m d'); congruence. }
    destruct (weak_reset_spec (Some i) s2 i o I2) as (s' & R & I' & O'); auto.
    + cbn. rewrite Nat.eqb_refl. reflexivity.
    + exists s'. auto.
  - set (s1 := wr_data _ _ _).
    assert (I1 : pinv (Some i) s1).
    { subst s1. unfold wr_data, set_datas.
      pose proof (pinv_retarget None (Some i) s (objs s) d D (hard D - 1) I L) as Q.
      destruct (DM d) as (DM1 & DM2). rewrite Nat.eqb_refl in *. cbn [b2n] in *.
      replace (hard D - 1 + cnt (wp (Some i) d) 0 (objs s)) with (soft D) in Q by lia.
      apply Q; auto; try lia.
      - intros d' N. destruct (DM d') as (DM1' & _). destruct (Nat.eqb_spec d d'); [congruence|]. cbn [b2n] in *. lia.
      - intros d' N. destruct (DM d') as (_ & DM2'). destruct (Nat.eqb_spec d d'); [congruence|]. cbn [b2n] in *. lia.
      - intros j o' E' KU Wf. pose proof (inv_uniq _ _ I j o' E' KU Wf) as U.
        destruct (gp (ogp o')) as [m|] eqn:G; auto.
        assert (1 <= cnt (upr m) 0 (objs s)); [|lia].
        apply (cnt_ge _ 0 _ j o' E'). cbn [Nat.add]. unfold upr, tgt. rewrite KU, Wf, G. cbn. apply Nat.eqb_refl. }
    destruct (weak_reset_spec (Some i) s1 i o I1) as (s' & R & I' & O'); auto.
    + cbn. rewrite Nat.eqb_refl. reflexivity.
    + exists s'. auto.
Qed.

Lemma upr_ge s j o m :
  nth_error (objs s) j = Some o -> okind o = KU -> wf_obj j o = true -> gp (ogp o) = Some m ->
  1 <= cnt (upr m) 0 (objs s).
Proof.
  intros E KU Wf G. apply (cnt_ge _ 0 _ j o E). cbn [Nat.add]. unfold upr, tgt. rewrite KU, Wf, G. cbn. apply Nat.eqb_refl.
Qed.

Lemma uniq_cond s x :
  pinv x s ->
  forall j o, nth_error (objs s) j = Some o -> okind o = KU -> wf_obj j o = true ->
    match gp (ogp o) with Some m => 0 < cnt (upr m) 0 (objs s) | None => oclr o = None end.
Proof.
  intros I j o E KU Wf. pose proof (inv_uniq _ _ I j o E KU Wf) as U.
  destruct (gp (ogp o)) as [m|] eqn:G; auto. pose proof (upr_ge s j o m E KU Wf G). lia.
Qed.

(** unique-object condition after replacing a non-unique object *)
Lemma uniq_cond_upd s x i o o' :
  pinv x s -> nth_error (objs s) i = Some o -> okind o <> KU -> okind o' = okind o ->
  (forall m, cnt (upr m) 0 (upd (objs s) i o') = cnt (upr m) 0 (objs s)) /\
  forall j oj, nth_error (upd (objs s) i o') j = Some oj -> okind oj = KU -> wf_obj j oj = true ->
    match gp (ogp oj) with Some m => 0 < cnt (upr m) 0 (upd (objs s) i o') | None => oclr oj = None end.
Proof.
  intros I E NU K'.
  assert (UU : forall m, cnt (upr m) 0 (upd (objs s) i o') = cnt (upr m) 0 (objs s)).
  { intros m. apply cnt_upd_same with (o := o); auto. cbn [Nat.add]. unfold upr. rewrite K'.
    destruct (okind o); try congruence; reflexivity. }
  split; auto. intros j oj E' KU Wf. rewrite nth_error_upd in E'.
  destruct (Nat.eqb_spec i j) as [->|N].
  - destruct (Nat.ltb j (length (objs s))); [|discriminate]. injection E' as <-. congruence.
  - pose proof (uniq_cond s x I j oj E' KU Wf) as Q. destruct (gp (ogp oj)); auto. rewrite UU. auto.
Qed.

(** a reference is added: owner (shared pointer, array) or weak *)
Lemma pinv_join s n o d D :
  inv s -> nth_error (objs s) n = Some o -> tgt n o = None -> okind o <> KU ->
  lookup d (datas s) = Some D -> (ownerk (okind o) = true -> 0 < hard D) -> okind o <> KG ->
  inv (mkSt (al s) (upd (objs s) n (ptr_obj n o (Some d)))
            (store d (mkD (hard D + b2n (ownerk (okind o))) (soft D + 1) (dup D)) (datas s))
            (descs s) (exts s) (log s)).
Proof.
  intros I E T NU L HP NG.
  pose proof (inv_hard _ _ I d D L) as Dh. pose proof (inv_soft _ _ I d D L) as Ds.
  pose proof (inv_pos _ _ I d D L) as Dp.
  assert (KWk : ownerk (okind o) = false -> kind_eqb (okind o) KW = true) by (destruct (okind o); try discriminate; auto; congruence).
  assert (KO : ownerk (okind o) = true -> kind_eqb (okind o) KW = false) by (destruct (okind o); try discriminate; auto).
  assert (Hn : forall d', hp None d' n o = false) by (intros; unfold hp; rewrite T; cbn; apply andb_false_r).
  assert (Wn : forall d', wp None d' n o = false) by (intros; unfold wp; rewrite T; cbn; apply andb_false_r).
  pose proof (fun d' => cnt_hp_set None (objs s) n o (Some d) d' (or_introl eq_refl) E) as CH.
  pose proof (fun d' => cnt_wp_set None (objs s) n o (Some d) d' (or_introl eq_refl) E) as CW.
  destruct (uniq_cond_upd s None n o (ptr_obj n o (Some d)) I E NU eq_refl) as (UU & UC).
  pose proof (pinv_retarget None None s (upd (objs s) n (ptr_obj n o (Some d))) d D (hard D + b2n (ownerk (okind o))) I L) as Q.
  specialize (CH d) as CHd. specialize (CW d) as CWd. rewrite Hn in CHd. rewrite Wn in CWd.
  cbn [opt_is] in CHd, CWd. rewrite Nat.eqb_refl, andb_true_r in CHd, CWd. cbn [b2n] in CHd, CWd.
  replace (hard D + b2n (ownerk (okind o)) + cnt (wp None d) 0 (upd (objs s) n (ptr_obj n o (Some d)))) with (soft D + 1) in Q.
  2:{ destruct (ownerk (okind o)) eqn:KK; [rewrite KO in CWd by auto|rewrite KWk in CWd by auto]; cbn [b2n] in *; lia. }
  apply Q; auto; try lia.
  - destruct (ownerk (okind o)); cbn [b2n]; [specialize (HP eq_refl)|]; lia.
  - intros d' N. specialize (CH d'). rewrite Hn in CH. cbn [opt_is] in CH.
    destruct (Nat.eqb_spec d d'); [congruence|]. rewrite andb_false_r in CH. cbn [b2n] in CH. lia.
  - intros d' N. specialize (CW d'). rewrite Wn in CW. cbn [opt_is] in CW.
    destruct (Nat.eqb_spec d d'); [congruence|]. rewrite andb_false_r in CW. cbn [b2n] in CW. lia.
Qed.

Lemma upd_upd {A} (l : list A) i x y : upd (upd l i x) i y = upd l i y.
Proof. revert i; induction l as [|z r IH]; intros [|i]; simpl; auto. f_equal; auto. Qed.

Lemma nth_upd_same {A} (l : list A) i x o : nth_error l i = Some o -> nth_error (upd l i x) i = Some x.
Proof. intros E. apply nth_error_upd_same. apply nth_error_Some. congruence. Qed.

Lemma wr_gp_eq s n o p :
  nth_error (objs s) n = Some o -> wr_gp s n (mkG (ASlot n) p) = set_objs s (upd (objs s) n (ptr_obj n o p)).
Proof. intros E. unfold wr_gp. rewrite E. reflexivity. Qed.

Lemma ptr_obj_ptr_obj n o p q : ptr_obj n (ptr_obj n o p) q = ptr_obj n o q.
Proof. reflexivity. Qed.

Lemma set_objs_same s : set_objs s (objs s) = s.
Proof. destruct s; reflexivity. Qed.

Lemma wf_ptr_obj n o p : wf_obj n (ptr_obj n o p) = true.
Proof. unfold wf_obj. cbn. apply Nat.eqb_refl. Qed.

(** after a reset the target [n] is empty; reading the source [e] *)
Lemma src_after_reset (l : list obj) e n oe on :
  nth_error l e = Some oe -> nth_error l n = Some on ->
  nth_error (upd l n (ptr_obj n on None)) e = Some (if Nat.eqb n e then ptr_obj n on None else oe).
Proof.
  intros Ee En. rewrite nth_error_upd. destruct (Nat.eqb_spec n e) as [->|N]; auto.
  assert (e < length l)%nat by (apply nth_error_Some; congruence).
  destruct (Nat.ltb_spec e (length l)); auto; lia.
Qed.

Lemma shared_share_spec s e n oe on :
  inv s -> nth_error (objs s) e = Some oe -> nth_error (objs s) n = Some on ->
  ownerk (okind oe) = true -> ownerk (okind on) = true -> wf_obj e oe = true -> wf_obj n on = true ->
  exists s', shared_share s e n = Ok s' /\ inv s' /\
             objs s' = upd (objs s) n (ptr_obj n on (if Nat.eqb n e then None else gp (ogp oe))).
Proof.
  intros I Ee En Ke Kn We Wn.
  destruct (shared_reset_spec s n on I En Kn Wn) as (s1 & R1 & I1 & O1).
  unfold shared_share. rewrite R1. cbn [bind]. unfold rd_gp.
  pose proof (src_after_reset (objs s) e n oe on Ee En) as E1. rewrite <- O1 in E1. rewrite E1.
  assert (En1 : nth_error (objs s1) n = Some (ptr_obj n on None)).
  { rewrite O1. eapply nth_upd_same; eauto. }
  remember (if Nat.eqb n e then None else gp (ogp oe)) as pe eqn:PE.
  assert (G : gget (ASlot e) (ogp (if Nat.eqb n e then ptr_obj n on None else oe)) = Ok pe).
  { rewrite PE. unfold gget. destruct (Nat.eqb_spec n e) as [->|N].
    - cbn. rewrite Nat.eqb_refl. reflexivity.
    - unfold wf_obj in We. rewrite We. reflexivity. }
  cbn [bind]. rewrite G. cbn [bind].
  rewrite (wr_gp_eq s1 n _ pe En1). rewrite ptr_obj_ptr_obj. unfold set_objs at 1. cbn [objs].
  rewrite nth_upd_same with (o := ptr_obj n on None) by auto. cbn [bind ogp ptr_obj].
  unfold gget. cbn [gself gp]. rewrite addr_eqb_refl. cbn [bind].
  assert (O2 : upd (objs s1) n (ptr_obj n on pe) = upd (objs s) n (ptr_obj n on pe)) by (rewrite O1; apply upd_upd).
  destruct pe as [d|].
  - (* e <> n and e owns d *)
    assert (N : n <> e) by (intros ->; rewrite Nat.eqb_refl in PE; discriminate).
    destruct (Nat.eqb_spec n e); [congruence|].
    assert (Te : tgt e oe = Some d) by (unfold tgt; rewrite We; auto).
    destruct (owner_data None s1 e oe d I1 E1 Ke Te) as (D & L & Hp).
    unfold rd_data, set_objs. cbn [datas]. rewrite L. cbn [bind].
    eexists. split; [reflexivity|]. split.
    + pose proof (pinv_join s1 n (ptr_obj n on None) d D I1 En1) as Q.
      cbn [ptr_obj okind] in Q. rewrite Kn in Q. cbn [b2n] in Q. rewrite ptr_obj_ptr_obj in Q.
      unfold wr_data, set_datas. cbn [al objs datas descs exts log]. apply Q; auto.
      * unfold tgt. rewrite wf_ptr_obj. reflexivity.
      * destruct (okind on); discriminate.
      * destruct (okind on); discriminate.
    + cbn [objs wr_data set_datas]. auto.
  - exists (set_objs s1 (upd (objs s1) n (ptr_obj n on None))). split; [reflexivity|].
    rewrite upd_same by auto. rewrite set_objs_same. split; auto.
Qed.

Lemma weak_data s i o d :
  inv s -> nth_error (objs s) i = Some o -> okind o = KW -> tgt i o = Some d ->
  exists D, lookup d (datas s) = Some D.
Proof.
  intros I E K T. assert (1 <= cnt (wp None d) 0 (objs s)).
  { apply (cnt_ge _ 0 _ i o E). cbn [Nat.add]. unfold wp. cbn [ek]. rewrite K, T. cbn. apply Nat.eqb_refl. }
  destruct (lookup d (datas s)) as [D|] eqn:L; eauto.
  destruct (inv_nodata _ _ I d L). lia.
Qed.

Lemma nth_upd_other {A} (l : list A) i j x : i <> j -> nth_error (upd l i x) j = nth_error l j.
Proof. apply nth_error_upd_other. Qed.

Lemma weak_from_spec s w sp ow os :
  inv s -> nth_error (objs s) w = Some ow -> nth_error (objs s) sp = Some os ->
  okind ow = KW -> ownerk (okind os) = true -> wf_obj w ow = true -> wf_obj sp os = true ->
  exists s', weak_from s w sp = Ok s' /\ inv s' /\ objs s' = upd (objs s) w (ptr_obj w ow (gp (ogp os))).
Proof.
  intros I Ew Es Kw Ks Ww Ws.
  assert (N : w <> sp) by (intros ->; rewrite Ew in Es; injection Es as ->; rewrite Kw in Ks; discriminate).
  destruct (weak_reset_spec None s w ow I (or_introl eq_refl) Ew) as (s1 & R1 & I1 & O1); auto.
  { rewrite Kw. discriminate. }
  unfold weak_from. rewrite R1. cbn [bind]. unfold rd_gp.
  assert (Es1 : nth_error (objs s1) sp = Some os) by (rewrite O1, nth_upd_other; auto).
  assert (Ew1 : nth_error (objs s1) w = Some (ptr_obj w ow None)) by (rewrite O1; eapply nth_upd_same; eauto).
  rewrite Es1. cbn [bind]. unfold gget at 1. pose proof Ws as Ws'. unfold wf_obj in Ws'. rewrite Ws'. cbn [bind].
  rewrite (wr_gp_eq s1 w _ _ Ew1). rewrite ptr_obj_ptr_obj. unfold set_objs at 1. cbn [objs].
  rewrite nth_upd_same with (o := ptr_obj w ow None) by auto. cbn [bind ogp ptr_obj].
  unfold gget. cbn [gself gp]. rewrite addr_eqb_refl. cbn [bind].
  assert (O2 : forall p, upd (objs s1) w (ptr_obj w ow p) = upd (objs s) w (ptr_obj w ow p)) by (intros; rewrite O1; apply upd_upd).
  destruct (gp (ogp os)) as [d|] eqn:PS.
  - assert (Ts : tgt sp os = Some d) by (unfold tgt; rewrite Ws; auto).
    destruct (owner_data None s1 sp os d I1 Es1 Ks Ts) as (D & L & Hp).
    unfold rd_data, set_objs. cbn [datas]. rewrite L. cbn [bind].
    eexists. split; [reflexivity|]. split.
    + pose proof (pinv_join s1 w (ptr_obj w ow None) d D I1 Ew1) as Q.
      cbn [ptr_obj okind] in Q. rewrite Kw in Q. cbn [b2n ownerk] in Q. rewrite N.add_0_r in Q.
      rewrite ptr_obj_ptr_obj in Q.
      unfold wr_data, set_datas. cbn [al objs datas descs exts log]. apply Q; auto; try discriminate.
      unfold tgt. rewrite wf_ptr_obj. reflexivity.
    + cbn [objs wr_data set_datas]. auto.
  - exists (set_objs s1 (upd (objs s1) w (ptr_obj w ow None))). split; [reflexivity|].
    rewrite upd_same by auto. rewrite set_objs_same. split; auto.
Qed.

Lemma sdata_eta D : mkD (hard D) (soft D) (dup D) = D.
Proof. destruct D; reflexivity. Qed.

Lemma weak_lock_spec s w sp ow os :
  inv s -> nth_error (objs s) w = Some ow -> nth_error (objs s) sp = Some os ->
  okind ow = KW -> ownerk (okind os) = true -> wf_obj w ow = true -> wf_obj sp os = true ->
  exists s' s1, weak_lock s w sp = Ok s' /\ inv s' /\
    shared_reset s sp = Ok s1 /\ inv s1 /\ objs s1 = upd (objs s) sp (ptr_obj sp os None) /\
    objs s' = upd (objs s) sp
                (ptr_obj sp os (match gp (ogp ow) with
                                | Some d => if 0 <? cnt (hp None d) 0 (objs s1) then Some d else None
                                | None => None
                                end)).
Proof.
  intros I Ew Es Kw Ks Ww Ws.
  assert (N : sp <> w) by (intros ->; rewrite Ew in Es; injection Es as ->; rewrite Kw in Ks; discriminate).
  destruct (shared_reset_spec s sp os I Es Ks Ws) as (s1 & R1 & I1 & O1).
  unfold weak_lock. rewrite R1. cbn [bind]. unfold rd_gp.
  assert (Ew1 : nth_error (objs s1) w = Some ow) by (rewrite O1, nth_upd_other; auto).
  assert (Es1 : nth_error (objs s1) sp = Some (ptr_obj sp os None)) by (rewrite O1; eapply nth_upd_same; eauto).
  rewrite Ew1. cbn [bind]. unfold gget at 1. pose proof Ww as Ww'. unfold wf_obj in Ww'. rewrite Ww'. cbn [bind].
  rewrite (wr_gp_eq s1 sp _ _ Es1). rewrite ptr_obj_ptr_obj. unfold set_objs at 1. cbn [objs].
  rewrite nth_upd_same with (o := ptr_obj sp os None) by auto. cbn [bind ogp ptr_obj].
  unfold gget. cbn [gself gp]. rewrite addr_eqb_refl. cbn [bind].
  assert (O2 : forall p, upd (objs s1) sp (ptr_obj sp os p) = upd (objs s) sp (ptr_obj sp os p)) by (intros; rewrite O1; apply upd_upd).
  destruct (gp (ogp ow)) as [d|] eqn:PW.
  - assert (Tw : tgt w ow = Some d) by (unfold tgt; rewrite Ww; auto).
    destruct (weak_data s1 w ow d I1 Ew1 Kw Tw) as (D & L).
    unfold rd_data, set_objs. cbn [datas]. rewrite L. cbn [bind].
    unfold wr_data, set_datas. cbn [datas]. rewrite !lookup_store, !Nat.eqb_refl. cbn [bind hard soft dup].
    pose proof (inv_hard _ _ I1 d D L) as HD.
    destruct (N.ltb_spec 0 (hard D)) as [Hp|Hz].
    + eexists. exists s1. split; [reflexivity|]. split; [|split; [auto|split; [auto|split; [auto|]]]].
      * pose proof (pinv_join s1 sp (ptr_obj sp os None) d D I1 Es1) as Q.
        cbn [ptr_obj okind] in Q. rewrite Ks in Q. cbn [b2n] in Q. rewrite ptr_obj_ptr_obj in Q.
        unfold wr_data, set_datas. cbn [al objs datas descs exts log].
        assert (Q' : inv {| al := al s1; objs := upd (objs s1) sp (ptr_obj sp os (Some d));
                            datas := store d {| hard := hard D + 1; soft := soft D + 1; dup := dup D |} (datas s1);
                            descs := descs s1; exts := exts s1; log := log s1 |}).
        { apply Q; auto. - unfold tgt. rewrite wf_ptr_obj. reflexivity. - destruct (okind os); discriminate.
          - destruct (okind os); discriminate. }
        apply (pinv_ext _ _ _ _ _ _ Q'); cbn [al objs datas descs exts log]; auto.
        -- apply Q'.
        -- intros d'. rewrite !lookup_store. destruct (Nat.eqb_spec d d'); auto.
      * cbn [objs wr_data set_datas]. rewrite <- HD. destruct (N.ltb_spec 0 (hard D)); [auto|lia].
    + assert (H0 : hard D = 0) by lia.
      eexists. exists s1. split; [reflexivity|]. split; [|split; [auto|split; [auto|split; [auto|]]]].
      * unfold wr_gp, wr_data, set_datas. cbn [al objs datas descs exts log].
        rewrite nth_upd_same with (o := ptr_obj sp os None) by auto.
        cbn [okind oclr ooff olen ptr_obj]. fold (ptr_obj sp os None). rewrite upd_upd.
        unfold set_objs. cbn [al objs datas descs exts log].
        rewrite (upd_same (objs s1)) by auto.
        pose proof (pinv_ext None s1 (al s1) (store d {| hard := hard D + 1 - 1; soft := soft D; dup := dup D |}
              (store d {| hard := hard D + 1; soft := soft D; dup := dup D |} (datas s1))) (descs s1) (log s1) I1) as Q.
        apply Q; auto.
        -- apply I1.
        -- intros d'. rewrite !lookup_store. destruct (Nat.eqb_spec d d') as [->|]; auto.
           rewrite L. f_equal. replace (hard D + 1 - 1) with (hard D) by lia. apply sdata_eta.
      * unfold wr_gp, wr_data, set_datas. cbn [al objs datas descs exts log].
        rewrite nth_upd_same with (o := ptr_obj sp os None) by auto.
        cbn [okind oclr ooff olen ptr_obj objs set_objs]. fold (ptr_obj sp os None). rewrite upd_upd.
        rewrite <- HD. destruct (N.ltb_spec 0 (hard D)); [lia|auto].
  - exists (set_objs s1 (upd (objs s1) sp (ptr_obj sp os None))), s1. split; [reflexivity|].
    rewrite upd_same by auto. rewrite set_objs_same.
    split; [auto|split; [auto|split; [auto|split; [auto|auto]]]].
Qed.

Lemma managed_live x s d D m :
  pinv x s -> lookup d (datas s) = Some D -> gp (ugp (dup D)) = Some m ->
  0 < hard D /\ is_live (al s) m = true /\ lookup m (datas s) = None.
Proof.
  intros I L M. destruct (N.eq_dec (hard D) 0) as [Z|Z].
  - rewrite (inv_hard0 _ _ I d D L Z) in M. discriminate.
  - assert (P : 0 < hard D) by lia. destruct (inv_mem _ _ I d D L P) as (m' & M1 & M2 & M3).
    assert (m' = m) by congruence. subst. auto.
Qed.

Lemma not_live_nodata x s b : pinv x s -> is_live (al s) b = false -> lookup b (datas s) = None.
Proof.
  intros I L. destruct (lookup b (datas s)) as [D|] eqn:E; auto.
  rewrite (inv_live _ _ I b D E) in L. discriminate.
Qed.

Lemma not_live_noupr x s b : pinv x s -> is_live (al s) b = false -> cnt (upr b) 0 (objs s) = 0.
Proof.
  intros I L. destruct (N.eq_dec (cnt (upr b) 0 (objs s)) 0) as [Z|Z]; auto.
  destruct (upr_live x s b I) as (L' & _); [lia|congruence].
Qed.

Section Fresh.
  Variable ok : nat -> N -> bool.

  Lemma pinv_fresh s i o d m a1 a2 sz cb :
    inv s -> nth_error (objs s) i = Some o -> tgt i o = None -> ownerk (okind o) = true ->
    malloc ok (al s) DATA_SZ = (a1, Some d) -> malloc ok a1 sz = (a2, Some m) ->
    inv (mkSt a2 (upd (objs s) i (ptr_obj i o (Some d)))
              (store d (mkD 1 1 (mkU (mkG (AData d) (Some m)) cb)) (datas s))
              (descs s) (exts s)
              (MA (EvMalloc m sz) :: MA (EvMalloc d DATA_SZ) :: log s)).
  Proof.
    intros I E T K M1 M2.
    assert (NU : okind o <> KU) by (destruct (okind o); discriminate).
    pose proof (inv_log _ _ I) as LI.
    pose proof (linv_malloc ok _ _ _ _ _ LI M1) as LI1. pose proof (linv_malloc ok _ _ _ _ _ LI1 M2) as LI2.
    pose proof (fun b => is_live_malloc ok _ _ _ _ b M1) as L1.
    pose proof (fun b => is_live_malloc ok _ _ _ _ b M2) as L2.
    assert (AO : alloc_ok (al s)) by apply LI.
    assert (AO1 : alloc_ok a1) by apply LI1.
    pose proof (malloc_some ok _ _ _ _ M1) as (Ed & _ & N1).
    pose proof (malloc_some ok _ _ _ _ M2) as (Em & _ & N2).
    assert (Fd : is_live (al s) d = false) by (subst d; apply fresh_not_live; auto).
    assert (Fm1 : is_live a1 m = false) by (subst m; apply fresh_not_live; auto).
    assert (Nmd : m <> d) by (subst; lia).
    assert (Fm : is_live (al s) m = false).
    { specialize (L1 m). rewrite Fm1 in L1. symmetry in L1. apply orb_false_iff in L1. tauto. }
    assert (LV : forall b, is_live a2 b = Nat.eqb m b || (Nat.eqb d b || is_live (al s) b)).
    { intros b. rewrite L2, L1. reflexivity. }
    pose proof (not_live_nodata _ _ _ I Fd) as Ld. pose proof (not_live_nodata _ _ _ I Fm) as Lm.
    pose proof (not_live_noupr _ _ _ I Fm) as Um.
    destruct (inv_nodata _ _ I d Ld) as (Hd0 & Wd0).
    assert (Hn : forall d', hp None d' i o = false) by (intros; unfold hp; rewrite T; cbn; apply andb_false_r).
    assert (Wn : forall d', wp None d' i o = false) by (intros; unfold wp; rewrite T; cbn; apply andb_false_r).
    assert (CH : forall d', cnt (hp None d') 0 (upd (objs s) i (ptr_obj i o (Some d))) = cnt (hp None d') 0 (objs s) + b2n (Nat.eqb d d')).
    { intros d'. pose proof (cnt_hp_set None (objs s) i o (Some d) d' (or_introl eq_refl) E) as Q.
      rewrite Hn, K in Q. cbn [opt_is andb b2n] in Q. lia. }
    assert (CW : forall d', cnt (wp None d') 0 (upd (objs s) i (ptr_obj i o (Some d))) = cnt (wp None d') 0 (objs s)).
    { intros d'. pose proof (cnt_wp_set None (objs s) i o (Some d) d' (or_introl eq_refl) E) as Q.
      rewrite Wn in Q. replace (kind_eqb (okind o) KW) with false in Q by (destruct (okind o); try discriminate; auto).
      cbn [andb b2n] in Q. lia. }
    destruct (uniq_cond_upd s None i o (ptr_obj i o (Some d)) I E NU eq_refl) as (UU & UC).
    pose proof (upr_live None s) as UL. specialize (fun m => UL m I).
    pose proof (managed_live None s) as ML. specialize (fun d D m => ML d D m I).
    destruct I as [Lg Il Ih Is Ip Ig Iz Im In Iu Edd Edu Euu Nl].
    constructor; cbn [al objs datas descs exts log]; auto.
    - intros d' D' L'. rewrite lookup_store in L'. rewrite LV.
      destruct (Nat.eqb_spec d d') as [->|N]; [apply orb_true_r|]. rewrite (Il _ _ L'). rewrite !orb_true_r. reflexivity.
    - intros d' D' L'. rewrite lookup_store in L'. rewrite CH.
      destruct (Nat.eqb_spec d d') as [->|N]; cbn [b2n].
      + injection L' as <-. cbn. lia.
      + rewrite (Ih _ _ L'). lia.
    - intros d' D' L'. rewrite lookup_store in L'. rewrite CH, CW.
      destruct (Nat.eqb_spec d d') as [->|N]; cbn [b2n].
      + injection L' as <-. cbn. lia.
      + rewrite (Is _ _ L'). lia.
    - intros d' D' L'. rewrite lookup_store in L'. destruct (Nat.eqb_spec d d') as [->|N]; eauto.
      injection L' as <-. cbn. lia.
    - intros d' D' L'. rewrite lookup_store in L'. destruct (Nat.eqb_spec d d') as [->|N]; eauto.
      injection L' as <-. reflexivity.
    - intros d' D' L'. rewrite lookup_store in L'. destruct (Nat.eqb_spec d d') as [->|N]; eauto.
      injection L' as <-. cbn. lia.
    - intros d' D' L' Hp. rewrite lookup_store in L'. destruct (Nat.eqb_spec d d') as [->|N].
      + injection L' as <-. cbn. exists m. rewrite LV, Nat.eqb_refl, lookup_store. repeat split; auto.
        destruct (Nat.eqb_spec d' m); congruence.
      + destruct (Im _ _ L' Hp) as (m' & A1 & A2 & A3). exists m'. rewrite LV, A2, lookup_store, !orb_true_r.
        repeat split; auto. destruct (Nat.eqb_spec d m'); congruence.
    - intros d' L'. rewrite lookup_store in L'. rewrite CH, CW.
      destruct (Nat.eqb_spec d d') as [->|N]; [discriminate|]. cbn [b2n]. destruct (In d' L'). lia.
    - intros j oj E' KU Wf. specialize (UC j oj E' KU Wf). destruct (gp (ogp oj)) as [m'|]; auto.
      rewrite UU in UC. destruct (UL m' UC) as (U1 & U2). rewrite LV, U1, lookup_store, !orb_true_r. split; auto.
      destruct (Nat.eqb_spec d m'); congruence.
    - intros d1 d2 D1 D2 m' L1' L2'. rewrite lookup_store in L1', L2'.
      destruct (Nat.eqb_spec d d1) as [E1|N1']; destruct (Nat.eqb_spec d d2) as [E2|N2']; try congruence.
      + injection L1' as <-. cbn. intros A1 A2. destruct (ML _ _ _ L2' A2) as (_ & X & _). congruence.
      + injection L2' as <-. cbn. intros A1 A2. destruct (ML _ _ _ L1' A1) as (_ & X & _). congruence.
      + eauto.
    - intros d' D' m' L'. rewrite lookup_store in L'. rewrite UU.
      destruct (Nat.eqb_spec d d') as [->|N]; eauto. injection L' as <-. cbn. intros A. injection A as <-. auto.
    - intros m'. rewrite UU. auto.
    - intros b Lb. rewrite LV in Lb. rewrite UU.
      destruct (Nat.eqb_spec m b) as [->|Nm].
      + right. left. exists d. eexists. rewrite lookup_store, Nat.eqb_refl. split; [reflexivity|]. reflexivity.
      + destruct (Nat.eqb_spec d b) as [->|Nd].
        * left. rewrite lookup_store, Nat.eqb_refl. discriminate.
        * simpl in Lb. destruct (Nl b Lb) as [H|[(d' & D' & L' & M')|H]]; auto.
          -- left. rewrite lookup_store. destruct (Nat.eqb_spec d b); congruence.
          -- right. left. exists d', D'. rewrite lookup_store. destruct (Nat.eqb_spec d d'); [congruence|auto].
  Qed.
End Fresh.

Section SharedAlloc.
  Variable ok : nat -> N -> bool.

  (** what cstl_shared_ptr_alloc does after the reset of the target *)
  Definition shared_alloc_tail (s1 : st) (i : nat) (sz : N) (cb : option nat) : res st :=
    if 0 <? sz then
      let '(s2, r) := do_malloc ok s1 DATA_SZ in
      match r with
      | None => Ok s2
      | Some d =>
        let s3 := wr_data s2 d (mkD 1 1 (mkU (mkG (AData d) None) None)) in
        s4 <- unique_alloc ok s3 (AData d) sz cb;;
        p <- unique_get s4 (AData d);;
        match p with
        | Some _ => Ok (wr_gp s4 i (mkG (ASlot i) (Some d)))
        | None => Ok (do_free s4 (Some d))
        end
      end
    else Ok s1.

  Lemma shared_alloc_unfold s i sz cb :
    shared_alloc ok s i sz cb = (s1 <- shared_reset s i;; shared_alloc_tail s1 i sz cb).
  Proof. reflexivity. Qed.

  Lemma shared_alloc_tail_spec s1 i o1 sz cb :
    inv s1 -> nth_error (objs s1) i = Some o1 -> tgt i o1 = None -> ownerk (okind o1) = true ->
    exists s', shared_alloc_tail s1 i sz cb = Ok s' /\ inv s' /\
      ((exists d m a1, 0 < sz /\ malloc ok (al s1) DATA_SZ = (a1, Some d) /\ malloc ok a1 sz = (al s', Some m) /\
          objs s' = upd (objs s1) i (ptr_obj i o1 (Some d)) /\
          lookup d (datas s') = Some (mkD 1 1 (mkU (mkG (AData d) (Some m)) cb)) /\
          descs s' = descs s1)
       \/
       (objs s' = objs s1 /\ (forall b, is_live (al s') b = is_live (al s1) b) /\
        (forall b, is_live (al s1) b = true -> lookup b (descs s') = lookup b (descs s1)) /\
        (sz = 0 \/ snd (malloc ok (al s1) DATA_SZ) = None \/
         exists a1 d, malloc ok (al s1) DATA_SZ = (a1, Some d) /\ snd (malloc ok a1 sz) = None))).
  Proof.
    intros I E T K. unfold shared_alloc_tail.
    destruct (N.ltb_spec 0 sz) as [Sz|Sz].
    2:{ exists s1. split; auto. split; auto. right. repeat split; auto. left. lia. }
    unfold do_malloc. destruct (malloc ok (al s1) DATA_SZ) as (a1 & [d|]) eqn:M1.
    2:{ eexists. split; [reflexivity|]. pose proof (inv_log _ _ I) as LI.
        pose proof (linv_malloc ok _ _ _ _ _ LI M1) as LI1. pose proof (malloc_none ok _ _ _ M1) as (LL & _).
        split; [|right].
        - unfold add_log, set_al. cbn [al objs datas descs exts log]. apply pinv_ext; auto.
          intros b. unfold is_live. rewrite LL. reflexivity.
        - unfold add_log, set_al. cbn [al objs datas descs exts log]. repeat split; auto.
          intros b. unfold is_live. rewrite LL. reflexivity. }
    (* the bookkeeping block exists *)
    pose proof (inv_log _ _ I) as LI.
    pose proof (linv_malloc ok _ _ _ _ _ LI M1) as LI1.
    pose proof (malloc_some ok _ _ _ _ M1) as (Ed & _ & N1).
    assert (Fd : is_live (al s1) d = false) by (subst d; apply fresh_not_live; apply LI).
    pose proof (not_live_nodata _ _ _ I Fd) as Ld.
    unfold unique_alloc.
    rewrite (unique_reset_data_none _ d (mkD 1 1 (up_init d))).
    2:{ unfold wr_data, set_datas, add_log, set_al. cbn [datas]. rewrite lookup_store, Nat.eqb_refl. reflexivity. }
    2-4: reflexivity.
    cbn [bind hard soft]. destruct (N.ltb_spec 0 sz) as [_|]; [|lia].
    unfold do_malloc, wr_data, set_datas, add_log, set_al. cbn [al objs datas descs exts log].
    destruct (malloc ok a1 sz) as (a2 & [m|]) eqn:M2.
    - (* success *)
      unfold wr_up. cbn [datas]. rewrite !lookup_store, Nat.eqb_refl. cbn [bind hard soft].
      unfold unique_get, rd_up, set_datas. cbn [datas]. rewrite lookup_store, Nat.eqb_refl. cbn [bind dup ugp].
      unfold gget. cbn [gself gp]. rewrite addr_eqb_refl. cbn [bind].
      unfold wr_gp. cbn [objs]. rewrite E.
      eexists. split; [reflexivity|]. unfold set_objs. cbn [al objs datas descs exts log].
      fold (ptr_obj i o1 (Some d)).
      pose proof (pinv_fresh ok s1 i o1 d m a1 a2 sz cb I E T K M1 M2) as Q.
      split.
      + apply (pinv_ext _ _ _ _ _ _ Q); cbn [al objs datas descs exts log]; auto.
        * apply Q.
        * intros d'. rewrite !lookup_store. destruct (Nat.eqb_spec d d'); auto.
      + left. exists d, m, a1. cbn [al objs datas descs exts log]. repeat split; auto.
        rewrite lookup_store, Nat.eqb_refl. reflexivity.
    - (* the managed memory cannot be allocated: the bookkeeping block is released *)
      cbn [bind]. unfold unique_get, rd_up. cbn [datas]. rewrite lookup_store, Nat.eqb_refl. cbn [bind dup ugp].
      unfold gget, up_init. cbn [gself gp]. rewrite addr_eqb_refl. cbn [bind].
      unfold do_free. cbn [al objs datas descs exts log].
      pose proof (linv_malloc ok _ _ _ _ _ LI1 M2) as LI2.
      pose proof (malloc_none ok _ _ _ M2) as (LL2 & _).
      assert (Ld2 : is_live a2 d = true).
      { rewrite (is_live_malloc ok _ _ _ _ d M2). rewrite (is_live_malloc ok _ _ _ _ d M1). rewrite Nat.eqb_refl. reflexivity. }
      rewrite Ld2.
      assert (LV : forall b, is_live (free a2 (Some d)) b = is_live (al s1) b).
      { intros b. rewrite is_live_free by auto. rewrite (is_live_malloc ok _ _ _ _ b M2), (is_live_malloc ok _ _ _ _ b M1).
        destruct (Nat.eqb_spec d b) as [->|]; simpl; auto. }
      eexists. split; [reflexivity|]. split; [|right]; cbn [al objs datas descs exts log].
      + apply pinv_ext; auto.
        * apply linv_free; auto.
        * intros d'. rewrite lookup_remove, !lookup_store. destruct (Nat.eqb_spec d d') as [->|]; auto.
      + repeat split; auto.
        * intros b Lb. rewrite lookup_remove. destruct (Nat.eqb_spec d b) as [->|]; [congruence|auto].
        * right. right. exists a1, d. rewrite M2. auto.
  Qed.
End SharedAlloc.

(** replacing an object by one of the same kind with the same target *)
Lemma pinv_upd_same_tgt s i o o' :
  inv s -> nth_error (objs s) i = Some o -> okind o' = okind o -> tgt i o' = tgt i o ->
  (okind o = KU -> wf_obj i o' = true -> gp (ogp o') = None -> oclr o' = None) ->
  inv (set_objs s (upd (objs s) i o')).
Proof.
  intros I E K T C.
  assert (HH : forall d, cnt (hp None d) 0 (upd (objs s) i o') = cnt (hp None d) 0 (objs s)).
  { intros d. apply cnt_upd_same with (o := o); auto. cbn [Nat.add]. unfold hp. cbn [ek]. rewrite K, T. reflexivity. }
  assert (WW : forall d, cnt (wp None d) 0 (upd (objs s) i o') = cnt (wp None d) 0 (objs s)).
  { intros d. apply cnt_upd_same with (o := o); auto. cbn [Nat.add]. unfold wp. cbn [ek]. rewrite K, T. reflexivity. }
  assert (UU : forall m, cnt (upr m) 0 (upd (objs s) i o') = cnt (upr m) 0 (objs s)).
  { intros m. apply cnt_upd_same with (o := o); auto. cbn [Nat.add]. unfold upr. rewrite K, T. reflexivity. }
  apply pinv_same_counts with (x := None); auto.
  intros j oj E' KU Wf. rewrite nth_error_upd in E'. destruct (Nat.eqb_spec i j) as [->|N].
  - destruct (Nat.ltb j (length (objs s))); [|discriminate]. injection E' as <-.
    destruct (gp (ogp o')) as [m|] eqn:G.
    + rewrite UU. assert (tgt j o = Some m) as T' by (rewrite <- T; unfold tgt; rewrite Wf; auto).
      assert (1 <= cnt (upr m) 0 (objs s)); [|lia].
      apply (cnt_ge _ 0 _ j o E). cbn [Nat.add]. unfold upr. rewrite <- K, KU, T'. cbn. apply Nat.eqb_refl.
    + apply C; auto. congruence.
  - pose proof (uniq_cond s None I j oj E' KU Wf) as Q. destruct (gp (ogp oj)); auto. rewrite UU. auto.
Qed.

(** a guarded pointer object takes no part in any count: replacing it by any
    other object of kind [KG] keeps the invariant, whatever the two hold *)
Lemma pinv_upd_kg s i o o' :
  inv s -> nth_error (objs s) i = Some o -> okind o = KG -> okind o' = KG ->
  inv (set_objs s (upd (objs s) i o')).
Proof.
  intros I E K K'.
  assert (HH : forall d, cnt (hp None d) 0 (upd (objs s) i o') = cnt (hp None d) 0 (objs s)).
  { intros d. apply cnt_upd_same with (o := o); auto. cbn [Nat.add]. unfold hp. cbn [ek]. rewrite K, K'. reflexivity. }
  assert (WW : forall d, cnt (wp None d) 0 (upd (objs s) i o') = cnt (wp None d) 0 (objs s)).
  { intros d. apply cnt_upd_same with (o := o); auto. cbn [Nat.add]. unfold wp. cbn [ek]. rewrite K, K'. reflexivity. }
  assert (UU : forall m, cnt (upr m) 0 (upd (objs s) i o') = cnt (upr m) 0 (objs s)).
  { intros m. apply cnt_upd_same with (o := o); auto. cbn [Nat.add]. unfold upr. rewrite K, K'. reflexivity. }
  apply pinv_same_counts with (x := None); auto.
  intros j oj E' KU Wf. rewrite nth_error_upd in E'. destruct (Nat.eqb_spec i j) as [->|N].
  - destruct (Nat.ltb j (length (objs s))); [|discriminate]. injection E' as <-. congruence.
  - pose proof (uniq_cond s None I j oj E' KU Wf) as Q. destruct (gp (ogp oj)); auto. rewrite UU. auto.
Qed.

Lemma tgt_stray i o : wf_obj i o = false -> tgt i o = None.
Proof. unfold tgt. intros ->. reflexivity. Qed.

(** cstl_shared_ptr_init / cstl_weak_ptr_init / cstl_array_init /
    cstl_unique_ptr_init on a disposable object *)
Lemma reinit_inv s i o :
  inv s -> nth_error (objs s) i = Some o -> tgt i o = None ->
  inv (set_objs s (upd (objs s) i (obj_init (okind o) i))).
Proof.
  intros I E T. apply pinv_upd_same_tgt with (o := o); auto.
  rewrite T. unfold tgt, wf_obj, obj_init. cbn. rewrite Nat.eqb_refl. reflexivity.
Qed.

Lemma stray_copy_inv s src dst os od :
  inv s -> nth_error (objs s) src = Some os -> nth_error (objs s) dst = Some od ->
  okind os = okind od -> tgt dst od = None -> wf_obj dst os = false ->
  inv (set_objs s (upd (objs s) dst os)).
Proof.
  intros I Es Ed K T W. apply pinv_upd_same_tgt with (o := od); auto.
  - rewrite T. apply tgt_stray; auto.
  - congruence.
Qed.

Lemma hp_wf x d i o : wf_obj i o = true -> hp x d i o = ownerk (ek x i o) && opt_is (gp (ogp o)) d.
Proof. unfold hp, tgt. intros ->. reflexivity. Qed.
Lemma wp_wf x d i o : wf_obj i o = true -> wp x d i o = kind_eqb (ek x i o) KW && opt_is (gp (ogp o)) d.
Proof. unfold wp, tgt. intros ->. reflexivity. Qed.

Lemma gp_swap_spec s a b oa ob :
  inv s -> nth_error (objs s) a = Some oa -> nth_error (objs s) b = Some ob ->
  okind oa = okind ob -> okind oa <> KU -> wf_obj a oa = true -> wf_obj b ob = true ->
  exists s', gp_swap s a b = Ok s' /\ inv s' /\
    objs s' = upd (upd (objs s) a (ptr_obj a oa (gp (ogp ob)))) b
                  (ptr_obj b ob (gp (ogp oa))).
Proof.
  intros I Ea Eb K NU Wa Wb. unfold gp_swap, rd_gp. rewrite Ea, Eb. cbn [bind].
  unfold gget. pose proof Wa as Wa'. pose proof Wb as Wb'. unfold wf_obj in Wa', Wb'. rewrite Wa', Wb'. cbn [bind].
  rewrite (wr_gp_eq s a oa _ Ea).
  destruct (Nat.eq_dec a b) as [->|N].
  - assert (oa = ob) by congruence. subst ob.
    rewrite (wr_gp_eq _ b (ptr_obj b oa (gp (ogp oa)))).
    2:{ cbn [objs set_objs]. eapply nth_upd_same; eauto. }
    eexists. split; [reflexivity|]. cbn [objs set_objs]. rewrite ptr_obj_ptr_obj, upd_upd.
    rewrite ptr_obj_same, upd_same by auto. split; auto.
    rewrite !set_objs_same. auto.
  - rewrite (wr_gp_eq _ b ob).
    2:{ cbn [objs set_objs]. rewrite nth_upd_other; auto. }
    eexists. split; [reflexivity|]. cbn [objs set_objs]. split; [|reflexivity].
    set (l1 := upd (objs s) a (ptr_obj a oa (gp (ogp ob)))).
    assert (Eb1 : nth_error l1 b = Some ob) by (subst l1; rewrite nth_upd_other; auto).
    assert (HH : forall d, cnt (hp None d) 0 (upd l1 b (ptr_obj b ob (gp (ogp oa)))) = cnt (hp None d) 0 (objs s)).
    { intros d. pose proof (cnt_hp_set None (objs s) a oa (gp (ogp ob)) d (or_introl eq_refl) Ea) as Q1.
      pose proof (cnt_hp_set None l1 b ob (gp (ogp oa)) d (or_introl eq_refl) Eb1) as Q2. fold l1 in Q1.
      rewrite hp_wf in Q1, Q2 by auto. cbn [ek] in Q1, Q2. rewrite K in *. lia. }
    assert (WW : forall d, cnt (wp None d) 0 (upd l1 b (ptr_obj b ob (gp (ogp oa)))) = cnt (wp None d) 0 (objs s)).
    { intros d. pose proof (cnt_wp_set None (objs s) a oa (gp (ogp ob)) d (or_introl eq_refl) Ea) as Q1.
      pose proof (cnt_wp_set None l1 b ob (gp (ogp oa)) d (or_introl eq_refl) Eb1) as Q2. fold l1 in Q1.
      rewrite wp_wf in Q1, Q2 by auto. cbn [ek] in Q1, Q2. rewrite K in *. lia. }
    assert (I1 : forall m, cnt (upr m) 0 l1 = cnt (upr m) 0 (objs s)).
    { intros m. subst l1. apply cnt_upd_same with (o := oa); auto. cbn [Nat.add]. unfold upr. cbn [okind ptr_obj].
      destruct (okind oa); try congruence; reflexivity. }
    assert (UU : forall m, cnt (upr m) 0 (upd l1 b (ptr_obj b ob (gp (ogp oa)))) = cnt (upr m) 0 (objs s)).
    { intros m. rewrite <- I1. apply cnt_upd_same with (o := ob); auto. cbn [Nat.add]. unfold upr. cbn [okind ptr_obj].
      rewrite <- K. destruct (okind oa); try congruence; reflexivity. }
    unfold set_objs. cbn [al objs datas descs exts log].
    apply (pinv_same_counts None None s _ I HH WW UU).
    intros j oj E' KU Wf. rewrite nth_error_upd in E'. destruct (Nat.eqb_spec b j) as [->|Nb].
    + destruct (Nat.ltb j (length l1)); [|discriminate]. injection E' as <-. cbn in KU. congruence.
    + subst l1. rewrite nth_error_upd in E'. destruct (Nat.eqb_spec a j) as [->|Na].
      * destruct (Nat.ltb j (length (objs s))); [|discriminate]. injection E' as <-. cbn in KU. congruence.
      * pose proof (uniq_cond s None I j oj E' KU Wf) as Q. destruct (gp (ogp oj)); auto. rewrite UU. auto.
Qed.

(** ** unique pointers at pool slots *)
Definition uobj (u : nat) (o : obj) (p c : option nat) : obj :=
  mkO (okind o) (mkG (ASlot u) p) c (ooff o) (olen o).

Lemma upr_obj m u o d : okind o = KU -> wf_obj u o = true -> gp (ogp o) = Some d -> upr m u o = Nat.eqb d m.
Proof. intros K W G. unfold upr, tgt. rewrite K, W, G. reflexivity. Qed.

Lemma cnt_unique_upd l u o o' :
  nth_error l u = Some o -> okind o = KU -> okind o' = KU ->
  (forall d, cnt (hp None d) 0 (upd l u o') = cnt (hp None d) 0 l) /\
  (forall d, cnt (wp None d) 0 (upd l u o') = cnt (wp None d) 0 l).
Proof.
  intros E K K'. split; intros d; apply cnt_upd_same with (o := o); auto; cbn [Nat.add].
  - unfold hp. cbn [ek]. rewrite K, K'. reflexivity.
  - unfold wp. cbn [ek]. rewrite K, K'. reflexivity.
Qed.

Lemma pinv_unique_destroy s u o m c :
  inv s -> nth_error (objs s) u = Some o -> okind o = KU -> wf_obj u o = true -> gp (ogp o) = Some m ->
  inv (mkSt (free (al s) (Some m)) (upd (objs s) u (uobj u o None None)) (remove_key m (datas s))
            (remove_key m (descs s)) (exts s) (MA (EvFree m) :: clear_evs m c ++ log s)).
Proof.
  intros I E K W G.
  pose proof (inv_uniq _ _ I u o E K W) as Q. rewrite G in Q. destruct Q as (Lm & Nm).
  destruct (cnt_unique_upd (objs s) u o (uobj u o None None) E K K) as (HH & WW).
  assert (UU : forall m', cnt (upr m') 0 (upd (objs s) u (uobj u o None None)) + b2n (Nat.eqb m m') = cnt (upr m') 0 (objs s)).
  { intros m'. pose proof (cnt_upr_set (objs s) u o None None m' E) as C. rewrite (upr_obj m' u o m) in C by auto.
    cbn [opt_is] in C. rewrite andb_false_r in C. cbn [b2n] in C. unfold uobj. lia. }
  assert (U1 : cnt (upr m) 0 (objs s) = 1).
  { pose proof (inv_excl_uu _ _ I m). pose proof (upr_ge s u o m E K W G). lia. }
  pose proof (upr_live None s) as UL. specialize (fun m => UL m I).
  pose proof (managed_live None s) as ML. specialize (fun d D m => ML d D m I).
  destruct I as [Lg Il Ih Is Ip Ig Iz Im In Iu Edd Edu Euu Nl].
  assert (DL : forall d', lookup d' (remove_key m (datas s)) = lookup d' (datas s)).
  { intros d'. rewrite lookup_remove. destruct (Nat.eqb_spec m d'); congruence. }
  constructor; cbn [al objs datas descs exts log].
  - apply linv_destroy; auto.
  - intros d' D' L'. rewrite DL in L'. rewrite is_live_free by auto.
    destruct (Nat.eqb_spec m d'); [congruence|]. simpl. eauto.
  - intros d' D' L'. rewrite DL in L'. rewrite HH. eauto.
  - intros d' D' L'. rewrite DL in L'. rewrite HH, WW. eauto.
  - intros d' D' L'. rewrite DL in L'. eauto.
  - intros d' D' L'. rewrite DL in L'. eauto.
  - intros d' D' L'. rewrite DL in L'. eauto.
  - intros d' D' L' Hp. rewrite DL in L'. destruct (Im _ _ L' Hp) as (m' & A1 & A2 & A3). exists m'.
    rewrite is_live_free, DL by auto. repeat split; auto.
    destruct (Nat.eqb_spec m m') as [->|]; auto. exfalso. pose proof (Edu _ _ _ L' A1). lia.
  - intros d' L'. rewrite DL in L'. rewrite HH, WW. eauto.
  - intros j oj E' KU Wf. rewrite nth_error_upd in E'. destruct (Nat.eqb_spec u j) as [->|N].
    + destruct (Nat.ltb j (length (objs s))); [|discriminate]. injection E' as <-. reflexivity.
    + specialize (Iu _ _ E' KU Wf). destruct (gp (ogp oj)) as [m'|] eqn:G'; auto.
      rewrite is_live_free, DL by auto. destruct Iu as (A1 & A2). split; auto.
      destruct (Nat.eqb_spec m m') as [->|]; auto. exfalso.
      assert (2 <= cnt (upr m') 0 (objs s)); [|lia].
      apply (cnt_ge2 _ 0 _ u j o oj); auto; cbn [Nat.add]; rewrite upr_obj with (d := m'); auto; apply Nat.eqb_refl.
  - intros d1 d2 D1 D2 m' L1 L2. rewrite DL in L1, L2. eauto.
  - intros d' D' m' L' A. rewrite DL in L'. specialize (UU m'). pose proof (Edu _ _ _ L' A). lia.
  - intros m'. specialize (UU m'). specialize (Euu m'). lia.
  - intros b Lb. rewrite is_live_free in Lb by auto. destruct (Nat.eqb_spec m b) as [->|N]; [discriminate|].
    simpl in Lb. rewrite DL. specialize (UU b). destruct (Nat.eqb_spec m b); [congruence|]. cbn [b2n] in UU.
    destruct (Nl b Lb) as [H|[(d' & D' & L' & M')|H]]; auto.
    + right. left. exists d', D'. rewrite DL. auto.
    + right. right. lia.
Qed.

Section UniqueSet.
  Variable ok : nat -> N -> bool.

  Lemma pinv_unique_set s u o m a' sz cb :
    inv s -> nth_error (objs s) u = Some o -> okind o = KU -> tgt u o = None ->
    malloc ok (al s) sz = (a', Some m) ->
    inv (mkSt a' (upd (objs s) u (uobj u o (Some m) cb)) (datas s) (descs s) (exts s)
              (MA (EvMalloc m sz) :: log s)).
  Proof.
    intros I E K T M.
    pose proof (inv_log _ _ I) as LI. pose proof (linv_malloc ok _ _ _ _ _ LI M) as LI1.
    pose proof (fun b => is_live_malloc ok _ _ _ _ b M) as LV. cbn beta iota in LV.
    pose proof (malloc_some ok _ _ _ _ M) as (Em & _ & N1).
    assert (Fm : is_live (al s) m = false) by (subst m; apply fresh_not_live; apply LI).
    pose proof (not_live_nodata _ _ _ I Fm) as Lm. pose proof (not_live_noupr _ _ _ I Fm) as Um.
    destruct (cnt_unique_upd (objs s) u o (uobj u o (Some m) cb) E K K) as (HH & WW).
    assert (UU : forall m', cnt (upr m') 0 (upd (objs s) u (uobj u o (Some m) cb)) = cnt (upr m') 0 (objs s) + b2n (Nat.eqb m m')).
    { intros m'. pose proof (cnt_upr_set (objs s) u o (Some m) cb m' E) as C.
      replace (upr m' u o) with false in C by (unfold upr; rewrite T; cbn; rewrite andb_false_r; reflexivity).
      rewrite K in C. cbn [kind_eqb opt_is andb b2n] in C. unfold uobj. rewrite K. lia. }
    pose proof (upr_live None s) as UL. specialize (fun m => UL m I).
    pose proof (managed_live None s) as ML. specialize (fun d D m => ML d D m I).
    destruct I as [Lg Il Ih Is Ip Ig Iz Im In Iu Edd Edu Euu Nl].
    constructor; cbn [al objs datas descs exts log]; auto.
    - intros d' D' L'. rewrite LV, (Il _ _ L'). apply orb_true_r.
    - intros d' D' L'. rewrite HH. eauto.
    - intros d' D' L'. rewrite HH, WW. eauto.
    - intros d' D' L' Hp. destruct (Im _ _ L' Hp) as (m' & A1 & A2 & A3). exists m'. rewrite LV, A2, orb_true_r. auto.
    - intros d' L'. rewrite HH, WW. eauto.
    - intros j oj E' KU Wf. rewrite nth_error_upd in E'. destruct (Nat.eqb_spec u j) as [->|N].
      + destruct (Nat.ltb j (length (objs s))); [|discriminate]. injection E' as <-. cbn.
        rewrite LV, Nat.eqb_refl. auto.
      + specialize (Iu _ _ E' KU Wf). destruct (gp (ogp oj)) as [m'|]; auto. destruct Iu as (A1 & A2).
        rewrite LV, A1, orb_true_r. auto.
    - intros d' D' m' L' A. rewrite UU. destruct (ML _ _ _ L' A) as (_ & X & _).
      destruct (Nat.eqb_spec m m'); [congruence|]. cbn [b2n]. pose proof (Edu _ _ _ L' A). lia.
    - intros m'. rewrite UU. destruct (Nat.eqb_spec m m') as [<-|]; cbn [b2n]; [lia|]. specialize (Euu m'). lia.
    - intros b Lb. rewrite LV in Lb. rewrite UU. destruct (Nat.eqb_spec m b) as [->|N]; cbn [b2n].
      + right. right. lia.
      + simpl in Lb. destruct (Nl b Lb) as [H|[H|H]]; auto. right. right. lia.
  Qed.
End UniqueSet.

Lemma uobj_same u o : wf_obj u o = true -> uobj u o (gp (ogp o)) (oclr o) = o.
Proof.
  unfold wf_obj. intros W. apply addr_eqb_eq in W. destruct o as [k [sf p] c of ln]. cbn in *. subst. reflexivity.
Qed.

Lemma unique_reset_pool_spec s u o :
  inv s -> nth_error (objs s) u = Some o -> okind o = KU -> wf_obj u o = true ->
  exists s', unique_reset s (ASlot u) = Ok s' /\ inv s' /\ objs s' = upd (objs s) u (uobj u o None None) /\
             (gp (ogp o) = None -> s' = s).
Proof.
  intros I E K W. unfold unique_reset, rd_up. rewrite E. cbn [bind ugp uclr].
  unfold gget. pose proof W as W'. unfold wf_obj in W'. rewrite W'. cbn [bind].
  pose proof (inv_uniq _ _ I u o E K W) as Q.
  destruct (gp (ogp o)) as [m|] eqn:G.
  - destruct Q as (Lm & Nm).
    unfold unique_init, wr_up, do_free.
    destruct (oclr o) as [t|] eqn:C; unfold add_log; cbn [al objs datas descs exts log]; rewrite E, Lm;
      unfold set_objs; cbn [al objs datas descs exts log]; fold (uobj u o None None);
      (eexists; split; [reflexivity|]; cbn [objs]; split; [|split; [reflexivity|discriminate]]).
    + apply (pinv_unique_destroy s u o m (Some t)); auto.
    + apply (pinv_unique_destroy s u o m None); auto.
  - rewrite Q. unfold do_free, unique_init, wr_up. rewrite E. cbn [ugp uclr]. fold (uobj u o None None).
    assert (uobj u o None None = o) as EQ by (pose proof (uobj_same u o W) as X; rewrite G, Q in X; exact X).
    rewrite EQ, upd_same, set_objs_same by auto. exists s. auto.
Qed.

Section UniqueOps.
  Variable ok : nat -> N -> bool.

  Lemma unique_alloc_pool_spec s u o sz cb :
    inv s -> nth_error (objs s) u = Some o -> okind o = KU -> wf_obj u o = true ->
    exists s' p, unique_alloc ok s (ASlot u) sz cb = Ok s' /\ inv s' /\
      objs s' = upd (objs s) u (uobj u o p (match p with Some _ => cb | None => None end)) /\
      (p = None -> sz = 0 \/ exists s1, unique_reset s (ASlot u) = Ok s1 /\ snd (malloc ok (al s1) sz) = None).
  Proof.
    intros I E K W. destruct (unique_reset_pool_spec s u o I E K W) as (s1 & R & I1 & O1 & _).
    unfold unique_alloc. rewrite R. cbn [bind].
    assert (E1 : nth_error (objs s1) u = Some (uobj u o None None)) by (rewrite O1; eapply nth_upd_same; eauto).
    destruct (N.ltb_spec 0 sz) as [Sz|Sz].
    2:{ exists s1, None. split; [reflexivity|]. split; [auto|]. split; [auto|]. intros _. left. lia. }
    unfold do_malloc. destruct (malloc ok (al s1) sz) as (a' & [m|]) eqn:M.
    - unfold wr_up, add_log, set_al. cbn [al objs datas descs exts log]. rewrite E1.
      cbn [okind uobj ooff olen ugp uclr]. unfold set_objs. cbn [al objs datas descs exts log].
      eexists. exists (Some m). split; [reflexivity|]. cbn [objs]. split; [|split; [|discriminate]].
      + pose proof (pinv_unique_set ok s1 u (uobj u o None None) m a' sz cb I1 E1 K) as Q. apply Q; auto.
        unfold tgt, wf_obj. cbn. rewrite Nat.eqb_refl. reflexivity.
      + rewrite O1, upd_upd. reflexivity.
    - eexists. exists None. split; [reflexivity|]. unfold add_log, set_al. cbn [al objs datas descs exts log].
      split; [|split; auto].
      + pose proof (inv_log _ _ I1) as LI. pose proof (linv_malloc ok _ _ _ _ _ LI M) as LI1.
        pose proof (malloc_none ok _ _ _ M) as (LL & _).
        apply pinv_ext; auto. intros b. unfold is_live. rewrite LL. reflexivity.
      + intros _. right. exists s1. rewrite M. auto.
  Qed.
End UniqueOps.

(** cstl_unique_ptr_release followed by the caller's free *)
Lemma unique_release_pool_spec s u o :
  inv s -> nth_error (objs s) u = Some o -> okind o = KU -> wf_obj u o = true ->
  exists s', unique_release s (ASlot u) = Ok (s', gp (ogp o), oclr o) /\
             inv (do_free s' (gp (ogp o))) /\ objs (do_free s' (gp (ogp o))) = upd (objs s) u (uobj u o None None).
Proof.
  intros I E K W. unfold unique_release, rd_up. rewrite E. cbn [bind ugp uclr].
  unfold gget. pose proof W as W'. unfold wf_obj in W'. rewrite W'. cbn [bind].
  eexists. split; [reflexivity|].
  pose proof (inv_uniq _ _ I u o E K W) as Q.
  unfold unique_init, wr_up. rewrite E. cbn [ugp uclr]. fold (uobj u o None None).
  destruct (gp (ogp o)) as [m|] eqn:G.
  - destruct Q as (Lm & Nm). unfold do_free, set_objs. cbn [al objs datas descs exts log]. rewrite Lm. split; auto.
    apply (pinv_unique_destroy s u o m None); auto.
  - cbn [do_free]. assert (uobj u o None None = o) as EQ by (pose proof (uobj_same u o W) as X; rewrite G, Q in X; exact X).
    rewrite EQ, upd_same, set_objs_same by auto. auto.
Qed.

Lemma upd_comm {A} (l : list A) i j x y : i <> j -> upd (upd l i x) j y = upd (upd l j y) i x.
Proof.
  revert i j. induction l as [|z r IH]; intros [|i] [|j] N; simpl; auto; try congruence. f_equal. apply IH. congruence.
Qed.

Lemma rd_up_slot s i o : nth_error (objs s) i = Some o -> rd_up s (ASlot i) = Ok (mkU (ogp o) (oclr o)).
Proof. intros E. unfold rd_up. rewrite E. reflexivity. Qed.

Lemma wr_up_slot s i o p c :
  nth_error (objs s) i = Some o -> wr_up s (ASlot i) (mkU (mkG (ASlot i) p) c) = set_objs s (upd (objs s) i (uobj i o p c)).
Proof. intros E. unfold wr_up. rewrite E. reflexivity. Qed.

Lemma unique_swap_spec s u v ou ov :
  inv s -> nth_error (objs s) u = Some ou -> nth_error (objs s) v = Some ov -> u <> v ->
  okind ou = KU -> okind ov = KU -> wf_obj u ou = true -> wf_obj v ov = true ->
  exists s', unique_swap s (ASlot u) (ASlot v) = Ok s' /\ inv s' /\
    objs s' = upd (upd (objs s) u (uobj u ou (gp (ogp ov)) (oclr ov))) v (uobj v ov (gp (ogp ou)) (oclr ou)).
Proof.
  intros I Eu Ev N Ku Kv Wu Wv. unfold unique_swap.
  pose proof Wu as Wu'. unfold wf_obj in Wu'. pose proof Wv as Wv'. unfold wf_obj in Wv'.
  set (pu := gp (ogp ou)). set (pv := gp (ogp ov)). set (cu := oclr ou). set (cv := oclr ov).
  rewrite (rd_up_slot s u ou Eu). cbn [bind ugp uclr]. unfold gget at 1. rewrite Wu'. cbn [bind].
  rewrite (rd_up_slot s v ov Ev). cbn [bind ugp uclr]. unfold gget at 1. rewrite Wv'. cbn [bind].
  fold pu pv cu cv.
  rewrite (wr_up_slot s u ou pv cu Eu).
  set (s1 := set_objs s _).
  assert (E1v : nth_error (objs s1) v = Some ov) by (subst s1; cbn [objs set_objs]; rewrite nth_upd_other; auto).
  assert (E1u : nth_error (objs s1) u = Some (uobj u ou pv cu)) by (subst s1; cbn [objs set_objs]; eapply nth_upd_same; eauto).
  rewrite (rd_up_slot s1 v ov E1v). cbn [bind ugp uclr]. fold cv.
  rewrite (wr_up_slot s1 v ov pu cv E1v).
  set (s2 := set_objs s1 _).
  assert (E2u : nth_error (objs s2) u = Some (uobj u ou pv cu)) by (subst s2; cbn [objs set_objs]; rewrite nth_upd_other; auto).
  assert (E2v : nth_error (objs s2) v = Some (uobj v ov pu cv)) by (subst s2; cbn [objs set_objs]; eapply nth_upd_same; eauto).
  rewrite (rd_up_slot s2 u _ E2u). cbn [bind]. rewrite (rd_up_slot s2 v _ E2v). cbn [bind ugp uclr ogp oclr uobj].
  rewrite (wr_up_slot s2 u _ pv cv E2u).
  set (s3 := set_objs s2 _).
  assert (E3v : nth_error (objs s3) v = Some (uobj v ov pu cv)) by (subst s3; cbn [objs set_objs]; rewrite nth_upd_other; auto).
  rewrite (rd_up_slot s3 v _ E3v). cbn [bind ugp uclr ogp oclr uobj].
  rewrite (wr_up_slot s3 v _ pu cu E3v).
  eexists. split; [reflexivity|].
  subst s3 s2 s1. unfold set_objs. cbn [al objs datas descs exts log].
  change (uobj u (uobj u ou pv cu) pv cv) with (uobj u ou pv cv).
  change (uobj v (uobj v ov pu cv) pu cu) with (uobj v ov pu cu).
  assert (OE : upd (upd (upd (upd (objs s) u (uobj u ou pv cu)) v (uobj v ov pu cv)) u (uobj u ou pv cv)) v (uobj v ov pu cu)
               = upd (upd (objs s) u (uobj u ou pv cv)) v (uobj v ov pu cu)).
  { rewrite (upd_comm _ v u) by auto. rewrite !upd_upd. reflexivity. }
  rewrite OE. split; [|reflexivity]. clear OE E3v E2u E2v E1u E1v. subst pu pv cu cv.
  set (pu := gp (ogp ou)) in *. set (pv := gp (ogp ov)) in *. set (cu := oclr ou) in *. set (cv := oclr ov) in *.
  set (l1 := upd (objs s) u (uobj u ou pv cv)).
  assert (Ev1 : nth_error l1 v = Some ov) by (subst l1; rewrite nth_upd_other; auto).
  destruct (cnt_unique_upd (objs s) u ou (uobj u ou pv cv) Eu Ku Ku) as (H1 & W1). fold l1 in H1, W1.
  destruct (cnt_unique_upd l1 v ov (uobj v ov pu cu) Ev1 Kv Kv) as (H2 & W2).
  assert (UU : forall m, cnt (upr m) 0 (upd l1 v (uobj v ov pu cu)) = cnt (upr m) 0 (objs s)).
  { intros m. pose proof (cnt_upr_set (objs s) u ou pv cv m Eu) as C1. fold (uobj u ou pv cv) in C1. fold l1 in C1.
    pose proof (cnt_upr_set l1 v ov pu cu m Ev1) as C2. fold (uobj v ov pu cu) in C2.
    assert (upr m u ou = opt_is pu m) as A1 by (unfold upr, tgt; rewrite Ku, Wu; reflexivity).
    assert (upr m v ov = opt_is pv m) as A2 by (unfold upr, tgt; rewrite Kv, Wv; reflexivity).
    rewrite A1, Ku in C1. rewrite A2, Kv in C2. cbn [kind_eqb andb] in C1, C2. lia. }
  pose proof (pinv_same_counts None None s (upd l1 v (uobj v ov pu cu)) I) as Q. unfold set_objs in Q.
  apply Q; auto.
  - intros d. rewrite H2, H1. reflexivity.
  - intros d. rewrite W2, W1. reflexivity.
  - intros j oj E' KU Wf. rewrite nth_error_upd in E'. destruct (Nat.eqb_spec v j) as [->|Nv].
    + destruct (Nat.ltb j (length l1)); [|discriminate]. injection E' as <-. cbn [ogp oclr uobj gp].
      pose proof (inv_uniq _ _ I u ou Eu Ku Wu) as X. subst pu cu. destruct (gp (ogp ou)) as [m|] eqn:G; auto.
      rewrite UU. pose proof (upr_ge s u ou m Eu Ku Wu G). lia.
    + subst l1. rewrite nth_error_upd in E'. destruct (Nat.eqb_spec u j) as [->|Na].
      * destruct (Nat.ltb j (length (objs s))); [|discriminate]. injection E' as <-. cbn [ogp oclr uobj gp].
        pose proof (inv_uniq _ _ I v ov Ev Kv Wv) as X. subst pv cv. destruct (gp (ogp ov)) as [m|] eqn:G; auto.
        rewrite UU. pose proof (upr_ge s v ov m Ev Kv Wv G). lia.
      * pose proof (uniq_cond s None I j oj E' KU Wf) as X. destruct (gp (ogp oj)); auto. rewrite UU. auto.
Qed.

(** * The scripted pointer system: every call keeps the invariant; the guard *)
Definition margs (o : mop) : list nat :=
  match o with
  | UInit _ | SInit _ | WInit _ | StrayCopy _ _ => []
  | UAlloc u _ _ | UGet u | URelease u | UReset u => [u]
  | USwap u v => [u; v]
  | SAlloc x _ _ | SGet x | SUnique x | SReset x => [x]
  | SShare e n => [e; n]
  | SSwap a b | WSwap a b => [a; b]
  | WFrom w x | WLock w x => [w; x]
  | WReset w => [w]
  | GInit _ | GSet _ _ => []
  | GGet g | GGetC g => [g]
  | GCopy _ src => [src]
  | GSwap a b => [a; b]
  end.

Definition stray (s : st) (i : nat) : Prop :=
  exists o, nth_error (objs s) i = Some o /\ wf_obj i o = false.
Definition wfo (s : st) (i : nat) : Prop :=
  exists o, nth_error (objs s) i = Some o /\ wf_obj i o = true.

Lemma has_kind_spec s i k : has_kind s i k = true -> exists o, nth_error (objs s) i = Some o /\ okind o = k.
Proof.
  unfold has_kind, kind_at. destruct (nth_error (objs s) i) as [o|]; [|discriminate]. cbn.
  intros H. exists o. split; auto. destruct (okind o), k; try discriminate; reflexivity.
Qed.

Lemma stray_gget s i o : nth_error (objs s) i = Some o -> wf_obj i o = false ->
  (g <- rd_gp s i;; gget (ASlot i) g) = Ab.
Proof. intros E W. unfold rd_gp, gget. rewrite E. cbn [bind]. unfold wf_obj in W. rewrite W. reflexivity. Qed.

Lemma stray_rd_up s i o : nth_error (objs s) i = Some o -> wf_obj i o = false ->
  (u <- rd_up s (ASlot i);; gget (ASlot i) (ugp u)) = Ab.
Proof. intros E W. unfold rd_up, gget. rewrite E. cbn [bind ugp]. unfold wf_obj in W. rewrite W. reflexivity. Qed.

Lemma shared_reset_stray s i o : nth_error (objs s) i = Some o -> wf_obj i o = false -> shared_reset s i = Ab.
Proof. intros E W. unfold shared_reset, rd_gp, gget. rewrite E. cbn [bind]. unfold wf_obj in W. rewrite W. reflexivity. Qed.
Lemma weak_reset_stray s i o : nth_error (objs s) i = Some o -> wf_obj i o = false -> weak_reset s i = Ab.
Proof. intros E W. unfold weak_reset, rd_gp, gget. rewrite E. cbn [bind]. unfold wf_obj in W. rewrite W. reflexivity. Qed.
Lemma unique_reset_stray s i o : nth_error (objs s) i = Some o -> wf_obj i o = false -> unique_reset s (ASlot i) = Ab.
Proof. intros E W. unfold unique_reset, rd_up, gget. rewrite E. cbn [bind ugp]. unfold wf_obj in W. rewrite W. reflexivity. Qed.

Lemma shared_get_spec s i o :
  inv s -> nth_error (objs s) i = Some o -> ownerk (okind o) = true -> wf_obj i o = true ->
  exists p, shared_get s i = Ok p /\
    match gp (ogp o) with
    | None => p = None
    | Some d => exists D m, lookup d (datas s) = Some D /\ gp (ugp (dup D)) = Some m /\ p = Some m /\
                            is_live (al s) m = true
    end.
Proof.
  intros I E K W. unfold shared_get, rd_gp. rewrite E. cbn [bind]. unfold gget at 1.
  pose proof W as W'. unfold wf_obj in W'. rewrite W'. cbn [bind].
  destruct (gp (ogp o)) as [d|] eqn:G; [|eauto].
  assert (T : tgt i o = Some d) by (unfold tgt; rewrite W; auto).
  destruct (owner_data None s i o d I E K T) as (D & L & Hp).
  unfold rd_data. rewrite L. cbn [bind]. unfold gget. rewrite (inv_self _ _ I d D L), addr_eqb_refl.
  destruct (inv_mem _ _ I d D L Hp) as (m & M1 & M2 & M3). rewrite M1. exists (Some m). split; auto.
  exists D, m. auto.
Qed.

Lemma shared_unique_spec s i o :
  inv s -> nth_error (objs s) i = Some o -> ownerk (okind o) = true -> wf_obj i o = true ->
  exists b, shared_unique s i = Ok b /\
    match gp (ogp o) with
    | None => b = true
    | Some d => b = ((cnt (hp None d) 0 (objs s) + cnt (wp None d) 0 (objs s)) mod 4294967296 =? 1)
    end.
Proof.
  intros I E K W. unfold shared_unique, rd_gp. rewrite E. cbn [bind]. unfold gget at 1.
  pose proof W as W'. unfold wf_obj in W'. rewrite W'. cbn [bind].
  destruct (gp (ogp o)) as [d|] eqn:G; [|eauto].
  assert (T : tgt i o = Some d) by (unfold tgt; rewrite W; auto).
  destruct (owner_data None s i o d I E K T) as (D & L & Hp).
  unfold rd_data. rewrite L. cbn [bind]. eexists. split; [reflexivity|]. rewrite (inv_soft _ _ I d D L). reflexivity.
Qed.

Lemma unique_get_spec s u o :
  nth_error (objs s) u = Some o -> wf_obj u o = true -> unique_get s (ASlot u) = Ok (gp (ogp o)).
Proof.
  intros E W. unfold unique_get, rd_up. rewrite E. cbn [bind ugp]. unfold gget. unfold wf_obj in W. rewrite W. reflexivity.
Qed.

(** ** guarded pointer objects: set / init / copy stamp the destination with
    its own address whatever it held before; get returns the stored value of
    a well-formed object *)
Lemma guarded_set_spec s i o p :
  nth_error (objs s) i = Some o ->
  guarded_set s i p = set_objs s (upd (objs s) i (ptr_obj i o p)) /\
  nth_error (objs (guarded_set s i p)) i = Some (ptr_obj i o p).
Proof.
  intros E. unfold guarded_set. rewrite (wr_gp_eq s i o p E). split; auto.
  cbn [objs set_objs]. eapply nth_upd_same; eauto.
Qed.

Lemma guarded_get_const_wf s i o :
  nth_error (objs s) i = Some o -> wf_obj i o = true -> guarded_get_const s i = Ok (gp (ogp o)).
Proof.
  intros E W. unfold guarded_get_const, rd_gp. rewrite E. cbn [bind]. unfold gget. unfold wf_obj in W. rewrite W. reflexivity.
Qed.

Lemma guarded_get_const_stray s i o :
  nth_error (objs s) i = Some o -> wf_obj i o = false -> guarded_get_const s i = Ab.
Proof. intros E W. unfold guarded_get_const. apply (stray_gget s i o E W). Qed.

Lemma guarded_copy_wf s dst src od os :
  nth_error (objs s) dst = Some od -> nth_error (objs s) src = Some os -> wf_obj src os = true ->
  guarded_copy s dst src = Ok (set_objs s (upd (objs s) dst (ptr_obj dst od (gp (ogp os))))).
Proof.
  intros Ed Es W. unfold guarded_copy. rewrite (guarded_get_const_wf s src os Es W). cbn [bind].
  rewrite (proj1 (guarded_set_spec s dst od _ Ed)). reflexivity.
Qed.

Lemma disposable_tgt s i o : disposable s i = true -> nth_error (objs s) i = Some o -> tgt i o = None.
Proof.
  unfold disposable, wfb, ptr_at. intros D E. rewrite E in D. unfold tgt, wf_obj.
  destruct (addr_eqb (gself (ogp o)) (ASlot i)); cbn in D; auto. destruct (gp (ogp o)); auto. discriminate.
Qed.

Section MStep.
  Variable ok : nat -> N -> bool.

  Ltac hk H := apply has_kind_spec in H; destruct H as (? & ? & ?).

  (** all object arguments well-formed: the call returns and keeps the invariant *)
  Lemma mexec_wf s o :
    inv s -> mdom s o = true -> (forall i, In i (margs o) -> wfo s i) ->
    exists s' out, mexec ok s o = Done s' out /\ inv s' /\ length (objs s') = length (objs s).
  Proof.
    intros I D WF. destruct o; cbn [mdom] in D; cbn [mexec margs] in *;
      repeat match goal with H : _ && _ = true |- _ => apply andb_prop in H; destruct H end.
    - (* UInit *) hk H. rename x into o. unfold unique_init, wr_up. rewrite H.
      eexists. eexists. split; [reflexivity|]. split.
      + cbn [ugp uclr]. apply pinv_upd_same_tgt with (o := o); auto.
        rewrite (disposable_tgt s u o H0 H). unfold tgt, wf_obj. cbn. rewrite Nat.eqb_refl. reflexivity.
      + cbn. apply upd_length.
    - (* UAlloc *) hk D. rename x into o. destruct (WF u (or_introl eq_refl)) as (o' & E' & W). assert (o' = o) by congruence. subst o'.
      destruct (unique_alloc_pool_spec ok s u o sz cb I H H0 W) as (s' & p & R & I' & O' & _).
      rewrite R. cbn. eexists. eexists. split; [reflexivity|]. split; auto. rewrite O'. apply upd_length.
    - (* UGet *) hk D. destruct (WF u (or_introl eq_refl)) as (o' & E' & W).
      rewrite (unique_get_spec s u o' E' W). cbn. eauto.
    - (* URelease *) hk D. rename x into o. destruct (WF u (or_introl eq_refl)) as (o' & E' & W). assert (o' = o) by congruence. subst o'.
      destruct (unique_release_pool_spec s u o I H H0 W) as (s' & R & I' & O').
      rewrite R. cbn. eexists. eexists. split; [reflexivity|]. split; auto. rewrite O'. apply upd_length.
    - (* USwap *) hk H. hk H1. rename x into ou. rename x0 into ov. apply negb_true_iff, Nat.eqb_neq in H0.
      destruct (WF u (or_introl eq_refl)) as (o' & E' & Wu). assert (o' = ou) by congruence. subst o'.
      destruct (WF v (or_intror (or_introl eq_refl))) as (o' & E'' & Wv). assert (o' = ov) by congruence. subst o'.
      destruct (unique_swap_spec s u v ou ov I H H1 H0 H2 H3 Wu Wv) as (s' & R & I' & O').
      rewrite R. cbn. eexists. eexists. split; [reflexivity|]. split; auto. rewrite O', !upd_length. auto.
    - (* UReset *) hk D. rename x into o. destruct (WF u (or_introl eq_refl)) as (o' & E' & W). assert (o' = o) by congruence. subst o'.
      destruct (unique_reset_pool_spec s u o I H H0 W) as (s' & R & I' & O' & _).
      rewrite R. cbn. eexists. eexists. split; [reflexivity|]. split; auto. rewrite O'. apply upd_length.
    - (* SInit *) hk H. rename x into o. unfold obj_reinit. rewrite H.
      eexists. eexists. split; [reflexivity|]. split.
      + exact (reinit_inv s s0 o I H (disposable_tgt s s0 o H0 H)).
      + cbn. apply upd_length.
    - (* SAlloc *) hk D. rename x into o. destruct (WF s0 (or_introl eq_refl)) as (o' & E' & W). assert (o' = o) by congruence. subst o'.
      assert (K : ownerk (okind o) = true) by (rewrite H0; reflexivity).
      destruct (shared_reset_spec s s0 o I H K W) as (s1 & R1 & I1 & O1).
      rewrite shared_alloc_unfold, R1. cbn [bind].
      assert (E1 : nth_error (objs s1) s0 = Some (ptr_obj s0 o None)) by (rewrite O1; eapply nth_upd_same; eauto).
      destruct (shared_alloc_tail_spec ok s1 s0 (ptr_obj s0 o None) sz (if cb then Some 0%nat else None) I1 E1) as (s' & R & I' & C); auto.
      { unfold tgt. rewrite wf_ptr_obj. reflexivity. }
      rewrite R. cbn. eexists. eexists. split; [reflexivity|]. split; auto.
      destruct C as [(d & m & a1 & _ & _ & _ & O' & _)|(O' & _)]; rewrite O', ?upd_length, O1, upd_length; auto.
    - (* SGet *) hk D. rename x into o. destruct (WF s0 (or_introl eq_refl)) as (o' & E' & W). assert (o' = o) by congruence. subst o'.
      assert (K : ownerk (okind o) = true) by (rewrite H0; reflexivity).
      destruct (shared_get_spec s s0 o I H K W) as (p & R & _). rewrite R. cbn. eauto.
    - (* SUnique *) hk D. rename x into o. destruct (WF s0 (or_introl eq_refl)) as (o' & E' & W). assert (o' = o) by congruence. subst o'.
      assert (K : ownerk (okind o) = true) by (rewrite H0; reflexivity).
      destruct (shared_unique_spec s s0 o I H K W) as (p & R & _). rewrite R. cbn. eauto.
    - (* SShare *) hk H. hk H0. rename x into oe. rename x0 into on.
      destruct (WF e (or_introl eq_refl)) as (o' & E' & We). assert (o' = oe) by congruence. subst o'.
      destruct (WF n (or_intror (or_introl eq_refl))) as (o' & E'' & Wn). assert (o' = on) by congruence. subst o'.
      destruct (shared_share_spec s e n oe on I H H0) as (s' & R & I' & O'); auto; try (rewrite ?H1, ?H2; reflexivity).
      rewrite R. cbn. eexists. eexists. split; [reflexivity|]. split; auto. rewrite O'. apply upd_length.
    - (* SSwap *) hk H. hk H0. rename x into oa. rename x0 into ob.
      destruct (WF a (or_introl eq_refl)) as (o' & E' & Wa). assert (o' = oa) by congruence. subst o'.
      destruct (WF b (or_intror (or_introl eq_refl))) as (o' & E'' & Wb). assert (o' = ob) by congruence. subst o'.
      destruct (gp_swap_spec s a b oa ob I H H0) as (s' & R & I' & O'); auto; try congruence.
      rewrite R. cbn. eexists. eexists. split; [reflexivity|]. split; auto. rewrite O', !upd_length. auto.
    - (* SReset *) hk D. rename x into o. destruct (WF s0 (or_introl eq_refl)) as (o' & E' & W). assert (o' = o) by congruence. subst o'.
      assert (K : ownerk (okind o) = true) by (rewrite H0; reflexivity).
      destruct (shared_reset_spec s s0 o I H K W) as (s1 & R1 & I1 & O1).
      rewrite R1. cbn. eexists. eexists. split; [reflexivity|]. split; auto. rewrite O1. apply upd_length.
    - (* WInit *) hk H. rename x into o. unfold obj_reinit. rewrite H.
      eexists. eexists. split; [reflexivity|]. split.
      + exact (reinit_inv s w o I H (disposable_tgt s w o H0 H)).
      + cbn. apply upd_length.
    - (* WFrom *) hk H. hk H0. rename x into ow. rename x0 into os.
      destruct (WF w (or_introl eq_refl)) as (o' & E' & Ww). assert (o' = ow) by congruence. subst o'.
      destruct (WF s0 (or_intror (or_introl eq_refl))) as (o' & E'' & Ws). assert (o' = os) by congruence. subst o'.
      destruct (weak_from_spec s w s0 ow os I H H0) as (s' & R & I' & O'); auto; try (rewrite ?H1, ?H2; reflexivity).
      rewrite R. cbn. eexists. eexists. split; [reflexivity|]. split; auto. rewrite O'. apply upd_length.
    - (* WLock *) hk H. hk H0. rename x into ow. rename x0 into os.
      destruct (WF w (or_introl eq_refl)) as (o' & E' & Ww). assert (o' = ow) by congruence. subst o'.
      destruct (WF s0 (or_intror (or_introl eq_refl))) as (o' & E'' & Ws). assert (o' = os) by congruence. subst o'.
      destruct (weak_lock_spec s w s0 ow os I H H0) as (s' & s1 & R & I' & _ & _ & _ & O'); auto; try (rewrite ?H1, ?H2; reflexivity).
      rewrite R. cbn. eexists. eexists. split; [reflexivity|]. split; auto. rewrite O'. apply upd_length.
    - (* WSwap *) hk H. hk H0. rename x into oa. rename x0 into ob.
      destruct (WF a (or_introl eq_refl)) as (o' & E' & Wa). assert (o' = oa) by congruence. subst o'.
      destruct (WF b (or_intror (or_introl eq_refl))) as (o' & E'' & Wb). assert (o' = ob) by congruence. subst o'.
      destruct (gp_swap_spec s a b oa ob I H H0) as (s' & R & I' & O'); auto; try congruence.
      rewrite R. cbn. eexists. eexists. split; [reflexivity|]. split; auto. rewrite O', !upd_length. auto.
    - (* WReset *) hk D. rename x into o. destruct (WF w (or_introl eq_refl)) as (o' & E' & W). assert (o' = o) by congruence. subst o'.
      destruct (weak_reset_spec None s w o I (or_introl eq_refl) H) as (s1 & R1 & I1 & O1); auto; try (rewrite H0; discriminate).
      rewrite R1. cbn. eexists. eexists. split; [reflexivity|]. split; auto. rewrite O1. apply upd_length.
    - (* StrayCopy *)
      destruct (nth_error (objs s) src) as [os|] eqn:Es; [|discriminate].
      destruct (nth_error (objs s) dst) as [od|] eqn:Ed; [|discriminate].
      repeat match goal with H : _ && _ = true |- _ => apply andb_prop in H; destruct H end.
      unfold stray_copy. rewrite Es. eexists. eexists. split; [reflexivity|]. split.
      + assert (K : okind os = okind od) by (destruct (okind os), (okind od); try discriminate; reflexivity).
        apply orb_prop in H2. destruct H2 as [KG'|DI].
        * apply (pinv_upd_kg s dst od os I Ed); destruct (okind od); try discriminate; congruence.
        * apply (stray_copy_inv s src dst os od I Es Ed); auto.
          -- eapply disposable_tgt; eauto.
          -- unfold wf_obj. apply negb_true_iff in H1. exact H1.
      + cbn. apply upd_length.
    - (* GInit *) hk D. rename x into o. unfold guarded_init, guarded_set, wr_gp. rewrite H.
      eexists. eexists. split; [reflexivity|]. split; [apply (pinv_upd_kg s g o _ I H); auto|cbn; apply upd_length].
    - (* GSet *) hk D. rename x into o. unfold guarded_set, wr_gp. rewrite H.
      eexists. eexists. split; [reflexivity|]. split; [apply (pinv_upd_kg s g o _ I H); auto|cbn; apply upd_length].
    - (* GGet *) hk D. destruct (WF g (or_introl eq_refl)) as (o' & E' & W).
      unfold guarded_get, guarded_get_const, rd_gp. rewrite E'. cbn [bind]. unfold gget. unfold wf_obj in W. rewrite W. cbn. eauto.
    - (* GGetC *) hk D. destruct (WF g (or_introl eq_refl)) as (o' & E' & W).
      unfold guarded_get_const, rd_gp. rewrite E'. cbn [bind]. unfold gget. unfold wf_obj in W. rewrite W. cbn. eauto.
    - (* GCopy *) hk H. hk H0. rename x into od. rename x0 into os.
      destruct (WF src (or_introl eq_refl)) as (o' & E' & W). assert (o' = os) by congruence. subst o'.
      unfold guarded_copy, guarded_get_const, rd_gp. rewrite E'. cbn [bind]. unfold gget. unfold wf_obj in W. rewrite W.
      cbn [bind of_res]. unfold guarded_set, wr_gp. rewrite H.
      eexists. eexists. split; [reflexivity|]. split; [apply (pinv_upd_kg s dst od _ I H); auto|cbn; apply upd_length].
    - (* GSwap *) hk H. hk H0. rename x into oa. rename x0 into ob.
      destruct (WF a (or_introl eq_refl)) as (o' & E' & Wa). assert (o' = oa) by congruence. subst o'.
      destruct (WF b (or_intror (or_introl eq_refl))) as (o' & E'' & Wb). assert (o' = ob) by congruence. subst o'.
      destruct (gp_swap_spec s a b oa ob I H H0) as (s' & R & I' & O'); auto; try congruence.
      rewrite R. cbn. eexists. eexists. split; [reflexivity|]. split; auto. rewrite O', !upd_length. auto.
  Qed.
End MStep.

Lemma wf_dec s i o : nth_error (objs s) i = Some o -> wfo s i \/ stray s i.
Proof. intros E. destruct (wf_obj i o) eqn:W; [left|right]; exists o; auto. Qed.

Section MStray.
  Variable ok : nat -> N -> bool.

  Ltac hk H := apply has_kind_spec in H; destruct H as (? & ? & ?).
  Ltac same_obj := repeat match goal with
    | H1 : nth_error ?l ?i = Some ?a, H2 : nth_error ?l ?i = Some ?b |- _ =>
      first [is_var b; assert (b = a) by congruence; subst b; clear H2
            |is_var a; assert (a = b) by congruence; subst a; clear H1] end.

  (** a stray copy in any argument position: the call aborts *)
  Lemma mexec_stray s o i :
    inv s -> mdom s o = true -> In i (margs o) -> stray s i -> mexec ok s o = Abort.
  Proof.
    intros I D IN (oi & Ei & Wi). pose proof Wi as Wi'. unfold wf_obj in Wi'.
    destruct o; cbn [mdom] in D; cbn [mexec margs In] in *;
      repeat match goal with H : _ && _ = true |- _ => apply andb_prop in H; destruct H end;
      try tauto.
    - (* UAlloc *) destruct IN as [<-|[]]. unfold unique_alloc. rewrite (unique_reset_stray s u oi); auto.
    - (* UGet *) destruct IN as [<-|[]]. unfold unique_get. rewrite (stray_rd_up s u oi); auto.
    - (* URelease *) destruct IN as [<-|[]]. unfold unique_release.
      unfold rd_up, gget. rewrite Ei. cbn [bind ugp]. rewrite Wi'. reflexivity.
    - (* USwap *) hk H. hk H1. unfold unique_swap.
      destruct (wf_obj u x) eqn:Wu.
      + destruct IN as [->|[->|[]]]; [congruence|]. assert (x0 = oi) by congruence. subst x0.
        rewrite (rd_up_slot s u x H). cbn [bind ugp]. unfold gget at 1. unfold wf_obj in Wu. rewrite Wu. cbn [bind].
        rewrite (rd_up_slot s i oi Ei). cbn [bind ugp]. unfold gget at 1. rewrite Wi'. reflexivity.
      + rewrite (rd_up_slot s u x H). cbn [bind ugp]. unfold gget at 1. unfold wf_obj in Wu. rewrite Wu. reflexivity.
    - (* UReset *) destruct IN as [<-|[]]. rewrite (unique_reset_stray s u oi); auto.
    - (* SAlloc *) destruct IN as [<-|[]]. unfold shared_alloc. rewrite (shared_reset_stray s s0 oi); auto.
    - (* SGet *) destruct IN as [<-|[]]. unfold shared_get. unfold rd_gp, gget. rewrite Ei. cbn [bind].
      rewrite Wi'. reflexivity.
    - (* SUnique *) destruct IN as [<-|[]]. unfold shared_unique. unfold rd_gp, gget. rewrite Ei. cbn [bind].
      rewrite Wi'. reflexivity.
    - (* SShare *) hk H. hk H0. unfold shared_share.
      destruct (wf_obj n x0) eqn:Wn.
      + destruct IN as [->|[->|[]]]; [|congruence]. assert (x = oi) by congruence. subst x.
        destruct (shared_reset_spec s n x0 I H0) as (s1 & R1 & I1 & O1); auto; [rewrite H2; reflexivity|].
        rewrite R1. cbn [bind]. assert (N : n <> i) by (intros ->; congruence).
        unfold rd_gp. rewrite O1, nth_upd_other, Ei by auto. cbn [bind]. unfold gget. rewrite Wi'. reflexivity.
      + rewrite (shared_reset_stray s n x0); auto.
    - (* SSwap *) hk H. hk H0. unfold gp_swap, rd_gp. rewrite H, H0. cbn [bind].
      destruct (wf_obj a x) eqn:Wa.
      + destruct IN as [->|[->|[]]]; [congruence|]. assert (x0 = oi) by congruence. subst x0.
        unfold gget. unfold wf_obj in Wa. rewrite Wa. cbn [bind]. rewrite Wi'. reflexivity.
      + unfold gget. unfold wf_obj in Wa. rewrite Wa. reflexivity.
    - (* SReset *) destruct IN as [<-|[]]. rewrite (shared_reset_stray s s0 oi); auto.
    - (* WFrom *) hk H. hk H0. unfold weak_from.
      destruct (wf_obj w x) eqn:Ww.
      + destruct IN as [->|[->|[]]]; [congruence|]. assert (x0 = oi) by congruence. subst x0.
        destruct (weak_reset_spec None s w x I (or_introl eq_refl) H) as (s1 & R1 & I1 & O1); auto; try (rewrite H1; discriminate).
        rewrite R1. cbn [bind]. assert (N : w <> i) by (intros ->; congruence).
        unfold rd_gp. rewrite O1, nth_upd_other, Ei by auto. cbn [bind]. unfold gget. rewrite Wi'. reflexivity.
      + rewrite (weak_reset_stray s w x); auto.
    - (* WLock *) hk H. hk H0. unfold weak_lock.
      destruct (wf_obj s0 x0) eqn:Ws.
      + destruct IN as [->|[->|[]]]; [|congruence]. assert (x = oi) by congruence. subst x.
        destruct (shared_reset_spec s s0 x0 I H0) as (s1 & R1 & I1 & O1); auto; [rewrite H2; reflexivity|].
        rewrite R1. cbn [bind]. assert (N : s0 <> i) by (intros ->; congruence).
        unfold rd_gp. rewrite O1, nth_upd_other, Ei by auto. cbn [bind]. unfold gget. rewrite Wi'. reflexivity.
      + rewrite (shared_reset_stray s s0 x0); auto.
    - (* WSwap *) hk H. hk H0. unfold gp_swap, rd_gp. rewrite H, H0. cbn [bind].
      destruct (wf_obj a x) eqn:Wa.
      + destruct IN as [->|[->|[]]]; [congruence|]. assert (x0 = oi) by congruence. subst x0.
        unfold gget. unfold wf_obj in Wa. rewrite Wa. cbn [bind]. rewrite Wi'. reflexivity.
      + unfold gget. unfold wf_obj in Wa. rewrite Wa. reflexivity.
    - (* WReset *) destruct IN as [<-|[]]. rewrite (weak_reset_stray s w oi); auto.
    - (* GGet *) destruct IN as [<-|[]]. unfold guarded_get, guarded_get_const. rewrite (stray_gget s g oi); auto.
    - (* GGetC *) destruct IN as [<-|[]]. unfold guarded_get_const. rewrite (stray_gget s g oi); auto.
    - (* GCopy: the source is read through the guard; the destination is only written *)
      destruct IN as [<-|[]]. unfold guarded_copy, guarded_get_const. rewrite (stray_gget s src oi); auto.
    - (* GSwap *) hk H. hk H0. unfold gp_swap, rd_gp. rewrite H, H0. cbn [bind].
      destruct (wf_obj a x) eqn:Wa.
      + destruct IN as [->|[->|[]]]; [congruence|]. assert (x0 = oi) by congruence. subst x0.
        unfold gget. unfold wf_obj in Wa. rewrite Wa. cbn [bind]. rewrite Wi'. reflexivity.
      + unfold gget. unfold wf_obj in Wa. rewrite Wa. reflexivity.
  Qed.
End MStray.

Lemma margs_exist s o i : mdom s o = true -> In i (margs o) -> exists oi, nth_error (objs s) i = Some oi.
Proof.
  intros D IN. destruct o; cbn [mdom margs In] in *;
    repeat match goal with H : _ && _ = true |- _ => apply andb_prop in H; destruct H end;
    repeat match goal with H : has_kind _ _ _ = true |- _ => apply has_kind_spec in H; destruct H as (? & ? & ?) end;
    repeat match goal with H : _ \/ _ |- _ => destruct H end; subst; try tauto; eauto.
Qed.

Lemma args_dec s l :
  (forall i, In i l -> exists o, nth_error (objs s) i = Some o) ->
  (forall i, In i l -> wfo s i) \/ (exists i, In i l /\ stray s i).
Proof.
  induction l as [|a l IH]; intros H; [left; intros i []|].
  destruct (H a (or_introl eq_refl)) as (o & E).
  destruct (wf_dec s a o E) as [W|S]; [|right; exists a; split; auto; left; auto].
  destruct IH as [A|(i & IN & S)].
  - intros i IN. apply H. right. auto.
  - left. intros i [<-|IN]; auto.
  - right. exists i. split; auto. right. auto.
Qed.

Section MStepThm.
  Variable ok : nat -> N -> bool.

  Theorem mstep_outcome s o :
    inv s ->
    match mstep ok s o with
    | Done s' _ => inv s' /\ length (objs s') = length (objs s)
    | Abort => exists i, In i (margs o) /\ stray s i
    | Fault => False
    | Precond => True
    end.
  Proof.
    intros I. unfold mstep. destruct (mdom s o) eqn:D; auto.
    destruct (args_dec s (margs o) (fun i IN => margs_exist s o i D IN)) as [W|(i & IN & S)].
    - destruct (mexec_wf ok s o I D W) as (s' & out & R & I' & L). rewrite R. auto.
    - rewrite (mexec_stray ok s o i I D IN S). eauto.
  Qed.
End MStepThm.

(** ** initial state *)
Lemma cnt_false p i0 l : (forall j o, nth_error l j = Some o -> p (i0 + j)%nat o = false) -> cnt p i0 l = 0.
Proof.
  revert i0. induction l as [|y r IH]; intros i0 H; cbn [cnt]; auto.
  rewrite (IH (S i0)).
  - specialize (H 0%nat y eq_refl). rewrite Nat.add_0_r in H. rewrite H. reflexivity.
  - intros j o E. specialize (H (S j) o E). rewrite <- Nat.add_succ_comm in H. auto.
Qed.

Lemma pool_init_nth ks i0 j o : nth_error (pool_init ks i0) j = Some o -> exists k, o = obj_init k (i0 + j).
Proof.
  revert i0 j. induction ks as [|k r IH]; intros i0 [|j] E; cbn in E; try discriminate.
  - injection E as <-. exists k. rewrite Nat.add_0_r. reflexivity.
  - destruct (IH (S i0) j E) as (k' & ->). exists k'. rewrite <- Nat.add_succ_comm. reflexivity.
Qed.

Lemma inv_init ks ex : inv (st_init ks ex).
Proof.
  assert (T : forall j o, nth_error (pool_init ks 0) j = Some o -> tgt j o = None /\ oclr o = None).
  { intros j o E. destruct (pool_init_nth ks 0 j o E) as (k & ->). cbn [Nat.add]. unfold tgt, wf_obj. cbn.
    rewrite Nat.eqb_refl. auto. }
  assert (Z : forall p : nat -> obj -> bool, (forall j o, tgt j o = None -> p j o = false) -> cnt p 0 (pool_init ks 0) = 0).
  { intros p H. apply cnt_false. intros j o E. cbn [Nat.add]. apply H. apply (T j o E). }
  assert (ZH : forall d, cnt (hp None d) 0 (pool_init ks 0) = 0) by (intros d; apply Z; intros j o E; unfold hp; rewrite E; cbn; apply andb_false_r).
  assert (ZW : forall d, cnt (wp None d) 0 (pool_init ks 0) = 0) by (intros d; apply Z; intros j o E; unfold wp; rewrite E; cbn; apply andb_false_r).
  assert (ZU : forall d, cnt (upr d) 0 (pool_init ks 0) = 0) by (intros d; apply Z; intros j o E; unfold upr; rewrite E; cbn; apply andb_false_r).
  constructor; unfold st_init; cbn [al objs datas descs exts log]; try (intros; discriminate).
  - split; [apply alloc_ok_init|]. split; [intros b []|]. split; [constructor|]. split; [|exact I].
    intros b. cbn. split; [intros []|intros (H & _); lia].
  - intros d _. auto.
  - intros i o E K W. destruct (T i o E) as (T1 & T2). unfold tgt in T1. rewrite W in T1. rewrite T1. auto.
  - intros m. rewrite ZU. lia.
Qed.

(** ** every history from initialised objects *)
Theorem reach_inv ks ex s : reach lmstep (st_init ks ex) s -> inv s /\ length (objs s) = length ks.
Proof.
  intros R. induction R as [|s l s' out R IH E].
  - split; [apply inv_init|]. unfold st_init. cbn [objs]. generalize 0%nat. induction ks; intros; cbn; auto.
  - destruct IH as (I & L). unfold lmstep in E. pose proof (mstep_outcome (fst l) s (snd l) I) as Q.
    rewrite E in Q. destruct Q as (I' & L'). split; auto. congruence.
Qed.

(** * Consequences of the invariant (the statements of C05) *)
Definition owners (s : st) (d : nat) : N := cnt (hp None d) 0 (objs s).
Definition weaks (s : st) (d : nat) : N := cnt (wp None d) 0 (objs s).
Definition managed (s : st) (m : nat) : Prop :=
  exists d D, lookup d (datas s) = Some D /\ gp (ugp (dup D)) = Some m.
Definition uowned (s : st) (m : nat) : Prop := 0 < cnt (upr m) 0 (objs s).

(** the bookkeeping block exists exactly while something refers to it *)
Lemma data_iff_referenced s d : inv s -> (lookup d (datas s) <> None <-> 0 < owners s d + weaks s d).
Proof.
  intros I. unfold owners, weaks. split.
  - destruct (lookup d (datas s)) as [D|] eqn:L; [|congruence]. intros _.
    rewrite <- (inv_soft _ _ I d D L). apply (inv_pos _ _ I d D L).
  - intros P L. destruct (inv_nodata _ _ I d L). lia.
Qed.

(** the managed memory exists exactly while the block has an owner *)
Lemma managed_iff_owner s d D :
  inv s -> lookup d (datas s) = Some D ->
  (0 < owners s d <-> exists m, gp (ugp (dup D)) = Some m /\ is_live (al s) m = true).
Proof.
  intros I L. unfold owners. rewrite <- (inv_hard _ _ I d D L). split.
  - intros P. destruct (inv_mem _ _ I d D L P) as (m & M1 & M2 & _). eauto.
  - intros (m & M & _). destruct (N.eq_dec (hard D) 0) as [Z|Z]; [|lia].
    rewrite (inv_hard0 _ _ I d D L Z) in M. discriminate.
Qed.

(** a block is live iff it is a referenced bookkeeping block, the memory of
    a block with an owner, or held by a unique pointer: nothing leaks,
    nothing owned is dead *)
Theorem live_iff_owned s b :
  inv s -> (is_live (al s) b = true <-> lookup b (datas s) <> None \/ managed s b \/ uowned s b).
Proof.
  intros I. split; [apply (inv_noleak _ _ I)|].
  intros [H|[(d & D & L & M)|H]].
  - destruct (lookup b (datas s)) as [D|] eqn:L; [|congruence]. apply (inv_live _ _ I b D L).
  - destruct (managed_live None s d D b I L M) as (_ & X & _). auto.
  - destruct (upr_live None s b I H). auto.
Qed.

(** every block ever allocated is either live or was released exactly once;
    no free of a dead or foreign pointer ever happened; every clear callback
    got live memory that was released immediately afterwards *)
Theorem released_exactly_once s :
  inv s ->
  NoDup (freed (log s)) /\
  (forall b, In b (freed (log s)) <-> (b < next (al s))%nat /\ is_live (al s) b = false) /\
  (forall b, ~ In (MA (EvBadFree b)) (log s)) /\
  ctf (log s).
Proof. intros I. destruct (inv_log _ _ I) as (_ & A & B & C & D). auto. Qed.

(** in [ctf] logs a clear callback is followed by the release of its argument *)
Lemma ctf_clear_followed l1 p t l2 :
  ctf (l1 ++ MClear p t :: l2) -> exists m l1', p = Some m /\ l1 = l1' ++ [MA (EvFree m)].
Proof.
  remember (length l1) as n eqn:Ln. revert l1 Ln p t l2.
  induction n as [n IH] using lt_wf_ind. intros l1 Ln p t l2 H.
  destruct l1 as [|e r]; [cbn in H; tauto|].
  destruct r as [|e' r'].
  - cbn [app] in H. destruct e as [[]|]; cbn in H; try tauto. destruct H as (-> & _). exists b, []. auto.
  - destruct e as [a|]; [|cbn in H; tauto].
    assert (C : (exists q u, e' = MClear q u /\ ctf (r' ++ MClear p t :: l2)) \/ ctf ((e' :: r') ++ MClear p t :: l2)).
    { destruct a; cbn [app ctf] in H; auto. destruct e' as [a'|q u]; [right; exact H|].
      left. exists q, u. split; auto. apply H. }
    destruct C as [(q & u & -> & C)|C].
    + destruct (IH (length r')) with (l1 := r') (p := p) (t := t) (l2 := l2) as (m & l1' & -> & E); auto.
      { subst n. cbn. lia. }
      exists m, (MA a :: MClear q u :: l1'). rewrite E. auto.
    + destruct (IH (length (e' :: r'))) with (l1 := e' :: r') (p := p) (t := t) (l2 := l2) as (m & l1' & -> & E); auto.
      { subst n. cbn. lia. }
      exists m, (MA a :: l1'). rewrite E. auto.
Qed.

Theorem no_leak s :
  inv s -> (forall i o, nth_error (objs s) i = Some o -> tgt i o = None) -> live (al s) = [].
Proof.
  intros I E.
  assert (Z : forall p : nat -> obj -> bool, (forall j o, tgt j o = None -> p j o = false) -> cnt p 0 (objs s) = 0).
  { intros p H. apply cnt_false. intros j o E'. cbn [Nat.add]. apply H. eauto. }
  assert (ZH : forall d, owners s d = 0) by (intros d; apply Z; intros j o T; unfold hp; rewrite T; cbn; apply andb_false_r).
  assert (ZW : forall d, weaks s d = 0) by (intros d; apply Z; intros j o T; unfold wp; rewrite T; cbn; apply andb_false_r).
  assert (ZU : forall d, cnt (upr d) 0 (objs s) = 0) by (intros d; apply Z; intros j o T; unfold upr; rewrite T; cbn; apply andb_false_r).
  destruct (live (al s)) as [|(b & sz) r] eqn:L; auto. exfalso.
  assert (LB : is_live (al s) b = true) by (apply is_live_In; rewrite L; left; auto).
  apply (live_iff_owned s b I) in LB. destruct LB as [H|[(d & D & Ld & M)|H]].
  - apply (data_iff_referenced s b I) in H. rewrite ZH, ZW in H. lia.
  - destruct (managed_live None s d D b I Ld M) as (P & _). rewrite (inv_hard _ _ I d D Ld) in P. fold (owners s d) in P. rewrite ZH in P. lia.
  - unfold uowned in H. rewrite ZU in H. lia.
Qed.

(** co-owners see the same live memory *)
Theorem get_agree s i j oi oj d :
  inv s -> nth_error (objs s) i = Some oi -> nth_error (objs s) j = Some oj ->
  ownerk (okind oi) = true -> ownerk (okind oj) = true -> wf_obj i oi = true -> wf_obj j oj = true ->
  gp (ogp oi) = Some d -> gp (ogp oj) = Some d ->
  exists m, shared_get s i = Ok (Some m) /\ shared_get s j = Ok (Some m) /\ is_live (al s) m = true.
Proof.
  intros I Ei Ej Ki Kj Wi Wj Gi Gj.
  destruct (shared_get_spec s i oi I Ei Ki Wi) as (p & R & S). rewrite Gi in S.
  destruct (shared_get_spec s j oj I Ej Kj Wj) as (q & R' & S'). rewrite Gj in S'.
  destruct S as (D & m & L & M & -> & Lv). destruct S' as (D' & m' & L' & M' & -> & _).
  assert (D' = D) by congruence. subst. assert (m' = m) by congruence. subst. eauto.
Qed.

(** cstl_weak_ptr_lock yields an owner iff one exists once the target has let go *)
Theorem lock_iff s w x ow ox :
  inv s -> nth_error (objs s) w = Some ow -> nth_error (objs s) x = Some ox ->
  okind ow = KW -> ownerk (okind ox) = true -> wf_obj w ow = true -> wf_obj x ox = true ->
  exists s', weak_lock s w x = Ok s' /\ inv s' /\
    forall d, ptr_at s' x = Some d <->
              gp (ogp ow) = Some d /\ 0 < cnt (hp None d) 0 (upd (objs s) x (ptr_obj x ox None)).
Proof.
  intros I Ew Ex Kw Kx Ww Wx.
  destruct (weak_lock_spec s w x ow ox I Ew Ex Kw Kx Ww Wx) as (s' & s1 & R & I' & _ & _ & O1 & O').
  exists s'. split; auto. split; auto. intros d. unfold ptr_at. rewrite O'.
  rewrite nth_upd_same with (o := ox) by auto. cbn [ogp ptr_obj gp]. rewrite O1.
  destruct (gp (ogp ow)) as [d'|]; [|split; [discriminate|intros (? & _); discriminate]].
  destruct (N.ltb_spec 0 (cnt (hp None d') 0 (upd (objs s) x (ptr_obj x ox None)))).
  - split; [intros [= <-]; auto|intros ([= <-] & _); auto].
  - split; [discriminate|intros ([= <-] & P); lia].
Qed.

(** cstl_shared_ptr_unique: true exactly when no other shared or weak
    reference exists (fewer than 2^31 pool objects, see the [int] conversion) *)
Theorem unique_iff s i o :
  inv s -> nth_error (objs s) i = Some o -> ownerk (okind o) = true -> wf_obj i o = true ->
  2 * N.of_nat (length (objs s)) < 4294967296 ->
  exists b, shared_unique s i = Ok b /\
    (b = true <-> match gp (ogp o) with None => True | Some d => owners s d + weaks s d = 1 end).
Proof.
  intros I E K W LEN. destruct (shared_unique_spec s i o I E K W) as (b & R & S). exists b. split; auto.
  destruct (gp (ogp o)) as [d|]; [|subst; tauto].
  pose proof (cnt_le_length (hp None d) 0 (objs s)). pose proof (cnt_le_length (wp None d) 0 (objs s)).
  unfold owners, weaks. rewrite S, N.mod_small by lia. apply N.eqb_eq.
Qed.

(** ** failed allocations *)
Section AllocFail.
  Variable ok : nat -> N -> bool.

  (** cstl_shared_ptr_alloc: the target first lets go; then either both
      requests are granted and the object owns a fresh block, or the object
      is empty and exactly the blocks live after the reset are live (a
      half-built bookkeeping block has been released again) *)
  Theorem shared_alloc_spec s i o sz cb :
    inv s -> nth_error (objs s) i = Some o -> ownerk (okind o) = true -> wf_obj i o = true ->
    exists s1 s', shared_reset s i = Ok s1 /\ inv s1 /\ shared_alloc ok s i sz cb = Ok s' /\ inv s' /\
      ((exists d m a1, 0 < sz /\ malloc ok (al s1) DATA_SZ = (a1, Some d) /\ malloc ok a1 sz = (al s', Some m) /\
          objs s' = upd (objs s) i (ptr_obj i o (Some d)) /\
          lookup d (datas s') = Some (mkD 1 1 (mkU (mkG (AData d) (Some m)) cb)) /\ descs s' = descs s1)
       \/
       (objs s' = upd (objs s) i (ptr_obj i o None) /\ (forall b, is_live (al s') b = is_live (al s1) b) /\
        (forall b, is_live (al s1) b = true -> lookup b (descs s') = lookup b (descs s1)) /\
        (sz = 0 \/ snd (malloc ok (al s1) DATA_SZ) = None \/
         exists a1 d, malloc ok (al s1) DATA_SZ = (a1, Some d) /\ snd (malloc ok a1 sz) = None))).
  Proof.
    intros I E K W. destruct (shared_reset_spec s i o I E K W) as (s1 & R1 & I1 & O1).
    assert (E1 : nth_error (objs s1) i = Some (ptr_obj i o None)) by (rewrite O1; eapply nth_upd_same; eauto).
    destruct (shared_alloc_tail_spec ok s1 i (ptr_obj i o None) sz cb I1 E1) as (s' & R & I' & C); auto.
    { unfold tgt. rewrite wf_ptr_obj. reflexivity. }
    exists s1, s'. split; auto. split; auto. split; [rewrite shared_alloc_unfold, R1; exact R|]. split; auto.
    destruct C as [(d & m & a1 & C1 & C2 & C3 & C4 & C5 & C6)|(C1 & C2 & C3 & C4)]; [left|right].
    - exists d, m, a1. rewrite C4, O1, upd_upd, ptr_obj_ptr_obj. auto 10.
    - rewrite C1, O1. auto.
  Qed.

  (** whenever one of the two requests of cstl_shared_ptr_alloc is refused,
      the failure branch is the one taken *)
  Theorem shared_alloc_refused s i o sz cb s1 :
    inv s -> nth_error (objs s) i = Some o -> ownerk (okind o) = true -> wf_obj i o = true ->
    shared_reset s i = Ok s1 ->
    (snd (malloc ok (al s1) DATA_SZ) = None \/
     exists a1 d, malloc ok (al s1) DATA_SZ = (a1, Some d) /\ snd (malloc ok a1 sz) = None) ->
    exists s', shared_alloc ok s i sz cb = Ok s' /\ inv s' /\
      objs s' = upd (objs s) i (ptr_obj i o None) /\ (forall b, is_live (al s') b = is_live (al s1) b).
  Proof.
    intros I E K W R1 F. destruct (shared_alloc_spec s i o sz cb I E K W) as (s1' & s' & R1' & _ & R & I' & C).
    assert (s1' = s1) by congruence. subst s1'. exists s'. split; auto. split; auto.
    destruct C as [(d & m & a1 & _ & M1 & M2 & _)|(C1 & C2 & _)]; auto.
    exfalso. destruct F as [F|(a1' & d' & M1' & F)].
    - rewrite M1 in F. discriminate.
    - rewrite M1 in M1'. injection M1' as <- <-. rewrite M2 in F. discriminate.
  Qed.

  (** cstl_unique_ptr_alloc with a refused request: the old memory has been
      destroyed, the object is empty, no block was added *)
  Theorem unique_alloc_refused s u o sz cb s1 :
    inv s -> nth_error (objs s) u = Some o -> okind o = KU -> wf_obj u o = true ->
    unique_reset s (ASlot u) = Ok s1 -> snd (malloc ok (al s1) sz) = None ->
    exists s', unique_alloc ok s (ASlot u) sz cb = Ok s' /\ inv s' /\
      objs s' = upd (objs s) u (uobj u o None None) /\ live (al s') = live (al s1).
  Proof.
    intros I E K W R F. destruct (unique_reset_pool_spec s u o I E K W) as (s1' & R' & I1 & O1 & _).
    assert (s1' = s1) by congruence. subst s1'.
    unfold unique_alloc. rewrite R. cbn [bind]. destruct (N.ltb_spec 0 sz).
    - unfold do_malloc. destruct (malloc ok (al s1) sz) as (a' & r) eqn:M. cbn in F. subst r.
      eexists. split; [reflexivity|]. unfold add_log, set_al. cbn [al objs datas descs exts log].
      pose proof (inv_log _ _ I1) as LI. pose proof (linv_malloc ok _ _ _ _ _ LI M) as LI1.
      pose proof (malloc_none ok _ _ _ M) as (LL & _). split; [|auto].
      apply pinv_ext; auto. intros b. unfold is_live. rewrite LL. reflexivity.
    - exists s1. auto.
  Qed.
End AllocFail.

(** * Frame: what a call can do to the parts of the state it does not own *)
Inductive frame (s s' : st) : Prop := Frame (H :
  alloc_ok (al s) ->
  alloc_ok (al s') /\ exts s' = exts s /\ (next (al s) <= next (al s'))%nat /\
  (exists l, log s' = l ++ log s) /\
  (forall b, lookup b (descs s') = lookup b (descs s) \/ In (MA (EvFree b)) (log s') \/ In (MA (EvBadFree b)) (log s')) /\
  (forall b, is_live (al s) b = true ->
             block_size (al s') b = block_size (al s) b \/ In (MA (EvFree b)) (log s')) /\
  (* bookkeeping blocks: new ones are fresh; an existing one keeps its
     embedded unique pointer or has it re-initialised *)
  (forall d D', lookup d (datas s') = Some D' ->
     (next (al s) <= d)%nat \/
     exists D, lookup d (datas s) = Some D /\ (dup D' = dup D \/ dup D' = up_init d))).

Lemma block_size_live a b : is_live a b = true <-> block_size a b <> None.
Proof.
  unfold is_live, block_size. split.
  - intros L. apply existsb_exists in L. destruct L as (x & I & E).
    destruct (find (fun p : nat * N => Nat.eqb (fst p) b) (live a)) eqn:Fd; [discriminate|].
    eapply find_none in Fd; eauto. congruence.
  - destruct (find (fun p : nat * N => Nat.eqb (fst p) b) (live a)) as [x|] eqn:Fd; [|cbn; congruence].
    intros _. apply find_some in Fd. apply existsb_exists. exists x. auto.
Qed.

Lemma frame_refl s : frame s s.
Proof.
  constructor. intros A. split; auto. split; auto. split; auto. split; [exists []; auto|]. split; auto. split; auto.
  intros d D' L. right. exists D'. auto.
Qed.

Lemma frame_trans s1 s2 s3 : frame s1 s2 -> frame s2 s3 -> frame s1 s3.
Proof.
  intros [F1] [F2]. constructor. intros A1.
  destruct (F1 A1) as (A2 & X1 & N1 & (l1 & L1) & D1 & B1 & S1). destruct (F2 A2) as (A3 & X2 & N2 & (l2 & L2) & D2 & B2 & S2).
  split; auto. split; [congruence|]. split; [lia|]. split; [exists (l2 ++ l1); rewrite L2, L1, app_assoc; auto|].
  assert (M : forall e, In e (log s2) -> In e (log s3)) by (intros e H; rewrite L2; apply in_or_app; auto).
  split; [|split].
  - intros b. destruct (D2 b) as [E|[E|E]]; auto. rewrite E. destruct (D1 b) as [E'|[E'|E']]; auto.
  - intros b L. destruct (B1 b L) as [E|E]; auto.
    assert (L2' : is_live (al s2) b = true).
    { apply block_size_live. rewrite E. apply block_size_live. auto. }
    destruct (B2 b L2') as [E2|E2]; auto. left. congruence.
  - intros d D3 L3. destruct (S2 d D3 L3) as [F|(D2' & L2' & E2)]; [left; lia|].
    destruct (S1 d D2' L2') as [F|(D1' & L1' & E1)]; [left; auto|]. right. exists D1'. split; auto.
    destruct E2 as [E2|E2]; [|auto]. rewrite E2. auto.
Qed.

Lemma frame_same s s' :
  al s' = al s -> descs s' = descs s -> exts s' = exts s -> log s' = log s -> datas s' = datas s -> frame s s'.
Proof.
  intros A D X L DT. constructor. intros O. rewrite A, D, X, L, DT. split; auto. split; auto. split; auto.
  split; [exists []; auto|]. split; auto. split; auto. intros d D' LD. right. exists D'. auto.
Qed.

Lemma frame_add_log s e : frame s (add_log s e).
Proof.
  constructor. intros A. unfold add_log. cbn. split; auto. split; auto. split; auto. split; [exists [e]; auto|].
  split; auto. split; auto. intros d D' LD. right. exists D'. auto.
Qed.

Lemma block_size_remove b b' l :
  b <> b' -> option_map snd (find (fun p : nat * N => Nat.eqb (fst p) b') (remove_block b l)) =
             option_map snd (find (fun p : nat * N => Nat.eqb (fst p) b') l).
Proof.
  intros N. unfold remove_block. induction l as [|(x & y) r IH]; cbn; auto.
  destruct (Nat.eqb_spec x b) as [->|Nx]; cbn.
  - destruct (Nat.eqb_spec b b'); [congruence|]. auto.
  - destruct (Nat.eqb_spec x b'); auto.
Qed.

Lemma frame_do_free s p : frame s (do_free s p).
Proof.
  destruct p as [b|]; [|apply frame_refl]. constructor. intros A. unfold do_free. cbn [al objs datas descs exts log].
  split; [apply free_ok; auto|]. split; auto. split; [rewrite next_free; auto|]. split; [eexists [_]; reflexivity|].
  split; [|split].
  - intros b'. rewrite lookup_remove. destruct (Nat.eqb_spec b b') as [->|N]; auto.
    right. destruct (is_live (al s) b'); [left|right]; left; auto.
  - intros b' L. unfold free. destruct (is_live (al s) b) eqn:Lb; auto.
    destruct (Nat.eq_dec b b') as [->|N].
    + right. left. auto.
    + left. unfold block_size. cbn [live]. apply block_size_remove; auto.
  - intros d D' LD. rewrite lookup_remove in LD. destruct (Nat.eqb_spec b d); [discriminate|]. right. exists D'. auto.
Qed.

Lemma frame_wr_data s d X D : rd_data s d = Ok D -> dup X = dup D -> frame s (wr_data s d X).
Proof.
  intros R E. unfold rd_data in R. destruct (lookup d (datas s)) as [D0|] eqn:L; [|discriminate]. injection R as ->.
  constructor. intros A. unfold wr_data, set_datas. cbn [al objs datas descs exts log].
  split; auto. split; auto. split; auto. split; [exists []; auto|]. split; auto. split; auto.
  intros d' D' LD. rewrite lookup_store in LD. right. destruct (Nat.eqb_spec d d') as [<-|N].
  - injection LD as <-. exists D. auto.
  - exists D'. auto.
Qed.

Lemma frame_set_objs s l : frame s (set_objs s l).
Proof. apply frame_same; reflexivity. Qed.

Lemma frame_wr_gp s i g : frame s (wr_gp s i g).
Proof. unfold wr_gp. destruct (nth_error (objs s) i); [apply frame_set_objs|apply frame_refl]. Qed.

Lemma frame_wr_up_slot s i u : frame s (wr_up s (ASlot i) u).
Proof. unfold wr_up. destruct (nth_error (objs s) i); [apply frame_set_objs|apply frame_refl]. Qed.

Lemma frame_unique_init s a : frame s (unique_init s a).
Proof.
  destruct a as [i|d]; [apply frame_wr_up_slot|]. unfold unique_init, wr_up.
  destruct (lookup d (datas s)) as [D|] eqn:L; [|apply frame_refl].
  constructor. intros A. unfold set_datas. cbn [al objs datas descs exts log].
  split; auto. split; auto. split; auto. split; [exists []; auto|]. split; auto. split; auto.
  intros d' D' LD. rewrite lookup_store in LD. right. destruct (Nat.eqb_spec d d') as [<-|N].
  - injection LD as <-. exists D. auto.
  - exists D'. auto.
Qed.

Section Frame.
  Variable ok : nat -> N -> bool.

  Lemma frame_do_malloc s sz : frame s (fst (do_malloc ok s sz)).
  Proof.
    constructor. intros A. unfold do_malloc. destruct (malloc ok (al s) sz) as (a' & r) eqn:M. cbn [fst].
    unfold add_log, set_al. cbn [al objs datas descs exts log].
    split; [eapply malloc_ok; eauto|]. split; auto.
    split; [destruct r; [apply malloc_some in M; destruct M as (_ & _ & ->); lia|apply malloc_none in M; destruct M as (_ & ->); lia]|].
    split; [eexists [_]; reflexivity|]. split; auto. split.
    - intros b L. left. destruct r as [b'|].
      + apply malloc_some in M. destruct M as (-> & LL & _). unfold block_size. rewrite LL. cbn.
        destruct (Nat.eqb_spec (next (al s)) b) as [<-|]; auto.
        rewrite fresh_not_live in L by auto. discriminate.
      + apply malloc_none in M. destruct M as (LL & _). unfold block_size. rewrite LL. reflexivity.
    - intros d D' LD. right. exists D'. auto.
  Qed.

  Lemma frame_do_malloc' s sz s2 r : do_malloc ok s sz = (s2, r) -> frame s s2.
  Proof. intros E. pose proof (frame_do_malloc s sz) as F. rewrite E in F. exact F. Qed.
End Frame.

Lemma ok_inj {A} (a b : A) : Ok a = Ok b -> a = b.
Proof. congruence. Qed.
Ltac okinj H := apply ok_inj in H; subst.

Ltac bind_inv H :=
  match type of H with
  | bind ?r _ = Ok _ => let E := fresh "E" in destruct r eqn:E; cbn [bind] in H; [|discriminate|discriminate]
  end.

Ltac fr_prim :=
  match goal with
  | |- frame ?s ?s => apply frame_refl
  | |- frame _ (do_free _ _) => eapply frame_trans; [|apply frame_do_free]
  | |- frame _ (wr_data _ _ _) => eapply frame_trans; [|eapply frame_wr_data; [eassumption|reflexivity]]
  | |- frame _ (wr_gp _ _ _) => eapply frame_trans; [|apply frame_wr_gp]
  | |- frame _ (wr_up _ (ASlot _) _) => eapply frame_trans; [|apply frame_wr_up_slot]
  | |- frame _ (unique_init _ _) => eapply frame_trans; [|apply frame_unique_init]
  | |- frame _ (add_log _ _) => eapply frame_trans; [|apply frame_add_log]
  | |- frame _ (set_objs _ _) => eapply frame_trans; [|apply frame_set_objs]
  | H : do_malloc _ ?a _ = (?b, _) |- frame _ ?b => eapply frame_trans; [|eapply frame_do_malloc'; exact H]
  end.

Lemma frame_unique_reset s a s' : unique_reset s a = Ok s' -> frame s s'.
Proof.
  unfold unique_reset. intros H. bind_inv H. bind_inv H. okinj H.
  destruct (uclr a0); repeat fr_prim.
Qed.

Ltac fr_fun1 := first [fr_prim | match goal with
  | H : unique_reset ?a _ = Ok ?b |- frame _ ?b => eapply frame_trans; [|eapply frame_unique_reset; exact H]
  end].

Lemma frame_weak_reset s i s' : weak_reset s i = Ok s' -> frame s s'.
Proof.
  unfold weak_reset. intros H. bind_inv H. bind_inv H. destruct a0 as [d|]; [|okinj H; apply frame_refl].
  bind_inv H. destruct (soft a0 =? 1); okinj H; repeat fr_prim.
Qed.

Ltac fr_fun2 := first [fr_fun1 | match goal with
  | H : weak_reset ?a _ = Ok ?b |- frame _ ?b => eapply frame_trans; [|eapply frame_weak_reset; exact H]
  end].

Lemma frame_shared_reset s i s' : shared_reset s i = Ok s' -> frame s s'.
Proof.
  unfold shared_reset. intros H. bind_inv H. bind_inv H. destruct a0 as [d|]; [|okinj H; apply frame_refl].
  bind_inv H. bind_inv H. destruct (hard a0 =? 1); [|okinj E2]; repeat fr_fun2.
Qed.

Ltac fr_fun3 := first [fr_fun2 | match goal with
  | H : shared_reset ?a _ = Ok ?b |- frame _ ?b => eapply frame_trans; [|eapply frame_shared_reset; exact H]
  end].

Lemma frame_shared_share s e n s' : shared_share s e n = Ok s' -> frame s s'.
Proof.
  unfold shared_share. intros H. bind_inv H. bind_inv H. bind_inv H. bind_inv H. bind_inv H.
  destruct a3; [bind_inv H|]; okinj H; repeat fr_fun3.
Qed.

Lemma frame_gp_swap s a b s' : gp_swap s a b = Ok s' -> frame s s'.
Proof. unfold gp_swap. intros H. repeat bind_inv H. okinj H. repeat fr_fun3. Qed.

Lemma frame_weak_from s w sp s' : weak_from s w sp = Ok s' -> frame s s'.
Proof.
  unfold weak_from. intros H. bind_inv H. bind_inv H. bind_inv H. bind_inv H. bind_inv H.
  destruct a3; [bind_inv H|]; okinj H; repeat fr_fun3.
Qed.

Lemma frame_weak_lock s w sp s' : weak_lock s w sp = Ok s' -> frame s s'.
Proof.
  unfold weak_lock. intros H. bind_inv H. bind_inv H. bind_inv H. bind_inv H. bind_inv H.
  destruct a3; [|okinj H; repeat fr_fun3]. bind_inv H.
  destruct (0 <? hard a3); bind_inv H; okinj H; repeat fr_fun3.
Qed.

Lemma frame_unique_swap s u v s' : unique_swap s (ASlot u) (ASlot v) = Ok s' -> frame s s'.
Proof. unfold unique_swap. intros H. repeat bind_inv H. okinj H. repeat fr_fun3. Qed.

Section Frame2.
  Variable ok : nat -> N -> bool.

  Lemma frame_unique_alloc_slot s u sz cb s' : unique_alloc ok s (ASlot u) sz cb = Ok s' -> frame s s'.
  Proof.
    unfold unique_alloc. intros H. bind_inv H.
    destruct (0 <? sz); [|okinj H; repeat fr_fun3].
    destruct (do_malloc ok a sz) as (s2 & [m|]) eqn:M; okinj H; repeat fr_fun3.
  Qed.

  (** writing the entry of a bookkeeping block that did not exist in [s0] *)
  Lemma frame_fresh_entry s0 s d X :
    frame s0 s -> (next (al s0) <= d)%nat -> frame s0 (set_datas s (store d X (datas s))).
  Proof.
    intros [F] FR. constructor. intros O. destruct (F O) as (A & X' & N' & L & D & B & S).
    unfold set_datas. cbn [al objs datas descs exts log]. repeat (split; auto).
    intros d' D' LD. rewrite lookup_store in LD. destruct (Nat.eqb_spec d d') as [<-|N]; [left; auto|]. eauto.
  Qed.

  Lemma frame_fresh_wr_data s0 s d X : frame s0 s -> (next (al s0) <= d)%nat -> frame s0 (wr_data s d X).
  Proof. apply frame_fresh_entry. Qed.

  Lemma frame_fresh_wr_up s0 s d u : frame s0 s -> (next (al s0) <= d)%nat -> frame s0 (wr_up s (AData d) u).
  Proof. intros F FR. unfold wr_up. destruct (lookup d (datas s)); auto. apply frame_fresh_entry; auto. Qed.

  (** a new bookkeeping block: request, initialise, allocate the memory,
      publish or roll back *)
  Lemma frame_shared_alloc_tail s1 i sz cb s' : shared_alloc_tail ok s1 i sz cb = Ok s' -> frame s1 s'.
  Proof.
    unfold shared_alloc_tail. intros H. destruct (0 <? sz) eqn:SZ; [|okinj H; apply frame_refl].
    destruct (do_malloc ok s1 DATA_SZ) as (s2 & [d|]) eqn:M; [|okinj H; repeat fr_prim].
    assert (FR : (next (al s1) <= d)%nat).
    { unfold do_malloc in M. destruct (malloc ok (al s1) DATA_SZ) as (a' & r) eqn:MM. injection M as <- ->.
      apply malloc_some in MM. lia. }
    unfold unique_alloc, unique_reset, unique_get in H. rewrite SZ in H.
    repeat match goal with
    | H : bind ?r _ = Ok _ |- _ => let E := fresh "E" in destruct r eqn:E; cbn [bind] in H; [|discriminate|discriminate]
    | H : Ok _ = Ok _ |- _ => apply ok_inj in H; subst
    | H : (let '(x, y) := ?e in _) = Ok _ |- _ => destruct e as (? & ?) eqn:?
    | H : match ?x with Some _ => _ | None => _ end = Ok _ |- _ => destruct x eqn:?
    end.
    all: repeat first [ apply frame_fresh_wr_data; [|exact FR] | apply frame_fresh_wr_up; [|exact FR]
                     | (unfold unique_init; apply frame_fresh_wr_up; [|exact FR]) | fr_prim
                     | match goal with |- frame _ (match ?x with _ => _ end) => destruct x end ].
  Qed.
End Frame2.

Section Frame3.
  Variable ok : nat -> N -> bool.

  Lemma frame_shared_alloc s i sz cb s' : shared_alloc ok s i sz cb = Ok s' -> frame s s'.
  Proof.
    rewrite shared_alloc_unfold. intros H. bind_inv H.
    eapply frame_trans; [eapply frame_shared_reset; eauto|eapply frame_shared_alloc_tail; eauto].
  Qed.

  Lemma done_inj {S} (a b : S) o o' : Done a o = Done b o' -> a = b.
  Proof. congruence. Qed.

  Lemma frame_mstep s o s' out : mstep ok s o = Done s' out -> frame s s'.
  Proof.
    unfold mstep. destruct (mdom s o); [|discriminate]. destruct o; cbn [mexec]; unfold of_res; intros H.
    - apply done_inj in H; subst s'. apply frame_unique_init.
    - destruct (unique_alloc ok s (ASlot u) sz cb) eqn:E; try discriminate. apply done_inj in H; subst s'. eapply frame_unique_alloc_slot; eauto.
    - destruct (unique_get s (ASlot u)); try discriminate. apply done_inj in H; subst s'. apply frame_refl.
    - destruct (unique_release s (ASlot u)) as [((s1 & p) & c)| |] eqn:E; try discriminate. apply done_inj in H; subst s'.
      unfold unique_release in E. repeat bind_inv E. apply ok_inj in E.
      assert (X : unique_init s (ASlot u) = s1) by congruence. subst s1. repeat fr_fun3.
    - destruct (unique_swap s (ASlot u) (ASlot v)) eqn:E; try discriminate. apply done_inj in H; subst s'. eapply frame_unique_swap; eauto.
    - destruct (unique_reset s (ASlot u)) eqn:E; try discriminate. apply done_inj in H; subst s'. eapply frame_unique_reset; eauto.
    - apply done_inj in H; subst s'. unfold obj_reinit. destruct (nth_error (objs s) s0); [apply frame_set_objs|apply frame_refl].
    - destruct (shared_alloc ok s s0 sz _) eqn:E; try discriminate. apply done_inj in H; subst s'. eapply frame_shared_alloc; eauto.
    - destruct (shared_get s s0); try discriminate. apply done_inj in H; subst s'. apply frame_refl.
    - destruct (shared_unique s s0); try discriminate. apply done_inj in H; subst s'. apply frame_refl.
    - destruct (shared_share s e n) eqn:E; try discriminate. apply done_inj in H; subst s'. eapply frame_shared_share; eauto.
    - destruct (gp_swap s a b) eqn:E; try discriminate. apply done_inj in H; subst s'. eapply frame_gp_swap; eauto.
    - destruct (shared_reset s s0) eqn:E; try discriminate. apply done_inj in H; subst s'. eapply frame_shared_reset; eauto.
    - apply done_inj in H; subst s'. unfold obj_reinit. destruct (nth_error (objs s) w); [apply frame_set_objs|apply frame_refl].
    - destruct (weak_from s w s0) eqn:E; try discriminate. apply done_inj in H; subst s'. eapply frame_weak_from; eauto.
    - destruct (weak_lock s w s0) eqn:E; try discriminate. apply done_inj in H; subst s'. eapply frame_weak_lock; eauto.
    - destruct (gp_swap s a b) eqn:E; try discriminate. apply done_inj in H; subst s'. eapply frame_gp_swap; eauto.
    - destruct (weak_reset s w) eqn:E; try discriminate. apply done_inj in H; subst s'. eapply frame_weak_reset; eauto.
    - apply done_inj in H; subst s'. unfold stray_copy. destruct (nth_error (objs s) src); [apply frame_set_objs|apply frame_refl].
    - apply done_inj in H; subst s'. unfold guarded_init, guarded_set. apply frame_wr_gp.
    - apply done_inj in H; subst s'. unfold guarded_set. apply frame_wr_gp.
    - destruct (guarded_get s g); try discriminate. apply done_inj in H; subst s'. apply frame_refl.
    - destruct (guarded_get_const s g); try discriminate. apply done_inj in H; subst s'. apply frame_refl.
    - destruct (guarded_copy s dst src) eqn:E; try discriminate. apply done_inj in H; subst s'.
      unfold guarded_copy in E. bind_inv E. okinj E. unfold guarded_set. apply frame_wr_gp.
    - destruct (gp_swap s a b) eqn:E; try discriminate. apply done_inj in H; subst s'. eapply frame_gp_swap; eauto.
  Qed.
End Frame3.

Lemma freed_app l1 l2 : freed (l1 ++ l2) = freed l1 ++ freed l2.
Proof. unfold freed. apply flat_map_app. Qed.

Lemma In_freed l b : In b (freed l) <-> In (MA (EvFree b)) l.
Proof.
  unfold freed. rewrite in_flat_map. split.
  - intros (e & I & H). destruct e as [[]|]; cbn in H; try tauto. destruct H as [<-|[]]. auto.
  - intros I. exists (MA (EvFree b)). split; auto. left. auto.
Qed.

(** two states with the invariant, related by a frame: the events in between
    release exactly the blocks that were live before and are not live after *)
Lemma frame_releases s s' :
  inv s -> inv s' -> frame s s' ->
  exists l, log s' = l ++ log s /\
    forall b, is_live (al s) b = true -> (In b (freed l) <-> is_live (al s') b = false).
Proof.
  intros I I' [F]. pose proof (inv_log _ _ I) as (A & _ & _ & FR & _).
  destruct (F A) as (A' & _ & NX & (l & L) & _ & _ & _). exists l. split; auto. intros b Lb.
  pose proof (inv_log _ _ I') as (_ & _ & ND' & FR' & _). rewrite L, freed_app in ND', FR'.
  assert (NB : ~ In b (freed (log s))) by (rewrite FR; intros (_ & X); congruence).
  assert (LT : (b < next (al s'))%nat).
  { destruct A as (_ & A). specialize (A b). rewrite <- is_live_In in A. specialize (A Lb). lia. }
  split.
  - intros IN. apply (FR' b). apply in_or_app. auto.
  - intros D. assert (In b (freed l ++ freed (log s))) as IN by (apply FR'; auto).
    apply in_app_or in IN. tauto.
Qed.

Section Timing.
  Variable ok : nat -> N -> bool.

  (** destroy_exactly_once (timing): the events appended by one call release
      exactly the blocks that were live before and are not owned afterwards *)
  Theorem step_releases s o s' out :
    inv s -> mstep ok s o = Done s' out ->
    exists l, log s' = l ++ log s /\
      forall b, is_live (al s) b = true -> (In b (freed l) <-> is_live (al s') b = false).
  Proof.
    intros I E. pose proof (mstep_outcome ok s o I) as Q. rewrite E in Q. destruct Q as (I' & _).
    apply frame_releases; auto. eapply frame_mstep; eauto.
  Qed.
End Timing.

(** a block with an owner before and after keeps its managed memory *)
Lemma frame_owner_keeps s s' d D D' :
  inv s -> inv s' -> frame s s' -> lookup d (datas s) = Some D -> lookup d (datas s') = Some D' ->
  0 < hard D' -> dup D' = dup D.
Proof.
  intros I I' [F] L L' P. pose proof (inv_log _ _ I) as (A & _).
  destruct (F A) as (_ & _ & _ & _ & _ & _ & S).
  destruct (S d D' L') as [FR|(D0 & L0 & [E|E])].
  - exfalso. pose proof (inv_live _ _ I d D L) as Lv. destruct A as (_ & A). specialize (A d).
    rewrite <- is_live_In in A. specialize (A Lv). lia.
  - congruence.
  - destruct (inv_mem _ _ I' d D' L' P) as (m & M & _). rewrite E in M. discriminate.
Qed.

(** * Footprint on the object pool: a call writes only its argument slots
    and never changes the kind (C type) of a slot *)
Definition ofr (js : list nat) (s s' : st) : Prop :=
  (forall j, ~ In j js -> nth_error (objs s') j = nth_error (objs s) j) /\
  (forall j, option_map okind (nth_error (objs s') j) = option_map okind (nth_error (objs s) j)).

Lemma ofr_refl js s : ofr js s s.
Proof. split; intros; reflexivity. Qed.
Lemma ofr_trans js s1 s2 s3 : ofr js s1 s2 -> ofr js s2 s3 -> ofr js s1 s3.
Proof. intros (A & A') (B & B'). split; [intros j N; rewrite (B j N); apply A; auto|intros j; rewrite B'; apply A']. Qed.
Lemma ofr_mono js js' s s' : (forall j, In j js -> In j js') -> ofr js s s' -> ofr js' s s'.
Proof. intros M (A & A'). split; [intros j N; apply A; auto|auto]. Qed.
Lemma ofr_same js s s' : objs s' = objs s -> ofr js s s'.
Proof. intros E. split; intros; rewrite E; reflexivity. Qed.
Lemma ofr_upd js s i x :
  In i js -> (forall o, nth_error (objs s) i = Some o -> okind x = okind o) -> ofr js s (set_objs s (upd (objs s) i x)).
Proof.
  intros I K. split; intros j; cbn.
  - intros N. apply nth_error_upd_other. intros ->. auto.
  - rewrite nth_error_upd. destruct (Nat.eqb_spec i j) as [->|]; auto.
    destruct (nth_error (objs s) j) as [o|] eqn:E.
    + assert (j < length (objs s))%nat by (apply nth_error_Some; congruence).
      destruct (Nat.ltb_spec j (length (objs s))); [|lia]. cbn. f_equal. auto.
    + apply nth_error_None in E. destruct (Nat.ltb_spec j (length (objs s))); [lia|]. reflexivity.
Qed.
Lemma ofr_wr_gp js s i g : In i js -> ofr js s (wr_gp s i g).
Proof.
  intros I. unfold wr_gp. destruct (nth_error (objs s) i) eqn:E; [|apply ofr_refl].
  apply ofr_upd; auto. intros o' E'. assert (o' = o) by congruence. subst. reflexivity.
Qed.
Lemma ofr_wr_up js s a u : (forall i, a = ASlot i -> In i js) -> ofr js s (wr_up s a u).
Proof.
  intros I. destruct a as [i|d]; unfold wr_up.
  - destruct (nth_error (objs s) i) eqn:E; [|apply ofr_refl].
    apply ofr_upd; auto. intros o' E'. assert (o' = o) by congruence. subst. reflexivity.
  - destruct (lookup d (datas s)); [apply ofr_same; reflexivity|apply ofr_refl].
Qed.
Lemma ofr_wr_up_slot js s i u : In i js -> ofr js s (wr_up s (ASlot i) u).
Proof. intros I. apply ofr_wr_up. intros ? [= <-]. auto. Qed.
Lemma ofr_wr_up_data js s d u : ofr js s (wr_up s (AData d) u).
Proof. apply ofr_wr_up. intros ? ?. discriminate. Qed.
Lemma ofr_do_free js s p : ofr js s (do_free s p).
Proof. destruct p; [apply ofr_same; reflexivity|apply ofr_refl]. Qed.

Lemma ofr_wr_data js s d D : ofr js s (wr_data s d D).
Proof. apply ofr_same. reflexivity. Qed.
Lemma ofr_add_log js s e : ofr js s (add_log s e).
Proof. apply ofr_same. reflexivity. Qed.
Lemma ofr_set_datas js s d : ofr js s (set_datas s d).
Proof. apply ofr_same. reflexivity. Qed.
Lemma ofr_do_malloc ok js s sz s2 r : do_malloc ok s sz = (s2, r) -> ofr js s s2.
Proof. unfold do_malloc. destruct (malloc ok (al s) sz). intros [= <- _]. apply ofr_same. reflexivity. Qed.

Ltac of_prim :=
  match goal with
  | |- ofr _ ?s ?s => apply ofr_refl
  | |- ofr _ _ (do_free _ _) => eapply ofr_trans; [|apply ofr_do_free]
  | |- ofr _ _ (wr_data _ _ _) => eapply ofr_trans; [|apply ofr_wr_data]
  | |- ofr _ _ (add_log _ _) => eapply ofr_trans; [|apply ofr_add_log]
  | |- ofr _ _ (set_datas _ _) => eapply ofr_trans; [|apply ofr_set_datas]
  | |- ofr _ _ (wr_gp _ _ _) => eapply ofr_trans; [|apply ofr_wr_gp; first [assumption|cbn; tauto]]
  | |- ofr _ _ (wr_up _ (ASlot _) _) => eapply ofr_trans; [|apply ofr_wr_up_slot; first [assumption|cbn; tauto]]
  | |- ofr _ _ (wr_up _ (AData _) _) => eapply ofr_trans; [|apply ofr_wr_up_data]
  | |- ofr _ _ (unique_init _ _) => unfold unique_init
  | |- ofr _ _ (match ?x with _ => _ end) => destruct x
  | H : do_malloc _ ?a _ = (?b, _) |- ofr _ _ ?b => eapply ofr_trans; [|eapply ofr_do_malloc; exact H]
  end.

Ltac inv_all :=
  repeat match goal with
  | H : bind ?r _ = Ok _ |- _ => let E := fresh "E" in destruct r eqn:E; cbn [bind] in H; [|discriminate|discriminate]
  | H : Ok _ = Ok _ |- _ => apply ok_inj in H; subst
  | H : (let '(x, y) := ?e in _) = Ok _ |- _ => destruct e as (? & ?) eqn:?
  | H : match ?x with Some _ => _ | None => _ end = Ok _ |- _ => destruct x eqn:?
  | H : (if ?c then _ else _) = Ok _ |- _ => destruct c eqn:?
  end.

Lemma ofr_unique_reset s a s' js : (forall i, a = ASlot i -> In i js) -> unique_reset s a = Ok s' -> ofr js s s'.
Proof.
  intros I H. unfold unique_reset in H. inv_all.
  all: destruct a as [i0|d0]; [assert (In i0 js) by (apply I; reflexivity)|]; repeat of_prim.
Qed.

Ltac of_fun := first [of_prim | match goal with
  | H : unique_reset ?a ?x = Ok ?b |- ofr _ _ ?b =>
    eapply ofr_trans; [|eapply (ofr_unique_reset a x b); [|exact H]; first [intros ? ?; discriminate | intros ? [= <-]; first [assumption|cbn; tauto]]]
  end].

Lemma ofr_weak_reset s i s' js : In i js -> weak_reset s i = Ok s' -> ofr js s s'.
Proof. intros I H. unfold weak_reset in H. inv_all; repeat of_fun. Qed.

Ltac of_fun2 := first [of_fun | match goal with
  | H : weak_reset ?a ?i = Ok ?b |- ofr _ _ ?b => eapply ofr_trans; [|eapply (ofr_weak_reset a i b); [|exact H]; first [assumption|cbn; tauto]]
  end].

Lemma ofr_shared_reset s i s' js : In i js -> shared_reset s i = Ok s' -> ofr js s s'.
Proof. intros I H. unfold shared_reset in H. inv_all; repeat of_fun2. Qed.

Ltac of_fun3 := first [of_fun2 | match goal with
  | H : shared_reset ?a ?i = Ok ?b |- ofr _ _ ?b => eapply ofr_trans; [|eapply (ofr_shared_reset a i b); [|exact H]; first [assumption|cbn; tauto]]
  end].

Section Ofr.
  Variable ok : nat -> N -> bool.

  Lemma ofr_unique_alloc s a sz cb s' js :
    (forall i, a = ASlot i -> In i js) -> unique_alloc ok s a sz cb = Ok s' -> ofr js s s'.
  Proof.
    intros I H. unfold unique_alloc in H. inv_all.
    all: destruct a as [i0|d0]; [assert (In i0 js) by (apply I; reflexivity)|]; repeat of_fun3.
  Qed.

  Lemma ofr_shared_alloc s i sz cb s' js : In i js -> shared_alloc ok s i sz cb = Ok s' -> ofr js s s'.
  Proof.
    intros I H. unfold shared_alloc in H. inv_all; repeat of_fun3.
    all: match goal with H : unique_alloc _ ?a (AData ?d) _ _ = Ok ?b |- _ =>
           apply (ofr_unique_alloc a (AData d) _ _ b js) in H; [|intros ? ?; discriminate] end.
    all: try (unfold unique_get in *; inv_all).
    all: repeat first [of_fun3 | match goal with H : ofr _ ?a ?b |- ofr _ _ ?b => eapply ofr_trans; [|exact H] end].
  Qed.
End Ofr.

Lemma ofr_shared_share s e n s' js : In n js -> shared_share s e n = Ok s' -> ofr js s s'.
Proof. intros I H. unfold shared_share in H. inv_all; repeat of_fun3. Qed.
Lemma ofr_gp_swap s a b s' js : In a js -> In b js -> gp_swap s a b = Ok s' -> ofr js s s'.
Proof. intros I J H. unfold gp_swap in H. inv_all; repeat of_fun3. Qed.
Lemma ofr_weak_from s w sp s' js : In w js -> weak_from s w sp = Ok s' -> ofr js s s'.
Proof. intros I H. unfold weak_from in H. inv_all; repeat of_fun3. Qed.
Lemma ofr_weak_lock s w sp s' js : In sp js -> weak_lock s w sp = Ok s' -> ofr js s s'.
Proof. intros I H. unfold weak_lock in H. inv_all; repeat of_fun3. Qed.
Lemma ofr_unique_swap s u v s' js : In u js -> In v js -> unique_swap s (ASlot u) (ASlot v) = Ok s' -> ofr js s s'.
Proof. intros I J H. unfold unique_swap in H. inv_all; repeat of_fun3. Qed.

(** slots a pointer operation may write *)
Definition mtouch (o : mop) : list nat :=
  match o with
  | UInit u | UAlloc u _ _ | URelease u | UReset u => [u]
  | UGet _ | SGet _ | SUnique _ => []
  | USwap u v => [u; v]
  | SInit x | SAlloc x _ _ | SReset x => [x]
  | SShare _ n => [n]
  | SSwap a b | WSwap a b => [a; b]
  | WInit w | WReset w => [w]
  | WFrom w _ => [w]
  | WLock _ x => [x]
  | StrayCopy _ dst => [dst]
  | GInit g | GSet g _ => [g]
  | GGet _ | GGetC _ => []
  | GCopy dst _ => [dst]
  | GSwap a b => [a; b]
  end.

Section OfrStep.
  Variable ok : nat -> N -> bool.

  Lemma ofr_mstep s o s' out : mstep ok s o = Done s' out -> ofr (mtouch o) s s'.
  Proof.
    unfold mstep. destruct (mdom s o) eqn:D; [|discriminate]. destruct o; cbn [mexec mtouch]; unfold of_res; intros H.
    - apply done_inj in H; subst s'. unfold unique_init. repeat of_prim.
    - destruct (unique_alloc ok s (ASlot u) sz cb) eqn:E; try discriminate. apply done_inj in H; subst s'.
      eapply ofr_unique_alloc; eauto. intros ? [= <-]. cbn; auto.
    - destruct (unique_get s (ASlot u)); try discriminate. apply done_inj in H; subst s'. apply ofr_refl.
    - destruct (unique_release s (ASlot u)) as [((s1 & p) & c)| |] eqn:E; try discriminate. apply done_inj in H; subst s'.
      unfold unique_release in E. repeat bind_inv E. apply ok_inj in E.
      assert (X : unique_init s (ASlot u) = s1) by congruence. subst s1. unfold unique_init. repeat of_prim.
    - destruct (unique_swap s (ASlot u) (ASlot v)) eqn:E; try discriminate. apply done_inj in H; subst s'.
      eapply ofr_unique_swap; eauto; cbn; auto.
    - destruct (unique_reset s (ASlot u)) eqn:E; try discriminate. apply done_inj in H; subst s'.
      eapply ofr_unique_reset; eauto. intros ? [= <-]. cbn; auto.
    - apply done_inj in H; subst s'. unfold obj_reinit. destruct (nth_error (objs s) s0) eqn:EE; [apply ofr_upd; [cbn; auto|intros o' E'; assert (o' = o) by congruence; subst; reflexivity]|apply ofr_refl].
    - destruct (shared_alloc ok s s0 sz _) eqn:E; try discriminate. apply done_inj in H; subst s'. eapply ofr_shared_alloc; eauto. cbn; auto.
    - destruct (shared_get s s0); try discriminate. apply done_inj in H; subst s'. apply ofr_refl.
    - destruct (shared_unique s s0); try discriminate. apply done_inj in H; subst s'. apply ofr_refl.
    - destruct (shared_share s e n) eqn:E; try discriminate. apply done_inj in H; subst s'. eapply ofr_shared_share; eauto. cbn; auto.
    - destruct (gp_swap s a b) eqn:E; try discriminate. apply done_inj in H; subst s'. eapply ofr_gp_swap; eauto; cbn; auto.
    - destruct (shared_reset s s0) eqn:E; try discriminate. apply done_inj in H; subst s'. eapply ofr_shared_reset; eauto. cbn; auto.
    - apply done_inj in H; subst s'. unfold obj_reinit. destruct (nth_error (objs s) w) eqn:EE; [apply ofr_upd; [cbn; auto|intros o' E'; assert (o' = o) by congruence; subst; reflexivity]|apply ofr_refl].
    - destruct (weak_from s w s0) eqn:E; try discriminate. apply done_inj in H; subst s'. eapply ofr_weak_from; eauto. cbn; auto.
    - destruct (weak_lock s w s0) eqn:E; try discriminate. apply done_inj in H; subst s'. eapply ofr_weak_lock; eauto. cbn; auto.
    - destruct (gp_swap s a b) eqn:E; try discriminate. apply done_inj in H; subst s'. eapply ofr_gp_swap; eauto; cbn; auto.
    - destruct (weak_reset s w) eqn:E; try discriminate. apply done_inj in H; subst s'. eapply ofr_weak_reset; eauto. cbn; auto.
    - apply done_inj in H; subst s'. unfold stray_copy. cbn [mdom] in D.
      destruct (nth_error (objs s) src) as [os|] eqn:Es; [|apply ofr_refl].
      apply ofr_upd; [cbn; auto|]. intros o' E'. rewrite E' in D.
      repeat match goal with H : _ && _ = true |- _ => apply andb_prop in H; destruct H end.
      destruct (okind os), (okind o'); try discriminate; reflexivity.
    - apply done_inj in H; subst s'. unfold guarded_init, guarded_set. repeat of_prim.
    - apply done_inj in H; subst s'. unfold guarded_set. repeat of_prim.
    - destruct (guarded_get s g); try discriminate. apply done_inj in H; subst s'. apply ofr_refl.
    - destruct (guarded_get_const s g); try discriminate. apply done_inj in H; subst s'. apply ofr_refl.
    - destruct (guarded_copy s dst src) eqn:E; try discriminate. apply done_inj in H; subst s'.
      unfold guarded_copy in E. bind_inv E. okinj E. unfold guarded_set. repeat of_prim.
    - destruct (gp_swap s a b) eqn:E; try discriminate. apply done_inj in H; subst s'. eapply ofr_gp_swap; eauto; cbn; auto.
  Qed.

  (** a well-formed array object present after a pointer operation was there,
      unchanged, before it *)
  Lemma mstep_arrays s o s' out j oj :
    mstep ok s o = Done s' out -> nth_error (objs s') j = Some oj -> okind oj = KA -> wf_obj j oj = true ->
    nth_error (objs s) j = Some oj.
  Proof.
    intros E Ej K W. destruct (ofr_mstep s o s' out E) as (A & A'). rewrite <- Ej. symmetry. apply A. intros IN.
    specialize (A' j). rewrite Ej in A'. cbn in A'. rewrite K in A'.
    unfold mstep in E. destruct (mdom s o) eqn:D; [|discriminate].
    destruct o; cbn [mdom mtouch In] in *;
      repeat match goal with H : _ && _ = true |- _ => apply andb_prop in H; destruct H end;
      repeat match goal with H : has_kind _ _ _ = true |- _ => apply has_kind_spec in H; destruct H as (? & ? & ?) end;
      repeat match goal with H : _ \/ _ |- _ => destruct H end; subst; try tauto;
      try (match goal with H : nth_error (objs s) _ = Some _ |- _ => rewrite H in A'; cbn in A'; congruence end).
    (* StrayCopy: the destination is not well-formed afterwards *)
    apply done_inj in E. subst s'. unfold stray_copy in Ej.
    destruct (nth_error (objs s) src) as [os|] eqn:Es; [|discriminate].
    destruct (nth_error (objs s) j) as [od|] eqn:Ed; [|discriminate].
    repeat match goal with H : _ && _ = true |- _ => apply andb_prop in H; destruct H end.
    cbn [objs set_objs] in Ej. rewrite nth_upd_same with (o := od) in Ej by auto. injection Ej as ->.
    unfold wf_obj in W. rewrite W in *. discriminate.
  Qed.
End OfrStep.
