(** Pointer-level model of the hash table, part 3: the walks of
    __cstl_hash_foreach (cstl_hash_foreach, cstl_hash_foreach_const,
    cstl_hash_clear).  The pointer-level walk reads every bucket's head when
    it reaches the bucket and every node's successor before the visit; the
    functional model computes the visiting order up front ([walk_seq]).
    Both agree: for the logging visitor and the clear callback (which frees
    the visited node: the walk never comes back to it) because no link is
    written; for the erase-and-free visitor because erasing the visited node
    -- the head of its chain at that moment -- rewrites only the head field
    of the bucket being walked. *)
From Cstl Require Import Prelude AllocModel HashModel HashProofs HashInv HashOps HashTable
  HashLinksModel HashLinksProofs HashLinksOps.
Local Open Scope N_scope.

(** * The stop rule of the scripted visit function *)

(** the elements of [l] visited when [k] calls were made before, and whether
    the visitor stopped the walk *)
Fixpoint vtake (stop k : nat) (l : list nat) : list nat * bool :=
  match l with
  | [] => ([], false)
  | e :: r =>
    if Nat.ltb 0 stop && Nat.eqb (S k) stop then ([e], true)
    else let '(a, s) := vtake stop (S k) r in (e :: a, s)
  end.

Lemma vtake_app stop l1 : forall k l2,
  vtake stop k (l1 ++ l2) =
  if snd (vtake stop k l1) then vtake stop k l1
  else (l1 ++ fst (vtake stop (length l1 + k) l2), snd (vtake stop (length l1 + k) l2)).
Proof.
  induction l1 as [|e r IH]; intros k l2; cbn [vtake app length Nat.add fst snd].
  - now destruct (vtake stop k l2).
  - destruct (Nat.ltb 0 stop && Nat.eqb (S k) stop); cbn [fst snd]; auto.
    rewrite IH, Nat.add_succ_r. destruct (vtake stop (S k) r) as [a s]. cbn [fst snd].
    destruct s; auto.
Qed.

(** not stopped: everything was visited *)
Lemma vtake_all stop l : forall k, snd (vtake stop k l) = false -> fst (vtake stop k l) = l.
Proof.
  induction l as [|e r IH]; intros k; cbn [vtake fst snd]; auto.
  destruct (Nat.ltb 0 stop && Nat.eqb (S k) stop); cbn [fst snd]; [discriminate|].
  specialize (IH (S k)). destruct (vtake stop (S k) r) as [a s]. cbn [fst snd] in *.
  intros H. now rewrite IH.
Qed.

Lemma vtake_prefix stop l : forall k, exists rest, l = fst (vtake stop k l) ++ rest.
Proof.
  induction l as [|e r IH]; intros k; cbn [vtake fst snd]; [exists []; auto|].
  destruct (Nat.ltb 0 stop && Nat.eqb (S k) stop); cbn [fst snd app]; [exists r; auto|].
  destruct (IH (S k)) as (rest & E). destruct (vtake stop (S k) r) as [a s]. cbn [fst snd] in *.
  exists rest. cbn [app]. now rewrite <- E.
Qed.

Lemma vtake_spec stop l : forall k, (stop = 0 \/ k < stop)%nat ->
  vtake stop k l =
  if Nat.ltb 0 stop && Nat.leb (stop - k) (length l) then (firstn (stop - k) l, true) else (l, false).
Proof.
  induction l as [|e r IH]; intros k Hk; cbn [vtake length].
  - destruct (Nat.ltb_spec 0 stop); cbn [andb]; auto.
    destruct (Nat.leb_spec (stop - k) 0); auto. lia.
  - destruct (Nat.ltb_spec 0 stop) as [Hs|Hs]; cbn [andb].
    + destruct (Nat.eqb_spec (S k) stop) as [E|E].
      * destruct (Nat.leb_spec (stop - k) (S (length r))); [|lia].
        replace (stop - k)%nat with 1%nat by lia. reflexivity.
      * rewrite (IH (S k)) by lia. destruct (Nat.ltb_spec 0 stop); [|lia]. cbn [andb].
        destruct (Nat.leb_spec (stop - S k) (length r)), (Nat.leb_spec (stop - k) (S (length r))); try lia.
        -- replace (stop - k)%nat with (S (stop - S k)) by lia. reflexivity.
        -- reflexivity.
    + rewrite (IH (S k)) by lia. destruct (Nat.ltb_spec 0 stop); [lia|]. reflexivity.
Qed.

Lemma vtake_visit_upto stop l :
  visit_upto stop l = (fst (vtake stop 0 l), stop_result stop (snd (vtake stop 0 l))).
Proof.
  rewrite vtake_spec by lia. unfold visit_upto, stop_result. rewrite Nat.sub_0_r.
  destruct stop as [|s]; [reflexivity|].
  change (Nat.ltb 0 (S s)) with true. cbn [andb]. destruct (Nat.leb (S s) (length l)); reflexivity.
Qed.

(** * Walks that write no link *)

(** memory after the visit function was called on the nodes [a] *)
Definition vmem (vk : vkind) (m : mem) (a : list nat) : mem :=
  match vk with
  | VClear => fold_left release a m
  | _ => m
  end.

Definition vevents (vk : vkind) (a : list nat) : list ev :=
  match vk with
  | VClear => clear_events a
  | _ => walk_events a
  end.

Lemma vevents_app vk a b : vevents vk (a ++ b) = vevents vk a ++ vevents vk b.
Proof. destruct vk; unfold vevents, walk_events, clear_events; apply flat_map_app. Qed.

Lemma vmem_app vk m a b : vmem vk m (a ++ b) = vmem vk (vmem vk m a) b.
Proof. destruct vk; simpl; auto. apply fold_left_app. Qed.

Lemma frame_vmem vk a : forall m, frame a m (vmem vk m a).
Proof.
  destruct vk; try (intros; apply frame_refl).
  induction a as [|e r IH]; intros m; simpl; [apply frame_refl|].
  eapply frame_trans; [apply (frame_release (e :: r)); now left|].
  eapply frame_mono; [|apply IH]. intros x Hx. now right.
Qed.

Section Walk.
  Variable hf : fn_id -> N -> N -> option N.
  Variable key : nat -> N.

  Lemma l_chain_walk_plain vk stop : vk <> VErase -> forall c fuel m lt k h,
    spells m h c -> NoDup c -> (length c <= fuel)%nat ->
    l_chain_walk hf key fuel vk stop m lt k h =
    Ok (vmem vk m (fst (vtake stop k c)), lt, (length (fst (vtake stop k c)) + k)%nat, snd (vtake stop k c))
       (vevents vk (fst (vtake stop k c))).
  Proof.
    intros Hvk. induction c as [|e r IH]; intros fuel m lt k h Hs Nd Hf.
    - apply spells_nil in Hs. subst. destruct fuel, vk; reflexivity.
    - destruct Hs as (-> & nn & Hr & Hs). destruct fuel as [|fu]; [simpl in Hf; lia|].
      inversion Nd as [|? ? Hne Nd']; subst.
      cbn [l_chain_walk vtake]. rewrite Hr.
      assert (Hf' : (length r <= fu)%nat) by (simpl in Hf; lia).
      destruct vk; [|congruence|]; cbn [l_visit bind app].
      + destruct (Nat.ltb 0 stop && Nat.eqb (S k) stop); [reflexivity|].
        rewrite (IH fu m lt (S k) nn Hs Nd' Hf').
        destruct (vtake stop (S k) r) as [a s]. simpl. now rewrite Nat.add_succ_r.
      + destruct (Nat.ltb 0 stop && Nat.eqb (S k) stop); [reflexivity|].
        rewrite (IH fu (release m e) lt (S k) nn (seg_release _ _ _ _ _ Hne Hs) Nd' Hf').
        destruct (vtake stop (S k) r) as [a s]. simpl. now rewrite Nat.add_succ_r.
  Qed.

  Lemma l_buckets_walk_plain vk stop : vk <> VErase -> forall bs i m lt k,
    (forall x b, nth_error bs x = Some b ->
                 exists lb, nth_error (lbks lt) (i + x) = Some lb /\ brel m b lb) ->
    NoDup (lv bs) -> (length (lv bs) < lfuel lt)%nat ->
    l_buckets_walk hf key (length bs) i vk stop m lt k =
    Ok (vmem vk m (fst (vtake stop k (lv bs))), lt, (length (fst (vtake stop k (lv bs))) + k)%nat,
        snd (vtake stop k (lv bs)))
       (vevents vk (fst (vtake stop k (lv bs)))).
  Proof.
    intros Hvk. induction bs as [|b bs IH]; intros i m lt k Hb Nd Hf.
    - destruct vk; reflexivity.
    - cbn [length l_buckets_walk]. rewrite lv_cons in *.
      destruct (Hb 0%nat b eq_refl) as (lb & Elb & Hbit & Hsp). rewrite Nat.add_0_r in Elb. rewrite Elb.
      rewrite app_length in Hf.
      rewrite (l_chain_walk_plain vk stop Hvk (chain b) _ m lt k (hd lb) Hsp (NoDup_app_l _ _ Nd)) by lia.
      cbn [bind]. rewrite vtake_app.
      destruct (snd (vtake stop k (chain b))) eqn:Es.
      + rewrite Es. now rewrite app_nil_r.
      + pose proof (vtake_all _ _ _ Es) as Ea. rewrite Ea.
        rewrite IH.
        * cbn [fst snd]. rewrite vmem_app, vevents_app, app_length.
          match goal with |- Ok (_, _, ?x, _) _ = Ok (_, _, ?y, _) _ => replace x with y by lia end; reflexivity.
        * intros x bx Hx. destruct (Hb (S x) bx Hx) as (lbx & Ex & Hbx & Hsx).
          rewrite Nat.add_succ_r in Ex. exists lbx. split; auto. split; auto.
          eapply seg_frame; [apply frame_vmem| |exact Hsx].
          intros y Hy Hc. eapply (NoDup_app_disj (chain b) (lv bs) y); eauto.
          eapply chain_lv; eauto.
        * eapply NoDup_app_r; eauto.
        * lia.
  Qed.

  (** the buckets walked by [walk_seq] *)
  Lemma walk_seq_buckets m t lt l :
    trel m t lt -> good t -> walk_seq fixed t = Some l ->
    exists bs, l = lv bs /\ length bs = N.to_nat (walk_bound fixed (skel lt)) /\
      (forall x b, nth_error bs x = Some b ->
                   exists lb, nth_error (lbks lt) (0 + x) = Some lb /\ brel m b lb) /\
      NoDup (lv bs) /\ (length (lv bs) < lfuel lt)%nat /\ incl (lv bs) (live t).
  Proof.
    intros H (Nd & Sz) W. unfold walk_seq in W.
    assert (Ew : walk_bound fixed (skel lt) = walk_bound fixed t).
    { unfold walk_bound. simpl. now trel_rw H. }
    destruct (Nat.leb_spec (N.to_nat (walk_bound fixed t)) (length (bks t))) as [Hl|]; [|discriminate].
    injection W as <-. set (n := N.to_nat (walk_bound fixed t)) in *.
    exists (firstn n (bks t)). split; [reflexivity|]. split; [rewrite Ew; apply firstn_length_le; auto|].
    assert (El : live t = lv (firstn n (bks t)) ++ lv (skipn n (bks t))).
    { rewrite live_lv, <- lv_app, firstn_skipn. reflexivity. }
    split; [|split; [|split]].
    - intros x b Hx. simpl.
      assert (Hx' : nth_error (bks t) x = Some b).
      { rewrite <- (firstn_skipn n (bks t)). rewrite nth_error_app1; auto.
        apply nth_error_some_lt in Hx. auto. }
      eapply Forall2_nth; eauto. apply (tr_bks _ _ _ H).
    - rewrite El in Nd. eapply NoDup_app_l; eauto.
    - rewrite (lfuel_trel _ _ _ H). rewrite El, app_length in Sz. lia.
    - intros x Hx. rewrite El. apply in_or_app. now left.
  Qed.

  (** ** cstl_hash_foreach_const, cstl_hash_foreach with the logging visitor *)
  Lemma l_foreach_raw_plain m t lt l stop :
    trel m t lt -> good t -> walk_seq fixed t = Some l ->
    l_foreach_raw hf key VPlain stop m lt =
    Ok (m, lt, (length (fst (visit_upto stop l)) + 0)%nat, snd (vtake stop 0 l)) (walk_events (fst (visit_upto stop l)))
    /\ snd (visit_upto stop l) = stop_result stop (snd (vtake stop 0 l)).
  Proof.
    intros H G W. destruct (walk_seq_buckets m t lt l H G W) as (bs & -> & Hlen & Hb & Nd & Hf & _).
    unfold l_foreach_raw. rewrite <- Hlen.
    rewrite (l_buckets_walk_plain VPlain stop ltac:(discriminate) bs 0 m lt 0 Hb Nd Hf).
    rewrite vtake_visit_upto. split; reflexivity.
  Qed.

  Lemma l_foreach_const_sim m t lt stop :
    trel m t lt -> good t ->
    sim (fun (p : table * Z) (q : mem * ltable * Z) => snd q = snd p /\ fst q = (m, lt) /\ fst p = t)
        (foreach_const fixed t stop) (l_foreach_const hf key m lt stop).
  Proof.
    intros H G. unfold foreach_const, l_foreach_const.
    destruct (walk_seq fixed t) as [l|] eqn:W; [|exact I].
    destruct (l_foreach_raw_plain m t lt l stop H G W) as (-> & Er).
    destruct (visit_upto stop l) as [log r]. cbn [fst snd] in *. subst r.
    cbn [bind]. rewrite app_nil_r. apply sim_ok. auto.
  Qed.

  (** ** cstl_hash_clear *)
  Lemma l_clear_sim m t lt a cb :
    trel m t lt -> good t ->
    sim (fun (p : table * alloc) (q : mem * ltable * alloc) =>
           snd q = snd p /\ trel (fst (fst q)) (fst p) (snd (fst q)) /\ frame (live t) m (fst (fst q)))
        (clear fixed t a cb) (l_clear hf key m lt a cb).
  Proof.
    intros H G. unfold clear, l_clear.
    assert (Hc : trel m (cleared fixed t) (l_cleared lt)).
    { unfold cleared, l_cleared. destruct H. split; simpl; auto. }
    destruct cb.
    - destruct (walk_seq fixed t) as [l|] eqn:W; [|exact I].
      destruct (revisits [] l); [exact I|].
      destruct (walk_seq_buckets m t lt l H G W) as (bs & -> & Hlen & Hb & Nd & Hf & Hi).
      unfold l_foreach_raw. rewrite <- Hlen.
      rewrite (l_buckets_walk_plain VClear 0 ltac:(discriminate) bs 0 m lt 0 Hb Nd Hf).
      cbn [bind]. rewrite vtake_spec by lia. cbn [Nat.ltb Nat.leb andb fst snd vevents].
      rewrite !app_nil_r. apply sim_ok. cbn [fst snd]. trel_rw H. split; [reflexivity|].
      split.
      + destruct Hc. split; auto. simpl. constructor.
      + eapply frame_mono; [exact Hi|apply frame_vmem].
    - cbn [bind app]. apply sim_ok. cbn [fst snd]. trel_rw H. split; [reflexivity|].
      split; [exact Hc|apply frame_refl].
  Qed.
End Walk.

(** * The erase-and-free visitor (the library's manual_clear idiom) *)

Lemma bind_assoc {A B C} (r : res A) (f : A -> res B) (g : B -> res C) :
  bind (bind r f) g = bind r (fun x => bind (f x) g).
Proof.
  unfold bind. destruct r as [a w| |]; auto.
  destruct (f a) as [b w'| |]; auto.
  destruct (g b) as [c w''| |]; auto. now rewrite app_assoc.
Qed.

Lemma bind_ext {A B} (r : res A) (f g : A -> res B) : (forall x, f x = g x) -> bind r f = bind r g.
Proof. intros H. unfold bind. destruct r; auto. now rewrite H. Qed.

(** the pointer-level side runs one more step that returns with an empty log *)
Lemma sim_bind_r {A B B'} (R : A -> B -> Prop) (R' : A -> B' -> Prop) r lr (g : B -> res B') :
  sim R r lr -> (forall a b, R a b -> exists b', g b = Ok b' [] /\ R' a b') -> sim R' r (bind lr g).
Proof.
  unfold sim, bind. destruct r as [a w| |]; auto.
  - intros (b & -> & Hab) H. destruct (H a b Hab) as (b' & -> & Hr). rewrite app_nil_r. eauto.
  - intros -> _. reflexivity.
Qed.

Lemma skipn_nth {A} (l : list A) : forall i x, nth_error l i = Some x -> skipn i l = x :: skipn (S i) l.
Proof.
  induction l as [|y l IH]; intros [|i] x H; simpl in *; try discriminate.
  - now injection H as ->.
  - rewrite (IH i x H). reflexivity.
Qed.

Lemma skipn_upd_lt {A} (l : list A) : forall i j x, (i < j)%nat -> skipn j (upd l i x) = skipn j l.
Proof.
  induction l as [|y l IH]; intros [|i] [|j] x H; simpl; auto; try lia.
  apply IH. lia.
Qed.

Section WalkErase.
  Variable hf : fn_id -> N -> N -> option N.
  Variable key : nat -> N.
  Hypothesis Hdef : hf_def hf.

  Notation inv := (inv hf key).
  Notation walk_erase := (walk_erase hf key).

  Lemma inv_good t : inv t -> good t.
  Proof.
    intros (I & _). split; [apply (inv_nodup _ _ t I)|]. rewrite (inv_size _ _ t I). lia.
  Qed.

  Lemma walk_erase_app a : forall a' t dead,
    walk_erase t dead (a ++ a') = bind (walk_erase t dead a) (fun t1 => walk_erase t1 (rev a ++ dead) a').
  Proof.
    induction a as [|e a IH]; intros a' t dead.
    - cbn [app rev HashModel.walk_erase bind]. destruct (walk_erase t dead a'); reflexivity.
    - cbn [app rev HashModel.walk_erase]. destruct (existsb (Nat.eqb e) dead); [reflexivity|].
      set (X := bind (Ok tt _) _).
      rewrite (bind_assoc X). apply bind_ext.
      intros t1. rewrite IH. now rewrite <- app_assoc.
  Qed.
  (** erasing the head of a chain, with nothing pending: exactly that bucket
      loses exactly that node *)
  Lemma erase_head_step dead t e i b r :
    inv t -> rhash t = None -> nth_error (bks t) i = Some b -> chain b = e :: r ->
    (forall x, In x dead -> ~ In x (live t)) ->
    forall t' w, erase_d hf key dead t e = Ok t' w ->
      inv t' /\ rhash t' = None /\ bks t' = upd (bks t) i (mkB r (bbit b)) /\
      (forall x, In x (live t') <-> In x (live t) /\ x <> e).
  Proof.
    intros I Hr Hb Hc Hd t' w E.
    assert (He : In e (live t)).
    { rewrite live_lv. eapply chain_lv; eauto. rewrite Hc. now left. }
    assert (Hh : hash t <> None).
    { intros Hn. rewrite (settled_hash_none_empty hf key t (proj1 I) Hn) in He. destruct He. }
    pose proof (erase_d_spec hf key Hdef dead t e I Hh Hd) as S. rewrite E in S.
    destruct S as (I' & _ & _ & _ & _ & L & _ & _ & Hs). destruct (Hs Hr) as (Hr' & _).
    split; [exact I'|]. split; [exact Hr'|]. split; [|exact L].
    unfold erase_d in E.
    pose proof (get_bucket_inv hf key Hdef t (key e) I Hh) as G.
    destruct (get_bucket hf key t (key e)) as [[t1 j] w1| |]; try discriminate.
    destruct G as (_ & _ & Hhome & _ & _ & _ & _ & _ & _ & _ & _ & _ & _ & Hs1 & _).
    cbn [fst snd] in Hhome, Hs1. destruct (Hs1 Hr) as (-> & _).
    assert (j = i). { symmetry. eapply Hhome; eauto. rewrite Hc. now left. } subst j.
    cbn [bind] in E. rewrite Hb, Hc in E. cbn [touches_dead remove_first] in E.
    rewrite Nat.eqb_refl in E.
    destruct (existsb (Nat.eqb e) dead); cbn [orb] in E; [discriminate|].
    injection E as <- _. reflexivity.
  Qed.

  (** one call of the erase-and-free visitor *)
  Lemma l_visit_erase_sim dead m t lt e :
    trel m t lt -> good t ->
    sim (fun t1 (p : mem * ltable) =>
           (exists w1, erase_d hf key dead t e = Ok t1 w1) /\
           exists m1, fst p = release m1 e /\ trel m1 t1 (snd p) /\ frame (live t) m m1)
        (bind (Ok tt [EvNext e; EvVisit e]) (fun _ => erase_d hf key dead t e))
        (bind (Ok tt [EvNext e]) (fun _ => l_visit hf key VErase m lt e)).
  Proof.
    intros H G. pose proof (l_erase_sim hf key dead m t lt e H G) as S.
    cbn [l_visit]. destruct (erase_d hf key dead t e) as [t1 w1| |] eqn:Ee.
    - destruct S as ([m1 lt1] & -> & H1 & F1). cbn [bind fst snd app]. rewrite app_nil_r.
      apply sim_ok. split; [eauto|]. exists m1. auto.
    - rewrite S. reflexivity.
    - exact Logic.I.
  Qed.

  Lemma l_chain_walk_erase stop i : forall c fuel m t lt k dead b,
    inv t -> rhash t = None -> trel m t lt ->
    nth_error (bks t) i = Some b -> chain b = c ->
    (forall x, In x dead -> ~ In x (live t)) -> (length c <= fuel)%nat ->
    sim (fun t' (q : mem * ltable * nat * bool) =>
           snd (fst q) = (length (fst (vtake stop k c)) + k)%nat /\ snd q = snd (vtake stop k c) /\
           trel (fst (fst (fst q))) t' (snd (fst (fst q))) /\ frame (live t) m (fst (fst (fst q))) /\
           inv t' /\ rhash t' = None /\
           bks t' = upd (bks t) i (mkB (skipn (length (fst (vtake stop k c))) c) (bbit b)) /\
           (forall x, In x (live t') <-> In x (live t) /\ ~ In x (fst (vtake stop k c))))
        (walk_erase t dead (fst (vtake stop k c)))
        (l_chain_walk hf key fuel VErase stop m lt k (hd_error c)).
  Proof.
    induction c as [|e r IH]; intros fuel m t lt k dead b I Hr H Hb Hc Hd Hf.
    - cbn [vtake fst snd hd_error HashModel.walk_erase length skipn].
      replace (l_chain_walk hf key fuel VErase stop m lt k None) with (@Ok (mem * ltable * nat * bool) (m, lt, k, false) [])
        by (destruct fuel; reflexivity).
      apply sim_ok. cbn [fst snd]. repeat (split; [first [reflexivity|assumption|apply frame_refl]|]).
      split.
      + destruct b as [cb bb]. simpl in Hc. subst cb. symmetry. apply upd_same; auto.
      + intros x. tauto.
    - destruct fuel as [|fu]; [simpl in Hf; lia|].
      destruct (Forall2_nth _ _ _ _ _ (tr_bks _ _ _ H) Hb) as (lb & Elb & Hbit & Hsp).
      rewrite Hc in Hsp. destruct Hsp as (Ehd & nn & Hrd & Hsr).
      pose proof (spells_head _ _ _ Hsr) as Enn. subst nn.
      assert (He : In e (live t)).
      { rewrite live_lv. eapply chain_lv; eauto. rewrite Hc. now left. }
      assert (Hi : (i < length (bks t))%nat) by (eapply nth_error_some_lt; eauto).
      cbn [vtake hd_error l_chain_walk]. rewrite Hrd.
      destruct (Nat.ltb 0 stop && Nat.eqb (S k) stop) eqn:Ecnd.
      + (* the visitor stops the walk at e *)
        cbn [fst snd HashModel.walk_erase length skipn].
        destruct (existsb (Nat.eqb e) dead); [exact Logic.I|].
        eapply sim_bind; [apply (l_visit_erase_sim dead m t lt e H (inv_good t I))|].
        intros t1 [m' lt1] ((w1 & Ee) & m1 & Em & H1 & F1). cbn [fst snd] in Em, H1. subst m'.
        destruct (erase_head_step dead t e i b r I Hr Hb Hc Hd t1 w1 Ee) as (I1 & Hr1 & Eb1 & L1).
        apply sim_ok. cbn [fst snd]. split; [reflexivity|]. split; [reflexivity|].
        split; [apply trel_release; [|exact H1]; intros Hx; apply L1 in Hx; tauto|].
        split; [eapply frame_trans; [exact F1|apply frame_release; exact He]|].
        split; [exact I1|]. split; [exact Hr1|]. split; [exact Eb1|].
        intros x. rewrite L1. simpl. intuition.
      + destruct (vtake stop (S k) r) as [a' s'] eqn:Ev.
        cbn [fst snd HashModel.walk_erase length skipn].
        destruct (existsb (Nat.eqb e) dead); [exact Logic.I|].
        eapply sim_bind; [apply (l_visit_erase_sim dead m t lt e H (inv_good t I))|].
        intros t1 [m' lt1] ((w1 & Ee) & m1 & Em & H1 & F1). cbn [fst snd] in Em, H1. subst m'.
        destruct (erase_head_step dead t e i b r I Hr Hb Hc Hd t1 w1 Ee) as (I1 & Hr1 & Eb1 & L1).
        assert (Hne1 : ~ In e (live t1)) by (intros Hx; apply L1 in Hx; tauto).
        assert (Hb1 : nth_error (bks t1) i = Some (mkB r (bbit b))).
        { rewrite Eb1. apply nth_error_upd_same; auto. }
        assert (Hd1 : forall x, In x (e :: dead) -> ~ In x (live t1)).
        { intros x [<-|Hx] Hl; [auto|]. apply L1 in Hl. apply (Hd x Hx). tauto. }
        specialize (IH fu (release m1 e) t1 lt1 (S k) (e :: dead) (mkB r (bbit b)) I1 Hr1
                       (trel_release _ _ _ _ Hne1 H1) Hb1 eq_refl Hd1 ltac:(simpl in Hf; lia)).
        rewrite Ev in IH. cbn [fst snd] in IH.
        eapply sim_imp; [exact IH|].
        intros t' [[[m'' lt''] k''] s''] (Ek & Es & H' & F' & I' & Hr' & Eb' & L'). cbn [fst snd] in *.
        split; [lia|]. split; [exact Es|]. split; [exact H'|].
        split.
        { eapply frame_trans; [exact F1|]. eapply frame_trans; [apply frame_release; exact He|].
          eapply frame_mono; [|exact F']. intros x Hx. apply L1 in Hx. tauto. }
        split; [exact I'|]. split; [exact Hr'|].
        split; [rewrite Eb', Eb1, upd_upd; reflexivity|].
        intros x. rewrite L', L1. simpl. intuition.
  Qed.

  Lemma l_buckets_walk_erase stop : forall nb i m t lt k dead,
    inv t -> rhash t = None -> trel m t lt -> (forall x, In x dead -> ~ In x (live t)) ->
    (i + nb <= length (bks t))%nat ->
    sim (fun t' (q : mem * ltable * nat * bool) =>
           snd q = snd (vtake stop k (lv (firstn nb (skipn i (bks t))))) /\
           trel (fst (fst (fst q))) t' (snd (fst (fst q))) /\ frame (live t) m (fst (fst (fst q))))
        (walk_erase t dead (fst (vtake stop k (lv (firstn nb (skipn i (bks t)))))))
        (l_buckets_walk hf key nb i VErase stop m lt k).
  Proof.
    induction nb as [|nb IH]; intros i m t lt k dead I Hr H Hd Hlen.
    - cbn [firstn l_buckets_walk]. apply sim_ok. cbn [fst snd]. split; [reflexivity|].
      split; [exact H|apply frame_refl].
    - destruct (nth_error_lt (bks t) i ltac:(lia)) as (b & Hb).
      destruct (Forall2_nth _ _ _ _ _ (tr_bks _ _ _ H) Hb) as (lb & Elb & Hbit & Hsp).
      rewrite (skipn_nth _ _ _ Hb). cbn [firstn l_buckets_walk]. rewrite lv_cons, Elb.
      pose proof (spells_head _ _ _ Hsp) as Ehd.
      assert (Hf : (length (chain b) <= lfuel lt)%nat).
      { rewrite (lfuel_trel _ _ _ H). pose proof (chain_length_good t i b (inv_good t I) Hb). lia. }
      pose proof (l_chain_walk_erase stop i (chain b) (lfuel lt) m t lt k dead b I Hr H Hb eq_refl Hd Hf) as C.
      rewrite <- Ehd in C. rewrite vtake_app.
      destruct (snd (vtake stop k (chain b))) eqn:Es.
      + (* stopped inside this chain *)
        eapply sim_bind_r; [exact C|].
        intros t' [[[m' lt'] k'] s'] (Ek & Es' & H' & F' & _). cbn [fst snd] in *. subst s'.
        eexists. split; [reflexivity|]. cbn [fst snd]. auto.
      + pose proof (vtake_all _ _ _ Es) as Ea. rewrite Ea in C. cbn [fst snd].
        rewrite walk_erase_app.
        eapply sim_bind; [exact C|].
        intros t1 [[[m1 lt1] k1] s1] (Ek & Es' & H1 & F1 & I1 & Hr1 & Eb1 & L1). cbn [fst snd] in *.
        subst s1 k1.
        assert (Hd1 : forall x, In x (rev (chain b) ++ dead) -> ~ In x (live t1)).
        { intros x Hx Hl. apply L1 in Hl. destruct Hl as (Hl & Hn).
          apply in_app_or in Hx. destruct Hx as [Hx|Hx]; [apply Hn; now apply in_rev|apply (Hd x Hx Hl)]. }
        assert (Hlen1 : (S i + nb <= length (bks t1))%nat) by (rewrite Eb1, upd_length; lia).
        specialize (IH (S i) m1 t1 lt1 (length (chain b) + k)%nat (rev (chain b) ++ dead) I1 Hr1 H1 Hd1 Hlen1).
        rewrite Eb1, skipn_upd_lt in IH by lia.
        eapply sim_imp; [exact IH|].
        intros t' [[[m' lt'] k'] s'] (Es'' & H' & F'). cbn [fst snd] in *.
        split; [exact Es''|]. split; [exact H'|].
        eapply frame_trans; [exact F1|]. eapply frame_mono; [|exact F'].
        intros x Hx. apply L1 in Hx. tauto.
  Qed.

  (** ** cstl_hash_foreach *)
  Lemma l_foreach_sim m t lt er stop :
    inv t -> trel m t lt ->
    sim (fun (p : table * Z) (q : mem * ltable * Z) =>
           snd q = snd p /\ trel (fst (fst q)) (fst p) (snd (fst q)) /\ frame (live t) m (fst (fst q)))
        (foreach hf key fixed t er stop) (l_foreach hf key m lt er stop).
  Proof.
    intros I H. unfold foreach, l_foreach.
    pose proof (l_rehash_sim hf key m t lt H (inv_good t I)) as S.
    pose proof (rehash_inv hf key Hdef t I) as R.
    destruct (rehash hf key t) as [t1 w1| |] eqn:Er; [| |exact Logic.I].
    2: { rewrite S. reflexivity. }
    destruct S as ([m1 lt1] & -> & H1 & F1 & K1). cbn [fst snd] in H1, F1.
    destruct R as (I1 & Hr1 & _).
    cbn [bind]. pose proof (inv_good t1 I1) as G1.
    destruct (walk_seq fixed t1) as [l|] eqn:W; [|exact Logic.I].
    destruct er.
    - destruct (walk_seq_buckets m1 t1 lt1 l H1 G1 W) as (bs & El & Hlen & _).
      rewrite vtake_visit_upto.
      assert (Ebs : l = lv (firstn (N.to_nat (walk_bound fixed (skel lt1))) (skipn 0 (bks t1)))).
      { unfold walk_seq in W. replace (walk_bound fixed (skel lt1)) with (walk_bound fixed t1).
        - destruct (Nat.leb _ _); [|discriminate]. injection W as <-. reflexivity.
        - unfold walk_bound. simpl. now trel_rw H1. }
      assert (Hle : (0 + N.to_nat (walk_bound fixed (skel lt1)) <= length (bks t1))%nat).
      { unfold walk_seq in W. replace (walk_bound fixed (skel lt1)) with (walk_bound fixed t1).
        - destruct (Nat.leb_spec (N.to_nat (walk_bound fixed t1)) (length (bks t1))); [lia|discriminate].
        - unfold walk_bound. simpl. now trel_rw H1. }
      pose proof (l_buckets_walk_erase stop _ 0 m1 t1 lt1 0 [] I1 Hr1 H1 ltac:(intros x []) Hle) as B.
      rewrite <- Ebs in B. unfold l_foreach_raw.
      destruct (walk_erase t1 [] (fst (vtake stop 0 l))) as [t2 w2| |].
      + destruct B as ([[[m2 lt2] k2] s2] & -> & Es & H2 & F2). cbn [fst snd bind] in *. subst s2.
        apply sim_ok. cbn [fst snd]. split; [reflexivity|]. split; [exact H2|].
        eapply frame_trans; [exact F1|]. eapply frame_keepl; eauto.
      + rewrite B. reflexivity.
      + exact Logic.I.
    - destruct (l_foreach_raw_plain hf key m1 t1 lt1 l stop H1 G1 W) as (-> & Erz).
      destruct (visit_upto stop l) as [log r]. cbn [fst snd bind] in *. subst r.
      rewrite !app_nil_r. apply sim_ok. cbn [fst snd]. auto.
  Qed.
End WalkErase.
