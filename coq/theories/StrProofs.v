(** Proofs about StrModel.v (C10): the string functions refine a reference
    [list] of character codes, stay NUL-terminated inside their block,
    abort exactly when documented, never fault.  Repaired code ([v0 = false]);
    the code as found is refuted in FindingsVecStr.v. *)
From Cstl Require Import Prelude AllocModel VectorModel VectorProofs StrModel.
Local Open Scope N_scope.

(** * Lists: block writes and reads *)

Lemma upd_app_mid {A} (a : list A) y b x : upd (a ++ y :: b) (length a) x = a ++ x :: b.
Proof. induction a as [|z a IH]; simpl; auto. rewrite IH. reflexivity. Qed.

(** writing [xs] over a segment of the same length *)
Lemma lwrite_app (a g b xs : list N) :
  length g = length xs -> lwrite (a ++ g ++ b) (length a) xs = a ++ xs ++ b.
Proof.
  revert a g. induction xs as [|x xs IH]; intros a g H.
  - destruct g; [reflexivity|discriminate].
  - destruct g as [|y g]; [discriminate|]. simpl in H. simpl lwrite.
    change (a ++ (y :: g) ++ b) with (a ++ y :: (g ++ b)). rewrite upd_app_mid.
    replace (a ++ x :: g ++ b) with ((a ++ [x]) ++ g ++ b) by (rewrite <- app_assoc; reflexivity).
    replace (S (length a)) with (length (a ++ [x])) by (rewrite app_length; simpl; lia).
    rewrite IH by lia. rewrite <- app_assoc. reflexivity.
Qed.

Lemma lwrite_at (a g b xs : list N) i :
  length a = i -> length g = length xs -> lwrite (a ++ g ++ b) i xs = a ++ xs ++ b.
Proof. intros <- H. apply lwrite_app; auto. Qed.

Lemma lwrite_length l i xs : length (lwrite l i xs) = length l.
Proof. revert l i. induction xs as [|x xs IH]; intros l i; simpl; auto. rewrite IH. apply upd_length. Qed.

Lemma lread_app (a m b : list N) : lread (a ++ m ++ b) (length a) (length m) = m.
Proof.
  unfold lread. apply nth_ext with (d := POISON) (d' := POISON).
  - rewrite map_length, seq_length. reflexivity.
  - intros k Hk. rewrite map_length, seq_length in Hk.
    rewrite (nth_indep _ POISON (nth (length a + 0) (a ++ m ++ b) POISON)) by (rewrite map_length, seq_length; auto).
    rewrite (map_nth (fun k => nth (length a + k) (a ++ m ++ b) POISON) (seq 0 (length m)) 0%nat k).
    rewrite seq_nth by auto. simpl.
    rewrite app_nth2 by lia. replace (length a + k - length a)%nat with k by lia.
    rewrite app_nth1 by auto. reflexivity.
Qed.

Lemma lread_length l i n : length (lread l i n) = n.
Proof. unfold lread. rewrite map_length, seq_length. reflexivity. Qed.

Lemma skipn_add {A} (l : list A) i n : skipn n (skipn i l) = skipn (i + n) l.
Proof.
  revert l. induction i as [|i IH]; intros l; simpl; auto.
  destruct l; simpl; auto. destruct n; reflexivity.
Qed.

(** split a list at two positions *)
Lemma split3 {A} (l : list A) i n :
  (i + n <= length l)%nat ->
  l = firstn i l ++ firstn n (skipn i l) ++ skipn (i + n) l /\
  length (firstn i l) = i /\ length (firstn n (skipn i l)) = n.
Proof.
  intros H. repeat split.
  - rewrite <- (firstn_skipn i l) at 1. f_equal.
    rewrite <- (firstn_skipn n (skipn i l)) at 1. f_equal. rewrite skipn_add. reflexivity.
  - rewrite firstn_length. lia.
  - rewrite firstn_length, skipn_length. lia.
Qed.

Lemma lwrite_split (l xs : list N) i :
  (i + length xs <= length l)%nat ->
  lwrite l i xs = firstn i l ++ xs ++ skipn (i + length xs) l.
Proof.
  intros H. destruct (split3 l i (length xs) H) as (E & L1 & L2).
  remember (firstn i l) as a. remember (firstn (length xs) (skipn i l)) as g.
  remember (skipn (i + length xs) l) as b.
  pose proof (lwrite_app a g b xs L2) as W. rewrite L1, <- E in W. exact W.
Qed.

Lemma lread_split (l : list N) i n :
  (i + n <= length l)%nat -> lread l i n = firstn n (skipn i l).
Proof.
  intros H. destruct (split3 l i n H) as (E & L1 & L2).
  remember (firstn i l) as a. remember (firstn n (skipn i l)) as g.
  remember (skipn (i + n) l) as b.
  pose proof (lread_app a g b) as W. rewrite L1, L2, <- E in W. exact W.
Qed.

Lemma resize_list_S l n : resize_list l (S n) = resize_list l n ++ [nth n l POISON].
Proof.
  unfold resize_list. destruct (Nat.ltb_spec n (length l)) as [H|H].
  - replace (S n - length l)%nat with O by lia. replace (n - length l)%nat with O by lia.
    simpl. rewrite !app_nil_r.
    revert n H. induction l as [|x l IH]; intros [|n] H; simpl in *; try lia; auto.
    rewrite IH by lia. reflexivity.
  - rewrite !firstn_all2 by lia. rewrite nth_overflow by lia.
    replace (S n - length l)%nat with (S (n - length l)) by lia.
    rewrite <- app_assoc. f_equal. simpl. apply repeat_cons.
Qed.

Lemma resize_list_le l n : (n <= length l)%nat -> resize_list l n = firstn n l.
Proof. intros H. unfold resize_list. replace (n - length l)%nat with O by lia. apply app_nil_r. Qed.

Lemma resize_list_ge l n : (length l <= n)%nat -> resize_list l n = l ++ repeat POISON (n - length l).
Proof. intros H. unfold resize_list. rewrite firstn_all2 by lia. reflexivity. Qed.

Lemma upd_resize_list_S l n x : upd (resize_list l (S n)) n x = resize_list l n ++ [x].
Proof.
  rewrite resize_list_S.
  pose proof (upd_app_mid (resize_list l n) (nth n l POISON) [] x) as W.
  rewrite resize_list_length in W. exact W.
Qed.

Lemma removelast_snoc {A} (l : list A) x : removelast (l ++ [x]) = l.
Proof. apply removelast_last. Qed.

(** * The string invariant *)

(** the reference string of a string object: its cells without the terminator *)
Definition sabs (v : vec) : list N := removelast (elems v).

Definition str_ok (al : alloc) (v : vec) : Prop :=
  vec_ok al v /\ xcons v = false /\ xdest v = false /\
  (elems v = [] \/ exists cs, elems v = cs ++ [NUL]).

Lemma str_ok_init al w : 1 <= w -> str_ok al (vec_init w false false).
Proof. intros H. split; [apply vec_ok_init; auto|]. simpl. auto. Qed.

Lemma str_elems al v : str_ok al v -> 0 < count v -> elems v = sabs v ++ [NUL].
Proof.
  intros ((_ & _ & Hl & _) & _ & _ & [E|(cs & E)]) H.
  - rewrite E in Hl. simpl in Hl. lia.
  - unfold sabs. rewrite E, removelast_snoc. reflexivity.
Qed.

Lemma str_size al v : str_ok al v -> N.to_nat (s_size v) = length (sabs v).
Proof.
  intros ((_ & _ & Hl & _) & _ & _ & [E|(cs & E)]); unfold s_size, sabs.
  - rewrite E in *. simpl in *. destruct (N.ltb_spec 0 (count v)); lia.
  - rewrite E in *. rewrite removelast_snoc. rewrite app_length in Hl. simpl in Hl.
    destruct (N.ltb_spec 0 (count v)); lia.
Qed.

Lemma str_size_count al v : str_ok al v -> 0 < count v -> count v = s_size v + 1.
Proof. intros _ H. unfold s_size. destruct (N.ltb_spec 0 (count v)); lia. Qed.

Lemma str_size_le_cap al v : str_ok al v -> s_size v <= cap v.
Proof.
  intros ((_ & Hc & _) & _). unfold s_size. destruct (N.ltb_spec 0 (count v)); lia.
Qed.

Lemma str_empty al v : str_ok al v -> count v = 0 -> sabs v = [] /\ elems v = [].
Proof.
  intros ((_ & _ & Hl & _) & _) H. rewrite H in Hl. unfold sabs.
  destruct (elems v); [auto|discriminate].
Qed.

(** the shape of the storage after the vector-level resize to [n+1] cells:
    the first [min n size] characters, then [n - size] indeterminate cells *)
Lemma resize_shape al v n :
  str_ok al v ->
  exists G, resize_list (elems v) n = firstn n (sabs v) ++ G /\
            length G = (n - length (sabs v))%nat.
Proof.
  intros S. pose proof S as (_ & _ & _ & [E|(cs & E)]).
  - unfold sabs. rewrite E. simpl. rewrite firstn_nil. exists (repeat POISON n).
    unfold resize_list. simpl. rewrite firstn_nil, Nat.sub_0_r, repeat_length. simpl. split; auto.
  - unfold sabs. rewrite E, removelast_snoc.
    destruct (Nat.leb_spec n (length cs)) as [H|H].
    + exists []. rewrite resize_list_le by (rewrite app_length; simpl; lia).
      rewrite firstn_app. replace (n - length cs)%nat with O by lia. simpl. split; auto.
    + exists (NUL :: repeat POISON (n - length cs - 1)).
      rewrite resize_list_ge by (rewrite app_length; simpl; lia).
      rewrite firstn_all2 by lia. rewrite <- app_assoc. simpl. rewrite app_length, repeat_length. simpl.
      split; [f_equal; f_equal; f_equal; lia|lia].
Qed.

(** * Storage accesses of the string functions are inside the block *)

Lemma range_ok_in al v i cnt :
  vec_ok al v -> base v <> None -> i + cnt <= cap v + 1 ->
  range_ok al v i cnt = true /\ cell v i = N.to_nat i.
Proof.
  intros (He & Hc & Hl & Hb) Hn H. unfold range_ok, cell, blk.
  destruct (base v) as [b|]; [|congruence]. destruct Hb as (bs & E & Hs & Hlim). rewrite E.
  assert (M : (i + cnt) * esize v <= (cap v + 1) * esize v) by (apply N.mul_le_mono_r; auto).
  assert (i * esize v < W64) by (pose proof LIMIT_lt_W64; lia).
  rewrite wrap64_small by auto. rewrite N.mod_mul by lia. rewrite N.div_mul by lia.
  split; auto. simpl. apply N.leb_le. lia.
Qed.

Lemma count_pos_base al v : vec_ok al v -> 0 < count v -> base v <> None.
Proof.
  intros V H. destruct (vec_ok_base al v V) as (b & E); [destruct V as (_ & Hc & _); lia|congruence].
Qed.

Lemma cap_small al v : vec_ok al v -> base v <> None -> cap v + 1 <= LIMIT.
Proof.
  intros (He & _ & _ & Hb) Hn. destruct (base v) as [b|]; [|congruence].
  destruct Hb as (bs & _ & Hs & Hlim).
  assert ((cap v + 1) * 1 <= (cap v + 1) * esize v) by (apply N.mul_le_mono_l; lia). lia.
Qed.

(** small products do not wrap and divide back *)
Lemma small_mul al v n :
  vec_ok al v -> base v <> None -> n <= cap v + 1 ->
  wrap64 (n * esize v) = n * esize v /\ n * esize v / esize v = n.
Proof.
  intros (He & _ & _ & Hb) Hn H. destruct (base v) as [b|]; [|congruence].
  destruct Hb as (bs & _ & Hs & Hlim).
  assert (n * esize v <= (cap v + 1) * esize v) by (apply N.mul_le_mono_r; auto).
  split; [apply wrap64_small; pose proof LIMIT_lt_W64; lia|apply N.div_mul; lia].
Qed.

Ltac speel := repeat (split; [solve [auto; try congruence; try lia | intros; lia | intros; auto | intros; split; auto]|]).

Section StrOps.
  Variable ok : nat -> N -> bool.

  (** growth of a string to [n] characters cannot be satisfied: the
      terminator does not fit in size_t, or the vector refuses n+1 cells
      (byte count not representable, or the allocation fails) *)
  Definition grow_fails (al : alloc) (v : vec) (n : N) : Prop :=
    SIZE_MAX <= n \/ (cap v < n + 1 /\ refused ok al v (n + 1)).

  Lemma resized_str v n :
    xcons v = false -> length (elems v) = N.to_nat (count v) ->
    resized v n = resize_list (elems v) (N.to_nat n).
  Proof. intros X L. unfold resized, resize_list. rewrite X, L. reflexivity. Qed.

  Lemma s__resize_spec al v n :
    alloc_ok al -> no_bad_free al -> str_ok al v -> n < W64 ->
    match s__resize ok false al v n with
    | Ok (al', v') =>
      alloc_ok al' /\ no_bad_free al' /\ str_ok al' v' /\ heap_frame al al' (base v) (base v') /\
      esize v' = esize v /\ ~ grow_fails al v n /\
      count v' = n + 1 /\ cap v' = N.max (cap v) (n + 1) /\
      elems v' = resize_list (elems v) (N.to_nat n) ++ [NUL] /\
      (n + 1 <= cap v -> al' = al /\ base v' = base v)
    | Abt => grow_fails al v n
    | Flt => False
    end.
  Proof.
    intros A NB So Hn. pose proof So as (V & Xc & Xd & T). unfold s__resize. simpl.
    destruct (N.eqb_spec n SIZE_MAX) as [->|Hne].
    { left. lia. }
    assert (Hlt : n < SIZE_MAX) by (unfold SIZE_MAX, W64 in *; lia).
    rewrite (wrap64_small (n + 1)) by (unfold SIZE_MAX, W64 in *; lia).
    pose proof (resize_spec ok al v (n + 1) A NB V) as RS.
    destruct (resize ok false al v (n + 1)) as [[[al1 v1] log]| |]; [| |contradiction].
    2:{ right. exact RS. }
    destruct RS as (A1 & NB1 & V1 & F1 & (Se & Sc & Sd) & C1 & Cp & L1 & _ & Hs & Hg).
    unfold wr. rewrite (slot_in_count al1 v1 n V1) by lia.
    pose proof V as (_ & _ & Hl & _).
    rewrite resized_str in L1 by auto.
    replace (N.to_nat (n + 1)) with (S (N.to_nat n)) in L1 by lia.
    assert (E2 : upd (elems v1) (N.to_nat n) NUL = resize_list (elems v) (N.to_nat n) ++ [NUL])
      by (rewrite L1; apply upd_resize_list_S).
    assert (V2 : vec_ok al1 (set_elems v1 (upd (elems v1) (N.to_nat n) NUL)))
      by (apply vec_ok_set_elems; auto; apply upd_length).
    assert (S2 : str_ok al1 (set_elems v1 (upd (elems v1) (N.to_nat n) NUL))).
    { split; auto. simpl. repeat split; try congruence. right. rewrite E2. eauto. }
    assert (NF : ~ grow_fails al v n).
    { intros [X|(X1 & X2)]; [lia|]. destruct (Hg X1) as (Y & _). contradiction. }
    simpl. peel. exact Hs.
  Qed.

  (** resize: the first [min n size] characters, then NULs *)
  Lemma s_resize_spec al v n :
    alloc_ok al -> no_bad_free al -> str_ok al v -> n < W64 ->
    match s_resize ok false al v n with
    | Ok (al', v') =>
      alloc_ok al' /\ no_bad_free al' /\ str_ok al' v' /\ heap_frame al al' (base v) (base v') /\
      esize v' = esize v /\ ~ grow_fails al v n /\
      sabs v' = firstn (N.to_nat n) (sabs v) ++ repeat NUL (N.to_nat n - length (sabs v)) /\
      count v' = n + 1
    | Abt => grow_fails al v n
    | Flt => False
    end.
  Proof.
    intros A NB So Hn. unfold s_resize.
    pose proof (s__resize_spec al v n A NB So Hn) as RS.
    destruct (s__resize ok false al v n) as [[al1 v1]| |]; auto.
    destruct RS as (A1 & NB1 & S1 & F1 & Es & NF & C1 & Cp & L1 & _).
    destruct (resize_shape al v (N.to_nat n) So) as (G & EG & LG).
    pose proof (str_size al v So) as Sz.
    pose proof S1 as (V1 & Xc1 & Xd1 & _).
    destruct (N.ltb_spec (s_size v) n) as [Hlt|Hge].
    - (* growing: the new characters [size, n) are set to NUL *)
      unfold fill. destruct (N.eqb_spec (n - s_size v) 0) as [Hz|Hz]; [lia|].
      assert (Bn : base v1 <> None) by (apply (count_pos_base al1); auto; lia).
      destruct (range_ok_in al1 v1 (s_size v) (n - s_size v) V1 Bn) as (R & Cl).
      { destruct V1 as (_ & Hc & _). lia. }
      rewrite R, Cl.
      rewrite firstn_all2 in EG by lia.
      assert (EW : lwrite (elems v1) (N.to_nat (s_size v)) (repeat NUL (N.to_nat (n - s_size v)))
                   = sabs v ++ repeat NUL (N.to_nat (n - s_size v)) ++ [NUL]).
      { rewrite L1, EG, <- app_assoc, Sz. apply lwrite_app. rewrite repeat_length. lia. }
      assert (V2 : vec_ok al1 (set_elems v1 (lwrite (elems v1) (N.to_nat (s_size v))
                                             (repeat NUL (N.to_nat (n - s_size v))))))
        by (apply vec_ok_set_elems; auto; apply lwrite_length).
      assert (S2 : str_ok al1 (set_elems v1 (lwrite (elems v1) (N.to_nat (s_size v))
                                             (repeat NUL (N.to_nat (n - s_size v)))))).
      { split; auto. simpl. repeat split; auto. right. rewrite EW, app_assoc. eauto. }
      simpl. peel. split; auto.
      unfold sabs at 1. simpl. rewrite EW, app_assoc, removelast_snoc.
      rewrite firstn_all2 by lia. f_equal. f_equal. lia.
    - (* not growing *)
      peel. split; auto.
      unfold sabs at 1. rewrite L1, EG. destruct G; [|simpl in LG; lia].
      rewrite app_nil_r, removelast_snoc.
      replace (N.to_nat n - length (sabs v))%nat with O by lia. simpl. rewrite app_nil_r. reflexivity.
  Qed.

  (** prep_insert: room for [len] characters at [pos]; the gap holds
      indeterminate cells [G] that the caller overwrites *)
  Lemma prep_insert_spec al v pos len :
    alloc_ok al -> no_bad_free al -> str_ok al v -> pos < W64 -> len < W64 ->
    match prep_insert ok false al v pos len with
    | Ok (al', v') =>
      pos <= s_size v /\
      alloc_ok al' /\ no_bad_free al' /\ str_ok al' v' /\ heap_frame al al' (base v) (base v') /\
      esize v' = esize v /\
      (len = 0 -> al' = al /\ v' = v) /\
      (0 < len -> ~ grow_fails al v (s_size v + len) /\ count v' = s_size v + len + 1 /\
         exists G, length G = N.to_nat len /\
           elems v' = firstn (N.to_nat pos) (sabs v) ++ G ++ skipn (N.to_nat pos) (sabs v) ++ [NUL])
    | Abt => s_size v < pos \/ (0 < len /\ grow_fails al v (s_size v + len))
    | Flt => False
    end.
  Proof.
    intros A NB So Hp Hl. unfold prep_insert.
    destruct (N.ltb_spec (s_size v) pos) as [Hpos|Hpos]; [left; auto|].
    destruct (N.ltb_spec 0 len) as [Hlen|Hlen].
    2:{ pose proof (heap_frame_refl al (base v)). speel. intros; lia. }
    cbn [negb andb]. destruct (N.ltb_spec (SIZE_MAX - s_size v) len) as [Hov|Hov].
    { right. split; auto. left. lia. }
    assert (Hsum : s_size v + len < W64) by (unfold SIZE_MAX, W64 in *; lia).
    rewrite (wrap64_small (s_size v + len)) by auto.
    pose proof (s__resize_spec al v (s_size v + len) A NB So Hsum) as RS.
    destruct (s__resize ok false al v (s_size v + len)) as [[al1 v1]| |]; [|right; auto|contradiction].
    destruct RS as (A1 & NB1 & S1 & F1 & Es & NF & C1 & Cp & L1 & _).
    pose proof S1 as (V1 & Xc1 & Xd1 & _).
    pose proof (str_size al v So) as Sz.
    destruct (resize_shape al v (N.to_nat (s_size v + len)) So) as (G & EG & LG).
    rewrite firstn_all2 in EG by lia.
    assert (Bn : base v1 <> None) by (apply (count_pos_base al1); auto; lia).
    pose proof V1 as (_ & Hcc1 & _).
    rewrite (wrap64_small (pos + len)) by lia.
    destruct (small_mul al1 v1 (s_size v - pos) V1 Bn ltac:(lia)) as (W1 & D1).
    rewrite <- Es, W1.
    set (s := sabs v) in *. set (p := N.to_nat pos). set (k := N.to_nat len).
    assert (Hp' : (p <= length s)%nat) by (unfold p; lia).
    assert (E1 : elems v1 = firstn p s ++ skipn p s ++ G ++ [NUL]).
    { rewrite L1, EG, <- app_assoc. rewrite <- (firstn_skipn p s) at 1. rewrite <- app_assoc. reflexivity. }
    unfold memmove.
    destruct (N.eqb_spec ((s_size v - pos) * esize v1) 0) as [Hz|Hz].
    - (* nothing after pos *)
      assert (s_size v = pos).
      { destruct V1 as (He & _). destruct (N.eq_dec (s_size v - pos) 0); [lia|].
        assert (1 * 1 <= (s_size v - pos) * esize v1) by (apply N.mul_le_mono; lia). lia. }
      speel. exists G. split; [lia|].
      rewrite E1. rewrite skipn_all2 by (unfold p; lia). reflexivity.
    - rewrite D1.
      destruct (range_ok_in al1 v1 pos (s_size v - pos) V1 Bn ltac:(lia)) as (R1 & Cl1).
      destruct (range_ok_in al1 v1 (pos + len) (s_size v - pos) V1 Bn ltac:(lia)) as (R2 & Cl2).
      rewrite R1, R2, Cl1, Cl2. simpl.
      (* what is read: the characters from pos on *)
      assert (RD : lread (elems v1) (N.to_nat pos) (N.to_nat (s_size v - pos)) = skipn p s).
      { rewrite E1. replace (N.to_nat pos) with (length (firstn p s)) by (rewrite firstn_length; fold p; lia).
        replace (N.to_nat (s_size v - pos)) with (length (skipn p s)) by (rewrite skipn_length; unfold p; lia).
        apply lread_app. }
      rewrite RD.
      (* where it is written: [pos+len, size+len) *)
      set (X := s ++ G).
      assert (LX : length X = (length s + k)%nat) by (unfold X, k; rewrite app_length; lia).
      assert (EX : elems v1 = firstn (p + k) X ++ skipn (p + k) X ++ [NUL]).
      { rewrite L1, EG. fold X. rewrite app_assoc, firstn_skipn. reflexivity. }
      assert (WR : lwrite (elems v1) (N.to_nat (pos + len)) (skipn p s)
                   = firstn (p + k) X ++ skipn p s ++ [NUL]).
      { rewrite EX. replace (N.to_nat (pos + len)) with (length (firstn (p + k) X))
          by (rewrite firstn_length; unfold p, k; lia).
        apply lwrite_app. rewrite !skipn_length. lia. }
      assert (FX : firstn (p + k) X = firstn p s ++ firstn k (skipn p s ++ G)).
      { unfold X. rewrite <- (firstn_skipn p s) at 1. rewrite <- app_assoc.
        replace (p + k)%nat with (length (firstn p s) + k)%nat by (rewrite firstn_length; lia).
        apply firstn_app_2. }
      assert (V2 : vec_ok al1 (set_elems v1 (lwrite (elems v1) (N.to_nat (pos + len)) (skipn p s))))
        by (apply vec_ok_set_elems; auto; apply lwrite_length).
      assert (S2 : str_ok al1 (set_elems v1 (lwrite (elems v1) (N.to_nat (pos + len)) (skipn p s)))).
      { split; auto. simpl. repeat split; auto. right. rewrite WR.
        exists (firstn (p + k) X ++ skipn p s). rewrite <- app_assoc. reflexivity. }
      speel. simpl.
      exists (firstn k (skipn p s ++ G)). split.
      + rewrite firstn_length, app_length, skipn_length. unfold k. lia.
      + rewrite WR, FX, <- app_assoc. reflexivity.
  Qed.

  Lemma insert_ch_spec al v pos cnt ch :
    alloc_ok al -> no_bad_free al -> str_ok al v -> pos < W64 -> cnt < W64 ->
    match insert_ch ok false al v pos cnt ch with
    | Ok (al', v') =>
      pos <= s_size v /\ (0 < cnt -> ~ grow_fails al v (s_size v + cnt)) /\
      alloc_ok al' /\ no_bad_free al' /\ str_ok al' v' /\ heap_frame al al' (base v) (base v') /\
      esize v' = esize v /\
      sabs v' = firstn (N.to_nat pos) (sabs v) ++ repeat ch (N.to_nat cnt) ++ skipn (N.to_nat pos) (sabs v)
    | Abt => s_size v < pos \/ (0 < cnt /\ grow_fails al v (s_size v + cnt))
    | Flt => False
    end.
  Proof.
    intros A NB So Hp Hc. unfold insert_ch.
    pose proof (prep_insert_spec al v pos cnt A NB So Hp Hc) as PS.
    destruct (prep_insert ok false al v pos cnt) as [[al1 v1]| |]; auto.
    destruct PS as (Hpos & A1 & NB1 & S1 & F1 & Es & H0 & H1).
    pose proof (str_size al v So) as Sz.
    unfold fill. destruct (N.eqb_spec cnt 0) as [Hz|Hz].
    - destruct (H0 Hz) as (-> & ->). subst cnt. speel.
      simpl. rewrite firstn_skipn. reflexivity.
    - destruct (H1 ltac:(lia)) as (NF & C1 & G & LG & E1).
      pose proof S1 as (V1 & Xc1 & Xd1 & _).
      assert (Bn : base v1 <> None) by (apply (count_pos_base al1); auto; lia).
      pose proof V1 as (_ & Hcc1 & _).
      destruct (range_ok_in al1 v1 pos cnt V1 Bn ltac:(lia)) as (R & Cl).
      rewrite R, Cl.
      assert (WR : lwrite (elems v1) (N.to_nat pos) (repeat ch (N.to_nat cnt))
                   = firstn (N.to_nat pos) (sabs v) ++ repeat ch (N.to_nat cnt)
                     ++ skipn (N.to_nat pos) (sabs v) ++ [NUL]).
      { rewrite E1. apply lwrite_at; [rewrite firstn_length; lia|rewrite repeat_length; auto]. }
      assert (V2 : vec_ok al1 (set_elems v1 (lwrite (elems v1) (N.to_nat pos) (repeat ch (N.to_nat cnt)))))
        by (apply vec_ok_set_elems; auto; apply lwrite_length).
      assert (S2 : str_ok al1 (set_elems v1 (lwrite (elems v1) (N.to_nat pos) (repeat ch (N.to_nat cnt))))).
      { split; auto. simpl. repeat split; auto. right. rewrite WR.
        eexists. rewrite !app_assoc. reflexivity. }
      speel. simpl.
      unfold sabs at 1. simpl. rewrite WR. rewrite !app_assoc, removelast_snoc. reflexivity.
  Qed.

  (** insert_str_n with a source holding at least [len] characters *)
  Lemma insert_str_n_spec al v pos src len :
    alloc_ok al -> no_bad_free al -> str_ok al v -> pos < W64 -> len < W64 ->
    (N.to_nat len <= length src)%nat ->
    match insert_str_n ok false al v pos src len with
    | Ok (al', v') =>
      pos <= s_size v /\ (0 < len -> ~ grow_fails al v (s_size v + len)) /\
      alloc_ok al' /\ no_bad_free al' /\ str_ok al' v' /\ heap_frame al al' (base v) (base v') /\
      esize v' = esize v /\
      sabs v' = firstn (N.to_nat pos) (sabs v) ++ firstn (N.to_nat len) src ++ skipn (N.to_nat pos) (sabs v)
    | Abt => s_size v < pos \/ (0 < len /\ grow_fails al v (s_size v + len))
    | Flt => False
    end.
  Proof.
    intros A NB So Hp Hc Hsrc. unfold insert_str_n.
    pose proof (prep_insert_spec al v pos len A NB So Hp Hc) as PS.
    destruct (prep_insert ok false al v pos len) as [[al1 v1]| |]; auto.
    destruct PS as (Hpos & A1 & NB1 & S1 & F1 & Es & H0 & H1).
    pose proof (str_size al v So) as Sz.
    destruct (N.eq_dec len 0) as [Hz|Hz].
    - destruct (H0 Hz) as (-> & ->). subst len. rewrite N.mul_0_l.
      replace (wrap64 0 / esize v) with 0 by (unfold wrap64; rewrite N.mod_0_l by discriminate; symmetry; apply N.div_0_l; destruct So as ((He & _) & _); lia).
      simpl. speel.
      simpl. rewrite firstn_skipn. reflexivity.
    - destruct (H1 ltac:(lia)) as (NF & C1 & G & LG & E1).
      pose proof S1 as (V1 & Xc1 & Xd1 & _).
      assert (Bn : base v1 <> None) by (apply (count_pos_base al1); auto; lia).
      pose proof V1 as (_ & Hcc1 & _).
      destruct (small_mul al1 v1 len V1 Bn ltac:(lia)) as (W1 & D1).
      rewrite <- Es, W1, D1.
      set (xs := firstn (N.to_nat len) src).
      assert (Lx : length xs = N.to_nat len) by (unfold xs; rewrite firstn_length; lia).
      unfold wr_range. destruct xs as [|x0 xs'] eqn:Exs; [simpl in Lx; lia|]. rewrite <- Exs in *.
      rewrite Lx, N2Nat.id.
      destruct (range_ok_in al1 v1 pos len V1 Bn ltac:(lia)) as (R & Cl).
      rewrite R, Cl.
      assert (WR : lwrite (elems v1) (N.to_nat pos) xs
                   = firstn (N.to_nat pos) (sabs v) ++ xs ++ skipn (N.to_nat pos) (sabs v) ++ [NUL]).
      { rewrite E1. apply lwrite_at; [rewrite firstn_length; lia|lia]. }
      assert (V2 : vec_ok al1 (set_elems v1 (lwrite (elems v1) (N.to_nat pos) xs)))
        by (apply vec_ok_set_elems; auto; apply lwrite_length).
      assert (S2 : str_ok al1 (set_elems v1 (lwrite (elems v1) (N.to_nat pos) xs))).
      { split; auto. simpl. repeat split; auto. right. rewrite WR.
        eexists. rewrite !app_assoc. reflexivity. }
      speel. simpl.
      unfold sabs at 1. simpl. rewrite WR. rewrite !app_assoc, removelast_snoc. reflexivity.
  Qed.

  Lemma str_size_small al v : str_ok al v -> s_size v < W64.
  Proof.
    intros Sv. pose proof (str_size_le_cap _ _ Sv) as Hc. destruct Sv as (Vv & _).
    destruct (base v) as [b|] eqn:Q.
    - pose proof (cap_small _ _ Vv ltac:(congruence)). unfold LIMIT, W64 in *. lia.
    - destruct Vv as (_ & _ & _ & Hb). rewrite Q in Hb. unfold W64. lia.
  Qed.

  (** append_str_n: exactly [len] characters of the source go to the end;
      aborts iff the growth cannot be satisfied *)
  Lemma append_str_n_spec al v src len :
    alloc_ok al -> no_bad_free al -> str_ok al v -> len < W64 ->
    (N.to_nat len <= length src)%nat ->
    match append_str_n ok false al v src len with
    | Ok (al', v') =>
      (0 < len -> ~ grow_fails al v (s_size v + len)) /\
      alloc_ok al' /\ no_bad_free al' /\ str_ok al' v' /\ heap_frame al al' (base v) (base v') /\
      esize v' = esize v /\
      sabs v' = sabs v ++ firstn (N.to_nat len) src
    | Abt => 0 < len /\ grow_fails al v (s_size v + len)
    | Flt => False
    end.
  Proof.
    intros A NB So Hl Hsrc. unfold append_str_n.
    pose proof (insert_str_n_spec al v (s_size v) src len A NB So (str_size_small al v So) Hl Hsrc) as R.
    destruct (insert_str_n ok false al v (s_size v) src len) as [[al' v']| |]; auto.
    - destruct R as (_ & NF & A' & NB' & S' & F' & Es & Ab).
      split; [exact NF|]. do 5 (split; [assumption|]).
      rewrite Ab, (str_size al v So), firstn_all, skipn_all, app_nil_r. reflexivity.
    - destruct R as [X|X]; [lia|auto].
  Qed.

  Lemma sub64_small a b : b <= a -> a < W64 -> sub64 a b = a - b.
  Proof.
    intros H1 H2. unfold sub64. replace (a + W64 - b) with ((a - b) + 1 * W64) by lia.
    rewrite N.mod_add by discriminate. apply N.mod_small. lia.
  Qed.

  (** the clamp of erase/substr: a count reaching past the end, however
      large, is truncated to what is there *)
  Lemma substr_prep_spec v pos len :
    match substr_prep false v pos len with
    | Ok l => pos < s_size v /\ l = N.min len (s_size v - pos)
    | Abt => s_size v <= pos
    | Flt => False
    end.
  Proof.
    unfold substr_prep. destruct (N.leb_spec (s_size v) pos); auto.
    destruct (N.ltb_spec (s_size v - pos) len); split; auto; lia.
  Qed.

  Lemma firstn_app_exact {A} (a b : list A) n : n = length a -> firstn n (a ++ b) = a.
  Proof. intros ->. rewrite firstn_app, Nat.sub_diag, firstn_all. simpl. apply app_nil_r. Qed.

  Lemma firstn_app_le {A} (a b : list A) n : (n <= length a)%nat -> firstn n (a ++ b) = firstn n a.
  Proof. intros H. rewrite firstn_app. replace (n - length a)%nat with O by lia. simpl. apply app_nil_r. Qed.

  Lemma skipn_app_le {A} (a b : list A) n : (n <= length a)%nat -> skipn n (a ++ b) = skipn n a ++ b.
  Proof. intros H. rewrite skipn_app. replace (n - length a)%nat with O by lia. reflexivity. Qed.

  (** erase: never allocates; the characters [pos, pos + min len (size - pos))
      are removed *)
  Lemma erase_spec al v pos len :
    alloc_ok al -> no_bad_free al -> str_ok al v -> pos < W64 -> len < W64 ->
    match erase ok false al v pos len with
    | Ok (al', v') =>
      pos < s_size v /\ al' = al /\ base v' = base v /\ str_ok al v' /\ esize v' = esize v /\
      sabs v' = firstn (N.to_nat pos) (sabs v)
                ++ skipn (N.to_nat pos + N.to_nat (N.min len (s_size v - pos))) (sabs v)
    | Abt => s_size v <= pos
    | Flt => False
    end.
  Proof.
    intros A NB So Hp Hl. unfold erase.
    pose proof (substr_prep_spec v pos len) as PS.
    destruct (substr_prep false v pos len) as [l| |]; auto.
    destruct PS as (Hpos & ->). set (l := N.min len (s_size v - pos)).
    assert (Hl' : l <= s_size v - pos) by (unfold l; lia).
    pose proof So as (V & Xc & Xd & _). pose proof V as (He & Hcc & Hlen & _).
    pose proof (str_size al v So) as Sz. pose proof (str_size_le_cap al v So) as Sc.
    assert (Cp : 0 < count v) by (unfold s_size in Hpos; destruct (N.ltb_spec 0 (count v)); lia).
    pose proof (str_elems al v So Cp) as E. pose proof (str_size_count al v So Cp) as Ec.
    assert (Bn : base v <> None) by (apply (count_pos_base al); auto).
    assert (Hsz : s_size v < W64).
    { destruct (small_mul al v (s_size v) V Bn ltac:(lia)) as (W & _).
      pose proof (wrap64_lt (s_size v * esize v)) as Hw. rewrite W in Hw.
      assert (s_size v * 1 <= s_size v * esize v) by (apply N.mul_le_mono_l; lia). lia. }
    rewrite (wrap64_small (pos + l)) by lia.
    rewrite (sub64_small (s_size v) (pos + l)) by lia.
    rewrite (sub64_small (s_size v) l) by lia.
    destruct (small_mul al v (s_size v - (pos + l)) V Bn ltac:(lia)) as (W1 & D1). rewrite W1.
    set (s := sabs v) in *. set (p := N.to_nat pos). set (k := N.to_nat l).
    assert (Hpk : (p + k <= length s)%nat) by (unfold p, k; lia).
    (* the storage after the move: the result, then left-overs *)
    assert (MV : exists v1 T,
               memmove al v pos (pos + l) ((s_size v - (pos + l)) * esize v) = Ok v1 /\
               str_ok al v1 /\ base v1 = base v /\ esize v1 = esize v /\ cap v1 = cap v /\
               count v1 = count v /\ elems v1 = (firstn p s ++ skipn (p + k) s) ++ T).
    { unfold memmove. destruct (N.eqb_spec ((s_size v - (pos + l)) * esize v) 0) as [Hz|Hz].
      - assert (s_size v = pos + l).
        { destruct (N.eq_dec (s_size v - (pos + l)) 0); [lia|].
          assert (1 * 1 <= (s_size v - (pos + l)) * esize v) by (apply N.mul_le_mono; lia). lia. }
        exists v, (skipn p s ++ [NUL]). speel.
        rewrite E. rewrite (skipn_all2 s) by (unfold p, k; lia). rewrite app_nil_r.
        rewrite app_assoc, firstn_skipn. reflexivity.
      - rewrite D1.
        destruct (range_ok_in al v (pos + l) (s_size v - (pos + l)) V Bn ltac:(lia)) as (R1 & Cl1).
        destruct (range_ok_in al v pos (s_size v - (pos + l)) V Bn ltac:(lia)) as (R2 & Cl2).
        rewrite R1, R2, Cl1, Cl2. simpl.
        assert (RD : lread (elems v) (N.to_nat (pos + l)) (N.to_nat (s_size v - (pos + l))) = skipn (p + k) s).
        { rewrite E. rewrite <- (firstn_skipn (p + k) s) at 1. rewrite <- app_assoc.
          replace (N.to_nat (pos + l)) with (length (firstn (p + k) s)) by (rewrite firstn_length; unfold p, k; lia).
          replace (N.to_nat (s_size v - (pos + l))) with (length (skipn (p + k) s))
            by (rewrite skipn_length; unfold p, k; lia).
          apply lread_app. }
        rewrite RD.
        assert (WR : lwrite (elems v) (N.to_nat pos) (skipn (p + k) s)
                     = firstn p s ++ skipn (p + k) s ++ skipn (p + length (skipn (p + k) s)) (elems v)).
        { rewrite lwrite_split.
          - rewrite E at 1. rewrite firstn_app_le by (unfold p; lia). reflexivity.
          - rewrite skipn_length, E, app_length. simpl. unfold p. lia. }
        eexists. eexists. split; [reflexivity|].
        assert (V2 : vec_ok al (set_elems v (lwrite (elems v) (N.to_nat pos) (skipn (p + k) s))))
          by (apply vec_ok_set_elems; auto; apply lwrite_length).
        split; [|simpl; speel; rewrite WR, <- app_assoc; reflexivity].
        split; auto. simpl. repeat split; auto. right. rewrite WR, E.
        rewrite skipn_app_le by (rewrite skipn_length; lia).
        eexists. rewrite !app_assoc. reflexivity. }
    destruct MV as (v1 & T & -> & S1 & B1 & Es1 & Cp1 & Cn1 & E1).
    pose proof (s__resize_spec al v1 (s_size v - l) A NB S1 ltac:(lia)) as RS.
    destruct (s__resize ok false al v1 (s_size v - l)) as [[al2 v2]| |].
    - destruct RS as (A2 & NB2 & S2 & F2 & Es2 & NF & C2 & Cp2 & L2 & Hs).
      destruct (Hs ltac:(lia)) as (-> & B2).
      speel. unfold sabs at 1. rewrite L2, removelast_snoc.
      rewrite resize_list_le.
      + rewrite E1. fold p. replace (N.to_nat l) with k by reflexivity.
        apply firstn_app_exact. rewrite app_length, firstn_length, skipn_length. unfold p, k. lia.
      + pose proof S1 as ((_ & _ & L1 & _) & _). rewrite L1. lia.
    - pose proof (cap_small al v V Bn) as Hcs.
      destruct RS as [X|(X & _)]; [unfold SIZE_MAX, LIMIT in *; lia|lia].
    - contradiction.
  Qed.

  (** str() is the reference string followed by NUL *)
  Lemma s_view_spec al v : str_ok al v -> s_view false al v = Ok (sabs v ++ [NUL]).
  Proof.
    intros So. unfold s_view. destruct (N.eqb_spec (count v) 0) as [Hz|Hz].
    - destruct (str_empty al v So Hz) as (-> & _). reflexivity.
    - pose proof So as (V & _). assert (Cp : 0 < count v) by lia.
      assert (Bn : base v <> None) by (apply (count_pos_base al); auto).
      destruct (range_ok_in al v 0 (count v) V Bn) as (R & _).
      { destruct V as (_ & Hc & _). lia. }
      rewrite R. rewrite (str_elems al v So Cp). reflexivity.
  Qed.

  (** cstl_string_at *)
  Lemma s_at_spec al v i :
    str_ok al v ->
    match s_at al v i with
    | Ok (off, c) => i < s_size v /\ off = i * esize v /\ c = nth (N.to_nat i) (sabs v) POISON
    | Abt => s_size v <= i
    | Flt => False
    end.
  Proof.
    intros So. unfold s_at. destruct (N.leb_spec (s_size v) i) as [H|H]; auto.
    pose proof So as (V & _).
    assert (Cp : 0 < count v) by (unfold s_size in H; destruct (N.ltb_spec 0 (count v)); lia).
    pose proof (str_size_count al v So Cp) as Ec.
    unfold rd. rewrite (slot_in_count al v i V) by lia.
    destruct (offset_in_block al v i V ltac:(lia)) as (b & bs & _ & _ & W & _).
    rewrite W. repeat split; auto.
    rewrite (str_elems al v So Cp). apply app_nth1. pose proof (str_size al v So). lia.
  Qed.

  (** cstl_string_at_const is cstl_string_at *)
  Lemma s_at_const_spec al v i :
    str_ok al v ->
    match s_at_const al v i with
    | Ok (off, c) => i < s_size v /\ off = i * esize v /\ c = nth (N.to_nat i) (sabs v) POISON
    | Abt => s_size v <= i
    | Flt => False
    end.
  Proof. exact (s_at_spec al v i). Qed.

  (** cstl_string_data: NULL only while nothing was ever stored or reserved
      (then the string is empty); once the vector holds elements it is the
      start of a live block whose first size+1 cells are the reference
      string followed by NUL - the same cells str() shows *)
  Lemma s_data_spec al v :
    str_ok al v ->
    (s_data v = None -> count v = 0 /\ cap v = 0 /\ sabs v = [] /\ data_obs al v = [1%Z]) /\
    (0 < count v ->
     exists b bs, s_data v = Some b /\ block_size al b = Some bs /\ (s_size v + 1) * esize v <= bs /\
       rd_range al v 0 (s_size v + 1) = Ok (sabs v ++ [NUL]) /\
       s_view false al v = Ok (sabs v ++ [NUL]) /\
       data_obs al v = 0%Z :: Z.of_nat b :: 0%Z :: 1%Z :: map Z.of_N (sabs v)).
  Proof.
    intros So. pose proof So as (V & _). pose proof V as (He & Hc & Hl & Hb). split.
    - unfold s_data, data_obs. intros B. unfold s_data. rewrite B in *.
      assert (count v = 0) by lia. destruct (str_empty al v So) as (Ea & _); auto.
    - intros Cp. pose proof (str_size_count al v So Cp) as Ec.
      pose proof (str_elems al v So Cp) as Ee. pose proof (str_size al v So) as Sz.
      assert (Bn : base v <> None) by (apply (count_pos_base al); auto).
      destruct (range_ok_in al v 0 (s_size v + 1) V Bn ltac:(lia)) as (R & Cl).
      unfold s_data, data_obs, s_data. destruct (base v) as [b|] eqn:Eb; [|congruence].
      destruct Hb as (bs & Ebs & Hs & Hlim). exists b, bs.
      assert ((s_size v + 1) * esize v <= (cap v + 1) * esize v) by (apply N.mul_le_mono_r; lia).
      repeat split; auto; try lia.
      + unfold rd_range. destruct (N.eqb_spec (s_size v + 1) 0); [lia|]. rewrite R, Cl. f_equal.
        change (N.to_nat 0) with O. rewrite Ee.
        replace (N.to_nat (s_size v + 1)) with (length (sabs v ++ [NUL])) by (rewrite app_length; simpl; lia).
        pose proof (lread_app [] (sabs v ++ [NUL]) []) as LR. simpl in LR. rewrite app_nil_r in LR. exact LR.
      + apply s_view_spec; auto.
      + destruct (N.eqb_spec (count v) 0); [lia|]. rewrite R. rewrite Ee, Sz.
        rewrite app_nth2 by lia. rewrite Nat.sub_diag. simpl.
        rewrite firstn_app, Nat.sub_diag, firstn_all. simpl. rewrite app_nil_r. reflexivity.
  Qed.

  (** substr into a different object *)
  Lemma substr_spec al v pos len sub :
    alloc_ok al -> no_bad_free al -> str_ok al v -> str_ok al sub ->
    (forall b, base v = Some b -> base sub <> Some b) -> pos < W64 -> len < W64 ->
    match substr ok false al v pos len sub with
    | Ok (al', sub') =>
      pos < s_size v /\ ~ grow_fails al sub (N.min len (s_size v - pos)) /\
      alloc_ok al' /\ no_bad_free al' /\ str_ok al' sub' /\ heap_frame al al' (base sub) (base sub') /\
      esize sub' = esize sub /\
      sabs sub' = firstn (N.to_nat (N.min len (s_size v - pos))) (skipn (N.to_nat pos) (sabs v))
    | Abt => s_size v <= pos \/ grow_fails al sub (N.min len (s_size v - pos))
    | Flt => False
    end.
  Proof.
    intros A NB So Ss Hd Hp Hl. unfold substr.
    pose proof (substr_prep_spec v pos len) as PS.
    destruct (substr_prep false v pos len) as [l| |]; auto.
    destruct PS as (Hpos & ->). set (l := N.min len (s_size v - pos)).
    assert (Hl' : l <= s_size v - pos) by (unfold l; lia).
    pose proof So as (V & Xc & Xd & _). pose proof V as (He & Hcc & Hlen & _).
    pose proof (str_size al v So) as Sz. pose proof (str_size_le_cap al v So) as Sc.
    assert (Cp : 0 < count v) by (unfold s_size in Hpos; destruct (N.ltb_spec 0 (count v)); lia).
    pose proof (str_elems al v So Cp) as E. pose proof (str_size_count al v So Cp) as Ec.
    assert (Bn : base v <> None) by (apply (count_pos_base al); auto).
    pose proof (cap_small al v V Bn) as Hcs.
    pose proof (s__resize_spec al sub l A NB Ss ltac:(unfold LIMIT, W64 in *; lia)) as RS.
    destruct (s__resize ok false al sub l) as [[al1 sub1]| |]; [|right; auto|contradiction].
    destruct RS as (A1 & NB1 & S1 & F1 & Es1 & NF & C1 & Cp1 & L1 & _).
    destruct (small_mul al v l V Bn ltac:(lia)) as (W1 & D1). rewrite W1, D1.
    (* the source is untouched by the reallocation of the destination *)
    assert (V' : vec_ok al1 v).
    { apply (vec_ok_frame al); auto. intros b Eb. destruct F1 as (F1 & F2 & F3).
      destruct (option_eq_dec_aux (base sub) (base sub1)) as [Q|Q]; [apply F2; auto|].
      apply F1; [intros X; apply (Hd b Eb); auto|].
      intros X. destruct (F3 Q) as (_ & Fresh). symmetry in X. specialize (Fresh b X).
      destruct V as (_ & _ & _ & Hb). rewrite Eb in Hb. destruct Hb as (bs & Hbs & _). congruence. }
    set (s := sabs v) in *. set (p := N.to_nat pos). set (k := N.to_nat l).
    pose proof S1 as (V1 & Xc1 & Xd1 & _).
    unfold rd_range. destruct (N.eqb_spec l 0) as [Hz|Hz].
    - simpl. speel. unfold sabs at 1. rewrite L1, removelast_snoc. unfold k. rewrite Hz. reflexivity.
    - destruct (range_ok_in al1 v pos l V' Bn ltac:(lia)) as (R & Cl). rewrite R, Cl.
      assert (RD : lread (elems v) p k = firstn k (skipn p s)).
      { rewrite lread_split by (rewrite E, app_length; simpl; unfold p, k; lia).
        rewrite E. rewrite skipn_app_le by (unfold p; lia).
        apply firstn_app_le. rewrite skipn_length. unfold p, k. lia. }
      fold p. fold k. rewrite RD.
      set (cs := firstn k (skipn p s)).
      assert (Lc : length cs = k) by (unfold cs; rewrite firstn_length, skipn_length; unfold p, k; lia).
      unfold wr_range. destruct cs as [|c0 cs'] eqn:Ecs; [simpl in Lc; unfold k in Lc; lia|]. rewrite <- Ecs in *.
      assert (Bn1 : base sub1 <> None) by (apply (count_pos_base al1); auto; lia).
      rewrite Lc. unfold k. rewrite N2Nat.id.
      destruct (range_ok_in al1 sub1 0 l V1 Bn1) as (R2 & Cl2).
      { destruct V1 as (_ & Hc1 & _). lia. }
      rewrite R2, Cl2. simpl N.to_nat.
      assert (WR : lwrite (elems sub1) 0 cs = cs ++ [NUL]).
      { rewrite L1. change (resize_list (elems sub) (N.to_nat l) ++ [NUL])
          with ([] ++ resize_list (elems sub) (N.to_nat l) ++ [NUL]).
        apply (lwrite_at []); auto. rewrite resize_list_length. fold k. lia. }
      assert (V2 : vec_ok al1 (set_elems sub1 (lwrite (elems sub1) 0 cs)))
        by (apply vec_ok_set_elems; auto; apply lwrite_length).
      assert (S2 : str_ok al1 (set_elems sub1 (lwrite (elems sub1) 0 cs))).
      { split; auto. simpl. repeat split; auto. right. rewrite WR. eauto. }
      simpl. speel. unfold sabs at 1. simpl. rewrite WR, removelast_snoc. reflexivity.
  Qed.

  (** insert(s, pos, ins) with a different object [ins] *)
  Lemma insert_spec al v pos ins :
    alloc_ok al -> no_bad_free al -> str_ok al v -> str_ok al ins -> pos < W64 ->
    match insert ok false al v pos ins with
    | Ok (al', v') =>
      pos <= s_size v /\ (0 < s_size ins -> ~ grow_fails al v (s_size v + s_size ins)) /\
      alloc_ok al' /\ no_bad_free al' /\ str_ok al' v' /\ heap_frame al al' (base v) (base v') /\
      esize v' = esize v /\
      sabs v' = firstn (N.to_nat pos) (sabs v) ++ sabs ins ++ skipn (N.to_nat pos) (sabs v)
    | Abt => s_size v < pos \/ (0 < s_size ins /\ grow_fails al v (s_size v + s_size ins))
    | Flt => False
    end.
  Proof.
    intros A NB So Si Hp. unfold insert. rewrite (s_view_spec al ins Si).
    pose proof (str_size al ins Si) as Szi.
    assert (Hsi : s_size ins < W64).
    { pose proof (str_size_le_cap al ins Si) as Hc. destruct Si as (Vi & _).
      destruct (option_eq_dec_aux (base ins) None) as [Q|Q].
      - destruct Vi as (_ & _ & _ & Hb). rewrite Q in Hb. unfold W64. lia.
      - pose proof (cap_small al ins Vi Q). unfold LIMIT, W64 in *. lia. }
    pose proof (insert_str_n_spec al v pos (sabs ins ++ [NUL]) (s_size ins) A NB So Hp Hsi) as IS.
    rewrite app_length in IS. specialize (IS ltac:(lia)).
    destruct (insert_str_n ok false al v pos (sabs ins ++ [NUL]) (s_size ins)) as [[al' v']| |]; auto.
    rewrite firstn_app_exact in IS by lia. exact IS.
  Qed.

  (** reserve never changes the string *)
  Lemma s_reserve_spec al v n :
    alloc_ok al -> no_bad_free al -> str_ok al v ->
    match s_reserve ok false al v n with
    | Ok (al', v') =>
      alloc_ok al' /\ no_bad_free al' /\ str_ok al' v' /\ heap_frame al al' (base v) (base v') /\
      esize v' = esize v /\ sabs v' = sabs v /\ count v' = count v /\
      (v' = v \/ cap v' = wrap64 (n + 1))
    | Abt => False
    | Flt => False
    end.
  Proof.
    intros A NB (V & Xc & Xd & T). unfold s_reserve.
    pose proof (reserve_spec ok al v (wrap64 (n + 1)) A NB V) as RS.
    destruct (reserve ok false al v (wrap64 (n + 1))) as [[al' v']| |]; auto.
    destruct RS as (A' & NB' & V' & F' & (Se & Sc & Sd) & C' & L' & H).
    assert (S' : str_ok al' v') by (split; auto; repeat split; try congruence; rewrite L'; auto).
    speel. split; [unfold sabs; congruence|]. split; auto.
    destruct H as [(-> & _)|(_ & X & _)]; auto.
  Qed.

  (** clear *)
  Lemma s_clear_spec al v :
    alloc_ok al -> no_bad_free al -> str_ok al v ->
    match clear ok false al v with
    | Ok (al', v', _) =>
      alloc_ok al' /\ no_bad_free al' /\ str_ok al' v' /\ heap_frame al al' (base v) (base v') /\
      esize v' = esize v /\ sabs v' = [] /\ base v' = None /\ cap v' = 0
    | Abt => False
    | Flt => False
    end.
  Proof.
    intros A NB (V & Xc & Xd & T).
    pose proof (clear_spec ok al v A NB V) as CS.
    destruct (clear ok false al v) as [[[al' v'] log]| |]; auto.
    destruct CS as (A' & NB' & V' & F' & (Se & Sc & Sd) & B' & Cp' & Cn' & L' & _).
    assert (S' : str_ok al' v') by (split; auto; repeat split; try congruence; left; auto).
    rewrite B'. speel. split; auto. unfold sabs. rewrite L'. reflexivity.
  Qed.
End StrOps.

(** * List-level specifications of strchr / strstr / strcmp *)

(** [k] is the first occurrence of [c] in [l], with no NUL before it *)
Definition first_occ (c : N) (l : list N) (k : nat) : Prop :=
  (k < length l)%nat /\ nth k l POISON = c /\
  forall j, (j < k)%nat -> nth j l POISON <> c /\ nth j l POISON <> 0.

Lemma strchr_some l c k : strchr l c = Some (Some k) -> first_occ c l k.
Proof.
  revert k. induction l as [|x l IH]; intros k H; simpl in H; [discriminate|].
  destruct (N.eqb_spec x c) as [->|Hc].
  - injection H as <-. repeat split; simpl; auto; lia.
  - destruct (N.eqb_spec x 0) as [->|Hz]; [discriminate|].
    destruct (strchr l c) as [[k'|]|] eqn:E; try discriminate. injection H as <-.
    destruct (IH k' eq_refl) as (H1 & H2 & H3). repeat split; simpl; auto; try lia.
    + destruct j; simpl; auto. apply H3. lia.
    + destruct j; simpl; auto. apply H3. lia.
Qed.

Lemma strchr_null l c :
  strchr l c = Some None ->
  exists z, (z < length l)%nat /\ nth z l POISON = 0 /\ forall j, (j <= z)%nat -> nth j l POISON <> c.
Proof.
  induction l as [|x l IH]; intros H; simpl in H; [discriminate|].
  destruct (N.eqb_spec x c) as [->|Hc]; [discriminate|].
  destruct (N.eqb_spec x 0) as [->|Hz].
  - exists O. repeat split; simpl; auto; try lia. intros j Hj. replace j with O by lia. auto.
  - destruct (strchr l c) as [[k'|]|] eqn:E; try discriminate.
    destruct (IH eq_refl) as (z & H1 & H2 & H3). exists (S z). repeat split; simpl; auto; try lia.
    intros [|j] Hj; simpl; auto. apply H3. lia.
Qed.

Lemma strchr_none l c : strchr l c = None -> ~ In 0 l.
Proof.
  induction l as [|x l IH]; intros H; simpl in *; auto.
  destruct (N.eqb_spec x c); [discriminate|]. destruct (N.eqb_spec x 0); [discriminate|].
  destruct (strchr l c) as [[k'|]|] eqn:E; try discriminate.
  intros [X|X]; [congruence|]. apply IH; auto.
Qed.

Lemma prefixb_spec n h : prefixb n h = true <-> exists r, h = n ++ r.
Proof.
  revert h. induction n as [|x n IH]; intros h; simpl.
  - split; eauto.
  - destruct h as [|y h]; [split; [discriminate|intros (r & E); discriminate]|].
    rewrite andb_true_iff, IH, N.eqb_eq. split.
    + intros (-> & r & ->). eauto.
    + intros (r & E). injection E as -> ->. eauto.
Qed.

Lemma strstr_some h n k :
  strstr h n = Some k ->
  (k <= length h)%nat /\ prefixb n (skipn k h) = true /\
  forall j, (j < k)%nat -> prefixb n (skipn j h) = false.
Proof.
  revert k. induction h as [|y h IH]; intros k H; simpl in H.
  - destruct (prefixb n []) eqn:P; [|discriminate]. injection H as <-. repeat split; auto; lia.
  - destruct (prefixb n (y :: h)) eqn:P.
    + injection H as <-. repeat split; auto; simpl; lia.
    + destruct (strstr h n) as [k'|] eqn:E; [|discriminate]. injection H as <-.
      destruct (IH k' eq_refl) as (H1 & H2 & H3). repeat split; simpl; auto; try lia.
      intros [|j] Hj; simpl; auto. apply H3. lia.
Qed.

Lemma strstr_none h n :
  strstr h n = None -> forall j, (j <= length h)%nat -> prefixb n (skipn j h) = false.
Proof.
  induction h as [|y h IH]; intros H j Hj; simpl in H.
  - destruct (prefixb n []) eqn:P; [discriminate|]. simpl in Hj. replace j with O by lia. auto.
  - destruct (prefixb n (y :: h)) eqn:P; [discriminate|].
    destruct (strstr h n) eqn:E; [discriminate|].
    destruct j; simpl; auto. apply IH; auto. simpl in Hj. lia.
Qed.

Inductive lexlt : list N -> list N -> Prop :=
| lexlt_nil y b : lexlt [] (y :: b)
| lexlt_head x y a b : x < y -> lexlt (x :: a) (y :: b)
| lexlt_tail x a b : lexlt a b -> lexlt (x :: a) (x :: b).

Lemma strcmp_eq a b : strcmp a b = 0%Z <-> a = b.
Proof.
  revert b. induction a as [|x a IH]; intros [|y b]; simpl; try (split; [discriminate|discriminate]); [tauto|].
  destruct (N.eqb_spec x y) as [->|Hn].
  - rewrite IH. split; [intros ->; auto|intros [= ->]; auto].
  - destruct (x <? y); split; try discriminate; intros [= -> ->]; congruence.
Qed.

Lemma strcmp_lt a b : strcmp a b = (-1)%Z <-> lexlt a b.
Proof.
  revert b. induction a as [|x a IH]; intros [|y b]; simpl.
  - split; [discriminate|intros H; inversion H].
  - split; [constructor|auto].
  - split; [discriminate|intros H; inversion H].
  - destruct (N.eqb_spec x y) as [->|Hn].
    + rewrite IH. split; [intros H; apply lexlt_tail; auto|]. intros H; inversion H; subst; auto. lia.
    + destruct (N.ltb_spec x y) as [Hl|Hl].
      * split; [intros _; apply lexlt_head; auto|auto].
      * split; [discriminate|]. intros H; inversion H; subst; [lia|congruence].
Qed.

Lemma strcmp_antisym a b : strcmp b a = (- strcmp a b)%Z.
Proof.
  revert b. induction a as [|x a IH]; intros [|y b]; simpl; auto.
  destruct (N.eqb_spec x y) as [->|Hn].
  - rewrite N.eqb_refl. apply IH.
  - destruct (N.eqb_spec y x); [congruence|].
    destruct (N.ltb_spec x y), (N.ltb_spec y x); auto; lia.
Qed.

Lemma cstr_spec l h : cstr l = Some h -> exists r, l = h ++ 0 :: r /\ ~ In 0 h.
Proof.
  revert h. induction l as [|x l IH]; intros h H; simpl in H; [discriminate|].
  destruct (N.eqb_spec x 0) as [->|Hz].
  - injection H as <-. exists l. split; auto.
  - destruct (cstr l) as [h'|] eqn:E; [|discriminate]. injection H as <-.
    destruct (IH h' eq_refl) as (r & -> & Hn). exists r. split; auto. intros [X|X]; auto.
Qed.

Lemma cstr_terminated l : exists h, cstr (l ++ [0]) = Some h.
Proof.
  induction l as [|x l (h & IH)]; simpl; [eauto|].
  destruct (x =? 0); [eauto|]. rewrite IH. simpl. eauto.
Qed.

Lemma strchr_terminated l c : strchr (l ++ [0]) c <> None.
Proof. intros H. apply strchr_none in H. apply H. apply in_or_app. right. left. auto. Qed.

(** * find_ch / find_str / compare against those specifications *)

Lemma first_occ_app_lt c t k :
  (k < length t)%nat -> first_occ c (t ++ [0]) k -> first_occ c t k.
Proof.
  intros Hk (_ & H2 & H3). repeat split; auto.
  - rewrite app_nth1 in H2; auto.
  - specialize (H3 j H). rewrite app_nth1 in H3 by lia. apply H3.
  - specialize (H3 j H). rewrite app_nth1 in H3 by lia. apply H3.
Qed.

Lemma find_ch_spec al v c pos :
  str_ok al v ->
  match find_ch false al v c pos with
  | Ok r =>
    pos < s_size v /\
    ((exists k, r = Z.of_N (pos + N.of_nat k) /\ first_occ c (skipn (N.to_nat pos) (sabs v)) k) \/
     (r = (-1)%Z /\ forall k, ~ first_occ c (skipn (N.to_nat pos) (sabs v)) k))
  | Abt => s_size v <= pos
  | Flt => False
  end.
Proof.
  intros So. unfold find_ch. destruct (N.leb_spec (s_size v) pos) as [H|H]; auto.
  rewrite (s_view_spec al v So). pose proof (str_size al v So) as Sz.
  rewrite skipn_app_le by lia. set (t := skipn (N.to_nat pos) (sabs v)).
  assert (Lt : length t = (length (sabs v) - N.to_nat pos)%nat) by (unfold t; apply skipn_length).
  destruct (strchr (t ++ [NUL]) c) as [[k|]|] eqn:E.
  - apply strchr_some in E. pose proof E as (Hk & Hn & Hb). rewrite app_length in Hk. simpl in Hk.
    destruct (N.eqb_spec (pos + N.of_nat k) (s_size v)) as [Q|Q].
    + split; auto. right. split; auto. intros k' (K1 & K2 & K3).
      assert (k = length t) by lia. subst k.
      destruct (Hb k' K1) as (X & _). rewrite app_nth1 in X by auto. contradiction.
    + split; auto. left. exists k. split; auto. apply first_occ_app_lt; auto. lia.
  - apply strchr_null in E. destruct E as (z & Hz & Hn & Hb). split; auto. right. split; auto.
    intros k' (K1 & K2 & K3). destruct (Nat.le_gt_cases k' z) as [Q|Q].
    + specialize (Hb k' Q). rewrite app_nth1 in Hb by auto. contradiction.
    + destruct (K3 z Q) as (_ & X). rewrite app_nth1 in Hn by lia. contradiction.
  - exfalso. exact (strchr_terminated t c E).
Qed.

(** the C string seen through str(): characters before the first NUL *)
Definition cview (v : vec) : list N :=
  match cstr (sabs v ++ [NUL]) with Some h => h | None => [] end.

Lemma cview_spec v : exists r, sabs v ++ [NUL] = cview v ++ 0 :: r /\ ~ In 0 (cview v).
Proof.
  unfold cview. destruct (cstr_terminated (sabs v)) as (h & E). unfold NUL. rewrite E.
  apply cstr_spec; auto.
Qed.

Lemma find_str_spec al v ndl pos :
  str_ok al v ->
  match find_str false al v ndl pos with
  | Ok r =>
    pos < s_size v /\
    exists h, cstr (skipn (N.to_nat pos) (sabs v) ++ [NUL]) = Some h /\
    ((exists k, r = Z.of_N (pos + N.of_nat k) /\ strstr h ndl = Some k) \/
     (r = (-1)%Z /\ strstr h ndl = None))
  | Abt => s_size v <= pos
  | Flt => False
  end.
Proof.
  intros So. unfold find_str. destruct (N.leb_spec (s_size v) pos) as [H|H]; auto.
  rewrite (s_view_spec al v So). pose proof (str_size al v So) as Sz.
  rewrite skipn_app_le by lia.
  destruct (cstr_terminated (skipn (N.to_nat pos) (sabs v))) as (h & E). unfold NUL. rewrite E.
  destruct (strstr h ndl) as [k|] eqn:Es; (split; [auto|]); exists h; (split; [auto|]);
    [left; eauto|right; auto].
Qed.

Lemma compare_spec al a b :
  str_ok al a -> str_ok al b -> compare false al a b = Ok (strcmp (cview a) (cview b)).
Proof.
  intros Sa Sb. unfold compare, compare_str. rewrite (s_view_spec al b Sb), (s_view_spec al a Sa).
  unfold cview. destruct (cstr_terminated (sabs a)) as (ha & Ea). destruct (cstr_terminated (sabs b)) as (hb & Eb).
  unfold NUL. rewrite Ea, Eb. reflexivity.
Qed.

Lemma compare_str_spec al a cs :
  str_ok al a -> compare_str false al a cs = Ok (strcmp (cview a) cs).
Proof.
  intros Sa. unfold compare_str. rewrite (s_view_spec al a Sa).
  unfold cview. destruct (cstr_terminated (sabs a)) as (ha & Ea). unfold NUL. rewrite Ea. reflexivity.
Qed.

Lemma find_spec al v ndl pos :
  str_ok al v -> str_ok al ndl -> find false al v ndl pos = find_str false al v (cview ndl) pos.
Proof.
  intros So Sn. unfold find. rewrite (s_view_spec al ndl Sn). unfold cview.
  destruct (cstr_terminated (sabs ndl)) as (h & E). unfold NUL. rewrite E. reflexivity.
Qed.

(** * The system of strings over one heap *)

Definition ssys_ok (s : sys) : Prop := sys_ok s /\ Forall (str_ok (heap s)) (vecs s).

(** the reference strings *)
Definition sabs_sys (s : sys) : list (list N) := map sabs (vecs s).

Lemma map_upd {A B} (f : A -> B) l i x : map f (upd l i x) = upd (map f l) i (f x).
Proof. revert i. induction l as [|y r IH]; intros [|i]; simpl; auto. rewrite IH. reflexivity. Qed.

Lemma upd_upd {A} (l : list A) i x y : upd (upd l i x) i y = upd l i y.
Proof. revert i. induction l as [|z r IH]; intros [|i]; simpl; auto. rewrite IH. reflexivity. Qed.

Lemma ssys_ok_init w n : 1 <= w -> ssys_ok (str_init w n).
Proof.
  intros H. split.
  - apply sys_ok_init. apply Forall_forall. intros p Hp. apply repeat_spec in Hp. subst p. auto.
  - unfold str_init, sys_init. simpl. apply Forall_forall. intros v Hv.
    apply in_map_iff in Hv. destruct Hv as (p & <- & Hp). apply repeat_spec in Hp. subst p.
    apply str_ok_init; auto.
Qed.

Lemma ssys_upd s i v al' v' :
  ssys_ok s -> nth_error (vecs s) i = Some v ->
  alloc_ok al' -> no_bad_free al' -> str_ok al' v' ->
  heap_frame (heap s) al' (base v) (base v') ->
  ssys_ok (mkSys (upd (vecs s) i v') al').
Proof.
  intros (So & Fs) E A' NB' S' Fr. pose proof S' as (V' & _).
  pose proof (sys_ok_upd s i v al' v' So E A' NB' V' Fr) as So'.
  split; auto. simpl. pose proof So' as (_ & _ & Fv & _). simpl in Fv.
  apply Forall_forall. intros u Hu. apply In_nth_error in Hu. destruct Hu as (j & Ej).
  pose proof (Forall_nth_error _ _ _ _ Fv Ej) as Vu.
  apply nth_error_upd_Some in Ej. destruct Ej as [(-> & -> & _)|(Hn & Ej)]; auto.
  destruct (Forall_nth_error _ _ _ _ Fs Ej) as (_ & R). split; auto.
Qed.

Lemma ssys_nth s i v : ssys_ok s -> nth_error (vecs s) i = Some v -> str_ok (heap s) v.
Proof. intros (_ & F) E. exact (Forall_nth_error _ _ _ _ F E). Qed.

Lemma ssys_distinct s i j vi vj b :
  ssys_ok s -> i <> j -> nth_error (vecs s) i = Some vi -> nth_error (vecs s) j = Some vj ->
  base vi = Some b -> base vj <> Some b.
Proof.
  intros ((_ & _ & _ & D & _) & _) Hn Ei Ej Bi Bj. apply Hn. eapply D; eauto.
Qed.

Lemma sabs_nth s i v : nth_error (vecs s) i = Some v -> nth_error (sabs_sys s) i = Some (sabs v).
Proof. intros E. unfold sabs_sys. rewrite nth_error_map, E. reflexivity. Qed.

(** reference semantics on lists *)
Definition ins_at (s : list N) (p : nat) (x : list N) : list N := firstn p s ++ x ++ skipn p s.
Definition cpre (s : list N) : list N :=
  match cstr (s ++ [0]) with Some h => h | None => [] end.

Lemma cview_cpre v : cview v = cpre (sabs v).
Proof. reflexivity. Qed.

(** arguments are size_t values; literals have a size_t length *)
Definition op_small (o : sop) : Prop :=
  match o with
  | SSet _ cs | SAppendStr _ cs | SCompareStr _ cs => N.of_nat (length cs) < W64
  | SInsertCh _ pos cnt _ => pos < W64 /\ cnt < W64
  | SInsertStr _ pos cs | SInsertStrN _ pos cs | SFindStr _ cs pos | SAppendStrN _ pos cs =>
    pos < W64 /\ N.of_nat (length cs) < W64
  | SInsert _ pos _ | SFind _ pos _ => pos < W64
  | SAppendCh _ cnt _ => cnt < W64
  | SErase _ pos len | SSubstr _ pos len _ => pos < W64 /\ len < W64
  | SResize _ n | SReserve _ n | SAt _ n | SAtConst _ n => n < W64
  | SFindCh _ _ pos => pos < W64
  | _ => True
  end.


Lemma sumbool_and_aux (P Q : Prop) : {P} + {~ P} -> {Q} + {~ Q} -> {P /\ Q} + {~ (P /\ Q)}.
Proof. intros [p|np] [q|nq]; [left; auto|right; tauto|right; tauto|right; tauto]. Qed.

Lemma op_small_dec o : {op_small o} + {~ op_small o}.
Proof.
  destruct o; simpl; try (left; exact I);
    repeat match goal with
    | |- {_ /\ _} + {_} => apply sumbool_and_aux
    | |- {?a < ?b} + {_} =>
      let E := fresh "E" in
      destruct (a <? b) eqn:E; [left; apply N.ltb_lt; auto|right; apply N.ltb_ge in E; lia]
    end.
Qed.

Section SSys.
  Variable ok : nat -> N -> bool.
  Notation sstep := (StrModel.sstep ok false).

  Definition sspec (s : sys) (o : sop) (s' : sys) (out : list Z) : Prop :=
    let r := sabs_sys s in
    let r' := sabs_sys s' in
    match o with
    | SSet i cs => r' = upd r i cs /\ out = []
    | SInsertCh i pos cnt c =>
      exists x, nth_error r i = Some x /\ (N.to_nat pos <= length x)%nat /\
                r' = upd r i (ins_at x (N.to_nat pos) (repeat c (N.to_nat cnt))) /\ out = []
    | SInsertStr i pos cs | SInsertStrN i pos cs =>
      exists x, nth_error r i = Some x /\ (N.to_nat pos <= length x)%nat /\
                r' = upd r i (ins_at x (N.to_nat pos) cs) /\ out = []
    | SInsert i pos t =>
      exists x y, nth_error r i = Some x /\ nth_error r t = Some y /\ (N.to_nat pos <= length x)%nat /\
                  r' = upd r i (ins_at x (N.to_nat pos) y) /\ out = []
    | SAppend i t =>
      exists x y, nth_error r i = Some x /\ nth_error r t = Some y /\ r' = upd r i (x ++ y) /\ out = []
    | SAppendCh i cnt c =>
      exists x, nth_error r i = Some x /\ r' = upd r i (x ++ repeat c (N.to_nat cnt)) /\ out = []
    | SAppendStr i cs =>
      exists x, nth_error r i = Some x /\ r' = upd r i (x ++ cs) /\ out = []
    | SErase i pos len =>
      exists x, nth_error r i = Some x /\ (N.to_nat pos < length x)%nat /\
                r' = upd r i (firstn (N.to_nat pos) x ++
                              skipn (N.to_nat pos + Nat.min (N.to_nat len) (length x - N.to_nat pos)) x) /\
                out = []
    | SSubstr i pos len t =>
      exists x, nth_error r i = Some x /\ (N.to_nat pos < length x)%nat /\
                r' = upd r t (firstn (Nat.min (N.to_nat len) (length x - N.to_nat pos)) (skipn (N.to_nat pos) x)) /\
                out = []
    | SResize i n =>
      exists x, nth_error r i = Some x /\
                r' = upd r i (firstn (N.to_nat n) x ++ repeat NUL (N.to_nat n - length x)) /\ out = []
    | SReserve i n => r' = r /\ out = []
    | SSwap a b =>
      exists x y, nth_error r a = Some x /\ nth_error r b = Some y /\ r' = upd (upd r a y) b x /\ out = []
    | SClear i => r' = upd r i [] /\ out = []
    | SAppendStrN i n cs =>
      exists x, nth_error r i = Some x /\ (N.to_nat n <= length cs)%nat /\
                r' = upd r i (x ++ firstn (N.to_nat n) cs) /\ out = []
    | SData i =>
      (* NULL only for a string without storage; once the string was
         assigned, the start of its block, where the reference string
         followed by NUL is read *)
      exists v, nth_error (vecs s) i = Some v /\ s' = s /\ out = data_obs (heap s) v /\
        (s_data v = None -> sabs v = [] /\ out = [1%Z]) /\
        (0 < count v -> exists b, s_data v = Some b /\ is_live (heap s) b = true /\
                                  out = 0%Z :: Z.of_nat b :: 0%Z :: 1%Z :: map Z.of_N (sabs v))
    | SAt i k | SAtConst i k =>
      exists v, nth_error (vecs s) i = Some v /\ s' = s /\ (N.to_nat k < length (sabs v))%nat /\
                out = [Z.of_N (k * esize v); Z.of_N (nth (N.to_nat k) (sabs v) POISON)]
    | SFindCh i c pos =>
      exists x z, nth_error r i = Some x /\ s' = s /\ (N.to_nat pos < length x)%nat /\ out = [z] /\
        ((exists k, z = Z.of_N (pos + N.of_nat k) /\ first_occ c (skipn (N.to_nat pos) x) k) \/
         (z = (-1)%Z /\ forall k, ~ first_occ c (skipn (N.to_nat pos) x) k))
    | SFindStr i cs pos =>
      exists x z, nth_error r i = Some x /\ s' = s /\ (N.to_nat pos < length x)%nat /\ out = [z] /\
        ((exists k, z = Z.of_N (pos + N.of_nat k) /\ strstr (cpre (skipn (N.to_nat pos) x)) cs = Some k) \/
         (z = (-1)%Z /\ strstr (cpre (skipn (N.to_nat pos) x)) cs = None))
    | SFind i pos t =>
      exists x y z, nth_error r i = Some x /\ nth_error r t = Some y /\ s' = s /\
        (N.to_nat pos < length x)%nat /\ out = [z] /\
        ((exists k, z = Z.of_N (pos + N.of_nat k) /\ strstr (cpre (skipn (N.to_nat pos) x)) (cpre y) = Some k) \/
         (z = (-1)%Z /\ strstr (cpre (skipn (N.to_nat pos) x)) (cpre y) = None))
    | SCompare a b =>
      exists x y, nth_error r a = Some x /\ nth_error r b = Some y /\ s' = s /\
                  out = [strcmp (cpre x) (cpre y)]
    | SCompareStr a cs =>
      exists x, nth_error r a = Some x /\ s' = s /\ out = [strcmp (cpre x) cs]
    end.

  (** when an operation of the repaired code aborts *)
  Definition sabort (s : sys) (o : sop) : Prop :=
    let al := heap s in
    match o with
    | SInsertCh i pos cnt _ =>
      exists v, nth_error (vecs s) i = Some v /\
                (s_size v < pos \/ (0 < cnt /\ grow_fails ok al v (s_size v + cnt)))
    | SInsertStr i pos cs | SInsertStrN i pos cs =>
      exists v, nth_error (vecs s) i = Some v /\
                (s_size v < pos \/ (cs <> [] /\ grow_fails ok al v (s_size v + N.of_nat (length cs))))
    | SInsert i pos t =>
      exists v vt, nth_error (vecs s) i = Some v /\ nth_error (vecs s) t = Some vt /\
                   (s_size v < pos \/ (0 < s_size vt /\ grow_fails ok al v (s_size v + s_size vt)))
    | SAppend i t =>
      exists v vt, nth_error (vecs s) i = Some v /\ nth_error (vecs s) t = Some vt /\
                   0 < s_size vt /\ grow_fails ok al v (s_size v + s_size vt)
    | SAppendCh i cnt _ =>
      exists v, nth_error (vecs s) i = Some v /\ 0 < cnt /\ grow_fails ok al v (s_size v + cnt)
    | SAppendStr i cs =>
      exists v, nth_error (vecs s) i = Some v /\ cs <> [] /\
                grow_fails ok al v (s_size v + N.of_nat (length cs))
    | SAppendStrN i n _ =>
      exists v, nth_error (vecs s) i = Some v /\ 0 < n /\ grow_fails ok al v (s_size v + n)
    | SErase i pos _ | SAt i pos | SAtConst i pos | SFindCh i _ pos | SFindStr i _ pos | SFind i pos _ =>
      exists v, nth_error (vecs s) i = Some v /\ s_size v <= pos
    | SSubstr i pos len t =>
      exists v vt, nth_error (vecs s) i = Some v /\ nth_error (vecs s) t = Some vt /\
                   (s_size v <= pos \/ grow_fails ok al vt (N.min len (s_size v - pos)))
    | SResize i n => exists v, nth_error (vecs s) i = Some v /\ grow_fails ok al v n
    | SSet i cs =>
      (* resize(0) or the following insertion could not grow the buffer *)
      exists v, nth_error (vecs s) i = Some v /\
        (grow_fails ok al v 0 \/
         exists al1 v1, s_resize ok false al v 0 = Ok (al1, v1) /\ cs <> [] /\
                        grow_fails ok al1 v1 (N.of_nat (length cs)))
    | _ => False
    end.
End SSys.

Section SStepProof.
  Variable ok : nat -> N -> bool.
  Notation sstep := (StrModel.sstep ok false).

  Lemma lit_small_len (cs : list N) : N.of_nat (length cs) < W64 -> (N.to_nat (N.of_nat (length cs)) <= length cs)%nat.
  Proof. intros _. lia. Qed.

  Lemma nonempty_len (cs : list N) : 0 < N.of_nat (length cs) <-> cs <> [].
  Proof. destruct cs; simpl; split; intros; try lia; congruence. Qed.

  Lemma sabs_sys_upd s i v' al' :
    sabs_sys (mkSys (upd (vecs s) i v') al') = upd (sabs_sys s) i (sabs v').
  Proof. unfold sabs_sys. simpl. apply map_upd. Qed.

  Ltac fin_upd :=
    split; [eapply ssys_upd; eauto|]; unfold sspec; cbv zeta; rewrite sabs_sys_upd.

  Theorem sstep_ok s o :
    ssys_ok s -> op_small o ->
    match sstep s o with
    | Done s' out => ssys_ok s' /\ sspec s o s' out
    | Precond => True
    | Abort => sabort ok s o
    | Fault => False
    end.
  Proof.
    intros So Sm. pose proof So as ((A & NB & _) & _).
    destruct o as [i cs|i pos cnt c|i pos cs|i pos cs|i pos t|i t|i cnt c|i cs|i pos len|i pos len t|i n|i n
                   |a b|i|i k|i c pos|i cs pos|i pos t|a b|a cs|i n cs|i k|i];
      cbn [StrModel.sstep]; unfold with_vec; simpl in Sm.
    - (* set *)
      destruct (nth_error (vecs s) i) as [v|] eqn:E; auto. destruct (lit_ok (esize v) cs); auto.
      pose proof (ssys_nth s i v So E) as Sv. unfold set_str.
      pose proof (s_resize_spec ok (heap s) v 0 A NB Sv ltac:(reflexivity)) as R1.
      destruct (s_resize ok false (heap s) v 0) as [[al1 v1]| |] eqn:E1; simpl; [| |contradiction].
      2:{ exists v. auto. }
      destruct R1 as (A1 & NB1 & S1 & F1 & Es1 & _ & Ab1 & _).
      simpl in Ab1.
      pose proof (ssys_upd s i v al1 v1 So E A1 NB1 S1 F1) as So1.
      assert (E1' : nth_error (vecs (mkSys (upd (vecs s) i v1) al1)) i = Some v1).
      { simpl. apply nth_error_upd_same. apply nth_error_Some. congruence. }
      pose proof (str_size al1 v1 S1) as Sz1. rewrite Ab1 in Sz1. simpl in Sz1.
      assert (Z1 : s_size v1 = 0) by lia.
      unfold insert_str. rewrite Z1.
      pose proof (insert_str_n_spec ok al1 v1 0 cs (N.of_nat (length cs)) A1 NB1 S1 ltac:(reflexivity) Sm
                                    ltac:(lia)) as R2.
      destruct (insert_str_n ok false al1 v1 0 cs (N.of_nat (length cs))) as [[al2 v2]| |]; simpl; [| |contradiction].
      + destruct R2 as (_ & _ & A2 & NB2 & S2 & F2 & Es2 & Ab2).
        pose proof (ssys_upd _ i v1 al2 v2 So1 E1' A2 NB2 S2 F2) as So2. simpl in So2.
        rewrite upd_upd in So2. split; auto.
        unfold sspec; cbv zeta. rewrite <- (upd_upd (vecs s) i v1 v2).
        change (mkSys (upd (upd (vecs s) i v1) i v2) al2) with
          (mkSys (upd (vecs (mkSys (upd (vecs s) i v1) al1)) i v2) al2).
        rewrite sabs_sys_upd, sabs_sys_upd, upd_upd. split; auto. f_equal.
        rewrite Ab2, Ab1. simpl. rewrite Nat2N.id, firstn_all. apply app_nil_r.
      + exists v. split; auto. right. exists al1, v1. split; auto.
        destruct R2 as [X|(X1 & X2)]; [rewrite Z1 in X; lia|]. rewrite Z1 in X2. simpl in X2.
        split; auto. apply nonempty_len; auto.
    - (* insert_ch *)
      destruct Sm as (Hp & Hc).
      destruct (nth_error (vecs s) i) as [v|] eqn:E; auto. destruct (char_ok (esize v) c); auto.
      pose proof (ssys_nth s i v So E) as Sv.
      pose proof (insert_ch_spec ok (heap s) v pos cnt c A NB Sv Hp Hc) as R.
      destruct (insert_ch ok false (heap s) v pos cnt c) as [[al' v']| |]; simpl; [| |contradiction].
      + destruct R as (Hpos & _ & A' & NB' & S' & F' & _ & Ab). fin_upd.
        exists (sabs v). pose proof (str_size _ _ Sv). rewrite (sabs_nth s i v E). rewrite Ab.
        repeat split; auto. lia.
      + exists v. auto.
    - (* insert_str *)
      destruct Sm as (Hp & Hc).
      destruct (nth_error (vecs s) i) as [v|] eqn:E; auto. destruct (lit_ok (esize v) cs); auto.
      pose proof (ssys_nth s i v So E) as Sv. unfold insert_str.
      pose proof (insert_str_n_spec ok (heap s) v pos cs _ A NB Sv Hp Hc ltac:(lia)) as R.
      destruct (insert_str_n ok false (heap s) v pos cs (N.of_nat (length cs))) as [[al' v']| |]; simpl; [| |contradiction].
      + destruct R as (Hpos & _ & A' & NB' & S' & F' & _ & Ab). fin_upd.
        exists (sabs v). pose proof (str_size _ _ Sv). rewrite (sabs_nth s i v E). rewrite Ab.
        rewrite Nat2N.id, firstn_all. repeat split; auto. lia.
      + exists v. split; auto. destruct R as [X|(X1 & X2)]; auto. right. split; auto. apply nonempty_len; auto.
    - (* insert_str_n *)
      destruct Sm as (Hp & Hc).
      destruct (nth_error (vecs s) i) as [v|] eqn:E; auto. destruct (forallb (char_ok (esize v)) cs); auto.
      pose proof (ssys_nth s i v So E) as Sv.
      pose proof (insert_str_n_spec ok (heap s) v pos cs _ A NB Sv Hp Hc ltac:(lia)) as R.
      destruct (insert_str_n ok false (heap s) v pos cs (N.of_nat (length cs))) as [[al' v']| |]; simpl; [| |contradiction].
      + destruct R as (Hpos & _ & A' & NB' & S' & F' & _ & Ab). fin_upd.
        exists (sabs v). pose proof (str_size _ _ Sv). rewrite (sabs_nth s i v E). rewrite Ab.
        rewrite Nat2N.id, firstn_all. repeat split; auto. lia.
      + exists v. split; auto. destruct R as [X|(X1 & X2)]; auto. right. split; auto. apply nonempty_len; auto.
    - (* insert *)
      destruct (Nat.eqb_spec i t) as [->|Hit]; auto.
      destruct (nth_error (vecs s) i) as [v|] eqn:E; auto.
      destruct (nth_error (vecs s) t) as [vt|] eqn:Et; auto.
      pose proof (ssys_nth s i v So E) as Sv. pose proof (ssys_nth s t vt So Et) as St.
      pose proof (insert_spec ok (heap s) v pos vt A NB Sv St Sm) as R.
      destruct (insert ok false (heap s) v pos vt) as [[al' v']| |]; simpl; [| |contradiction].
      + destruct R as (Hpos & _ & A' & NB' & S' & F' & _ & Ab). fin_upd.
        exists (sabs v), (sabs vt). pose proof (str_size _ _ Sv).
        rewrite (sabs_nth s i v E), (sabs_nth s t vt Et), Ab. repeat split; auto. lia.
      + exists v, vt. auto.
    - (* append *)
      destruct (Nat.eqb_spec i t) as [->|Hit]; auto.
      destruct (nth_error (vecs s) i) as [v|] eqn:E; auto.
      destruct (nth_error (vecs s) t) as [vt|] eqn:Et; auto.
      pose proof (ssys_nth s i v So E) as Sv. pose proof (ssys_nth s t vt So Et) as St.
      pose proof (str_size _ _ Sv) as Sz.
      assert (Hs : s_size v < W64).
      { pose proof (str_size_le_cap _ _ Sv) as Hc. destruct Sv as (Vv & _).
        destruct (option_eq_dec_aux (base v) None) as [Q|Q].
        - destruct Vv as (_ & _ & _ & Hb). rewrite Q in Hb. unfold W64. lia.
        - pose proof (cap_small _ _ Vv Q). unfold LIMIT, W64 in *. lia. }
      pose proof (insert_spec ok (heap s) v (s_size v) vt A NB Sv St Hs) as R.
      destruct (insert ok false (heap s) v (s_size v) vt) as [[al' v']| |]; simpl; [| |contradiction].
      + destruct R as (Hpos & _ & A' & NB' & S' & F' & _ & Ab). fin_upd.
        exists (sabs v), (sabs vt).
        rewrite (sabs_nth s i v E), (sabs_nth s t vt Et), Ab. repeat split; auto.
        rewrite Sz, firstn_all, skipn_all, app_nil_r. reflexivity.
      + exists v, vt. destruct R as [X|X]; [lia|]. auto.
    - (* append_ch *)
      destruct (nth_error (vecs s) i) as [v|] eqn:E; auto. destruct (char_ok (esize v) c); auto.
      pose proof (ssys_nth s i v So E) as Sv. pose proof (str_size _ _ Sv) as Sz.
      assert (Hs : s_size v < W64).
      { pose proof (str_size_le_cap _ _ Sv) as Hc. destruct Sv as (Vv & _).
        destruct (option_eq_dec_aux (base v) None) as [Q|Q].
        - destruct Vv as (_ & _ & _ & Hb). rewrite Q in Hb. unfold W64. lia.
        - pose proof (cap_small _ _ Vv Q). unfold LIMIT, W64 in *. lia. }
      pose proof (insert_ch_spec ok (heap s) v (s_size v) cnt c A NB Sv Hs Sm) as R.
      destruct (insert_ch ok false (heap s) v (s_size v) cnt c) as [[al' v']| |]; simpl; [| |contradiction].
      + destruct R as (Hpos & _ & A' & NB' & S' & F' & _ & Ab). fin_upd.
        exists (sabs v). rewrite (sabs_nth s i v E), Ab. repeat split; auto.
        rewrite Sz, firstn_all, skipn_all, app_nil_r. reflexivity.
      + exists v. destruct R as [X|X]; [lia|]. auto.
    - (* append_str *)
      destruct (nth_error (vecs s) i) as [v|] eqn:E; auto. destruct (lit_ok (esize v) cs); auto.
      pose proof (ssys_nth s i v So E) as Sv. pose proof (str_size _ _ Sv) as Sz.
      assert (Hs : s_size v < W64).
      { pose proof (str_size_le_cap _ _ Sv) as Hc. destruct Sv as (Vv & _).
        destruct (option_eq_dec_aux (base v) None) as [Q|Q].
        - destruct Vv as (_ & _ & _ & Hb). rewrite Q in Hb. unfold W64. lia.
        - pose proof (cap_small _ _ Vv Q). unfold LIMIT, W64 in *. lia. }
      unfold insert_str.
      pose proof (insert_str_n_spec ok (heap s) v (s_size v) cs _ A NB Sv Hs Sm ltac:(lia)) as R.
      destruct (insert_str_n ok false (heap s) v (s_size v) cs (N.of_nat (length cs))) as [[al' v']| |]; simpl; [| |contradiction].
      + destruct R as (Hpos & _ & A' & NB' & S' & F' & _ & Ab). fin_upd.
        exists (sabs v). rewrite (sabs_nth s i v E), Ab. repeat split; auto.
        rewrite Sz, firstn_all, skipn_all, app_nil_r, Nat2N.id, firstn_all. reflexivity.
      + exists v. destruct R as [X|(X1 & X2)]; [lia|]. repeat split; auto. apply nonempty_len; auto.
    - (* erase *)
      destruct Sm as (Hp & Hl).
      destruct (nth_error (vecs s) i) as [v|] eqn:E; auto.
      pose proof (ssys_nth s i v So E) as Sv. pose proof (str_size _ _ Sv) as Sz.
      pose proof (erase_spec ok (heap s) v pos len A NB Sv Hp Hl) as R.
      destruct (erase ok false (heap s) v pos len) as [[al' v']| |]; simpl; [| |contradiction].
      + destruct R as (Hpos & -> & B' & S' & _ & Ab).
        split.
        * eapply ssys_upd; eauto. rewrite B'. apply heap_frame_refl.
        * unfold sspec; cbv zeta; rewrite sabs_sys_upd.
          exists (sabs v). rewrite (sabs_nth s i v E), Ab. repeat split; auto; try lia.
          f_equal. f_equal. f_equal. rewrite N2Nat.inj_min. f_equal. lia.
      + exists v. auto.
    - (* substr *)
      destruct Sm as (Hp & Hl).
      destruct (Nat.eqb_spec i t) as [->|Hit]; auto.
      destruct (nth_error (vecs s) i) as [v|] eqn:E; auto.
      destruct (nth_error (vecs s) t) as [vt|] eqn:Et; auto.
      pose proof (ssys_nth s i v So E) as Sv. pose proof (ssys_nth s t vt So Et) as St.
      pose proof (str_size _ _ Sv) as Sz.
      pose proof (substr_spec ok (heap s) v pos len vt A NB Sv St
                              (fun b Hb => ssys_distinct s i t v vt b So Hit E Et Hb) Hp Hl) as R.
      destruct (substr ok false (heap s) v pos len vt) as [[al' v']| |]; simpl; [| |contradiction].
      + destruct R as (Hpos & _ & A' & NB' & S' & F' & _ & Ab).
        split; [eapply ssys_upd; eauto|]. unfold sspec; cbv zeta; rewrite sabs_sys_upd.
        exists (sabs v). rewrite (sabs_nth s i v E), Ab. repeat split; auto; try lia.
        f_equal. f_equal. rewrite N2Nat.inj_min. f_equal. lia.
      + exists v, vt. auto.
    - (* resize *)
      destruct (nth_error (vecs s) i) as [v|] eqn:E; auto.
      pose proof (ssys_nth s i v So E) as Sv.
      pose proof (s_resize_spec ok (heap s) v n A NB Sv Sm) as R.
      destruct (s_resize ok false (heap s) v n) as [[al' v']| |]; simpl; [| |contradiction].
      + destruct R as (A' & NB' & S' & F' & _ & _ & Ab & _). fin_upd.
        exists (sabs v). rewrite (sabs_nth s i v E), Ab. auto.
      + exists v. auto.
    - (* reserve *)
      destruct (nth_error (vecs s) i) as [v|] eqn:E; auto.
      pose proof (ssys_nth s i v So E) as Sv.
      pose proof (s_reserve_spec ok (heap s) v n A NB Sv) as R.
      destruct (s_reserve ok false (heap s) v n) as [[al' v']| |]; simpl; try contradiction.
      destruct R as (A' & NB' & S' & F' & _ & Ab & _). fin_upd.
      rewrite Ab. split; auto. apply upd_same_nth. apply sabs_nth; auto.
    - (* swap *)
      destruct (Nat.eqb_spec a b) as [->|Hab]; auto.
      destruct (nth_error (vecs s) a) as [va|] eqn:Ea; auto.
      destruct (nth_error (vecs s) b) as [vb|] eqn:Eb; auto.
      destruct So as (Sy & Fs).
      pose proof (step_ok ok s (Swap a b) Sy) as Hs. cbn [VectorModel.step] in Hs. unfold with_vec in Hs.
      destruct (Nat.eqb_spec a b); [contradiction|]. rewrite Ea, Eb in Hs.
      split; [split; auto|].
      + simpl. apply Forall_upd; [apply Forall_upd; auto|].
        * exact (Forall_nth_error _ _ _ _ Fs Eb).
        * exact (Forall_nth_error _ _ _ _ Fs Ea).
      + unfold sspec; cbv zeta. unfold sabs_sys. simpl. rewrite !map_upd. exists (sabs va), (sabs vb).
        rewrite !nth_error_map, Ea, Eb. auto.
    - (* clear *)
      destruct (nth_error (vecs s) i) as [v|] eqn:E; auto.
      pose proof (ssys_nth s i v So E) as Sv.
      pose proof (s_clear_spec ok (heap s) v A NB Sv) as R.
      destruct (clear ok false (heap s) v) as [[[al' v'] lg]| |]; simpl; try contradiction.
      destruct R as (A' & NB' & S' & F' & _ & Ab & _). fin_upd. rewrite Ab. auto.
    - (* at *)
      destruct (nth_error (vecs s) i) as [v|] eqn:E; auto.
      pose proof (ssys_nth s i v So E) as Sv. pose proof (str_size _ _ Sv) as Sz.
      pose proof (s_at_spec (heap s) v k Sv) as R.
      destruct (s_at (heap s) v k) as [[off c]| |]; simpl; try contradiction.
      + destruct R as (H1 & -> & ->). split; auto. exists v. repeat split; auto. lia.
      + exists v. auto.
    - (* find_ch *)
      destruct (nth_error (vecs s) i) as [v|] eqn:E; auto. destruct (char_ok (esize v) c); auto.
      pose proof (ssys_nth s i v So E) as Sv. pose proof (str_size _ _ Sv) as Sz.
      pose proof (find_ch_spec (heap s) v c pos Sv) as R.
      destruct (find_ch false (heap s) v c pos) as [z| |]; simpl; try contradiction.
      + destruct R as (H1 & H2). split; auto. exists (sabs v), z. rewrite (sabs_nth s i v E).
        repeat split; auto. lia.
      + exists v. auto.
    - (* find_str *)
      destruct Sm as (Hp & Hc).
      destruct (nth_error (vecs s) i) as [v|] eqn:E; auto. destruct (lit_ok (esize v) cs); auto.
      pose proof (ssys_nth s i v So E) as Sv. pose proof (str_size _ _ Sv) as Sz.
      pose proof (find_str_spec (heap s) v cs pos Sv) as R.
      destruct (find_str false (heap s) v cs pos) as [z| |]; simpl; try contradiction.
      + destruct R as (H1 & h & Eh & H2). split; auto. exists (sabs v), z. rewrite (sabs_nth s i v E).
        unfold cpre. unfold NUL in Eh. rewrite Eh. repeat split; auto. lia.
      + exists v. auto.
    - (* find *)
      destruct (nth_error (vecs s) i) as [v|] eqn:E; auto.
      destruct (nth_error (vecs s) t) as [vt|] eqn:Et; auto.
      pose proof (ssys_nth s i v So E) as Sv. pose proof (ssys_nth s t vt So Et) as St.
      pose proof (str_size _ _ Sv) as Sz.
      rewrite (find_spec (heap s) v vt pos Sv St).
      pose proof (find_str_spec (heap s) v (cview vt) pos Sv) as R.
      destruct (find_str false (heap s) v (cview vt) pos) as [z| |]; simpl; try contradiction.
      + destruct R as (H1 & h & Eh & H2). split; auto. exists (sabs v), (sabs vt), z.
        rewrite (sabs_nth s i v E), (sabs_nth s t vt Et).
        unfold cpre at 1 3. unfold NUL in Eh. rewrite Eh. rewrite <- cview_cpre. repeat split; auto. lia.
      + exists v. auto.
    - (* compare *)
      destruct (nth_error (vecs s) a) as [va|] eqn:Ea; auto.
      destruct (nth_error (vecs s) b) as [vb|] eqn:Eb; auto.
      pose proof (ssys_nth s a va So Ea) as Sa. pose proof (ssys_nth s b vb So Eb) as Sb.
      rewrite (compare_spec (heap s) va vb Sa Sb). simpl. split; auto.
      exists (sabs va), (sabs vb). rewrite (sabs_nth s a va Ea), (sabs_nth s b vb Eb). auto.
    - (* compare_str *)
      destruct (nth_error (vecs s) a) as [va|] eqn:Ea; auto. destruct (lit_ok (esize va) cs); auto.
      pose proof (ssys_nth s a va So Ea) as Sa.
      rewrite (compare_str_spec (heap s) va cs Sa). simpl. split; auto.
      exists (sabs va). rewrite (sabs_nth s a va Ea). auto.
    - (* append_str_n *)
      destruct Sm as (Hn & Hc).
      destruct (nth_error (vecs s) i) as [v|] eqn:E; auto. destruct (forallb (char_ok (esize v)) cs); auto.
      pose proof (ssys_nth s i v So E) as Sv.
      destruct (N.leb_spec n (N.of_nat (length cs))) as [Hle|Hgt].
      + pose proof (append_str_n_spec ok (heap s) v cs n A NB Sv Hn ltac:(lia)) as R.
        destruct (append_str_n ok false (heap s) v cs n) as [[al' v']| |]; simpl; [| |contradiction].
        * destruct R as (_ & A' & NB' & S' & F' & _ & Ab). fin_upd.
          exists (sabs v). rewrite (sabs_nth s i v E), Ab. repeat split; auto. lia.
        * exists v. auto.
      + pose proof (prep_insert_spec ok (heap s) v (s_size v) n A NB Sv (str_size_small (heap s) v Sv) Hn) as R.
        destruct (prep_insert ok false (heap s) v (s_size v) n) as [[al' v']| |]; auto.
        exists v. split; auto. destruct R as [X|X]; [lia|auto].
    - (* at_const *)
      destruct (nth_error (vecs s) i) as [v|] eqn:E; auto.
      pose proof (ssys_nth s i v So E) as Sv. pose proof (str_size _ _ Sv) as Sz.
      pose proof (s_at_const_spec (heap s) v k Sv) as R.
      destruct (s_at_const (heap s) v k) as [[off c]| |]; simpl; try contradiction.
      + destruct R as (H1 & -> & ->). split; auto. exists v. repeat split; auto. lia.
      + exists v. auto.
    - (* data *)
      destruct (nth_error (vecs s) i) as [v|] eqn:E; auto.
      pose proof (ssys_nth s i v So E) as Sv.
      destruct (s_data_spec (heap s) v Sv) as (D0 & D1).
      split; auto. exists v. repeat split; auto.
      + apply D0; auto.
      + apply D0; auto.
      + intros Cp. destruct (D1 Cp) as (b & bs & Eb & Ebs & _ & _ & _ & Eo). exists b. repeat split; auto.
        apply is_live_bsize. congruence.
  Qed.
End SStepProof.

Section SRun.
  Variable ok : nat -> N -> bool.
  Notation sstep := (StrModel.sstep ok false).

  Theorem sreach_ok w n s :
    1 <= w -> reach (fun s o => if op_small_dec o then sstep s o else Precond) (str_init w n) s -> ssys_ok s.
  Proof.
    intros Hw R. induction R as [|s o s' out R IH E]; [apply ssys_ok_init; auto|].
    destruct (op_small_dec o) as [Sm|]; [|discriminate].
    pose proof (sstep_ok ok s o IH Sm) as H. rewrite E in H. apply H.
  Qed.

  (** every string of a state satisfying the invariant: str() is the
      reference string followed by NUL, readable inside the live block *)
  Theorem str_terminated s i v :
    ssys_ok s -> nth_error (vecs s) i = Some v ->
    s_view false (heap s) v = Ok (sabs v ++ [NUL]) /\
    N.to_nat (s_size v) = length (sabs v) /\
    (0 < count v -> elems v = sabs v ++ [NUL] /\ count v = s_size v + 1 /\
                    slot (heap s) v (s_size v) = Some (N.to_nat (s_size v))).
  Proof.
    intros So E. pose proof (ssys_nth s i v So E) as Sv. repeat split.
    - apply s_view_spec; auto.
    - apply (str_size (heap s)); auto.
    - apply (str_elems (heap s)); auto.
    - apply (str_size_count (heap s)); auto.
    - destruct Sv as (V & _). apply slot_in_count; auto.
      unfold s_size. destruct (N.ltb_spec 0 (count v)); lia.
  Qed.

  Theorem srun_safe s ops :
    ssys_ok s -> Forall op_small ops ->
    match fst (run sstep s ops) with
    | Done s' _ => ssys_ok s'
    | Fault => False
    | _ => True
    end.
  Proof.
    revert s. induction ops as [|o ops IH]; intros s So F; simpl; auto.
    inversion F as [|? ? Sm F']; subst.
    pose proof (sstep_ok ok s o So Sm) as H.
    destruct (sstep s o) as [s' out| | |]; simpl; auto.
    destruct H as (H & _). specialize (IH s' H F'). destruct (run sstep s' ops); simpl in *; auto.
  Qed.
End SRun.
