(** Proofs about HashModel.v, part 1: list/bucket-array lemmas, the
    structural invariant [shape] (independent of the hash functions) and the
    fail-stop theorem of C17(b): for EVERY hash function no operation indexes
    the bucket array outside its allocation. *)
From Cstl Require Import Prelude AllocModel HashModel.
Local Open Scope N_scope.

(** * Generic lemmas *)

Lemma bind_ok {A B} (r : res A) (f : A -> res B) b w :
  bind r f = Ok b w ->
  exists a w1 w2, r = Ok a w1 /\ f a = Ok b w2 /\ w = w1 ++ w2.
Proof.
  unfold bind. destruct r as [a w1| |]; try discriminate.
  destruct (f a) as [b' w2| |] eqn:E; try discriminate.
  intros [= <- <-]. eauto 6.
Qed.

Lemma nth_error_split {A} (l : list A) i x :
  nth_error l i = Some x -> exists l1 l2, l = l1 ++ x :: l2 /\ length l1 = i.
Proof.
  intros H. destruct (nth_error_split l i H) as (l1 & l2 & -> & <-). eauto.
Qed.

Lemma upd_app {A} (l1 l2 : list A) x y : upd (l1 ++ x :: l2) (length l1) y = l1 ++ y :: l2.
Proof. induction l1 as [|a l1 IH]; simpl; auto. now rewrite IH. Qed.

Lemma nth_error_lt {A} (l : list A) i : (i < length l)%nat -> exists x, nth_error l i = Some x.
Proof.
  intros H. destruct (nth_error l i) eqn:E; eauto.
  apply nth_error_None in E. lia.
Qed.

Lemma nth_error_some_lt {A} (l : list A) i x : nth_error l i = Some x -> (i < length l)%nat.
Proof. intros H. apply nth_error_Some. congruence. Qed.

Lemma upd_same {A} (l : list A) i x : nth_error l i = Some x -> upd l i x = l.
Proof.
  revert i; induction l as [|y r IH]; intros [|i] H; simpl in *; try discriminate; auto.
  - congruence.
  - f_equal; auto.
Qed.

Lemma upd_upd {A} (l : list A) i x y : upd (upd l i x) i y = upd l i y.
Proof. revert i; induction l as [|z r IH]; intros [|i]; simpl; auto. now rewrite IH. Qed.

Lemma upd_out {A} (l : list A) i x : (length l <= i)%nat -> upd l i x = l.
Proof.
  revert i; induction l as [|y r IH]; intros [|i] H; simpl in *; auto; try lia.
  f_equal; apply IH; lia.
Qed.

(** all nodes linked in a bucket array *)
Definition lv (bs : list bucket) : list nat := concat (map chain bs).

Lemma lv_app a b : lv (a ++ b) = lv a ++ lv b.
Proof. unfold lv. now rewrite map_app, concat_app. Qed.

Lemma lv_cons b r : lv (b :: r) = chain b ++ lv r.
Proof. reflexivity. Qed.

Lemma live_lv t : live t = lv (bks t).
Proof. reflexivity. Qed.

Lemma in_lv bs e : In e (lv bs) <-> exists i b, nth_error bs i = Some b /\ In e (chain b).
Proof.
  unfold lv. rewrite in_concat. split.
  - intros (l & Hl & He). apply in_map_iff in Hl. destruct Hl as (b & <- & Hb).
    destruct (In_nth_error _ _ Hb) as (i & Hi). eauto.
  - intros (i & b & Hi & He). exists (chain b). split; auto.
    apply in_map. eapply nth_error_In; eauto.
Qed.

(** replacing bucket [i] *)
Lemma lv_upd bs i b b' :
  nth_error bs i = Some b ->
  exists l1 l2, lv bs = l1 ++ chain b ++ l2 /\ lv (upd bs i b') = l1 ++ chain b' ++ l2.
Proof.
  intros H. destruct (nth_error_split _ _ _ H) as (p & q & -> & <-).
  rewrite upd_app. exists (lv p), (lv q). rewrite !lv_app, !lv_cons. auto.
Qed.

Lemma lv_upd_cons bs i b e bit :
  nth_error bs i = Some b ->
  Permutation (lv (upd bs i (mkB (e :: chain b) bit))) (e :: lv bs).
Proof.
  intros H. destruct (lv_upd bs i b (mkB (e :: chain b) bit) H) as (l1 & l2 & -> & ->).
  simpl. symmetry. apply Permutation_middle.
Qed.

Lemma lv_upd_detach bs i b bit :
  nth_error bs i = Some b ->
  Permutation (chain b ++ lv (upd bs i (mkB [] bit))) (lv bs).
Proof.
  intros H. destruct (lv_upd bs i b (mkB [] bit) H) as (l1 & l2 & -> & ->).
  simpl. rewrite app_assoc. rewrite (Permutation_app_comm (chain b) l1).
  now rewrite <- app_assoc.
Qed.

Lemma lv_upd_bit bs i b bit :
  nth_error bs i = Some b -> lv (upd bs i (mkB (chain b) bit)) = lv bs.
Proof.
  intros H. destruct (lv_upd bs i b (mkB (chain b) bit) H) as (l1 & l2 & -> & ->). reflexivity.
Qed.

Lemma concat_nil_tail (bs : list bucket) n :
  (forall i b, (n <= i)%nat -> nth_error bs i = Some b -> chain b = []) ->
  lv (firstn n bs) = lv bs.
Proof.
  revert n. induction bs as [|b r IH]; intros n H.
  - now rewrite firstn_nil.
  - destruct n as [|n].
    + simpl. rewrite lv_cons. rewrite (H 0%nat b) by (auto; lia). simpl.
      rewrite <- (IH 0%nat). { now destruct r. }
      intros i b' _ Hi. apply (H (S i) b'); auto; lia.
    + simpl. rewrite !lv_cons. f_equal. apply IH.
      intros i b' Hle Hi. apply (H (S i) b'); auto; lia.
Qed.

(** * The structural invariant *)

Record shape (t : table) : Prop := mkShape {
  sh_len : length (bks t) = N.to_nat (cap t);
  sh_cnt : bcount t <= cap t;
  sh_pos : hash t <> None -> 0 < bcount t;
  sh_none : hash t = None -> bcount t = 0 /\ rhash t = None;
  sh_rh : rhash t <> None -> 0 < rcount t /\ rcount t <= cap t;
  sh_max : cap t <= MAX_BUCKETS;
  sh_at : at_blk t = None -> cap t = 0
}.

Lemma shape_init : shape t_init.
Proof. split; simpl; try lia; try congruence; auto. Qed.

(** the scalar fields of a table *)
Definition scal (t : table) :=
  (at_blk t, bcount t, cap t, hash t, cst t, rcount t, rclean t, rhash t, size t).

Lemma scal_set_bks t b : scal (set_bks t b) = scal t.
Proof. reflexivity. Qed.

Ltac scal_inv H :=
  unfold scal in H;
  let a := fresh "Eat" in let b := fresh "Ecount" in let c := fresh "Ecap" in
  let d := fresh "Ehash" in let e := fresh "Ecst" in let f := fresh "Ercount" in
  let g := fresh "Erclean" in let h := fresh "Erhash" in let i := fresh "Esize" in
  injection H as a b c d e f g h i.

Lemma shape_ext t t' :
  at_blk t' = at_blk t -> bcount t' = bcount t -> cap t' = cap t -> hash t' = hash t -> rcount t' = rcount t ->
  rhash t' = rhash t -> length (bks t') = length (bks t) -> shape t -> shape t'.
Proof.
  intros E0 E1 E2 E3 E4 E5 E6 [H1 H2 H3 H3' H4 H5 H6]. split; rewrite ?E0, ?E1, ?E2, ?E3, ?E4, ?E5, ?E6; auto.
Qed.

Section Safe.
  Variable hf : fn_id -> N -> N -> option N.
  Variable key : nat -> N.

  (** the hash functions themselves do not trap on a non-empty table (they
      may well return values outside the table) *)
  Definition hf_def : Prop := forall f k m, 0 < m -> hf f k m <> None.
  Hypothesis Hdef : hf_def.

  Notation bucket_raw := (bucket_raw hf).
  Notation reinsert := (reinsert hf key).
  Notation clean_bucket := (clean_bucket hf key).
  Notation skip_clean := (skip_clean).
  Notation sweep := (sweep hf key).
  Notation rehash_n := (rehash_n hf key).
  Notation rehash := (rehash hf key).
  Notation get_bucket := (get_bucket hf key).

  (** every hash function stays below the table size (the contract of
      cstl_hash_func_t) *)
  Definition in_range : Prop := forall f k m, 0 < m -> exists i, hf f k m = Some i /\ i < m.

  Lemma in_range_hf_def : in_range -> forall f k m, 0 < m -> hf f k m <> None.
  Proof. intros R f k m Hm. destruct (R f k m Hm) as (i & -> & _). discriminate. Qed.

  (** "no fault; an abort only if some hash function left its range; on
      normal return [P] holds" *)
  Definition safe {A} (r : res A) (P : A -> list ev -> Prop) : Prop :=
    match r with
    | Ok a w => P a w
    | RAbort => ~ in_range
    | RFault => False
    end.

  Lemma safe_bind {A B} (r : res A) (f : A -> res B) P Q :
    safe r P -> (forall a w, P a w -> safe (f a) (fun b w' => Q b (w ++ w'))) -> safe (bind r f) Q.
  Proof.
    unfold safe, bind. destruct r as [a w| |]; auto. intros HP HQ.
    specialize (HQ a w HP). destruct (f a); auto.
  Qed.

  Lemma safe_imp {A} (r : res A) (P Q : A -> list ev -> Prop) :
    safe r P -> (forall a w, P a w -> Q a w) -> safe r Q.
  Proof. destruct r; simpl; auto. Qed.

  Lemma bucket_raw_safe f k m :
    f <> None -> 0 < m ->
    safe (bucket_raw f k m) (fun i w => (i < N.to_nat m)%nat /\ exists g, f = Some g /\ w = [EvHash g k m]).
  Proof.
    intros Hf Hm. unfold HashModel.bucket_raw. destruct f as [g|]; [|congruence].
    destruct (hf g k m) as [i|] eqn:E; [|exfalso; eapply Hdef; eauto].
    destruct (N.leb_spec m i); simpl.
    - intros R. destruct (R g k m Hm) as (i' & E' & Hi'). rewrite E in E'. injection E' as <-. lia.
    - split; [lia|eauto].
  Qed.

  Lemma reinsert_safe l f m bs :
    f <> None -> 0 < m -> (N.to_nat m <= length bs)%nat ->
    safe (reinsert l f m bs) (fun bs' _ => length bs' = length bs).
  Proof.
    intros Hf Hm. revert bs. induction l as [|e r IH]; intros bs Hlen; simpl; auto.
    eapply safe_bind; [apply bucket_raw_safe; auto|].
    intros j w (Hj & _). destruct (nth_error_lt bs j) as (b & ->); [lia|].
    eapply safe_imp; [apply IH; rewrite upd_length; auto|].
    intros bs' w' ->. apply upd_length.
  Qed.

  (** scalar fields untouched, array length kept *)
  Definition same_frame (t t' : table) : Prop :=
    scal t' = scal t /\ length (bks t') = length (bks t).

  Lemma same_frame_refl t : same_frame t t.
  Proof. split; auto. Qed.

  Lemma same_frame_trans t u v : same_frame t u -> same_frame u v -> same_frame t v.
  Proof. intros [A B] [C D]. split; congruence. Qed.

  Lemma same_frame_shape t t' : same_frame t t' -> shape t -> shape t'.
  Proof.
    intros [E L] S. scal_inv E. eapply shape_ext; eauto.
  Qed.

  Lemma clean_bucket_safe t i :
    shape t -> rhash t <> None -> (i < length (bks t))%nat ->
    safe (clean_bucket t i) (fun t' _ => same_frame t t').
  Proof.
    intros S Hp Hi. unfold HashModel.clean_bucket.
    destruct (nth_error_lt _ _ Hi) as (b & ->).
    destruct (Bool.eqb (cst t) (bbit b)); simpl; [apply same_frame_refl|].
    destruct (sh_rh t S Hp) as (Hr0 & Hrc).
    eapply safe_bind.
    - apply reinsert_safe; auto. rewrite upd_length, (sh_len t S). lia.
    - intros bs w Hl. rewrite upd_length in Hl.
      destruct (nth_error_lt bs i) as (b' & ->); [lia|]. simpl.
      split; [apply scal_set_bks|]. simpl. rewrite upd_length. auto.
  Qed.

  (** scalar fields other than the sweep index untouched *)
  Definition sweep_frame (t t' : table) : Prop :=
    at_blk t' = at_blk t /\ bcount t' = bcount t /\ cap t' = cap t /\ hash t' = hash t /\
    cst t' = cst t /\ rcount t' = rcount t /\ rhash t' = rhash t /\ size t' = size t /\
    length (bks t') = length (bks t) /\ rclean t <= rclean t'.

  Lemma sweep_frame_refl t : sweep_frame t t.
  Proof. unfold sweep_frame; intuition lia. Qed.

  Lemma sweep_frame_trans t u v : sweep_frame t u -> sweep_frame u v -> sweep_frame t v.
  Proof. unfold sweep_frame; intuition (try congruence; try lia). Qed.

  Lemma same_sweep_frame t t' : same_frame t t' -> sweep_frame t t'.
  Proof. intros [E L]. scal_inv E. unfold sweep_frame. intuition (try congruence). lia. Qed.

  Lemma sweep_frame_shape t t' : sweep_frame t t' -> shape t -> shape t'.
  Proof.
    intros (E1 & E2 & E3 & E4 & E5 & E6 & E7 & E8 & E9 & _) S. eapply shape_ext; eauto.
  Qed.

  Lemma sweep_frame_set_rclean t : sweep_frame t (set_rclean t (rclean t + 1)).
  Proof. unfold sweep_frame; simpl; intuition lia. Qed.

  Lemma skip_clean_safe fuel t :
    shape t -> safe (skip_clean fuel t) (fun t' w => sweep_frame t t' /\ bks t' = bks t /\ w = []).
  Proof.
    revert t. induction fuel as [|fu IH]; intros t S; simpl.
    - split; [apply sweep_frame_refl|auto].
    - destruct (N.ltb_spec (rclean t) (bcount t)) as [Hlt|]; [|simpl; split; [apply sweep_frame_refl|auto]].
      destruct (nth_error_lt (bks t) (N.to_nat (rclean t))) as (b & ->).
      { rewrite (sh_len t S). pose proof (sh_cnt t S). lia. }
      destruct (Bool.eqb (bbit b) (cst t)); [|simpl; split; [apply sweep_frame_refl|auto]].
      eapply safe_imp; [apply IH|].
      + eapply sweep_frame_shape; [apply sweep_frame_set_rclean|auto].
      + intros t' w (F & B & W). split; [|auto].
        eapply sweep_frame_trans; [apply sweep_frame_set_rclean|auto].
  Qed.

  Lemma sweep_safe fuel n t :
    shape t -> rhash t <> None -> safe (sweep fuel n t) (fun t' _ => sweep_frame t t').
  Proof.
    revert n t. induction fuel as [|fu IH]; intros n t S Hp; simpl; [apply sweep_frame_refl|].
    destruct (N.ltb_spec (rclean t) (bcount t)) as [Hlt|]; [|simpl; apply sweep_frame_refl].
    destruct (0 <? n); simpl; [|apply sweep_frame_refl].
    eapply safe_bind.
    - apply clean_bucket_safe; auto. rewrite (sh_len t S). pose proof (sh_cnt t S). lia.
    - intros t1 w F1. pose proof (same_sweep_frame _ _ F1) as F1'.
      assert (F2 : sweep_frame t (set_rclean t1 (rclean t1 + 1))).
      { eapply sweep_frame_trans; [exact F1'|apply sweep_frame_set_rclean]. }
      eapply safe_imp; [apply IH|].
      + eapply sweep_frame_shape; eauto.
      + simpl. destruct F1 as [E _]. scal_inv E. congruence.
      + intros t' w' F3. eapply sweep_frame_trans; eauto.
  Qed.

  Lemma finish_shape t : shape t -> rhash t <> None -> shape (finish t).
  Proof.
    intros S Hp. unfold finish. destruct (bcount t <=? rclean t); auto.
    destruct (sh_rh t S Hp) as (H0 & Hc). split; simpl; auto; try congruence.
    - apply (sh_len t S).
    - apply (sh_max t S).
    - apply (sh_at t S).
  Qed.

  Lemma rehash_n_safe t n :
    shape t -> rhash t <> None ->
    safe (rehash_n t n) (fun t' _ => shape t' /\ cap t' = cap t /\ length (bks t') = length (bks t)
                                     /\ at_blk t' = at_blk t /\ size t' = size t /\ cst t' = cst t
                                     /\ (hash t <> None -> hash t' <> None)).
  Proof.
    intros S Hp. unfold HashModel.rehash_n.
    eapply safe_bind; [apply skip_clean_safe; auto|].
    intros t1 w1 (F1 & B1 & _).
    eapply safe_bind; [apply sweep_safe|].
    - eapply sweep_frame_shape; eauto.
    - destruct F1 as (_ & _ & _ & _ & _ & _ & E & _). congruence.
    - intros t2 w2 F2. simpl.
      pose proof (sweep_frame_trans _ _ _ F1 F2) as F.
      assert (S2 : shape t2) by (eapply sweep_frame_shape; eauto).
      destruct F as (E1 & E2 & E3 & E4 & E5 & E6 & E7 & E8 & E9 & _).
      split; [apply finish_shape; auto; congruence|].
      unfold finish. destruct (bcount t2 <=? rclean t2); simpl; intuition congruence.
  Qed.

  Lemma rehash_safe t :
    shape t ->
    safe (rehash t) (fun t' _ => shape t' /\ cap t' = cap t /\ length (bks t') = length (bks t)
                                 /\ at_blk t' = at_blk t /\ size t' = size t).
  Proof.
    intros S. unfold HashModel.rehash. destruct (rhash t) eqn:E.
    - eapply safe_imp; [apply rehash_n_safe; auto; congruence|]. simpl. intuition.
    - simpl. auto.
  Qed.

  Lemma get_bucket_safe t k :
    shape t -> hash t <> None ->
    safe (get_bucket t k) (fun p _ => shape (fst p) /\ (snd p < length (bks (fst p)))%nat
                                      /\ hash (fst p) <> None /\ cap (fst p) = cap t
                                      /\ at_blk (fst p) = at_blk t /\ size (fst p) = size t).
  Proof.
    intros S Hh. unfold HashModel.get_bucket.
    eapply safe_bind; [apply bucket_raw_safe; auto; apply (sh_pos t S Hh)|].
    intros i w (Hi & _).
    assert (Hil : (i < length (bks t))%nat).
    { rewrite (sh_len t S). pose proof (sh_cnt t S). lia. }
    destruct (rhash t) as [g|] eqn:Ep; [|simpl; auto 10].
    assert (Hp : rhash t <> None) by congruence.
    destruct (sh_rh t S Hp) as (H0 & Hc).
    eapply safe_bind; [apply bucket_raw_safe; auto; congruence|].
    intros j w' (Hj & _).
    eapply safe_bind; [apply clean_bucket_safe; auto|].
    intros t1 w1 F1. pose proof (same_frame_shape _ _ F1 S) as S1.
    destruct F1 as [E1 L1]. scal_inv E1.
    eapply safe_bind; [apply clean_bucket_safe; auto; try congruence|].
    { rewrite L1, (sh_len t S). lia. }
    intros t2 w2 F2. pose proof (same_frame_shape _ _ F2 S1) as S2.
    destruct F2 as [E2 L2]. scal_inv E2.
    eapply safe_bind; [apply rehash_n_safe; auto; congruence|].
    intros t3 w3 (S3 & C3 & L3 & A3 & Z3 & _ & H3). simpl.
    split; auto. split; [rewrite L3, L2, L1, (sh_len t S); lia|].
    split; [|repeat split; congruence].
    apply H3. congruence.
  Qed.

  (** ** a forced rehash always completes *)

  Lemma sweep_full fuel n t :
    shape t -> rhash t <> None -> (N.to_nat (bcount t - rclean t) <= fuel)%nat -> N.of_nat fuel <= n ->
    safe (sweep fuel n t) (fun t' _ => bcount t' <= rclean t').
  Proof.
    revert n t. induction fuel as [|fu IH]; intros n t S Hp Hf Hn; simpl; [lia|].
    destruct (N.ltb_spec (rclean t) (bcount t)) as [Hlt|]; [|simpl; lia].
    destruct (N.ltb_spec 0 n); [|lia]. simpl.
    eapply safe_bind.
    - apply clean_bucket_safe; auto. rewrite (sh_len t S). pose proof (sh_cnt t S). lia.
    - intros t1 w F1. pose proof (same_frame_shape _ _ F1 S) as S1.
      destruct F1 as [E1 L1]. scal_inv E1.
      eapply safe_imp; [apply IH|auto]; simpl; try lia; try congruence.
      eapply sweep_frame_shape; [apply sweep_frame_set_rclean|auto].
  Qed.

  Lemma rehash_settles t :
    shape t ->
    safe (rehash t) (fun t' _ => shape t' /\ rhash t' = None /\ cap t' = cap t
                                 /\ length (bks t') = length (bks t) /\ at_blk t' = at_blk t
                                 /\ size t' = size t /\ cst t' = cst t
                                 /\ (hash t <> None -> hash t' <> None)
                                 /\ (rhash t = None -> t' = t)).
  Proof.
    intros S. unfold HashModel.rehash. destruct (rhash t) as [g|] eqn:Ep; [|simpl; intuition].
    assert (Hp : rhash t <> None) by congruence.
    unfold HashModel.rehash_n.
    eapply safe_bind; [apply skip_clean_safe; auto|].
    intros t1 w1 (F1 & B1 & _).
    assert (S1 : shape t1) by (eapply sweep_frame_shape; eauto).
    assert (Hp1 : rhash t1 <> None).
    { destruct F1 as (_ & _ & _ & _ & _ & _ & E & _). congruence. }
    eapply safe_bind with (P := fun t2 _ => sweep_frame t1 t2 /\ bcount t2 <= rclean t2).
    - assert (Hs := sweep_safe (N.to_nat (bcount t1 - rclean t1)) SIZE_MAX t1 S1 Hp1).
      assert (Hf := sweep_full (N.to_nat (bcount t1 - rclean t1)) SIZE_MAX t1 S1 Hp1).
      destruct (sweep _ _ t1) as [t2 w2| |]; simpl in *; auto.
      split; [exact Hs|]. apply Hf; auto.
      pose proof (sh_cnt t1 S1). pose proof (sh_max t1 S1). unfold MAX_BUCKETS, SIZE_MAX in *. lia.
    - intros t2 w2 (F2 & Hdone). simpl.
      pose proof (sweep_frame_trans _ _ _ F1 F2) as F.
      assert (S2 : shape t2) by (eapply sweep_frame_shape; eauto).
      destruct F as (E1 & E2 & E3 & E4 & E5 & E6 & E7 & E8 & E9 & _).
      assert (Hp2 : rhash t2 <> None) by congruence.
      split; [apply finish_shape; auto|].
      unfold finish. destruct (N.leb_spec (bcount t2) (rclean t2)); [|lia]. simpl.
      intuition congruence.
  Qed.

  (** ** keyed operations *)

  Lemma insert_safe t e :
    shape t -> hash t <> None ->
    safe (insert hf key t e) (fun t' _ => shape t' /\ at_blk t' = at_blk t).
  Proof.
    intros S Hh. unfold insert.
    eapply safe_bind; [apply get_bucket_safe; auto|].
    intros [t1 j] w (S1 & Hj & _ & _ & A & _). simpl in *.
    destruct (nth_error_lt _ _ Hj) as (b & ->). simpl. split; auto.
    eapply shape_ext; try exact S1; auto. simpl. apply upd_length.
  Qed.

  Lemma find_safe t k vis :
    shape t -> hash t <> None ->
    safe (find hf key t k vis) (fun p _ => shape (fst p) /\ at_blk (fst p) = at_blk t).
  Proof.
    intros S Hh. unfold find.
    eapply safe_bind; [apply get_bucket_safe; auto|].
    intros [t1 j] w (S1 & Hj & _ & _ & A & _). simpl in *.
    destruct (nth_error_lt _ _ Hj) as (b & ->).
    destruct (find_chain key k vis (chain b)) as [o x]. simpl. auto.
  Qed.

  (** erase called with freed nodes around may fault only by touching one *)
  Lemma erase_d_safe dead t e :
    shape t -> hash t <> None ->
    match erase_d hf key dead t e with
    | Ok t' _ => shape t' /\ hash t' <> None /\ at_blk t' = at_blk t
    | RAbort => ~ in_range
    | RFault => dead <> []
    end.
  Proof.
    intros S Hh. unfold erase_d.
    pose proof (get_bucket_safe t (key e) S Hh) as G.
    destruct (get_bucket t (key e)) as [[t1 j] w| |]; simpl in *; auto.
    destruct G as (S1 & Hj & Hh1 & _ & A & _).
    destruct (nth_error_lt _ _ Hj) as (b & ->).
    destruct (touches_dead dead e (chain b)) eqn:Et.
    - destruct dead; [|discriminate].
      exfalso. clear - Et. induction (chain b) as [|x r IH]; simpl in *; [discriminate|].
      destruct (Nat.eqb x e); auto; discriminate.
    - destruct (remove_first e (chain b)); simpl; auto.
      split; [|auto]. eapply shape_ext; try exact S1; auto. simpl. apply upd_length.
  Qed.

  Lemma erase_safe t e :
    shape t -> hash t <> None ->
    safe (erase hf key t e) (fun t' _ => shape t' /\ at_blk t' = at_blk t).
  Proof.
    intros S Hh. unfold erase. pose proof (erase_d_safe [] t e S Hh) as H.
    destruct (erase_d hf key [] t e); simpl in *; intuition.
  Qed.
End Safe.
