(** Pointer-level model of the trees, part 4: __cstl_bintree_erase realises
    [bt_erase_at] on represented trees: splicing out a node with at most one
    child, the in-order successor, swapping the successor's node into the
    place of the erased node (including the patch of [n->p] when the
    successor was n's child). *)
From Cstl Require Import Prelude TreeModel TreeProofs RBProofs TreeLinksModel TreeLinksProofs
     TreeLinksOps TreeLinksIns.
Local Open Scope Z_scope.

(** * Contexts in two parts *)
Lemma ctx_par_app c1 c2 : ctx_par (c1 ++ c2) = match c1 with [] => ctx_par c2 | f :: _ => Some (adr (fe f)) end.
Proof. destruct c1; reflexivity. Qed.

Lemma rep_plug_app m c1 : forall c2 t root,
  (rep m (ctx_par c2) (plug c1 t) /\ crep m c2 (raddr (plug c1 t)) root) <->
  (rep m (ctx_par (c1 ++ c2)) t /\ crep m (c1 ++ c2) (raddr t) root).
Proof.
  induction c1 as [|f c1 IH]; intros c2 t root; cbn [plug app crep ctx_par].
  - tauto.
  - rewrite IH. unfold plug1. rewrite rep_mk, raddr_mk. tauto.
Qed.

Lemma addrs_plug_app c1 c2 t :
  Permutation (addrs (plug c1 t) ++ caddrs c2) (addrs t ++ caddrs (c1 ++ c2)).
Proof. rewrite addrs_plug, caddrs_app, <- app_assoc. reflexivity. Qed.

Lemma nd_plug c1 c2 t :
  NoDup (addrs (plug c1 t) ++ caddrs c2) <-> NoDup (addrs t ++ caddrs (c1 ++ c2)).
Proof. split; apply Permutation_NoDup; [|symmetry]; apply addrs_plug_app. Qed.

Lemma in_plug c1 c2 t i :
  In i (addrs (plug c1 t) ++ caddrs c2) <-> In i (addrs t ++ caddrs (c1 ++ c2)).
Proof. split; apply Permutation_in; [|symmetry]; apply addrs_plug_app. Qed.

Lemma mget_set_hole_o' m root c h i :
  ctx_par c <> Some i -> mget (fst (set_hole m root c h)) i = mget m i.
Proof.
  destruct c as [|f c]; cbn [set_hole fst ctx_par]; auto. intros Hn. apply mget_setsel_o. congruence.
Qed.

(** * The successor *)
Lemma slide_plug l : forall k y r c yc ye yr c1,
  slide k l y r c = (yc, ye, yr, c1) -> plug c1 (T yc E ye yr) = plug c (T k l y r).
Proof.
  induction l as [|lk ll IHl ly lr _]; intros k y r c yc ye yr c1; cbn [slide].
  - intros [= <- <- <- <-]. reflexivity.
  - intros Hs. apply IHl in Hs. rewrite Hs. reflexivity.
Qed.

Lemma l_slide_rep m : forall l k y r c fuel yc ye yr c1,
  rep m (ctx_par c) (T k l y r) -> (theight l <= fuel)%nat ->
  slide k l y r c = (yc, ye, yr, c1) ->
  l_slide fuel m Lf (adr y) = Some (adr ye).
Proof.
  induction l as [|lk ll IHl ly lr _]; intros k y r c fuel yc ye yr c1 R Hf; cbn [slide].
  - intros [= <- <- <- <-]. cbn [rep] in R. destruct R as (_ & _ & Hl & _).
    destruct fuel; cbn [l_slide sel]; rewrite Hl; reflexivity.
  - intros Hs. cbn [rep] in R. destruct R as (_ & _ & Hl & _ & Rl & _).
    cbn [theight] in Hf. destruct fuel as [|f]; [lia|].
    cbn [l_slide sel]. rewrite Hl. cbn [raddr].
    eapply (IHl lk ly lr (mkF Lf k y r :: c) f); [exact Rl|lia|exact Hs].
Qed.

(** * Phase 1: the node y with at most one child leaves its position *)
Lemma l_splice_rep m root cy yc yl ye yr :
  let ya := adr ye in
  let X := match yl with E => yr | _ => yl end in
  (yl = E \/ yr = E) ->
  NoDup (addrs (T yc yl ye yr) ++ caddrs cy) ->
  rep m (ctx_par cy) (T yc yl ye yr) -> crep m cy (Some ya) root ->
  let x := match n_l (mget m ya) with Some a => Some a | None => n_r (mget m ya) end in
  let m1 := setp_opt m x (n_p (mget m ya)) in
  let mr := l_replace m1 root (n_p (mget m1 ya)) ya x Lf in
  x = raddr X /\ rep (fst mr) (ctx_par cy) X /\ crep (fst mr) cy (raddr X) (snd mr) /\
  (forall i, raddr X <> Some i -> ctx_par cy <> Some i -> mget (fst mr) i = mget m i).
Proof.
  intros ya X Hor Nd R C x m1 mr. subst ya.
  cbn [rep] in R. destruct R as (Yp & Yc & Yl & Yr & Ryl & Ryr).
  assert (Ex : x = raddr X).
  { unfold x, X. rewrite Yl, Yr. destruct yl; cbn [raddr]; auto. }
  assert (RX : rep m (Some (adr ye)) X) by (unfold X; destruct yl; auto).
  assert (NX : NoDup (addrs X) /\ ~ In (adr ye) (addrs X) /\ disj (addrs X) (caddrs cy) /\
               ~ In (adr ye) (caddrs cy) /\ NoDup (caddrs cy)).
  { unfold X. nd_norm. destruct yl; splits; auto. }
  destruct NX as (N1 & N2 & N3 & N4 & N5).
  set (ya := adr ye) in *.
  assert (E1 : m1 = setp_opt m (raddr X) (ctx_par cy)) by (unfold m1; rewrite Ex, Yp; auto).
  assert (R1 : rep m1 (ctx_par cy) X) by (rewrite E1; apply (rep_reparent m (Some ya)); auto).
  assert (C1 : crep m1 cy (Some ya) root).
  { eapply crep_frame; [|exact C]. intros i Hi. rewrite E1. mframe. }
  assert (Emr : mr = set_hole m1 root cy (raddr X)).
  { unfold mr. replace (n_p (mget m1 ya)) with (ctx_par cy).
    - rewrite Ex. apply l_replace_hole; auto.
    - rewrite E1. mread. auto. }
  rewrite Emr. splits; auto.
  - eapply rep_frame; [|exact R1]. intros i Hi. apply mget_set_hole_o. notin.
  - apply (crep_set_hole m1 root cy (Some ya)); auto.
  - intros i H1 H2. rewrite mget_set_hole_o' by auto. rewrite E1. mframe.
Qed.

(** * Phase 2: the node y (not in the tree) takes the place of n *)
Lemma l_swapin_rep m root c nc nl ne NR ye (ynode : node) :
  let na := adr ne in
  let ya := adr ye in
  NoDup (addrs (T nc nl ne NR) ++ caddrs c) -> ~ In ya (addrs (T nc nl ne NR) ++ caddrs c) ->
  rep m (ctx_par c) (T nc nl ne NR) -> crep m c (Some na) root ->
  let mr3 := l_replace m root (n_p (mget m na)) na (Some ya) Lf in
  let m3 := fst mr3 in
  let m4 := setp_opt m3 (n_l (mget m3 na)) (Some ya) in
  let m5 := setp_opt m4 (n_r (mget m4 na)) (Some ya) in
  let m6 := setlinks m5 ya (mget m5 na) in
  let m7 := setlinks m6 na ynode in
  forall m8, (forall i, i <> na -> mget m8 i = mget m7 i) ->
  rep m8 (ctx_par c) (T (n_c (mget m ya)) nl ye NR) /\ crep m8 c (Some ya) (snd mr3) /\
  (forall i, i <> na -> i <> ya -> ~ In i (addrs (T nc nl ne NR) ++ caddrs c) -> mget m8 i = mget m i) /\
  mget m7 na = mkN (n_p ynode) (n_l ynode) (n_r ynode) nc.
Proof.
  intros na ya Nd Hy R C mr3 m3 m4 m5 m6 m7 m8 H8. subst na ya.
  cbn [rep] in R. destruct R as (Np & Nc & Nl & Nr & Rl & Rr).
  nd_norm. set (na := adr ne) in *. set (ya := adr ye) in *.
  assert (E3 : mr3 = set_hole m root c (Some ya)).
  { unfold mr3. rewrite Np. apply l_replace_hole; auto. }
  assert (G3 : mget m3 na = mget m na).
  { unfold m3. rewrite E3. apply mget_set_hole_o. notin. }
  assert (E4 : m4 = setp_opt m3 (raddr nl) (Some ya)) by (unfold m4; rewrite G3, Nl; auto).
  assert (G4 : mget m4 na = mget m na).
  { rewrite E4. rewrite mget_setp_opt_o by neq. auto. }
  assert (E5 : m5 = setp_opt m4 (raddr NR) (Some ya)) by (unfold m5; rewrite G4, Nr; auto).
  assert (G5 : mget m5 na = mget m na).
  { rewrite E5. rewrite mget_setp_opt_o by neq. auto. }
  assert (R3l : rep m3 (Some na) nl).
  { eapply rep_frame; [|exact Rl]. intros i Hi. unfold m3. rewrite E3. apply mget_set_hole_o. notin. }
  assert (R3r : rep m3 (Some na) NR).
  { eapply rep_frame; [|exact Rr]. intros i Hi. unfold m3. rewrite E3. apply mget_set_hole_o. notin. }
  assert (R4l : rep m4 (Some ya) nl) by (rewrite E4; apply (rep_reparent m3 (Some na)); auto).
  assert (R4r : rep m4 (Some na) NR).
  { eapply rep_frame; [|exact R3r]. intros i Hi. rewrite E4. mframe. }
  assert (R5r : rep m5 (Some ya) NR) by (rewrite E5; apply (rep_reparent m4 (Some na)); auto).
  assert (R5l : rep m5 (Some ya) nl).
  { eapply rep_frame; [|exact R4l]. intros i Hi. rewrite E5. mframe. }
  assert (F8 : forall i, i <> na -> i <> ya -> mget m8 i = mget m5 i).
  { intros i Hi1 Hi2. rewrite H8 by auto. unfold m7, m6. mframe. }
  assert (Y8 : mget m8 ya = mkN (ctx_par c) (raddr nl) (raddr NR) (n_c (mget m ya))).
  { rewrite H8 by neq. unfold m7. rewrite mget_setlinks_o by neq. unfold m6, setlinks.
    rewrite mget_mset, Nat.eqb_refl, G5, Np, Nl, Nr. f_equal.
    rewrite E5, E4. unfold m3. mread. rewrite E3. mread. auto. }
  splits.
  - cbn [rep]. fold ya. rewrite Y8. cbn [n_p n_c n_l n_r]. splits; auto.
    + eapply rep_frame; [|exact R5l]. intros i Hi. apply F8; neq.
    + eapply rep_frame; [|exact R5r]. intros i Hi. apply F8; neq.
  - rewrite E3. eapply crep_frame; [|apply (crep_set_hole m root c (Some na) (Some ya)); auto].
    intros i Hi. rewrite F8 by neq. rewrite E5, E4. mframe. unfold m3. rewrite E3. reflexivity.
  - intros i Hi1 Hi2 Hi3. nd_norm. rewrite F8 by auto. rewrite E5, E4. mframe.
    unfold m3. rewrite E3. apply mget_set_hole_o. notin.
  - unfold m7, setlinks. rewrite mget_mset, Nat.eqb_refl. f_equal.
    unfold m6. mread. rewrite G5. auto.
Qed.
