(** Pointer-level model of the trees, part 4: __cstl_bintree_erase realises
    [bt_erase_at] on represented trees: splicing out a node with at most one
    child, the in-order successor, swapping the successor's node into the
    place of the erased node (including the patch of [n->p] when the
    successor was n's child). *)
From Cstl Require Import Prelude TreeModel TreeProofs RBProofs TreeLinksModel TreeLinksProofs
     TreeLinksOps TreeLinksIns.
Local Open Scope Z_scope.

(** * Contexts in two parts *)
Lemma ctx_par_app c1 c2 : ctx_par (c1 ++ c2) = match c1 with [] => ctx_par c2 | f :: _ => Some (adr (fe f)) end.
Proof. destruct c1; reflexivity. Qed.

Lemma rep_plug_app m c1 : forall c2 t root,
  (rep m (ctx_par c2) (plug c1 t) /\ crep m c2 (raddr (plug c1 t)) root) <->
  (rep m (ctx_par (c1 ++ c2)) t /\ crep m (c1 ++ c2) (raddr t) root).
Proof.
  induction c1 as [|f c1 IH]; intros c2 t root; cbn [plug app crep ctx_par].
  - tauto.
  - rewrite IH. unfold plug1. rewrite rep_mk, raddr_mk. tauto.
Qed.

Lemma addrs_plug_app c1 c2 t :
  Permutation (addrs (plug c1 t) ++ caddrs c2) (addrs t ++ caddrs (c1 ++ c2)).
Proof. rewrite addrs_plug, caddrs_app, <- app_assoc. reflexivity. Qed.

Lemma nd_plug c1 c2 t :
  NoDup (addrs (plug c1 t) ++ caddrs c2) <-> NoDup (addrs t ++ caddrs (c1 ++ c2)).
Proof. split; apply Permutation_NoDup; [|symmetry]; apply addrs_plug_app. Qed.

Lemma in_plug c1 c2 t i :
  In i (addrs (plug c1 t) ++ caddrs c2) <-> In i (addrs t ++ caddrs (c1 ++ c2)).
Proof. split; apply Permutation_in; [|symmetry]; apply addrs_plug_app. Qed.

Lemma mget_set_hole_o' m root c h i :
  ctx_par c <> Some i -> mget (fst (set_hole m root c h)) i = mget m i.
Proof.
  destruct c as [|f c]; cbn [set_hole fst ctx_par]; auto. intros Hn. apply mget_setsel_o. congruence.
Qed.

(** * The successor *)
Lemma slide_plug l : forall k y r c yc ye yr c1,
  slide k l y r c = (yc, ye, yr, c1) -> plug c1 (T yc E ye yr) = plug c (T k l y r).
Proof.
  induction l as [|lk ll IHl ly lr _]; intros k y r c yc ye yr c1; cbn [slide].
  - intros [= <- <- <- <-]. reflexivity.
  - intros Hs. apply IHl in Hs. rewrite Hs. reflexivity.
Qed.

Lemma l_slide_rep m : forall l k y r c fuel yc ye yr c1,
  rep m (ctx_par c) (T k l y r) -> (theight l <= fuel)%nat ->
  slide k l y r c = (yc, ye, yr, c1) ->
  l_slide fuel m Lf (adr y) = Some (adr ye).
Proof.
  induction l as [|lk ll IHl ly lr _]; intros k y r c fuel yc ye yr c1 R Hf; cbn [slide].
  - intros [= <- <- <- <-]. cbn [rep] in R. destruct R as (_ & _ & Hl & _).
    destruct fuel; cbn [l_slide sel]; rewrite Hl; reflexivity.
  - intros Hs. cbn [rep] in R. destruct R as (_ & _ & Hl & _ & Rl & _).
    cbn [theight] in Hf. destruct fuel as [|f]; [lia|].
    cbn [l_slide sel]. rewrite Hl. cbn [raddr].
    eapply (IHl lk ly lr (mkF Lf k y r :: c) f); [exact Rl|lia|exact Hs].
Qed.

(** * Phase 1: the node y with at most one child leaves its position *)
Lemma l_splice_rep m root cy yc yl ye yr :
  let ya := adr ye in
  let X := match yl with E => yr | _ => yl end in
  (yl = E \/ yr = E) ->
  NoDup (addrs (T yc yl ye yr) ++ caddrs cy) ->
  rep m (ctx_par cy) (T yc yl ye yr) -> crep m cy (Some ya) root ->
  let x := match n_l (mget m ya) with Some a => Some a | None => n_r (mget m ya) end in
  let m1 := setp_opt m x (n_p (mget m ya)) in
  let mr := l_replace m1 root (n_p (mget m1 ya)) ya x Lf in
  x = raddr X /\ rep (fst mr) (ctx_par cy) X /\ crep (fst mr) cy (raddr X) (snd mr) /\
  (forall i, raddr X <> Some i -> ctx_par cy <> Some i -> mget (fst mr) i = mget m i).
Proof.
  intros ya X Hor Nd R C x m1 mr. subst ya.
  cbn [rep] in R. destruct R as (Yp & Yc & Yl & Yr & Ryl & Ryr).
  assert (Ex : x = raddr X).
  { unfold x, X. rewrite Yl, Yr. destruct yl; cbn [raddr]; auto. }
  assert (RX : rep m (Some (adr ye)) X) by (unfold X; destruct yl; auto).
  assert (NX : NoDup (addrs X) /\ ~ In (adr ye) (addrs X) /\ disj (addrs X) (caddrs cy) /\
               ~ In (adr ye) (caddrs cy) /\ NoDup (caddrs cy)).
  { unfold X. nd_norm. destruct yl; splits; auto. }
  destruct NX as (N1 & N2 & N3 & N4 & N5).
  set (ya := adr ye) in *.
  assert (E1 : m1 = setp_opt m (raddr X) (ctx_par cy)) by (unfold m1; rewrite Ex, Yp; auto).
  assert (R1 : rep m1 (ctx_par cy) X) by (rewrite E1; apply (rep_reparent m (Some ya)); auto).
  assert (C1 : crep m1 cy (Some ya) root).
  { eapply crep_frame; [|exact C]. intros i Hi. rewrite E1. mframe. }
  assert (Emr : mr = set_hole m1 root cy (raddr X)).
  { unfold mr. replace (n_p (mget m1 ya)) with (ctx_par cy).
    - rewrite Ex. apply l_replace_hole; auto.
    - rewrite E1. mread. auto. }
  rewrite Emr. splits; auto.
  - eapply rep_frame; [|exact R1]. intros i Hi. apply mget_set_hole_o. notin.
  - apply (crep_set_hole m1 root cy (Some ya)); auto.
  - intros i H1 H2. rewrite mget_set_hole_o' by auto. rewrite E1. mframe.
Qed.

(** * Phase 2: the node y (not in the tree) takes the place of n *)
Lemma l_swapin_rep m root c nc nl ne NR ye (ynode : node) :
  let na := adr ne in
  let ya := adr ye in
  NoDup (addrs (T nc nl ne NR) ++ caddrs c) -> ~ In ya (addrs (T nc nl ne NR) ++ caddrs c) ->
  rep m (ctx_par c) (T nc nl ne NR) -> crep m c (Some na) root ->
  let mr3 := l_replace m root (n_p (mget m na)) na (Some ya) Lf in
  let m3 := fst mr3 in
  let m4 := setp_opt m3 (n_l (mget m3 na)) (Some ya) in
  let m5 := setp_opt m4 (n_r (mget m4 na)) (Some ya) in
  let m6 := setlinks m5 ya (mget m5 na) in
  let m7 := setlinks m6 na ynode in
  forall m8, (forall i, i <> na -> mget m8 i = mget m7 i) ->
  rep m8 (ctx_par c) (T (n_c (mget m ya)) nl ye NR) /\ crep m8 c (Some ya) (snd mr3) /\
  (forall i, i <> na -> i <> ya -> ~ In i (addrs (T nc nl ne NR) ++ caddrs c) -> mget m8 i = mget m i) /\
  mget m7 na = mkN (n_p ynode) (n_l ynode) (n_r ynode) nc.
Proof.
  intros na ya Nd Hy R C mr3 m3 m4 m5 m6 m7 m8 H8. subst na ya.
  cbn [rep] in R. destruct R as (Np & Nc & Nl & Nr & Rl & Rr).
  nd_norm. set (na := adr ne) in *. set (ya := adr ye) in *.
  assert (E3 : mr3 = set_hole m root c (Some ya)).
  { unfold mr3. rewrite Np. apply l_replace_hole; auto. }
  assert (G3 : mget m3 na = mget m na).
  { unfold m3. rewrite E3. apply mget_set_hole_o. notin. }
  assert (E4 : m4 = setp_opt m3 (raddr nl) (Some ya)) by (unfold m4; rewrite G3, Nl; auto).
  assert (G4 : mget m4 na = mget m na).
  { rewrite E4. rewrite mget_setp_opt_o by neq. auto. }
  assert (E5 : m5 = setp_opt m4 (raddr NR) (Some ya)) by (unfold m5; rewrite G4, Nr; auto).
  assert (G5 : mget m5 na = mget m na).
  { rewrite E5. rewrite mget_setp_opt_o by neq. auto. }
  assert (R3l : rep m3 (Some na) nl).
  { eapply rep_frame; [|exact Rl]. intros i Hi. unfold m3. rewrite E3. apply mget_set_hole_o. notin. }
  assert (R3r : rep m3 (Some na) NR).
  { eapply rep_frame; [|exact Rr]. intros i Hi. unfold m3. rewrite E3. apply mget_set_hole_o. notin. }
  assert (R4l : rep m4 (Some ya) nl) by (rewrite E4; apply (rep_reparent m3 (Some na)); auto).
  assert (R4r : rep m4 (Some na) NR).
  { eapply rep_frame; [|exact R3r]. intros i Hi. rewrite E4. mframe. }
  assert (R5r : rep m5 (Some ya) NR) by (rewrite E5; apply (rep_reparent m4 (Some na)); auto).
  assert (R5l : rep m5 (Some ya) nl).
  { eapply rep_frame; [|exact R4l]. intros i Hi. rewrite E5. mframe. }
  assert (F8 : forall i, i <> na -> i <> ya -> mget m8 i = mget m5 i).
  { intros i Hi1 Hi2. rewrite H8 by auto. unfold m7, m6. mframe. }
  assert (Y8 : mget m8 ya = mkN (ctx_par c) (raddr nl) (raddr NR) (n_c (mget m ya))).
  { rewrite H8 by neq. unfold m7. rewrite mget_setlinks_o by neq. unfold m6, setlinks.
    rewrite mget_mset, Nat.eqb_refl, G5, Np, Nl, Nr. f_equal.
    rewrite E5, E4. unfold m3. mread. rewrite E3. mread. auto. }
  splits.
  - cbn [rep]. fold ya. rewrite Y8. cbn [n_p n_c n_l n_r]. splits; auto.
    + eapply rep_frame; [|exact R5l]. intros i Hi. apply F8; neq.
    + eapply rep_frame; [|exact R5r]. intros i Hi. apply F8; neq.
  - rewrite E3. eapply crep_frame; [|apply (crep_set_hole m root c (Some na) (Some ya)); auto].
    intros i Hi. rewrite F8 by neq. rewrite E5, E4. mframe. unfold m3. rewrite E3. reflexivity.
  - intros i Hi1 Hi2 Hi3. nd_norm. rewrite F8 by auto. rewrite E5, E4. mframe.
    unfold m3. rewrite E3. apply mget_set_hole_o. notin.
  - unfold m7, setlinks. rewrite mget_mset, Nat.eqb_refl. f_equal.
    unfold m6. mread. rewrite G5. auto.
Qed.

(** * __cstl_bintree_erase *)
Lemma c_l_replace m root par old new d i :
  n_c (mget (fst (l_replace m root par old new d)) i) = n_c (mget m i).
Proof.
  unfold l_replace. destruct par as [g|]; cbn [fst]; auto.
  destruct (oeqb (Some old) (sel d (mget m g))); cbn [fst]; apply c_setsel.
Qed.

Lemma plug_snoc c f t : plug (c ++ [f]) t = plug1 f (plug c t).
Proof. rewrite plug_app. reflexivity. Qed.

Lemma l_bt_erase_sim m root c nc nl ne nr fuel :
  let n := T nc nl ne nr in
  let na := adr ne in
  NoDup (addrs n ++ caddrs c) ->
  rep m (ctx_par c) n -> crep m c (Some na) root -> (theight n <= fuel)%nat ->
  let z := erase_zip nc nl ne nr in
  let hole := hole_ctx z (z_y z) c in
  exists m' root' ya,
    l_bt_erase fuel m root na = Some (m', root', ya) /\
    rep m' (ctx_par hole) (z_x z) /\ crep m' hole (raddr (z_x z)) root' /\
    ya = (match z_y z with Some f => adr (fe f) | None => na end) /\
    n_c (mget m' ya) = z_col z /\ n_c (mget m' na) = nc /\
    (match n_l (mget m' na) with Some a => Some a | None => n_r (mget m' na) end) = raddr (z_x z) /\
    n_p (mget m' na) = ctx_par hole /\
    NoDup (addrs (z_x z) ++ caddrs hole) /\ ~ In na (addrs (z_x z) ++ caddrs hole) /\
    (forall i, ~ In i (addrs n ++ caddrs c) -> mget m' i = mget m i).
Proof.
  intros n na Nd R C Hf z hole. subst n na.
  pose proof R as R0. cbn [rep] in R. destruct R as (Np & Nc & Nl & Nr & Rl & Rr).
  assert (Hcase : (nl = E \/ nr = E) \/ exists lk ll le lr rk rl ry rr, nl = T lk ll le lr /\ nr = T rk rl ry rr).
  { destruct nl; auto. destruct nr; auto. right. do 8 eexists. split; reflexivity. }
  destruct Hcase as [Hor|(lk & ll & le & lr & rk & rl & ry & rr & Enl & Enr)].
  - (* at most one child: y = n *)
    set (X := match nl with E => nr | _ => nl end).
    assert (Ez : z = mkZ [] None X nc).
    { unfold z, X, erase_zip. destruct nl; auto. destruct nr; auto. destruct Hor; discriminate. }
    assert (Eh : hole = c) by (unfold hole; rewrite Ez; reflexivity).
    rewrite Eh, Ez. cbn [z_x z_y z_col].
    pose proof (l_splice_rep m root c nc nl ne nr Hor Nd R0 C) as HA. cbn zeta in HA.
    destruct HA as (Ex & R2 & C2 & F2). fold X in Ex, R2, C2, F2.
    destruct (l_replace _ _ _ _ _ _) as [m2 root2] eqn:E2. cbn [fst snd] in R2, C2, F2.
    assert (Nx : raddr X <> Some (adr ne) /\ ctx_par c <> Some (adr ne)).
    { pose proof Nd as Nd1. nd_norm. split.
      - unfold X. destruct nl; apply raddr_notin; auto.
      - destruct c as [|f c']; cbn [ctx_par]; [discriminate|]. nd_norm. congruence. }
    destruct Nx as (Nx1 & Nx2).
    assert (G2 : mget m2 (adr ne) = mget m (adr ne)) by (apply F2; auto).
    exists m2, root2, (adr ne). splits; auto.
    + unfold l_bt_erase.
      replace (match n_l (mget m (adr ne)) with
               | Some _ => match n_r (mget m (adr ne)) with
                           | Some _ => l_adjacent fuel m Rt (adr ne)
                           | None => Some (Some (adr ne))
                           end
               | None => Some (Some (adr ne))
               end) with (Some (Some (adr ne))).
      2:{ rewrite Nl, Nr. destruct Hor as [->| ->]; cbn [raddr]; auto. destruct (raddr nl); auto. }
      cbn [bind]. rewrite E2, Nat.eqb_refl. reflexivity.
    + rewrite G2. auto.
    + rewrite G2. auto.
    + rewrite G2. exact Ex.
    + rewrite G2. auto.
    + unfold X. clear - Nd. destruct nl; nd_norm; nd_solve.
    + unfold X. clear - Nd. destruct nl; nd_norm; nd_solve.
    + intros i Hi. apply F2.
      * apply raddr_notin. intros Hx. apply Hi. apply in_or_app. left. rewrite addrs_T.
        unfold X in Hx. destruct nl; [apply in_or_app; right; right; auto|].
        apply in_or_app; left; auto.
      * intros Hx. apply Hi. apply in_or_app. right. destruct c as [|f c']; [discriminate|].
        cbn [ctx_par] in Hx. injection Hx as <-. rewrite caddrs_cons. left. reflexivity.
  - (* two children: y = the leftmost node of the right subtree *)
    subst nl nr. set (nl := T lk ll le lr) in *.
    destruct (slide rk rl ry rr []) as [[[yc ye] yr] inner] eqn:Es.
    assert (Ez : z = mkZ inner (Some (mkF Rt yc ye nl)) yr yc).
    { unfold z, erase_zip, nl. rewrite Es. reflexivity. }
    assert (Eh : hole = inner ++ mkF Rt yc ye nl :: c) by (unfold hole; rewrite Ez; reflexivity).
    rewrite Eh, Ez. cbn [z_x z_y z_col fe].
    set (fn := mkF Rt nc ne nl). set (fy := mkF Rt yc ye nl).
    set (Y := T yc E ye yr). set (cy := inner ++ fn :: c).
    pose proof (slide_plug _ _ _ _ _ _ _ _ _ Es) as Hnr. cbn [plug] in Hnr. fold Y in Hnr.
    assert (HpY : plug (inner ++ [fn]) Y = T nc nl ne (T rk rl ry rr)).
    { rewrite plug_snoc, Hnr. reflexivity. }
    assert (Ecy : (inner ++ [fn]) ++ c = cy) by (unfold cy; rewrite <- app_assoc; reflexivity).
    assert (HY : rep m (ctx_par cy) Y /\ crep m cy (Some (adr ye)) root).
    { rewrite <- Ecy. apply (rep_plug_app m (inner ++ [fn]) c Y root). rewrite HpY. split; auto. }
    destruct HY as (RY & CY).
    assert (NdY : NoDup (addrs Y ++ caddrs cy)).
    { rewrite <- Ecy. apply nd_plug. rewrite HpY. exact Nd. }
    pose proof (l_splice_rep m root cy yc E ye yr (or_introl eq_refl) NdY RY CY) as HA. cbn zeta in HA.
    destruct HA as (Ex & R2 & C2 & F2).
    destruct (l_replace _ _ _ _ _ _) as [m2 root2] eqn:E2. cbn [fst snd] in R2, C2, F2.
    (* the node of y and of n after phase 1 *)
    assert (Hyn : adr ye <> adr ne /\ raddr yr <> Some (adr ye) /\ ctx_par cy <> Some (adr ye) /\
                  raddr yr <> Some (adr ne)).
    { pose proof NdY as Nd1. unfold Y, cy in Nd1. rewrite caddrs_app in Nd1. unfold fn in Nd1.
      nd_norm. splits; auto.
      - apply raddr_notin; auto.
      - unfold cy. destruct inner as [|f0 inner']; cbn [app ctx_par fe fn]; [congruence|].
        nd_norm. congruence.
      - apply raddr_notin; auto. }
    destruct Hyn as (Hyn & Hy1 & Hy2 & Hn1).
    assert (GY : mget m2 (adr ye) = mget m (adr ye)) by (apply F2; auto).
    assert (Ym : n_p (mget m (adr ye)) = ctx_par cy /\ n_c (mget m (adr ye)) = yc /\
                 n_l (mget m (adr ye)) = None /\ n_r (mget m (adr ye)) = raddr yr).
    { unfold Y in RY. cbn [rep raddr] in RY. tauto. }
    destruct Ym as (Yp & Yc & Yl & Yr).
    (* the tree with y removed, n still in place *)
    set (NR := plug inner yr).
    assert (Hp2 : plug (inner ++ [fn]) yr = T nc nl ne NR) by (rewrite plug_snoc; reflexivity).
    assert (H2 : rep m2 (ctx_par c) (T nc nl ne NR) /\ crep m2 c (Some (adr ne)) root2).
    { replace (Some (adr ne)) with (raddr (plug (inner ++ [fn]) yr)) by (rewrite Hp2; reflexivity).
      rewrite <- Hp2. apply (rep_plug_app m2 (inner ++ [fn]) c yr root2). rewrite Ecy. split; auto. }
    destruct H2 as (Rn2 & Cn2).
    assert (Nd2 : NoDup (addrs (T nc nl ne NR) ++ caddrs c) /\
                  ~ In (adr ye) (addrs (T nc nl ne NR) ++ caddrs c)).
    { rewrite <- Hp2. split.
      - apply nd_plug. rewrite Ecy. unfold Y in NdY. clear - NdY. nd_norm. nd_solve.
      - rewrite in_plug, Ecy. unfold Y in NdY. clear - NdY. nd_norm. nd_solve. }
    destruct Nd2 as (Nd2 & Ny2).
    set (t := mget m2 (adr ye)).
    pose proof (l_swapin_rep m2 root2 c nc nl ne NR ye t Nd2 Ny2 Rn2 Cn2) as HB. cbn zeta in HB.
    destruct (l_replace m2 root2 (n_p (mget m2 (adr ne))) (adr ne) (Some (adr ye)) Lf) as [m3 root3] eqn:E3.
    cbn [fst snd] in HB.
    set (m4 := setp_opt m3 (n_l (mget m3 (adr ne))) (Some (adr ye))) in *.
    set (m5 := setp_opt m4 (n_r (mget m4 (adr ne))) (Some (adr ye))) in *.
    set (m6 := setlinks m5 (adr ye) (mget m5 (adr ne))) in *.
    set (m7 := setlinks m6 (adr ne) t) in *.
    set (m8 := if oeqb (n_p (mget m7 (adr ne))) (Some (adr ne)) then setp m7 (adr ne) (Some (adr ye)) else m7).
    assert (H8 : forall i, i <> adr ne -> mget m8 i = mget m7 i).
    { intros i Hi. unfold m8. destruct (oeqb _ _); auto. apply mget_setp_o. auto. }
    destruct (HB m8 H8) as (R8 & C8 & F8 & N7). clear HB.
    assert (Et : t = mget m (adr ye)) by exact GY.
    rewrite Et, Yp, Yl, Yr in N7. rewrite GY, Yc in R8.
    assert (N8 : n_c (mget m8 (adr ne)) = nc /\ n_l (mget m8 (adr ne)) = None /\
                 n_r (mget m8 (adr ne)) = raddr yr /\
                 n_p (mget m8 (adr ne)) = ctx_par (inner ++ fy :: c)).
    { unfold m8. rewrite N7. cbn [n_p].
      destruct inner as [|f0 inner'].
      - cbn [app ctx_par cy fn fe fy]. rewrite oeqb_refl. mread. rewrite N7. cbn. auto.
      - assert (Hne : oeqb (ctx_par cy) (Some (adr ne)) = false).
        { apply oeqb_neq. unfold cy. cbn [app ctx_par].
          pose proof NdY as Nd1. unfold cy in Nd1. cbn [app] in Nd1. rewrite caddrs_cons, caddrs_app in Nd1.
          unfold fn in Nd1. nd_norm. congruence. }
        rewrite Hne, N7. cbn. auto. }
    destruct N8 as (N8c & N8l & N8r & N8p).
    assert (Hp8 : plug (inner ++ [fy]) yr = T yc nl ye NR) by (rewrite plug_snoc; reflexivity).
    assert (Ehole : (inner ++ [fy]) ++ c = inner ++ fy :: c) by (rewrite <- app_assoc; reflexivity).
    assert (H8' : rep m8 (ctx_par (inner ++ fy :: c)) yr /\ crep m8 (inner ++ fy :: c) (raddr yr) root3).
    { rewrite <- Ehole. apply (rep_plug_app m8 (inner ++ [fy]) c yr root3). rewrite Hp8. cbn [raddr]. auto. }
    destruct H8' as (Rh & Ch).
    exists m8, root3, (adr ye). splits; auto.
    + unfold l_bt_erase. rewrite Nl, Nr. cbn [raddr bind].
      unfold l_adjacent. cbn [sel]. rewrite Nr. cbn [raddr opp].
      rewrite (l_slide_rep m rl rk ry rr [fn] fuel yc ye yr (inner ++ [fn])); cycle 1.
      { exact Rr. }
      { cbn [theight] in Hf. lia. }
      { rewrite slide_app, Es. reflexivity. }
      change (raddr nl) with (Some (adr le)).
      cbn [bind]. cbv zeta. rewrite E2. rewrite (eqb_false _ _ Hyn).
      fold t. rewrite E3. reflexivity.
    + rewrite H8 by auto. unfold m7, m6. mread.
      unfold m5, m4. mread.
      assert (G3 : n_c (mget m3 (adr ye)) = n_c (mget m2 (adr ye))).
      { replace m3 with (fst (l_replace m2 root2 (n_p (mget m2 (adr ne))) (adr ne) (Some (adr ye)) Lf))
          by (rewrite E3; reflexivity).
        apply c_l_replace. }
      rewrite G3, GY. exact Yc.
    + rewrite N8l. exact N8r.
    + rewrite <- Ehole. apply nd_plug. rewrite Hp8.
      clear - Nd2 Ny2. nd_norm. nd_solve.
    + rewrite <- Ehole. rewrite <- in_plug. rewrite Hp8.
      clear - Nd2 Ny2 Hyn. nd_norm. nd_solve.
    + intros i Hi.
      assert (Hi' : ~ In i (addrs Y ++ caddrs cy)).
      { rewrite <- Ecy, <- in_plug, HpY. exact Hi. }
      assert (Hi2 : ~ In i (addrs (T nc nl ne NR) ++ caddrs c) /\ i <> adr ye /\ i <> adr ne).
      { rewrite <- Hp2, in_plug, Ecy. unfold Y in Hi'. clear - Hi' Hi. nd_norm. splits; auto. nd_solve. }
      destruct Hi2 as (Hi2 & Hi3 & Hi4).
      rewrite F8 by auto. apply F2.
      * apply raddr_notin. unfold Y in Hi'. clear - Hi'. nd_norm. auto.
      * intros Hx. apply Hi'. apply in_or_app. right. unfold cy in *.
        destruct inner as [|f0 inner']; cbn [app ctx_par] in Hx; injection Hx as <-;
          cbn [app]; rewrite caddrs_cons; left; reflexivity.
Qed.
