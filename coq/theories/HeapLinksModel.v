(** Pointer-level executable model of src/heap.c: a memory of nodes
    {p; l; r} indexed by element id (= node address), a root pointer and the
    size field.  Every C statement that writes a link is one update of the
    memory, in the order of the source; every statement reads the memory left
    by the previous one.  Dereferencing NULL and the undefined shift are
    [Flt].  The runner executes this model next to the functional one
    (HeapModel.v) and compares the decoded structures, so this transcription
    is tied to the C code by the same correspondence run.  No proofs here. *)
From Cstl Require Import Prelude HeapModel.
Local Open Scope N_scope.

Record node := mkN { np : option nat; nl : option nat; nr : option nat }.
Definition pmem := nat -> node.

Definition pupd (m : pmem) (a : nat) (n : node) : pmem :=
  fun b => if Nat.eqb b a then n else m b.
Definition setp (m : pmem) (a : nat) (v : option nat) : pmem :=
  pupd m a (mkN v (nl (m a)) (nr (m a))).
Definition setl (m : pmem) (a : nat) (v : option nat) : pmem :=
  pupd m a (mkN (np (m a)) v (nr (m a))).
Definition setr (m : pmem) (a : nat) (v : option nat) : pmem :=
  pupd m a (mkN (np (m a)) (nl (m a)) v).

Definition oeqb (a b : option nat) : bool :=
  match a, b with
  | Some x, Some y => Nat.eqb x y
  | None, None => true
  | _, _ => false
  end.

(** cstl_heap_promote_child(h, c), statement by statement; every statement
    reads the memory left by the previous one. *)

(** [if (p->p == NULL) root = c; else if (p->p->l == p) p->p->l = c; else p->p->r = c;] *)
Definition s_gp (m : pmem) (c p : nat) : pmem :=
  match np (m p) with
  | None => m
  | Some g => if oeqb (nl (m g)) (Some p) then setl m g (Some c) else setr m g (Some c)
  end.
(** [if (c->l != NULL) c->l->p = p;] *)
Definition s_cl (m : pmem) (c p : nat) : pmem :=
  match nl (m c) with Some x => setp m x (Some p) | None => m end.
(** [if (c->r != NULL) c->r->p = p;] *)
Definition s_cr (m : pmem) (c p : nat) : pmem :=
  match nr (m c) with Some x => setp m x (Some p) | None => m end.
(** [if (p->r != NULL) p->r->p = c;] *)
Definition s_pr (m : pmem) (c p : nat) : pmem :=
  match nr (m p) with Some x => setp m x (Some c) | None => m end.
(** [if (p->l != NULL) p->l->p = c;] *)
Definition s_pl (m : pmem) (c p : nat) : pmem :=
  match nl (m p) with Some x => setp m x (Some c) | None => m end.
(** [c->p = p->p;] *)
Definition s_cp (m : pmem) (c p : nat) : pmem := setp m c (np (m p)).
(** [p->p = c;] *)
Definition s_pp (m : pmem) (c p : nat) : pmem := setp m p (Some c).
(** [p->l = c->l; c->l = p; cstl_swap(&c->r, &p->r, ...);] *)
Definition s_L (m : pmem) (c p : nat) : pmem :=
  let m8 := setl m p (nl (m c)) in
  let m9 := setl m8 c (Some p) in
  setr (setr m9 c (nr (m9 p))) p (nr (m9 c)).
(** [p->r = c->r; c->r = p; cstl_swap(&c->l, &p->l, ...);] *)
Definition s_R (m : pmem) (c p : nat) : pmem :=
  let m8 := setr m p (nr (m c)) in
  let m9 := setr m8 c (Some p) in
  setl (setl m9 c (nl (m9 p))) p (nl (m9 c)).

(** [None] = the function dereferences NULL ([c->p == NULL]) *)
Definition promote (m : pmem) (root : option nat) (c : nat) : option (pmem * option nat) :=
  match np (m c) with
  | None => None
  | Some p =>
    let root1 := match np (m p) with None => Some c | Some _ => root end in
    let m7 := s_pp (s_cp (s_pl (s_pr (s_cr (s_cl (s_gp m c p) c p) c p) c p) c p) c p) c p in
    Some (if oeqb (nl (m7 p)) (Some c) then s_L m7 c p else s_R m7 c p, root1)
  end.


(** * The whole heap at pointer level *)

Record pheap := mkPH { pm : pmem; proot : option nat; psize : N }.
Definition ph_init : pheap := mkPH (fun _ => mkN None None None) None 0.

(** the loop of cstl_heap_find; [fuel] only bounds the recursion (b < 2^31) *)
Fixpoint p_find_loop (fuel : nat) (m : pmem) (loc b : N) (p : option nat) : option nat :=
  match fuel with
  | O => p
  | S f =>
    match p with
    | None => None
    | Some a =>
      if b =? 0 then p
      else if N.land loc b =? 0 then p_find_loop f m loc (b / 2) (nl (m a))
           else p_find_loop f m loc (b / 2) (nr (m a))
    end
  end.

Definition p_find (m : pmem) (root : option nat) (id : N) : res (option nat) :=
  let loc := wrap32 (id + 1) in
  let k := fls loc in
  if ((k <? 0) || (31 <=? k))%Z then Flt
  else Ok (p_find_loop 33 m loc (wrap32 (2 ^ Z.to_N k) / 2) root).

Section WithKey.
  Variable key : nat -> Z.

  (** __cstl_bintree_cmp(&h->bt, a, b) > 0 *)
  Definition pgt (a b : nat) : bool := (0 <? cmp (mkE a (key a)) (mkE b (key b)))%Z.

  (** [while (n->p != NULL && cmp(n, n->p) > 0) cstl_heap_promote_child(h, n);]
      [fuel] only bounds the recursion (the callers pass the number of nodes,
      which is at least the depth); running out of it is reported as [Flt] *)
  Fixpoint p_sift_up (fuel : nat) (m : pmem) (root : option nat) (n : nat)
    : res (pmem * option nat) :=
    match np (m n) with
    | None => Ok (m, root)
    | Some p =>
      if pgt n p then
        match fuel with
        | O => Flt
        | S f =>
          match promote m root n with
          | None => Flt
          | Some (m', root') => p_sift_up f m' root' n
          end
        end
      else Ok (m, root)
    end.

  Definition p_push (h : pheap) (n : nat) : res pheap :=
    let m0 := setr (setl (pm h) n None) n None in         (* n->l = NULL; n->r = NULL; *)
    match proot h with
    | None => Ok (mkPH (setp m0 n None) (Some n) (wrap64 (psize h + 1)))
    | Some _ =>
      match p_find m0 (proot h) (wrap32 (dec64 (psize h) / 2)) with
      | Flt => Flt
      | Ok None => Flt                                    (* n->p == NULL; n->p->r *)
      | Ok (Some pa) =>
        let m1 := setp m0 n (Some pa) in                  (* n->p = find(...) *)
        let m2 := if psize h mod 2 =? 0 then setr m1 pa (Some n) else setl m1 pa (Some n) in
        match p_sift_up (N.to_nat (psize h)) m2 (proot h) n with
        | Flt => Flt
        | Ok (m3, root3) => Ok (mkPH m3 root3 (wrap64 (psize h + 1)))
        end
      end
    end.

  Definition p_get (h : pheap) : option nat := proot h.

  (** the do-while loop of cstl_heap_pop *)
  Fixpoint p_sift_down (fuel : nat) (m : pmem) (root : option nat) (n : nat)
    : res (pmem * option nat) :=
    let c1 := match nl (m n) with Some l => if pgt l n then l else n | None => n end in
    let c2 := match nr (m n) with Some r => if pgt r c1 then r else c1 | None => c1 end in
    if Nat.eqb c2 n then Ok (m, root)
    else match fuel with
         | O => Flt
         | S f =>
           match promote m root c2 with
           | None => Flt
           | Some (m', root') => p_sift_down f m' root' n
           end
         end.

  Definition p_pop (h : pheap) : res (pheap * option nat) :=
    match proot h with
    | None => Ok (h, None)
    | Some top =>
      let m := pm h in
      match p_find m (proot h) (wrap32 (dec64 (psize h))) with
      | Flt => Flt
      | Ok None => Flt                                    (* n == NULL; n->p *)
      | Ok (Some n) =>
        (* unlink n from its parent *)
        let '(m1, root1) :=
          match np (m n) with
          | None => (m, None)
          | Some q => if oeqb (nl (m q)) (Some n) then (setl m q None, proot h)
                      else (setr m q None, proot h)
          end in
        let sz := dec64 (psize h) in
        match root1 with
        | None => Ok (mkPH m1 None sz, Some top)
        | Some r1 =>
          let m2 := pupd m1 n (m1 r1) in                  (* *n = *h->bt.root; *)
          let m3 := match nl (m2 n) with Some x => setp m2 x (Some n) | None => m2 end in
          let m4 := match nr (m3 n) with Some x => setp m3 x (Some n) | None => m3 end in
          match p_sift_down (N.to_nat (psize h)) m4 (Some n) n with         (* h->bt.root = n; loop *)
          | Flt => Flt
          | Ok (m5, root5) => Ok (mkPH m5 root5 sz, Some top)
          end
        end
      end
    end.

  (** cstl_bintree_clear: __cstl_bintree_foreach reads both child links of a
      node before it visits anything below it; callback on LEAF / POST *)
  Fixpoint p_post (fuel : nat) (m : pmem) (a : option nat) : list nat :=
    match fuel with
    | O => []
    | S f =>
      match a with
      | None => []
      | Some x => p_post f m (nl (m x)) ++ p_post f m (nr (m x)) ++ [x]
      end
    end.

  Definition p_clear (h : pheap) : list nat * pheap :=
    match proot h with
    | None => ([], h)
    | Some _ => (p_post (N.to_nat (psize h)) (pm h) (proot h), mkPH (pm h) None 0)
    end.

  (** same operations as HeapModel.step; the "element already linked"
      precondition is decided by the functional model *)
  Definition p_step (h : pheap) (o : op) : outcome pheap :=
    match o with
    | Push e => match p_push h e with Ok h' => Done h' [] | Flt => Fault end
    | Pop => match p_pop h with
             | Ok (h', r) => Done h' [zopt r]
             | Flt => Fault
             end
    | Get => Done h [zopt (p_get h)]
    | Size => Done h [Z.of_N (psize h)]
    | Clear => let '(log, h') := p_clear h in Done h' (map zid log)
    end.
End WithKey.
