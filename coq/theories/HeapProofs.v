(** Proofs about the heap model (C07). *)
From Cstl Require Import Prelude HeapModel.
Local Open Scope N_scope.

Lemma get_empty h : root h = E -> get h = None.
Proof. unfold get; intros ->; reflexivity. Qed.

Lemma pop_empty h : root h = E -> pop h = Ok (h, None).
Proof. unfold pop; intros ->; reflexivity. Qed.
