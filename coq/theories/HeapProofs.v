(** Proofs about the heap model (C07): cstl_fls computes the position of the
    highest set bit; the slot navigation reaches the node whose 1-based
    level-order number is given; push and pop preserve "complete, heap-ordered,
    duplicate-free, size field = number of elements" for every history and
    refine a bag with a maximum-extraction; nothing faults below 2^31
    elements. *)
From Cstl Require Import Prelude HeapModel.
Local Open Scope N_scope.
Ltac Zify.zify_post_hook ::= Z.to_euclidean_division_equations.

(** * cstl_fls *)

Lemma testbit_mask s n :
  N.testbit (wrap64 (N.shiftl ones64 s)) n = (s <=? n) && (n <? 64).
Proof.
  unfold wrap64, ones64.
  destruct (N.ltb_spec n 64) as [Hn|Hn].
  - rewrite N.mod_pow2_bits_low by assumption.
    destruct (N.leb_spec s n) as [Hs|Hs].
    + rewrite N.shiftl_spec_high by lia. rewrite N.ones_spec_low by lia. reflexivity.
    + rewrite N.shiftl_spec_low by lia. reflexivity.
  - rewrite N.mod_pow2_bits_high by assumption. rewrite andb_false_r. reflexivity.
Qed.

Lemma land_mask_zero x s :
  x < 2 ^ 64 -> (N.land x (wrap64 (N.shiftl ones64 s)) =? 0) = (x <? 2 ^ s).
Proof.
  intros Hx.
  destruct (N.ltb_spec x (2 ^ s)) as [Hs|Hs].
  - apply N.eqb_eq. apply N.bits_inj_iff. intros n.
    rewrite N.land_spec, testbit_mask, N.bits_0.
    destruct (N.leb_spec s n) as [Hsn|Hsn]; [|apply andb_false_r].
    rewrite <- (N.mod_small x (2 ^ s)) by assumption.
    rewrite N.mod_pow2_bits_high by assumption. reflexivity.
  - apply N.eqb_neq. intros H0.
    assert (Hpos : 0 < x) by (pose proof (N.pow_nonzero 2 s); lia).
    assert (Hb : N.testbit (N.land x (wrap64 (N.shiftl ones64 s))) (N.log2 x) = true).
    { rewrite N.land_spec, testbit_mask, N.bit_log2 by lia.
      apply (N.log2_le_pow2 _ _ Hpos) in Hs. apply (N.log2_lt_pow2 _ _ Hpos) in Hx.
      destruct (N.leb_spec s (N.log2 x)); [|lia]. destruct (N.ltb_spec (N.log2 x) 64); [|lia].
      reflexivity. }
    rewrite H0, N.bits_0 in Hb. discriminate.
Qed.

Lemma pow2_half k : 2 ^ N.of_nat (S k) / 2 = 2 ^ N.of_nat k.
Proof.
  rewrite Nat2N.inj_succ, N.pow_succ_r by lia.
  rewrite N.mul_comm, N.div_mul by lia. reflexivity.
Qed.

Lemma fls_loop_spec k : forall fuel x i,
  (k < fuel)%nat -> 0 < x < 2 ^ 64 -> i + 2 ^ N.of_nat (S k) <= 64 ->
  i <= N.log2 x < i + 2 ^ N.of_nat (S k) ->
  fls_loop fuel x i (2 ^ N.of_nat k) = N.log2 x.
Proof.
  induction k as [|k IH]; intros fuel x i Hf Hx Hi Hl;
    (destruct fuel as [|f]; [lia|]); cbn [fls_loop].
  - change (2 ^ N.of_nat 0) with 1 in *. change (2 ^ N.of_nat 1) with 2 in *.
    change (1 =? 0) with false. cbv iota. rewrite land_mask_zero by lia.
    change (1 / 2) with 0.
    assert (Hend : forall j, fls_loop f x j 0 = j) by (intros j; destruct f; reflexivity).
    rewrite Hend.
    destruct (N.ltb_spec x (2 ^ (1 + i))) as [Hc|Hc].
    + apply N.log2_lt_pow2 in Hc; lia.
    + apply N.log2_le_pow2 in Hc; lia.
  - assert (Hnz : 2 ^ N.of_nat (S k) <> 0) by (apply N.pow_nonzero; lia).
    destruct (N.eqb_spec (2 ^ N.of_nat (S k)) 0) as [He|_]; [contradiction|].
    rewrite land_mask_zero by lia. rewrite pow2_half.
    assert (Hd : 2 ^ N.of_nat (S (S k)) = 2 * 2 ^ N.of_nat (S k)).
    { rewrite (Nat2N.inj_succ (S k)), N.pow_succ_r by lia. reflexivity. }
    assert (Hd' : 2 ^ N.of_nat (S k) = 2 * 2 ^ N.of_nat k).
    { rewrite (Nat2N.inj_succ k), N.pow_succ_r by lia. reflexivity. }
    specialize (IH f x).
    remember (2 ^ N.of_nat (S (S k))) as P2. remember (2 ^ N.of_nat (S k)) as P1.
    remember (2 ^ N.of_nat k) as P0.
    destruct (N.ltb_spec x (2 ^ (P1 + i))) as [Hc|Hc].
    + apply N.log2_lt_pow2 in Hc; [|lia]. apply IH; lia.
    + apply N.log2_le_pow2 in Hc; [|lia]. apply IH; lia.
Qed.

Lemma fls_log2 x : 0 < x < 2 ^ 64 -> fls x = Z.of_N (N.log2 x).
Proof.
  intros Hx. unfold fls. destruct (N.eqb_spec x 0); [lia|]. f_equal.
  apply (fls_loop_spec 5); change (2 ^ N.of_nat 6) with 64; try lia.
  split; [lia|]. apply N.log2_lt_pow2; lia.
Qed.

Lemma fls_zero : fls 0 = (-1)%Z.
Proof. reflexivity. Qed.

Lemma fls_spec x :
  0 < x < 2 ^ 64 -> (2 ^ fls x <= Z.of_N x < 2 ^ (fls x + 1))%Z.
Proof.
  intros Hx. rewrite fls_log2 by assumption.
  destruct (N.log2_spec x) as [H1 H2]; [lia|].
  replace (Z.of_N (N.log2 x) + 1)%Z with (Z.of_N (N.succ (N.log2 x))) by lia.
  change 2%Z with (Z.of_N 2). rewrite <- !N2Z.inj_pow. lia.
Qed.

(** * Level-order positions

    The root has number 1, the children of position p are 2p ([p~0], left) and
    2p+1 ([p~1], right).  [cmpl p n t]: the subtree [t] hanging at position
    [p] occupies only positions <= n and every link that is NULL stands at a
    position > n.  [complete t n := cmpl 1 n t] says that the occupied
    positions are exactly 1..n (theorem [complete_positions] below). *)

Fixpoint cmpl (p : positive) (n : N) (t : tree) : Prop :=
  match t with
  | E => n < Npos p
  | T l _ r => Npos p <= n /\ cmpl p~0 n l /\ cmpl p~1 n r
  end.
Definition complete (t : tree) (n : N) : Prop := cmpl 1 n t.

Fixpoint pos_of (c : ctx) : positive :=
  match c with
  | [] => 1
  | (L, _, _) :: c' => (pos_of c')~0
  | (R, _, _) :: c' => (pos_of c')~1
  end.

Fixpoint cmpl_ctx (n : N) (c : ctx) : Prop :=
  match c with
  | [] => True
  | (L, _, sib) :: c' => Npos (pos_of c') <= n /\ cmpl (pos_of c')~1 n sib /\ cmpl_ctx n c'
  | (R, _, sib) :: c' => Npos (pos_of c') <= n /\ cmpl (pos_of c')~0 n sib /\ cmpl_ctx n c'
  end.

Lemma cmpl_zip c : forall s n,
  cmpl 1 n (zip c s) <-> cmpl (pos_of c) n s /\ cmpl_ctx n c.
Proof.
  induction c as [|[[d x] sib] c IH]; intros s n; cbn [zip pos_of cmpl_ctx].
  - tauto.
  - destruct d; rewrite IH; cbn [cmpl]; tauto.
Qed.

(** [anc p q]: p is q or an ancestor of q *)
Fixpoint anc (p q : positive) : bool :=
  Pos.eqb p q ||
  match q with
  | xH => false
  | xO q' => anc p q'
  | xI q' => anc p q'
  end.

Lemma anc_refl p : anc p p = true.
Proof. destruct p; cbn [anc]; rewrite Pos.eqb_refl; reflexivity. Qed.

Lemma anc_le p q : anc p q = true -> (p <= q)%positive.
Proof.
  induction q as [q IH|q IH|]; cbn [anc]; intros H; apply orb_true_iff in H;
    destruct H as [H|H]; try (apply Pos.eqb_eq in H; subst; lia); try discriminate;
    specialize (IH H); lia.
Qed.

Lemma anc_child p q : anc p~0 q = true \/ anc p~1 q = true -> anc p q = true.
Proof.
  induction q as [q IH|q IH|]; cbn [anc]; intros H.
  - apply orb_true_iff. rewrite !orb_true_iff in H.
    destruct H as [[H|H]|[H|H]]; try (apply Pos.eqb_eq in H); try discriminate.
    + right; apply IH; auto.
    + injection H as ->. right; apply anc_refl.
    + right; apply IH; auto.
  - apply orb_true_iff. rewrite !orb_true_iff in H.
    destruct H as [[H|H]|[H|H]]; try (apply Pos.eqb_eq in H); try discriminate.
    + injection H as ->. right; apply anc_refl.
    + right; apply IH; auto.
    + right; apply IH; auto.
  - rewrite !orb_false_r in H. destruct H as [H|H]; apply Pos.eqb_eq in H; discriminate.
Qed.

Lemma anc_disj p q : anc p~0 q = true -> anc p~1 q = true -> False.
Proof.
  induction q as [q IH|q IH|]; cbn [anc]; intros H0 H1;
    apply orb_true_iff in H0; apply orb_true_iff in H1.
  - destruct H0 as [H0|H0]; [apply Pos.eqb_eq in H0; discriminate|].
    destruct H1 as [H1|H1].
    + apply Pos.eqb_eq in H1. injection H1 as ->. apply anc_le in H0. lia.
    + auto.
  - destruct H1 as [H1|H1]; [apply Pos.eqb_eq in H1; discriminate|].
    destruct H0 as [H0|H0].
    + apply Pos.eqb_eq in H0. injection H0 as ->. apply anc_le in H1. lia.
    + auto.
  - destruct H0 as [H0|H0]; [apply Pos.eqb_eq in H0|]; discriminate.
Qed.

Lemma anc_sibling_false p q :
  (anc p~0 q = true -> anc p~1 q = false) /\ (anc p~1 q = true -> anc p~0 q = false).
Proof.
  split; intros H.
  - destruct (anc p~1 q) eqn:E1; auto. exfalso; eapply anc_disj; eauto.
  - destruct (anc p~0 q) eqn:E0; auto. exfalso; eapply anc_disj; eauto.
Qed.

(** adding position n+1 / removing position n outside of a subtree *)
Lemma cmpl_not_anc_succ s : forall t p n,
  cmpl p n t -> anc p s = false -> Npos s = n + 1 -> cmpl p (n + 1) t.
Proof.
  induction t as [|l IHl x r IHr]; intros p n H Ha Hs; cbn [cmpl] in *.
  - assert (p <> s) by (intros ->; rewrite anc_refl in Ha; discriminate). lia.
  - destruct H as (H1 & H2 & H3). repeat split; [lia| |].
    + apply IHl; auto. destruct (anc p~0 s) eqn:E0; auto.
      rewrite anc_child in Ha; auto.
    + apply IHr; auto. destruct (anc p~1 s) eqn:E1; auto.
      rewrite anc_child in Ha; auto.
Qed.

Lemma cmpl_not_anc_pred s : forall t p n,
  cmpl p n t -> anc p s = false -> Npos s = n -> cmpl p (n - 1) t.
Proof.
  induction t as [|l IHl x r IHr]; intros p n H Ha Hs; cbn [cmpl] in *.
  - lia.
  - destruct H as (H1 & H2 & H3).
    assert (p <> s) by (intros ->; rewrite anc_refl in Ha; discriminate).
    repeat split; [lia| |].
    + apply IHl; auto. destruct (anc p~0 s) eqn:E0; auto.
      rewrite anc_child in Ha; auto.
    + apply IHr; auto. destruct (anc p~1 s) eqn:E1; auto.
      rewrite anc_child in Ha; auto.
Qed.

Lemma cmpl_ctx_succ s : forall c n,
  cmpl_ctx n c -> anc (pos_of c) s = true -> Npos s = n + 1 -> cmpl_ctx (n + 1) c.
Proof.
  induction c as [|[[d x] sib] c IH]; intros n H Ha Hs; cbn [cmpl_ctx pos_of] in *; auto.
  destruct d; destruct H as (H1 & H2 & H3); (repeat split; [lia| |]).
  - apply (cmpl_not_anc_succ s); auto. apply anc_sibling_false; auto.
  - apply IH; auto. apply anc_child; auto.
  - apply (cmpl_not_anc_succ s); auto. apply anc_sibling_false; auto.
  - apply IH; auto. apply anc_child; auto.
Qed.

Lemma cmpl_ctx_pred s : forall c n,
  cmpl_ctx n c -> anc (pos_of c) s = true -> Npos s = n -> cmpl_ctx (n - 1) c.
Proof.
  induction c as [|[[d x] sib] c IH]; intros n H Ha Hs; cbn [cmpl_ctx pos_of] in *; auto.
  destruct d; destruct H as (H1 & H2 & H3); pose proof (anc_le _ _ Ha) as Hle;
    (repeat split; [lia| |]).
  - apply (cmpl_not_anc_pred s); auto. apply anc_sibling_false; auto.
  - apply IH; auto. apply anc_child; auto.
  - apply (cmpl_not_anc_pred s); auto. apply anc_sibling_false; auto.
  - apply IH; auto. apply anc_child; auto.
Qed.

(** * Navigation: cstl_heap_find reaches the node with a given number *)

Fixpoint ext (p : positive) (ds : list dir) : positive :=
  match ds with
  | [] => p
  | L :: r => ext (p~0)%positive r
  | R :: r => ext (p~1)%positive r
  end.

Fixpoint bits_of (p : positive) : list dir :=
  match p with
  | xH => []
  | xO q => bits_of q ++ [L]
  | xI q => bits_of q ++ [R]
  end.

Lemma ext_app p a b : ext p (a ++ b) = ext (ext p a) b.
Proof. revert p; induction a as [|[|] a IH]; intros p; cbn [ext app]; auto. Qed.

Lemma ext_bits_of p : ext 1 (bits_of p) = p.
Proof. induction p as [p IH|p IH|]; cbn [bits_of]; rewrite ?ext_app, ?IH; reflexivity. Qed.

Lemma ext_ge p ds : (p <= ext p ds)%positive.
Proof.
  revert p; induction ds as [|[|] ds IH]; intros p; cbn [ext]; [lia| |].
  - specialize (IH (p~0)%positive); lia.
  - specialize (IH (p~1)%positive); lia.
Qed.

Lemma length_bits_of_size p : N.of_nat (S (length (bits_of p))) = Npos (Pos.size p).
Proof.
  induction p as [p IH|p IH|]; cbn [bits_of Pos.size]; rewrite ?app_length; cbn [length];
    try rewrite Nat.add_1_r; try rewrite Nat2N.inj_succ, IH; try reflexivity; lia.
Qed.

Lemma length_bits_of p : N.of_nat (length (bits_of p)) = N.log2 (Npos p).
Proof.
  destruct p as [p|p|]; cbn [bits_of N.log2]; rewrite ?app_length; cbn [length];
    rewrite ?Nat.add_1_r, ?length_bits_of_size; reflexivity.
Qed.

Lemma testbit_pos_succ p j :
  (N.testbit (Npos p~0) (N.succ j) = N.testbit (Npos p) j) /\
  (N.testbit (Npos p~1) (N.succ j) = N.testbit (Npos p) j).
Proof.
  split.
  - change (Npos p~0) with (2 * Npos p). apply N.testbit_even_succ. lia.
  - change (Npos p~1) with (2 * Npos p + 1). apply N.testbit_odd_succ. lia.
Qed.

Lemma ext_testbit ds : forall p j,
  N.testbit (Npos (ext p ds)) (N.of_nat (length ds) + j) = N.testbit (Npos p) j.
Proof.
  induction ds as [|d ds IH]; intros p j; cbn [ext length].
  - reflexivity.
  - replace (N.of_nat (S (length ds)) + j) with (N.of_nat (length ds) + N.succ j) by lia.
    destruct d; rewrite IH; apply testbit_pos_succ.
Qed.

Lemma land_pow2_zero a k : (N.land a (2 ^ k) =? 0) = negb (N.testbit a k).
Proof.
  destruct (N.testbit a k) eqn:Hb; cbn [negb].
  - apply N.eqb_neq. intros H0.
    assert (Hk : N.testbit (N.land a (2 ^ k)) k = true).
    { rewrite N.land_spec, Hb, N.pow2_bits_eqb, N.eqb_refl. reflexivity. }
    rewrite H0, N.bits_0 in Hk. discriminate.
  - apply N.eqb_eq. apply N.bits_inj_iff. intros n.
    rewrite N.land_spec, N.pow2_bits_eqb, N.bits_0.
    destruct (N.eqb_spec k n) as [<-|]; [rewrite Hb|]; auto using andb_false_r.
Qed.

(** the initial mask for a path of the given length, and its halving *)
Definition bmask (ds : list dir) : N :=
  match ds with [] => 0 | _ :: r => 2 ^ N.of_nat (length r) end.

Lemma bmask_half d ds : bmask (d :: ds) / 2 = bmask ds.
Proof.
  destruct ds as [|d' ds]; cbn [bmask length]; [reflexivity|]. apply pow2_half.
Qed.

Lemma find_loop_spec ds : forall c t n,
  cmpl (pos_of c) n t -> Npos (ext (pos_of c) ds) <= n ->
  exists c' l x r,
    find_loop (Npos (ext (pos_of c) ds)) (bmask ds) c t = Some (c', T l x r) /\
    pos_of c' = ext (pos_of c) ds /\ zip c' (T l x r) = zip c t.
Proof.
  induction ds as [|d ds IH]; intros c t n Hc Hle.
  - cbn [ext] in *. destruct t as [|l x r]; cbn [cmpl] in Hc; [lia|].
    exists c, l, x, r. cbn [find_loop bmask]. auto.
  - pose proof (ext_ge (pos_of c) (d :: ds)) as Hge.
    destruct t as [|l x r]; cbn [cmpl] in Hc; [lia|]. destruct Hc as (_ & Hl & Hr).
    cbn [find_loop].
    assert (Hnz : bmask (d :: ds) =? 0 = false).
    { apply N.eqb_neq. cbn [bmask]. apply N.pow_nonzero. lia. }
    rewrite Hnz, bmask_half.
    assert (Hbit : N.testbit (Npos (ext (pos_of c) (d :: ds))) (N.of_nat (length ds)) =
                   match d with L => false | R => true end).
    { cbn [ext]. replace (N.of_nat (length ds)) with (N.of_nat (length ds) + 0) by lia.
      destruct d; rewrite ext_testbit; reflexivity. }
    cbn [bmask]. rewrite land_pow2_zero, Hbit.
    destruct d; cbn [negb].
    + destruct (IH ((L, x, r) :: c) l n) as (c' & l' & x' & r' & H1 & H2 & H3); auto.
      exists c', l', x', r'. auto.
    + destruct (IH ((R, x, l) :: c) r n) as (c' & l' & x' & r' & H1 & H2 & H3); auto.
      exists c', l', x', r'. auto.
Qed.

(** cstl_heap_find with [id + 1 = q]: no undefined shift while q < 2^31, and in
    a complete tree holding position q the node at position q is returned *)
Lemma find_spec t n q :
  complete t n -> Npos q <= n -> Npos q < 2 ^ 31 ->
  exists c l x r, find t (Npos q - 1) = Ok (Some (c, T l x r)) /\
                  pos_of c = q /\ zip c (T l x r) = t.
Proof.
  intros Hc Hle Hq. unfold find.
  replace (wrap32 (Npos q - 1 + 1)) with (Npos q) by (unfold wrap32; lia).
  rewrite fls_log2 by lia.
  assert (Hl : N.log2 (Npos q) < 31) by (apply N.log2_lt_pow2; lia).
  destruct (Z.ltb_spec (Z.of_N (N.log2 (Npos q))) 0); [lia|].
  destruct (Z.leb_spec 31 (Z.of_N (N.log2 (Npos q)))); [lia|]. cbn [orb].
  rewrite N2Z.id.
  assert (Hm : wrap32 (2 ^ N.log2 (Npos q)) / 2 = bmask (bits_of q)).
  { unfold wrap32. rewrite N.mod_small.
    2:{ apply N.pow_lt_mono_r; lia. }
    rewrite <- length_bits_of. destruct (bits_of q) as [|d ds] eqn:Eb; [reflexivity|].
    cbn [bmask length]. apply pow2_half. }
  rewrite Hm.
  destruct (find_loop_spec (bits_of q) [] t n) as (c' & l & x & r & H1 & H2 & H3);
    cbn [pos_of]; rewrite ?ext_bits_of; auto.
  cbn [pos_of zip] in *. rewrite ext_bits_of in *.
  exists c', l, x, r. rewrite H1. auto.
Qed.

(** * Elements, heap order *)

Fixpoint elems (t : tree) : list elem :=
  match t with
  | E => []
  | T l x r => x :: elems l ++ elems r
  end.

Fixpoint elems_ctx (c : ctx) : list elem :=
  match c with
  | [] => []
  | (_, x, sib) :: c' => x :: elems sib ++ elems_ctx c'
  end.

Lemma elems_zip c : forall s, Permutation (elems (zip c s)) (elems s ++ elems_ctx c).
Proof.
  induction c as [|[[d x] sib] c IH]; intros s; cbn [zip elems_ctx].
  - rewrite app_nil_r. reflexivity.
  - destruct d; rewrite IH; cbn [elems].
    + cbn [app]. rewrite <- app_assoc. apply Permutation_middle.
    + cbn [app]. etransitivity; [|apply Permutation_middle]. apply perm_skip.
      rewrite app_assoc. apply Permutation_app_tail. apply Permutation_app_comm.
Qed.

Definition le_root (x : elem) (t : tree) : Prop :=
  match t with E => True | T _ y _ => (ekey y <= ekey x)%Z end.

Fixpoint heap_ord (t : tree) : Prop :=
  match t with
  | E => True
  | T l x r => le_root x l /\ le_root x r /\ heap_ord l /\ heap_ord r
  end.

Definition ctx_top_le (c : ctx) (s : tree) : Prop :=
  match c with [] => True | (_, px, _) :: _ => le_root px s end.

Fixpoint ctx_ord (c : ctx) : Prop :=
  match c with
  | [] => True
  | (_, px, sib) :: c' =>
    heap_ord sib /\ le_root px sib /\
    match c' with [] => True | (_, ppx, _) :: _ => (ekey px <= ekey ppx)%Z end /\
    ctx_ord c'
  end.

Lemma heap_ord_zip c : forall s,
  heap_ord (zip c s) <-> heap_ord s /\ ctx_top_le c s /\ ctx_ord c.
Proof.
  induction c as [|[[d x] sib] c IH]; intros s; cbn [zip ctx_ord ctx_top_le].
  - tauto.
  - destruct d; rewrite IH; cbn [heap_ord]; destruct c as [|[[d' x'] sib'] c];
      cbn [ctx_top_le le_root]; tauto.
Qed.

Lemma le_root_mono a b t : (ekey a <= ekey b)%Z -> le_root a t -> le_root b t.
Proof. destruct t; cbn [le_root]; intros; auto; lia. Qed.

Lemma heap_ord_le_all t : forall x,
  heap_ord t -> le_root x t -> Forall (fun y => (ekey y <= ekey x)%Z) (elems t).
Proof.
  induction t as [|l IHl y r IHr]; intros x H Hx; cbn [elems]; [constructor|].
  cbn [heap_ord le_root] in *. destruct H as (H1 & H2 & H3 & H4).
  constructor; auto. apply Forall_app; split.
  - apply IHl; auto. eapply le_root_mono; eauto.
  - apply IHr; auto. eapply le_root_mono; eauto.
Qed.

(** the root of a heap-ordered tree is a maximum *)
Lemma heap_ord_root_max l x r :
  heap_ord (T l x r) -> Forall (fun y => (ekey y <= ekey x)%Z) (elems (T l x r)).
Proof. intros H. apply heap_ord_le_all; auto. cbn [le_root]. lia. Qed.

Lemma cmp_gt a b : (0 <? cmp a b)%Z = (ekey b <? ekey a)%Z.
Proof.
  unfold cmp. destruct (Z.compare_spec (ekey a) (ekey b));
    destruct (Z.ltb_spec (ekey b) (ekey a)); try reflexivity; lia.
Qed.

(** * Sift-up *)

Lemma sift_up_cmpl n c : forall l x r,
  cmpl 1 n (sift_up c l x r) <-> cmpl 1 n (zip c (T l x r)).
Proof.
  induction c as [|[[d px] sib] c IH]; intros l x r; cbn [sift_up]; [reflexivity|].
  destruct (0 <? cmp x px)%Z; [|reflexivity].
  destruct d; rewrite IH; cbn [zip]; rewrite !cmpl_zip; cbn [cmpl]; tauto.
Qed.

Lemma sift_up_elems c : forall l x r,
  Permutation (elems (sift_up c l x r)) (elems (zip c (T l x r))).
Proof.
  induction c as [|[[d px] sib] c IH]; intros l x r; cbn [sift_up]; [reflexivity|].
  destruct (0 <? cmp x px)%Z; [|reflexivity].
  destruct d; rewrite IH; cbn [zip]; rewrite !elems_zip; apply Permutation_app_tail;
    cbn [elems].
  - rewrite !app_comm_cons. apply Permutation_app_tail.
    apply perm_swap.
  - etransitivity; [apply perm_skip; apply Permutation_app_comm|].
    etransitivity; [|apply perm_skip; apply Permutation_app_comm].
    cbn [elems app]. rewrite !app_comm_cons. apply Permutation_app_tail. apply perm_swap.
Qed.

Lemma sift_up_ord c : forall l x r,
  heap_ord l -> heap_ord r -> le_root x l -> le_root x r ->
  ctx_ord c -> ctx_top_le c l -> ctx_top_le c r ->
  heap_ord (sift_up c l x r).
Proof.
  induction c as [|[[d px] sib] c IH]; intros l x r Hl Hr Hxl Hxr Hc Htl Htr;
    cbn [sift_up].
  - cbn [heap_ord]; auto.
  - cbn [ctx_ord ctx_top_le] in *. destruct Hc as (Hs & Hps & Hpp & Hc).
    rewrite cmp_gt. destruct (Z.ltb_spec (ekey px) (ekey x)) as [Hlt|Hge].
    + assert (Hnew : heap_ord (T l px r)) by (cbn [heap_ord]; auto).
      assert (Hxn : le_root x (T l px r)) by (cbn [le_root]; lia).
      assert (Hxs : le_root x sib) by (eapply le_root_mono; [|eauto]; lia).
      assert (Htn : ctx_top_le c (T l px r)).
      { destruct c as [|[[d' ppx] sib'] c]; cbn [ctx_top_le le_root]; auto. }
      assert (Hts : ctx_top_le c sib).
      { destruct c as [|[[d' ppx] sib'] c]; cbn [ctx_top_le]; auto.
        eapply le_root_mono; eauto. }
      destruct d; apply IH; auto.
    + apply heap_ord_zip. cbn [ctx_ord ctx_top_le heap_ord le_root]. repeat split; auto.
Qed.

(** * Sift-down *)

Lemma sift_down_cases x l y r :
  (sift_down x (T l y r) = T l x r /\ le_root x l /\ le_root x r) \/
  (exists ll lx lr, l = T ll lx lr /\ sift_down x (T l y r) = T (sift_down x l) lx r /\
                    (ekey x < ekey lx)%Z /\ le_root lx r) \/
  (exists rl rx rr, r = T rl rx rr /\ sift_down x (T l y r) = T l rx (sift_down x r) /\
                    (ekey x < ekey rx)%Z /\ le_root rx l).
Proof.
  cbn [sift_down].
  destruct l as [|ll lx lr], r as [|rl rx rr]; rewrite ?cmp_gt.
  - left. cbn [le_root]. auto.
  - destruct (Z.ltb_spec (ekey x) (ekey rx)).
    + right; right. exists rl, rx, rr. cbn [le_root]. auto.
    + left. cbn [le_root]. auto.
  - destruct (Z.ltb_spec (ekey x) (ekey lx)).
    + right; left. exists ll, lx, lr. cbn [le_root]. auto.
    + left. cbn [le_root]. auto.
  - destruct (Z.ltb_spec (ekey x) (ekey lx)).
    + destruct (Z.ltb_spec (ekey lx) (ekey rx)).
      * right; right. exists rl, rx, rr. cbn [le_root]. repeat split; auto; lia.
      * right; left. exists ll, lx, lr. cbn [le_root]. auto.
    + destruct (Z.ltb_spec (ekey x) (ekey rx)).
      * right; right. exists rl, rx, rr. cbn [le_root]. repeat split; auto; lia.
      * left. cbn [le_root]. auto.
Qed.

Lemma sift_down_cmpl n x : forall t p, cmpl p n (sift_down x t) <-> cmpl p n t.
Proof.
  induction t as [|l IHl y r IHr]; intros p; [reflexivity|].
  destruct (sift_down_cases x l y r) as [(-> & _)|[(ll & lx & lr & El & -> & _)|(rl & rx & rr & Er & -> & _)]];
    cbn [cmpl]; rewrite ?IHl, ?IHr; tauto.
Qed.

Lemma sift_down_elems x : forall t l y r,
  t = T l y r -> Permutation (elems (sift_down x t)) (x :: elems l ++ elems r).
Proof.
  induction t as [|l IHl y r IHr]; intros l0 y0 r0 Et; [discriminate|].
  injection Et as <- <- <-.
  destruct (sift_down_cases x l y r) as [(-> & _)|[(ll & lx & lr & El & -> & _)|(rl & rx & rr & Er & -> & _)]].
  - reflexivity.
  - cbn [elems]. subst l. rewrite (IHl ll lx lr eq_refl). cbn [elems app]. apply perm_swap.
  - cbn [elems]. subst r. rewrite (IHr rl rx rr eq_refl). cbn [elems].
    etransitivity; [apply perm_skip; symmetry; apply Permutation_middle|].
    etransitivity; [apply perm_swap|]. apply perm_skip. apply Permutation_middle.
Qed.

Lemma sift_down_ord x : forall t l y r,
  t = T l y r -> heap_ord l -> heap_ord r ->
  heap_ord (sift_down x t) /\
  (forall z, (ekey x <= ekey z)%Z -> le_root z l -> le_root z r -> le_root z (sift_down x t)).
Proof.
  induction t as [|l IHl y r IHr]; intros l0 y0 r0 Et Hl Hr; [discriminate|].
  injection Et as <- <- <-.
  destruct (sift_down_cases x l y r) as [(-> & H1 & H2)|[(ll & lx & lr & El & -> & H1 & H2)|(rl & rx & rr & Er & -> & H1 & H2)]].
  - split; [cbn [heap_ord]; auto|]. intros z Hz _ _. cbn [le_root]. auto.
  - subst l. cbn [heap_ord] in Hl. destruct Hl as (Ha & Hb & Hc & Hd).
    destruct (IHl ll lx lr eq_refl Hc Hd) as (Ho & Hz).
    split.
    + cbn [heap_ord]. repeat split; auto. apply Hz; auto; lia.
    + intros z _ Hzl _. cbn [le_root] in *. auto.
  - subst r. cbn [heap_ord] in Hr. destruct Hr as (Ha & Hb & Hc & Hd).
    destruct (IHr rl rx rr eq_refl Hc Hd) as (Ho & Hz).
    split.
    + cbn [heap_ord]. repeat split; auto. apply Hz; auto; lia.
    + intros z _ _ Hzr. cbn [le_root] in *. auto.
Qed.

(** * The invariant *)

Definition ids (t : tree) : list nat := map eid (elems t).

Record inv (h : heap) : Prop := mkInv {
  inv_complete : complete (root h) (size h);
  inv_ord : heap_ord (root h);
  inv_nodup : NoDup (ids (root h));
  inv_size : size h = N.of_nat (length (elems (root h)));
  inv_bound : size h < 2 ^ 32
}.

Lemma inv_init : inv h_init.
Proof. split; cbn; try constructor; lia. Qed.

Lemma zip_E c : forall s, zip c s = E -> c = [] /\ s = E.
Proof.
  induction c as [|[[d x] sib] c IH]; intros s H; [auto|].
  destruct d; cbn [zip] in H; apply IH in H; destruct H as (_ & H); discriminate.
Qed.

Definition troot (t : tree) : option elem :=
  match t with E => None | T _ x _ => Some x end.

Lemma zip_root_indep c : forall s s', c <> [] -> troot (zip c s) = troot (zip c s').
Proof.
  induction c as [|[[d x] sib] c IH]; intros s s' Hc; [congruence|].
  destruct c as [|f c'].
  - destruct d; reflexivity.
  - destruct d; cbn [zip]; apply IH; discriminate.
Qed.

(** ** attaching a leaf at the first free slot, then sifting up *)
Lemma attach_correct c n e :
  cmpl_ctx n c -> Npos (pos_of c) = n + 1 -> ctx_ord c ->
  complete (sift_up c E e E) (n + 1) /\ heap_ord (sift_up c E e E) /\
  Permutation (elems (sift_up c E e E)) (e :: elems_ctx c).
Proof.
  intros Hc Hp Ho. repeat split.
  - unfold complete. apply sift_up_cmpl. apply cmpl_zip. split.
    + cbn [cmpl]. lia.
    + apply (cmpl_ctx_succ (pos_of c) c n); auto using anc_refl.
  - apply sift_up_ord; cbn [heap_ord le_root]; auto; destruct c as [|[[d x] s] c]; cbn; auto.
  - rewrite sift_up_elems, elems_zip. reflexivity.
Qed.

(** ** detaching the last node *)
Lemma detach_correct c zl z zr n :
  cmpl 1 n (zip c (T zl z zr)) -> Npos (pos_of c) = n -> heap_ord (zip c (T zl z zr)) ->
  zl = E /\ zr = E /\ cmpl 1 (n - 1) (zip c E) /\ heap_ord (zip c E) /\
  Permutation (elems (zip c (T zl z zr))) (z :: elems (zip c E)).
Proof.
  intros Hc Hp Ho. apply cmpl_zip in Hc. destruct Hc as (Hn & Hctx).
  cbn [cmpl] in Hn. destruct Hn as (_ & Hl & Hr).
  assert (zl = E) as -> by (destruct zl; auto; cbn [cmpl] in Hl; lia).
  assert (zr = E) as -> by (destruct zr; auto; cbn [cmpl] in Hr; lia).
  repeat split; auto.
  - apply cmpl_zip. split; [cbn [cmpl]; lia|].
    apply (cmpl_ctx_pred (pos_of c) c n); auto using anc_refl.
  - apply heap_ord_zip in Ho. apply heap_ord_zip. destruct Ho as (_ & _ & Ho).
    repeat split; auto. destruct c as [|[[d x] s] c]; cbn; auto.
  - rewrite !elems_zip. reflexivity.
Qed.

Lemma dec64_pos n : 1 <= n -> n < 2 ^ 64 -> dec64 n = n - 1.
Proof. intros. unfold dec64, wrap64. lia. Qed.

Lemma find_overflow t id :
  2 ^ 31 <= id + 1 < 2 ^ 32 -> find t id = Flt.
Proof.
  intros H. unfold find. replace (wrap32 (id + 1)) with (id + 1) by (unfold wrap32; lia).
  rewrite fls_log2 by lia.
  assert (N.log2 (id + 1) = 31).
  { apply N.log2_unique; [lia|]. change (2 ^ N.succ 31) with (2 ^ 32). lia. }
  rewrite H0. reflexivity.
Qed.

Lemma NoDup_ids_perm a b : Permutation a b -> NoDup (map eid a) -> NoDup (map eid b).
Proof. intros P. apply Permutation_NoDup. apply Permutation_map. exact P. Qed.

Lemma push_correct h e :
  inv h -> ~ In (eid e) (ids (root h)) ->
  match push h e with
  | Ok h' => inv h' /\ Permutation (elems (root h')) (e :: elems (root h)) /\
             size h' = size h + 1
  | Flt => 2 ^ 31 <= size h
  end.
Proof.
  intros [Hc Ho Hd Hs Hb] Hin. destruct h as [t n]. cbn [root size] in *. unfold push; cbn [root size].
  destruct t as [|l0 x0 r0].
  - cbn in Hs. subst n. change (wrap64 (0 + 1)) with 1. cbn [root size].
    split; [|split; [reflexivity|lia]].
    split; cbn; auto; try lia. repeat constructor; auto.
  - set (t := T l0 x0 r0) in *.
    assert (Hn1 : 1 <= n) by (rewrite Hs; cbn [t elems length]; lia).
    rewrite dec64_pos by lia.
    destruct (N.eq_dec n (2 ^ 32 - 1)) as [->|Hne].
    { rewrite find_overflow; [lia|]. unfold wrap32. cbn. lia. }
    set (q := N.succ_pos ((n - 1) / 2)).
    assert (Hq : Npos q = (n - 1) / 2 + 1) by (unfold q; rewrite N.succ_pos_spec; lia).
    replace (wrap32 ((n - 1) / 2)) with (Npos q - 1) by (unfold wrap32; lia).
    destruct (find_spec t n q) as (c & pl & px & pr & -> & Hpc & Hz); auto; try lia.
    rewrite <- Hz in Hc, Ho. unfold complete in Hc.
    apply cmpl_zip in Hc. destruct Hc as (Hcn & Hcc). cbn [cmpl] in Hcn.
    destruct Hcn as (Hqn & Hpl & Hpr). rewrite Hpc in *.
    apply heap_ord_zip in Ho. destruct Ho as (Hon & Hot & Hoc). cbn [heap_ord] in Hon.
    destruct Hon as (Hxl & Hxr & Hol & Hor).
    assert (pr = E) as -> by (destruct pr; auto; cbn [cmpl] in Hpr; lia).
    assert (Hwr : wrap64 (n + 1) = n + 1) by (unfold wrap64; lia).
    rewrite Hwr. cbn [root size].
    destruct (N.eqb_spec (n mod 2) 0) as [Hev|Hodd].
    + destruct (attach_correct ((R, px, pl) :: c) n e) as (A1 & A2 & A3).
      * cbn [cmpl_ctx]. rewrite Hpc. auto.
      * cbn [pos_of]. rewrite Hpc. lia.
      * cbn [ctx_ord]. repeat split; auto.
      * assert (P : Permutation (elems (sift_up ((R, px, pl) :: c) E e E)) (e :: elems t)).
        { rewrite A3, <- Hz, elems_zip. cbn [elems elems_ctx]. rewrite !app_nil_r. reflexivity. }
        repeat split; auto; cbn [root size]; try lia.
        -- apply (NoDup_ids_perm (e :: elems t)); [symmetry; auto|]. cbn [map]. constructor; auto.
        -- rewrite (Permutation_length P). cbn [length]. lia.
    + assert (pl = E) as -> by (destruct pl; auto; cbn [cmpl] in Hpl; lia).
      destruct (attach_correct ((L, px, E) :: c) n e) as (A1 & A2 & A3).
      * cbn [cmpl_ctx]. rewrite Hpc. auto.
      * cbn [pos_of]. rewrite Hpc. lia.
      * cbn [ctx_ord]. repeat split; auto.
      * assert (P : Permutation (elems (sift_up ((L, px, E) :: c) E e E)) (e :: elems t)).
        { rewrite A3, <- Hz, elems_zip. cbn [elems elems_ctx]. rewrite !app_nil_r. reflexivity. }
        repeat split; auto; cbn [root size]; try lia.
        -- apply (NoDup_ids_perm (e :: elems t)); [symmetry; auto|]. cbn [map]. constructor; auto.
        -- rewrite (Permutation_length P). cbn [length]. lia.
Qed.

Lemma get_spec h : get h = troot (root h).
Proof. reflexivity. Qed.

Lemma pop_correct h :
  inv h ->
  match pop h with
  | Ok (h', None) => root h = E /\ h' = h
  | Ok (h', Some x) =>
    inv h' /\ get h = Some x /\
    Permutation (elems (root h)) (x :: elems (root h')) /\
    Forall (fun y => (ekey y <= ekey x)%Z) (elems (root h)) /\
    size h' = size h - 1
  | Flt => 2 ^ 31 <= size h
  end.
Proof.
  intros [Hc Ho Hd Hs Hb]. destruct h as [t n]. cbn [root size] in *. unfold pop, get; cbn [root size].
  destruct t as [|l0 top r0]; [auto|].
  set (t := T l0 top r0) in *.
  assert (Hn1 : 1 <= n) by (rewrite Hs; cbn [t elems length]; lia).
  rewrite dec64_pos by lia.
  destruct (N.le_gt_cases (2 ^ 31) n) as [Hbig|Hsmall].
  { rewrite find_overflow; [lia|]. unfold wrap32. lia. }
  destruct n as [|q]; [lia|].
  replace (wrap32 (Npos q - 1)) with (Npos q - 1) by (unfold wrap32; lia).
  destruct (find_spec t (Npos q) q) as (c & zl & z & zr & -> & Hpc & Hz); auto; try lia.
  rewrite <- Hz in Hc, Ho. unfold complete in Hc.
  destruct (detach_correct c zl z zr (Npos q)) as (-> & -> & D1 & D2 & D3); auto.
  { rewrite Hpc; reflexivity. }
  rewrite Hz in D3.
  assert (Hmax : Forall (fun y => (ekey y <= ekey top)%Z) (elems t)).
  { rewrite Hz in Ho. apply heap_ord_root_max. exact Ho. }
  destruct (zip c E) as [|l1 y1 r1] eqn:Et1.
  - apply zip_E in Et1. destruct Et1 as (-> & _). cbn [zip] in Hz.
    assert (z = top) as -> by (unfold t in Hz; congruence).
    assert (Hq1 : Npos q = 1) by (rewrite Hs, <- Hz; reflexivity).
    cbn [elems] in D3. repeat split; cbn [root size elems ids map length]; auto; try lia.
    constructor.
  - assert (Hcne : c <> []) by (intros ->; discriminate).
    assert (y1 = top) as ->.
    { pose proof (zip_root_indep c E (T E z E) Hcne) as Hr. rewrite Et1, Hz in Hr.
      cbn in Hr. congruence. }
    cbn [heap_ord] in D2. destruct D2 as (_ & _ & Hl1 & Hr1).
    destruct (sift_down_ord z _ l1 top r1 eq_refl Hl1 Hr1) as (S1 & _).
    pose proof (sift_down_elems z _ l1 top r1 eq_refl) as S2.
    assert (P : Permutation (elems t) (top :: elems (sift_down z (T l1 top r1)))).
    { rewrite D3, S2. cbn [elems]. apply perm_swap. }
    repeat split; cbn [root size]; auto; try lia.
    + unfold complete. apply sift_down_cmpl. exact D1.
    + apply (NoDup_ids_perm _ _ P) in Hd. cbn [map] in Hd. inversion Hd; auto.
    + rewrite Hs, (Permutation_length P). cbn [length]. lia.
Qed.

(** ** clear *)

Lemma postorder_perm t : Permutation (postorder t) (elems t).
Proof.
  induction t as [|l IHl x r IHr]; cbn [postorder elems]; [reflexivity|].
  rewrite IHl, IHr, app_assoc. symmetry. apply Permutation_cons_append.
Qed.

(** the callback log holds every element of the heap exactly once *)
Lemma clear_log_perm h : Permutation (fst (clear h)) (elems (root h)).
Proof.
  unfold clear. destruct (root h) eqn:Er; cbn [fst]; [reflexivity|]. apply postorder_perm.
Qed.

Lemma clear_log_nodup h : inv h -> NoDup (map eid (fst (clear h))).
Proof.
  intros Hi. apply (NoDup_ids_perm (elems (root h))); [symmetry; apply clear_log_perm|].
  apply (inv_nodup _ Hi).
Qed.

(** afterwards the heap is the freshly initialised one (so every later
    operation behaves as on a fresh heap) *)
Lemma clear_result_init h : inv h -> snd (clear h) = h_init.
Proof.
  intros Hi. unfold clear. destruct h as [t n]. cbn [root]. destruct t; cbn [snd]; [|reflexivity].
  pose proof (inv_size _ Hi) as Hs. cbn in Hs. subst n. reflexivity.
Qed.

(** * [complete] says what its name says: the occupied level-order positions
      are exactly 1..n *)

Fixpoint subtree (t : tree) (p : positive) : tree :=
  match p with
  | xH => t
  | xO q => match subtree t q with E => E | T l _ _ => l end
  | xI q => match subtree t q with E => E | T _ _ r => r end
  end.
Definition occupied (t : tree) (p : positive) : Prop := subtree t p <> E.

Fixpoint walk (t : tree) (ds : list dir) {struct ds} : tree :=
  match ds with
  | [] => t
  | d :: r =>
    match t with
    | E => E
    | T tl _ tr => walk (match d with L => tl | R => tr end) r
    end
  end.

Lemma walk_E ds : walk E ds = E.
Proof. destruct ds; reflexivity. Qed.

Lemma subtree_ext t ds : forall p, subtree t (ext p ds) = walk (subtree t p) ds.
Proof.
  induction ds as [|d ds IH]; intros p; cbn [ext walk]; [reflexivity|].
  destruct d; rewrite IH; cbn [subtree]; destruct (subtree t p); auto using walk_E.
Qed.

Lemma cmpl_walk t : forall p n,
  cmpl p n t <-> (forall ds, walk t ds <> E <-> Npos (ext p ds) <= n).
Proof.
  induction t as [|l IHl x r IHr]; intros p n; cbn [cmpl].
  - split.
    + intros H ds. rewrite walk_E. pose proof (ext_ge p ds). split; [congruence|lia].
    + intros H. specialize (H []). cbn [walk ext] in H.
      destruct (N.lt_ge_cases n (Npos p)); auto. exfalso. apply H; auto.
  - split.
    + intros (H1 & H2 & H3) [|[|] ds]; cbn [walk ext].
      * split; [auto|discriminate].
      * apply IHl; auto.
      * apply IHr; auto.
    + intros H. repeat split.
      * apply (H []). discriminate.
      * apply IHl. intros ds. apply (H (L :: ds)).
      * apply IHr. intros ds. apply (H (R :: ds)).
Qed.

Lemma complete_positions t n :
  complete t n <-> (forall p, occupied t p <-> Npos p <= n).
Proof.
  unfold complete, occupied. rewrite cmpl_walk. split; intros H.
  - intros p. specialize (H (bits_of p)). rewrite ext_bits_of in H.
    rewrite <- (ext_bits_of p) at 1. rewrite subtree_ext. exact H.
  - intros ds. specialize (H (ext 1 ds)). rewrite subtree_ext in H. exact H.
Qed.

(** * Navigation lemmas in the form the property text uses *)

(** from the size alone ([id = size - 1]) the last node is reached; it is a
    leaf, and unlinking it leaves a complete tree of n-1 nodes *)
Lemma nav_last t n :
  complete t n -> 1 <= n < 2 ^ 31 ->
  exists c z, find t (n - 1) = Ok (Some (c, T E z E)) /\ Npos (pos_of c) = n /\
              zip c (T E z E) = t /\ complete (zip c E) (n - 1).
Proof.
  intros Hc Hn. destruct n as [|q]; [lia|].
  destruct (find_spec t (Npos q) q) as (c & zl & z & zr & Hf & Hpc & Hz); auto; try lia.
  rewrite <- Hz in Hc. unfold complete in Hc. pose proof Hc as Hc'.
  apply cmpl_zip in Hc. destruct Hc as (Hcn & Hcc). cbn [cmpl] in Hcn.
  destruct Hcn as (_ & Hl & Hr). rewrite Hpc in *.
  assert (zl = E) as -> by (destruct zl; auto; cbn [cmpl] in Hl; lia).
  assert (zr = E) as -> by (destruct zr; auto; cbn [cmpl] in Hr; lia).
  exists c, z. repeat split; auto; try congruence.
  unfold complete. apply cmpl_zip. split; [cbn [cmpl]; lia|].
  apply (cmpl_ctx_pred (pos_of c) c (Npos q)); auto using anc_refl. congruence.
Qed.

(** from the size alone ([id = (size - 1) / 2], then the parity of size) the
    first free slot n+1 is reached: its parent exists, the link is NULL *)
Lemma nav_slot t n :
  complete t n -> 1 <= n -> n + 1 < 2 ^ 32 ->
  exists c pl px pr, find t ((n - 1) / 2) = Ok (Some (c, T pl px pr)) /\
    zip c (T pl px pr) = t /\
    if n mod 2 =? 0 then pr = E /\ Npos (pos_of c)~1 = n + 1
    else pl = E /\ pr = E /\ Npos (pos_of c)~0 = n + 1.
Proof.
  intros Hc Hn1 Hn.
  set (q := N.succ_pos ((n - 1) / 2)).
  assert (Hq : Npos q = (n - 1) / 2 + 1) by (unfold q; rewrite N.succ_pos_spec; lia).
  replace ((n - 1) / 2) with (Npos q - 1) by lia.
  destruct (find_spec t n q) as (c & pl & px & pr & Hf & Hpc & Hz); auto; try lia.
  exists c, pl, px, pr. repeat split; auto.
  rewrite <- Hz in Hc. unfold complete in Hc.
  apply cmpl_zip in Hc. destruct Hc as (Hcn & Hcc). cbn [cmpl] in Hcn.
  destruct Hcn as (Hqn & Hpl & Hpr). rewrite Hpc in *.
  assert (pr = E) as -> by (destruct pr; auto; cbn [cmpl] in Hpr; lia).
  destruct (N.eqb_spec (n mod 2) 0) as [Hev|Hodd].
  - split; auto. lia.
  - assert (pl = E) as -> by (destruct pl; auto; cbn [cmpl] in Hpl; lia).
    repeat split; auto. lia.
Qed.

(** * The scripted system: every step refines a bag with maximum extraction *)

Lemma mem_spec e t : mem e t = true <-> In e (ids t).
Proof.
  unfold ids. induction t as [|l IHl x r IHr]; cbn [mem elems map In]; [split; [discriminate|tauto]|].
  rewrite map_app, in_app_iff, !orb_true_iff, IHl, IHr, Nat.eqb_eq. intuition.
Qed.

Definition abs (h : heap) : list elem := elems (root h).

Definition is_max (x : elem) (b : list elem) : Prop :=
  In x b /\ Forall (fun y => (ekey y <= ekey x)%Z) b.

Section Step.
  Variable key : nat -> Z.

  Inductive spec : list elem -> op -> list elem -> list Z -> Prop :=
  | spec_push b e b' :
      ~ In e (map eid b) -> Permutation b' (mkE e (key e) :: b) -> spec b (Push e) b' []
  | spec_pop_empty : spec [] Pop [] [znull]
  | spec_pop b x b' :
      is_max x b -> Permutation b (x :: b') -> spec b Pop b' [zid (eid x)]
  | spec_get_empty : spec [] Get [] [znull]
  | spec_get b x : is_max x b -> spec b Get b [zid (eid x)]
  | spec_size b : spec b Size b [Z.of_nat (length b)]
  | spec_clear b log :
      Permutation log b -> spec b Clear [] (map (fun x => zid (eid x)) log).

  Lemma root_is_max l x r : heap_ord (T l x r) -> is_max x (elems (T l x r)).
  Proof. intros H. split; [cbn; auto|]. apply heap_ord_root_max; auto. Qed.

  Lemma step_correct h o :
    inv h ->
    match step key h o with
    | Done h' out => inv h' /\ spec (abs h) o (abs h') out
    | Precond => exists e, o = Push e /\ In e (map eid (abs h))
    | Fault => 2 ^ 31 <= size h
    | Abort => False
    end.
  Proof.
    intros Hi. destruct o as [e| | | |]; cbn [step].
    - destruct (mem e (root h)) eqn:Em.
      + exists e. split; auto. apply mem_spec. exact Em.
      + assert (Hn : ~ In e (ids (root h))) by (rewrite <- mem_spec; congruence).
        pose proof (push_correct h (mkE e (key e)) Hi Hn) as P.
        destruct (push h (mkE e (key e))) as [h'|]; auto.
        destruct P as (P1 & P2 & P3). split; auto. constructor; auto.
    - pose proof (pop_correct h Hi) as P.
      destruct (pop h) as [[h' [x|]]|]; auto.
      + destruct P as (P1 & P2 & P3 & P4 & P5). split; auto. cbn [option_map zopt].
        apply spec_pop; auto. split; auto. rewrite P3. cbn; auto.
      + destruct P as (P1 & ->). split; auto. unfold abs. rewrite P1. constructor.
    - split; auto. unfold get, abs. destruct (root h) as [|l x r] eqn:Er; cbn [option_map zopt].
      + constructor.
      + apply spec_get. apply root_is_max. rewrite <- Er. apply (inv_ord _ Hi).
    - split; auto. rewrite (inv_size _ Hi), nat_N_Z. constructor.
    - pose proof (clear_log_perm h) as P. pose proof (clear_result_init h Hi) as R.
      destruct (clear h) as [log h']. cbn [fst snd] in *. subst h'.
      split; [apply inv_init|]. constructor. exact P.
  Qed.

  Lemma reach_inv h : reach (step key) h_init h -> inv h.
  Proof.
    apply reach_ind_inv; [apply inv_init|].
    intros s o s' out Hs E. pose proof (step_correct s o Hs) as H. rewrite E in H. tauto.
  Qed.

  Lemma spec_length b o b' out : spec b o b' out -> (length b' <= S (length b))%nat.
  Proof.
    intros H; inversion H; subst; cbn [length]; try lia.
    - rewrite (Permutation_length H1). cbn [length]. lia.
    - rewrite (Permutation_length H1). cbn [length]. lia.
  Qed.

  (** no script with fewer than 2^31 operations reaches a fault or an abort *)
  Lemma run_safe_from ops : forall h,
    inv h -> size h + N.of_nat (length ops) < 2 ^ 31 ->
    match fst (run (step key) h ops) with
    | Done s _ => inv s
    | Precond => True
    | _ => False
    end.
  Proof.
    induction ops as [|o ops IH]; intros h Hi Hb; cbn [run fst]; auto.
    pose proof (step_correct h o Hi) as H.
    destruct (step key h o) as [h' out| | |]; cbn [fst]; auto.
    - destruct H as (Hi' & Hsp). specialize (IH h' Hi').
      destruct (run (step key) h' ops) as [fin outs]. cbn [fst] in *. apply IH.
      apply spec_length in Hsp. unfold abs in Hsp.
      rewrite (inv_size _ Hi), (inv_size _ Hi') in *. cbn [length] in Hb. lia.
    - cbn [length] in Hb. lia.
  Qed.
End Step.

(** * Statements about reachable states *)
Section Reach.
  Variable key : nat -> Z.
  Notation reachable := (reach (step key) h_init).

  Lemma reach_size h : reachable h -> size h = N.of_nat (length (abs h)).
  Proof. intros R. apply (inv_size _ (reach_inv key h R)). Qed.

  Lemma reach_shape h :
    reachable h ->
    complete (root h) (size h) /\ heap_ord (root h) /\ NoDup (ids (root h)).
  Proof. intros R. destruct (reach_inv key h R); auto. Qed.

  Lemma reach_get h :
    reachable h ->
    match get h with
    | Some x => is_max x (abs h)
    | None => abs h = [] /\ size h = 0
    end.
  Proof.
    intros R. pose proof (reach_inv key h R) as Hi. unfold get, abs.
    destruct (root h) as [|l x r] eqn:Er.
    - split; auto. rewrite (inv_size _ Hi), Er. reflexivity.
    - apply root_is_max. rewrite <- Er. apply (inv_ord _ Hi).
  Qed.

  Lemma reach_null_iff_empty h :
    reachable h -> (get h = None <-> size h = 0) /\ (get h = None <-> abs h = []).
  Proof.
    intros R. pose proof (reach_size h R) as Hs. unfold get, abs in *.
    destruct (root h) as [|l x r]; cbn [elems length] in *; split; split; intros; auto; try discriminate; lia.
  Qed.

  Lemma reach_pop h :
    reachable h ->
    match pop h with
    | Ok (h', Some x) =>
      get h = Some x /\ is_max x (abs h) /\ Permutation (abs h) (x :: abs h') /\
      size h' = size h - 1 /\ inv h'
    | Ok (h', None) => abs h = [] /\ size h = 0 /\ h' = h
    | Flt => 2 ^ 31 <= size h
    end.
  Proof.
    intros R. pose proof (reach_inv key h R) as Hi. pose proof (pop_correct h Hi) as P.
    destruct (pop h) as [[h' [x|]]|]; auto.
    - destruct P as (P1 & P2 & P3 & P4 & P5).
      assert (Hm : is_max x (abs h)) by (split; auto; unfold abs; rewrite P3; cbn; auto).
      auto.
    - destruct P as (P1 & ->). unfold abs. rewrite (inv_size _ Hi), P1. auto.
  Qed.

  Lemma reach_push h e :
    reachable h -> ~ In (eid e) (map eid (abs h)) -> size h < 2 ^ 31 ->
    exists h', push h e = Ok h' /\ Permutation (abs h') (e :: abs h) /\
               size h' = size h + 1 /\ inv h'.
  Proof.
    intros R Hn Hb. pose proof (push_correct h e (reach_inv key h R) Hn) as P.
    destruct (push h e) as [h'|]; [|lia]. exists h'. tauto.
  Qed.

  Lemma reach_no_fault h o :
    reachable h -> size h < 2 ^ 31 -> step key h o <> Fault /\ step key h o <> Abort.
  Proof.
    intros R Hb. pose proof (step_correct key h o (reach_inv key h R)) as P.
    destruct (step key h o); split; try discriminate; try lia; tauto.
  Qed.

  Lemma run_safe ops :
    N.of_nat (length ops) < 2 ^ 31 ->
    match fst (run (step key) h_init ops) with
    | Done s _ => inv s
    | Precond => True
    | _ => False
    end.
  Proof. intros H. apply run_safe_from; [apply inv_init|]. cbn [size h_init]. lia. Qed.
End Reach.
