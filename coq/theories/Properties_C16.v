(** C16 — allocation failure never corrupts a container.  One block of
    theorems per allocating component; the components' theorems are stated
    for every allocator oracle, the failure-specific corollaries are
    collected here. *)
From Cstl Require Import Prelude AllocModel.

(** * map (src/map.c; model MapModel.v, proofs MapProofs.v) *)
From Cstl Require Import TreeModel MapModel MapProofs.
Local Open Scope Z_scope.

Section Map.
  Variable ck : nat -> Z.
  Variable ok : nat -> N -> bool.
  Notation mstep := (MapModel.step ck ok).

  (** in every reachable state, an insert of a new key whose node allocation
      fails returns -1 and the end iterator; tree, size field, node memory
      and live heap blocks are exactly what they were (so are the entries);
      the resulting state is reachable, i.e. the map stays fully usable *)
  Theorem C16_map_insert_failure s k v it :
    reach mstep m_init s -> alookup ck (entries s) k = None -> grant ok (mal s) NODE_SIZE = false ->
    exists s',
      mstep s (MInsert k v it) = Done s' (-1 :: (if it then [znull; znull; 0] else [])) /\
      mt s' = mt s /\ msz s' = msz s /\ mtab s' = mtab s /\ entries s' = entries s /\
      live (mal s') = live (mal s) /\ next (mal s') = next (mal s) /\
      AllocModel.events (mal s') = EvMallocFail NODE_SIZE :: AllocModel.events (mal s) /\
      reach mstep m_init s'.
  Proof.
    intros R El Eg. pose proof (step_insert_fail ck ok s k v it (reach_inv ck ok s R) El Eg) as H.
    eexists. split; [exact H|]. repeat split. eapply reach_step; eauto.
  Qed.

  (** the allocator is only asked when a node is needed: an insert of a key
      that is present succeeds with 1 whatever the oracle would answer *)
  Theorem C16_map_insert_existing_needs_no_memory s k v it k0 v0 :
    reach mstep m_init s -> alookup ck (entries s) k = Some (k0, v0) ->
    mstep s (MInsert k v it) = Done s (1 :: (if it then [zid k0; zid v0; 1] else [])).
  Proof. intros R. apply step_insert_existing. apply reach_inv with (ok := ok); auto. Qed.

  (** whatever subset of the allocations fails, no operation list ends in a
      fault or an abort, and at every point the live heap blocks are exactly
      the nodes of the entries (nothing leaked) and nothing was freed twice *)
  Theorem C16_map_no_leak_no_double_free ops :
    match fst (run mstep m_init ops) with
    | Done s _ =>
      Permutation (map fst (live (mal s))) (nodes s) /\
      length (live (mal s)) = length (entries s) /\ no_bad_free (mal s)
    | Precond => True
    | _ => False
    end.
  Proof.
    pose proof (run_safe ck ok ops m_init (map_inv_init ck)) as H.
    destruct (fst (run mstep m_init ops)) as [s out| | |]; auto.
    split; [apply (live_nodes ck); auto|]. split; [|apply (inv_nobad ck s H)].
    rewrite (live_count ck s H), entries_length. reflexivity.
  Qed.

  (** ... and clearing the map releases every block *)
  Theorem C16_map_clear_releases_everything s cb :
    reach mstep m_init s ->
    exists s' out, mstep s (MClear cb) = Done s' out /\ live (mal s') = [] /\ no_bad_free (mal s').
  Proof.
    intros R. destruct (step_clear ck ok s cb (reach_inv ck ok s R))
      as (log & order & _ & _ & _ & H4 & _ & I').
    eexists; eexists. split; [exact H4|]. split; [reflexivity|apply (inv_nobad ck _ I')].
  Qed.
End Map.

(** Non-vacuity: the second and the fourth request fail; the map holds what
    the successful inserts put in, and a final clear leaves no live block. *)
Example C16_map_example :
  let st := MapModel.step (ck_mod 0) (script_oracle [1; 3]%nat None) in
  match run st m_init [MInsert 2 0 true; MInsert 0 1 true; MInsert 0 2 true; MInsert 1 3 false;
                       MInsert 1 0 true; MFind 0; MSize; MClear false; MLive] with
  | (Done s _, outs) =>
    live (mal s) = [] /\
    outs = [[0; 2; 0; 1]; [-1; -1; -1; 0]; [0; 0; 2; 1]; [-1]; [0; 1; 0; 1]; [0; 2; 1]; [3]; []; [0]]
  | _ => False
  end.
Proof. vm_compute. split; reflexivity. Qed.

Print Assumptions C16_map_insert_failure.
Print Assumptions C16_map_insert_existing_needs_no_memory.
Print Assumptions C16_map_no_leak_no_double_free.
Print Assumptions C16_map_clear_releases_everything.

(** * vector (src/vector.c; model VectorModel.v, proofs VectorProofs.v) and
    strings (src/_string.c; StrModel.v, StrProofs.v).  The statements are the
    ones of Properties_C09.v / Properties_C10.v specialised to a refused
    allocation; [refused]/[grow_fails] say that the byte count is not
    representable or that the allocator oracle (any oracle) turns the request
    down. *)
Require Cstl.Properties_C09 Cstl.Properties_C10.
Module VS.
Import VectorModel VectorProofs StrModel StrProofs.
Local Open Scope N_scope.
Section VecStr.
  Variable ok : nat -> N -> bool.

  (** a reserve that cannot be satisfied is the identity on the vector and on
      the set of live blocks *)
  Theorem C16_vector_reserve_refused al v sz :
    alloc_ok al -> no_bad_free al -> vec_ok al v -> refused ok al v sz ->
    exists al', reserve ok false al v sz = Ok (al', v) /\ live al' = live al.
  Proof. exact (Properties_C09.C09_reserve_refused_is_identity ok al v sz). Qed.

  (** the same for shrink_to_fit *)
  Theorem C16_vector_shrink_refused al v :
    alloc_ok al -> no_bad_free al -> vec_ok al v -> refused ok al v (count v) ->
    exists al', shrink_to_fit ok false al v = Ok (al', v) /\ live al' = live al.
  Proof. exact (Properties_C09.C09_shrink_refused_is_identity ok al v). Qed.

  (** resize aborts exactly when the capacity is short and the growth refused *)
  Theorem C16_vector_resize_aborts_iff al v sz :
    alloc_ok al -> no_bad_free al -> vec_ok al v ->
    (resize ok false al v sz = Abt <-> cap v < sz /\ refused ok al v sz).
  Proof. exact (Properties_C09.C09_resize_aborts_iff ok al v sz). Qed.

  (** whatever failed along the way, clearing every vector leaves no live block *)
  Theorem C16_vector_no_leak shape s :
    Forall (fun p => 1 <= fst (fst p)) shape ->
    reach (VectorModel.step ok false) (sys_init shape) s ->
    match fst (run (VectorModel.step ok false) s (map Clear (seq 0 (length (vecs s))))) with
    | Done s' _ => live (heap s') = []
    | _ => False
    end.
  Proof. exact (Properties_C09.C09_clear_all_no_leak ok shape s). Qed.

  (** string growth that cannot be satisfied aborts (never faults, never
      returns), for every representable request *)
  Theorem C16_string_resize_aborts_iff al v n :
    alloc_ok al -> no_bad_free al -> str_ok al v -> n < W64 ->
    (s_resize ok false al v n = Abt <-> grow_fails ok al v n).
  Proof. exact (Properties_C10.C10_resize_aborts_iff ok al v n). Qed.

  (** string reserve never changes the string, refused or not, and never aborts *)
  Theorem C16_string_reserve al v n :
    alloc_ok al -> no_bad_free al -> str_ok al v ->
    match s_reserve ok false al v n with
    | Ok (al', v') => sabs v' = sabs v /\ count v' = count v /\ (v' = v \/ cap v' = wrap64 (n + 1))
    | Abt => False
    | Flt => False
    end.
  Proof.
    intros A NB S. pose proof (Properties_C10.C10_reserve ok al v n A NB S) as H.
    destruct (s_reserve ok false al v n) as [[al' v']| |]; auto. tauto.
  Qed.
End VecStr.
Print Assumptions C16_vector_reserve_refused.
Print Assumptions C16_vector_shrink_refused.
Print Assumptions C16_vector_resize_aborts_iff.
Print Assumptions C16_vector_no_leak.
Print Assumptions C16_string_resize_aborts_iff.
Print Assumptions C16_string_reserve.
End VS.

(** * hash table (src/hash.c; HashModel.v, proofs HashAlloc.v): resize and
    shrink_to_fit whose realloc is refused *)
Require Cstl.HashProofs Cstl.HashSys Cstl.HashAlloc.
Module HS.
Import HashModel HashProofs HashInv HashOps HashTable HashSys HashAlloc.
Local Open Scope N_scope.
Section Hash.
  Variable hf : fn_id -> N -> N -> option N.   (* any hash functions that do not trap *)
  Variable key : nat -> N.
  Variable ok : nat -> N -> bool.              (* any allocator oracle *)
  Hypothesis Hdef : hf_def hf.

  (** a resize beyond the capacity whose realloc is refused returns normally,
      changes no table at all, allocates and frees nothing; the table invariant
      and the allocator/table agreement (live blocks = the bucket arrays, no bad
      free) still hold *)
  Theorem C16_hash_resize_refused s i t n f :
    sys_inv hf key s -> alloc_inv s -> nth_error (tabs s) i = Some t ->
    0 < n -> n <= MAX_BUCKETS -> cap t < n -> grant ok (al s) (BUCKET_BYTES * n) = false ->
    exists s' w,
      exec hf key fixed ok s (Resize i n f) = XDone s' [0%Z] w /\
      tabs s' = tabs s /\ AllocModel.live (al s') = AllocModel.live (al s) /\
      AllocModel.events (al s') = EvReallocFail (at_blk t) (BUCKET_BYTES * n) :: AllocModel.events (al s) /\
      sys_inv hf key s' /\ alloc_inv s'.
  Proof. exact (resize_alloc_failure hf key ok Hdef s i t n f). Qed.

  (** a shrink_to_fit whose realloc is refused keeps the elements (a pending
      rehash is completed first, which is all that happens), the bucket array,
      the capacity and the geometry the table was heading for *)
  Theorem C16_hash_shrink_refused s i t :
    in_range hf -> sys_inv hf key s -> alloc_inv s -> nth_error (tabs s) i = Some t ->
    tgt_count t < cap t -> grant ok (al s) (BUCKET_BYTES * tgt_count t) = false ->
    exists s' t' r w,
      exec hf key fixed ok s (Shrink i) = XDone s' r w /\ tabs s' = upd (tabs s) i t' /\
      Permutation (HashModel.live t') (HashModel.live t) /\ size t' = size t /\
      cap t' = cap t /\ at_blk t' = at_blk t /\
      tgt_count t' = tgt_count t /\ tgt_hash t' = tgt_hash t /\
      AllocModel.live (al s') = AllocModel.live (al s) /\ sys_inv hf key s' /\ alloc_inv s'.
  Proof. exact (shrink_alloc_failure hf key ok Hdef s i t). Qed.

  (** every operation, failing allocations included, keeps the allocator
      consistent with the tables: nothing leaked, nothing freed twice *)
  Theorem C16_hash_alloc_consistent s o s' r w :
    sys_inv hf key s -> alloc_inv s -> exec hf key fixed ok s o = XDone s' r w -> alloc_inv s'.
  Proof. exact (exec_alloc_inv hf key ok Hdef s o s' r w). Qed.
End Hash.
Print Assumptions C16_hash_resize_refused.
Print Assumptions C16_hash_shrink_refused.
Print Assumptions C16_hash_alloc_consistent.
End HS.

(** * smart pointers and array views (src/memory.c, src/array.c; MemModel.v,
    ArrayViewModel.v): a refused allocation leaves the object empty, frees
    any half-built block and keeps every invariant *)
Require Cstl.Properties_C05 Cstl.Properties_C14.
Module MM.
Import MemModel ArrayViewModel MemProofs ArrayViewProofs.
Local Open Scope N_scope.
Section Mem.
  Variables (ks : list kind) (ex : list N).
  Hypothesis pool_small : 2 * N.of_nat (length ks) < 4294967296.

  (** shared_ptr_alloc with the outer (bookkeeping) or the inner (memory)
      malloc refused: the object is empty afterwards, the half-built
      bookkeeping block is gone, the invariant holds *)
  Theorem C16_shared_alloc_refused ok s i o sz cb s1 :
    reach lmstep (st_init ks ex) s -> nth_error (objs s) i = Some o -> ownerk (okind o) = true ->
    wf_obj i o = true -> shared_reset s i = Ok s1 ->
    (snd (malloc ok (al s1) DATA_SZ) = None \/
     exists a1 d, malloc ok (al s1) DATA_SZ = (a1, Some d) /\ snd (malloc ok a1 sz) = None) ->
    exists s', shared_alloc ok s i sz cb = Ok s' /\ inv s' /\
      objs s' = upd (objs s) i (ptr_obj i o None) /\ (forall b, is_live (al s') b = is_live (al s1) b).
  Proof. exact (Properties_C05.C05_shared_alloc_refused ks ex ok s i o sz cb s1). Qed.

  Theorem C16_unique_alloc_refused ok s u o sz cb s1 :
    reach lmstep (st_init ks ex) s -> nth_error (objs s) u = Some o -> okind o = KU -> wf_obj u o = true ->
    unique_reset s (ASlot u) = Ok s1 -> snd (malloc ok (al s1) sz) = None ->
    exists s', unique_alloc ok s (ASlot u) sz cb = Ok s' /\ inv s' /\
      objs s' = upd (objs s) u (uobj u o None None) /\ live (al s') = live (al s1).
  Proof. exact (Properties_C05.C05_unique_alloc_refused ks ex ok s u o sz cb s1). Qed.

  (** cstl_array_alloc: the object ends up either empty or a full view of a
      fresh adequate block; an unrepresentable byte count always gives the
      empty object; the array invariant holds either way *)
  Theorem C16_array_alloc_result ok s a o nm sz :
    reach (lstep false) (st_init ks ex) s -> nth_error (objs s) a = Some o -> okind o = KA ->
    wf_obj a o = true -> nm <= MAX64 -> sz <= MAX64 ->
    exists s' p, array_alloc ok false s a nm sz = Ok s' /\ ainv s' /\
      objs s' = upd (objs s) a (olo (ptr_obj a o p) 0 (match p with Some _ => nm | None => 0 end)) /\
      (MAX64 < HDR + nm * sz -> p = None).
  Proof. exact (Properties_C14.C14_alloc_result ks ex pool_small ok s a o nm sz). Qed.

  (** after any history, failures included, resetting every object leaves
      no live block *)
  Theorem C16_mem_no_leak ok s :
    reach (lstep false) (st_init ks ex) s ->
    exists s', cleanup ok false s = Done s' [] /\ live (al s') = [].
  Proof. exact (Properties_C05.C05_reset_all_leaks_nothing ks ex ok s pool_small). Qed.
End Mem.
Print Assumptions C16_shared_alloc_refused.
Print Assumptions C16_unique_alloc_refused.
Print Assumptions C16_array_alloc_result.
Print Assumptions C16_mem_no_leak.
End MM.
