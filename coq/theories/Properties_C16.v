(** C16 — allocation failure never corrupts a container.  One block of
    theorems per allocating component; the components' theorems are stated
    for every allocator oracle, the failure-specific corollaries are
    collected here. *)
From Cstl Require Import Prelude AllocModel.

(** * map (src/map.c; model MapModel.v, proofs MapProofs.v) *)
From Cstl Require Import TreeModel MapModel MapProofs.
Local Open Scope Z_scope.

Section Map.
  Variable ck : nat -> Z.
  Variable ok : nat -> N -> bool.
  Notation mstep := (MapModel.step ck ok).

  (** in every reachable state, an insert of a new key whose node allocation
      fails returns -1 and the end iterator; tree, size field, node memory
      and live heap blocks are exactly what they were (so are the entries);
      the resulting state is reachable, i.e. the map stays fully usable *)
  Theorem C16_map_insert_failure s k v it :
    reach mstep m_init s -> alookup ck (entries s) k = None -> grant ok (mal s) NODE_SIZE = false ->
    exists s',
      mstep s (MInsert k v it) = Done s' (-1 :: (if it then [znull; znull; 0] else [])) /\
      mt s' = mt s /\ msz s' = msz s /\ mtab s' = mtab s /\ entries s' = entries s /\
      live (mal s') = live (mal s) /\ next (mal s') = next (mal s) /\
      AllocModel.events (mal s') = EvMallocFail NODE_SIZE :: AllocModel.events (mal s) /\
      reach mstep m_init s'.
  Proof.
    intros R El Eg. pose proof (step_insert_fail ck ok s k v it (reach_inv ck ok s R) El Eg) as H.
    eexists. split; [exact H|]. repeat split. eapply reach_step; eauto.
  Qed.

  (** the allocator is only asked when a node is needed: an insert of a key
      that is present succeeds with 1 whatever the oracle would answer *)
  Theorem C16_map_insert_existing_needs_no_memory s k v it k0 v0 :
    reach mstep m_init s -> alookup ck (entries s) k = Some (k0, v0) ->
    mstep s (MInsert k v it) = Done s (1 :: (if it then [zid k0; zid v0; 1] else [])).
  Proof. intros R. apply step_insert_existing. apply reach_inv with (ok := ok); auto. Qed.

  (** whatever subset of the allocations fails, no operation list ends in a
      fault or an abort, and at every point the live heap blocks are exactly
      the nodes of the entries (nothing leaked) and nothing was freed twice *)
  Theorem C16_map_no_leak_no_double_free ops :
    match fst (run mstep m_init ops) with
    | Done s _ =>
      Permutation (map fst (live (mal s))) (nodes s) /\
      length (live (mal s)) = length (entries s) /\ no_bad_free (mal s)
    | Precond => True
    | _ => False
    end.
  Proof.
    pose proof (run_safe ck ok ops m_init (map_inv_init ck)) as H.
    destruct (fst (run mstep m_init ops)) as [s out| | |]; auto.
    split; [apply (live_nodes ck); auto|]. split; [|apply (inv_nobad ck s H)].
    rewrite (live_count ck s H), entries_length. reflexivity.
  Qed.

  (** ... and clearing the map releases every block *)
  Theorem C16_map_clear_releases_everything s cb :
    reach mstep m_init s ->
    exists s' out, mstep s (MClear cb) = Done s' out /\ live (mal s') = [] /\ no_bad_free (mal s').
  Proof.
    intros R. destruct (step_clear ck ok s cb (reach_inv ck ok s R))
      as (log & order & _ & _ & _ & H4 & _ & I').
    eexists; eexists. split; [exact H4|]. split; [reflexivity|apply (inv_nobad ck _ I')].
  Qed.
End Map.

(** Non-vacuity: the second and the fourth request fail; the map holds what
    the successful inserts put in, and a final clear leaves no live block. *)
Example C16_map_example :
  let st := MapModel.step (ck_mod 0) (script_oracle [1; 3]%nat None) in
  match run st m_init [MInsert 2 0 true; MInsert 0 1 true; MInsert 0 2 true; MInsert 1 3 false;
                       MInsert 1 0 true; MFind 0; MSize; MClear false; MLive] with
  | (Done s _, outs) =>
    live (mal s) = [] /\
    outs = [[0; 2; 0; 1]; [-1; -1; -1; 0]; [0; 0; 2; 1]; [-1]; [0; 1; 0; 1]; [0; 2; 1]; [3]; []; [0]]
  | _ => False
  end.
Proof. vm_compute. split; reflexivity. Qed.

Print Assumptions C16_map_insert_failure.
Print Assumptions C16_map_insert_existing_needs_no_memory.
Print Assumptions C16_map_no_leak_no_double_free.
Print Assumptions C16_map_clear_releases_everything.

(** * vector (src/vector.c; model VectorModel.v, proofs VectorProofs.v) and
    strings (src/_string.c; StrModel.v, StrProofs.v).  The statements are the
    ones of Properties_C09.v / Properties_C10.v specialised to a refused
    allocation; [refused]/[grow_fails] say that the byte count is not
    representable or that the allocator oracle (any oracle) turns the request
    down. *)
Require Cstl.Properties_C09 Cstl.Properties_C10.
Module VS.
Import VectorModel VectorProofs StrModel StrProofs.
Local Open Scope N_scope.
Section VecStr.
  Variable ok : nat -> N -> bool.

  (** a reserve that cannot be satisfied is the identity on the vector and on
      the set of live blocks *)
  Theorem C16_vector_reserve_refused al v sz :
    alloc_ok al -> no_bad_free al -> vec_ok al v -> refused ok al v sz ->
    exists al', reserve ok false al v sz = Ok (al', v) /\ live al' = live al.
  Proof. exact (Properties_C09.C09_reserve_refused_is_identity ok al v sz). Qed.

  (** the same for shrink_to_fit *)
  Theorem C16_vector_shrink_refused al v :
    alloc_ok al -> no_bad_free al -> vec_ok al v -> refused ok al v (count v) ->
    exists al', shrink_to_fit ok false al v = Ok (al', v) /\ live al' = live al.
  Proof. exact (Properties_C09.C09_shrink_refused_is_identity ok al v). Qed.

  (** resize aborts exactly when the capacity is short and the growth refused *)
  Theorem C16_vector_resize_aborts_iff al v sz :
    alloc_ok al -> no_bad_free al -> vec_ok al v ->
    (resize ok false al v sz = Abt <-> cap v < sz /\ refused ok al v sz).
  Proof. exact (Properties_C09.C09_resize_aborts_iff ok al v sz). Qed.

  (** whatever failed along the way, clearing every vector leaves no live block *)
  Theorem C16_vector_no_leak shape s :
    Forall (fun p => 1 <= fst (fst p)) shape ->
    reach (VectorModel.step ok false) (sys_init shape) s ->
    match fst (run (VectorModel.step ok false) s (map Clear (seq 0 (length (vecs s))))) with
    | Done s' _ => live (heap s') = []
    | _ => False
    end.
  Proof. exact (Properties_C09.C09_clear_all_no_leak ok shape s). Qed.

  (** string growth that cannot be satisfied aborts (never faults, never
      returns), for every representable request *)
  Theorem C16_string_resize_aborts_iff al v n :
    alloc_ok al -> no_bad_free al -> str_ok al v -> n < W64 ->
    (s_resize ok false al v n = Abt <-> grow_fails ok al v n).
  Proof. exact (Properties_C10.C10_resize_aborts_iff ok al v n). Qed.

  (** string reserve never changes the string, refused or not, and never aborts *)
  Theorem C16_string_reserve al v n :
    alloc_ok al -> no_bad_free al -> str_ok al v ->
    match s_reserve ok false al v n with
    | Ok (al', v') => sabs v' = sabs v /\ count v' = count v /\ (v' = v \/ cap v' = wrap64 (n + 1))
    | Abt => False
    | Flt => False
    end.
  Proof.
    intros A NB S. pose proof (Properties_C10.C10_reserve ok al v n A NB S) as H.
    destruct (s_reserve ok false al v n) as [[al' v']| |]; auto. tauto.
  Qed.
End VecStr.
Print Assumptions C16_vector_reserve_refused.
Print Assumptions C16_vector_shrink_refused.
Print Assumptions C16_vector_resize_aborts_iff.
Print Assumptions C16_vector_no_leak.
Print Assumptions C16_string_resize_aborts_iff.
Print Assumptions C16_string_reserve.
End VS.
