(** Executable model of src/vector.c (C09, basis of C10).

    A vector object is the C structure field by field: the installed buffer
    [base] (a block id of AllocModel, [None] = NULL), the element size, the
    two optional callbacks (only their presence matters), the redundant
    fields [count] and [cap] exactly as the C code updates them, and the
    contents of the elements at indices [0, count) as a list of element
    values ("tags": the drivers write a recognisable byte pattern per tag).
    That [length elems = count], [count <= cap] and that the block is large
    enough for [cap + 1] elements are theorems (VectorProofs.v), not
    definitions.

    [size_t] values are [N]; every C operation that can wrap is written
    with [wrap64].  Every access to element storage (by a callback, by the
    user through the pointer returned by cstl_vector_at, by sort/reverse)
    goes through [slot], which computes the address as the C code does
    (base + i * size modulo 2^64) and checks it against the size of the live
    block: outside it, the access is [Flt] (undefined behaviour).

    The functions follow the REPAIRED code (fixes/F8-*.patch); with
    [v0 = true] they are the code as found. *)
From Cstl Require Import Prelude AllocModel.
Local Open Scope N_scope.

Definition W64 : N := 18446744073709551616.        (* 2^64 *)
Definition SIZE_MAX : N := 18446744073709551615.
Definition wrap64 (x : N) : N := x mod W64.
(** a - b on size_t, for a, b < 2^64 *)
Definition sub64 (a b : N) : N := (a + W64 - b) mod W64.

(** value of an element that entered [0, count) without a constructor: its
    bytes are indeterminate in C; the driver fills such elements (and all
    storage in [count, cap]) with this pattern after every call *)
Definition POISON : N := 190.
(** value written by the constructor callback of the driver *)
Definition CTORV : N := 193.

Inductive res (A : Type) := Ok (a : A) | Abt | Flt.
Arguments Ok {A} a.
Arguments Abt {A}.
Arguments Flt {A}.

Record vec := mkVec {
  base : option nat;
  esize : N;
  xcons : bool;          (* elem.xtor.cons != NULL *)
  xdest : bool;          (* elem.xtor.dest != NULL *)
  count : N;
  cap : N;
  elems : list N
}.

Definition vec_init (es : N) (c d : bool) : vec := mkVec None es c d 0 0 [].

Definition set_elems (v : vec) (l : list N) : vec :=
  mkVec (base v) (esize v) (xcons v) (xdest v) (count v) (cap v) l.
Definition set_count (v : vec) (c : N) (l : list N) : vec :=
  mkVec (base v) (esize v) (xcons v) (xdest v) c (cap v) l.

(** constructor / destructor calls: index (computed from the pointer the
    callback received) and, for the destructor, the value it found *)
Inductive xev := XCons (i : N) | XDest (i : N) (x : N).

(** size of the live block installed as [base] *)
Definition blk (al : alloc) (v : vec) : option N :=
  match base v with
  | None => None
  | Some b => block_size al b
  end.

(** __cstl_vector_at(v, i) dereferenced: [Some k] = the access lands on the
    k-th element-sized cell of the live block; [None] = outside it *)
Definition slot (al : alloc) (v : vec) (i : N) : option nat :=
  match blk al v with
  | None => None
  | Some bs =>
    let off := wrap64 (i * esize v) in
    if (off mod esize v =? 0) && (off + esize v <=? bs)
    then Some (N.to_nat (off / esize v)) else None
  end.

(** [cnt] consecutive cells starting at cell index [i] lie in the block *)
Definition range_ok (al : alloc) (v : vec) (i cnt : N) : bool :=
  match blk al v with
  | None => false
  | Some bs =>
    let off := wrap64 (i * esize v) in
    (off mod esize v =? 0) && (off + cnt * esize v <=? bs)
  end.
Definition cell (v : vec) (i : N) : nat := N.to_nat (wrap64 (i * esize v) / esize v).

(** cells at or beyond [count] hold POISON (driver convention); writes to
    them are dead stores as far as the contents [0, count) are concerned *)
Definition rd (al : alloc) (v : vec) (i : N) : res N :=
  match slot al v i with
  | Some k => Ok (nth k (elems v) POISON)
  | None => Flt
  end.
Definition wr (al : alloc) (v : vec) (i : N) (x : N) : res vec :=
  match slot al v i with
  | Some k => Ok (set_elems v (upd (elems v) k x))
  | None => Flt
  end.

Fixpoint lwrite (l : list N) (i : nat) (xs : list N) : list N :=
  match xs with
  | [] => l
  | x :: r => lwrite (upd l i x) (S i) r
  end.
Definition lread (l : list N) (i n : nat) : list N :=
  map (fun k => nth (i + k) l POISON) (seq 0 n).

(** insertion sort on element values, standing for "a sorted permutation";
    equal values are indistinguishable, so every correct sort gives this *)
Fixpoint insert_sorted (x : N) (l : list N) : list N :=
  match l with
  | [] => [x]
  | y :: r => if x <=? y then x :: l else y :: insert_sorted x r
  end.
Fixpoint isort (l : list N) : list N :=
  match l with
  | [] => []
  | x :: r => insert_sorted x (isort r)
  end.

Section Vec.
  Variable ok : nat -> N -> bool.   (* allocator oracle *)
  Variable v0 : bool.               (* true: code as found (F8) *)

  (** the byte count (sz + 1) * size is representable in size_t *)
  Definition representable (sz es : N) : bool :=
    (sz <? SIZE_MAX) && ((es =? 0) || (sz + 1 <=? SIZE_MAX / es)).

  (** cstl_vector_set_capacity *)
  Definition set_capacity (al : alloc) (v : vec) (sz : N) : res (alloc * vec) :=
    if negb v0 && negb (representable sz (esize v)) then Ok (al, v) else
    if match base v with Some b => is_live al b | None => true end then
      let '(al', r) := realloc ok al (base v) (wrap64 (wrap64 (sz + 1) * esize v)) in
      match r with
      | Some nb => Ok (al', mkVec (Some nb) (esize v) (xcons v) (xdest v) (count v) sz (elems v))
      | None => Ok (al', v)
      end
    else Flt.       (* realloc of a pointer that is not a live block *)

  Definition reserve (al : alloc) (v : vec) (sz : N) : res (alloc * vec) :=
    if cap v <? sz then set_capacity al v sz else Ok (al, v).

  Definition shrink_to_fit (al : alloc) (v : vec) : res (alloc * vec) :=
    if count v <? cap v then set_capacity al v (count v) else Ok (al, v).

  (** do { xtor(__cstl_vector_at(v, v->count++), priv); } while (v->count < sz);
      [n] = number of iterations *)
  Fixpoint cons_loop (n : nat) (al : alloc) (v : vec) (log : list xev) : res (vec * list xev) :=
    match n with
    | O => Ok (v, log)
    | S n' =>
      let i := count v in
      match slot al v i with
      | None => Flt
      | Some _ => cons_loop n' al (set_count v (i + 1) (elems v ++ [CTORV])) (XCons i :: log)
      end
    end.

  (** do { xtor(__cstl_vector_at(v, --v->count), priv); } while (v->count > sz); *)
  Fixpoint dest_loop (n : nat) (al : alloc) (v : vec) (log : list xev) : res (vec * list xev) :=
    match n with
    | O => Ok (v, log)
    | S n' =>
      let i := count v - 1 in
      match rd al v i with
      | Ok x => dest_loop n' al (set_count v i (firstn (N.to_nat i) (elems v))) (XDest i x :: log)
      | _ => Flt
      end
    end.

  Definition resize_list (l : list N) (n : nat) : list N :=
    firstn n l ++ repeat POISON (n - length l).

  (** cstl_vector_resize; the callback log is returned oldest first *)
  Definition resize (al : alloc) (v : vec) (sz : N) : res (alloc * vec * list xev) :=
    match reserve al v sz with
    | Ok (al1, v1) =>
      if cap v1 <? sz then Abt else
      let c := count v1 in
      let xtor := if c <? sz then xcons v1 else if sz <? c then xdest v1 else false in
      if negb xtor then Ok (al1, set_count v1 sz (resize_list (elems v1) (N.to_nat sz)), [])
      else
        match (if c <? sz then cons_loop (N.to_nat (sz - c)) al1 v1 []
               else dest_loop (N.to_nat (c - sz)) al1 v1 []) with
        | Ok (v2, log) => Ok (al1, v2, rev log)
        | Abt => Abt
        | Flt => Flt
        end
    | Abt => Abt
    | Flt => Flt
    end.

  (** cstl_vector_clear *)
  Definition clear (al : alloc) (v : vec) : res (alloc * vec * list xev) :=
    match resize al v 0 with
    | Ok (al1, v1, log) =>
      if match base v1 with Some b => is_live al1 b | None => true end then
        Ok (free al1 (base v1),
            mkVec None (esize v1) (xcons v1) (xdest v1) (count v1) 0 (elems v1), log)
      else Flt      (* free of a pointer that is not a live block *)
    | Abt => Abt
    | Flt => Flt
    end.

  (** cstl_vector_at: the byte offset of the returned pointer from base *)
  Definition at_ (v : vec) (i : N) : res N :=
    if count v <=? i then Abt else Ok (wrap64 (i * esize v)).

  (** *(T * )cstl_vector_at(v, i) = x *)
  Definition put (al : alloc) (v : vec) (i x : N) : res vec :=
    if count v <=? i then Abt else wr al v i x.

  (** cstl_vector_sort / cstl_vector_reverse: permute [0, count) using the
      cell at index [cap] as scratch (the algorithms are property C11) *)
  Definition scratch_ok (al : alloc) (v : vec) : bool :=
    match slot al v (count v - 1), slot al v (cap v) with
    | Some _, Some _ => true
    | _, _ => false
    end.
  Definition sort (al : alloc) (v : vec) : res vec :=
    if 1 <? count v then
      if scratch_ok al v then Ok (set_elems v (isort (elems v))) else Flt
    else Ok v.
  Definition reverse (al : alloc) (v : vec) : res vec :=
    if 1 <? count v then
      if scratch_ok al v then Ok (set_elems v (rev (elems v))) else Flt
    else Ok v.
End Vec.

(** * The scripted system: a family of vector objects over one allocator *)

Inductive op :=
| Reserve (v : nat) (n : N) | Shrink (v : nat) | Resize (v : nat) (n : N) | Clear (v : nat)
| At (v : nat) (i : N) | Put (v : nat) (i x : N)
| Swap (a b : nat) | Sort (v : nat) | Reverse (v : nat).

Record sys := mkSys { vecs : list vec; heap : alloc }.

Definition sys_init (shape : list (N * bool * bool)) : sys :=
  mkSys (map (fun p => vec_init (fst (fst p)) (snd (fst p)) (snd p)) shape) alloc_init.

Definition xev_out (e : xev) : list Z :=
  match e with
  | XCons i => [1; Z.of_N i]
  | XDest i x => [2; Z.of_N i; Z.of_N x]
  end%Z.

Definition INT_MAX : N := 2147483647.

Section Step.
  Variable ok : nat -> N -> bool.
  Variable v0 : bool.

  Definition with_vec (s : sys) (i : nat) (f : vec -> outcome sys) : outcome sys :=
    match nth_error (vecs s) i with
    | None => Precond
    | Some v => f v
    end.

  Definition lift2 (s : sys) (i : nat) (r : res (alloc * vec)) : outcome sys :=
    match r with
    | Ok (al, v) => Done (mkSys (upd (vecs s) i v) al) []
    | Abt => Abort
    | Flt => Fault
    end.
  Definition lift3 (s : sys) (i : nat) (r : res (alloc * vec * list xev)) : outcome sys :=
    match r with
    | Ok (al, v, log) => Done (mkSys (upd (vecs s) i v) al) (flat_map xev_out log)
    | Abt => Abort
    | Flt => Fault
    end.
  Definition lift1 (s : sys) (i : nat) (r : res vec) : outcome sys :=
    match r with
    | Ok v => Done (mkSys (upd (vecs s) i v) (heap s)) []
    | Abt => Abort
    | Flt => Fault
    end.

  Definition step (s : sys) (o : op) : outcome sys :=
    match o with
    | Reserve i n => with_vec s i (fun v => lift2 s i (reserve ok v0 (heap s) v n))
    | Shrink i => with_vec s i (fun v => lift2 s i (shrink_to_fit ok v0 (heap s) v))
    | Resize i n => with_vec s i (fun v => lift3 s i (resize ok v0 (heap s) v n))
    | Clear i => with_vec s i (fun v => lift3 s i (clear ok v0 (heap s) v))
    | At i k => with_vec s i (fun v =>
        match at_ v k with
        | Ok off => Done s [Z.of_N off]
        | Abt => Abort
        | Flt => Fault
        end)
    | Put i k x => with_vec s i (fun v => lift1 s i (put (heap s) v k x))
    | Swap a b =>
      if Nat.eqb a b then Precond else
      with_vec s a (fun va => with_vec s b (fun vb =>
        Done (mkSys (upd (upd (vecs s) a vb) b va) (heap s)) []))
    | Sort i => with_vec s i (fun v => lift1 s i (sort (heap s) v))
    | Reverse i => with_vec s i (fun v =>
        (* cstl_raw_array_reverse indexes with int: counts above INT_MAX are
           outside C09 (finding F11 of C11) *)
        if INT_MAX <? count v then Precond else lift1 s i (reverse (heap s) v))
    end.
End Step.

(** Observable dump of one vector: size, capacity, element size, block id
    and block size of the buffer (-1 -1 if none), then the elements. *)
Definition dump (al : alloc) (v : vec) : list Z :=
  Z.of_N (count v) :: Z.of_N (cap v) :: Z.of_N (esize v) :: zopt (base v)
  :: match blk al v with Some bs => Z.of_N bs | None => znull end
  :: map Z.of_N (elems v).
