(** Proofs about the red-black part of TreeModel.v (C02): the red-black
    rules are preserved by insert and erase as coded, no unchecked
    dereference faults, height bound. *)
From Cstl Require Import Prelude TreeModel TreeProofs.

(** * The rules *)

(** [rbt t n]: no red node of [t] has a red child and every path from the
    root of [t] to a missing child crosses [n] black nodes *)
Fixpoint rbt (t : tree) (n : nat) : Prop :=
  match t with
  | E => n = O
  | T Red l _ r => col l = Black /\ col r = Black /\ rbt l n /\ rbt r n
  | T Black l _ r => match n with O => False | S m => rbt l m /\ rbt r m end
  end.

Definition rb_inv (t : tree) : Prop := col t = Black /\ exists n, rbt t n.

(** the three rules one by one, as the header documents them *)
Definition root_black (t : tree) : Prop := col t = Black.
Fixpoint no_red_red (t : tree) : Prop :=
  match t with
  | E => True
  | T c l _ r => (c = Red -> col l = Black /\ col r = Black) /\ no_red_red l /\ no_red_red r
  end.
Fixpoint black_height (t : tree) (n : nat) : Prop :=
  match t with
  | E => n = O
  | T c l _ r => exists m, n = (match c with Black => S m | Red => m end)
                           /\ black_height l m /\ black_height r m
  end.

Lemma rbt_rules t : forall n, rbt t n <-> no_red_red t /\ black_height t n.
Proof.
  induction t as [|c l IHl x r IHr]; intros n; cbn.
  - tauto.
  - destruct c.
    + rewrite IHl, IHr. split.
      * intros (Hl & Hr & (Nl & Bl) & (Nr & Br)). repeat split; auto. exists n; auto.
      * intros ((Hc & Nl & Nr) & m & -> & Bl & Br). destruct (Hc eq_refl). tauto.
    + destruct n as [|m].
      * split; [tauto|]. intros (_ & m & Hm & _). discriminate.
      * rewrite IHl, IHr. split.
        -- intros ((Nl & Bl) & (Nr & Br)). repeat split; auto; try discriminate. exists m; auto.
        -- intros ((_ & Nl & Nr) & m' & [= ->] & Bl & Br). tauto.
Qed.

Lemma rb_inv_rules t :
  rb_inv t <-> root_black t /\ no_red_red t /\ exists n, black_height t n.
Proof.
  unfold rb_inv, root_black. split.
  - intros (Hc & n & H). apply rbt_rules in H. split; auto. split; [tauto|]. exists n; tauto.
  - intros (Hc & Hn & n & H). split; auto. exists n. apply rbt_rules; auto.
Qed.

Lemma rb_inv_E : rb_inv E.
Proof. split; auto. exists O; reflexivity. Qed.

(** * Contexts *)

(** a red parent (or the root position) forces the subtree below to be black *)
Definition must_black (c : ctx) : bool :=
  match c with
  | [] => true
  | f :: _ => match fc f with Red => true | Black => false end
  end.

(** [cinv c n]: the context is a red-black tree with a hole that expects a
    subtree of black height [n] *)
Fixpoint cinv (c : ctx) (n : nat) : Prop :=
  match c with
  | [] => True
  | f :: c' =>
    rbt (fs f) n /\
    match fc f with
    | Red => col (fs f) = Black /\ must_black c' = false /\ cinv c' n
    | Black => cinv c' (S n)
    end
  end.

Definition zinv (c : ctx) (t : tree) : Prop :=
  exists n, cinv c n /\ rbt t n /\ (must_black c = true -> col t = Black).

Lemma rbt_mk d k a x b n :
  rbt (mk d k a x b) n <->
  match k with
  | Red => col a = Black /\ col b = Black /\ rbt a n /\ rbt b n
  | Black => match n with O => False | S m => rbt a m /\ rbt b m end
  end.
Proof. destruct d, k; cbn; try destruct n; tauto. Qed.

Lemma col_mk d k a x b : col (mk d k a x b) = k.
Proof. destruct d; reflexivity. Qed.

Lemma blacken_id t : col t = Black -> blacken t = t.
Proof. destruct t as [|[] ? ? ?]; cbn; congruence. Qed.

Lemma col_blacken t : col (blacken t) = Black.
Proof. destruct t; reflexivity. Qed.

Lemma rbt_blacken t n : rbt t n -> exists m, rbt (blacken t) m.
Proof.
  destruct t as [|[] l x r]; cbn.
  - intros ->. exists O; auto.
  - intros (_ & _ & Hl & Hr). exists (S n). auto.
  - intros H. exists n. auto.
Qed.

Lemma rbt_blacken_red t n : is_red t = true -> rbt t n -> rbt (blacken t) (S n).
Proof. destruct t as [|[] l x r]; cbn; try discriminate. tauto. Qed.

Lemma is_red_col t : is_red t = false <-> col t = Black.
Proof. destruct t as [|[] ? ? ?]; cbn; split; congruence. Qed.
Lemma is_red_col_t t : is_red t = true <-> col t = Red.
Proof. destruct t as [|[] ? ? ?]; cbn; split; congruence. Qed.

Lemma plug_rb c : forall t n,
  cinv c n -> rbt t n -> (must_black c = true -> col t = Black) -> rb_inv (plug c t).
Proof.
  induction c as [|f c IH]; intros t n Hc Ht Hm; cbn [plug].
  - split; auto. exists n; auto.
  - cbn [cinv] in Hc. destruct Hc as (Hs & Hc). unfold plug1.
    cbn [must_black] in Hm. destruct (fc f) eqn:Ef.
    + destruct Hc as (Hcs & Hmb & Hc). apply (IH _ n); auto.
      * apply rbt_mk. auto.
      * rewrite Hmb. discriminate.
    + apply (IH _ (S n)); auto.
      * apply rbt_mk. auto.
      * intros _. apply col_mk.
Qed.

Lemma zinv_plug c t : zinv c t -> rb_inv (plug c t).
Proof. intros (n & Hc & Ht & Hm). eapply plug_rb; eauto. Qed.

Lemma zinv_root t : rb_inv t <-> zinv [] t.
Proof.
  unfold rb_inv, zinv. cbn. split.
  - intros (Hc & n & H). exists n. auto.
  - intros (n & _ & H & Hc). split; auto. exists n; auto.
Qed.

Lemma zinv_down c k l y r :
  zinv c (T k l y r) -> zinv (mkF Lf k y r :: c) l /\ zinv (mkF Rt k y l :: c) r.
Proof.
  intros (n & Hc & Ht & Hm). destruct k; cbn in Ht.
  - destruct Ht as (Hl & Hr & Rl & Rr).
    assert (Hb : must_black c = false).
    { destruct (must_black c); auto. specialize (Hm eq_refl). discriminate. }
    split; exists n; cbn; auto 10.
  - destruct n as [|m]; [tauto|]. destruct Ht as (Rl & Rr).
    split; exists m; cbn; repeat split; auto; discriminate.
Qed.

(** the element stored in a node is irrelevant *)
Lemma zinv_elem c k l y y' r : zinv c (T k l y r) -> zinv c (T k l y' r).
Proof. intros (n & Hc & Ht & Hm). exists n. auto. Qed.

Lemma zinv_descend x t : forall c, zinv c t -> zinv (descend x t c) E.
Proof.
  induction t as [|k l IHl y r IHr]; intros c H; cbn [descend]; auto.
  destruct (zinv_down _ _ _ _ _ H). destruct (_ <? _)%Z; auto.
Qed.

Lemma zinv_find k t : forall c sub c', zinv c t -> find_ctx k t c = (sub, c') -> zinv c' sub.
Proof.
  induction t as [|kk l IHl y r IHr]; intros c sub c' H; cbn [find_ctx].
  - intros [= <- <-]; auto.
  - destruct (zinv_down _ _ _ _ _ H). destruct (_ =? _)%Z.
    + intros [= <- <-]; auto.
    + destruct (_ <? _)%Z; eauto.
Qed.

Lemma zinv_slide l : forall k y r c yc ye yr c1,
  zinv c (T k l y r) -> slide k l y r c = (yc, ye, yr, c1) -> zinv c1 (T yc E ye yr).
Proof.
  induction l as [|lk ll IHl ly lr _]; intros k y r c yc ye yr c1 H; cbn [slide].
  - intros [= <- <- <- <-]; auto.
  - intros Hs. destruct (zinv_down _ _ _ _ _ H) as (Hl & _). eapply IHl; eauto.
Qed.

Lemma slide_app l : forall k y r c,
  slide k l y r c = let '(yc, ye, yr, inner) := slide k l y r [] in (yc, ye, yr, inner ++ c).
Proof.
  induction l as [|lk ll IHl ly lr _]; intros k y r c; cbn [slide]; auto.
  rewrite IHl. rewrite (IHl lk ly lr [_]).
  destruct (slide lk ll ly lr []) as [[[yc ye] yr] inner]. rewrite <- app_assoc. reflexivity.
Qed.

(** * Insert fix-up *)

Lemma dir_eqb_refl d : dir_eqb d d = true.
Proof. destruct d; reflexivity. Qed.

Lemma red_shape t : col t = Red -> exists l x r, t = T Red l x r.
Proof. destruct t as [|[] l x r]; cbn; try discriminate. eauto. Qed.
Lemma black_shape t n : col t = Black -> rbt t (S n) -> exists l x r, t = T Black l x r.
Proof. destruct t as [|[] l x r]; cbn; try discriminate. eauto. Qed.

Lemma fix_ins_ok : forall m c, (length c <= m)%nat -> forall x n,
  rbt x n -> col x = Red -> cinv c n ->
  exists t', fix_ins x c = Some t' /\ rb_inv (blacken t').
Proof.
  induction m as [|m IH]; intros c Hlen x n Hx Hr Hc.
  { destruct c; [|cbn in Hlen; lia]. cbn. eexists; split; eauto.
    split; [apply col_blacken|]. apply (rbt_blacken _ _ Hx). }
  destruct c as [|p up].
  { cbn. eexists; split; eauto. split; [apply col_blacken|]. apply (rbt_blacken _ _ Hx). }
  cbn [fix_ins]. destruct p as [pd pc pe ps]. cbn [fc]. destruct pc.
  2:{ eexists; split; eauto.
      assert (R : rb_inv (plug (mkF pd Black pe ps :: up) x)).
      { eapply plug_rb; eauto. cbn. discriminate. }
      rewrite blacken_id; auto. apply R. }
  cbn in Hc. destruct Hc as (Hps & Hcs & Hmb & Hc).
  destruct up as [|g up']; [discriminate|].
  destruct g as [d gc ge y]. cbn in Hmb. destruct gc; [discriminate|].
  cbn in Hc. destruct Hc as (Hy & Hc). cbn [fd fs fe fc recolour].
  destruct (is_red y) eqn:Ey.
  - (* uncle red: recolour, two levels up *)
    apply (IH up') with (n := S n); [cbn in Hlen; lia| | |auto].
    + apply rbt_mk. rewrite col_blacken. unfold plug1. cbn [fd fc fe fs recolour]. rewrite col_mk.
      repeat split; auto.
      * apply rbt_mk. auto.
      * apply rbt_blacken_red; auto.
    + apply col_mk.
  - (* uncle black: rotations *)
    apply is_red_col in Ey.
    destruct (red_shape _ Hr) as (xl & xe & xr & ->). cbn in Hx.
    destruct Hx as (Hxl & Hxr & Rxl & Rxr).
    assert (K : forall t, rbt t (S n) -> col t = Black ->
                exists t', Some (plug up' t) = Some t' /\ rb_inv (blacken t')).
    { intros t Rt Ct. eexists; split; eauto.
      assert (R : rb_inv (plug up' t)) by (eapply plug_rb; eauto).
      rewrite blacken_id; auto. apply R. }
    destruct pd, d; cbn; apply K; cbn; auto 10.
Qed.

Lemma rb_insert_ok c x :
  zinv c E -> exists t', fix_ins (T Red E x E) c = Some t' /\ rb_inv (blacken t').
Proof.
  intros (n & Hc & Hn & _). cbn in Hn. subst n.
  eapply fix_ins_ok; eauto. cbn; auto.
Qed.

(** * Erase fix-up *)

Lemma del_cases_ok d x pc pe wa we wb n :
  rbt x n -> col x = Black -> rbt (mk d Black wa we wb) (S n) ->
  match del_cases d x pc pe (mk d Black wa we wb) with
  | DFault => False
  | Up t => col t = pc /\ rbt (blacken t) (S n)
  | Fin t => col t = pc /\ rbt t (match pc with Red => S n | Black => S (S n) end)
  end.
Proof.
  intros Hx Cx Hw. apply rbt_mk in Hw. destruct Hw as (Ha & Hb).
  destruct wa as [|[] al ae ar], wb as [|[] bl be br], d, pc; cbn in *;
    intuition (subst; auto; try discriminate).
Qed.

Lemma unmk_mk d t k a e b : unmk d t = Some (k, a, e, b) -> t = mk d k a e b.
Proof. destruct t as [|c l x r]; cbn; [discriminate|]. destruct d; intros [= -> -> -> ->]; reflexivity. Qed.

Lemma fix_del_ok c : forall x n,
  rbt x n -> cinv c (S n) -> exists t', fix_del x c = Some t' /\ rb_inv t'.
Proof.
  induction c as [|p up IH]; intros x n Hx Hc; cbn [fix_del].
  { eexists; split; eauto. split; [apply col_blacken|]. apply (rbt_blacken _ _ Hx). }
  destruct (is_red x) eqn:Ex.
  { eexists; split; eauto. eapply plug_rb; eauto.
    - apply rbt_blacken_red; auto.
    - intros _. apply col_blacken. }
  apply is_red_col in Ex.
  destruct p as [pd pc pe w]. cbn [fd fc fe fs]. cbn [cinv fs fc] in Hc. destruct Hc as (Hw & Hc).
  assert (Ed : (match x with
                | E => if isE (match pd with Lf => E | Rt => w end) then Lf else Rt
                | T _ _ _ _ => pd end) = pd).
  { destruct x; auto. destruct pd; auto. destruct w; cbn in Hw; [discriminate|reflexivity]. }
  rewrite Ed, dir_eqb_refl. cbn [negb].
  destruct (unmk pd w) as [[[[wc wa] we] wb]|] eqn:Ew.
  2:{ destruct w; cbn in *; discriminate. }
  apply unmk_mk in Ew. subst w. destruct wc.
  - (* red sibling: parent is black *)
    rewrite col_mk in Hc. destruct pc; [destruct Hc; discriminate|].
    apply rbt_mk in Hw. destruct Hw as (Ca & Cb & Ra & Rb).
    destruct (black_shape _ _ Ca Ra) as (l1 & e1 & r1 & E1).
    assert (E2 : wa = mk pd Black (match pd with Lf => l1 | Rt => r1 end) e1
                                  (match pd with Lf => r1 | Rt => l1 end)).
    { subst wa. destruct pd; reflexivity. }
    rewrite E2. rewrite E2 in Ra.
    pose proof (del_cases_ok pd x Red pe _ e1 _ n Hx Ex Ra) as D.
    destruct (del_cases _ _ _ _ _) as [t|t|]; [| |tauto]; destruct D as (Ct & Rt).
    + eexists; split; eauto. eapply (plug_rb _ _ (S n)); cbn; auto.
      * discriminate.
    + eexists; split; eauto.
      assert (R : rb_inv (plug (mkF pd Black we wb :: up) t)).
      { eapply (plug_rb _ _ (S n)); cbn; auto. discriminate. }
      rewrite blacken_id; auto. apply R.
  - (* black sibling *)
    pose proof (del_cases_ok pd x pc pe _ _ _ n Hx Ex Hw) as D.
    destruct (del_cases _ _ _ _ _) as [t|t|]; [| |tauto]; destruct D as (Ct & Rt).
    + destruct pc.
      * (* red parent: t is red, the loop ends and blackens it *)
        destruct Hc as (_ & Hmb & Hc).
        assert (Er : is_red t = true) by (apply is_red_col_t; auto).
        destruct up as [|g up']; cbn [fix_del]; [discriminate|]. rewrite Er.
        eexists; split; eauto. eapply plug_rb; eauto.
        rewrite Hmb; discriminate.
      * rewrite blacken_id in Rt by auto. eapply IH; eauto.
    + eexists; split; eauto.
      assert (R : rb_inv (plug up t)).
      { destruct pc.
        - destruct Hc as (_ & Hmb & Hc). eapply plug_rb; eauto. rewrite Hmb; discriminate.
        - eapply plug_rb; eauto. }
      rewrite blacken_id; auto. apply R.
Qed.

(** erase of the node (yc, E-or-one-child, ye, x) sitting at the hole *)
Lemma erase_tail_ok hole yc yl ye x :
  zinv hole (T yc yl ye x) -> yl = E \/ x = E ->
  forall x', x' = (match yl with E => x | _ => yl end) ->
  exists t', match yc with Red => Some (plug hole x') | Black => fix_del x' hole end = Some t'
             /\ rb_inv t'.
Proof.
  intros (n & Hc & Ht & Hm) Hor x' ->. destruct yc; cbn in Ht.
  - destruct Ht as (Cl & Cx & Rl & Rx). eexists; split; eauto.
    eapply plug_rb; eauto.
    + destruct yl; auto.
    + intros _. destruct yl; auto.
  - destruct n as [|m]; [tauto|]. destruct Ht as (Rl & Rx).
    eapply fix_del_ok; eauto. destruct yl; auto.
Qed.

Lemma rb_erase_at_ok nc nl ne nr c :
  zinv c (T nc nl ne nr) -> exists t', rb_erase_at nc nl ne nr c = Some t' /\ rb_inv t'.
Proof.
  intros H. unfold rb_erase_at, erase_zip.
  destruct nl as [|lk ll le lr].
  - (* no left child *)
    cbn [z_col z_x z_inner z_y hole_ctx option_map app].
    apply (erase_tail_ok c nc E ne nr H); auto.
  - destruct nr as [|rk rl ry rr].
    + cbn [z_col z_x z_inner z_y hole_ctx option_map app].
      apply (erase_tail_ok c nc (T lk ll le lr) ne E H); auto.
    + (* two children: the successor *)
      destruct (slide rk rl ry rr []) as [[[yc ye] yr] inner] eqn:Es.
      cbn [z_col z_x z_inner z_y hole_ctx option_map recolour fd fe fs].
      apply (zinv_elem _ _ _ _ ye) in H.
      destruct (zinv_down _ _ _ _ _ H) as (_ & Hr).
      assert (Es' : slide rk rl ry rr (mkF Rt nc ye (T lk ll le lr) :: c)
                    = (yc, ye, yr, inner ++ mkF Rt nc ye (T lk ll le lr) :: c)).
      { rewrite slide_app, Es. reflexivity. }
      pose proof (zinv_slide _ _ _ _ _ _ _ _ _ Hr Es') as Hy.
      apply (erase_tail_ok _ yc E ye yr Hy); auto.
Qed.

Theorem rb_insert_inv t x : rb_inv t -> exists t', rb_insert t x = Some t' /\ rb_inv t'.
Proof.
  intros H. apply zinv_root in H. unfold rb_insert.
  destruct (rb_insert_ok (descend x t []) x) as (t' & E1 & R); [apply zinv_descend; auto|].
  rewrite E1. eauto.
Qed.

Theorem rb_erase_inv t k :
  rb_inv t -> exists r t', rb_erase t k = Some (r, t') /\ rb_inv t'.
Proof.
  intros H. unfold rb_erase. destruct (find_ctx k t []) as [sub c] eqn:Ef.
  pose proof (zinv_find _ _ _ _ _ (proj1 (zinv_root t) H) Ef) as Hz.
  destruct sub as [|nc nl ne nr]; [eauto|].
  destruct (rb_erase_at_ok _ _ _ _ _ Hz) as (t' & -> & R). eauto.
Qed.

(** hinted insert: the hint is some node of the tree *)
Lemma zinv_locate h t : forall c sub c', zinv c t -> locate h t c = Some (sub, c') -> zinv c' sub.
Proof.
  induction t as [|k l IHl y r IHr]; intros c sub c' H; cbn [locate]; [discriminate|].
  destruct (zinv_down _ _ _ _ _ H) as (Hl & Hr).
  destruct (Nat.eqb _ _); [intros [= <- <-]; auto|].
  destruct (locate h l _) as [[s1 c1]|] eqn:El.
  - intros [= <- <-]. eapply IHl; eauto.
  - intros Hf. eapply IHr; eauto.
Qed.

Theorem rb_insert_from_inv hint t x r :
  rb_inv t -> rb_insert_from hint t x = Some r -> exists t', r = Some t' /\ rb_inv t'.
Proof.
  intros H. apply zinv_root in H. unfold rb_insert_from, insert_ctx.
  destruct hint as [h|].
  - destruct (locate h t []) as [[sub c]|] eqn:El; [|discriminate].
    pose proof (zinv_locate _ _ _ _ _ H El) as Hz.
    destruct (rb_insert_ok (descend x sub c) x) as (t' & E1 & R); [apply zinv_descend; auto|].
    rewrite E1. intros [= <-]. eauto.
  - destruct (rb_insert_ok (descend x t []) x) as (t' & E1 & R); [apply zinv_descend; auto|].
    rewrite E1. intros [= <-]. eauto.
Qed.

(** * Rotations and recolourings do not change the in-order sequence *)

Lemma rotate_inorder d t t' : rotate d t = Some t' -> inorder t' = inorder t.
Proof.
  unfold rotate. destruct t as [|xc l xe r]; cbn [unmk]; [discriminate|].
  destruct d.
  - destruct r as [|yc b ye cc]; cbn [unmk]; [discriminate|]. intros [= <-]. cbn. lnorm. reflexivity.
  - destruct l as [|yc cc ye b]; cbn [unmk]; [discriminate|]. intros [= <-]. cbn. lnorm. reflexivity.
Qed.

Lemma plug_inorder_cong c a b : inorder a = inorder b -> inorder (plug c a) = inorder (plug c b).
Proof. intros H. rewrite !inorder_plug, H. reflexivity. Qed.

Lemma mk_opp d k a x b : mk (opp d) k a x b = mk d k b x a.
Proof. destruct d; reflexivity. Qed.

Lemma dir_eqb_eq a b : dir_eqb a b = true -> a = b.
Proof. destruct a, b; cbn; congruence. Qed.
Lemma dir_eqb_opp a b : dir_eqb a b = false -> a = opp b.
Proof. destruct a, b; cbn; congruence. Qed.

Lemma fix_ins_inorder : forall m c, (length c <= m)%nat -> forall x t,
  fix_ins x c = Some t -> inorder t = inorder (plug c x).
Proof.
  induction m as [|m IH]; intros c Hlen x t.
  { destruct c; [|cbn in Hlen; lia]. cbn. intros [= <-]; auto. }
  destruct c as [|p up]; [cbn; intros [= <-]; auto|].
  cbn [fix_ins]. destruct p as [pd pc pe ps]. cbn [fc]. destruct pc; [|intros [= <-]; auto].
  destruct up as [|g up']; [discriminate|].
  destruct g as [d gc ge y]. cbn [fd fs fe fc recolour].
  destruct (is_red y) eqn:Ey.
  - intros H. apply (IH up') in H; [|cbn in Hlen; lia]. rewrite H. cbn [plug].
    apply plug_inorder_cong. unfold plug1. cbn [fd fc fe fs].
    rewrite !inorder_mk, inorder_blacken. destruct d, pd; reflexivity.
  - destruct (dir_eqb pd d) eqn:Ed.
    + apply dir_eqb_eq in Ed. subst pd.
      destruct (rotate (opp d) _) as [t0|] eqn:Er; [|discriminate]. intros [= <-].
      cbn [plug]. apply plug_inorder_cong. apply rotate_inorder in Er. rewrite Er.
      unfold plug1. cbn [fd fc fe fs]. rewrite !inorder_mk, inorder_setcol, !inorder_mk.
      destruct d; reflexivity.
    + apply dir_eqb_opp in Ed. subst pd.
      destruct (rotate d _) as [px|] eqn:Ep; [|discriminate].
      destruct (rotate (opp d) _) as [t0|] eqn:Er; [|discriminate]. intros [= <-].
      cbn [plug]. apply plug_inorder_cong. apply rotate_inorder in Er. rewrite Er.
      apply rotate_inorder in Ep.
      unfold plug1. cbn [fd fc fe fs]. rewrite !inorder_mk, inorder_setcol, Ep, !inorder_mk.
      destruct d; reflexivity.
Qed.

Lemma del_cases_inorder d x pc pe w :
  match del_cases d x pc pe w with
  | DFault => True
  | Up t | Fin t => inorder t = inorder (mk d pc x pe w)
  end.
Proof.
  unfold del_cases. destruct (unmk d w) as [[[[wc wa] we] wb]|] eqn:Ew; [|exact I].
  apply unmk_mk in Ew. subst w.
  destruct (negb (is_red wa) && negb (is_red wb)).
  { rewrite !inorder_mk. destruct d; reflexivity. }
  assert (K : forall w', inorder w' = inorder (mk d wc wa we wb) ->
     match match unmk d w' with
           | Some (_, wa', we', wb') =>
             if isE wb' then DFault
             else match rotate d (mk d Black x pe (mk d pc wa' we' (blacken wb'))) with
                  | Some t => Fin t | None => DFault end
           | None => DFault end with
     | DFault => True
     | Up t | Fin t => inorder t = inorder (mk d pc x pe (mk d wc wa we wb))
     end).
  { intros w' Hw'. destruct (unmk d w') as [[[[wc' wa'] we'] wb']|] eqn:Ew'; [|exact I].
    apply unmk_mk in Ew'. subst w'. destruct (isE wb'); [exact I|].
    destruct (rotate d _) as [t|] eqn:Er; [|exact I]. apply rotate_inorder in Er. rewrite Er.
    rewrite !inorder_mk in *. rewrite inorder_blacken. destruct d; rewrite <- Hw'; reflexivity. }
  destruct (is_red wb).
  - apply K. reflexivity.
  - destruct (rotate (opp d) _) as [w'|] eqn:Er; [|exact I]. apply K.
    apply rotate_inorder in Er. rewrite Er. rewrite !inorder_mk, inorder_blacken. reflexivity.
Qed.

Lemma fix_del_inorder c : forall x t, fix_del x c = Some t -> inorder t = inorder (plug c x).
Proof.
  induction c as [|p up IH]; intros x t; cbn [fix_del].
  { intros [= <-]. apply inorder_blacken. }
  destruct (is_red x).
  { intros [= <-]. apply (plug_inorder_cong (p :: up)), inorder_blacken. }
  destruct p as [pd pc pe w]. cbn [fd fc fe fs].
  match goal with |- context [dir_eqb ?d pd] => destruct (dir_eqb d pd) eqn:Ed end; [|discriminate].
  apply dir_eqb_eq in Ed. rewrite Ed. clear Ed. cbn [negb].
  destruct (unmk pd w) as [[[[wc wa] we] wb]|] eqn:Ew; [|discriminate].
  apply unmk_mk in Ew. subst w. destruct wc.
  - pose proof (del_cases_inorder pd x Red pe wa) as D.
    destruct (del_cases pd x Red pe wa) as [x'|t0|]; [| |discriminate]; intros [= <-].
    + cbn [plug]. apply plug_inorder_cong. unfold plug1. cbn [fd fc fe fs].
      rewrite !inorder_mk, inorder_blacken, D, !inorder_mk. destruct pd; lnorm; reflexivity.
    + rewrite inorder_blacken. cbn [plug]. apply plug_inorder_cong. unfold plug1. cbn [fd fc fe fs].
      rewrite !inorder_mk, D, !inorder_mk. destruct pd; lnorm; reflexivity.
  - pose proof (del_cases_inorder pd x pc pe (mk pd Black wa we wb)) as D.
    destruct (del_cases pd x pc pe _) as [x'|t0|]; [| |discriminate].
    + intros H. apply IH in H. rewrite H. cbn [plug]. apply plug_inorder_cong. exact D.
    + intros [= <-]. rewrite inorder_blacken. cbn [plug]. apply plug_inorder_cong. exact D.
Qed.

(** the red-black operations have the in-order effect of the plain ones *)
Theorem rb_insert_from_inorder hint t x t' :
  rb_insert_from hint t x = Some (Some t') ->
  exists t0, bt_insert_from hint t x = Some t0 /\ inorder t' = inorder t0.
Proof.
  unfold rb_insert_from, bt_insert_from. destruct (insert_ctx hint t x) as [c|]; [|discriminate].
  destruct (fix_ins _ c) as [t1|] eqn:Ef; [|discriminate]. intros [= <-].
  eexists; split; eauto. rewrite inorder_blacken.
  rewrite (fix_ins_inorder _ _ (le_n _) _ _ Ef). apply plug_inorder_cong. reflexivity.
Qed.

Theorem rb_insert_inorder t x t' :
  rb_insert t x = Some t' -> inorder t' = inorder (bt_insert t x).
Proof.
  unfold rb_insert, bt_insert. destruct (fix_ins _ _) as [t1|] eqn:Ef; [|discriminate].
  intros [= <-]. rewrite inorder_blacken.
  rewrite (fix_ins_inorder _ _ (le_n _) _ _ Ef). apply plug_inorder_cong. reflexivity.
Qed.

Theorem rb_erase_at_inorder nc nl ne nr c t' :
  rb_erase_at nc nl ne nr c = Some t' -> inorder t' = inorder (bt_erase_at nc nl ne nr c).
Proof.
  unfold rb_erase_at. intros H.
  assert (G : inorder t' = inorder (plug (hole_ctx (erase_zip nc nl ne nr)
                 (option_map (fun f => recolour f nc) (z_y (erase_zip nc nl ne nr))) c)
                 (z_x (erase_zip nc nl ne nr)))).
  { destruct (z_col _); [injection H as <-; reflexivity|]. apply fix_del_inorder; auto. }
  rewrite G, bt_erase_at_inorder, inorder_plug. apply erase_zip_inorder.
  destruct (z_y _); cbn; auto.
Qed.

Theorem rb_erase_inorder t k r t' :
  rb_erase t k = Some (r, t') -> r = fst (bt_erase t k) /\ inorder t' = inorder (snd (bt_erase t k)).
Proof.
  unfold rb_erase, bt_erase. destruct (find_ctx k t []) as [sub c].
  destruct sub as [|nc nl ne nr]; [intros [= <- <-]; auto|].
  destruct (rb_erase_at nc nl ne nr c) as [t1|] eqn:Ee; [|discriminate].
  intros [= <- <-]. split; auto. apply rb_erase_at_inorder; auto.
Qed.

(** * Height bound *)

Fixpoint height (t : tree) : nat :=
  match t with E => O | T _ l _ r => S (Nat.max (height l) (height r)) end.
Definition size (t : tree) : nat := length (inorder t).

Lemma rbt_height t : forall n,
  rbt t n -> (height t <= 2 * n + (if is_red t then 1 else 0))%nat /\ (2 ^ n <= size t + 1)%nat.
Proof.
  unfold size. induction t as [|c l IHl x r IHr]; intros n; cbn [rbt height inorder is_red].
  - intros ->. cbn. lia.
  - rewrite app_length. cbn [length]. destruct c.
    + intros (Cl & Cr & Rl & Rr). apply IHl in Rl. apply IHr in Rr.
      apply is_red_col in Cl, Cr. rewrite Cl in Rl. rewrite Cr in Rr. lia.
    + destruct n as [|m]; [tauto|]. intros (Rl & Rr). apply IHl in Rl. apply IHr in Rr.
      cbn [Nat.pow]. destruct (is_red l), (is_red r); lia.
Qed.

(** height <= 2*log2(size+1), stated without logarithms *)
Theorem rb_height_bound t : rb_inv t -> (2 ^ height t <= (size t + 1) ^ 2)%nat.
Proof.
  intros (Hc & n & H). apply rbt_height in H. apply is_red_col in Hc. rewrite Hc in H.
  destruct H as (Hh & Hs).
  apply Nat.le_trans with (2 ^ (n * 2))%nat.
  - apply Nat.pow_le_mono_r; lia.
  - rewrite Nat.pow_mul_r. apply Nat.pow_le_mono_l; auto.
Qed.

(** ... in the form "half the height" *)
Theorem rb_height_log t : rb_inv t -> (2 ^ (Nat.div2 (S (height t))) <= size t + 1)%nat.
Proof.
  intros (Hc & n & H). apply rbt_height in H. apply is_red_col in Hc. rewrite Hc in H.
  destruct H as (Hh & Hs).
  apply Nat.le_trans with (2 ^ n)%nat; auto. apply Nat.pow_le_mono_r; [lia|].
  assert (Nat.div2 (S (height t)) <= Nat.div2 (S (2 * n)))%nat.
  { rewrite !Nat.div2_div. apply Nat.div_le_mono; lia. }
  rewrite Nat.div2_succ_double in H. auto.
Qed.

(** the value reported by cstl_bintree_height is [height] *)
Lemma fold_max_snd l : forall a b,
  snd (fold_left (fun (mm : N * N) h => (if (h <? fst mm)%N then h else fst mm,
                                       if (snd mm <? h)%N then h else snd mm)) l (a, b))
  = fold_left N.max l b.
Proof.
  induction l as [|h l IH]; intros a b; cbn [fold_left fst snd]; auto.
  rewrite IH. f_equal. destruct (N.ltb_spec b h); lia.
Qed.

Lemma fold_max_nat l : forall b,
  fold_left N.max (map N.of_nat l) (N.of_nat b) = N.of_nat (fold_left Nat.max l b).
Proof.
  induction l as [|h l IH]; intros b; cbn [map fold_left]; auto.
  rewrite <- IH. f_equal. lia.
Qed.

Lemma leaf_depths_node c l x r d :
  leaf_depths (T c l x r) d =
  if isE l && isE r then [S d] else leaf_depths l (S d) ++ leaf_depths r (S d).
Proof. destruct l, r; reflexivity. Qed.

Lemma leaf_depths_max t : forall d b,
  fold_left Nat.max (leaf_depths t d) b =
  match t with E => b | _ => Nat.max b (d + height t) end.
Proof.
  induction t as [|c l IHl x r IHr]; intros d b; [reflexivity|].
  rewrite leaf_depths_node. cbn [height].
  destruct (isE l && isE r) eqn:El.
  - apply andb_prop in El. destruct El. destruct l, r; try discriminate. cbn. lia.
  - rewrite fold_left_app, IHl, IHr. destruct l, r; try discriminate; cbn [height]; lia.
Qed.

Theorem bt_height_max t : snd (bt_height t) = N.of_nat (height t).
Proof.
  unfold bt_height. destruct t as [|c l x r]; [reflexivity|].
  rewrite fold_max_snd. change 0%N with (N.of_nat 0). rewrite fold_max_nat, leaf_depths_max.
  rewrite Nat.max_0_l. reflexivity.
Qed.

(** the two frames by which [fix_del] describes the tree after the
    red-sibling case are the rotation the C code performs there *)
Lemma fix_del_case1_is_rotation d x pe wa we wb :
  rotate d (mk d Red x pe (mk d Black wa we wb))
  = Some (plug1 (mkF d Black we wb) (plug1 (mkF d Red pe wa) x)).
Proof. destruct d; reflexivity. Qed.

Theorem rb_erase_finds t k r t' : rb_erase t k = Some (r, t') -> r = fst (bt_find t k).
Proof. intros H. apply rb_erase_inorder in H. destruct H as (-> & _). apply bt_erase_finds. Qed.
