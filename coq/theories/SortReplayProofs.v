(** Proofs about SortModel.v (C11), part 6: the callback log of a run
    determines its result.  Replaying the swap events of the log of any
    operation that returns ([SwapModel.replay_elems]: [SortModel.swap] for
    every [ESwap i j], other events ignored) on the input array gives the
    output array.  Independent of the comparison contract.  This is the
    bridge between the element-level algorithms and the byte-level
    cstl_swap of SwapModel.v / SwapProofs.v. *)
From Cstl Require Import Prelude SortModel SortProofs SortLogProofs SwapModel.

Definition no_swap (e : ev) : Prop := match e with ESwap _ _ => False | _ => True end.
Definition cmps_only (l : list ev) : Prop := Forall no_swap l.

Section Replay.
  Context {A : Type}.
  Variable cmp : A -> A -> Z.
  Implicit Types a lo hi : list A.

  Lemma replay_app : forall l1 l2 a,
    replay_elems a (l1 ++ l2) = (a1 <- replay_elems a l1 ;; replay_elems a1 l2).
  Proof.
    induction l1 as [|e l1 IH]; intros l2 a; cbn [app replay_elems bind]; [reflexivity|].
    destruct e; auto. destruct (swap a i j); cbn [bind]; auto.
  Qed.

  Lemma replay_app_ok l1 l2 a a1 a2 :
    replay_elems a l1 = Ok a1 -> replay_elems a1 l2 = Ok a2 -> replay_elems a (l1 ++ l2) = Ok a2.
  Proof. intros H1 H2. rewrite replay_app, H1. exact H2. Qed.

  Lemma replay_cmps l : cmps_only l -> forall a, replay_elems a l = Ok a.
  Proof.
    induction 1 as [|e l He _ IH]; intros a; cbn [replay_elems]; [reflexivity|].
    destruct e; auto. destruct He.
  Qed.

  Lemma replay_swap_cons a i j a1 l a2 :
    swap a i j = Ok a1 -> replay_elems a1 l = Ok a2 -> replay_elems a (ESwap i j :: l) = Ok a2.
  Proof. intros H1 H2. cbn [replay_elems]. rewrite H1. exact H2. Qed.

  Lemma replay_cmp_cons a i j l : replay_elems a (ECmp i j :: l) = replay_elems a l.
  Proof. reflexivity. Qed.

  Lemma cmps_app l1 l2 : cmps_only l1 -> cmps_only l2 -> cmps_only (l1 ++ l2).
  Proof. intros. apply Forall_app; auto. Qed.

  (** ** a swap inside a part of the array *)
  Lemma upd_app_l {K} (l1 l2 : list K) i x : i < length l1 -> upd (l1 ++ l2) i x = upd l1 i x ++ l2.
  Proof.
    revert i. induction l1 as [|y l1 IH]; intros [|i] H; simpl in *; try lia; auto.
    rewrite IH by lia. reflexivity.
  Qed.
  Lemma upd_app_r {K} (l1 l2 : list K) i x : upd (l1 ++ l2) (length l1 + i) x = l1 ++ upd l2 i x.
  Proof. induction l1 as [|y l1 IH]; simpl; congruence. Qed.

  Lemma swap_frame_l lo hi i j lo' : swap lo i j = Ok lo' -> swap (lo ++ hi) i j = Ok (lo' ++ hi).
  Proof.
    intros H. apply swap_inv in H. destruct H as (x & y & N & Hi & Hj & ->).
    pose proof (nth_error_lt _ _ _ Hi) as Li. pose proof (nth_error_lt _ _ _ Hj) as Lj.
    unfold swap. destruct (Nat.eqb_spec i j); [tauto|].
    rewrite !nth_error_app1, Hi, Hj by assumption.
    rewrite upd_app_l by assumption. rewrite upd_app_l by (rewrite upd_length; assumption). reflexivity.
  Qed.

  Lemma swap_frame_r lo hi i j hi' :
    swap hi i j = Ok hi' -> swap (lo ++ hi) (length lo + i) (length lo + j) = Ok (lo ++ hi').
  Proof.
    intros H. apply swap_inv in H. destruct H as (x & y & N & Hi & Hj & ->).
    unfold swap. destruct (Nat.eqb_spec (length lo + i) (length lo + j)); [lia|].
    rewrite !nth_error_app2 by lia.
    replace (length lo + i - length lo) with i by lia. replace (length lo + j - length lo) with j by lia.
    rewrite Hi, Hj. rewrite !upd_app_r. reflexivity.
  Qed.

  Lemma replay_frame_l hi : forall l lo lo',
    replay_elems lo l = Ok lo' -> replay_elems (lo ++ hi) l = Ok (lo' ++ hi).
  Proof.
    induction l as [|e l IH]; intros lo lo' H; cbn [replay_elems] in *.
    - injection H as <-. reflexivity.
    - destruct e; auto.
      destruct (swap lo i j) as [lo1| |] eqn:E; cbn [bind] in H; try discriminate.
      rewrite (swap_frame_l _ hi _ _ _ E). cbn [bind]. auto.
  Qed.

  Lemma replay_frame_r lo : forall l hi hi',
    replay_elems hi l = Ok hi' ->
    replay_elems (lo ++ hi) (map (shift (length lo)) l) = Ok (lo ++ hi').
  Proof.
    induction l as [|e l IH]; intros hi hi' H; cbn [replay_elems map] in *.
    - injection H as <-. reflexivity.
    - destruct e; cbn [shift replay_elems]; auto.
      destruct (swap hi i j) as [hi1| |] eqn:E; cbn [bind] in H; try discriminate.
      rewrite (swap_frame_r lo _ _ _ _ E). cbn [bind]. auto.
  Qed.

  (** ** quicksort *)
  Lemma scan_up_cmps fuel : forall a i p i1 l, scan_up cmp fuel a i p = Ok (i1, l) -> cmps_only l.
  Proof.
    induction fuel as [|f IH]; intros a i p i1 l H; [discriminate|].
    cbn [scan_up] in H. bind_inv H. destruct (x <? 0)%Z.
    - bind_inv H. destruct x0 as [i' l']. injection H as <- <-.
      constructor; [exact I|]. eapply IH; eauto.
    - injection H as <- <-. repeat constructor.
  Qed.

  Lemma scan_down_cmps a p : forall j j1 l,
    scan_down cmp a j p = Ok (j1, l) -> cmps_only l /\ j1 < length a.
  Proof.
    induction j as [|j IH]; intros j1 l H; cbn [scan_down] in H; bind_inv H;
      pose proof (cmpi_ev _ _ _ _ _ E) as Ev; cbn [ev_ok] in Ev.
    - destruct (x >? 0)%Z; [discriminate|]. injection H as <- <-. split; [repeat constructor|lia].
    - destruct (x >? 0)%Z.
      + bind_inv H. destruct x0 as [j' l']. injection H as <- <-.
        destruct (IH _ _ eq_refl) as (C & L). split; auto. constructor; [exact I|auto].
      + injection H as <- <-. split; [repeat constructor|lia].
  Qed.

  Lemma part_loop_replay fuel : forall a i j p m a' l,
    part_loop cmp fuel a i j p = Ok (m, a', l) -> replay_elems a l = Ok a' /\ m < length a.
  Proof.
    induction fuel as [|f IH]; intros a i j p m a' l H; [discriminate|].
    cbn [part_loop] in H. bind_inv H. destruct x as [i1 l1].
    pose proof (scan_up_cmps _ _ _ _ _ _ E) as C1.
    bind_inv H. destruct x as [j1 l2].
    destruct (scan_down_cmps _ _ _ _ _ E0) as (C2 & Lj).
    destruct (i1 <? j1).
    - bind_inv H. pose proof (swap_length _ _ _ _ E1) as Len.
      bind_inv H. destruct x0 as [[m' a''] l3]. injection H as <- <- <-.
      apply IH in E2. destruct E2 as (R3 & Lm). rewrite Len in Lm. split; auto.
      rewrite !app_assoc. eapply replay_app_ok.
      + apply replay_cmps. apply cmps_app; auto.
      + eapply replay_swap_cons; eauto.
    - injection H as <- <- <-. split; auto. apply replay_cmps. apply cmps_app; auto.
  Qed.

  Lemma med3_replay a a' l : med3 cmp a = Ok (a', l) -> replay_elems a l = Ok a'.
  Proof.
    unfold med3. intros H. bind_inv H. bind_inv H. destruct x0 as [a1 l1].
    assert (R1 : replay_elems a l1 = Ok a1).
    { destruct (x <? 0)%Z.
      - bind_inv E0. injection E0 as <- <-. cbn [replay_elems]. rewrite E1. reflexivity.
      - injection E0 as <- <-. reflexivity. }
    bind_inv H. destruct (x0 <? 0)%Z.
    - bind_inv H. injection H as <- <-. rewrite replay_app, R1. cbn [bind].
      rewrite replay_cmp_cons. eapply replay_swap_cons; [exact E2|reflexivity].
    - bind_inv H. destruct (x1 <? 0)%Z.
      + bind_inv H. injection H as <- <-. rewrite replay_app, R1. cbn [bind].
        rewrite !replay_cmp_cons. eapply replay_swap_cons; [exact E3|reflexivity].
      + injection H as <- <-. rewrite replay_app, R1. reflexivity.
  Qed.

  Lemma qsort_replay fuel : forall al rnd k a a' k' l,
    qsort cmp fuel al rnd k a = Ok (a', k', l) -> replay_elems a l = Ok a'.
  Proof.
    induction fuel as [|f IH]; intros al rnd k a a' k' l H.
    - rewrite qsort_0 in H. destruct (1 <? length a); [discriminate|].
      injection H as <- <- <-. reflexivity.
    - rewrite qsort_unfold in H. destruct (1 <? length a).
      2:{ injection H as <- <- <-. reflexivity. }
      bind_inv H. destruct x as [[[a1 p] k1] l1].
      assert (R1 : replay_elems a l1 = Ok a1).
      { destruct al; cbn [pivot_sel] in E.
        - injection E as <- <- <- <-. reflexivity.
        - injection E as <- <- <- <-. reflexivity.
        - bind_inv E. destruct x as [a0 l0]. injection E as <- <- <- <-. eapply med3_replay; eauto.
        - injection E as <- <- <- <-. reflexivity. }
      destruct (negb (is_m al) || (3 <? length a)).
      2:{ injection H as <- <- <-. exact R1. }
      bind_inv H. destruct x as [[m a2] l2].
      unfold qsort_p in E0. apply part_loop_replay in E0. destruct E0 as (R2 & Lm).
      bind_inv H. destruct x as [[lo k2] l3].
      pose proof (qsort_log _ _ _ _ _ _ _ _ _ E0) as (_ & Llo). apply IH in E0.
      bind_inv H. destruct x as [[hi k3] l4]. apply IH in E1.
      injection H as <- <- <-.
      eapply replay_app_ok; [exact R1|]. eapply replay_app_ok; [exact R2|].
      (* the (sub-)array lengths: a2 has the length of a1; only m < length a2 is needed *)
      assert (Lm2 : S m <= length a2).
      { clear - R2 Lm. assert (length a2 = length a1); [|lia].
        revert R2. generalize l2 a1. clear. induction l2 as [|e l2 IH]; intros a1 R; cbn [replay_elems] in R.
        - injection R as <-. reflexivity.
        - destruct e; auto. destruct (swap a1 i j) as [b| |] eqn:E; cbn [bind] in R; try discriminate.
          rewrite (IH _ R). eapply swap_length; eauto. }
      eapply replay_app_ok.
      + rewrite <- (firstn_skipn (S m) a2) at 1. apply replay_frame_l. exact E0.
      + assert (Hl : length lo = S m) by (rewrite Llo, firstn_length; lia).
        pose proof (replay_frame_r lo _ _ _ E1) as Rr. rewrite Hl in Rr. exact Rr.
  Qed.

  (** ** heap sort *)
  Lemma pick_cmps a n c l : pick cmp a n = Ok (c, l) -> cmps_only l.
  Proof.
    unfold pick. intros H. bind_inv H. destruct x as [c1 l1].
    assert (C1 : cmps_only l1).
    { destruct (2 * n + 1 <? length a).
      - bind_inv E. injection E as <- <-. repeat constructor.
      - injection E as <- <-. constructor. }
    destruct (2 * n + 1 + 1 <? length a).
    - bind_inv H. injection H as <- <-. apply cmps_app; auto. repeat constructor.
    - injection H as <- <-. auto.
  Qed.

  Lemma sift_replay fuel : forall a n a' l, sift cmp fuel a n = Ok (a', l) -> replay_elems a l = Ok a'.
  Proof.
    induction fuel as [|f IH]; intros a n a' l H; [discriminate|].
    cbn [sift] in H. bind_inv H. destruct x as [c l1]. pose proof (pick_cmps _ _ _ _ E) as C1.
    destruct (n =? c).
    - injection H as <- <-. apply replay_cmps; auto.
    - bind_inv H. bind_inv H. destruct x0 as [a'' l2]. injection H as <- <-.
      eapply replay_app_ok; [apply replay_cmps; auto|].
      eapply replay_swap_cons; eauto.
  Qed.

  Lemma heapify_replay k : forall a a' l, heapify cmp k a = Ok (a', l) -> replay_elems a l = Ok a'.
  Proof.
    induction k as [|i IH]; intros a a' l H; cbn [heapify] in H.
    - injection H as <- <-. reflexivity.
    - bind_inv H. destruct x as [a1 l1]. apply sift_replay in E.
      bind_inv H. destruct x as [a2 l2]. apply IH in E0.
      injection H as <- <-. eapply replay_app_ok; eauto.
  Qed.

  Lemma extract_replay i : forall a a' l, extract cmp i a = Ok (a', l) -> replay_elems a l = Ok a'.
  Proof.
    induction i as [|i IH]; intros a a' l H; cbn [extract] in H.
    - injection H as <- <-. reflexivity.
    - bind_inv H. bind_inv H. destruct x0 as [h l1]. apply sift_replay in E0.
      bind_inv H. destruct x0 as [a2 l2]. apply IH in E1.
      injection H as <- <-.
      eapply replay_swap_cons; [exact E|]. eapply replay_app_ok; [|exact E1].
      rewrite <- (firstn_skipn (S i) x) at 1. apply replay_frame_l. exact E0.
  Qed.

  Lemma hsort_replay a a' l : hsort cmp a = Ok (a', l) -> replay_elems a l = Ok a'.
  Proof.
    unfold hsort. intros H. destruct (1 <? length a).
    - bind_inv H. destruct x as [a1 l1]. apply heapify_replay in E.
      bind_inv H. destruct x as [a2 l2]. apply extract_replay in E0.
      injection H as <- <-. eapply replay_app_ok; eauto.
    - injection H as <- <-. reflexivity.
  Qed.

  (** cstl_raw_array_sort, any selector, any rand(), any fuel *)
  Theorem sort_replay sel extra rnd a a' l :
    sort cmp sel extra rnd a = Ok (a', l) -> replay_elems a l = Ok a'.
  Proof.
    unfold sort, sort_alg. intros H.
    destruct (decode sel); try (apply hsort_replay; assumption);
      (bind_inv H; destruct x as [[a1 k1] l1]; injection H as <- <-; eapply qsort_replay; eauto).
  Qed.

  Theorem qsort_p_replay a p m a' l : qsort_p cmp a p = Ok (m, a', l) -> replay_elems a l = Ok a'.
  Proof. intros H. apply part_loop_replay in H. tauto. Qed.

  (** ** reverse (both index widths) *)
  Lemma rev_loop_replay bits fuel : forall a i j a' l,
    rev_loop bits fuel a i j = Ok (a', l) -> replay_elems a l = Ok a'.
  Proof.
    induction fuel as [|f IH]; intros a i j a' l H; cbn [rev_loop] in H.
    - destruct (i <? j)%Z; [discriminate|]. injection H as <- <-. reflexivity.
    - destruct (i <? j)%Z.
      2:{ injection H as <- <-. reflexivity. }
      bind_inv H. bind_inv H. bind_inv H. bind_inv H. bind_inv H. bind_inv H.
      destruct x4 as [a'' l'']. injection H as <- <-.
      eapply replay_swap_cons; eauto.
  Qed.

  Theorem reverse_replay a a' l : reverse a = Ok (a', l) -> replay_elems a l = Ok a'.
  Proof. apply rev_loop_replay. Qed.
End Replay.
