(** C07 — the heap always yields a maximum element.  Statements only; proofs
    are in HeapProofs.v. *)
From Cstl Require Import Prelude HeapModel HeapProofs.

Theorem C07_get_empty h : root h = E -> get h = None.
Proof. exact (get_empty h). Qed.

Theorem C07_pop_empty h : root h = E -> pop h = Ok (h, None).
Proof. exact (pop_empty h). Qed.

Print Assumptions C07_get_empty.
Print Assumptions C07_pop_empty.
