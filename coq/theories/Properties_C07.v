(** C07 — the heap always yields a maximum element; the linked tree stays
    complete, which is what lets a slot be located from the size alone.
    Statements only; proofs are in HeapProofs.v.  The model (HeapModel.v)
    transcribes src/heap.c and cstl_fls of src/common.c. *)
From Cstl Require Import Prelude HeapModel HeapProofs HeapLinksModel HeapLinks HeapLinksSim.
Local Open Scope N_scope.

(** cstl_fls, as coded (binary search with a 64-bit mask), is the position of
    the highest set bit *)
Theorem C07_fls_spec x :
  0 < x < 2 ^ 64 -> (2 ^ fls x <= Z.of_N x < 2 ^ (fls x + 1))%Z.
Proof. exact (fls_spec x). Qed.

Theorem C07_fls_zero : fls 0 = (-1)%Z.
Proof. exact fls_zero. Qed.

(** [complete t n] (defined by recursion over the tree) means: the occupied
    1-based level-order positions are exactly 1..n, i.e. every level is full
    except the last, which is filled from the left *)
Theorem C07_complete_positions t n :
  complete t n <-> (forall p, occupied t p <-> Npos p <= n).
Proof. exact (complete_positions t n). Qed.

(** navigation from the size alone: in a complete tree of n nodes,
    cstl_heap_find(h, n - 1) returns the node at position n, which is a leaf,
    and unlinking it leaves a complete tree of n - 1 nodes.
    Hypothesis n < 2^31: [unsigned int id], [1 << cstl_fls(loc)] on [int]. *)
Theorem C07_nav_last t n :
  complete t n -> 1 <= n < 2 ^ 31 ->
  exists c z, find t (n - 1) = Ok (Some (c, T E z E)) /\ Npos (pos_of c) = n /\
              zip c (T E z E) = t /\ complete (zip c E) (n - 1).
Proof. exact (nav_last t n). Qed.

(** ... and cstl_heap_find(h, (n - 1) / 2) returns the parent of position
    n + 1, whose child link selected by the parity of n is NULL and stands at
    position n + 1 (the first free slot, by [C07_complete_positions]) *)
Theorem C07_nav_slot t n :
  complete t n -> 1 <= n -> n + 1 < 2 ^ 32 ->
  exists c pl px pr, find t ((n - 1) / 2) = Ok (Some (c, T pl px pr)) /\
    zip c (T pl px pr) = t /\
    if n mod 2 =? 0 then pr = E /\ Npos (pos_of c)~1 = n + 1
    else pl = E /\ pr = E /\ Npos (pos_of c)~0 = n + 1.
Proof. exact (nav_slot t n). Qed.

Section C07.
  Variable key : nat -> Z.
  Notation step := (HeapModel.step key).
  Notation reachable := (reach step h_init).

  (** one operation from a state satisfying the invariant (complete,
      heap-ordered, no element twice, size field = number of elements,
      size < 2^32): the invariant is re-established and the visible effect is
      that of a bag with maximum extraction ([spec]); a fault is possible only
      with 2^31 or more elements; [Precond] only for pushing a linked element *)
  Theorem C07_step_refines h o :
    inv h ->
    match step h o with
    | Done h' out => inv h' /\ spec key (abs h) o (abs h') out
    | Precond => exists e, o = Push e /\ In e (map eid (abs h))
    | Fault => 2 ^ 31 <= size h
    | Abort => False
    end.
  Proof. exact (step_correct key h o). Qed.

  (** after every history of push/pop/get/size/clear: the tree is complete
      for the size field, every parent >= its children, no element twice *)
  Theorem C07_reachable_shape h :
    reachable h ->
    complete (root h) (size h) /\ heap_ord (root h) /\ NoDup (ids (root h)).
  Proof. exact (reach_shape key h). Qed.

  (** size tracks the count *)
  Theorem C07_size_tracks_count h :
    reachable h -> size h = N.of_nat (length (abs h)).
  Proof. exact (reach_size key h). Qed.

  (** get returns NULL exactly on the empty heap, otherwise an element of the
      heap that is >= every element of the heap *)
  Theorem C07_get_max h :
    reachable h ->
    match get h with
    | Some x => is_max x (abs h)
    | None => abs h = [] /\ size h = 0
    end.
  Proof. exact (reach_get key h). Qed.

  Theorem C07_null_iff_empty h :
    reachable h -> (get h = None <-> size h = 0) /\ (get h = None <-> abs h = []).
  Proof. exact (reach_null_iff_empty key h). Qed.

  (** pop returns what get returns; it is a maximum element of the heap, and
      exactly that element is removed; NULL (and no change) on the empty heap;
      the undefined shift is reached only with 2^31 or more elements *)
  Theorem C07_pop_max h :
    reachable h ->
    match pop h with
    | Ok (h', Some x) =>
      get h = Some x /\ is_max x (abs h) /\ Permutation (abs h) (x :: abs h') /\
      size h' = size h - 1 /\ inv h'
    | Ok (h', None) => abs h = [] /\ size h = 0 /\ h' = h
    | Flt => 2 ^ 31 <= size h
    end.
  Proof. exact (reach_pop key h). Qed.

  (** push adds exactly its argument *)
  Theorem C07_push_adds h e :
    reachable h -> ~ In (eid e) (map eid (abs h)) -> size h < 2 ^ 31 ->
    exists h', push h e = Ok h' /\ Permutation (abs h') (e :: abs h) /\
               size h' = size h + 1 /\ inv h'.
  Proof. exact (reach_push key h e). Qed.

  (** no undefined behaviour and no abort from any reachable state with
      fewer than 2^31 elements *)
  Theorem C07_never_faults h o :
    reachable h -> size h < 2 ^ 31 -> step h o <> Fault /\ step h o <> Abort.
  Proof. exact (reach_no_fault key h o). Qed.

  (** hence no script of fewer than 2^31 operations ends in a fault *)
  Theorem C07_run_safe ops :
    N.of_nat (length ops) < 2 ^ 31 ->
    match fst (run step h_init ops) with
    | Done s _ => inv s
    | Precond => True
    | _ => False
    end.
  Proof. exact (run_safe key ops). Qed.
End C07.

(** clear (used by C15): the callback log holds every element exactly once
    and the heap is the freshly initialised one afterwards *)
Theorem C07_clear_log_perm h : Permutation (fst (clear h)) (elems (root h)).
Proof. exact (clear_log_perm h). Qed.

Theorem C07_clear_log_nodup h : inv h -> NoDup (map eid (fst (clear h))).
Proof. exact (clear_log_nodup h). Qed.

Theorem C07_clear_result_init h : inv h -> snd (clear h) = h_init.
Proof. exact (clear_result_init h). Qed.

(** cstl_heap_promote_child at the level of pointers (HeapLinks.v transcribes
    its statements over a memory of {p, l, r} nodes): on a well-formed linked
    tree with distinct nodes it produces a well-formed linked tree -- every
    parent pointer and the root pointer right -- that represents the tree with
    the two elements exchanged, which is what the functional model does in
    sift_up and sift_down.  [rep m None root t]: [t] is laid out in [m] from
    [root] with consistent parent pointers, element ids being addresses. *)
Theorem C07_promote_left_child m root c0 cl cx cr px sib :
  NoDup (ids (zip c0 (T (T cl cx cr) px sib))) ->
  rep m None root (zip c0 (T (T cl cx cr) px sib)) ->
  exists m' root', promote m root (eid cx) = Some (m', root') /\
                   rep m' None root' (zip c0 (T (T cl px cr) cx sib)).
Proof. exact (promote_left_refines m root c0 cl cx cr px sib). Qed.

Theorem C07_promote_right_child m root c0 cl cx cr px sib :
  NoDup (ids (zip c0 (T sib px (T cl cx cr)))) ->
  rep m None root (zip c0 (T sib px (T cl cx cr))) ->
  exists m' root', promote m root (eid cx) = Some (m', root') /\
                   rep m' None root' (zip c0 (T sib cx (T cl px cr))).
Proof. exact (promote_right_refines m root c0 cl cx cr px sib). Qed.

(** The whole heap at pointer level (HeapLinksModel.v: find, push with its two
    stores and the sift-up loop, pop with the unlinking, [*n = *root], the
    re-parenting and the sift-down loop, get, clear) simulates the functional
    model: same results, faults exactly when the functional model faults, and
    the memory again represents the functional tree -- so in every state
    reached by any history every child link, every parent pointer and the root
    pointer are consistent, and all theorems above transfer to the linked
    structure.  [sim ph h]: [rep (pm ph) None (proot ph) (root h)] and equal
    size fields.  [keyed]: the keys in the functional tree are the keys of the
    nodes (preserved by every step). *)
Section C07_links.
  Variable key : nat -> Z.

  Theorem C07_links_step_refines ph h o :
    inv h -> keyed key (elems (root h)) -> sim ph h ->
    match HeapModel.step key h o with
    | Done h' out =>
      exists ph', p_step key ph o = Done ph' out /\ sim ph' h' /\ keyed key (elems (root h'))
    | Fault => p_step key ph o = Fault
    | Precond => True
    | Abort => False
    end.
  Proof. exact (p_step_refines key ph h o). Qed.

  Theorem C07_links_run_refines ops :
    match run (HeapModel.step key) h_init ops with
    | (Done h' _, outs) =>
      exists ph', run (p_step key) ph_init ops = (Done ph' [], outs) /\ sim ph' h'
    | (Fault, outs) => run (p_step key) ph_init ops = (Fault, outs)
    | (Precond, _) => True
    | (Abort, _) => False
    end.
  Proof. exact (p_run_refines_init key ops). Qed.
End C07_links.

(** Non-vacuity: a concrete history with duplicate keys (0 0 1 1 2 2) goes
    through every kind of operation and ends in a non-trivial state that
    satisfies the hypotheses of the theorems above. *)
Example C07_example_run :
  let key := fun n => nth n [0; 0; 1; 1; 2; 2]%Z 0%Z in
  let ops := [Push 0; Push 1; Push 2; Push 4; Push 5; Push 3; Get; Size; Pop; Clear;
              Push 3; Push 0; Push 2; Push 5; Pop; Push 1; Push 4]%nat in
  match run (HeapModel.step key) h_init ops with
  | (Done h _, outs) =>
    map eid (abs h) = [4; 3; 1; 0; 2]%nat /\ size h = 5 /\
    outs = [[]; []; []; []; []; []; [4]; [6]; [4]; [1; 0; 2; 3; 5]; []; []; []; []; [5]; []; []]%Z
  | _ => False
  end.
Proof. vm_compute. auto. Qed.

(** the same history on the pointer-level model: same outputs, and the memory
    is the linked form of the final tree (4 at the root over 3 and 2; 1 and 0
    under 3), every parent pointer right *)
Example C07_example_links_run :
  let key := fun n => nth n [0; 0; 1; 1; 2; 2]%Z 0%Z in
  let ops := [Push 0; Push 1; Push 2; Push 4; Push 5; Push 3; Get; Size; Pop; Clear;
              Push 3; Push 0; Push 2; Push 5; Pop; Push 1; Push 4]%nat in
  match run (p_step key) ph_init ops with
  | (Done ph _, outs) =>
    proot ph = Some 4%nat /\ psize ph = 5 /\
    map (pm ph) [0; 1; 2; 3; 4]%nat =
      [mkN (Some 3) None None; mkN (Some 3) None None; mkN (Some 4) None None;
       mkN (Some 4) (Some 1) (Some 0); mkN None (Some 3) (Some 2)]%nat /\
    outs = [[]; []; []; []; []; []; [4]; [6]; [4]; [1; 0; 2; 3; 5]; []; []; []; []; [5]; []; []]%Z
  | _ => False
  end.
Proof. vm_compute. auto. Qed.

Example C07_example_fls :
  map fls [1; 3; 196608; 1515870810; 18446744073709551615] = [0; 1; 17; 30; 63]%Z.
Proof. vm_compute. reflexivity. Qed.

(** Non-vacuity of the pointer-level theorems: a concrete three-node memory
    (node 0 the root with children 1 and 2) is a well-formed layout, and
    promoting node 2 (the right child) re-links it into the root. *)
Example C07_example_promote :
  let e := fun i => mkE i 0 in
  let m : pmem := fun a =>
    match a with
    | 0 => mkN None (Some 1) (Some 2)
    | 1 => mkN (Some 0) None None
    | 2 => mkN (Some 0) None None
    | _ => mkN None None None
    end%nat in
  rep m None (Some 0%nat) (T (T E (e 1%nat) E) (e 0%nat) (T E (e 2%nat) E)) /\
  match promote m (Some 0%nat) 2 with
  | Some (m', r) => r = Some 2%nat /\ m' 2%nat = mkN None (Some 1%nat) (Some 0%nat) /\
                    m' 0%nat = mkN (Some 2%nat) None None /\ m' 1%nat = mkN (Some 2%nat) None None
  | None => False
  end.
Proof. cbn. repeat split; reflexivity. Qed.

Print Assumptions C07_fls_spec.
Print Assumptions C07_fls_zero.
Print Assumptions C07_complete_positions.
Print Assumptions C07_nav_last.
Print Assumptions C07_nav_slot.
Print Assumptions C07_step_refines.
Print Assumptions C07_reachable_shape.
Print Assumptions C07_size_tracks_count.
Print Assumptions C07_get_max.
Print Assumptions C07_null_iff_empty.
Print Assumptions C07_pop_max.
Print Assumptions C07_push_adds.
Print Assumptions C07_never_faults.
Print Assumptions C07_run_safe.
Print Assumptions C07_clear_log_perm.
Print Assumptions C07_clear_log_nodup.
Print Assumptions C07_clear_result_init.
Print Assumptions C07_promote_left_child.
Print Assumptions C07_promote_right_child.
Print Assumptions C07_links_step_refines.
Print Assumptions C07_links_run_refines.
