(** Proofs about SortModel.v (C11), part 1: the comparison contract, list
    lemmas, the partition (DESIGN.md A.5) and quicksort. *)
From Cstl Require Import Prelude SortModel.

(** * list lemmas *)

Lemma upd_comm {A} (l : list A) i j x y :
  i <> j -> upd (upd l i x) j y = upd (upd l j y) i x.
Proof.
  revert i j; induction l as [|z r IH]; intros [|i] [|j] H; simpl; auto; try congruence.
  f_equal. apply IH. congruence.
Qed.

Lemma perm_upd_head {A} (r : list A) j x y :
  nth_error r j = Some y -> Permutation (x :: r) (y :: upd r j x).
Proof.
  revert j; induction r as [|z r IH]; intros [|j] H; simpl in *; try discriminate.
  - injection H as ->. apply perm_swap.
  - eapply perm_trans; [apply perm_swap|].
    eapply perm_trans; [apply perm_skip, (IH _ H)|]. apply perm_swap.
Qed.

Lemma perm_upd_swap_lt {A} (a : list A) i j x y :
  i < j -> nth_error a i = Some x -> nth_error a j = Some y ->
  Permutation a (upd (upd a i y) j x).
Proof.
  revert i j; induction a as [|z r IH]; intros [|i] [|j] L Hi Hj; simpl in *; try discriminate; try lia.
  - injection Hi as ->. apply perm_upd_head; auto.
  - apply perm_skip. apply IH; auto. lia.
Qed.

Lemma perm_upd_swap {A} (a : list A) i j x y :
  i <> j -> nth_error a i = Some x -> nth_error a j = Some y ->
  Permutation a (upd (upd a i y) j x).
Proof.
  intros N Hi Hj. destruct (Nat.lt_ge_cases i j) as [L|L].
  - apply perm_upd_swap_lt; auto.
  - rewrite upd_comm by auto. apply perm_upd_swap_lt; auto. lia.
Qed.

Lemma nth_error_lt {A} (l : list A) i x : nth_error l i = Some x -> i < length l.
Proof. intros H. apply nth_error_Some. congruence. Qed.

Lemma nth_error_ex {A} (l : list A) i : i < length l -> exists x, nth_error l i = Some x.
Proof. intros H. destruct (nth_error l i) eqn:E; eauto. apply nth_error_None in E. lia. Qed.

Lemma nth_error_firstn_lt {A} (l : list A) n k :
  k < n -> nth_error (firstn n l) k = nth_error l k.
Proof.
  revert n k; induction l as [|x r IH]; intros [|n] [|k] H; simpl; auto; try lia.
  apply IH. lia.
Qed.

Lemma nth_error_firstn_ge {A} (l : list A) n k :
  n <= k -> nth_error (firstn n l) k = None.
Proof.
  intros H. apply nth_error_None. rewrite firstn_length. lia.
Qed.

Lemma nth_error_skipn {A} (l : list A) n k :
  nth_error (skipn n l) k = nth_error l (n + k).
Proof.
  revert l; induction n as [|n IH]; intros [|x r]; simpl; auto. destruct k; auto.
Qed.

Lemma Forall_nth_error {A} (P : A -> Prop) (l : list A) :
  Forall P l <-> (forall k x, nth_error l k = Some x -> P x).
Proof.
  split.
  - intros F k x H. rewrite Forall_forall in F. apply F. eapply nth_error_In; eauto.
  - intros H. apply Forall_forall. intros x I. apply In_nth_error in I. destruct I as (k & I). eauto.
Qed.

Section Proofs.
  Context {A : Type}.
  Variable cmp : A -> A -> Z.

  (** the contract of cstl_compare_func_t: only the sign matters; the sign
      is antisymmetric and "<=" is transitive *)
  Definition le (x y : A) : Prop := (cmp x y <= 0)%Z.
  Definition cmp_contract : Prop :=
    (forall x y, (cmp x y < 0)%Z <-> (cmp y x > 0)%Z) /\
    (forall x y z, le x y -> le y z -> le x z).

  Hypothesis contract : cmp_contract.

  Lemma cmp_anti x y : (cmp x y < 0)%Z <-> (cmp y x > 0)%Z.
  Proof. apply contract. Qed.
  Lemma le_trans x y z : le x y -> le y z -> le x z.
  Proof. apply contract. Qed.
  Lemma cmp_refl x : cmp x x = 0%Z.
  Proof. pose proof (cmp_anti x x). lia. Qed.
  Lemma le_refl x : le x x.
  Proof. unfold le. rewrite cmp_refl. lia. Qed.
  Lemma not_lt_le x y : ~ (cmp x y < 0)%Z -> le y x.
  Proof. unfold le. pose proof (cmp_anti x y). pose proof (cmp_anti y x). lia. Qed.
  Lemma not_gt_le x y : ~ (cmp x y > 0)%Z -> le x y.
  Proof. unfold le. lia. Qed.
  Lemma lt_le x y : (cmp x y < 0)%Z -> le x y.
  Proof. unfold le. lia. Qed.
  Lemma gt_le x y : (cmp x y > 0)%Z -> le y x.
  Proof. unfold le. pose proof (cmp_anti y x). lia. Qed.
  Lemma le_not_lt x y : le x y -> ~ (cmp y x < 0)%Z.
  Proof. unfold le. pose proof (cmp_anti y x). lia. Qed.
  Lemma le_not_gt x y : le x y -> ~ (cmp x y > 0)%Z.
  Proof. unfold le. lia. Qed.
  Lemma le_total x y : le x y \/ le y x.
  Proof. destruct (Z_lt_ge_dec (cmp y x) 0); [right; apply lt_le; auto|left; apply not_lt_le; lia]. Qed.
  Lemma cmp_eq_sym x y : cmp x y = 0%Z -> cmp y x = 0%Z.
  Proof. pose proof (cmp_anti x y). pose proof (cmp_anti y x). lia. Qed.
  Lemma le_antisym_eq x y : le x y -> le y x -> cmp x y = 0%Z.
  Proof. unfold le. pose proof (cmp_anti x y). lia. Qed.

  (** * swap / cmpi *)

  Lemma swap_inv (a : list A) i j a' :
    swap a i j = Ok a' ->
    exists x y, i <> j /\ nth_error a i = Some x /\ nth_error a j = Some y /\
                a' = upd (upd a i y) j x.
  Proof.
    unfold swap. destruct (Nat.eqb_spec i j); [discriminate|].
    destruct (nth_error a i) as [x|] eqn:Ei; [|discriminate].
    destruct (nth_error a j) as [y|] eqn:Ej; [|discriminate].
    intros [= <-]. eauto 8.
  Qed.

  Lemma swap_ok (a : list A) i j :
    i <> j -> i < length a -> j < length a -> exists a', swap a i j = Ok a'.
  Proof.
    intros N Hi Hj. unfold swap. destruct (Nat.eqb_spec i j); [tauto|].
    destruct (nth_error_ex a i Hi) as (x & ->). destruct (nth_error_ex a j Hj) as (y & ->). eauto.
  Qed.

  Lemma swap_length (a : list A) i j a' : swap a i j = Ok a' -> length a' = length a.
  Proof. intros H. apply swap_inv in H. destruct H as (x & y & _ & _ & _ & ->). now rewrite !upd_length. Qed.

  Lemma swap_perm (a : list A) i j a' : swap a i j = Ok a' -> Permutation a a'.
  Proof. intros H. apply swap_inv in H. destruct H as (x & y & N & Hi & Hj & ->). apply perm_upd_swap; auto. Qed.

  Lemma swap_nth (a : list A) i j a' k :
    swap a i j = Ok a' ->
    nth_error a' k = if Nat.eqb k i then nth_error a j else if Nat.eqb k j then nth_error a i else nth_error a k.
  Proof.
    intros H. apply swap_inv in H. destruct H as (x & y & N & Hi & Hj & ->).
    pose proof (nth_error_lt _ _ _ Hi) as Li. pose proof (nth_error_lt _ _ _ Hj) as Lj.
    rewrite !nth_error_upd, upd_length.
    destruct (Nat.eqb_spec j k) as [->|Njk].
    - destruct (Nat.eqb_spec k i); [congruence|]. rewrite Nat.eqb_refl.
      destruct (Nat.ltb_spec k (length a)); [congruence|lia].
    - destruct (Nat.eqb_spec i k) as [->|Nik].
      + rewrite Nat.eqb_refl. destruct (Nat.ltb_spec k (length a)); [congruence|lia].
      + destruct (Nat.eqb_spec k i); [congruence|]. destruct (Nat.eqb_spec k j); [congruence|]. auto.
  Qed.

  Lemma cmpi_inv a i j c :
    cmpi cmp a i j = Ok c -> exists x y, nth_error a i = Some x /\ nth_error a j = Some y /\ c = cmp x y.
  Proof.
    unfold cmpi. destruct (nth_error a i) as [x|]; [|discriminate].
    destruct (nth_error a j) as [y|]; [|discriminate]. intros [= <-]. eauto.
  Qed.

  Lemma cmpi_ok a i j x y :
    nth_error a i = Some x -> nth_error a j = Some y -> cmpi cmp a i j = Ok (cmp x y).
  Proof. unfold cmpi. intros -> ->. auto. Qed.

  (** * the two scans of the partition *)

  Lemma scan_up_spec fuel a p pv : nth_error a p = Some pv ->
    forall i ks xs, i <= ks -> nth_error a ks = Some xs -> ~ (cmp xs pv < 0)%Z ->
    ks - i < fuel ->
    exists i1 l y, scan_up cmp fuel a i p = Ok (i1, l) /\ i <= i1 <= ks /\
      nth_error a i1 = Some y /\ ~ (cmp y pv < 0)%Z /\
      (forall k x, i <= k < i1 -> nth_error a k = Some x -> (cmp x pv < 0)%Z).
  Proof.
    intros Hp. induction fuel as [|f IH]; intros i ks xs Hik Hks Hst Hf; [lia|].
    cbn [scan_up].
    assert (Li : i < length a) by (apply nth_error_lt in Hks; lia).
    destruct (nth_error_ex a i Li) as (x & Hx).
    rewrite (cmpi_ok _ _ _ _ _ Hx Hp). cbn [bind].
    destruct (Z.ltb_spec (cmp x pv) 0) as [Hlt|Hge].
    - assert (i <> ks) by (intros ->; rewrite Hx in Hks; injection Hks as ->; tauto).
      destruct (IH (S i) ks xs) as (i1 & l & y & E & R & Hy & Hny & Hall); auto; try lia.
      rewrite E. cbn [bind]. exists i1, (ECmp i p :: l), y. repeat split; auto; try lia.
      intros k z Hk Hz. destruct (Nat.eq_dec k i) as [->|]; [rewrite Hx in Hz; injection Hz as <-; lia|]. apply (Hall k); auto. lia.
    - exists i, [ECmp i p], x. repeat split; auto; try lia.
  Qed.

  Lemma scan_down_spec a p pv : nth_error a p = Some pv ->
    forall j ks xs, ks <= j -> j < length a -> nth_error a ks = Some xs -> ~ (cmp xs pv > 0)%Z ->
    exists j1 l y, scan_down cmp a j p = Ok (j1, l) /\ ks <= j1 <= j /\
      nth_error a j1 = Some y /\ ~ (cmp y pv > 0)%Z /\
      (forall k x, j1 < k <= j -> nth_error a k = Some x -> (cmp x pv > 0)%Z).
  Proof.
    intros Hp. induction j as [|j IH]; intros ks xs Hk Lj Hks Hst.
    - assert (ks = 0) by lia. subst ks. cbn [scan_down].
      rewrite (cmpi_ok _ _ _ _ _ Hks Hp). cbn [bind].
      destruct (Z.gtb_spec (cmp xs pv) 0); [lia|].
      exists 0, [ECmp 0 p], xs. repeat split; auto; try lia.
    - cbn [scan_down]. destruct (nth_error_ex a (S j) Lj) as (x & Hx).
      rewrite (cmpi_ok _ _ _ _ _ Hx Hp). cbn [bind].
      destruct (Z.gtb_spec (cmp x pv) 0) as [Hgt|Hle].
      + assert (ks <> S j) by (intros ->; rewrite Hx in Hks; injection Hks as ->; lia).
        destruct (IH ks xs) as (j1 & l & y & E & R & Hy & Hny & Hall); auto; try lia.
        rewrite E. cbn [bind]. exists j1, (ECmp (S j) p :: l), y. repeat split; auto; try lia.
        intros k z Hk' Hz. destruct (Nat.eq_dec k (S j)) as [->|]; [rewrite Hx in Hz; injection Hz as <-; lia|]. apply (Hall k); auto. lia.
      + exists (S j), [ECmp (S j) p], x. repeat split; auto; try lia.
  Qed.

  (** * the partition loop (DESIGN.md A.5).  [pv] is the pivot *value*,
      [p] the tracked index; [ku]/[kd] are the stoppers of the two scans. *)
  Lemma part_loop_spec fuel : forall a i j p pv ku xu kd xd,
    nth_error a p = Some pv ->
    j < length a ->
    (forall k x, k < i -> nth_error a k = Some x -> le x pv) ->
    (forall k x, j < k -> nth_error a k = Some x -> le pv x) ->
    i <= ku -> nth_error a ku = Some xu -> le pv xu ->
    kd <= j -> nth_error a kd = Some xd -> le xd pv ->
    j - i < fuel ->
    exists m a' l, part_loop cmp fuel a i j p = Ok (m, a', l) /\
      Permutation a a' /\ length a' = length a /\ m <= j /\
      (m < j \/ (m <= ku /\ a' = a /\
                 forall k x, i <= k < m -> nth_error a k = Some x -> (cmp x pv < 0)%Z)) /\
      (forall k x, k <= m -> nth_error a' k = Some x -> le x pv) /\
      (forall k x, m < k -> nth_error a' k = Some x -> le pv x).
  Proof.
    induction fuel as [|f IH]; intros a i j p pv ku xu kd xd Hp Lj HL HR Hku Hxu Hlu Hkd Hxd Hld Hf; [lia|].
    cbn [part_loop].
    assert (Su : ~ (cmp xu pv < 0)%Z) by (apply le_not_lt; auto).
    assert (Sd : ~ (cmp xd pv > 0)%Z) by (apply le_not_gt; auto).
    pose proof (nth_error_lt _ _ _ Hxu) as Lku.
    destruct (scan_up_spec (S (length a)) a p pv Hp i ku xu) as (i1 & l1 & y1 & E1 & R1 & Hy1 & Hn1 & A1);
      auto; try lia.
    rewrite E1. cbn [bind].
    destruct (scan_down_spec a p pv Hp j kd xd) as (j1 & l2 & y2 & E2 & R2 & Hy2 & Hn2 & A2); auto.
    rewrite E2. cbn [bind].
    assert (Hle1 : le pv y1) by (apply not_lt_le; auto).
    assert (Hle2 : le y2 pv) by (apply not_gt_le; auto).
    assert (HL1 : forall k x, k < i1 -> nth_error a k = Some x -> le x pv).
    { intros k x Hk Hx. destruct (Nat.lt_ge_cases k i); [apply (HL k); auto|]. apply lt_le. apply (A1 k); auto; lia. }
    assert (HR1 : forall k x, j1 < k -> nth_error a k = Some x -> le pv x).
    { intros k x Hk Hx. destruct (Nat.lt_ge_cases j k); [apply (HR k); auto|]. apply gt_le. apply (A2 k); auto; lia. }
    destruct (Nat.ltb_spec i1 j1) as [Lt|Ge].
    - (* swap and go round again *)
      assert (Li1 : i1 < length a) by (eapply nth_error_lt; eauto).
      assert (Lj1 : j1 < length a) by (eapply nth_error_lt; eauto).
      destruct (swap_ok a i1 j1) as (a1 & Es); auto; try lia.
      rewrite Es. cbn [bind].
      pose proof (swap_nth a i1 j1 a1) as Nth. specialize (fun k => Nth k Es).
      pose proof (swap_length _ _ _ _ Es) as Len.
      set (p' := if Nat.eqb p i1 then j1 else if Nat.eqb p j1 then i1 else p).
      assert (Hp' : nth_error a1 p' = Some pv).
      { unfold p'. rewrite Nth.
        destruct (Nat.eqb_spec p i1) as [->|N1].
        - destruct (Nat.eqb_spec j1 i1); [lia|]. rewrite Nat.eqb_refl. auto.
        - destruct (Nat.eqb_spec p j1) as [->|N2].
          + rewrite Nat.eqb_refl. auto.
          + destruct (Nat.eqb_spec p i1); [tauto|]. destruct (Nat.eqb_spec p j1); [tauto|]. auto. }
      destruct (IH a1 (S i1) (j1 - 1) p' pv j1 y1 i1 y2) as (m & a2 & l3 & E3 & P3 & Len3 & M3 & Mk3 & L3 & R3); auto; try lia.
      + intros k x Hk Hx. rewrite Nth in Hx.
        destruct (Nat.eqb_spec k i1) as [->|]; [congruence|].
        destruct (Nat.eqb_spec k j1); [lia|]. apply (HL1 k); auto; lia.
      + intros k x Hk Hx. rewrite Nth in Hx.
        destruct (Nat.eqb_spec k i1); [lia|].
        destruct (Nat.eqb_spec k j1) as [->|]; [congruence|]. apply (HR1 k); auto; lia.
      + rewrite Nth. destruct (Nat.eqb_spec j1 i1); [lia|]. rewrite Nat.eqb_refl. auto.
      + rewrite Nth. rewrite Nat.eqb_refl. auto.
      + rewrite E3. cbn [bind]. exists m, a2, (l1 ++ l2 ++ ESwap i1 j1 :: l3).
        split; [reflexivity|]. split; [eapply perm_trans; [eapply swap_perm; eauto|auto]|].
        split; [lia|]. split; [lia|]. split; [left; lia|]. split; auto.
    - exists j1, a, (l1 ++ l2).
      split; [reflexivity|]. split; [auto|]. split; [auto|]. split; [lia|].
      split; [right; repeat split; auto; try lia; intros k x Hk Hx; apply (A1 k); auto; lia|].
      split; auto.
      intros k x Hk Hx. destruct (Nat.eq_dec k j1) as [->|]; [congruence|]. apply (HL1 k); auto; lia.
  Qed.

  (** cstl_raw_array_qsort_p on an array of at least one element, any pivot
      index inside it: never leaves the array, returns a permutation split
      at [m] around the pivot value; [m] is the last index only if the
      pivot index is. *)
  Lemma qsort_p_spec a p pv :
    nth_error a p = Some pv ->
    exists m a' l, qsort_p cmp a p = Ok (m, a', l) /\
      Permutation a a' /\ length a' = length a /\ m < length a /\
      (m < length a - 1 \/
       (p = length a - 1 /\ a' = a /\
        forall k x, k < length a - 1 -> nth_error a k = Some x -> (cmp x pv < 0)%Z)) /\
      (forall k x, k <= m -> nth_error a' k = Some x -> le x pv) /\
      (forall k x, m < k -> nth_error a' k = Some x -> le pv x).
  Proof.
    intros Hp. pose proof (nth_error_lt _ _ _ Hp) as Lp. unfold qsort_p.
    destruct (part_loop_spec (S (length a)) a 0 (length a - 1) p pv p pv p pv)
      as (m & a' & l & E & P & Len & M & Mk & L & R); auto; try lia.
    - intros k x Hk Hx. apply nth_error_lt in Hx. lia.
    - apply le_refl.
    - apply le_refl.
    - exists m, a', l. split; [auto|]. split; [auto|]. split; [auto|]. split; [lia|].
      split; auto.
      destruct Mk as [Mk|(Mk & -> & Hs)]; [left; lia|].
      destruct (Nat.lt_ge_cases m (length a - 1)); [left; lia|].
      right. repeat split; auto; try lia.
      intros k x Hk Hx. apply (Hs k); auto. lia.
  Qed.

  (** * median of three *)

  Lemma ss2 x y : le x y -> StronglySorted le [x; y].
  Proof. intros H. repeat constructor; auto. Qed.
  Lemma ss3 x y z : le x y -> le y z -> StronglySorted le [x; y; z].
  Proof. intros H1 H2. pose proof (le_trans _ _ _ H1 H2). repeat constructor; auto. Qed.

  Lemma med3_sorted2 x y :
    exists a' l, med3 cmp [x; y] = Ok (a', l) /\ StronglySorted le a'.
  Proof.
    unfold med3, cmpi, swap. cbn.
    destruct (Z.ltb_spec (cmp y x) 0) as [H1|H1]; cbn.
    - rewrite cmp_refl. cbn.
      destruct (Z.ltb_spec (cmp x y) 0) as [H2|H2]; cbn.
      + exfalso. apply cmp_anti in H1. lia.
      + eexists _, _. split; [reflexivity|]. apply ss2. apply lt_le; auto.
    - rewrite cmp_refl. cbn.
      destruct (Z.ltb_spec (cmp y x) 0) as [H2|H2]; cbn; [lia|].
      eexists _, _. split; [reflexivity|]. apply ss2. apply not_lt_le; lia.
  Qed.

  Lemma med3_sorted3 x y z :
    exists a' l, med3 cmp [x; y; z] = Ok (a', l) /\ StronglySorted le a'.
  Proof.
    unfold med3, cmpi, swap. cbn.
    destruct (Z.ltb_spec (cmp z x) 0) as [H1|H1]; cbn.
    - (* swapped: [z; y; x] with z < x *)
      destruct (Z.ltb_spec (cmp y z) 0) as [H2|H2]; cbn.
      + eexists _, _. split; [reflexivity|]. apply ss3; apply lt_le; auto.
      + destruct (Z.ltb_spec (cmp x y) 0) as [H3|H3]; cbn.
        * eexists _, _. split; [reflexivity|]. apply ss3; [apply lt_le; auto|apply lt_le; auto].
        * eexists _, _. split; [reflexivity|]. apply ss3; apply not_lt_le; lia.
    - destruct (Z.ltb_spec (cmp y x) 0) as [H2|H2]; cbn.
      + eexists _, _. split; [reflexivity|]. apply ss3; [apply lt_le; auto|apply not_lt_le; lia].
      + destruct (Z.ltb_spec (cmp z y) 0) as [H3|H3]; cbn.
        * eexists _, _. split; [reflexivity|]. apply ss3; [apply not_lt_le; lia|apply lt_le; auto].
        * eexists _, _. split; [reflexivity|]. apply ss3; apply not_lt_le; lia.
  Qed.

  Lemma half_lt n : 1 <= n -> n / 2 < n.
  Proof. intros H. apply Nat.div_lt; lia. Qed.

  Lemma med3_spec a : 2 <= length a ->
    exists a' l, med3 cmp a = Ok (a', l) /\ Permutation a a' /\ length a' = length a.
  Proof.
    intros Hn. unfold med3.
    set (e := length a - 1). set (p := e / 2).
    assert (He : e < length a) by (unfold e; lia).
    assert (Hp : p < e) by (unfold p, e; apply half_lt; lia).
    destruct (nth_error_ex a e He) as (xe & Ee).
    destruct (nth_error_ex a 0) as (x0 & E0); [lia|].
    rewrite (cmpi_ok _ _ _ _ _ Ee E0). cbn [bind].
    assert (S1 : exists a1 l1,
      (if (cmp xe x0 <? 0)%Z then a' <- swap a e 0 ;; Ok (a', [ECmp e 0; ESwap e 0]) else Ok (a, [ECmp e 0]))
      = Ok (a1, l1) /\ Permutation a a1 /\ length a1 = length a).
    { destruct (cmp xe x0 <? 0)%Z.
      - destruct (swap_ok a e 0) as (a1 & Es); auto; try lia.
        rewrite Es. cbn [bind]. eexists _, _. split; [reflexivity|].
        split; [eapply swap_perm; eauto|eapply swap_length; eauto].
      - eexists _, _. split; [reflexivity|]. auto. }
    destruct S1 as (a1 & l1 & -> & P1 & L1). cbn [bind].
    destruct (nth_error_ex a1 p) as (yp & Ep); [lia|].
    destruct (nth_error_ex a1 0) as (y0 & E0'); [lia|].
    destruct (nth_error_ex a1 e) as (ye & Ee'); [lia|].
    rewrite (cmpi_ok _ _ _ _ _ Ep E0'). cbn [bind].
    destruct (Z.ltb_spec (cmp yp y0) 0) as [H2|H2].
    - assert (p <> 0).
      { intros Z. rewrite Z in Ep. rewrite Ep in E0'. injection E0' as ->. rewrite cmp_refl in H2. lia. }
      destruct (swap_ok a1 p 0) as (a2 & Es); auto; try lia.
      rewrite Es. cbn [bind]. eexists _, _. split; [reflexivity|].
      split; [eapply perm_trans; [eauto|eapply swap_perm; eauto]|].
      rewrite (swap_length _ _ _ _ Es). auto.
    - rewrite (cmpi_ok _ _ _ _ _ Ee' Ep). cbn [bind].
      destruct (Z.ltb_spec (cmp ye yp) 0) as [H3|H3].
      + destruct (swap_ok a1 e p) as (a2 & Es); auto; try lia.
        rewrite Es. cbn [bind]. eexists _, _. split; [reflexivity|].
        split; [eapply perm_trans; [eauto|eapply swap_perm; eauto]|].
        rewrite (swap_length _ _ _ _ Es). auto.
      + eexists _, _. split; [reflexivity|]. auto.
  Qed.

  (** * quicksort *)

  Lemma ss_short (a : list A) : length a <= 1 -> StronglySorted le a.
  Proof. destruct a as [|x [|y r]]; simpl; intros H; try lia; repeat constructor. Qed.

  Lemma ss_app l1 l2 :
    StronglySorted le l1 -> StronglySorted le l2 ->
    (forall x y, In x l1 -> In y l2 -> le x y) ->
    StronglySorted le (l1 ++ l2).
  Proof.
    intros S1 S2 H. induction S1 as [|x l1 S1 IH F]; simpl; auto.
    constructor.
    - apply IH. intros; apply H; simpl; auto.
    - apply Forall_app. split; auto. apply Forall_forall. intros y Hy. apply H; simpl; auto.
  Qed.

  (** the pivot selection of cstl_raw_array_qsort, named *)
  Definition pivot_sel (al : alg) (rnd : nat -> N) (k : nat) (a : list A)
    : res (list A * nat * nat * list ev) :=
    match al with
    | QuickR => let v := rnd k in
                Ok (a, N.to_nat (v mod N.of_nat (length a)), S k, [ERand (length a) v])
    | QuickM => '(a', l) <- med3 cmp a ;; Ok (a', (length a - 1) / 2, k, l)
    | _ => Ok (a, 0, k, [])
    end.

  Lemma qsort_unfold f al rnd k a :
    qsort cmp (S f) al rnd k a =
    if 1 <? length a then
      '(a1, p, k1, l1) <- pivot_sel al rnd k a ;;
      if negb (is_m al) || (3 <? length a) then
        '(m, a2, l2) <- qsort_p cmp a1 p ;;
        '(lo, k2, l3) <- qsort cmp f al rnd k1 (firstn (S m) a2) ;;
        '(hi, k3, l4) <- qsort cmp f al rnd k2 (skipn (S m) a2) ;;
        Ok (lo ++ hi, k3, l1 ++ l2 ++ l3 ++ map (shift (S m)) l4)
      else Ok (a1, k1, l1)
    else Ok (a, k, []).
  Proof. destruct al; reflexivity. Qed.

  Lemma qsort_0 al rnd k a :
    qsort cmp 0 al rnd k a = if 1 <? length a then NoFuel else Ok (a, k, []).
  Proof. reflexivity. Qed.

  Lemma pivot_sel_spec al rnd k a : 2 <= length a ->
    exists a1 p k1 l1 pv, pivot_sel al rnd k a = Ok (a1, p, k1, l1) /\
      Permutation a a1 /\ length a1 = length a /\ nth_error a1 p = Some pv /\
      k <= k1 /\
      (al <> QuickR -> k1 = k /\ p < length a - 1) /\
      (al = QuickR -> k1 = S k /\ p = N.to_nat (rnd k mod N.of_nat (length a))) /\
      (is_m al = true -> length a <= 3 -> StronglySorted le a1).
  Proof.
    intros Hn. destruct al; cbn [pivot_sel is_m].
    - destruct (nth_error_ex a 0) as (pv & E); [lia|].
      exists a, 0, k, [], pv. repeat split; auto; try lia; try congruence; discriminate.
    - assert (Hp : N.to_nat (rnd k mod N.of_nat (length a)) < length a).
      { pose proof (N.mod_upper_bound (rnd k) (N.of_nat (length a))). lia. }
      destruct (nth_error_ex a _ Hp) as (pv & E).
      eexists a, _, (S k), _, pv. split; [reflexivity|].
      repeat split; auto; try lia; try congruence; discriminate.
    - destruct (med3_spec a Hn) as (a1 & l1 & E & P & L). rewrite E. cbn [bind].
      assert (Hp : (length a - 1) / 2 < length a - 1) by (apply half_lt; lia).
      destruct (nth_error_ex a1 ((length a - 1) / 2)) as (pv & Ep); [lia|].
      eexists a1, _, k, l1, pv. split; [reflexivity|].
      repeat split; auto; try lia; try congruence.
      intros _ H3. destruct a as [|x [|y [|z [|w r]]]]; simpl in Hn, H3; try lia.
      + destruct (med3_sorted2 x y) as (a' & l' & E' & S'). rewrite E in E'. injection E' as -> ->. auto.
      + destruct (med3_sorted3 x y z) as (a' & l' & E' & S'). rewrite E in E'. injection E' as -> ->. auto.
    - destruct (nth_error_ex a 0) as (pv & E); [lia|].
      exists a, 0, k, [], pv. repeat split; auto; try lia; try congruence; discriminate.
  Qed.

  Lemma firstn_all_le (a : list A) m pv :
    (forall k x, k <= m -> nth_error a k = Some x -> le x pv) ->
    forall x, In x (firstn (S m) a) -> le x pv.
  Proof.
    intros H x I. apply In_nth_error in I. destruct I as (k & I).
    assert (k < S m).
    { apply nth_error_lt in I. rewrite firstn_length in I. lia. }
    rewrite nth_error_firstn_lt in I by auto. apply (H k); auto. lia.
  Qed.

  Lemma skipn_all_ge (a : list A) m pv :
    (forall k x, m < k -> nth_error a k = Some x -> le pv x) ->
    forall x, In x (skipn (S m) a) -> le pv x.
  Proof.
    intros H x I. apply In_nth_error in I. destruct I as (k & I).
    rewrite nth_error_skipn in I. apply (H (S m + k)); auto. lia.
  Qed.

  (** Whatever the fuel, the algorithm and the pivot oracle: the model never
      steps outside an array, and when it returns the result is a sorted
      permutation (and the rand() counter only advances). *)
  Lemma qsort_spec fuel : forall al rnd k a,
    match qsort cmp fuel al rnd k a with
    | Ok (a', k', _) => Permutation a a' /\ StronglySorted le a' /\ k <= k'
    | Ub => False
    | NoFuel => True
    end.
  Proof.
    induction fuel as [|f IH]; intros al rnd k a.
    - rewrite qsort_0. destruct (Nat.ltb_spec 1 (length a)); auto.
      repeat split; auto. apply ss_short; lia.
    - rewrite qsort_unfold. destruct (Nat.ltb_spec 1 (length a)) as [Hn|Hn].
      2:{ repeat split; auto. apply ss_short; lia. }
      destruct (pivot_sel_spec al rnd k a Hn) as (a1 & p & k1 & l1 & pv & E & P1 & L1 & Hp & Hk & _ & _ & HM).
      rewrite E. cbn [bind].
      destruct (negb (is_m al) || (3 <? length a)) eqn:G.
      2:{ apply orb_false_iff in G. destruct G as (G1 & G2). apply negb_false_iff in G1.
          apply Nat.ltb_ge in G2. repeat split; auto. }
      destruct (qsort_p_spec a1 p pv Hp) as (m & a2 & l2 & E2 & P2 & L2 & M2 & _ & Lo & Hi).
      rewrite E2. cbn [bind].
      specialize (IH al rnd k1 (firstn (S m) a2)) as IHlo.
      destruct (qsort cmp f al rnd k1 (firstn (S m) a2)) as [[[lo k2] l3]| |]; cbn [bind]; auto.
      destruct IHlo as (Plo & Slo & Klo).
      specialize (IH al rnd k2 (skipn (S m) a2)) as IHhi.
      destruct (qsort cmp f al rnd k2 (skipn (S m) a2)) as [[[hi k3] l4]| |]; cbn [bind]; auto.
      destruct IHhi as (Phi & Shi & Khi).
      repeat split; try lia.
      + eapply perm_trans; [exact P1|]. eapply perm_trans; [exact P2|].
        rewrite <- (firstn_skipn (S m) a2) at 1. apply Permutation_app; auto.
      + apply ss_app; auto. intros x y Hx Hy.
        apply le_trans with pv.
        * apply (firstn_all_le a2 m pv Lo). eapply Permutation_in; [apply Permutation_sym; exact Plo|auto].
        * apply (skipn_all_ge a2 m pv Hi). eapply Permutation_in; [apply Permutation_sym; exact Phi|auto].
  Qed.

  (** termination of the deterministic variants: fuel = length suffices *)
  Lemma qsort_terminates_det fuel : forall al rnd k a,
    al <> QuickR -> length a <= fuel -> qsort cmp fuel al rnd k a <> NoFuel.
  Proof.
    induction fuel as [|f IH]; intros al rnd k a Hal Hf.
    - rewrite qsort_0. destruct (Nat.ltb_spec 1 (length a)); [lia|discriminate].
    - rewrite qsort_unfold. destruct (Nat.ltb_spec 1 (length a)) as [Hn|Hn]; [|discriminate].
      destruct (pivot_sel_spec al rnd k a Hn) as (a1 & p & k1 & l1 & pv & E & P1 & L1 & Hp & Hk & HD & _ & HM).
      rewrite E. cbn [bind]. destruct (HD Hal) as (-> & Hplt).
      destruct (negb (is_m al) || (3 <? length a)); [|discriminate].
      destruct (qsort_p_spec a1 p pv Hp) as (m & a2 & l2 & E2 & P2 & L2 & M2 & Mlt & Lo & Hi).
      rewrite E2. cbn [bind].
      assert (Hm : m < length a - 1) by lia.
      pose proof (qsort_spec f al rnd k (firstn (S m) a2)) as Slo.
      pose proof (IH al rnd k (firstn (S m) a2) Hal) as Tlo.
      rewrite firstn_length in Tlo.
      destruct (qsort cmp f al rnd k (firstn (S m) a2)) as [[[lo k2] l3]| |]; cbn [bind]; try tauto.
      2:{ exfalso. apply Tlo; auto. lia. }
      pose proof (qsort_spec f al rnd k2 (skipn (S m) a2)) as Shi.
      pose proof (IH al rnd k2 (skipn (S m) a2) Hal) as Thi.
      rewrite skipn_length in Thi.
      destruct (qsort cmp f al rnd k2 (skipn (S m) a2)) as [[[hi k3] l4]| |]; cbn [bind]; try tauto.
      + discriminate.
      + exfalso. apply Thi; auto. lia.
  Qed.

  (** termination of the randomised variant.  A level is retried (same
      array, next draw) only when the draw selects the last index; if from
      the K-th call on rand() never produces "count - 1 modulo count", at
      most K - k retries can happen. *)
  Definition never_last_from (rnd : nat -> N) (K : nat) : Prop :=
    forall k c, K <= k -> 2 <= c -> N.to_nat (rnd k mod N.of_nat c) <> c - 1.

  Lemma qsort_terminates_R fuel : forall rnd K k a,
    never_last_from rnd K -> length a + (K - k) <= fuel ->
    qsort cmp fuel QuickR rnd k a <> NoFuel.
  Proof.
    induction fuel as [|f IH]; intros rnd K k a HK Hf.
    - rewrite qsort_0. destruct (Nat.ltb_spec 1 (length a)); [lia|discriminate].
    - rewrite qsort_unfold. destruct (Nat.ltb_spec 1 (length a)) as [Hn|Hn]; [|discriminate].
      destruct (pivot_sel_spec QuickR rnd k a Hn) as (a1 & p & k1 & l1 & pv & E & P1 & L1 & Hp & Hk & _ & HR & _).
      rewrite E. cbn [bind]. destruct (HR eq_refl) as (-> & Hpeq).
      cbn [is_m negb orb].
      destruct (qsort_p_spec a1 p pv Hp) as (m & a2 & l2 & E2 & P2 & L2 & M2 & Mlt & Lo & Hi).
      rewrite E2. cbn [bind].
      assert (Hlo : S m + (K - S k) <= f).
      { destruct Mlt as [Mlt|(Mlt & _)]; [lia|].
        destruct (Nat.lt_ge_cases k K) as [HkK|HkK]; [lia|].
        exfalso. apply (HK k (length a)); auto. lia. }
      pose proof (qsort_spec f QuickR rnd (S k) (firstn (S m) a2)) as Slo.
      pose proof (IH rnd K (S k) (firstn (S m) a2) HK) as Tlo.
      rewrite firstn_length in Tlo.
      destruct (qsort cmp f QuickR rnd (S k) (firstn (S m) a2)) as [[[lo k2] l3]| |]; cbn [bind]; try tauto.
      2:{ exfalso. apply Tlo; auto. lia. }
      destruct Slo as (_ & _ & Hk2).
      pose proof (qsort_spec f QuickR rnd k2 (skipn (S m) a2)) as Shi.
      pose proof (IH rnd K k2 (skipn (S m) a2) HK) as Thi.
      rewrite skipn_length in Thi.
      destruct (qsort cmp f QuickR rnd k2 (skipn (S m) a2)) as [[[hi k3] l4]| |]; cbn [bind]; try tauto.
      + discriminate.
      + exfalso. apply Thi; auto. lia.
  Qed.

  (** the caveat is real: a rand() that always selects the last index of a
      two-element array already in order makes every level a retry *)
  Lemma qsortR_retries_forever x y k :
    (cmp x y < 0)%Z -> forall fuel, qsort cmp fuel QuickR (fun _ => 1%N) k [x; y] = NoFuel.
  Proof.
    intros H fuel. revert k. induction fuel as [|f IH]; intros k; [reflexivity|].
    rewrite qsort_unfold. cbn [length Nat.ltb Nat.leb pivot_sel bind is_m negb orb].
    change (N.to_nat (1 mod N.of_nat 2)) with 1.
    assert (E : qsort_p cmp [x; y] 1 = Ok (1, [x; y], [ECmp 0 1; ECmp 1 1; ECmp 1 1])).
    { unfold qsort_p. cbn [length part_loop scan_up scan_down cmpi nth_error bind Nat.sub].
      rewrite cmp_refl. destruct (Z.ltb_spec (cmp x y) 0); [|lia]. cbn. reflexivity. }
    rewrite E. cbn [bind firstn]. rewrite IH. reflexivity.
  Qed.
End Proofs.
