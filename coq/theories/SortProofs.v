(** Proofs about SortModel.v (C11). *)
From Cstl Require Import Prelude SortModel.

Section Proofs.
  Context {A : Type}.
  Variable cmp : A -> A -> Z.

  (** * linear find *)
  Lemma find_from_spec ex l i :
    match fst (find_from cmp ex l i) with
    | Z.neg _ => fst (find_from cmp ex l i) = (-1)%Z /\ Forall (fun x => cmp ex x <> 0%Z) l
    | z => exists k x, z = Z.of_nat (i + k) /\ nth_error l k = Some x /\ cmp ex x = 0%Z /\
                       Forall (fun y => cmp ex y <> 0%Z) (firstn k l)
    end.
  Proof.
    revert i; induction l as [|x r IH]; intros i; simpl.
    - split; auto.
    - destruct (Z.eqb_spec (cmp ex x) 0) as [E|E]; simpl.
      + assert (H : exists k y, Z.of_nat i = Z.of_nat (i + k) /\ nth_error (x :: r) k = Some y /\
                               cmp ex y = 0%Z /\ Forall (fun y => cmp ex y <> 0%Z) (firstn k (x :: r))).
        { exists 0, x. rewrite Nat.add_0_r. simpl. auto. }
        destruct (Z.of_nat i) eqn:Ei; auto. lia.
      + specialize (IH (S i)). destruct (find_from cmp ex r (S i)) as [z lg]. simpl in *.
        destruct z as [|q|q].
        * destruct IH as (k & y & H1 & H2 & H3 & H4). exists (S k), y. simpl.
          repeat split; auto. lia.
        * destruct IH as (k & y & H1 & H2 & H3 & H4). exists (S k), y. simpl.
          repeat split; auto. lia.
        * destruct IH as (H1 & H2). split; auto.
  Qed.
End Proofs.
