(** Proofs about ArrayViewModel.v (C14, C20). *)
From Cstl Require Import Prelude AllocModel MemModel ArrayViewModel MemProofs.
Local Open Scope N_scope.

(** the slice bound test of the repaired code is the natural-number test *)
Lemma slice_check_nat off nm b e :
  ((e <? b) || (nm <? off) || (nm - off <? e)) = false <-> b <= e /\ off + e <= nm.
Proof.
  rewrite !orb_false_iff, !N.ltb_ge. split; intros H; lia.
Qed.
