(** Proofs about ArrayViewModel.v (C14, C20). *)
From Cstl Require Import Prelude AllocModel MemModel ArrayViewModel MemProofs.
Local Open Scope N_scope.

(** the slice bound test of the repaired code is the natural-number test *)
Lemma slice_check_nat off nm b e :
  ((e <? b) || (nm <? off) || (nm - off <? e)) = false <-> b <= e /\ off + e <= nm.
Proof. rewrite !orb_false_iff, !N.ltb_ge. split; intros H; lia. Qed.

Lemma wrap64_small x : x <= MAX64 -> wrap64 x = x.
Proof. intros H. unfold wrap64. apply N.mod_small. unfold MAX64 in H. lia. Qed.

(** * The view invariant *)
(** the buffer described by [de] inside block [m] holds all its elements *)
Definition buf_ok (s : st) (m : nat) (de : desc) : Prop :=
  dnm de <= MAX64 /\
  match dbuf de with
  | Inline => exists bs, block_size (al s) m = Some bs /\ HDR + dnm de * dsz de <= bs /\ bs <= MAX64
  | Ext e => exists c, nth_error (exts s) e = Some c /\ dnm de * dsz de <= c /\ c <= MAX64
  end.

(** array object [o]: empty with offset = length = 0, or a view inside the
    element range of a live descriptor *)
Definition aok (s : st) (o : obj) : Prop :=
  match gp (ogp o) with
  | None => ooff o = 0 /\ olen o = 0
  | Some d => exists D m de, lookup d (datas s) = Some D /\ gp (ugp (dup D)) = Some m /\
                             lookup m (descs s) = Some de /\ ooff o + olen o <= dnm de /\ buf_ok s m de
  end.

Definition ainv (s : st) : Prop :=
  forall j o, nth_error (objs s) j = Some o -> okind o = KA -> wf_obj j o = true -> aok s o.

Lemma ainv_init ks ex : ainv (st_init ks ex).
Proof.
  intros j o E K W. unfold st_init in E. cbn [objs] in E. destruct (pool_init_nth ks 0 j o E) as (k & ->).
  unfold aok. cbn. auto.
Qed.

(** [aok] looks at the state only through datas, descs, block sizes, exts *)
Lemma aok_ext s s' o :
  (forall d, lookup d (datas s') = lookup d (datas s)) -> (forall m, lookup m (descs s') = lookup m (descs s)) ->
  (forall m, block_size (al s') m = block_size (al s) m) -> exts s' = exts s -> aok s o -> aok s' o.
Proof.
  intros DT DS BS EX. unfold aok, buf_ok. destruct (gp (ogp o)); auto.
  intros (D & m & de & A1 & A2 & A3 & A4 & A5). exists D, m, de. rewrite DT, DS, BS, EX. auto.
Qed.

(** an unchanged well-formed array object across a framed transition *)
Lemma aok_frame s s' j o :
  inv s -> inv s' -> frame s s' ->
  nth_error (objs s') j = Some o -> okind o = KA -> wf_obj j o = true -> aok s o -> aok s' o.
Proof.
  intros I I' F E' K W A. unfold aok in *. destruct (gp (ogp o)) as [d|] eqn:G; auto.
  destruct A as (D & m & de & L & M & LD & V & B).
  assert (T : tgt j o = Some d) by (unfold tgt; rewrite W; auto).
  assert (KO : ownerk (ek None j o) = true) by (cbn; rewrite K; reflexivity).
  destruct (owner_data None s' j o d I' E' KO T) as (D' & L' & P').
  pose proof (frame_owner_keeps s s' d D D' I I' F L L' P') as EQ.
  destruct (inv_mem _ _ I' d D' L' P') as (m' & M' & Lm' & _). rewrite EQ, M in M'. injection M' as <-.
  destruct F as [F]. pose proof (inv_log _ _ I) as (AO & _).
  destruct (F AO) as (_ & EX & _ & _ & DS & BS & _).
  pose proof (inv_log _ _ I') as (_ & NB & _ & FR & _).
  assert (NF : ~ In (MA (EvFree m)) (log s')).
  { intros IN. apply In_freed in IN. apply FR in IN. destruct IN as (_ & X). congruence. }
  exists D', m, de. split; auto. split; [congruence|]. split.
  - destruct (DS m) as [X|[X|X]]; [congruence|tauto|exfalso; eapply NB; eauto].
  - split; auto. unfold buf_ok in *. destruct B as (B0 & B). split; auto. destruct (dbuf de).
    + destruct B as (bs & B1 & B2). exists bs. split; auto.
      destruct (managed_live None s d D m I L M) as (_ & Lm & _).
      destruct (BS m Lm) as [X|X]; [congruence|tauto].
    + rewrite EX. auto.
Qed.

Section PtrStep.
  Variable ok : nat -> N -> bool.

  Lemma ainv_mstep s o s' out : inv s -> ainv s -> mstep ok s o = Done s' out -> ainv s'.
  Proof.
    intros I A E j oj Ej K W.
    pose proof (mstep_outcome ok s o I) as Q. rewrite E in Q. destruct Q as (I' & _).
    pose proof (mstep_arrays ok s o s' out j oj E Ej K W) as Ej0.
    apply (aok_frame s s' j oj I I' (frame_mstep ok s o s' out E) Ej K W). apply (A j oj Ej0 K W).
  Qed.
End PtrStep.

Lemma frame_exts s s' : inv s -> frame s s' -> exts s' = exts s.
Proof. intros I [F]. destruct (F (proj1 (inv_log _ _ I))) as (_ & X & _). exact X. Qed.

Ltac conj := repeat (split; [solve [auto]|]); auto.

(** ** helpers for the array functions *)
Definition olo (o : obj) (off len : N) : obj := mkO (okind o) (ogp o) (oclr o) off len.

Lemma set_offlen_eq s a o off len :
  nth_error (objs s) a = Some o -> set_offlen s a off len = set_objs s (upd (objs s) a (olo o off len)).
Proof. intros E. unfold set_offlen. rewrite E. reflexivity. Qed.

Lemma inv_set_offlen s a o off len :
  inv s -> nth_error (objs s) a = Some o -> inv (set_objs s (upd (objs s) a (olo o off len))).
Proof.
  intros I E. apply pinv_upd_same_tgt with (o := o); auto.
  intros K W G. pose proof (inv_uniq _ _ I a o E K W) as Q. cbn in G. rewrite G in Q. exact Q.
Qed.

Lemma inv_wr_desc s m de : inv s -> inv (wr_desc s m de).
Proof. intros I. unfold wr_desc, set_descs. apply (pinv_ext None s (al s) (datas s) _ (log s) I); auto. apply I. Qed.

Lemma frame_set_offlen s a off len : frame s (set_offlen s a off len).
Proof. unfold set_offlen. destruct (nth_error (objs s) a); [apply frame_set_objs|apply frame_refl]. Qed.

Lemma aok_set_objs s l o : aok (set_objs s l) o <-> aok s o.
Proof. split; apply aok_ext; auto. Qed.

Lemma aok_olo s o off len :
  aok s o -> (match gp (ogp o) with
              | None => off = 0 /\ len = 0
              | Some d => forall D m de, lookup d (datas s) = Some D -> gp (ugp (dup D)) = Some m ->
                                         lookup m (descs s) = Some de -> off + len <= dnm de
              end) -> aok s (olo o off len).
Proof.
  unfold aok, olo. cbn [ogp ooff olen]. destruct (gp (ogp o)); auto.
  intros (D & m & de & A1 & A2 & A3 & A4 & A5) H. exists D, m, de. split; auto. split; auto. split; auto. split; eauto.
Qed.

Lemma shared_reset_null s a o : nth_error (objs s) a = Some o -> wf_obj a o = true -> gp (ogp o) = None -> shared_reset s a = Ok s.
Proof. intros E W G. unfold shared_reset, rd_gp, gget. rewrite E. cbn [bind]. unfold wf_obj in W. rewrite W. cbn [bind]. rewrite G. reflexivity. Qed.

(** cstl_array_reset *)
Lemma array_reset_spec s a o :
  inv s -> ainv s -> nth_error (objs s) a = Some o -> okind o = KA -> wf_obj a o = true ->
  exists s', array_reset s a = Ok s' /\ inv s' /\ ainv s' /\ frame s s' /\
             objs s' = upd (objs s) a (olo (ptr_obj a o None) 0 0).
Proof.
  intros I A E K W. assert (KO : ownerk (okind o) = true) by (rewrite K; reflexivity).
  destruct (shared_reset_spec s a o I E KO W) as (s1 & R & I1 & O1).
  unfold array_reset. rewrite R. cbn [bind].
  assert (E1 : nth_error (objs s1) a = Some (ptr_obj a o None)) by (rewrite O1; eapply nth_upd_same; eauto).
  rewrite (set_offlen_eq s1 a _ 0 0 E1). eexists. split; [reflexivity|].
  pose proof (frame_shared_reset s a s1 R) as F1.
  assert (I' : inv (set_objs s1 (upd (objs s1) a (olo (ptr_obj a o None) 0 0)))) by (apply inv_set_offlen; auto).
  split; auto. split; [|split].
  - intros j oj Ej Kj Wj. apply aok_set_objs. cbn [objs set_objs] in Ej. rewrite nth_error_upd in Ej.
    destruct (Nat.eqb_spec a j) as [->|N].
    + destruct (Nat.ltb j (length (objs s1))); [|discriminate]. injection Ej as <-. unfold aok. cbn. auto.
    + assert (Ej1 : nth_error (objs s1) j = Some oj) by exact Ej.
      assert (Ej0 : nth_error (objs s) j = Some oj) by (rewrite O1, nth_upd_other in Ej1; auto).
      apply (aok_frame s s1 j oj I I1 F1 Ej1 Kj Wj). apply (A j oj Ej0 Kj Wj).
  - eapply frame_trans; [exact F1|apply frame_set_objs].
  - cbn [objs set_objs]. rewrite O1, upd_upd. reflexivity.
Qed.

Lemma is64_le x : is64 x = true -> x <= MAX64.
Proof. unfold is64, MAX64. intros H. apply N.ltb_lt in H. lia. Qed.

(** the representability test of the repaired cstl_array_alloc *)
Lemma alloc_check nm sz :
  sz <= MAX64 ->
  (negb (sz =? 0) && ((MAX64 - HDR) / sz <? nm)) = false <-> HDR + nm * sz <= MAX64.
Proof.
  intros S. unfold MAX64, HDR in *. destruct (N.eqb_spec sz 0) as [->|NZ]; cbn [negb andb].
  - rewrite N.mul_0_r. split; [lia|auto].
  - rewrite N.ltb_ge. split.
    + intros H. assert (nm * sz <= (18446744073709551615 - 24) / sz * sz) by (apply N.mul_le_mono_r; auto).
      pose proof (N.mul_div_le (18446744073709551615 - 24) sz NZ). lia.
    + intros H. apply N.div_le_lower_bound; lia.
Qed.

Lemma block_size_malloc ok a sz a' m b :
  malloc ok a sz = (a', Some m) -> block_size a' b = if Nat.eqb m b then Some sz else block_size a b.
Proof.
  intros M. apply malloc_some in M. destruct M as (-> & L & _). unfold block_size. rewrite L. cbn.
  destruct (Nat.eqb_spec (next a) b); reflexivity.
Qed.

Section ArrAlloc.
  Variable ok : nat -> N -> bool.

  (** cstl_array_alloc (repaired): the object lets go of what it had; then it
      either views a fresh block large enough for [nm] elements of [sz] bytes,
      with offset 0 and length [nm], or it is empty *)
  Lemma array_alloc_spec s a o nm sz :
    inv s -> ainv s -> nth_error (objs s) a = Some o -> okind o = KA -> wf_obj a o = true ->
    nm <= MAX64 -> sz <= MAX64 ->
    exists s' p, array_alloc ok false s a nm sz = Ok s' /\ inv s' /\ ainv s' /\ exts s' = exts s /\
      objs s' = upd (objs s) a (olo (ptr_obj a o p) 0 (match p with Some _ => nm | None => 0 end)) /\
      match p with
      | None => True
      | Some d => exists m, lookup d (datas s') = Some (mkD 1 1 (mkU (mkG (AData d) (Some m)) None)) /\
                            lookup m (descs s') = Some (mkDesc sz nm Inline) /\
                            HDR + nm * sz <= MAX64
      end.
  Proof.
    intros I A E K W Nm Sz. destruct (array_reset_spec s a o I A E K W) as (s1 & R & I1 & A1 & F1 & O1).
    unfold array_alloc. cbn [negb andb]. rewrite R. cbn [bind].
    set (o1 := olo (ptr_obj a o None) 0 0) in *.
    assert (E1 : nth_error (objs s1) a = Some o1) by (rewrite O1; eapply nth_upd_same; eauto).
    assert (W1 : wf_obj a o1 = true) by (unfold wf_obj; cbn; apply Nat.eqb_refl).
    assert (K1 : ownerk (okind o1) = true) by (cbn; rewrite K; reflexivity).
    pose proof (frame_exts s s1 I F1) as X1.
    destruct (negb (sz =? 0) && ((MAX64 - HDR) / sz <? nm)) eqn:CHK.
    { exists s1, None. split; [reflexivity|]. split; [exact I1|]. split; [exact A1|]. split; [exact X1|]. split; [exact O1|exact Logic.I]. }
    apply alloc_check in CHK; auto.
    assert (WR : wrap64 (HDR + wrap64 (nm * sz)) = HDR + nm * sz).
    { rewrite (wrap64_small (nm * sz)) by (unfold HDR in *; lia). apply wrap64_small; auto. }
    rewrite WR.
    destruct (shared_alloc_spec ok s1 a o1 (HDR + nm * sz) None I1 E1 K1 W1) as (s1r & s2 & R1 & _ & R2 & I2 & C).
    rewrite (shared_reset_null s1 a o1 E1 W1 eq_refl) in R1. injection R1 as <-.
    rewrite R2. cbn [bind].
    pose proof (frame_shared_alloc ok s1 a _ None s2 R2) as F2.
    pose proof (frame_exts s1 s2 I1 F2) as X2.
    pose proof (ofr_shared_alloc ok s1 a _ None s2 [a] (or_introl eq_refl) R2) as (OF & _).
    assert (SAME : forall j, j <> a -> nth_error (objs s2) j = nth_error (objs s1) j).
    { intros j N. apply OF. cbn. intros [X|[]]. congruence. }
    (* other array objects are carried over *)
    assert (OTH : forall j oj, j <> a -> nth_error (objs s2) j = Some oj -> okind oj = KA -> wf_obj j oj = true -> aok s2 oj).
    { intros j oj N Ej Kj Wj. apply (aok_frame s1 s2 j oj I1 I2 F2 Ej Kj Wj).
      apply (A1 j oj); auto. rewrite <- SAME; auto. }
    destruct C as [(d & m & a1 & _ & M1 & M2 & O2 & L2 & DS2)|(O2 & LV & _ & _)].
    - (* both requests granted *)
      assert (E2 : nth_error (objs s2) a = Some (ptr_obj a o1 (Some d))) by (rewrite O2; eapply nth_upd_same; eauto).
      assert (G2 : shared_get s2 a = Ok (Some m)).
      { unfold shared_get, rd_gp. rewrite E2. cbn [bind ogp ptr_obj]. unfold gget. cbn [gself gp]. rewrite addr_eqb_refl.
        cbn [bind]. unfold rd_data. rewrite L2. cbn [bind dup ugp gself gp]. rewrite addr_eqb_refl. reflexivity. }
      rewrite G2. cbn [bind].
      assert (Bm0 : block_size (al s2) m = Some (HDR + nm * sz)).
      { rewrite (block_size_malloc ok _ _ _ _ m M2), Nat.eqb_refl. reflexivity. }
      rewrite Bm0. replace (HDR <=? HDR + nm * sz) with true by (symmetry; apply N.leb_le; lia).
      assert (OFF : off_at (wr_desc s2 m (mkDesc sz nm Inline)) a = 0).
      { unfold off_at, wr_desc, set_descs. cbn [objs]. rewrite E2. reflexivity. }
      rewrite OFF. rewrite (set_offlen_eq _ a (ptr_obj a o1 (Some d))) by (unfold wr_desc, set_descs; cbn [objs]; exact E2).
      assert (Fd : is_live (al s1) d = false).
      { pose proof (malloc_some ok _ _ _ _ M1) as (Ed & _). subst d. apply fresh_not_live. apply (inv_log _ _ I1). }
      assert (Bm : block_size (al s2) m = Some (HDR + nm * sz)).
      { rewrite (block_size_malloc ok _ _ _ _ m M2), Nat.eqb_refl. reflexivity. }
      eexists. exists (Some d). split; [reflexivity|].
      assert (I3 : inv (set_objs (wr_desc s2 m (mkDesc sz nm Inline))
                          (upd (objs (wr_desc s2 m (mkDesc sz nm Inline))) a (olo (ptr_obj a o1 (Some d)) 0 nm)))).
      { apply inv_set_offlen; [apply inv_wr_desc; auto|exact E2]. }
      split; auto. split; [|split; [cbn; congruence|split]].
      + intros j oj Ej Kj Wj. apply aok_set_objs. cbn [objs set_objs wr_desc set_descs] in Ej.
        rewrite nth_error_upd in Ej. destruct (Nat.eqb_spec a j) as [->|N].
        * destruct (Nat.ltb j (length (objs s2))); [|discriminate]. injection Ej as <-.
          unfold aok. cbn [ogp olo ptr_obj gp ooff olen].
          eexists. exists m. eexists. unfold wr_desc, set_descs. cbn [datas descs al exts].
          rewrite lookup_store, Nat.eqb_refl. split; [exact L2|]. split; [reflexivity|]. split; [reflexivity|].
          cbn [dnm dsz dbuf]. split; [lia|]. unfold buf_ok. cbn [dbuf dnm dsz al]. split; [exact Nm|]. exists (HDR + nm * sz). split; auto. split; lia.
        * pose proof (OTH j oj (not_eq_sym N) Ej Kj Wj) as B. unfold aok in *. destruct (gp (ogp oj)) as [dj|] eqn:Gj; auto.
          destruct B as (Dj & mj & dej & B1 & B2 & B3 & B4 & B5). exists Dj, mj, dej.
          unfold wr_desc, set_descs. cbn [datas descs]. rewrite lookup_store.
          assert (mj <> m).
          { intros ->. assert (dj = d) by (eapply (inv_excl_dd _ _ I2); eauto; rewrite L2; reflexivity). subst dj.
            (* then j would have referred to the fresh block before it existed *)
            assert (Ej1 : nth_error (objs s1) j = Some oj) by (rewrite <- SAME; auto).
            assert (Tj : tgt j oj = Some d) by (unfold tgt; rewrite Wj; auto).
            assert (KOj : ownerk (ek None j oj) = true) by (cbn; rewrite Kj; reflexivity).
            destruct (owner_data None s1 j oj d I1 Ej1 KOj Tj) as (D1 & LD1 & _).
            rewrite (inv_live _ _ I1 d D1 LD1) in Fd. discriminate. }
          destruct (Nat.eqb_spec m mj); [congruence|]. conj.
      + cbn [objs set_objs wr_desc set_descs]. rewrite O2, O1, !upd_upd. reflexivity.
      + exists m. unfold wr_desc, set_descs. cbn [datas descs set_objs]. rewrite lookup_store, Nat.eqb_refl.
        split; auto.
    - (* a request was refused: the object stays empty *)
      assert (E2 : nth_error (objs s2) a = Some o1).
      { rewrite O2. replace (ptr_obj a o1 None) with o1 by reflexivity. rewrite upd_same; auto. }
      assert (G2 : shared_get s2 a = Ok None).
      { unfold shared_get, rd_gp. rewrite E2. cbn [bind ogp]. unfold gget. cbn [gself gp olo ptr_obj ogp o1]. rewrite addr_eqb_refl. reflexivity. }
      rewrite G2. cbn [bind]. exists s2, None. split; [reflexivity|]. split; [exact I2|]. split; [|split; [congruence|split; [|exact Logic.I]]].
      + intros j oj Ej Kj Wj. destruct (Nat.eq_dec j a) as [->|N]; [|apply OTH with (j := j); auto].
        assert (oj = o1) by congruence. subst oj. unfold aok. cbn. auto.
      + rewrite O2, O1, upd_upd. reflexivity.
  Qed.
End ArrAlloc.

(** what a non-empty well-formed array object leads to *)
Lemma array_target s a o d :
  inv s -> ainv s -> nth_error (objs s) a = Some o -> okind o = KA -> wf_obj a o = true -> gp (ogp o) = Some d ->
  exists D m de, lookup d (datas s) = Some D /\ gp (ugp (dup D)) = Some m /\ lookup m (descs s) = Some de /\
                 ooff o + olen o <= dnm de /\ buf_ok s m de /\ shared_get s a = Ok (Some m) /\ 0 < hard D.
Proof.
  intros I A E K W G. pose proof (A a o E K W) as B. unfold aok in B. rewrite G in B.
  destruct B as (D & m & de & B1 & B2 & B3 & B4 & B5). exists D, m, de. repeat (split; auto).
  - unfold shared_get, rd_gp. rewrite E. cbn [bind]. unfold gget at 1. unfold wf_obj in W. rewrite W. cbn [bind].
    rewrite G. unfold rd_data. rewrite B1. cbn [bind]. unfold gget. rewrite (inv_self _ _ I d D B1), addr_eqb_refl, B2. reflexivity.
  - destruct (managed_live None s d D m I B1 B2). auto.
Qed.

Lemma array_empty_get s a o :
  nth_error (objs s) a = Some o -> wf_obj a o = true -> gp (ogp o) = None -> shared_get s a = Ok None.
Proof.
  intros E W G. unfold shared_get, rd_gp. rewrite E. cbn [bind]. unfold gget. unfold wf_obj in W. rewrite W. cbn [bind].
  rewrite G. reflexivity.
Qed.

Section ArrSet.
  Variable ok : nat -> N -> bool.

  (** cstl_array_set *)
  Lemma array_set_spec s a o e nm sz c :
    inv s -> ainv s -> nth_error (objs s) a = Some o -> okind o = KA -> wf_obj a o = true ->
    nm <= MAX64 -> sz <= MAX64 -> nth_error (exts s) e = Some c -> nm * sz <= c -> c <= MAX64 ->
    exists s' p, array_set ok false s a e nm sz = Ok s' /\ inv s' /\ ainv s' /\ exts s' = exts s /\
      objs s' = upd (objs s) a (olo (ptr_obj a o p) 0 (match p with Some _ => nm | None => 0 end)).
  Proof.
    intros I A E K W Nm Sz Ec Cap Cc.
    destruct (array_alloc_spec ok s a o 0 sz I A E K W) as (s1 & p & R & I1 & A1 & X1 & O1 & P); auto.
    { unfold MAX64. lia. }
    unfold array_set. rewrite R. cbn [bind].
    set (o1 := olo (ptr_obj a o p) 0 (match p with Some _ => 0 | None => 0 end)) in *.
    assert (E1 : nth_error (objs s1) a = Some o1) by (rewrite O1; eapply nth_upd_same; eauto).
    assert (W1 : wf_obj a o1 = true) by (unfold wf_obj; cbn; apply Nat.eqb_refl).
    assert (K1 : okind o1 = KA) by (cbn; auto).
    destruct p as [d|].
    - destruct P as (m & L1 & LD1 & _).
      destruct (array_target s1 a o1 d I1 A1 E1 K1 W1 eq_refl) as (D & m' & de & B1 & B2 & B3 & B4 & B5 & G & HP).
      rewrite L1 in B1. injection B1 as <-. cbn in B2. injection B2 as <-. rewrite LD1 in B3. injection B3 as <-.
      rewrite G. cbn [bind]. unfold rd_desc. rewrite LD1. cbn [bind dsz].
      assert (OFF : off_at (wr_desc s1 m (mkDesc sz nm (Ext e))) a = 0).
      { unfold off_at, wr_desc, set_descs. cbn [objs]. rewrite E1. reflexivity. }
      rewrite OFF. rewrite (set_offlen_eq _ a o1) by (unfold wr_desc, set_descs; cbn [objs]; exact E1).
      eexists. exists (Some d). split; [reflexivity|].
      split; [apply inv_set_offlen; [apply inv_wr_desc; auto|exact E1]|]. split; [|split; [exact X1|]].
      + intros j oj Ej Kj Wj. apply aok_set_objs. cbn [objs set_objs wr_desc set_descs] in Ej.
        rewrite nth_error_upd in Ej. destruct (Nat.eqb_spec a j) as [->|N].
        * destruct (Nat.ltb j (length (objs s1))); [|discriminate]. injection Ej as <-.
          unfold aok. cbn [ogp olo ptr_obj gp ooff olen o1].
          eexists. exists m. eexists. unfold wr_desc, set_descs. cbn [datas descs al exts].
          rewrite lookup_store, Nat.eqb_refl. split; [exact L1|]. split; [reflexivity|]. split; [reflexivity|].
          cbn [dnm dsz dbuf]. split; [lia|]. unfold buf_ok. cbn [dbuf dnm dsz exts]. split; [exact Nm|]. exists c.
          rewrite X1. auto.
        * pose proof (A1 j oj Ej Kj Wj) as B. unfold aok in *. destruct (gp (ogp oj)) as [dj|] eqn:Gj; auto.
          destruct B as (Dj & mj & dej & C1 & C2 & C3 & C4 & C5). exists Dj, mj, dej.
          unfold wr_desc, set_descs. cbn [datas descs]. rewrite lookup_store.
          assert (mj <> m).
          { intros ->. assert (dj = d) by (eapply (inv_excl_dd _ _ I1); eauto; rewrite L1; reflexivity). subst dj.
            (* j would be a second owner of a block whose owner count is 1 *)
            pose proof (inv_hard _ _ I1 d _ L1) as HH. cbn [hard] in HH.
            assert (2 <= cnt (hp None d) 0 (objs s1)); [|lia].
            apply (cnt_ge2 _ 0 _ a j o1 oj); auto; cbn [Nat.add]; unfold hp, tgt; cbn [ek].
            - rewrite K1, W1. cbn. apply Nat.eqb_refl.
            - rewrite Kj, Wj, Gj. cbn. apply Nat.eqb_refl. }
          destruct (Nat.eqb_spec m mj); [congruence|]. conj.
      + cbn [objs set_objs wr_desc set_descs]. rewrite O1, upd_upd. reflexivity.
    - rewrite (array_empty_get s1 a o1 E1 W1 eq_refl). cbn [bind]. exists s1, None. auto.
  Qed.
End ArrSet.

(** cstl_array_release: the external buffer goes back to its sole user *)
Lemma array_release_spec s a o :
  inv s -> ainv s -> nth_error (objs s) a = Some o -> okind o = KA -> wf_obj a o = true ->
  2 * N.of_nat (length (objs s)) < 4294967296 ->
  exists s' r, array_release s a = Ok (s', r) /\ inv s' /\ ainv s' /\ exts s' = exts s /\
    match r with
    | None => s' = s
    | Some e => objs s' = upd (objs s) a (olo (ptr_obj a o None) 0 0) /\
                exists d D m de, gp (ogp o) = Some d /\ lookup d (datas s) = Some D /\ gp (ugp (dup D)) = Some m /\
                                 lookup m (descs s) = Some de /\ dbuf de = Ext e /\ owners s d + weaks s d = 1
    end /\
    (r = None <-> match gp (ogp o) with
                  | None => True
                  | Some d => forall D m de, lookup d (datas s) = Some D -> gp (ugp (dup D)) = Some m ->
                                lookup m (descs s) = Some de -> dbuf de = Inline \/ owners s d + weaks s d <> 1
                  end).
Proof.
  intros I A E K W LEN. unfold array_release.
  destruct (gp (ogp o)) as [d|] eqn:G.
  2:{ rewrite (array_empty_get s a o E W G). cbn [bind]. exists s, None.
      split; auto. split; auto. split; auto. split; auto. split; auto. split; auto. }
  destruct (array_target s a o d I A E K W G) as (D & m & de & B1 & B2 & B3 & B4 & B5 & GET & HP).
  rewrite GET. cbn [bind]. unfold rd_desc. rewrite B3. cbn [bind].
  destruct (dbuf de) as [|e] eqn:BUF.
  - exists s, None. split; auto. split; auto. split; auto. split; auto. split; auto. split; auto.
    intros _ D' m' de' L1 L2 L3. assert (D' = D) by congruence. subst. assert (m' = m) by congruence. subst.
    assert (de' = de) by congruence. subst. auto.
  - assert (KO : ownerk (okind o) = true) by (rewrite K; reflexivity).
    destruct (unique_iff s a o I E KO W LEN) as (b & U & UI). rewrite U. cbn [bind]. rewrite G in UI.
    destruct b.
    + destruct (array_reset_spec s a o I A E K W) as (s1 & R & I1 & A1 & F1 & O1). rewrite R. cbn [bind].
      exists s1, (Some e). split; auto. split; auto. split; auto. split; [apply frame_exts; auto|]. split.
      * split; auto. exists d, D, m, de. split; auto. split; auto. split; auto. split; auto. split; auto. apply UI. auto.
      * split; [discriminate|]. intros H. exfalso. destruct (H D m de B1 B2 B3) as [X|X]; [congruence|]. apply X. apply UI. auto.
    + exists s, None. split; auto. split; auto. split; auto. split; auto. split; auto. split; auto.
      intros _ D' m' de' L1 L2 L3. right. intros X. apply UI in X. discriminate.
Qed.

(** cstl_array_data *)
Lemma array_data_spec s a o :
  inv s -> ainv s -> nth_error (objs s) a = Some o -> okind o = KA -> wf_obj a o = true ->
  exists l, array_data s a = Ok l /\
    match gp (ogp o) with
    | None => l = LNull
    | Some d => exists D m de, lookup d (datas s) = Some D /\ gp (ugp (dup D)) = Some m /\
                               lookup m (descs s) = Some de /\ l = buf_loc m de 0 /\ is_live (al s) m = true
    end.
Proof.
  intros I A E K W. unfold array_data. destruct (gp (ogp o)) as [d|] eqn:G.
  - destruct (array_target s a o d I A E K W G) as (D & m & de & B1 & B2 & B3 & B4 & B5 & GET & HP).
    rewrite GET. cbn [bind]. unfold rd_desc. rewrite B3. cbn [bind]. eexists. split; [reflexivity|].
    exists D, m, de. split; auto. split; auto. split; auto. split; auto. destruct (managed_live None s d D m I B1 B2) as (_ & X & _). auto.
  - rewrite (array_empty_get s a o E W G). cbn [bind]. eauto.
Qed.

(** cstl_array_at: inside the live buffer iff the index is below the size *)
Lemma array_at_spec s a o i :
  inv s -> ainv s -> nth_error (objs s) a = Some o -> okind o = KA -> wf_obj a o = true -> i <= MAX64 ->
  if olen o <=? i then array_at s a i = Ab
  else exists d D m de, gp (ogp o) = Some d /\ lookup d (datas s) = Some D /\ gp (ugp (dup D)) = Some m /\
         lookup m (descs s) = Some de /\ is_live (al s) m = true /\
         array_at s a i = Ok (buf_loc m de ((ooff o + i) * dsz de)) /\
         loc_inside s (buf_loc m de ((ooff o + i) * dsz de)) (dsz de) = true /\
         (ooff o + i) * dsz de + dsz de <= dnm de * dsz de.
Proof.
  intros I A E K W I64. unfold array_at, len_at, off_at. rewrite E.
  destruct (N.leb_spec (olen o) i) as [LE|LT]; auto.
  destruct (gp (ogp o)) as [d|] eqn:G.
  2:{ pose proof (A a o E K W) as B. unfold aok in B. rewrite G in B. lia. }
  destruct (array_target s a o d I A E K W G) as (D & m & de & B1 & B2 & B3 & B4 & B5 & GET & HP).
  rewrite GET. cbn [bind]. unfold rd_desc. rewrite B3. cbn [bind].
  assert (IDX : (ooff o + i) * dsz de + dsz de <= dnm de * dsz de).
  { replace ((ooff o + i) * dsz de + dsz de) with ((ooff o + i + 1) * dsz de) by lia. apply N.mul_le_mono_r. lia. }
  assert (BND : dnm de * dsz de <= MAX64).
  { unfold buf_ok in B5. destruct B5 as (_ & B5). destruct (dbuf de); destruct B5 as (x & _ & B5 & B6); unfold HDR in *; lia. }
  assert (NM : dnm de <= MAX64) by apply B5.
  rewrite (wrap64_small (ooff o + i)) by lia.
  rewrite (wrap64_small ((ooff o + i) * dsz de)) by lia.
  destruct (managed_live None s d D m I B1 B2) as (_ & Lm & _).
  assert (INS : loc_inside s (buf_loc m de ((ooff o + i) * dsz de)) (dsz de) = true).
  { unfold loc_inside, buf_loc, buf_ok in *. destruct B5 as (_ & B5). destruct (dbuf de).
    - destruct B5 as (bs & X1 & X2 & X3). rewrite X1. apply N.leb_le. lia.
    - destruct B5 as (c & X1 & X2 & X3). rewrite X1. apply N.leb_le. lia. }
  rewrite INS. exists d, D, m, de. conj.
Qed.

(** giving array object [t] a view (offset, length) of the buffer [a] refers
    to: cstl_array_slice / cstl_array_unslice after their checks *)
Lemma view_share_spec s a t oa ot d off len :
  inv s -> ainv s -> nth_error (objs s) a = Some oa -> nth_error (objs s) t = Some ot ->
  okind oa = KA -> okind ot = KA -> wf_obj a oa = true -> wf_obj t ot = true -> gp (ogp oa) = Some d ->
  (forall D m de, lookup d (datas s) = Some D -> gp (ugp (dup D)) = Some m -> lookup m (descs s) = Some de ->
                  off + len <= dnm de) ->
  exists s', (if Nat.eqb a t then Ok (set_offlen s t off len) else shared_share (set_offlen s t off len) a t) = Ok s' /\
    inv s' /\ ainv s' /\ exts s' = exts s /\
    objs s' = upd (objs s) t (olo (ptr_obj t ot (Some d)) off len).
Proof.
  intros I A Ea Et Ka Kt Wa Wt G V.
  destruct (array_target s a oa d I A Ea Ka Wa G) as (D & m & de & B1 & B2 & B3 & B4 & B5 & GET & HP).
  rewrite (set_offlen_eq s t ot off len Et).
  set (s1 := set_objs s (upd (objs s) t (olo ot off len))).
  assert (I1 : inv s1) by (apply inv_set_offlen; auto).
  set (tf := olo (ptr_obj t ot (Some d)) off len).
  assert (AT : aok s tf).
  { unfold aok, tf. cbn [ogp olo ptr_obj gp ooff olen]. exists D, m, de. conj. split; eauto. }
  assert (FIN : forall s', inv s' -> frame s s' -> objs s' = upd (objs s) t tf -> ainv s').
  { intros s' I' F O' j oj Ej Kj Wj. rewrite O' in Ej. rewrite nth_error_upd in Ej.
    destruct (Nat.eqb_spec t j) as [->|N].
    - destruct (Nat.ltb j (length (objs s))); [|discriminate]. injection Ej as <-.
      assert (X1 : nth_error (objs s') j = Some tf) by (rewrite O'; eapply nth_upd_same; eauto).
      assert (X2 : okind tf = KA) by (cbn; auto).
      assert (X3 : wf_obj j tf = true) by (unfold wf_obj, tf; cbn; apply Nat.eqb_refl).
      exact (aok_frame s s' j tf I I' F X1 X2 X3 AT).
    - assert (X1 : nth_error (objs s') j = Some oj) by (rewrite O', nth_upd_other; auto).
      exact (aok_frame s s' j oj I I' F X1 Kj Wj (A j oj Ej Kj Wj)). }
  destruct (Nat.eqb_spec a t) as [->|N].
  - assert (ot = oa) by congruence. subst ot.
    assert (EQ : olo oa off len = tf).
    { unfold tf, olo, ptr_obj. cbn. pose proof Wa as W'. unfold wf_obj in W'. apply addr_eqb_eq in W'.
      destruct oa as [k [sf p] c of ln]. cbn in *. subst. reflexivity. }
    exists s1. split; [reflexivity|]. split; [exact I1|]. subst s1. rewrite EQ in *.
    split; [|split; reflexivity]. apply FIN; auto. apply frame_set_objs.
  - assert (Ea1 : nth_error (objs s1) a = Some oa) by (subst s1; cbn [objs set_objs]; rewrite nth_upd_other; auto).
    assert (Et1 : nth_error (objs s1) t = Some (olo ot off len)) by (subst s1; cbn [objs set_objs]; eapply nth_upd_same; eauto).
    destruct (shared_share_spec s1 a t oa (olo ot off len) I1 Ea1 Et1) as (s' & R & I' & O'); auto;
      try (cbn; rewrite ?Ka, ?Kt; reflexivity).
    exists s'. split; auto. split; auto.
    assert (OE : objs s' = upd (objs s) t tf).
    { rewrite O'. destruct (Nat.eqb_spec t a); [congruence|]. subst s1. cbn [objs set_objs]. rewrite upd_upd, G. reflexivity. }
    pose proof (frame_shared_share s1 a t s' R) as F.
    assert (F' : frame s s') by (eapply frame_trans; [apply frame_set_objs|exact F]).
    split; [apply FIN; auto|]. split; auto. apply frame_exts; auto.
Qed.

(** cstl_array_slice (repaired) *)
Lemma array_slice_spec s a t oa ot b e :
  inv s -> ainv s -> nth_error (objs s) a = Some oa -> nth_error (objs s) t = Some ot ->
  okind oa = KA -> okind ot = KA -> wf_obj a oa = true -> wf_obj t ot = true -> b <= MAX64 -> e <= MAX64 ->
  match gp (ogp oa) with
  | None => array_slice false s a b e t = Ab
  | Some d =>
    exists D m de, lookup d (datas s) = Some D /\ gp (ugp (dup D)) = Some m /\ lookup m (descs s) = Some de /\
      if (e <? b) || (dnm de <? ooff oa + e)
      then array_slice false s a b e t = Ab
      else exists s', array_slice false s a b e t = Ok s' /\ inv s' /\ ainv s' /\ exts s' = exts s /\
             objs s' = upd (objs s) t (olo (ptr_obj t ot (Some d)) (ooff oa + b) (e - b))
  end.
Proof.
  intros I A Ea Et Ka Kt Wa Wt Bb Be. unfold array_slice.
  destruct (gp (ogp oa)) as [d|] eqn:G.
  2:{ rewrite (array_empty_get s a oa Ea Wa G). reflexivity. }
  destruct (array_target s a oa d I A Ea Ka Wa G) as (D & m & de & B1 & B2 & B3 & B4 & B5 & GET & HP).
  exists D, m, de. conj. rewrite GET. cbn [bind]. unfold rd_desc. rewrite B3. cbn [bind].
  unfold off_at. rewrite Ea.
  assert (NM : dnm de <= MAX64) by apply B5.
  destruct ((e <? b) || (dnm de <? ooff oa + e)) eqn:BAD.
  - replace ((e <? b) || (dnm de <? ooff oa) || (dnm de - ooff oa <? e)) with true; auto.
    symmetry. apply orb_true_iff in BAD. rewrite !orb_true_iff, !N.ltb_lt in *. lia.
  - replace ((e <? b) || (dnm de <? ooff oa) || (dnm de - ooff oa <? e)) with false.
    2:{ symmetry. apply orb_false_iff in BAD. rewrite !orb_false_iff, !N.ltb_ge in *. lia. }
    apply orb_false_iff in BAD. rewrite !N.ltb_ge in BAD.
    rewrite wrap64_small by lia.
    apply (view_share_spec s a t oa ot d (ooff oa + b) (e - b)); auto.
    intros D' m' de' L1 L2 L3. assert (D' = D) by congruence. subst. assert (m' = m) by congruence. subst.
    assert (de' = de) by congruence. subst. lia.
Qed.

(** cstl_array_unslice *)
Lemma array_unslice_spec s sl a osl oa :
  inv s -> ainv s -> nth_error (objs s) sl = Some osl -> nth_error (objs s) a = Some oa ->
  okind osl = KA -> okind oa = KA -> wf_obj sl osl = true -> wf_obj a oa = true ->
  match gp (ogp osl) with
  | None => array_unslice s sl a = Ab
  | Some d =>
    exists D m de, lookup d (datas s) = Some D /\ gp (ugp (dup D)) = Some m /\ lookup m (descs s) = Some de /\
      exists s', array_unslice s sl a = Ok s' /\ inv s' /\ ainv s' /\ exts s' = exts s /\
        objs s' = upd (objs s) a (olo (ptr_obj a oa (Some d)) 0 (dnm de))
  end.
Proof.
  intros I A Es Ea Ks Ka Ws Wa. unfold array_unslice.
  destruct (gp (ogp osl)) as [d|] eqn:G.
  2:{ rewrite (array_empty_get s sl osl Es Ws G). reflexivity. }
  destruct (array_target s sl osl d I A Es Ks Ws G) as (D & m & de & B1 & B2 & B3 & B4 & B5 & GET & HP).
  exists D, m, de. conj. rewrite GET. cbn [bind]. unfold rd_desc. rewrite B3. cbn [bind].
  rewrite (Nat.eqb_sym a sl).
  apply (view_share_spec s sl a osl oa d 0 (dnm de)); auto.
  intros D' m' de' L1 L2 L3. assert (D' = D) by congruence. subst. assert (m' = m) by congruence. subst.
  assert (de' = de) by congruence. subst. lia.
Qed.

(** * The scripted system (pointer objects and array objects) *)
Definition aargs (o : aop) : list nat :=
  match o with
  | VInit _ | VSize _ => []
  | VAlloc a _ _ | VSet a _ _ _ | VRelease a | VData a | VAt a _ | VReset a => [a]
  | VSlice a _ _ t => [a; t]
  | VUnslice sl a => [sl; a]
  end.

Definition args (o : op) : list nat := match o with OM m => margs m | OA a => aargs a end.

(** the descriptor an array object currently leads to *)
Definition desc_at (s : st) (a : nat) : option desc :=
  match ptr_at s a with
  | Some d => match lookup d (datas s) with
              | Some D => match gp (ugp (dup D)) with Some m => lookup m (descs s) | None => None end
              | None => None
              end
  | None => None
  end.

(** the documented aborts of the array functions *)
Definition range_abort (s : st) (o : aop) : Prop :=
  match o with
  | VAt a i => len_at s a <= i
  | VSlice a b e t => ptr_at s a = None \/ e < b \/ exists de, desc_at s a = Some de /\ dnm de < off_at s a + e
  | VUnslice sl a => ptr_at s sl = None
  | _ => False
  end.

Lemma aargs_exist s o i : adom s o = true -> In i (aargs o) -> exists oi, nth_error (objs s) i = Some oi.
Proof.
  intros D IN. destruct o; cbn [adom aargs In] in *;
    repeat match goal with H : _ && _ = true |- _ => apply andb_prop in H; destruct H end;
    repeat match goal with H : has_kind _ _ _ = true |- _ => apply has_kind_spec in H; destruct H as (? & ? & ?) end;
    repeat match goal with H : _ \/ _ |- _ => destruct H end; subst; try tauto; eauto.
Qed.

Section AStep.
  Variable ok : nat -> N -> bool.

  Ltac hk H := apply has_kind_spec in H; destruct H as (? & ? & ?).
  Ltac wfarg WF i o E := let o' := fresh "o" in let E' := fresh "E" in let W := fresh "W" in
    destruct (WF i) as (o' & E' & W); [cbn; auto|]; assert (o' = o) by congruence; subst o'; clear E'.

  (** all array arguments well-formed: the call keeps both invariants, or
      aborts exactly for the documented reason; it never faults *)
  Lemma aexec_wf s o :
    inv s -> ainv s -> 2 * N.of_nat (length (objs s)) < 4294967296 ->
    adom s o = true -> (forall i, In i (aargs o) -> wfo s i) ->
    match aexec ok false s o with
    | Done s' _ => inv s' /\ ainv s' /\ length (objs s') = length (objs s) /\ exts s' = exts s /\ ~ range_abort s o
    | Abort => range_abort s o
    | Fault => False
    | Precond => False
    end.
  Proof.
    intros I A LEN D WF. destruct o; cbn [adom] in D; cbn [aexec aargs range_abort] in *;
      repeat match goal with H : _ && _ = true |- _ => apply andb_prop in H; destruct H end.
    - (* VInit *) hk H. rename x into o. unfold obj_reinit. rewrite H.
      pose proof (disposable_tgt s a o H0 H) as T.
      assert (I' : inv (set_objs s (upd (objs s) a (obj_init (okind o) a)))) by (apply reinit_inv; auto).
      split; auto. split; [|split; [cbn; apply upd_length|split; [reflexivity|tauto]]].
      intros j oj Ej Kj Wj. apply aok_set_objs. cbn [objs set_objs] in Ej. rewrite nth_error_upd in Ej.
      destruct (Nat.eqb_spec a j) as [->|N].
      + destruct (Nat.ltb j (length (objs s))); [|discriminate]. injection Ej as <-. unfold aok. cbn. auto.
      + apply (A j oj Ej Kj Wj).
    - (* VAlloc *) hk H. rename x into o. wfarg WF a o H.
      destruct (array_alloc_spec ok s a o nm sz I A H H2 W (is64_le _ H1) (is64_le _ H0)) as (s' & p & R & I' & A' & X' & O' & _).
      rewrite R. cbn. split; auto. split; auto. split; [rewrite O'; apply upd_length|]. split; auto.
    - (* VSet *) hk H. rename x into o. wfarg WF a o H.
      destruct (nth_error (exts s) e) as [c|] eqn:Ec; [|discriminate].
      apply andb_prop in H0. destruct H0 as (H0 & H0'). apply N.leb_le in H0.
      destruct (array_set_spec ok s a o e nm sz c I A H H3 W (is64_le _ H2) (is64_le _ H1) Ec H0 (is64_le _ H0')) as (s' & p & R & I' & A' & X' & O').
      rewrite R. cbn. split; auto. split; auto. split; [rewrite O'; apply upd_length|]. split; auto.
    - (* VRelease *) hk D. rename x into o. wfarg WF a o H.
      destruct (array_release_spec s a o I A H H0 W LEN) as (s' & r & R & I' & A' & X' & C & _).
      rewrite R. cbn. split; auto. split; auto. split; [|split; auto].
      destruct r; [destruct C as (O' & _); rewrite O'; apply upd_length|subst; auto].
    - (* VData *) hk D. rename x into o. wfarg WF a o H.
      destruct (array_data_spec s a o I A H H0 W) as (l & R & _). rewrite R. cbn. auto 6.
    - (* VAt *) hk H. rename x into o. wfarg WF a o H.
      pose proof (array_at_spec s a o i I A H H1 W (is64_le _ H0)) as Q. unfold len_at. rewrite H.
      destruct (N.leb_spec (olen o) i).
      + rewrite Q. cbn. auto.
      + destruct Q as (d & D' & m & de & _ & _ & _ & _ & _ & R & _). rewrite R. cbn. split; auto. split; auto. split; auto. split; auto. lia.
    - (* VSize *) hk D. auto 6.
    - (* VSlice *) hk H. hk H2. rename x into oa. rename x0 into ot. wfarg WF a oa H. wfarg WF t ot H2.
      pose proof (array_slice_spec s a t oa ot b e I A H H2 H3 H4 W W0 (is64_le _ H1) (is64_le _ H0)) as Q.
      unfold ptr_at, desc_at, off_at, ptr_at. rewrite H.
      destruct (gp (ogp oa)) as [d|] eqn:G.
      + destruct Q as (D' & m & de & L1 & L2 & L3 & Q). rewrite L1, L2, L3.
        destruct ((e <? b) || (dnm de <? ooff oa + e)) eqn:BAD.
        * rewrite Q. cbn. apply orb_true_iff in BAD. rewrite !N.ltb_lt in BAD. right.
          destruct BAD; [left; auto|right; exists de; auto].
        * destruct Q as (s' & R & I' & A' & X' & O'). rewrite R. cbn. split; auto. split; auto.
          split; [rewrite O'; apply upd_length|]. split; auto.
          apply orb_false_iff in BAD. rewrite !N.ltb_ge in BAD. intros [X|[X|(de' & X1 & X2)]]; try discriminate; try lia.
          injection X1 as <-. lia.
      + rewrite Q. cbn. auto.
    - (* VUnslice *) hk H. hk H0. rename x into osl. rename x0 into oa. wfarg WF sl osl H. wfarg WF a oa H0.
      pose proof (array_unslice_spec s sl a osl oa I A H H0 H1 H2 W W0) as Q.
      unfold ptr_at. rewrite H. destruct (gp (ogp osl)) as [d|] eqn:G.
      + destruct Q as (D' & m & de & L1 & L2 & L3 & s' & R & I' & A' & X' & O'). rewrite R. cbn.
        split; auto. split; auto. split; [rewrite O'; apply upd_length|]. split; auto. discriminate.
      + rewrite Q. cbn. auto.
    - (* VReset *) hk D. rename x into o. wfarg WF a o H.
      destruct (array_reset_spec s a o I A H H0 W) as (s' & R & I' & A' & F' & O').
      rewrite R. cbn. split; auto. split; auto. split; [rewrite O'; apply upd_length|]. split; auto. apply frame_exts; auto.
  Qed.
End AStep.

Lemma stray_shared_get s i o : nth_error (objs s) i = Some o -> wf_obj i o = false -> shared_get s i = Ab.
Proof. intros E W. unfold shared_get, rd_gp, gget. rewrite E. cbn [bind]. unfold wf_obj in W. rewrite W. reflexivity. Qed.

Lemma stray_set_offlen s t i oi off len :
  nth_error (objs s) i = Some oi -> wf_obj i oi = false ->
  exists oi', nth_error (objs (set_offlen s t off len)) i = Some oi' /\ wf_obj i oi' = false.
Proof.
  intros E W. unfold set_offlen. destruct (nth_error (objs s) t) as [ot|] eqn:Et; [|eauto].
  cbn [objs set_objs]. rewrite nth_error_upd. destruct (Nat.eqb_spec t i) as [->|N]; [|eauto].
  assert (i < length (objs s))%nat by (apply nth_error_Some; congruence).
  destruct (Nat.ltb_spec i (length (objs s))); [|lia]. assert (ot = oi) by congruence. subst. eexists. split; [reflexivity|]. exact W.
Qed.

Section AStray.
  Variable ok : nat -> N -> bool.

  Ltac hk H := apply has_kind_spec in H; destruct H as (? & ? & ?).

  (** a stray copy in any argument position of an array function: abort *)
  Lemma aexec_stray s o i :
    inv s -> ainv s -> adom s o = true -> In i (aargs o) -> stray s i -> aexec ok false s o = Abort.
  Proof.
    intros I A D IN (oi & Ei & Wi). pose proof Wi as Wi'. unfold wf_obj in Wi'.
    destruct o; cbn [adom] in D; cbn [aexec aargs In] in *;
      repeat match goal with H : _ && _ = true |- _ => apply andb_prop in H; destruct H end;
      try tauto.
    - (* VAlloc *) destruct IN as [<-|[]]. unfold array_alloc, array_reset. cbn [negb]. rewrite (shared_reset_stray s a oi); auto.
    - (* VSet *) destruct IN as [<-|[]]. unfold array_set, array_alloc, array_reset. cbn [negb]. rewrite (shared_reset_stray s a oi); auto.
    - (* VRelease *) destruct IN as [<-|[]]. unfold array_release. rewrite (stray_shared_get s a oi); auto.
    - (* VData *) destruct IN as [<-|[]]. unfold array_data. rewrite (stray_shared_get s a oi); auto.
    - (* VAt *) destruct IN as [<-|[]]. unfold array_at. destruct (len_at s a <=? i0); auto. rewrite (stray_shared_get s a oi); auto.
    - (* VSlice *) hk H. hk H2. unfold array_slice.
      destruct (wf_obj a x) eqn:Wa.
      + destruct IN as [->|[->|[]]]; [congruence|]. assert (x0 = oi) by congruence. subst x0.
        assert (N : a <> i) by (intros ->; congruence).
        pose proof (array_slice_spec s a i x oi b e I A H Ei H3 H4 Wa) as _.
        destruct (gp (ogp x)) as [d|] eqn:G.
        * destruct (array_target s a x d I A H H3 Wa G) as (D' & m & de & B1 & B2 & B3 & B4 & B5 & GET & HP).
          rewrite GET. cbn [bind]. unfold rd_desc. rewrite B3. cbn [bind].
          destruct ((e <? b) || (dnm de <? off_at s a) || (dnm de - off_at s a <? e)); auto.
          destruct (Nat.eqb_spec a i); [congruence|].
          destruct (stray_set_offlen s i i oi (wrap64 (off_at s a + b)) (e - b) Ei Wi) as (oi' & E' & W').
          unfold shared_share. rewrite (shared_reset_stray _ i oi' E' W'). reflexivity.
        * rewrite (array_empty_get s a x H Wa G). reflexivity.
      + rewrite (stray_shared_get s a x); auto.
    - (* VUnslice *) hk H. hk H0. unfold array_unslice.
      destruct (wf_obj sl x) eqn:Ws.
      + destruct IN as [->|[->|[]]]; [congruence|]. assert (x0 = oi) by congruence. subst x0.
        assert (N : sl <> i) by (intros ->; congruence).
        destruct (gp (ogp x)) as [d|] eqn:G.
        * destruct (array_target s sl x d I A H H1 Ws G) as (D' & m & de & B1 & B2 & B3 & B4 & B5 & GET & HP).
          rewrite GET. cbn [bind]. unfold rd_desc. rewrite B3. cbn [bind].
          destruct (Nat.eqb_spec i sl); [congruence|].
          destruct (stray_set_offlen s i i oi 0 (dnm de) Ei Wi) as (oi' & E' & W').
          unfold shared_share. rewrite (shared_reset_stray _ i oi' E' W'). reflexivity.
        * rewrite (array_empty_get s sl x H Ws G). reflexivity.
      + rewrite (stray_shared_get s sl x); auto.
    - (* VReset *) destruct IN as [<-|[]]. unfold array_reset. rewrite (shared_reset_stray s a oi); auto.
  Qed.

  (** * Every call of the combined system *)
  Theorem step_outcome s o :
    inv s -> ainv s -> 2 * N.of_nat (length (objs s)) < 4294967296 ->
    match step ok false s o with
    | Done s' _ => inv s' /\ ainv s' /\ length (objs s') = length (objs s) /\ exts s' = exts s
    | Abort => (exists i, In i (args o) /\ stray s i) \/ (exists ao, o = OA ao /\ range_abort s ao)
    | Fault => False
    | Precond => True
    end.
  Proof.
    intros I A LEN. destruct o as [m|ao]; cbn [step args].
    - pose proof (mstep_outcome ok s m I) as Q. destruct (mstep ok s m) as [s' out| | |] eqn:E; auto.
      + destruct Q as (I' & L). refine (conj I' (conj _ (conj L _))).
        * exact (ainv_mstep ok s m s' out I A E).
        * exact (frame_exts s s' I (frame_mstep ok s m s' out E)).
    - unfold astep. destruct (adom s ao) eqn:D; auto.
      destruct (args_dec s (aargs ao) (fun i IN => aargs_exist s ao i D IN)) as [W|(i & IN & S)].
      + pose proof (aexec_wf ok s ao I A LEN D W) as Q. destruct (aexec ok false s ao) as [s' out| | |]; try tauto.
        right. eauto.
      + rewrite (aexec_stray s ao i I A D IN S). left. eauto.
  Qed.
End AStray.

(** ** every history from initialised objects *)
Theorem reach_sys ks ex s :
  2 * N.of_nat (length ks) < 4294967296 ->
  reach (lstep false) (st_init ks ex) s ->
  inv s /\ ainv s /\ length (objs s) = length ks /\ exts s = ex.
Proof.
  intros LEN R. induction R as [|s l s' out R IH E].
  - split; [apply inv_init|]. split; [apply ainv_init|]. split; [|reflexivity].
    unfold st_init. cbn [objs]. clear LEN. generalize 0%nat. induction ks; intros; cbn; auto.
  - destruct IH as (I & A & L & X). unfold lstep in E.
    pose proof (step_outcome (fst l) s (snd l) I A) as Q. rewrite L in Q. specialize (Q LEN).
    rewrite E in Q. destruct Q as (I' & A' & L' & X'). split; auto. split; auto. split; congruence.
Qed.

(** * Library functions never lose an object's self-address *)
Definition allwf (s : st) : Prop := forall i o, nth_error (objs s) i = Some o -> wf_obj i o = true.

Lemma allwf_init ks ex : allwf (st_init ks ex).
Proof.
  intros i o E. unfold st_init in E. cbn [objs] in E. destruct (pool_init_nth ks 0 i o E) as (k & ->).
  unfold wf_obj. cbn. apply Nat.eqb_refl.
Qed.

Lemma allwf_upd s i x : allwf s -> wf_obj i x = true -> allwf (set_objs s (upd (objs s) i x)).
Proof.
  intros A W j o E. cbn [objs set_objs] in E. rewrite nth_error_upd in E. destruct (Nat.eqb_spec i j) as [->|N]; [|auto].
  destruct (Nat.ltb j (length (objs s))); [|discriminate]. congruence.
Qed.

Lemma allwf_objs s s' i x : allwf s -> objs s' = upd (objs s) i x -> wf_obj i x = true -> allwf s'.
Proof.
  intros A O W j o E. rewrite O in E. rewrite nth_error_upd in E. destruct (Nat.eqb_spec i j) as [->|N]; [|auto].
  destruct (Nat.ltb j (length (objs s))); [|discriminate]. congruence.
Qed.
Lemma allwf_objs2 s s' i x j y :
  allwf s -> objs s' = upd (upd (objs s) i x) j y -> wf_obj i x = true -> wf_obj j y = true -> allwf s'.
Proof.
  intros A O Wx Wy. apply (allwf_objs (set_objs s (upd (objs s) i x)) s' j y); auto. apply allwf_upd; auto.
Qed.
Lemma wf_uobj u o p c : wf_obj u (uobj u o p c) = true.
Proof. unfold wf_obj. cbn. apply Nat.eqb_refl. Qed.

Lemma no_stray s : allwf s -> forall i, ~ stray s i.
Proof. intros A i (o & E & W). rewrite (A i o E) in W. discriminate. Qed.

Lemma allwf_wfo s l : allwf s -> (forall i, In i l -> exists oi, nth_error (objs s) i = Some oi) -> forall i, In i l -> wfo s i.
Proof. intros A EX i IN. destruct (EX i IN) as (oi & E). exists oi. split; auto. Qed.

Section AllWf.
  Variable ok : nat -> N -> bool.

  Ltac hk H := apply has_kind_spec in H; destruct H as (? & ? & ?).

  (** a pointer operation other than a stray copy keeps all objects well-formed *)
  Lemma allwf_mstep s o s' out :
    inv s -> allwf s -> (forall a b, o <> StrayCopy a b) -> mstep ok s o = Done s' out -> allwf s'.
  Proof.
    intros I A NS E. unfold mstep in E. destruct (mdom s o) eqn:D; [|discriminate].
    assert (WFA : forall i, In i (margs o) -> wfo s i) by (apply (allwf_wfo s); auto; intros i IN; eapply margs_exist; eauto).
    destruct o; cbn [mdom] in D; cbn [mexec margs] in *;
      repeat match goal with H : _ && _ = true |- _ => apply andb_prop in H; destruct H end.
    - hk H. unfold unique_init, wr_up in E. rewrite H in E. apply done_inj in E. subst s'. apply allwf_upd; auto.
      unfold wf_obj. cbn. apply Nat.eqb_refl.
    - hk D. destruct (unique_alloc_pool_spec ok s u x sz cb I H H0 (A u x H)) as (s1 & p & R & _ & O1 & _).
      rewrite R in E. cbn in E. apply done_inj in E. subst s'. eapply allwf_objs; [exact A|exact O1|apply wf_uobj].
    - unfold of_res in E. destruct (unique_get s (ASlot u)); try discriminate. apply done_inj in E. subst. auto.
    - hk D. destruct (unique_release_pool_spec s u x I H H0 (A u x H)) as (s1 & R & _ & O1).
      rewrite R in E. cbn in E. apply done_inj in E. subst s'. eapply allwf_objs; [exact A|exact O1|apply wf_uobj].
    - hk H. hk H1. apply negb_true_iff, Nat.eqb_neq in H0.
      destruct (unique_swap_spec s u v x x0 I H H1 H0 H2 H3 (A u x H) (A v x0 H1)) as (s1 & R & _ & O1).
      rewrite R in E. cbn in E. apply done_inj in E. subst s'. eapply allwf_objs2; [exact A|exact O1|apply wf_uobj|apply wf_uobj].
    - hk D. destruct (unique_reset_pool_spec s u x I H H0 (A u x H)) as (s1 & R & _ & O1 & _).
      rewrite R in E. cbn in E. apply done_inj in E. subst s'. eapply allwf_objs; [exact A|exact O1|apply wf_uobj].
    - hk H. unfold obj_reinit in E. rewrite H in E. apply done_inj in E. subst s'. apply allwf_upd; auto.
      unfold wf_obj. cbn. apply Nat.eqb_refl.
    - hk D. assert (K : ownerk (okind x) = true) by (rewrite H0; reflexivity).
      destruct (shared_alloc_spec ok s s0 x sz (if cb then Some 0%nat else None) I H K (A s0 x H)) as (s1 & s2 & _ & _ & R & _ & C).
      rewrite R in E. cbn in E. apply done_inj in E. subst s'.
      assert (O2 : exists p, objs s2 = upd (objs s) s0 (ptr_obj s0 x p)).
      { destruct C as [(d & m & a1 & _ & _ & _ & O2 & _)|(O2 & _)]; eauto. }
      destruct O2 as (p & O2). eapply allwf_objs; [exact A|exact O2|apply wf_ptr_obj].
    - unfold of_res in E. destruct (shared_get s s0); try discriminate. apply done_inj in E. subst. auto.
    - unfold of_res in E. destruct (shared_unique s s0); try discriminate. apply done_inj in E. subst. auto.
    - hk H. hk H0.
      destruct (shared_share_spec s e n x x0 I H H0) as (s1 & R & _ & O1); auto; try (rewrite ?H1, ?H2; reflexivity).
      rewrite R in E. cbn in E. apply done_inj in E. subst s'. eapply allwf_objs; [exact A|exact O1|apply wf_ptr_obj].
    - hk H. hk H0.
      destruct (gp_swap_spec s a b x x0 I H H0) as (s1 & R & _ & O1); auto; try congruence.
      rewrite R in E. cbn in E. apply done_inj in E. subst s'. eapply allwf_objs2; [exact A|exact O1|apply wf_ptr_obj|apply wf_ptr_obj].
    - hk D. assert (K : ownerk (okind x) = true) by (rewrite H0; reflexivity).
      destruct (shared_reset_spec s s0 x I H K (A s0 x H)) as (s1 & R & _ & O1).
      rewrite R in E. cbn in E. apply done_inj in E. subst s'. eapply allwf_objs; [exact A|exact O1|apply wf_ptr_obj].
    - hk H. unfold obj_reinit in E. rewrite H in E. apply done_inj in E. subst s'. apply allwf_upd; auto.
      unfold wf_obj. cbn. apply Nat.eqb_refl.
    - hk H. hk H0.
      destruct (weak_from_spec s w s0 x x0 I H H0) as (s1 & R & _ & O1); auto; try (rewrite ?H1, ?H2; reflexivity).
      rewrite R in E. cbn in E. apply done_inj in E. subst s'. eapply allwf_objs; [exact A|exact O1|apply wf_ptr_obj].
    - hk H. hk H0.
      destruct (weak_lock_spec s w s0 x x0 I H H0) as (s1 & s2 & R & _ & _ & _ & _ & O1); auto; try (rewrite ?H1, ?H2; reflexivity).
      rewrite R in E. cbn in E. apply done_inj in E. subst s'. eapply allwf_objs; [exact A|exact O1|apply wf_ptr_obj].
    - hk H. hk H0.
      destruct (gp_swap_spec s a b x x0 I H H0) as (s1 & R & _ & O1); auto; try congruence.
      rewrite R in E. cbn in E. apply done_inj in E. subst s'. eapply allwf_objs2; [exact A|exact O1|apply wf_ptr_obj|apply wf_ptr_obj].
    - hk D.
      destruct (weak_reset_spec None s w x I (or_introl eq_refl) H) as (s1 & R & _ & O1); auto; try (rewrite H0; discriminate).
      rewrite R in E. cbn in E. apply done_inj in E. subst s'. eapply allwf_objs; [exact A|exact O1|apply wf_ptr_obj].
    - exfalso. eapply NS; eauto.
    - hk D. unfold guarded_init, guarded_set in E. rewrite (wr_gp_eq s g x None H) in E. apply done_inj in E. subst s'.
      apply allwf_upd; auto. apply wf_ptr_obj.
    - hk D. unfold guarded_set in E. rewrite (wr_gp_eq s g x p H) in E. apply done_inj in E. subst s'.
      apply allwf_upd; auto. apply wf_ptr_obj.
    - unfold of_res in E. destruct (guarded_get s g); try discriminate. apply done_inj in E. subst. auto.
    - unfold of_res in E. destruct (guarded_get_const s g); try discriminate. apply done_inj in E. subst. auto.
    - hk H. unfold of_res in E. destruct (guarded_copy s dst src) as [s1| |] eqn:R; try discriminate.
      apply done_inj in E. subst s'. unfold guarded_copy in R. bind_inv R. okinj R.
      unfold guarded_set. rewrite (wr_gp_eq s dst x _ H). apply allwf_upd; auto. apply wf_ptr_obj.
    - hk H. hk H0.
      destruct (gp_swap_spec s a b x x0 I H H0) as (s1 & R & _ & O1); auto; try congruence.
      rewrite R in E. cbn in E. apply done_inj in E. subst s'. eapply allwf_objs2; [exact A|exact O1|apply wf_ptr_obj|apply wf_ptr_obj].
  Qed.
End AllWf.

Lemma wf_olo i o off len : wf_obj i (olo o off len) = wf_obj i o.
Proof. reflexivity. Qed.

Section AllWfA.
  Variable ok : nat -> N -> bool.

  Ltac hk H := apply has_kind_spec in H; destruct H as (? & ? & ?).

  Lemma allwf_astep s o s' out :
    inv s -> ainv s -> 2 * N.of_nat (length (objs s)) < 4294967296 -> allwf s ->
    astep ok false s o = Done s' out -> allwf s'.
  Proof.
    intros I AI LEN A E. unfold astep in E. destruct (adom s o) eqn:D; [|discriminate].
    destruct o; cbn [adom] in D; cbn [aexec] in *;
      repeat match goal with H : _ && _ = true |- _ => apply andb_prop in H; destruct H end.
    - hk H. unfold obj_reinit in E. rewrite H in E. apply done_inj in E. subst s'. apply allwf_upd; auto.
      unfold wf_obj. cbn. apply Nat.eqb_refl.
    - hk H.
      destruct (array_alloc_spec ok s a x nm sz I AI H H2 (A a x H) (is64_le _ H1) (is64_le _ H0)) as (s1 & p & R & _ & _ & _ & O1 & _).
      rewrite R in E. cbn in E. apply done_inj in E. subst s'. eapply allwf_objs; [exact A|exact O1|unfold wf_obj; cbn; apply Nat.eqb_refl].
    - hk H. destruct (nth_error (exts s) e) as [c|] eqn:Ec; [|discriminate].
      apply andb_prop in H0. destruct H0 as (H0 & H0'). apply N.leb_le in H0.
      destruct (array_set_spec ok s a x e nm sz c I AI H H3 (A a x H) (is64_le _ H2) (is64_le _ H1) Ec H0 (is64_le _ H0')) as (s1 & p & R & _ & _ & _ & O1).
      rewrite R in E. cbn in E. apply done_inj in E. subst s'. eapply allwf_objs; [exact A|exact O1|unfold wf_obj; cbn; apply Nat.eqb_refl].
    - hk D.
      destruct (array_release_spec s a x I AI H H0 (A a x H) LEN) as (s1 & r & R & _ & _ & _ & C & _).
      rewrite R in E. cbn in E. apply done_inj in E. subst s'. destruct r.
      + destruct C as (O1 & _). eapply allwf_objs; [exact A|exact O1|unfold wf_obj; cbn; apply Nat.eqb_refl].
      + subst. auto.
    - unfold of_res in E. destruct (array_data s a); try discriminate. apply done_inj in E. subst. auto.
    - unfold of_res in E. destruct (array_at s a i); try discriminate. apply done_inj in E. subst. auto.
    - apply done_inj in E. subst. auto.
    - hk H. hk H2.
      pose proof (array_slice_spec s a t x x0 b e I AI H H2 H3 H4 (A a x H) (A t x0 H2) (is64_le _ H1) (is64_le _ H0)) as Q.
      destruct (gp (ogp x)) as [d|].
      + destruct Q as (D' & m & de & _ & _ & _ & Q). destruct ((e <? b) || (dnm de <? ooff x + e)).
        * rewrite Q in E. discriminate.
        * destruct Q as (s1 & R & _ & _ & _ & O1). rewrite R in E. cbn in E. apply done_inj in E. subst s'.
          eapply allwf_objs; [exact A|exact O1|unfold wf_obj; cbn; apply Nat.eqb_refl].
      + rewrite Q in E. discriminate.
    - hk H. hk H0.
      pose proof (array_unslice_spec s sl a x x0 I AI H H0 H1 H2 (A sl x H) (A a x0 H0)) as Q.
      destruct (gp (ogp x)) as [d|].
      + destruct Q as (D' & m & de & _ & _ & _ & s1 & R & _ & _ & _ & O1). rewrite R in E. cbn in E. apply done_inj in E. subst s'.
        eapply allwf_objs; [exact A|exact O1|unfold wf_obj; cbn; apply Nat.eqb_refl].
      + rewrite Q in E. discriminate.
    - hk D. destruct (array_reset_spec s a x I AI H H0 (A a x H)) as (s1 & R & _ & _ & _ & O1).
      rewrite R in E. cbn in E. apply done_inj in E. subst s'. eapply allwf_objs; [exact A|exact O1|unfold wf_obj; cbn; apply Nat.eqb_refl].
  Qed.
End AllWfA.

(** histories that only use library functions: a stray copy is outside
    the domain *)
Definition lib_step (s : st) (l : oracle * op) : outcome st :=
  match snd l with OM (StrayCopy _ _) => Precond | _ => lstep false s l end.

Theorem reach_allwf ks ex s :
  2 * N.of_nat (length ks) < 4294967296 ->
  reach lib_step (st_init ks ex) s ->
  allwf s /\ reach (lstep false) (st_init ks ex) s.
Proof.
  intros LEN R. induction R as [|s l s' out R IH E].
  - split; [apply allwf_init|constructor].
  - destruct IH as (A & R'). destruct (reach_sys ks ex s LEN R') as (I & AI & L & X).
    destruct l as (okl & o). unfold lib_step in E. cbn [snd] in E.
    assert (E' : lstep false s (okl, o) = Done s' out).
    { destruct o as [[]|]; try discriminate; exact E. }
    split; [|eapply reach_step; eauto]. unfold lstep in E'. cbn [fst snd] in E'.
    destruct o as [m|ao]; cbn [step] in E'.
    + eapply (allwf_mstep okl s m s' out I A); eauto. intros a b ->. discriminate.
    + eapply (allwf_astep okl s ao s' out I AI); eauto. rewrite L. exact LEN.
Qed.

(** * Resetting every object leaks nothing *)
Section Cleanup.
  Variable ok : nat -> N -> bool.

  (** one clean-up step empties slot [i] and touches no other slot *)
  Lemma cleanup_step s i o :
    inv s -> ainv s -> 2 * N.of_nat (length (objs s)) < 4294967296 ->
    nth_error (objs s) i = Some o ->
    exists c s' out x, cleanup_op s i = Some c /\ step ok false s c = Done s' out /\
      objs s' = upd (objs s) i x /\ tgt i x = None.
  Proof.
    intros I A LEN E. unfold cleanup_op. rewrite E. unfold wfb. rewrite E.
    assert (HK : has_kind s i (okind o) = true).
    { unfold has_kind, kind_at. rewrite E. cbn. destruct (okind o); reflexivity. }
    destruct (addr_eqb (gself (ogp o)) (ASlot i)) eqn:W.
    - (* well-formed: reset *)
      assert (W' : wf_obj i o = true) by exact W.
      destruct (okind o) eqn:K.
      + exists (OM (UReset i)). cbn [step]. unfold mstep. cbn [mdom]. rewrite HK. cbn [mexec].
        destruct (unique_reset_pool_spec s i o I E K W') as (s' & R & _ & O' & _). rewrite R. cbn.
        exists s', [], (uobj i o None None). split; auto. split; auto. split; auto. unfold tgt, wf_obj. cbn. rewrite Nat.eqb_refl. reflexivity.
      + exists (OM (SReset i)). cbn [step]. unfold mstep. cbn [mdom]. rewrite HK. cbn [mexec].
        destruct (shared_reset_spec s i o I E) as (s' & R & _ & O'); auto; [rewrite K; reflexivity|]. rewrite R. cbn.
        exists s', [], (ptr_obj i o None). split; auto. split; auto. split; auto. apply tgt_ptr_obj.
      + exists (OM (WReset i)). cbn [step]. unfold mstep. cbn [mdom]. rewrite HK. cbn [mexec].
        destruct (weak_reset_spec None s i o I (or_introl eq_refl) E) as (s' & R & _ & O'); auto; try (rewrite K; discriminate).
        rewrite R. cbn. exists s', [], (ptr_obj i o None). split; auto. split; auto. split; auto. apply tgt_ptr_obj.
      + exists (OA (VReset i)). cbn [step]. unfold astep. cbn [adom]. rewrite HK. cbn [aexec].
        destruct (array_reset_spec s i o I A E K W') as (s' & R & _ & _ & _ & O'). rewrite R. cbn.
        exists s', [], (olo (ptr_obj i o None) 0 0). split; auto. split; auto. split; auto.
        unfold tgt, wf_obj. cbn. rewrite Nat.eqb_refl. reflexivity.
      + exists (OM (GInit i)). cbn [step]. unfold mstep. cbn [mdom]. rewrite HK. cbn [mexec].
        unfold guarded_init, guarded_set. rewrite (wr_gp_eq s i o None E).
        do 3 eexists. split; [reflexivity|]. split; [reflexivity|]. split; [reflexivity|]. apply tgt_ptr_obj.
    - (* a stray copy: re-initialise *)
      assert (DI : disposable s i = true) by (unfold disposable, wfb; rewrite E, W; reflexivity).
      destruct (okind o) eqn:K.
      + exists (OM (UInit i)). cbn [step]. unfold mstep. cbn [mdom]. rewrite HK, DI. cbn [andb mexec].
        unfold unique_init, wr_up. rewrite E. cbn [ugp uclr]. do 3 eexists. split; [reflexivity|]. split; [reflexivity|].
        split; [reflexivity|]. unfold tgt, wf_obj. cbn. rewrite Nat.eqb_refl. reflexivity.
      + exists (OM (SInit i)). cbn [step]. unfold mstep. cbn [mdom]. rewrite HK, DI. cbn [andb mexec].
        unfold obj_reinit. rewrite E. do 3 eexists. split; [reflexivity|]. split; [reflexivity|].
        split; [reflexivity|]. unfold tgt, wf_obj. cbn. rewrite Nat.eqb_refl. reflexivity.
      + exists (OM (WInit i)). cbn [step]. unfold mstep. cbn [mdom]. rewrite HK, DI. cbn [andb mexec].
        unfold obj_reinit. rewrite E. do 3 eexists. split; [reflexivity|]. split; [reflexivity|].
        split; [reflexivity|]. unfold tgt, wf_obj. cbn. rewrite Nat.eqb_refl. reflexivity.
      + exists (OA (VInit i)). cbn [step]. unfold astep. cbn [adom]. rewrite HK, DI. cbn [andb aexec].
        unfold obj_reinit. rewrite E. do 3 eexists. split; [reflexivity|]. split; [reflexivity|].
        split; [reflexivity|]. unfold tgt, wf_obj. cbn. rewrite Nat.eqb_refl. reflexivity.
      + exists (OM (GInit i)). cbn [step]. unfold mstep. cbn [mdom]. rewrite HK. cbn [mexec].
        unfold guarded_init, guarded_set. rewrite (wr_gp_eq s i o None E).
        do 3 eexists. split; [reflexivity|]. split; [reflexivity|]. split; [reflexivity|]. apply tgt_ptr_obj.
  Qed.

  Lemma cleanup_from_spec n : forall i s,
    inv s -> ainv s -> 2 * N.of_nat (length (objs s)) < 4294967296 ->
    (i + n = length (objs s))%nat ->
    (forall j o, (j < i)%nat -> nth_error (objs s) j = Some o -> tgt j o = None) ->
    exists s', cleanup_from ok false n i s = Done s' [] /\ inv s' /\
      forall j o, nth_error (objs s') j = Some o -> tgt j o = None.
  Proof.
    induction n as [|n IH]; intros i s I A LEN L P.
    - exists s. split; auto. split; auto. intros j o E. apply (P j o); auto.
      assert (j < length (objs s))%nat by (apply nth_error_Some; congruence). lia.
    - cbn [cleanup_from].
      destruct (nth_error (objs s) i) as [o|] eqn:E.
      2:{ apply nth_error_None in E. lia. }
      destruct (cleanup_step s i o I A LEN E) as (c & s1 & out & x & C & R & O1 & T). rewrite C, R.
      pose proof (step_outcome ok s c I A LEN) as Q. rewrite R in Q. destruct Q as (I1 & A1 & L1 & _).
      apply (IH (S i) s1); auto.
      + rewrite L1. exact LEN.
      + rewrite L1. lia.
      + intros j oj Lj Ej. rewrite O1 in Ej. rewrite nth_error_upd in Ej. destruct (Nat.eqb_spec i j) as [->|N].
        * destruct (Nat.ltb j (length (objs s))); [|discriminate]. congruence.
        * apply (P j oj); auto. lia.
  Qed.

  (** the end-of-case clean-up of the harness: every object reset (stray
      copies re-initialised); afterwards no block is live *)
  Theorem cleanup_no_leak s :
    inv s -> ainv s -> 2 * N.of_nat (length (objs s)) < 4294967296 ->
    exists s', cleanup ok false s = Done s' [] /\ live (al s') = [].
  Proof.
    intros I A LEN. unfold cleanup.
    destruct (cleanup_from_spec (length (objs s)) 0 s I A LEN) as (s' & R & I' & E); auto.
    { intros j o Lj. lia. }
    exists s'. split; auto. apply no_leak; auto.
  Qed.
End Cleanup.

(** * Locality: a call depends on and changes only the slots it mentions *)
(** the state with slot [x] overwritten by a fixed dummy object *)
Definition dummy (x : nat) : obj := obj_init KS x.
Definition blank (x : nat) (s : st) : st := set_objs s (upd (objs s) x (dummy x)).

Definition rmap {A B} (f : A -> B) (r : res A) : res B :=
  match r with Ok a => Ok (f a) | Ab => Ab | Flt => Flt end.

Lemma blank_nth x s i : i <> x -> nth_error (objs (blank x s)) i = nth_error (objs s) i.
Proof. intros N. unfold blank. cbn [objs set_objs]. apply nth_error_upd_other. auto. Qed.

Lemma blank_rd_gp x s i : i <> x -> rd_gp (blank x s) i = rd_gp s i.
Proof. intros N. unfold rd_gp. rewrite blank_nth; auto. Qed.

Lemma blank_set_objs_upd x s i o : i <> x ->
  set_objs (blank x s) (upd (objs (blank x s)) i o) = blank x (set_objs s (upd (objs s) i o)).
Proof. intros N. unfold blank, set_objs. cbn [al objs datas descs exts log]. rewrite (upd_comm _ x i); auto. Qed.

Lemma blank_wr_gp x s i g : i <> x -> wr_gp (blank x s) i g = blank x (wr_gp s i g).
Proof.
  intros N. unfold wr_gp. rewrite blank_nth by auto. destruct (nth_error (objs s) i); auto.
  apply blank_set_objs_upd; auto.
Qed.

Definition mentions (x : nat) (a : addr) : Prop := a = ASlot x.

Lemma blank_rd_up x s a : ~ mentions x a -> rd_up (blank x s) a = rd_up s a.
Proof.
  intros N. destruct a as [i|d]; unfold rd_up; auto. rewrite blank_nth; auto. intros ->. apply N. reflexivity.
Qed.

Lemma blank_wr_up x s a u : ~ mentions x a -> wr_up (blank x s) a u = blank x (wr_up s a u).
Proof.
  intros N. destruct a as [i|d]; unfold wr_up.
  - assert (i <> x) by (intros ->; apply N; reflexivity). rewrite blank_nth by auto.
    destruct (nth_error (objs s) i); auto. apply blank_set_objs_upd; auto.
  - cbn [datas blank set_objs]. destruct (lookup d (datas s)); reflexivity.
Qed.

Lemma blank_rd_data x s d : rd_data (blank x s) d = rd_data s d.
Proof. reflexivity. Qed.
Lemma blank_wr_data x s d D : wr_data (blank x s) d D = blank x (wr_data s d D).
Proof. reflexivity. Qed.
Lemma blank_add_log x s e : add_log (blank x s) e = blank x (add_log s e).
Proof. reflexivity. Qed.
Lemma blank_do_free x s p : do_free (blank x s) p = blank x (do_free s p).
Proof. destruct p; reflexivity. Qed.
Lemma blank_do_malloc ok x s sz : do_malloc ok (blank x s) sz = (blank x (fst (do_malloc ok s sz)), snd (do_malloc ok s sz)).
Proof. unfold do_malloc. cbn [al blank set_objs]. destruct (malloc ok (al s) sz). reflexivity. Qed.
Lemma blank_do_malloc' ok x s sz s2 r : do_malloc ok s sz = (s2, r) -> do_malloc ok (blank x s) sz = (blank x s2, r).
Proof. intros E. rewrite blank_do_malloc, E. reflexivity. Qed.
Lemma blank_unique_init x s a : ~ mentions x a -> unique_init (blank x s) a = blank x (unique_init s a).
Proof. intros N. unfold unique_init. apply blank_wr_up; auto. Qed.

Lemma bind_rmap {A B C} (f : A -> B) (r : res A) (k : B -> res C) : bind (rmap f r) k = bind r (fun a => k (f a)).
Proof. destruct r; reflexivity. Qed.

Ltac bl :=
  repeat first
    [ rewrite blank_rd_gp by assumption
    | rewrite blank_wr_gp by assumption
    | rewrite blank_rd_up by assumption
    | rewrite blank_wr_up by assumption
    | rewrite blank_unique_init by assumption
    | rewrite blank_rd_data
    | rewrite blank_wr_data
    | rewrite blank_add_log
    | rewrite blank_do_free
    | match goal with
      | |- context [do_malloc ?ok (blank ?x ?s) ?sz] =>
        let E := fresh "E" in destruct (do_malloc ok s sz) as (? & ?) eqn:E; rewrite (blank_do_malloc' ok x s sz _ _ E)
      end
    | rewrite bind_rmap
    | progress cbn [bind rmap fst snd]
    | match goal with
      | |- context [if ?c then _ else _] => lazymatch c with context [blank] => fail | _ => destruct c eqn:? end
      end
    | match goal with
      | |- context [match ?r with Some _ => _ | None => _ end] =>
        lazymatch r with context [blank] => fail | context [bind] => fail | _ => destruct r eqn:? end
      end
    | match goal with
      | |- context [let '(a, b) := ?e in _] => lazymatch e with context [blank] => fail | _ => destruct e as (? & ?) eqn:? end
      end
    | match goal with
      | |- context [bind ?r _] =>
        lazymatch r with context [blank] => fail | context [bind] => fail | context [if _ then _ else _] => fail
                       | _ => destruct r eqn:? end
      end
    | reflexivity
    | solve [congruence] ].

Lemma blank_unique_reset x s a : ~ mentions x a -> unique_reset (blank x s) a = rmap (blank x) (unique_reset s a).
Proof. intros N. unfold unique_reset. bl. Qed.

Lemma blank_weak_reset x s i : i <> x -> weak_reset (blank x s) i = rmap (blank x) (weak_reset s i).
Proof. intros N. unfold weak_reset. bl. Qed.

Lemma not_mentions_data x d : ~ mentions x (AData d).
Proof. intros H. discriminate. Qed.
Lemma not_mentions_slot x i : i <> x -> ~ mentions x (ASlot i).
Proof. intros N H. injection H as ->. auto. Qed.

Ltac bl2 :=
  repeat first
    [ rewrite blank_unique_reset by (first [assumption|apply not_mentions_data|apply not_mentions_slot; assumption])
    | rewrite blank_weak_reset by assumption
    | rewrite blank_rd_up by (first [assumption|apply not_mentions_data|apply not_mentions_slot; assumption])
    | rewrite blank_wr_up by (first [assumption|apply not_mentions_data|apply not_mentions_slot; assumption])
    | rewrite blank_unique_init by (first [assumption|apply not_mentions_data|apply not_mentions_slot; assumption])
    | bl ].

Lemma blank_shared_reset x s i : i <> x -> shared_reset (blank x s) i = rmap (blank x) (shared_reset s i).
Proof. intros N. unfold shared_reset. bl2. Qed.

Section Loc.
  Variable ok : nat -> N -> bool.

  Lemma blank_unique_alloc x s a sz cb :
    ~ mentions x a -> unique_alloc ok (blank x s) a sz cb = rmap (blank x) (unique_alloc ok s a sz cb).
  Proof. intros N. unfold unique_alloc. bl2. Qed.

  Lemma blank_unique_get x s a : ~ mentions x a -> unique_get (blank x s) a = unique_get s a.
  Proof. intros N. unfold unique_get. bl2. Qed.

  Lemma blank_shared_alloc x s i sz cb :
    i <> x -> shared_alloc ok (blank x s) i sz cb = rmap (blank x) (shared_alloc ok s i sz cb).
  Proof.
    intros N. unfold shared_alloc. rewrite blank_shared_reset by auto. rewrite bind_rmap.
    destruct (shared_reset s i) as [s1| |]; cbn [bind rmap]; auto.
    destruct (0 <? sz); cbn [rmap]; auto.
    destruct (do_malloc ok s1 DATA_SZ) as (s2 & [d|]) eqn:M; rewrite (blank_do_malloc' ok x s1 _ _ _ M); cbn [rmap]; auto.
    rewrite blank_wr_data, blank_unique_alloc by apply not_mentions_data. rewrite bind_rmap.
    destruct (unique_alloc ok _ (AData d) sz cb) as [s4| |]; cbn [bind rmap]; auto.
    rewrite blank_unique_get by apply not_mentions_data.
    destruct (unique_get s4 (AData d)) as [[m|]| |]; cbn [bind rmap]; auto;
      rewrite ?blank_wr_gp, ?blank_do_free by auto; reflexivity.
  Qed.
End Loc.

Lemma blank_shared_unique x s i : i <> x -> shared_unique (blank x s) i = shared_unique s i.
Proof. intros N. unfold shared_unique. bl2. Qed.
Lemma blank_shared_get x s i : i <> x -> shared_get (blank x s) i = shared_get s i.
Proof. intros N. unfold shared_get. bl2. Qed.

Lemma blank_shared_share x s e n :
  e <> x -> n <> x -> shared_share (blank x s) e n = rmap (blank x) (shared_share s e n).
Proof.
  intros Ne Nn. unfold shared_share. rewrite blank_shared_reset by auto. rewrite bind_rmap.
  destruct (shared_reset s n) as [s1| |]; cbn [bind rmap]; auto. bl2.
Qed.

Lemma blank_gp_swap x s a b : a <> x -> b <> x -> gp_swap (blank x s) a b = rmap (blank x) (gp_swap s a b).
Proof. intros Na Nb. unfold gp_swap. bl2. Qed.

Lemma blank_weak_from x s w sp :
  w <> x -> sp <> x -> weak_from (blank x s) w sp = rmap (blank x) (weak_from s w sp).
Proof.
  intros Nw Ns. unfold weak_from. rewrite blank_weak_reset by auto. rewrite bind_rmap.
  destruct (weak_reset s w) as [s1| |]; cbn [bind rmap]; auto. bl2.
Qed.

Lemma blank_weak_lock x s w sp :
  w <> x -> sp <> x -> weak_lock (blank x s) w sp = rmap (blank x) (weak_lock s w sp).
Proof.
  intros Nw Ns. unfold weak_lock. rewrite blank_shared_reset by auto. rewrite bind_rmap.
  destruct (shared_reset s sp) as [s1| |]; cbn [bind rmap]; auto. bl2.
Qed.

Lemma blank_unique_swap x s u v :
  u <> x -> v <> x -> unique_swap (blank x s) (ASlot u) (ASlot v) = rmap (blank x) (unique_swap s (ASlot u) (ASlot v)).
Proof. intros Nu Nv. unfold unique_swap. bl2. Qed.

Lemma blank_guarded_set x s i p : i <> x -> guarded_set (blank x s) i p = blank x (guarded_set s i p).
Proof. intros N. unfold guarded_set. apply blank_wr_gp; auto. Qed.
Lemma blank_guarded_get_const x s i : i <> x -> guarded_get_const (blank x s) i = guarded_get_const s i.
Proof. intros N. unfold guarded_get_const. bl2. Qed.
Lemma blank_guarded_copy x s a b :
  a <> x -> b <> x -> guarded_copy (blank x s) a b = rmap (blank x) (guarded_copy s a b).
Proof.
  intros Na Nb. unfold guarded_copy. rewrite blank_guarded_get_const by auto.
  destruct (guarded_get_const s b); cbn [bind rmap]; auto. rewrite blank_guarded_set by auto. reflexivity.
Qed.

Lemma blank_unique_release x s u :
  u <> x -> unique_release (blank x s) (ASlot u) =
            rmap (fun r => (blank x (fst (fst r)), snd (fst r), snd r)) (unique_release s (ASlot u)).
Proof. intros Nu. unfold unique_release. bl2. Qed.

(** ** array functions *)
Lemma blank_off_at x s a : a <> x -> off_at (blank x s) a = off_at s a.
Proof. intros N. unfold off_at. rewrite blank_nth; auto. Qed.
Lemma blank_len_at x s a : a <> x -> len_at (blank x s) a = len_at s a.
Proof. intros N. unfold len_at. rewrite blank_nth; auto. Qed.
Lemma blank_set_offlen x s a off len : a <> x -> set_offlen (blank x s) a off len = blank x (set_offlen s a off len).
Proof.
  intros N. unfold set_offlen. rewrite blank_nth by auto. destruct (nth_error (objs s) a); auto.
  apply blank_set_objs_upd; auto.
Qed.
Lemma blank_rd_desc x s m : rd_desc (blank x s) m = rd_desc s m.
Proof. reflexivity. Qed.
Lemma blank_wr_desc x s m d : wr_desc (blank x s) m d = blank x (wr_desc s m d).
Proof. reflexivity. Qed.
Lemma blank_loc_inside x s l sz : loc_inside (blank x s) l sz = loc_inside s l sz.
Proof. reflexivity. Qed.

Ltac bl3 :=
  repeat first
    [ rewrite blank_shared_reset by assumption
    | rewrite blank_shared_get by assumption
    | rewrite blank_shared_unique by assumption
    | rewrite blank_shared_share by assumption
    | rewrite blank_off_at by assumption
    | rewrite blank_len_at by assumption
    | rewrite blank_set_offlen by assumption
    | rewrite blank_rd_desc
    | rewrite blank_wr_desc
    | rewrite blank_loc_inside
    | bl2 ].

Lemma blank_array_reset x s a : a <> x -> array_reset (blank x s) a = rmap (blank x) (array_reset s a).
Proof. intros N. unfold array_reset. bl3. Qed.

Section LocA.
  Variable ok : nat -> N -> bool.
  Variable v0 : bool.

  Lemma blank_array_alloc x s a nm sz :
    a <> x -> array_alloc ok v0 (blank x s) a nm sz = rmap (blank x) (array_alloc ok v0 s a nm sz).
  Proof.
    intros N. unfold array_alloc.
    assert (R : (if v0 then shared_reset (blank x s) a else array_reset (blank x s) a) =
                rmap (blank x) (if v0 then shared_reset s a else array_reset s a)).
    { destruct v0; [apply blank_shared_reset|apply blank_array_reset]; auto. }
    rewrite R, bind_rmap. destruct (if v0 then shared_reset s a else array_reset s a) as [s1| |]; cbn [bind rmap]; auto.
    destruct (negb v0 && negb (sz =? 0) && ((MAX64 - HDR) / sz <? nm)); cbn [rmap]; auto.
    rewrite (blank_shared_alloc ok) by auto. rewrite bind_rmap.
    destruct (shared_alloc ok s1 a _ None) as [s2| |]; cbn [bind rmap]; auto.
    change (al (blank x s2)) with (al s2). bl3.
  Qed.

  Lemma blank_array_set x s a e nm sz :
    a <> x -> array_set ok v0 (blank x s) a e nm sz = rmap (blank x) (array_set ok v0 s a e nm sz).
  Proof.
    intros N. unfold array_set. rewrite blank_array_alloc by auto. rewrite bind_rmap.
    destruct (array_alloc ok v0 s a 0 sz) as [s1| |]; cbn [bind rmap]; auto. bl3.
  Qed.

  Lemma blank_array_slice x s a b e t :
    a <> x -> t <> x -> array_slice v0 (blank x s) a b e t = rmap (blank x) (array_slice v0 s a b e t).
  Proof. intros Na Nt. unfold array_slice. bl3. Qed.
End LocA.

Lemma blank_array_release x s a :
  a <> x -> array_release (blank x s) a = rmap (fun r => (blank x (fst r), snd r)) (array_release s a).
Proof.
  intros N. unfold array_release. rewrite blank_shared_get by auto.
  destruct (shared_get s a) as [[m|]| |]; cbn [bind rmap]; auto.
  rewrite blank_rd_desc. destruct (rd_desc s m) as [d| |]; cbn [bind rmap]; auto.
  destruct (dbuf d); cbn [rmap]; auto. rewrite blank_shared_unique by auto.
  destruct (shared_unique s a) as [[|]| |]; cbn [bind rmap]; auto.
  rewrite blank_array_reset by auto. rewrite bind_rmap. destruct (array_reset s a); reflexivity.
Qed.

Lemma blank_array_data x s a : a <> x -> array_data (blank x s) a = array_data s a.
Proof. intros N. unfold array_data. bl3. Qed.
Lemma blank_array_at x s a i : a <> x -> array_at (blank x s) a i = array_at s a i.
Proof. intros N. unfold array_at. bl3. Qed.
Lemma blank_array_unslice x s sl a :
  sl <> x -> a <> x -> array_unslice (blank x s) sl a = rmap (blank x) (array_unslice s sl a).
Proof. intros Ns Na. unfold array_unslice. bl3. Qed.

(** ** the scripted calls *)
Definition mslots (o : mop) : list nat :=
  match o with
  | UInit u | UAlloc u _ _ | UGet u | URelease u | UReset u => [u]
  | USwap u v => [u; v]
  | SInit x | SAlloc x _ _ | SGet x | SUnique x | SReset x => [x]
  | SShare e n => [e; n]
  | SSwap a b | WSwap a b => [a; b]
  | WInit w | WReset w => [w]
  | WFrom w x | WLock w x => [w; x]
  | StrayCopy a b => [a; b]
  | GInit g | GSet g _ | GGet g | GGetC g => [g]
  | GCopy a b | GSwap a b => [a; b]
  end.
Definition aslots (o : aop) : list nat :=
  match o with
  | VInit a | VAlloc a _ _ | VSet a _ _ _ | VRelease a | VData a | VAt a _ | VSize a | VReset a => [a]
  | VSlice a _ _ t => [a; t]
  | VUnslice sl a => [sl; a]
  end.
Definition slots (o : op) : list nat := match o with OM m => mslots m | OA a => aslots a end.

Definition omap (f : st -> st) (r : outcome st) : outcome st :=
  match r with Done s out => Done (f s) out | Abort => Abort | Fault => Fault | Precond => Precond end.

Lemma blank_has_kind x s i k : i <> x -> has_kind (blank x s) i k = has_kind s i k.
Proof. intros N. unfold has_kind, kind_at. rewrite blank_nth; auto. Qed.
Lemma blank_disposable x s i : i <> x -> disposable (blank x s) i = disposable s i.
Proof. intros N. unfold disposable, wfb, ptr_at. rewrite blank_nth; auto. Qed.

Lemma of_res_rmap (f : st -> st) (r : res st) (k : st -> outcome st) :
  (forall a, k (f a) = omap f (k a)) -> of_res (rmap f r) k = omap f (of_res r k).
Proof. intros H. destruct r; cbn; auto. Qed.

Section LocStep.
  Variable ok : nat -> N -> bool.
  Variable v0 : bool.

  Ltac nin H := cbn [In mslots aslots] in H;
    repeat match goal with
    | H : ~ (_ \/ _) |- _ => apply Decidable.not_or in H; destruct H
    end.

  Ltac neq := first [assumption | (intros ->; tauto) | (intros <-; tauto) | auto].

  Lemma blank_mstep x s o : ~ In x (mslots o) -> mstep ok (blank x s) o = omap (blank x) (mstep ok s o).
  Proof.
    intros N. unfold mstep. destruct o; cbn [In mslots] in N;
      repeat match goal with
      | H : ~ (_ \/ _) |- _ => apply Decidable.not_or in H; destruct H
      end;
      repeat match goal with H : ?a <> x |- _ => fail | H : ~ (?a = x) |- _ => change (a <> x) in H end;
      cbn [mdom].
    all: rewrite ?blank_has_kind, ?blank_disposable by auto.
    all: try (rewrite !blank_nth by auto).
    all: try match goal with |- context [match nth_error (objs ?st) ?a with Some _ => _ | None => _ end] =>
               destruct (nth_error (objs st) a) eqn:? end.
    all: try match goal with |- context [match nth_error (objs ?st) ?a with Some _ => _ | None => _ end] =>
               destruct (nth_error (objs st) a) eqn:? end.
    all: rewrite ?blank_disposable by auto.
    all: match goal with |- (if ?c then _ else _) = _ => destruct c; [|reflexivity] end; cbn [mexec].
    - rewrite blank_unique_init by (apply not_mentions_slot; auto). reflexivity.
    - rewrite (blank_unique_alloc ok) by (apply not_mentions_slot; auto). apply of_res_rmap. reflexivity.
    - rewrite blank_unique_get by (apply not_mentions_slot; auto). destruct (unique_get s (ASlot u)); reflexivity.
    - rewrite blank_unique_release by auto. destruct (unique_release s (ASlot u)) as [((s1 & p) & c)| |]; cbn; auto.
      rewrite blank_do_free. reflexivity.
    - rewrite blank_unique_swap by auto. apply of_res_rmap. reflexivity.
    - rewrite blank_unique_reset by (apply not_mentions_slot; auto). apply of_res_rmap. reflexivity.
    - unfold obj_reinit. rewrite blank_nth by auto. destruct (nth_error (objs s) s0); auto.
      rewrite blank_set_objs_upd by auto. reflexivity.
    - rewrite (blank_shared_alloc ok) by auto. apply of_res_rmap. reflexivity.
    - rewrite blank_shared_get by auto. destruct (shared_get s s0); reflexivity.
    - rewrite blank_shared_unique by auto. destruct (shared_unique s s0); reflexivity.
    - rewrite blank_shared_share by auto. apply of_res_rmap. reflexivity.
    - rewrite blank_gp_swap by auto. apply of_res_rmap. reflexivity.
    - rewrite blank_shared_reset by auto. apply of_res_rmap. reflexivity.
    - unfold obj_reinit. rewrite blank_nth by auto. destruct (nth_error (objs s) w); auto.
      rewrite blank_set_objs_upd by auto. reflexivity.
    - rewrite blank_weak_from by auto. apply of_res_rmap. reflexivity.
    - rewrite blank_weak_lock by auto. apply of_res_rmap. reflexivity.
    - rewrite blank_gp_swap by auto. apply of_res_rmap. reflexivity.
    - rewrite blank_weak_reset by auto. apply of_res_rmap. reflexivity.
    - unfold stray_copy; rewrite blank_nth by auto; destruct (nth_error (objs s) src); [rewrite blank_set_objs_upd by auto|]; reflexivity.
    - unfold stray_copy; rewrite blank_nth by auto; destruct (nth_error (objs s) src); [rewrite blank_set_objs_upd by auto|]; reflexivity.
    - unfold stray_copy; rewrite blank_nth by auto; destruct (nth_error (objs s) src); [rewrite blank_set_objs_upd by auto|]; reflexivity.
    - unfold guarded_init. rewrite blank_guarded_set by auto. reflexivity.
    - rewrite blank_guarded_set by auto. reflexivity.
    - unfold guarded_get. rewrite blank_guarded_get_const by auto. destruct (guarded_get_const s g); reflexivity.
    - rewrite blank_guarded_get_const by auto. destruct (guarded_get_const s g); reflexivity.
    - rewrite blank_guarded_copy by auto. apply of_res_rmap. reflexivity.
    - rewrite blank_gp_swap by auto. apply of_res_rmap. reflexivity.
  Qed.

  Lemma blank_astep x s o : ~ In x (aslots o) -> astep ok v0 (blank x s) o = omap (blank x) (astep ok v0 s o).
  Proof.
    intros N. unfold astep. destruct o; cbn [In aslots] in N;
      repeat match goal with
      | H : ~ (_ \/ _) |- _ => apply Decidable.not_or in H; destruct H
      end;
      cbn [adom].
    all: rewrite ?blank_has_kind, ?blank_disposable by auto.
    all: change (exts (blank x s)) with (exts s).
    all: match goal with |- (if ?c then _ else _) = _ => destruct c; [|reflexivity] end; cbn [aexec].
    - unfold obj_reinit. rewrite blank_nth by auto. destruct (nth_error (objs s) a); auto.
      rewrite blank_set_objs_upd by auto. reflexivity.
    - rewrite (blank_array_alloc ok v0) by auto. apply of_res_rmap. reflexivity.
    - rewrite (blank_array_set ok v0) by auto. apply of_res_rmap. reflexivity.
    - rewrite blank_array_release by auto. destruct (array_release s a) as [(s1 & r)| |]; reflexivity.
    - rewrite blank_array_data by auto. destruct (array_data s a); reflexivity.
    - rewrite blank_array_at by auto. destruct (array_at s a i); reflexivity.
    - rewrite blank_len_at by auto. reflexivity.
    - rewrite (blank_array_slice v0) by auto. apply of_res_rmap. reflexivity.
    - rewrite blank_array_unslice by auto. apply of_res_rmap. reflexivity.
    - rewrite blank_array_reset by auto. apply of_res_rmap. reflexivity.
  Qed.

  (** a call that does not mention slot [x] neither reads nor writes it *)
  Theorem step_local x s o : ~ In x (slots o) -> step ok v0 (blank x s) o = omap (blank x) (step ok v0 s o).
  Proof. destruct o; cbn [step slots]; [apply blank_mstep|apply blank_astep]. Qed.

  Lemma blank_blank_upd x s o : blank x (set_objs s (upd (objs s) x o)) = blank x s.
  Proof. unfold blank, set_objs. cbn [al objs datas descs exts log]. rewrite upd_upd. reflexivity. Qed.

  (** stray_copy_frame: a stray copy into [dst] changes no call that does not
      mention [dst]: same outcome, same results, same final state up to the
      contents of slot [dst] *)
  Theorem stray_copy_frame s src dst o :
    ~ In dst (slots o) ->
    omap (blank dst) (step ok v0 (stray_copy s src dst) o) = omap (blank dst) (step ok v0 s o).
  Proof.
    intros N. rewrite <- !step_local by auto. unfold stray_copy.
    destruct (nth_error (objs s) src); auto. rewrite blank_blank_upd. reflexivity.
  Qed.
End LocStep.
