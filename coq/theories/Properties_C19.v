(** C19 -- the rehash is incremental, finishes in bounded operations and
    lands where requested.  Statements only; proofs are in HashInv.v,
    HashOps.v, HashTable.v, HashSys.v.  Same model and conventions as
    Properties_C03.v; every call returns a work log ([EvHash f k m]: the hash
    function f was called with key k and table size m; [EvClean i]: the
    contents of dirty bucket i were relocated).  [tgt_count]/[tgt_hash] is
    the geometry the table is heading for (pending if a rehash is pending,
    else current); cstl_hash_load is [size / tgt_count].  The code as found
    violates the first theorem: FindingsHash.v (F4). *)
From Cstl Require Import Prelude AllocModel HashModel HashProofs HashInv HashOps HashTable HashSys.
Local Open Scope N_scope.

Section C19.
  Variable hf : fn_id -> N -> N -> option N.
  Variable key : nat -> N.
  Variable ok : nat -> N -> bool.
  Hypothesis Hdef : hf_def hf.

  Notation exec := (exec hf key fixed ok).
  Notation step := (step hf key fixed ok).
  Notation sys_inv := (sys_inv hf key).

  (** 1. resize_lands.  Any request for [n >= 1] buckets (domain guard:
      [n <= SIZE_MAX/16], the byte count is not overflow-checked by the
      library), at any moment -- also while an earlier resize is pending:
      if it can be satisfied (the bucket array is, or could be made, large
      enough: [n <= cap t']) the table is heading for exactly [n] buckets and
      the requested function ([f], else the function in force, else the
      built-in cstl_hash_mul), so load = size/n; otherwise the table is
      undisturbed.  The elements are kept in both cases. *)
  Theorem C19_resize_lands s i t n f :
    in_range hf -> sys_inv s -> nth_error (tabs s) i = Some t -> 0 < n -> n <= MAX_BUCKETS ->
    exists s' t' r w,
      exec s (Resize i n f) = XDone s' r w /\ sys_inv s' /\ nth_error (tabs s') i = Some t' /\
      Permutation (live t') (live t) /\
      (n <= cap t' -> tgt_count t' = n /\ tgt_hash t' = new_hash t f /\ load t' = (size t, n)) /\
      (cap t' < n -> t' = t).
  Proof.
    intros R SI Et Hn Hm. pose proof (exec_refines hf key ok Hdef s (Resize i n f) SI) as H.
    unfold outcome_ok in H. destruct (exec s (Resize i n f)) as [s' r w| | |] eqn:E.
    - destruct H as (SI' & t0 & t' & E0 & Eu & Pl & Z & _ & Land & Keep & _).
      rewrite Et in E0. injection E0 as <-. exists s', t', r, w. split; auto. split; auto.
      split; [rewrite Eu; apply nth_error_upd_same; eapply nth_error_some_lt; eauto|].
      split; auto. split; auto. intros Hc. destruct (Land Hn Hc) as (TC & TH).
      unfold load. rewrite TC, Z. auto.
    - contradiction.
    - contradiction.
    - exfalso. cbn [HashModel.exec] in E. unfold with_tab in E. rewrite Et in E.
      destruct (N.ltb_spec MAX_BUCKETS n); [lia|]. unfold lift in E.
      destruct (resize hf key fixed ok t (al s) n f); simpl in E; discriminate.
  Qed.

  (** 2. keyed_op_work.  A keyed operation (insert, find, erase) relocates
      the contents of at most three buckets; while a rehash is pending it
      advances the sweep index by at least one or completes the rehash; it
      never changes where the table is heading *)
  Theorem C19_keyed_op_work s i o t s' r w :
    sys_inv s -> keyed_on i o -> nth_error (tabs s) i = Some t -> exec s o = XDone s' r w ->
    exists t', nth_error (tabs s') i = Some t' /\
      (ncleans w <= 3)%nat /\
      (rhash t <> None -> rhash t' = None \/ (rclean t < rclean t' /\ bcount t' = bcount t)) /\
      tgt_count t' = tgt_count t /\ tgt_hash t' = tgt_hash t.
  Proof.
    intros SI K Et E.
    destruct (keyed_step hf key ok Hdef s i o s' r w t SI K Et E) as (t' & k & Et' & ((TC & TH & _) & Pr & N3 & _)).
    exists t'. auto.
  Qed.

  (** 3. rehash_finishes.  At most [count] keyed operations on a table
      complete its pending rehash (more precisely [count - sweep index]);
      the table then has the geometry it was heading for *)
  Theorem C19_rehash_finishes s i t ops s' outs :
    sys_inv s -> nth_error (tabs s) i = Some t -> Forall (keyed_on i) ops ->
    run step s ops = (Done s' [], outs) -> (N.to_nat (bcount t) <= length ops)%nat ->
    exists t', nth_error (tabs s') i = Some t' /\ rhash t' = None /\
               bcount t' = tgt_count t /\ hash t' = tgt_hash t.
  Proof.
    intros SI Et K Rn Hl.
    destruct (rehash_finishes_gen hf key ok Hdef ops s i t s' outs SI Et K Rn) as (t' & Et' & Hr & TC & TH).
    { intros _. lia. }
    exists t'. unfold tgt_count at 1 in TC. unfold tgt_hash at 1 in TH. rewrite Hr in TC, TH. auto.
  Qed.

  (** 4. settled_calls.  With no rehash pending a keyed operation calls the
      hash function exactly once, with the key, the table size and the
      function the table was heading for (= the most recently requested ones,
      by theorems 1-3) *)
  Theorem C19_settled_calls s i o t s' r w g :
    sys_inv s -> keyed_on i o -> nth_error (tabs s) i = Some t -> rhash t = None ->
    tgt_hash t = Some g -> exec s o = XDone s' r w ->
    exists k, hcalls w = [(g, k, tgt_count t)] /\
              match o with
              | Insert _ e | Erase _ e => k = key e
              | Find _ k' _ => k = k'
              | _ => True
              end.
  Proof.
    intros SI K Et Hr Hg E. pose proof (exec_refines hf key ok Hdef s o SI) as R.
    unfold outcome_ok in R. rewrite E in R. destruct R as (_ & P).
    unfold tgt_hash, tgt_count in *. rewrite Hr in *.
    destruct o; simpl in K; try contradiction; subst; simpl in P.
    - destruct P as (t0 & t' & E0 & _ & _ & _ & _ & _ & (_ & _ & _ & Hs)). rewrite Et in E0. injection E0 as <-.
      destruct (Hs Hr) as (_ & g' & Eg & Hc). exists (key e). split; auto. congruence.
    - destruct P as (t0 & t' & x & E0 & _ & _ & _ & _ & _ & _ & (_ & _ & _ & Hs)). rewrite Et in E0. injection E0 as <-.
      destruct (Hs Hr) as (_ & g' & Eg & Hc). exists k. split; auto. congruence.
    - destruct P as (t0 & t' & E0 & _ & _ & _ & _ & _ & _ & (_ & _ & _ & Hs)). rewrite Et in E0. injection E0 as <-.
      destruct (Hs Hr) as (_ & g' & Eg & Hc). exists (key e). split; auto. congruence.
  Qed.

  (** 5. the three together: once a request has landed at [(n, g)], [count]
      keyed operations later the rehash is over and every further lookup
      consults [g] exactly once with table size [n] *)
  Theorem C19_lookup_after_rehash s i t n g ops s1 outs o s2 r w :
    sys_inv s -> nth_error (tabs s) i = Some t -> tgt_count t = n -> tgt_hash t = Some g ->
    Forall (keyed_on i) ops -> run step s ops = (Done s1 [], outs) ->
    (N.to_nat (bcount t) <= length ops)%nat ->
    keyed_on i o -> exec s1 o = XDone s2 r w ->
    exists k, hcalls w = [(g, k, n)].
  Proof.
    intros SI Et Tn Tg K Rn Hl Ko E.
    destruct (rehash_finishes_gen hf key ok Hdef ops s i t s1 outs SI Et K Rn) as (t1 & Et1 & Hr & TC & TH).
    { intros _. lia. }
    assert (SI1 : sys_inv s1).
    { pose proof (run_safe hf key ok Hdef s ops SI) as H. rewrite Rn in H. exact H. }
    destruct (C19_settled_calls s1 i o t1 s2 r w g SI1 Ko Et1 Hr ltac:(congruence) E) as (k & Hc & _).
    exists k. congruence.
  Qed.
End C19.

(** Non-vacuity: a resize issued while 3 -> 5 is pending lands (the situation
    of F4: back to the current size), load follows, and three finds finish
    the rehash of three buckets with at most three relocations each. *)
Example C19_example :
  let key := fun e => nth e [0; 0; 1; 2] 0 in
  let hf := script_hf (fun _ _ => 0) in
  let okk := fun (_ : nat) (_ : N) => true in
  let pre := [Resize 0 3 (Some 1%nat); Insert 0 0; Insert 0 1; Insert 0 2; Insert 0 3;
              Resize 0 5 None; Resize 0 3 None] in
  match fst (run (step hf key fixed okk) (sys_init 1) pre) with
  | Done s _ =>
    option_map (fun t => (load t, rhash t, bcount t)) (nth_error (tabs s) 0) = Some ((4, 3), Some 1%nat, 5) /\
    (match run (step hf key fixed okk) s [Find 0 0 None; Find 0 1 None; Find 0 2 None; Find 0 7 None; Find 0 9 None] with
     | (Done s' _, _) => option_map (fun t => (rhash t, bcount t, hash t)) (nth_error (tabs s') 0) = Some (None, 3, Some 1%nat)
     | _ => False end) /\
    (match exec hf key fixed okk s (Find 0 4 None) with
     | XDone _ _ w => ncleans w = 3%nat
     | _ => False end)
  | _ => False
  end.
Proof. vm_compute. repeat split; reflexivity. Qed.

Print Assumptions C19_resize_lands.
Print Assumptions C19_keyed_op_work.
Print Assumptions C19_rehash_finishes.
Print Assumptions C19_settled_calls.
Print Assumptions C19_lookup_after_rehash.
