(** C19 -- placeholder, replaced below *)
From Cstl Require Import Prelude AllocModel HashModel.
Theorem C19_placeholder : live t_init = [].
Proof. reflexivity. Qed.
Print Assumptions C19_placeholder.
