(** C02 — statements only. *)
From Cstl Require Import Prelude TreeModel TreeProofs.

Theorem C02_insert_root_black t x t' : rb_insert t x = Some t' -> col t' = Black.
Proof. unfold rb_insert. destruct (fix_ins _ _) as [r|]; intros [= <-]. destruct r; reflexivity. Qed.

Print Assumptions C02_insert_root_black.
