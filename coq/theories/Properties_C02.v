(** C02 — red-black trees satisfy the red-black rules after every insert and
    erase; height bound.  Statements only; proofs are in RBProofs.v and
    TreeSysProofs.v.  The functions are the transcriptions of rbtree.c in
    TreeModel.v ([rb_insert], [rb_insert_from], [rb_erase], [step]). *)
From Cstl Require Import Prelude TreeModel TreeProofs RBProofs TreeSysProofs.

(** [rb_inv] is the conjunction of the three documented rules *)
Theorem C02_rules t :
  rb_inv t <-> root_black t /\ no_red_red t /\ exists n, black_height t n.
Proof. exact (rb_inv_rules t). Qed.

(** cstl_rbtree_insert, from every tree satisfying the rules and for every
    element: no unchecked dereference faults ([Some]) and the rules hold again *)
Theorem C02_insert_preserves t x :
  rb_inv t -> exists t', rb_insert t x = Some t' /\ rb_inv t'.
Proof. exact (rb_insert_inv t x). Qed.

(** ... also when the descent starts at a hinted node of the tree *)
Theorem C02_insert_hint_preserves hint t x r :
  rb_inv t -> rb_insert_from hint t x = Some r -> exists t', r = Some t' /\ rb_inv t'.
Proof. exact (rb_insert_from_inv hint t x r). Qed.

(** cstl_rbtree_erase (find, __cstl_bintree_erase, colour transfer, fix-up
    with the stack stand-in), from every tree satisfying the rules and for
    every key: no fault and the rules hold again *)
Theorem C02_erase_preserves t k :
  rb_inv t -> exists r t', rb_erase t k = Some (r, t') /\ rb_inv t'.
Proof. exact (rb_erase_inv t k). Qed.

(** the fix-up loops themselves, from every context/subtree pair that
    satisfies their loop invariants *)
Theorem C02_fix_insertion c x n :
  rbt x n -> col x = Red -> cinv c n ->
  exists t', fix_ins x c = Some t' /\ rb_inv (blacken t').
Proof. intros. eapply fix_ins_ok; eauto. Qed.

Theorem C02_fix_deletion c x n :
  rbt x n -> cinv c (S n) -> exists t', fix_del x c = Some t' /\ rb_inv t'.
Proof. intros. eapply fix_del_ok; eauto. Qed.

(** height <= 2*log2(size+1), without real numbers *)
Theorem C02_height_bound t : rb_inv t -> (2 ^ height t <= (size t + 1) ^ 2)%nat.
Proof. exact (rb_height_bound t). Qed.

Theorem C02_height_log t : rb_inv t -> (2 ^ (Nat.div2 (S (height t))) <= size t + 1)%nat.
Proof. exact (rb_height_log t). Qed.

Section C02.
  Variable key : nat -> Z.
  Notation step := (TreeModel.step key RB).

  (** every state reachable by any sequence of operations satisfies the rules *)
  Theorem C02_reachable_rules s :
    reach step t_init s ->
    root_black (tr s) /\ no_red_red (tr s) /\ exists n, black_height (tr s) n.
  Proof.
    intros R. apply rb_inv_rules. destruct (reach_tinv key RB s R) as (_ & _ & _ & H). auto.
  Qed.

  (** no operation faults or aborts in a reachable state *)
  Theorem C02_never_fault s o :
    reach step t_init s -> step s o <> Fault /\ step s o <> Abort.
  Proof.
    intros R. pose proof (step_correct key RB s o (reach_tinv key RB s R)) as H.
    destruct (step s o); try tauto; split; discriminate.
  Qed.

  (** what cstl_rbtree_height reports in a reachable state obeys the bound
      with respect to what cstl_rbtree_size reports *)
  Theorem C02_height_reported s :
    reach step t_init s ->
    exists mn mx, step s Height = Done s [Z.of_N mn; Z.of_N mx] /\
                  (2 ^ N.to_nat mx <= (N.to_nat (sz s) + 1) ^ 2)%nat.
  Proof.
    intros R. destruct (reach_tinv key RB s R) as (_ & _ & Sz & H). specialize (H eq_refl).
    cbn [TreeModel.step]. pose proof (bt_height_max (tr s)) as Hm.
    destruct (bt_height (tr s)) as [mn mx]. exists mn, mx. split; auto.
    cbn [snd] in Hm. rewrite Hm, Sz, !Nat2N.id. apply rb_height_bound; auto.
  Qed.

  (** no script drives the code into a fault or an abort *)
  Theorem C02_run_safe ops :
    match fst (run step t_init ops) with
    | Done s _ => rb_inv (tr s)
    | Precond => True
    | _ => False
    end.
  Proof.
    pose proof (run_safe key RB ops) as H. destruct (fst (run step t_init ops)); auto.
    destruct H as (_ & _ & _ & H). auto.
  Qed.
End C02.

(** Non-vacuity: a mixed history (duplicate keys, hinted inserts, erases of
    leaves, of two-child nodes and of the root) reaches an 11-node tree that
    satisfies the rules. *)
Example C02_example_run :
  let key := fun n => nth n [5;3;8;3;5;9;1;1;7;6;2;4;8;0]%Z 0%Z in
  let ops := [Insert 0; Insert 1; InsertH 2; Insert 3; Insert 4; Insert 5; Insert 6; InsertH 7;
              Insert 8; Insert 9; Erase 5; Insert 10; Insert 11; Erase 3; InsertH 12; Erase 9;
              Insert 13; Erase 42] in
  match fst (run (TreeModel.step key RB) t_init ops) with
  | Done s _ => size (tr s) = 11%nat /\ height (tr s) = 5%nat /\ col (tr s) = Black /\ rbt (tr s) 3
  | _ => False
  end.
Proof. vm_compute. intuition. Qed.

(** * Parent links (pointer-level model TreeLinksModel.v)

    [lstep] runs cstl_rbtree_insert / __cstl_rbtree_erase (and the bintree
    functions under them) on a memory of nodes {p; l; r; colour}: every C
    statement that writes a link or a colour is one memory update, in source
    order, including every parent-pointer write of __cstl_bintree_rotate and
    __cstl_bintree_erase and the stack stand-in of __cstl_rbtree_erase.
    [rep m None t] says that the memory holds the tree [t]: each node's [l]
    and [r] are the addresses of the roots of its subtrees, each node's [p] is
    the address of its parent (NULL for the root), colours agree.  [decode]
    rebuilds the tree from the memory and fails on a wrong parent link, a
    non-NULL root parent or a node reached twice. *)
From Cstl Require Import TreeLinksModel TreeLinksProofs TreeLinksSim.

Section C02_links.
  Variable key : nat -> Z.
  Notation step := (TreeModel.step key RB).
  Notation lstep := (TreeLinksModel.lstep key RB).

  (** every history of the pointer-level model is the history of the
      functional model: same outputs, same outcome (no fault, no abort),
      final states related by the representation relation *)
  Theorem C02_links_run_refines ops :
    match run step t_init ops with
    | (Done s o1, outs) =>
      exists sl, run lstep l_init ops = (Done sl o1, outs) /\
                 lsz sl = sz s /\ lroot sl = raddr (tr s) /\ rep (lm sl) None (tr s)
    | (Precond, outs) => run lstep l_init ops = (Precond, outs)
    | _ => False
    end.
  Proof.
    pose proof (lrun_sim key RB ops l_init t_init lrel_init (tinvk_init key RB)) as H.
    destruct (run step t_init ops) as [[s o1| | |] outs]; auto.
    destruct H as (sl & E & L & _). exists sl. split; auto.
  Qed.

  (** in every state reachable by the pointer-level model: the decoder
      succeeds (so every child's parent link points back at its parent, the
      root's parent is NULL, no node is linked twice), spelled out for every
      node of the tree, and the linked structure is a tree that satisfies the
      red-black rules *)
  Theorem C02_parent_links sl :
    reach lstep l_init sl ->
    exists t,
      decode key sl = Some t /\ lroot sl = raddr t /\ rep (lm sl) None t /\
      (forall r, lroot sl = Some r -> n_p (mget (lm sl) r) = None) /\
      (forall a, In a (addrs t) ->
         (forall b, n_l (mget (lm sl) a) = Some b -> n_p (mget (lm sl) b) = Some a) /\
         (forall b, n_r (mget (lm sl) a) = Some b -> n_p (mget (lm sl) b) = Some a)) /\
      root_black t /\ no_red_red t /\ exists n, black_height t n.
  Proof.
    intros R. destruct (lreach_decode key RB sl R) as (s & Rs & D & Hr & Rp & _).
    exists (tr s). repeat (split; auto).
    - intros r Hrr. rewrite Hr in Hrr. eapply rep_root_p; eauto.
    - eapply rep_links; eauto.
    - eapply rep_links; eauto.
    - apply (C02_reachable_rules key s Rs).
    - apply (C02_reachable_rules key s Rs).
    - apply (C02_reachable_rules key s Rs).
  Qed.
End C02_links.

(** Non-vacuity: the history of [C02_example_run] on the pointer-level
    model ends in a state that decodes to the 11-node tree of the functional
    model. *)
Example C02_links_example_run :
  let key := fun n => nth n [5;3;8;3;5;9;1;1;7;6;2;4;8;0]%Z 0%Z in
  let ops := [Insert 0; Insert 1; InsertH 2; Insert 3; Insert 4; Insert 5; Insert 6; InsertH 7;
              Insert 8; Insert 9; Erase 5; Insert 10; Insert 11; Erase 3; InsertH 12; Erase 9;
              Insert 13; Erase 42] in
  match fst (run (TreeLinksModel.lstep key RB) l_init ops),
        fst (run (TreeModel.step key RB) t_init ops) with
  | Done sl _, Done s _ => decode key sl = Some (tr s) /\ size (tr s) = 11%nat
  | _, _ => False
  end.
Proof. vm_compute. intuition. Qed.

Print Assumptions C02_rules.
Print Assumptions C02_insert_preserves.
Print Assumptions C02_insert_hint_preserves.
Print Assumptions C02_erase_preserves.
Print Assumptions C02_fix_insertion.
Print Assumptions C02_fix_deletion.
Print Assumptions C02_height_bound.
Print Assumptions C02_height_log.
Print Assumptions C02_reachable_rules.
Print Assumptions C02_never_fault.
Print Assumptions C02_height_reported.
Print Assumptions C02_run_safe.
Print Assumptions C02_links_run_refines.
Print Assumptions C02_parent_links.
