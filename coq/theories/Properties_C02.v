(** C02 — red-black trees satisfy the red-black rules after every insert and
    erase; height bound.  Statements only; proofs are in RBProofs.v and
    TreeSysProofs.v.  The functions are the transcriptions of rbtree.c in
    TreeModel.v ([rb_insert], [rb_insert_from], [rb_erase], [step]). *)
From Cstl Require Import Prelude TreeModel TreeProofs RBProofs TreeSysProofs.

(** [rb_inv] is the conjunction of the three documented rules *)
Theorem C02_rules t :
  rb_inv t <-> root_black t /\ no_red_red t /\ exists n, black_height t n.
Proof. exact (rb_inv_rules t). Qed.

(** cstl_rbtree_insert, from every tree satisfying the rules and for every
    element: no unchecked dereference faults ([Some]) and the rules hold again *)
Theorem C02_insert_preserves t x :
  rb_inv t -> exists t', rb_insert t x = Some t' /\ rb_inv t'.
Proof. exact (rb_insert_inv t x). Qed.

(** ... also when the descent starts at a hinted node of the tree *)
Theorem C02_insert_hint_preserves hint t x r :
  rb_inv t -> rb_insert_from hint t x = Some r -> exists t', r = Some t' /\ rb_inv t'.
Proof. exact (rb_insert_from_inv hint t x r). Qed.

(** cstl_rbtree_erase (find, __cstl_bintree_erase, colour transfer, fix-up
    with the stack stand-in), from every tree satisfying the rules and for
    every key: no fault and the rules hold again *)
Theorem C02_erase_preserves t k :
  rb_inv t -> exists r t', rb_erase t k = Some (r, t') /\ rb_inv t'.
Proof. exact (rb_erase_inv t k). Qed.

(** the fix-up loops themselves, from every context/subtree pair that
    satisfies their loop invariants *)
Theorem C02_fix_insertion c x n :
  rbt x n -> col x = Red -> cinv c n ->
  exists t', fix_ins x c = Some t' /\ rb_inv (blacken t').
Proof. intros. eapply fix_ins_ok; eauto. Qed.

Theorem C02_fix_deletion c x n :
  rbt x n -> cinv c (S n) -> exists t', fix_del x c = Some t' /\ rb_inv t'.
Proof. intros. eapply fix_del_ok; eauto. Qed.

(** height <= 2*log2(size+1), without real numbers *)
Theorem C02_height_bound t : rb_inv t -> (2 ^ height t <= (size t + 1) ^ 2)%nat.
Proof. exact (rb_height_bound t). Qed.

Theorem C02_height_log t : rb_inv t -> (2 ^ (Nat.div2 (S (height t))) <= size t + 1)%nat.
Proof. exact (rb_height_log t). Qed.

Section C02.
  Variable key : nat -> Z.
  Notation step := (TreeModel.step key RB).

  (** every state reachable by any sequence of operations satisfies the rules *)
  Theorem C02_reachable_rules s :
    reach step t_init s ->
    root_black (tr s) /\ no_red_red (tr s) /\ exists n, black_height (tr s) n.
  Proof.
    intros R. apply rb_inv_rules. destruct (reach_tinv key RB s R) as (_ & _ & _ & H). auto.
  Qed.

  (** no operation faults or aborts in a reachable state *)
  Theorem C02_never_fault s o :
    reach step t_init s -> step s o <> Fault /\ step s o <> Abort.
  Proof.
    intros R. pose proof (step_correct key RB s o (reach_tinv key RB s R)) as H.
    destruct (step s o); try tauto; split; discriminate.
  Qed.

  (** what cstl_rbtree_height reports in a reachable state obeys the bound
      with respect to what cstl_rbtree_size reports *)
  Theorem C02_height_reported s :
    reach step t_init s ->
    exists mn mx, step s Height = Done s [Z.of_N mn; Z.of_N mx] /\
                  (2 ^ N.to_nat mx <= (N.to_nat (sz s) + 1) ^ 2)%nat.
  Proof.
    intros R. destruct (reach_tinv key RB s R) as (_ & _ & Sz & H). specialize (H eq_refl).
    cbn [TreeModel.step]. pose proof (bt_height_max (tr s)) as Hm.
    destruct (bt_height (tr s)) as [mn mx]. exists mn, mx. split; auto.
    cbn [snd] in Hm. rewrite Hm, Sz, !Nat2N.id. apply rb_height_bound; auto.
  Qed.

  (** no script drives the code into a fault or an abort *)
  Theorem C02_run_safe ops :
    match fst (run step t_init ops) with
    | Done s _ => rb_inv (tr s)
    | Precond => True
    | _ => False
    end.
  Proof.
    pose proof (run_safe key RB ops) as H. destruct (fst (run step t_init ops)); auto.
    destruct H as (_ & _ & _ & H). auto.
  Qed.
End C02.

(** Non-vacuity: a mixed history (duplicate keys, hinted inserts, erases of
    leaves, of two-child nodes and of the root) reaches an 11-node tree that
    satisfies the rules. *)
Example C02_example_run :
  let key := fun n => nth n [5;3;8;3;5;9;1;1;7;6;2;4;8;0]%Z 0%Z in
  let ops := [Insert 0; Insert 1; InsertH 2; Insert 3; Insert 4; Insert 5; Insert 6; InsertH 7;
              Insert 8; Insert 9; Erase 5; Insert 10; Insert 11; Erase 3; InsertH 12; Erase 9;
              Insert 13; Erase 42] in
  match fst (run (TreeModel.step key RB) t_init ops) with
  | Done s _ => size (tr s) = 11%nat /\ height (tr s) = 5%nat /\ col (tr s) = Black /\ rbt (tr s) 3
  | _ => False
  end.
Proof. vm_compute. intuition. Qed.

Print Assumptions C02_rules.
Print Assumptions C02_insert_preserves.
Print Assumptions C02_insert_hint_preserves.
Print Assumptions C02_erase_preserves.
Print Assumptions C02_fix_insertion.
Print Assumptions C02_fix_deletion.
Print Assumptions C02_height_bound.
Print Assumptions C02_height_log.
Print Assumptions C02_reachable_rules.
Print Assumptions C02_never_fault.
Print Assumptions C02_height_reported.
Print Assumptions C02_run_safe.
