(** Executable model of src/heap.c (C07), of cstl_fls (src/common.c) and of the
    part of cstl_bintree_clear (src/bintree.c) the heap reuses.

    The linked tree is a functional tree [E | T left elem right]; walking
    from the root to a node and later following its parent pointers is a
    zipper ([ctx] = the frames passed on the way down, innermost first).
    Swapping a node with its parent (cstl_heap_promote_child re-links the six
    neighbours so that the two *nodes* trade places) is, on the tree of
    elements, the exchange of the two elements: the shape stays, the two
    element identities trade positions.  That the parent pointers are
    re-linked consistently has no counterpart in a functional tree; the
    driver checks every parent pointer of the real structure at every step.

    Everything else is transcribed as coded: the binary-search loop of
    [cstl_fls] on a 64-bit word, [unsigned int id]/[loc] truncation, the
    [1 << fls] shift on [int] (undefined for a shift count < 0 or >= 31:
    [Fault]), the NULL test inside the navigation loop, the blind store into
    the parent's child field chosen by the parity of [size], the strict
    comparisons ([> 0]) of sift-up and sift-down and their tie-breaking, the
    explicit [size] field with 64-bit wrap-around.  Dereferencing NULL is
    [Fault].  Nothing in this file is a proof. *)
From Cstl Require Import Prelude.
Local Open Scope N_scope.

Record elem := mkE { eid : nat; ekey : Z }.

(** the comparison callback of the drivers: sign of the key difference *)
Definition cmp (a b : elem) : Z :=
  match (ekey a ?= ekey b)%Z with Lt => (-1)%Z | Eq => 0%Z | Gt => 1%Z end.

Inductive tree := E | T (l : tree) (x : elem) (r : tree).

(** struct cstl_heap: bt.root, bt.size *)
Record heap := mkH { root : tree; size : N }.
Definition h_init : heap := mkH E 0.

Definition wrap64 (x : N) : N := x mod 2 ^ 64.
Definition wrap32 (x : N) : N := x mod 2 ^ 32.
(** [a - 1] on an unsigned 64-bit value *)
Definition dec64 (a : N) : N := wrap64 (a + (2 ^ 64 - 1)).

Inductive res (A : Type) := Ok (a : A) | Flt.
Arguments Ok {A} a.
Arguments Flt {A}.

(** * cstl_fls (src/common.c) *)

(** [~0] converted to unsigned long *)
Definition ones64 : N := N.ones 64.

(** the [for (i = 0, b = 32; b != 0; b /= 2)] loop; [fuel] only bounds the
    recursion (7 > number of halvings of 32) *)
Fixpoint fls_loop (fuel : nat) (x i b : N) : N :=
  match fuel with
  | O => i
  | S f =>
    if b =? 0 then i
    else
      let s := b + i in
      let m := wrap64 (N.shiftl ones64 s) in        (* m = ~0; m <<= s; *)
      fls_loop f x (if N.land x m =? 0 then i else s) (b / 2)
  end.

Definition fls (x : N) : Z :=
  if x =? 0 then (-1)%Z else Z.of_N (fls_loop 7 x 0 32).

(** * Zippers *)

Inductive dir := L | R.
(** direction taken from the parent, the parent's element, the sibling subtree *)
Definition frame : Type := dir * elem * tree.
Definition ctx := list frame.

Fixpoint zip (c : ctx) (t : tree) : tree :=
  match c with
  | [] => t
  | (L, x, sib) :: c' => zip c' (T t x sib)
  | (R, x, sib) :: c' => zip c' (T sib x t)
  end.

(** * cstl_heap_find *)

(** the loop [for (b = ...; p != NULL && b != 0; b >>= 1)]: [None] = NULL *)
Fixpoint find_loop (loc b : N) (c : ctx) (p : tree) : option (ctx * tree) :=
  match p with
  | E => None
  | T l x r =>
    if b =? 0 then Some (c, p)
    else if N.land loc b =? 0
         then find_loop loc (b / 2) ((L, x, r) :: c) l
         else find_loop loc (b / 2) ((R, x, l) :: c) r
  end.

(** [id] is the argument already converted to [unsigned int] *)
Definition find (t : tree) (id : N) : res (option (ctx * tree)) :=
  let loc := wrap32 (id + 1) in
  let k := fls loc in
  if ((k <? 0) || (31 <=? k))%Z then Flt       (* 1 << k on int is undefined *)
  else Ok (find_loop loc (wrap32 (2 ^ Z.to_N k) / 2) [] t).

(** * cstl_heap_push *)

(** [while (n->p != NULL && cmp(n, n->p) > 0) cstl_heap_promote_child(h, n);]
    the focus is the node n with subtrees [l], [r]; the result is the whole
    tree *)
Fixpoint sift_up (c : ctx) (l : tree) (x : elem) (r : tree) : tree :=
  match c with
  | [] => T l x r
  | (d, px, sib) :: c' =>
    if (0 <? cmp x px)%Z then
      match d with
      | L => sift_up c' (T l px r) x sib
      | R => sift_up c' sib x (T l px r)
      end
    else zip c (T l x r)
  end.

Definition push (h : heap) (e : elem) : res heap :=
  match root h with
  | E => Ok (mkH (T E e E) (wrap64 (size h + 1)))
  | T _ _ _ =>
    match find (root h) (wrap32 (dec64 (size h) / 2)) with
    | Flt => Flt
    | Ok None => Flt                              (* n->p == NULL, n->p->r *)
    | Ok (Some (_, E)) => Flt                     (* not produced by find_loop *)
    | Ok (Some (c, T pl px pr)) =>
      let c' := if size h mod 2 =? 0
                then (R, px, pl) :: c             (* n->p->r = n *)
                else (L, px, pr) :: c in          (* n->p->l = n *)
      Ok (mkH (sift_up c' E e E) (wrap64 (size h + 1)))
    end
  end.

(** * cstl_heap_get *)
Definition get (h : heap) : option elem :=
  match root h with E => None | T _ x _ => Some x end.

(** * cstl_heap_pop *)

(** the do-while loop: [x] is the element of the node n that now stands where
    the root of [t] stood ([*n = *root]: n has [t]'s children) *)
Fixpoint sift_down (x : elem) (t : tree) : tree :=
  match t with
  | E => E
  | T l _ r =>
    (* c = n; if (n->l != NULL && cmp(n->l, c) > 0) c = n->l; *)
    let c1 := match l with
              | T _ lx _ => if (0 <? cmp lx x)%Z then Some (L, lx) else None
              | E => None
              end in
    (* if (n->r != NULL && cmp(n->r, c) > 0) c = n->r; *)
    let c2 := match r with
              | T _ rx _ =>
                let cx := match c1 with Some (_, y) => y | None => x end in
                if (0 <? cmp rx cx)%Z then Some (R, rx) else c1
              | E => c1
              end in
    match c2 with
    | None => T l x r
    | Some (L, y) => T (sift_down x l) y r
    | Some (R, y) => T l y (sift_down x r)
    end
  end.

Definition pop (h : heap) : res (heap * option elem) :=
  match root h with
  | E => Ok (h, None)
  | T _ top _ =>
    match find (root h) (wrap32 (dec64 (size h))) with
    | Flt => Flt
    | Ok None => Flt                              (* n == NULL, n->p *)
    | Ok (Some (_, E)) => Flt
    | Ok (Some (c, T _ z _)) =>
      let t1 := zip c E in                        (* unlink n from its parent *)
      let sz := dec64 (size h) in
      match t1 with
      | E => Ok (mkH E sz, Some top)
      | T _ _ _ => Ok (mkH (sift_down z t1) sz, Some top)
      end
    end
  end.

(** * cstl_heap_clear = cstl_bintree_clear: callback in post-order *)
Fixpoint postorder (t : tree) : list elem :=
  match t with
  | E => []
  | T l x r => postorder l ++ postorder r ++ [x]
  end.

Definition clear (h : heap) : list elem * heap :=
  match root h with
  | E => ([], h)
  | _ => (postorder (root h), mkH E 0)
  end.

(** * The scripted system *)

Fixpoint mem (e : nat) (t : tree) : bool :=
  match t with
  | E => false
  | T l x r => Nat.eqb e (eid x) || mem e l || mem e r
  end.

Inductive op := Push (e : nat) | Pop | Get | Size | Clear.

Section Step.
  Variable key : nat -> Z.

  Definition step (h : heap) (o : op) : outcome heap :=
    match o with
    | Push e =>
      if mem e (root h) then Precond          (* element already linked *)
      else match push h (mkE e (key e)) with
           | Ok h' => Done h' []
           | Flt => Fault
           end
    | Pop =>
      match pop h with
      | Ok (h', r) => Done h' [zopt (option_map eid r)]
      | Flt => Fault
      end
    | Get => Done h [zopt (option_map eid (get h))]
    | Size => Done h [Z.of_N (size h)]
    | Clear => let '(log, h') := clear h in Done h' (map (fun x => zid (eid x)) log)
    end.
End Step.

(** The level-order dump compared by the correspondence check is produced by
    runner/run_heap.ml directly from [root] and [size]. *)
Fixpoint tsize (t : tree) : nat :=
  match t with E => 0 | T l _ r => S (tsize l + tsize r) end.
