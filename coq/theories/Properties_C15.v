(** C15 — clear hands over each element exactly once and never touches it
    again.  One block of theorems per container; proofs are in the
    containers' proof files. *)
From Cstl Require Import Prelude SListModel SListProofs.

(** * singly-linked list *)
Section SList.
  Variable key : nat -> Z.
  Notation step := (SListModel.step key false).

  (** in every reachable state, clear calls back exactly the contained
      elements, each once, in order, and leaves a freshly initialised list *)
  Theorem C15_slist_clear n s l sl :
    reach step (sys_init n) s -> nth_error s l = Some sl ->
    step s (Clear l) = Done (upd s l sl_init) (zids (items sl)) /\ NoDup (items sl).
  Proof.
    intros R E. split.
    - cbn [SListModel.step]. unfold with_list. rewrite E. reflexivity.
    - destruct (reach_wf key n s R) as (Wf & _).
      destruct (nth_error_Forall _ _ _ _ Wf E) as (_ & _ & H). exact H.
  Qed.

  (** event view: each node's successor link is read before its callback and
      the node is never accessed afterwards *)
  Theorem C15_slist_no_access_after_callback n s l sl :
    reach step (sys_init n) s -> nth_error s l = Some sl ->
    no_access_after_call (clear_events sl).
  Proof.
    intros R E. apply clear_no_access_after_callback.
    destruct (reach_wf key n s R) as (Wf & _).
    destruct (nth_error_Forall _ _ _ _ Wf E) as (_ & _ & H). exact H.
  Qed.

  (** reusable: the state after clear is again reachable-well-formed, so all
      of C13's theorems apply to whatever follows *)
  Theorem C15_slist_reusable n s l s' out :
    reach step (sys_init n) s -> step s (Clear l) = Done s' out -> sys_wf s'.
  Proof.
    intros R E. pose proof (step_correct key s (Clear l) (reach_wf key n s R)) as H.
    rewrite E in H. tauto.
  Qed.
End SList.

Example C15_slist_example :
  let key := fun n => nth n [1;0;1]%Z 0%Z in
  fst (run (SListModel.step key false) (sys_init 1) [PushBack 0 0; PushBack 0 1; PushFront 0 2; Clear 0; PushBack 0 1])
  = Done [mkSL [1] (Some 1) 1] [].
Proof. vm_compute. reflexivity. Qed.

Print Assumptions C15_slist_clear.
Print Assumptions C15_slist_no_access_after_callback.
Print Assumptions C15_slist_reusable.

(** * map (src/map.c on top of the red-black tree; model MapModel.v, proofs MapProofs.v) *)
From Cstl Require Import AllocModel TreeModel MapModel MapProofs.

Section Map.
  Variable ck : nat -> Z.
  Variable ok : nat -> N -> bool.
  Notation mstep := (MapModel.step ck ok).

  (** in every reachable state, clear hands every entry's key and value to
      the callback exactly once ([log] is a permutation of the entries; the
      third number of each callback record is the number of nodes still
      allocated, so the j-th callback runs before the j-th free), frees every
      node exactly once ([order]: the nodes, without repetition) and leaves
      the initial map on a heap without live blocks *)
  Theorem C15_map_clear_each_once s :
    reach mstep m_init s ->
    exists log order,
      Permutation log (entries s) /\ Permutation order (nodes s) /\ NoDup order /\
      mstep s (MClear true) = Done (cleared s) (cb_zs log (length (entries s))) /\
      AllocModel.events (mal (cleared s)) = rev (map EvFree order) ++ AllocModel.events (mal s) /\
      mt (cleared s) = E /\ msz (cleared s) = 0%N /\ mtab (cleared s) = [] /\ live (mal (cleared s)) = [].
  Proof.
    intros R. destruct (step_clear ck ok s true (reach_inv ck ok s R))
      as (log & order & H1 & H2 & H3 & H4 & H5 & _).
    exists log, order. repeat split; auto.
  Qed.

  (** event view of clear: every node gets its user callback (with the key
      and value stored in it), is passed to free immediately afterwards, and
      is not touched by any other callback or free: the node is released
      after, never before, the callback for its entry, and the entry handed
      to the callback is detached from it *)
  Theorem C15_map_node_freed_after_callback s :
    reach mstep m_init s ->
    exists out tr,
      map_clear true s = Some (cleared s, out, tr) /\
      forall n, In n (nodes s) ->
        exists k v pre post,
          tab_get (mtab s) n = Some (k, v) /\
          tr = pre ++ CbEv n k v :: FrEv n :: post /\
          (forall ev, In ev (pre ++ post) -> cev_node ev <> n).
  Proof.
    intros R. destruct (clear_events_order ck s (reach_inv ck ok s R)) as (tr & E1 & H).
    eexists; exists tr. split; [exact E1|exact H].
  Qed.

  (** reusable: the state after clear is again a reachable state satisfying
      the invariant, so all of C08's theorems apply to whatever follows *)
  Theorem C15_map_reusable s cb :
    reach mstep m_init s ->
    exists out, mstep s (MClear cb) = Done (cleared s) out /\
                reach mstep m_init (cleared s) /\ map_inv ck (cleared s) /\ entries (cleared s) = [].
  Proof.
    intros R. destruct (step_clear ck ok s cb (reach_inv ck ok s R))
      as (log & order & _ & _ & _ & H4 & _ & I').
    eexists. split; [exact H4|]. split; [eapply reach_step; eauto|]. split; auto.
  Qed.
End Map.

Example C15_map_example :
  let st := MapModel.step (ck_mod 0) (script_oracle [] None) in
  match run st m_init [MInsert 2 0 true; MInsert 0 1 true; MInsert 1 2 true; MClear true; MLive;
                       MInsert 1 3 true; MFind 1] with
  | (Done s _, outs) =>
    entries s = [(1, 3)]%nat /\
    outs = [[0; 2; 0; 1]; [0; 0; 1; 1]; [0; 1; 2; 1]; [0; 1; 3; 2; 0; 2; 1; 2; 1]; [0]; [0; 1; 3; 1]; [1; 3; 1]]%Z
  | _ => False
  end.
Proof. vm_compute. split; reflexivity. Qed.

Print Assumptions C15_map_clear_each_once.
Print Assumptions C15_map_node_freed_after_callback.
Print Assumptions C15_map_reusable.
