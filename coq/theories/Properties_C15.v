(** C15 — clear hands over each element exactly once and never touches it
    again.  One block of theorems per container; proofs are in the
    containers' proof files. *)
From Cstl Require Import Prelude.
From Cstl Require SListModel SListProofs TreeModel TreeProofs TreeSysProofs HeapModel HeapProofs
  DListModel DListProofs DListProofs3 DListProofs5.

Module SL.
Import SListModel SListProofs.

(** * singly-linked list *)
Section SList.
  Variable key : nat -> Z.
  Notation step := (SListModel.step key false).

  (** in every reachable state, clear calls back exactly the contained
      elements, each once, in order, and leaves a freshly initialised list *)
  Theorem C15_slist_clear n s l sl :
    reach step (sys_init n) s -> nth_error s l = Some sl ->
    step s (Clear l) = Done (upd s l sl_init) (zids (items sl)) /\ NoDup (items sl).
  Proof.
    intros R E. split.
    - cbn [SListModel.step]. unfold with_list. rewrite E. reflexivity.
    - destruct (reach_wf key n s R) as (Wf & _).
      destruct (nth_error_Forall _ _ _ _ Wf E) as (_ & _ & H). exact H.
  Qed.

  (** event view: each node's successor link is read before its callback and
      the node is never accessed afterwards *)
  Theorem C15_slist_no_access_after_callback n s l sl :
    reach step (sys_init n) s -> nth_error s l = Some sl ->
    no_access_after_call (clear_events sl).
  Proof.
    intros R E. apply clear_no_access_after_callback.
    destruct (reach_wf key n s R) as (Wf & _).
    destruct (nth_error_Forall _ _ _ _ Wf E) as (_ & _ & H). exact H.
  Qed.

  (** reusable: the state after clear is again reachable-well-formed, so all
      of C13's theorems apply to whatever follows *)
  Theorem C15_slist_reusable n s l s' out :
    reach step (sys_init n) s -> step s (Clear l) = Done s' out -> sys_wf s'.
  Proof.
    intros R E. pose proof (step_correct key s (Clear l) (reach_wf key n s R)) as H.
    rewrite E in H. tauto.
  Qed.
End SList.

Example C15_slist_example :
  let key := fun n => nth n [1;0;1]%Z 0%Z in
  fst (run (SListModel.step key false) (sys_init 1) [PushBack 0 0; PushBack 0 1; PushFront 0 2; Clear 0; PushBack 0 1])
  = Done [mkSL [1] (Some 1) 1] [].
Proof. vm_compute. reflexivity. Qed.

Print Assumptions C15_slist_clear.
Print Assumptions C15_slist_no_access_after_callback.
Print Assumptions C15_slist_reusable.
End SL.

(** * binary tree and red-black tree (clear is shared: a traversal whose
    callback fires on each node's last visit, POST or LEAF) *)
Module TR.
Import TreeModel TreeProofs TreeSysProofs.
Section Tree.
  Variable key : nat -> Z.
  Variable kd : kind.
  Notation step := (TreeModel.step key kd).

  (** in every reachable state clear calls back a permutation of the held
      elements, no identity twice, and leaves the freshly initialised tree *)
  Theorem C15_tree_clear s s' out :
    reach step t_init s -> step s Clear = Done s' out ->
    s' = t_init /\ exists log, out = zids log /\ Permutation log (abs s) /\ NoDup (map eid log).
  Proof. intros R. apply (clear_result_init key kd). apply (reach_tinv key kd); auto. Qed.

  (** event view (reads of child links + visits): nothing about an element
      follows its callback visit -- both children are captured before any visit *)
  Theorem C15_tree_no_read_after_callback s d :
    reach step t_init s -> quiet_after (tevents d (tr s)).
  Proof.
    intros R. apply clear_no_read_after_callback.
    destruct (reach_tinv key kd s R) as (_ & H & _). exact H.
  Qed.

  (** reusable: the state after clear is the initial state, from which every
      theorem of C01/C02 applies again *)
  Theorem C15_tree_reusable s s' out :
    reach step t_init s -> step s Clear = Done s' out -> reach step t_init s'.
  Proof.
    intros R E. destruct (C15_tree_clear s s' out R E) as (-> & _). apply reach_nil.
  Qed.
End Tree.
Print Assumptions C15_tree_clear.
Print Assumptions C15_tree_no_read_after_callback.
Print Assumptions C15_tree_reusable.
End TR.

(** * heap (clear = the tree clear on the heap's linked tree) *)
Module HP.
Import HeapModel HeapProofs.
Section Heap.
  Variable key : nat -> Z.

  Theorem C15_heap_clear h :
    reach (step key) h_init h ->
    Permutation (fst (clear h)) (elems (root h)) /\ NoDup (map eid (fst (clear h))) /\
    snd (clear h) = h_init.
  Proof.
    intros R. pose proof (reach_inv key h R) as I.
    split; [apply clear_log_perm|split; [apply clear_log_nodup; auto|apply clear_result_init; auto]].
  Qed.
End Heap.
Print Assumptions C15_heap_clear.
End HP.

(** * doubly-linked list (pointer-level model: the node is unlinked before the
    callback and its memory is released by the callback) *)
Module DL.
Import DListModel DListProofs DListProofs3 DListProofs5.
Section DList.
  Variable key : nat -> Z.
  Notation step := (DListModel.step key).

  (** in every reachable state, clear on list [i] calls back exactly its
      contents, in order, releases every node, leaves an empty ring and touches
      nothing else *)
  Theorem C15_dlist_clear n s i l :
    reach step (sys_init n) s -> nth_error (abs s) i = Some l ->
    exists h', clear (hp s) (haddr i) = Ok (h', l, clear_evs (haddr i) l) /\ dl h' (haddr i) [] /\
      (forall x, In x l -> hm h' x = None) /\
      (forall x, ~ In x (haddr i :: l) -> hm h' x = hm (hp s) x).
  Proof.
    intros R E. pose proof (reach_wf key n s R) as W.
    destruct (clear_log (hp s) (haddr i) l (wf_dl _ _ _ W i l E)) as (h' & H1 & H2 & H3 & H4 & _).
    exists h'. auto.
  Qed.

  (** no node is read or written after its callback *)
  Theorem C15_dlist_no_access_after_callback hd l :
    NoDup (hd :: l) -> no_access_after_call (clear_evs hd l).
  Proof. exact (clear_no_access_after_callback hd l). Qed.
End DList.
Print Assumptions C15_dlist_clear.
Print Assumptions C15_dlist_no_access_after_callback.
End DL.
