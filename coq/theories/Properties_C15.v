(** C15 — clear hands over each element exactly once and never touches it
    again.  One block of theorems per container; proofs are in the
    containers' proof files. *)
From Cstl Require Import Prelude SListModel SListProofs.

(** * singly-linked list *)
Section SList.
  Variable key : nat -> Z.
  Notation step := (SListModel.step key false).

  (** in every reachable state, clear calls back exactly the contained
      elements, each once, in order, and leaves a freshly initialised list *)
  Theorem C15_slist_clear n s l sl :
    reach step (sys_init n) s -> nth_error s l = Some sl ->
    step s (Clear l) = Done (upd s l sl_init) (zids (items sl)) /\ NoDup (items sl).
  Proof.
    intros R E. split.
    - cbn [SListModel.step]. unfold with_list. rewrite E. reflexivity.
    - destruct (reach_wf key n s R) as (Wf & _).
      destruct (nth_error_Forall _ _ _ _ Wf E) as (_ & _ & H). exact H.
  Qed.

  (** event view: each node's successor link is read before its callback and
      the node is never accessed afterwards *)
  Theorem C15_slist_no_access_after_callback n s l sl :
    reach step (sys_init n) s -> nth_error s l = Some sl ->
    no_access_after_call (clear_events sl).
  Proof.
    intros R E. apply clear_no_access_after_callback.
    destruct (reach_wf key n s R) as (Wf & _).
    destruct (nth_error_Forall _ _ _ _ Wf E) as (_ & _ & H). exact H.
  Qed.

  (** reusable: the state after clear is again reachable-well-formed, so all
      of C13's theorems apply to whatever follows *)
  Theorem C15_slist_reusable n s l s' out :
    reach step (sys_init n) s -> step s (Clear l) = Done s' out -> sys_wf s'.
  Proof.
    intros R E. pose proof (step_correct key s (Clear l) (reach_wf key n s R)) as H.
    rewrite E in H. tauto.
  Qed.
End SList.

Example C15_slist_example :
  let key := fun n => nth n [1;0;1]%Z 0%Z in
  fst (run (SListModel.step key false) (sys_init 1) [PushBack 0 0; PushBack 0 1; PushFront 0 2; Clear 0; PushBack 0 1])
  = Done [mkSL [1] (Some 1) 1] [].
Proof. vm_compute. reflexivity. Qed.

Print Assumptions C15_slist_clear.
Print Assumptions C15_slist_no_access_after_callback.
Print Assumptions C15_slist_reusable.
