(** C15 — clear hands over each element exactly once and never touches it
    again.  One block of theorems per container; proofs are in the
    containers' proof files. *)
From Cstl Require Import Prelude.
From Cstl Require SListModel SListProofs TreeModel TreeProofs TreeSysProofs HeapModel HeapProofs
  DListModel DListProofs DListProofs3 DListProofs5 AllocModel MapModel MapProofs.

Module SL.
Import SListModel SListProofs.

(** * singly-linked list *)
Section SList.
  Variable key : nat -> Z.
  Notation step := (SListModel.step key false).

  (** in every reachable state, clear calls back exactly the contained
      elements, each once, in order, and leaves a freshly initialised list *)
  Theorem C15_slist_clear n s l sl :
    reach step (sys_init n) s -> nth_error s l = Some sl ->
    step s (Clear l) = Done (upd s l sl_init) (zids (items sl)) /\ NoDup (items sl).
  Proof.
    intros R E. split.
    - cbn [SListModel.step]. unfold with_list. rewrite E. reflexivity.
    - destruct (reach_wf key n s R) as (Wf & _).
      destruct (nth_error_Forall _ _ _ _ Wf E) as (_ & _ & H). exact H.
  Qed.

  (** event view: each node's successor link is read before its callback and
      the node is never accessed afterwards *)
  Theorem C15_slist_no_access_after_callback n s l sl :
    reach step (sys_init n) s -> nth_error s l = Some sl ->
    no_access_after_call (clear_events sl).
  Proof.
    intros R E. apply clear_no_access_after_callback.
    destruct (reach_wf key n s R) as (Wf & _).
    destruct (nth_error_Forall _ _ _ _ Wf E) as (_ & _ & H). exact H.
  Qed.

  (** reusable: the state after clear is again reachable-well-formed, so all
      of C13's theorems apply to whatever follows *)
  Theorem C15_slist_reusable n s l s' out :
    reach step (sys_init n) s -> step s (Clear l) = Done s' out -> sys_wf s'.
  Proof.
    intros R E. pose proof (step_correct key s (Clear l) (reach_wf key n s R)) as H.
    rewrite E in H. tauto.
  Qed.
End SList.

Example C15_slist_example :
  let key := fun n => nth n [1;0;1]%Z 0%Z in
  fst (run (SListModel.step key false) (sys_init 1) [PushBack 0 0; PushBack 0 1; PushFront 0 2; Clear 0; PushBack 0 1])
  = Done [mkSL [1] (Some 1) 1] [].
Proof. vm_compute. reflexivity. Qed.

Print Assumptions C15_slist_clear.
Print Assumptions C15_slist_no_access_after_callback.
Print Assumptions C15_slist_reusable.
End SL.

(** * binary tree and red-black tree (clear is shared: a traversal whose
    callback fires on each node's last visit, POST or LEAF) *)
Module TR.
Import TreeModel TreeProofs TreeSysProofs.
Section Tree.
  Variable key : nat -> Z.
  Variable kd : kind.
  Notation step := (TreeModel.step key kd).

  (** in every reachable state clear calls back a permutation of the held
      elements, no identity twice, and leaves the freshly initialised tree *)
  Theorem C15_tree_clear s s' out :
    reach step t_init s -> step s Clear = Done s' out ->
    s' = t_init /\ exists log, out = zids log /\ Permutation log (abs s) /\ NoDup (map eid log).
  Proof. intros R. apply (clear_result_init key kd). apply (reach_tinv key kd); auto. Qed.

  (** event view (reads of child links + visits): nothing about an element
      follows its callback visit -- both children are captured before any visit *)
  Theorem C15_tree_no_read_after_callback s d :
    reach step t_init s -> quiet_after (tevents d (tr s)).
  Proof.
    intros R. apply clear_no_read_after_callback.
    destruct (reach_tinv key kd s R) as (_ & H & _). exact H.
  Qed.

  (** reusable: the state after clear is the initial state, from which every
      theorem of C01/C02 applies again *)
  Theorem C15_tree_reusable s s' out :
    reach step t_init s -> step s Clear = Done s' out -> reach step t_init s'.
  Proof.
    intros R E. destruct (C15_tree_clear s s' out R E) as (-> & _). apply reach_nil.
  Qed.
End Tree.
Print Assumptions C15_tree_clear.
Print Assumptions C15_tree_no_read_after_callback.
Print Assumptions C15_tree_reusable.
End TR.

(** * heap (clear = the tree clear on the heap's linked tree) *)
Module HP.
Import HeapModel HeapProofs.
Section Heap.
  Variable key : nat -> Z.

  Theorem C15_heap_clear h :
    reach (step key) h_init h ->
    Permutation (fst (clear h)) (elems (root h)) /\ NoDup (map eid (fst (clear h))) /\
    snd (clear h) = h_init.
  Proof.
    intros R. pose proof (reach_inv key h R) as I.
    split; [apply clear_log_perm|split; [apply clear_log_nodup; auto|apply clear_result_init; auto]].
  Qed.
End Heap.
Print Assumptions C15_heap_clear.
End HP.

(** * doubly-linked list (pointer-level model: the node is unlinked before the
    callback and its memory is released by the callback) *)
Module DL.
Import DListModel DListProofs DListProofs3 DListProofs5.
Section DList.
  Variable key : nat -> Z.
  Notation step := (DListModel.step key).

  (** in every reachable state, clear on list [i] calls back exactly its
      contents, in order, releases every node, leaves an empty ring and touches
      nothing else *)
  Theorem C15_dlist_clear n s i l :
    reach step (sys_init n) s -> nth_error (abs s) i = Some l ->
    exists h', clear (hp s) (haddr i) = Ok (h', l, clear_evs (haddr i) l) /\ dl h' (haddr i) [] /\
      (forall x, In x l -> hm h' x = None) /\
      (forall x, ~ In x (haddr i :: l) -> hm h' x = hm (hp s) x).
  Proof.
    intros R E. pose proof (reach_wf key n s R) as W.
    destruct (clear_log (hp s) (haddr i) l (wf_dl _ _ _ W i l E)) as (h' & H1 & H2 & H3 & H4 & _).
    exists h'. auto.
  Qed.

  (** no node is read or written after its callback *)
  Theorem C15_dlist_no_access_after_callback hd l :
    NoDup (hd :: l) -> no_access_after_call (clear_evs hd l).
  Proof. exact (clear_no_access_after_callback hd l). Qed.
End DList.
Print Assumptions C15_dlist_clear.
Print Assumptions C15_dlist_no_access_after_callback.
End DL.

(** * map (red-black tree of allocated nodes; the node is freed after the user callback) *)
Module MP.
Import TreeModel AllocModel MapModel MapProofs.
Section Map.
  Variable ck : nat -> Z.
  Variable ok : nat -> N -> bool.
  Notation mstep := (MapModel.step ck ok).

  (** in every reachable state, clear hands every entry's key and value to
      the callback exactly once ([log] is a permutation of the entries; the
      third number of each callback record is the number of nodes still
      allocated, so the j-th callback runs before the j-th free), frees every
      node exactly once ([order]: the nodes, without repetition) and leaves
      the initial map on a heap without live blocks *)
  Theorem C15_map_clear_each_once s :
    reach mstep m_init s ->
    exists log order,
      Permutation log (entries s) /\ Permutation order (nodes s) /\ NoDup order /\
      mstep s (MClear true) = Done (cleared s) (cb_zs log (length (entries s))) /\
      AllocModel.events (mal (cleared s)) = rev (map EvFree order) ++ AllocModel.events (mal s) /\
      mt (cleared s) = E /\ msz (cleared s) = 0%N /\ mtab (cleared s) = [] /\ live (mal (cleared s)) = [].
  Proof.
    intros R. destruct (step_clear ck ok s true (reach_inv ck ok s R))
      as (log & order & H1 & H2 & H3 & H4 & H5 & _).
    exists log, order. repeat split; auto.
  Qed.

  (** event view of clear: every node gets its user callback (with the key
      and value stored in it), is passed to free immediately afterwards, and
      is not touched by any other callback or free: the node is released
      after, never before, the callback for its entry, and the entry handed
      to the callback is detached from it *)
  Theorem C15_map_node_freed_after_callback s :
    reach mstep m_init s ->
    exists out tr,
      map_clear true s = Some (cleared s, out, tr) /\
      forall n, In n (nodes s) ->
        exists k v pre post,
          tab_get (mtab s) n = Some (k, v) /\
          tr = pre ++ CbEv n k v :: FrEv n :: post /\
          (forall ev, In ev (pre ++ post) -> cev_node ev <> n).
  Proof.
    intros R. destruct (clear_events_order ck s (reach_inv ck ok s R)) as (tr & E1 & H).
    eexists; exists tr. split; [exact E1|exact H].
  Qed.

  (** reusable: the state after clear is again a reachable state satisfying
      the invariant, so all of C08's theorems apply to whatever follows *)
  Theorem C15_map_reusable s cb :
    reach mstep m_init s ->
    exists out, mstep s (MClear cb) = Done (cleared s) out /\
                reach mstep m_init (cleared s) /\ map_inv ck (cleared s) /\ entries (cleared s) = [].
  Proof.
    intros R. destruct (step_clear ck ok s cb (reach_inv ck ok s R))
      as (log & order & _ & _ & _ & H4 & _ & I').
    eexists. split; [exact H4|]. split; [eapply reach_step; eauto|]. split; auto.
  Qed.
End Map.

Example C15_map_example :
  let st := MapModel.step (ck_mod 0) (script_oracle [] None) in
  match run st m_init [MInsert 2 0 true; MInsert 0 1 true; MInsert 1 2 true; MClear true; MLive;
                       MInsert 1 3 true; MFind 1] with
  | (Done s _, outs) =>
    entries s = [(1, 3)]%nat /\
    outs = [[0; 2; 0; 1]; [0; 0; 1; 1]; [0; 1; 2; 1]; [0; 1; 3; 2; 0; 2; 1; 2; 1]; [0]; [0; 1; 3; 1]; [1; 3; 1]]%Z
  | _ => False
  end.
Proof. vm_compute. split; reflexivity. Qed.

Print Assumptions C15_map_clear_each_once.
Print Assumptions C15_map_node_freed_after_callback.
Print Assumptions C15_map_reusable.
End MP.
