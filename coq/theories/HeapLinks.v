(** Proofs about the pointer-level model (HeapLinksModel.v): the pointer
    writes of cstl_heap_promote_child (the parent's parent's child link or the
    root, the four parent pointers of the neighbours, the two parent pointers
    of the pair, the exchange of the child links) realise exactly the exchange
    of the two elements that HeapModel.sift_up / sift_down perform on the
    functional tree, with every parent pointer consistent afterwards. *)
From Cstl Require Import Prelude HeapModel HeapProofs HeapLinksModel.

(** the tree [t] (element ids = node addresses) is laid out in [m] at address
    [a] with parent pointer [par] *)
Fixpoint rep (m : pmem) (par a : option nat) (t : tree) : Prop :=
  match t with
  | E => a = None
  | T l x r =>
    a = Some (eid x) /\ np (m (eid x)) = par /\
    rep m (Some (eid x)) (nl (m (eid x))) l /\ rep m (Some (eid x)) (nr (m (eid x))) r
  end.

Definition ctx_par (c : ctx) : option nat :=
  match c with [] => None | (_, x, _) :: _ => Some (eid x) end.

Fixpoint rep_ctx (m : pmem) (c : ctx) (hole root : option nat) : Prop :=
  match c with
  | [] => root = hole
  | (L, x, sib) :: c' =>
    nl (m (eid x)) = hole /\ np (m (eid x)) = ctx_par c' /\
    rep m (Some (eid x)) (nr (m (eid x))) sib /\ rep_ctx m c' (Some (eid x)) root
  | (R, x, sib) :: c' =>
    nr (m (eid x)) = hole /\ np (m (eid x)) = ctx_par c' /\
    rep m (Some (eid x)) (nl (m (eid x))) sib /\ rep_ctx m c' (Some (eid x)) root
  end.

Lemma rep_zip m root c : forall s,
  rep m None root (zip c s) <-> exists hole, rep m (ctx_par c) hole s /\ rep_ctx m c hole root.
Proof.
  induction c as [|[[d x] sib] c IH]; intros s; cbn [zip rep_ctx ctx_par].
  - split.
    + intros H. exists root. auto.
    + intros (hole & H & ->). auto.
  - destruct d; rewrite IH; cbn [rep]; split.
    + intros (hole & (-> & H1 & H2 & H3) & H4). eexists; repeat split; eauto.
    + intros (hole & H1 & <- & H2 & H3 & H4). eexists; repeat split; eauto.
    + intros (hole & (-> & H1 & H2 & H3) & H4). eexists; repeat split; eauto.
    + intros (hole & H1 & <- & H2 & H3 & H4). eexists; repeat split; eauto.
Qed.

Definition ids_ctx (c : ctx) : list nat := map eid (elems_ctx c).

Lemma ids_T l x r : ids (T l x r) = eid x :: ids l ++ ids r.
Proof. unfold ids. cbn [elems map]. rewrite map_app. reflexivity. Qed.

Lemma rep_frame m m' t : forall par a,
  (forall y, In y (ids t) -> m' y = m y) -> rep m par a t -> rep m' par a t.
Proof.
  induction t as [|l IHl x r IHr]; intros par a Hf H; cbn [rep] in *; auto.
  destruct H as (-> & H1 & H2 & H3).
  assert (Hx : m' (eid x) = m (eid x)) by (apply Hf; rewrite ids_T; cbn; auto).
  rewrite Hx. repeat split; auto.
  - apply IHl; auto. intros y Hy. apply Hf. rewrite ids_T. cbn. rewrite in_app_iff. auto.
  - apply IHr; auto. intros y Hy. apply Hf. rewrite ids_T. cbn. rewrite in_app_iff. auto.
Qed.

(** same subtree, only the parent pointer of its root node was rewritten *)
Lemma rep_reparent m m' t par par' a :
  rep m par a t ->
  (forall x, a = Some x -> m' x = mkN par' (nl (m x)) (nr (m x))) ->
  (forall y, In y (ids t) -> a <> Some y -> m' y = m y) ->
  NoDup (ids t) ->
  rep m' par' a t.
Proof.
  destruct t as [|l x r]; cbn [rep]; auto.
  intros (-> & H1 & H2 & H3) Hx Hf Hd. rewrite ids_T in Hd. inversion Hd as [|? ? Hn Hd']; subst.
  rewrite (Hx (eid x) eq_refl). cbn [np nl nr]. repeat split; auto.
  - apply (rep_frame m); auto. intros y Hy. apply Hf.
    + rewrite ids_T. cbn. rewrite in_app_iff. auto.
    + intros [= E']. apply Hn. rewrite in_app_iff. subst. auto.
  - apply (rep_frame m); auto. intros y Hy. apply Hf.
    + rewrite ids_T. cbn. rewrite in_app_iff. auto.
    + intros [= E']. apply Hn. rewrite in_app_iff. subst. auto.
Qed.

Lemma rep_ctx_frame m m' root : forall c hole,
  (forall y, In y (ids_ctx c) -> m' y = m y) -> rep_ctx m c hole root -> rep_ctx m' c hole root.
Proof.
  induction c as [|[[d x] sib] c IH]; intros hole Hf H; cbn [rep_ctx] in *; auto.
  assert (Hx : m' (eid x) = m (eid x)) by (apply Hf; unfold ids_ctx; cbn; auto).
  assert (Hs : forall y, In y (ids sib) -> m' y = m y).
  { intros y Hy. apply Hf. unfold ids_ctx. cbn [elems_ctx map]. rewrite map_app. cbn. rewrite in_app_iff. auto. }
  assert (Hc : forall y, In y (ids_ctx c) -> m' y = m y).
  { intros y Hy. apply Hf. unfold ids_ctx in *. cbn [elems_ctx map]. rewrite map_app. cbn. rewrite in_app_iff. auto. }
  destruct d; destruct H as (H1 & H2 & H3 & H4); rewrite Hx; repeat split; auto;
    try (apply (rep_frame m); auto).
Qed.

(** * Field reads through each statement *)

Lemma node_eta n : n = mkN (np n) (nl n) (nr n).
Proof. destruct n; reflexivity. Qed.

Lemma oeqb_some a x : oeqb a (Some x) = true <-> a = Some x.
Proof.
  destruct a as [y|]; cbn [oeqb]; [|split; discriminate].
  rewrite Nat.eqb_eq. split; congruence.
Qed.

Section Fields.
  Variables (m : pmem) (a : nat) (v : option nat) (x : nat).
  Lemma np_setp : np (setp m a v x) = if Nat.eqb x a then v else np (m x).
  Proof. unfold setp, pupd. destruct (Nat.eqb_spec x a); subst; reflexivity. Qed.
  Lemma nl_setp : nl (setp m a v x) = nl (m x).
  Proof. unfold setp, pupd. destruct (Nat.eqb_spec x a); subst; reflexivity. Qed.
  Lemma nr_setp : nr (setp m a v x) = nr (m x).
  Proof. unfold setp, pupd. destruct (Nat.eqb_spec x a); subst; reflexivity. Qed.
  Lemma np_setl : np (setl m a v x) = np (m x).
  Proof. unfold setl, pupd. destruct (Nat.eqb_spec x a); subst; reflexivity. Qed.
  Lemma nl_setl : nl (setl m a v x) = if Nat.eqb x a then v else nl (m x).
  Proof. unfold setl, pupd. destruct (Nat.eqb_spec x a); subst; reflexivity. Qed.
  Lemma nr_setl : nr (setl m a v x) = nr (m x).
  Proof. unfold setl, pupd. destruct (Nat.eqb_spec x a); subst; reflexivity. Qed.
  Lemma np_setr : np (setr m a v x) = np (m x).
  Proof. unfold setr, pupd. destruct (Nat.eqb_spec x a); subst; reflexivity. Qed.
  Lemma nl_setr : nl (setr m a v x) = nl (m x).
  Proof. unfold setr, pupd. destruct (Nat.eqb_spec x a); subst; reflexivity. Qed.
  Lemma nr_setr : nr (setr m a v x) = if Nat.eqb x a then v else nr (m x).
  Proof. unfold setr, pupd. destruct (Nat.eqb_spec x a); subst; reflexivity. Qed.
End Fields.

Global Hint Rewrite np_setp nl_setp nr_setp np_setl nl_setl nr_setl np_setr nl_setr nr_setr : fld0.

Lemma oeqb_sym_some a x : oeqb a (Some x) = match a with Some y => Nat.eqb x y | None => false end.
Proof. destruct a as [y|]; cbn [oeqb]; auto using Nat.eqb_sym. Qed.

Section Stmts.
  Variables (m : pmem) (c p x : nat).

  (* the three statements that may write a parent's child link *)
  Lemma np_s_gp : np (s_gp m c p x) = np (m x).
  Proof. unfold s_gp. destruct (np (m p)); auto. destruct (oeqb _ _); auto using np_setl, np_setr. Qed.
  Lemma nl_s_gp : nl (s_gp m c p x) =
    if oeqb (np (m p)) (Some x) && oeqb (nl (m x)) (Some p) then Some c else nl (m x).
  Proof.
    unfold s_gp. destruct (np (m p)) as [g|]; cbn [oeqb andb]; auto.
    destruct (Nat.eqb_spec g x) as [->|Hn]; cbn [andb].
    - destruct (oeqb (nl (m x)) (Some p)); rewrite ?nl_setl, ?nl_setr, ?Nat.eqb_refl; auto.
    - destruct (oeqb (nl (m g)) (Some p)); rewrite ?nl_setl, ?nl_setr; auto.
      destruct (Nat.eqb_spec x g); congruence.
  Qed.
  Lemma nr_s_gp : nr (s_gp m c p x) =
    if oeqb (np (m p)) (Some x) && negb (oeqb (nl (m x)) (Some p)) then Some c else nr (m x).
  Proof.
    unfold s_gp. destruct (np (m p)) as [g|]; cbn [oeqb andb]; auto.
    destruct (Nat.eqb_spec g x) as [->|Hn]; cbn [andb].
    - destruct (oeqb (nl (m x)) (Some p)); cbn [negb]; rewrite ?nr_setl, ?nr_setr, ?Nat.eqb_refl; auto.
    - destruct (oeqb (nl (m g)) (Some p)); rewrite ?nr_setl, ?nr_setr; auto.
      destruct (Nat.eqb_spec x g); congruence.
  Qed.

  Lemma np_s_cl : np (s_cl m c p x) = if oeqb (nl (m c)) (Some x) then Some p else np (m x).
  Proof.
    unfold s_cl. destruct (nl (m c)) as [y|]; cbn [oeqb]; auto.
    rewrite np_setp, Nat.eqb_sym. reflexivity.
  Qed.
  Lemma nl_s_cl : nl (s_cl m c p x) = nl (m x).
  Proof. unfold s_cl. destruct (nl (m c)); auto using nl_setp. Qed.
  Lemma nr_s_cl : nr (s_cl m c p x) = nr (m x).
  Proof. unfold s_cl. destruct (nl (m c)); auto using nr_setp. Qed.

  Lemma np_s_cr : np (s_cr m c p x) = if oeqb (nr (m c)) (Some x) then Some p else np (m x).
  Proof.
    unfold s_cr. destruct (nr (m c)) as [y|]; cbn [oeqb]; auto.
    rewrite np_setp, Nat.eqb_sym. reflexivity.
  Qed.
  Lemma nl_s_cr : nl (s_cr m c p x) = nl (m x).
  Proof. unfold s_cr. destruct (nr (m c)); auto using nl_setp. Qed.
  Lemma nr_s_cr : nr (s_cr m c p x) = nr (m x).
  Proof. unfold s_cr. destruct (nr (m c)); auto using nr_setp. Qed.

  Lemma np_s_pr : np (s_pr m c p x) = if oeqb (nr (m p)) (Some x) then Some c else np (m x).
  Proof.
    unfold s_pr. destruct (nr (m p)) as [y|]; cbn [oeqb]; auto.
    rewrite np_setp, Nat.eqb_sym. reflexivity.
  Qed.
  Lemma nl_s_pr : nl (s_pr m c p x) = nl (m x).
  Proof. unfold s_pr. destruct (nr (m p)); auto using nl_setp. Qed.
  Lemma nr_s_pr : nr (s_pr m c p x) = nr (m x).
  Proof. unfold s_pr. destruct (nr (m p)); auto using nr_setp. Qed.

  Lemma np_s_pl : np (s_pl m c p x) = if oeqb (nl (m p)) (Some x) then Some c else np (m x).
  Proof.
    unfold s_pl. destruct (nl (m p)) as [y|]; cbn [oeqb]; auto.
    rewrite np_setp, Nat.eqb_sym. reflexivity.
  Qed.
  Lemma nl_s_pl : nl (s_pl m c p x) = nl (m x).
  Proof. unfold s_pl. destruct (nl (m p)); auto using nl_setp. Qed.
  Lemma nr_s_pl : nr (s_pl m c p x) = nr (m x).
  Proof. unfold s_pl. destruct (nl (m p)); auto using nr_setp. Qed.

  Lemma np_s_cp : np (s_cp m c p x) = if Nat.eqb x c then np (m p) else np (m x).
  Proof. apply np_setp. Qed.
  Lemma nl_s_cp : nl (s_cp m c p x) = nl (m x).
  Proof. apply nl_setp. Qed.
  Lemma nr_s_cp : nr (s_cp m c p x) = nr (m x).
  Proof. apply nr_setp. Qed.

  Lemma np_s_pp : np (s_pp m c p x) = if Nat.eqb x p then Some c else np (m x).
  Proof. apply np_setp. Qed.
  Lemma nl_s_pp : nl (s_pp m c p x) = nl (m x).
  Proof. apply nl_setp. Qed.
  Lemma nr_s_pp : nr (s_pp m c p x) = nr (m x).
  Proof. apply nr_setp. Qed.

  Lemma np_s_L : np (s_L m c p x) = np (m x).
  Proof. unfold s_L. cbv zeta. autorewrite with fld0. reflexivity. Qed.
  Lemma nl_s_L : nl (s_L m c p x) =
    if Nat.eqb x c then Some p else if Nat.eqb x p then nl (m c) else nl (m x).
  Proof. unfold s_L. cbv zeta. autorewrite with fld0. reflexivity. Qed.
  Lemma nr_s_L : p <> c -> nr (s_L m c p x) =
    if Nat.eqb x p then nr (m c) else if Nat.eqb x c then nr (m p) else nr (m x).
  Proof.
    intros Hne. unfold s_L. cbv zeta. autorewrite with fld0.
    destruct (Nat.eqb_spec x p) as [->|]; auto.
  Qed.

  Lemma np_s_R : np (s_R m c p x) = np (m x).
  Proof. unfold s_R. cbv zeta. autorewrite with fld0. reflexivity. Qed.
  Lemma nr_s_R : nr (s_R m c p x) =
    if Nat.eqb x c then Some p else if Nat.eqb x p then nr (m c) else nr (m x).
  Proof. unfold s_R. cbv zeta. autorewrite with fld0. reflexivity. Qed.
  Lemma nl_s_R : p <> c -> nl (s_R m c p x) =
    if Nat.eqb x p then nl (m c) else if Nat.eqb x c then nl (m p) else nl (m x).
  Proof.
    intros Hne. unfold s_R. cbv zeta. autorewrite with fld0.
    destruct (Nat.eqb_spec x p) as [->|]; auto.
  Qed.
End Stmts.

Global Hint Rewrite np_s_gp nl_s_gp nr_s_gp np_s_cl nl_s_cl nr_s_cl np_s_cr nl_s_cr nr_s_cr
  np_s_pr nl_s_pr nr_s_pr np_s_pl nl_s_pl nr_s_pl np_s_cp nl_s_cp nr_s_cp
  np_s_pp nl_s_pp nr_s_pp np_s_L nl_s_L np_s_R nr_s_R : fld.

Ltac resolve_eqb :=
  repeat match goal with
  | |- context [Nat.eqb ?a ?a] => rewrite (Nat.eqb_refl a)
  | |- context [Nat.eqb ?a ?b] => rewrite (proj2 (Nat.eqb_neq a b)) by congruence
  end.

Definition m7 (m : pmem) (c p : nat) : pmem :=
  s_pp (s_cp (s_pl (s_pr (s_cr (s_cl (s_gp m c p) c p) c p) c p) c p) c p) c p.

(** * What the memory looks like after promoting the LEFT child c of p

    [ga] = p's parent, [la]/[ra] = c's children, [sa] = p's other child (all
    possibly NULL); the addresses involved are pairwise different. *)
Definition mL (m : pmem) (c p : nat) : pmem := s_L (m7 m c p) c p.

Section PromoteL.
  Variables (m : pmem) (root : option nat) (c p : nat) (ga la ra sa : option nat).
  Hypothesis Hcp : np (m c) = Some p.
  Hypothesis Hpp : np (m p) = ga.
  Hypothesis Hpc : nl (m p) = Some c.
  Hypothesis Hps : nr (m p) = sa.
  Hypothesis Hcl : nl (m c) = la.
  Hypothesis Hcr : nr (m c) = ra.
  Hypothesis Hne : p <> c.
  Hypothesis Hg : forall g, ga = Some g ->
    g <> p /\ g <> c /\ la <> Some g /\ ra <> Some g /\ sa <> Some g.
  Hypothesis Hla : la <> Some p /\ la <> Some c.
  Hypothesis Hra : ra <> Some p /\ ra <> Some c.
  Hypothesis Hsa : sa <> Some p /\ sa <> Some c.
  Hypothesis Hd : (la = None \/ la <> ra) /\ (la = None \/ la <> sa) /\ (ra = None \/ ra <> sa).

  Ltac go :=
    unfold mL, m7; rewrite ?nr_s_L by assumption;
    repeat (autorewrite with fld; rewrite ?Hcp, ?Hpp, ?Hpc, ?Hps, ?Hcl, ?Hcr;
            cbn [oeqb andb negb]; resolve_eqb).

  Lemma promote_L_eq :
    promote m root c = Some (mL m c p, match ga with None => Some c | Some _ => root end).
  Proof using Hcp Hpp Hpc Hps Hcl Hcr Hne Hg Hla Hra Hsa Hd.
    unfold promote. rewrite Hcp, Hpp. cbv zeta. fold (m7 m c p).
    assert (Hb : oeqb (nl (m7 m c p p)) (Some c) = true).
    { destruct Hla, Hra, Hsa.
      destruct ga as [g|]; [destruct (Hg g eq_refl) as (G1 & G2 & _)|];
        destruct sa as [s|]; go; reflexivity. }
    rewrite Hb. reflexivity.
  Qed.

  Lemma mL_c : mL m c p c = mkN ga (Some p) sa.
  Proof using Hcp Hpp Hpc Hps Hcl Hcr Hne Hg Hla Hra Hsa Hd.
    rewrite (node_eta (mL m c p c)). destruct Hla, Hra, Hsa.
    destruct ga as [g|]; [destruct (Hg g eq_refl) as (G1 & G2 & _)|];
      destruct la as [a|], ra as [b|], sa as [s|]; go; reflexivity.
  Qed.

  Lemma mL_p : mL m c p p = mkN (Some c) la ra.
  Proof using Hcp Hpp Hpc Hps Hcl Hcr Hne Hg Hla Hra Hsa Hd.
    rewrite (node_eta (mL m c p p)). destruct Hla, Hra, Hsa.
    destruct ga as [g|]; [destruct (Hg g eq_refl) as (G1 & G2 & _)|];
      destruct la as [a|], ra as [b|], sa as [s|]; go; reflexivity.
  Qed.

  Lemma mL_child a :
    la = Some a \/ ra = Some a -> mL m c p a = mkN (Some p) (nl (m a)) (nr (m a)).
  Proof using Hcp Hpp Hpc Hps Hcl Hcr Hne Hg Hla Hra Hsa Hd.
    intros Ha. rewrite (node_eta (mL m c p a)). destruct Hla, Hra, Hsa, Hd as (D1 & D2 & D3).
    destruct ga as [g|]; [destruct (Hg g eq_refl) as (G1 & G2 & G3 & G4 & G5)|];
      destruct la as [a1|], ra as [b|], sa as [s|]; destruct Ha as [Ha|Ha]; try discriminate;
      injection Ha as ->; destruct D1 as [D1|D1], D2 as [D2|D2], D3 as [D3|D3]; try discriminate;
      go; reflexivity.
  Qed.

  Lemma mL_sib s : sa = Some s -> mL m c p s = mkN (Some c) (nl (m s)) (nr (m s)).
  Proof using Hcp Hpp Hpc Hps Hcl Hcr Hne Hg Hla Hra Hsa Hd.
    intros Hs. rewrite (node_eta (mL m c p s)). destruct Hla, Hra, Hsa, Hd as (D1 & D2 & D3).
    destruct ga as [g|]; [destruct (Hg g eq_refl) as (G1 & G2 & G3 & G4 & G5)|];
      destruct la as [a1|], ra as [b|], sa as [s'|]; try discriminate; injection Hs as ->;
      destruct D1 as [D1|D1], D2 as [D2|D2], D3 as [D3|D3]; try discriminate;
      go; reflexivity.
  Qed.

  Lemma mL_gp g : ga = Some g ->
    mL m c p g = if oeqb (nl (m g)) (Some p) then mkN (np (m g)) (Some c) (nr (m g))
                 else mkN (np (m g)) (nl (m g)) (Some c).
  Proof using Hcp Hpp Hpc Hps Hcl Hcr Hne Hg Hla Hra Hsa Hd.
    intros Hgg. rewrite (node_eta (mL m c p g)). destruct Hla, Hra, Hsa.
    destruct (Hg g Hgg) as (G1 & G2 & G3 & G4 & G5).
    destruct ga as [g'|]; [|discriminate]. injection Hgg as ->.
    destruct la as [a1|], ra as [b|], sa as [s|]; go;
      destruct (oeqb (nl (m g)) (Some p)); reflexivity.
  Qed.

  Lemma mL_other y :
    y <> c -> y <> p -> la <> Some y -> ra <> Some y -> sa <> Some y -> ga <> Some y ->
    mL m c p y = m y.
  Proof using Hcp Hpp Hpc Hps Hcl Hcr Hne Hg Hla Hra Hsa Hd.
    intros Y1 Y2 Y3 Y4 Y5 Y6. rewrite (node_eta (mL m c p y)), (node_eta (m y)).
    destruct Hla, Hra, Hsa.
    destruct ga as [g|]; [destruct (Hg g eq_refl) as (G1 & G2 & G3 & G4 & G5)|];
      destruct la as [a1|], ra as [b|], sa as [s|]; go; reflexivity.
  Qed.
End PromoteL.

(** * What the memory looks like after promoting the RIGHT child c of p

    [ga] = p's parent, [la]/[ra] = c's children, [sa] = p's other child (all
    possibly NULL); the addresses involved are pairwise different. *)
Definition mR (m : pmem) (c p : nat) : pmem := s_R (m7 m c p) c p.

Section PromoteR.
  Variables (m : pmem) (root : option nat) (c p : nat) (ga la ra sa : option nat).
  Hypothesis Hcp : np (m c) = Some p.
  Hypothesis Hpp : np (m p) = ga.
  Hypothesis Hpc : nr (m p) = Some c.
  Hypothesis Hps : nl (m p) = sa.
  Hypothesis Hcl : nl (m c) = la.
  Hypothesis Hcr : nr (m c) = ra.
  Hypothesis Hne : p <> c.
  Hypothesis Hg : forall g, ga = Some g ->
    g <> p /\ g <> c /\ la <> Some g /\ ra <> Some g /\ sa <> Some g.
  Hypothesis Hla : la <> Some p /\ la <> Some c.
  Hypothesis Hra : ra <> Some p /\ ra <> Some c.
  Hypothesis Hsa : sa <> Some p /\ sa <> Some c.
  Hypothesis Hd : (la = None \/ la <> ra) /\ (la = None \/ la <> sa) /\ (ra = None \/ ra <> sa).

  Ltac go :=
    unfold mR, m7; rewrite ?nl_s_R by assumption;
    repeat (autorewrite with fld; rewrite ?Hcp, ?Hpp, ?Hpc, ?Hps, ?Hcl, ?Hcr;
            cbn [oeqb andb negb]; resolve_eqb).

  Lemma promote_R_eq :
    promote m root c = Some (mR m c p, match ga with None => Some c | Some _ => root end).
  Proof using Hcp Hpp Hpc Hps Hcl Hcr Hne Hg Hla Hra Hsa Hd.
    unfold promote. rewrite Hcp, Hpp. cbv zeta. fold (m7 m c p).
    assert (Hb : oeqb (nl (m7 m c p p)) (Some c) = false).
    { destruct Hla, Hra, Hsa.
      destruct ga as [g|]; [destruct (Hg g eq_refl) as (G1 & G2 & _)|];
        destruct sa as [s|]; go; reflexivity. }
    rewrite Hb. reflexivity.
  Qed.

  Lemma mR_c : mR m c p c = mkN ga sa (Some p).
  Proof using Hcp Hpp Hpc Hps Hcl Hcr Hne Hg Hla Hra Hsa Hd.
    rewrite (node_eta (mR m c p c)). destruct Hla, Hra, Hsa.
    destruct ga as [g|]; [destruct (Hg g eq_refl) as (G1 & G2 & _)|];
      destruct la as [a|], ra as [b|], sa as [s|]; go; reflexivity.
  Qed.

  Lemma mR_p : mR m c p p = mkN (Some c) la ra.
  Proof using Hcp Hpp Hpc Hps Hcl Hcr Hne Hg Hla Hra Hsa Hd.
    rewrite (node_eta (mR m c p p)). destruct Hla, Hra, Hsa.
    destruct ga as [g|]; [destruct (Hg g eq_refl) as (G1 & G2 & _)|];
      destruct la as [a|], ra as [b|], sa as [s|]; go; reflexivity.
  Qed.

  Lemma mR_child a :
    la = Some a \/ ra = Some a -> mR m c p a = mkN (Some p) (nl (m a)) (nr (m a)).
  Proof using Hcp Hpp Hpc Hps Hcl Hcr Hne Hg Hla Hra Hsa Hd.
    intros Ha. rewrite (node_eta (mR m c p a)). destruct Hla, Hra, Hsa, Hd as (D1 & D2 & D3).
    destruct ga as [g|]; [destruct (Hg g eq_refl) as (G1 & G2 & G3 & G4 & G5)|];
      destruct la as [a1|], ra as [b|], sa as [s|]; destruct Ha as [Ha|Ha]; try discriminate;
      injection Ha as ->; destruct D1 as [D1|D1], D2 as [D2|D2], D3 as [D3|D3]; try discriminate;
      go; reflexivity.
  Qed.

  Lemma mR_sib s : sa = Some s -> mR m c p s = mkN (Some c) (nl (m s)) (nr (m s)).
  Proof using Hcp Hpp Hpc Hps Hcl Hcr Hne Hg Hla Hra Hsa Hd.
    intros Hs. rewrite (node_eta (mR m c p s)). destruct Hla, Hra, Hsa, Hd as (D1 & D2 & D3).
    destruct ga as [g|]; [destruct (Hg g eq_refl) as (G1 & G2 & G3 & G4 & G5)|];
      destruct la as [a1|], ra as [b|], sa as [s'|]; try discriminate; injection Hs as ->;
      destruct D1 as [D1|D1], D2 as [D2|D2], D3 as [D3|D3]; try discriminate;
      go; reflexivity.
  Qed.

  Lemma mR_gp g : ga = Some g ->
    mR m c p g = if oeqb (nl (m g)) (Some p) then mkN (np (m g)) (Some c) (nr (m g))
                 else mkN (np (m g)) (nl (m g)) (Some c).
  Proof using Hcp Hpp Hpc Hps Hcl Hcr Hne Hg Hla Hra Hsa Hd.
    intros Hgg. rewrite (node_eta (mR m c p g)). destruct Hla, Hra, Hsa.
    destruct (Hg g Hgg) as (G1 & G2 & G3 & G4 & G5).
    destruct ga as [g'|]; [|discriminate]. injection Hgg as ->.
    destruct la as [a1|], ra as [b|], sa as [s|]; go;
      destruct (oeqb (nl (m g)) (Some p)); reflexivity.
  Qed.

  Lemma mR_other y :
    y <> c -> y <> p -> la <> Some y -> ra <> Some y -> sa <> Some y -> ga <> Some y ->
    mR m c p y = m y.
  Proof using Hcp Hpp Hpc Hps Hcl Hcr Hne Hg Hla Hra Hsa Hd.
    intros Y1 Y2 Y3 Y4 Y5 Y6. rewrite (node_eta (mR m c p y)), (node_eta (m y)).
    destruct Hla, Hra, Hsa.
    destruct ga as [g|]; [destruct (Hg g eq_refl) as (G1 & G2 & G3 & G4 & G5)|];
      destruct la as [a1|], ra as [b|], sa as [s|]; go; reflexivity.
  Qed.
End PromoteR.

(** * The refinement theorems *)

Definition root_addr (t : tree) : option nat :=
  match t with E => None | T _ x _ => Some (eid x) end.

Lemma rep_root m par a t : rep m par a t -> a = root_addr t.
Proof. destruct t; cbn [rep root_addr]; tauto. Qed.

Lemma root_addr_in t y : root_addr t = Some y -> In y (ids t).
Proof. destruct t as [|l x r]; cbn [root_addr]; [discriminate|]. intros [= <-]. rewrite ids_T. cbn; auto. Qed.

Lemma ids_zip c s : Permutation (ids (zip c s)) (ids s ++ ids_ctx c).
Proof. unfold ids, ids_ctx. rewrite <- map_app. apply Permutation_map. apply elems_zip. Qed.

Lemma ids_ctx_cons d x sib c : ids_ctx ((d, x, sib) :: c) = eid x :: ids sib ++ ids_ctx c.
Proof. unfold ids_ctx, ids. cbn [elems_ctx map]. rewrite map_app. reflexivity. Qed.

Lemma ctx_par_in c g : ctx_par c = Some g -> In g (ids_ctx c).
Proof.
  destruct c as [|[[d x] sib] c]; cbn [ctx_par]; [discriminate|]. intros [= <-].
  rewrite ids_ctx_cons. cbn; auto.
Qed.

Lemma NoDup_app_inv {A} (a b : list A) :
  NoDup (a ++ b) -> NoDup a /\ NoDup b /\ (forall x, In x a -> In x b -> False).
Proof.
  induction a as [|y a IH]; cbn [app]; intros H.
  - repeat split; auto. constructor.
  - inversion H as [|? ? Hn Hd]; subst. destruct (IH Hd) as (H1 & H2 & H3).
    repeat split; auto.
    + constructor; auto. intros Hy. apply Hn. apply in_or_app; auto.
    + intros x [->|Hx] Hb; [apply Hn; apply in_or_app; auto|eauto].
Qed.

(** everything the proof needs to know about the addresses involved *)
Lemma nodup_pkg (p c : nat) (A B S G : list nat) l :
  Permutation l (p :: c :: A ++ B ++ S ++ G) -> NoDup l ->
  p <> c /\ ~ In p A /\ ~ In p B /\ ~ In p S /\ ~ In p G /\
  ~ In c A /\ ~ In c B /\ ~ In c S /\ ~ In c G /\
  (forall y, In y A -> In y B -> False) /\ (forall y, In y A -> In y S -> False) /\
  (forall y, In y A -> In y G -> False) /\ (forall y, In y B -> In y S -> False) /\
  (forall y, In y B -> In y G -> False) /\ (forall y, In y S -> In y G -> False) /\
  NoDup A /\ NoDup B /\ NoDup S /\ NoDup G.
Proof.
  intros P Hd. apply (Permutation_NoDup P) in Hd.
  inversion Hd as [|? ? Hp Hd1]; subst. inversion Hd1 as [|? ? Hc Hd2]; subst.
  destruct (NoDup_app_inv _ _ Hd2) as (NA & Hd3 & DA).
  destruct (NoDup_app_inv _ _ Hd3) as (NB & Hd4 & DB).
  destruct (NoDup_app_inv _ _ Hd4) as (NS & NG & DS).
  cbn [In] in Hp. rewrite !in_app_iff in Hp, Hc.
  repeat split; auto; try tauto.
  - intros y Ha Hb. apply (DA y Ha). rewrite !in_app_iff. auto.
  - intros y Ha Hb. apply (DA y Ha). rewrite !in_app_iff. auto.
  - intros y Ha Hb. apply (DA y Ha). rewrite !in_app_iff. auto.
  - intros y Ha Hb. apply (DB y Ha). rewrite !in_app_iff. auto.
  - intros y Ha Hb. apply (DB y Ha). rewrite !in_app_iff. auto.
Qed.

(** cstl_heap_promote_child(h, c) for a LEFT child c of p, anywhere in a
    well-formed linked tree (context [c0] = the path from the root to p):
    the result is a well-formed linked tree (every parent pointer right,
    root pointer right) that represents the same tree with the two elements
    exchanged. *)
Theorem promote_left_refines m root c0 cl cx cr px sib :
  NoDup (ids (zip c0 (T (T cl cx cr) px sib))) ->
  rep m None root (zip c0 (T (T cl cx cr) px sib)) ->
  exists m' root', promote m root (eid cx) = Some (m', root') /\
                   rep m' None root' (zip c0 (T (T cl px cr) cx sib)).
Proof.
  intros Hd Hr.
  apply rep_zip in Hr. destruct Hr as (hole & R1 & R2).
  cbn [rep] in R1. destruct R1 as (-> & Hpp & (Hpc & Hcp & Rcl & Rcr) & Rsib).
  set (p := eid px) in *. set (c := eid cx) in *.
  pose proof (rep_root _ _ _ _ Rcl) as Hcl. pose proof (rep_root _ _ _ _ Rcr) as Hcr.
  pose proof (rep_root _ _ _ _ Rsib) as Hps.
  assert (P : Permutation (ids (zip c0 (T (T cl cx cr) px sib)))
                          (p :: c :: ids cl ++ ids cr ++ ids sib ++ ids_ctx c0)).
  { rewrite ids_zip, !ids_T. cbn [app]. rewrite <- !app_assoc. reflexivity. }
  destruct (nodup_pkg _ _ _ _ _ _ _ P Hd) as
    (Npc & NpA & NpB & NpS & NpG & NcA & NcB & NcS & NcG & DAB & DAS & DAG & DBS & DBG & DSG & NA & NB & NS & NG).
  assert (IA : forall y, root_addr cl = Some y -> In y (ids cl)) by (intros; apply root_addr_in; auto).
  assert (IB : forall y, root_addr cr = Some y -> In y (ids cr)) by (intros; apply root_addr_in; auto).
  assert (IS : forall y, root_addr sib = Some y -> In y (ids sib)) by (intros; apply root_addr_in; auto).
  assert (IG : forall y, ctx_par c0 = Some y -> In y (ids_ctx c0)) by (intros; apply ctx_par_in; auto).
  (* the hypotheses of the memory lemmas *)
  assert (Hg : forall g, ctx_par c0 = Some g ->
             g <> p /\ g <> c /\ root_addr cl <> Some g /\ root_addr cr <> Some g /\ root_addr sib <> Some g).
  { intros g Eg. apply IG in Eg. repeat split; try (intros ->; tauto); intros E1.
    - apply (DAG g); auto. - apply (DBG g); auto. - apply (DSG g); auto. }
  assert (Hla : root_addr cl <> Some p /\ root_addr cl <> Some c) by (split; intros E1; apply IA in E1; tauto).
  assert (Hra : root_addr cr <> Some p /\ root_addr cr <> Some c) by (split; intros E1; apply IB in E1; tauto).
  assert (Hsa : root_addr sib <> Some p /\ root_addr sib <> Some c) by (split; intros E1; apply IS in E1; tauto).
  assert (Hdd : (root_addr cl = None \/ root_addr cl <> root_addr cr) /\
                (root_addr cl = None \/ root_addr cl <> root_addr sib) /\
                (root_addr cr = None \/ root_addr cr <> root_addr sib)).
  { repeat split.
    - destruct (root_addr cl) as [a|] eqn:Ea; auto. right. intros E1. symmetry in E1. eapply DAB; eauto.
    - destruct (root_addr cl) as [a|] eqn:Ea; auto. right. intros E1. symmetry in E1. eapply DAS; eauto.
    - destruct (root_addr cr) as [a|] eqn:Ea; auto. right. intros E1. symmetry in E1. eapply DBS; eauto. }
  pose proof (promote_L_eq m root c p _ _ _ _ Hcp Hpp Hpc Hps Hcl Hcr Npc Hg Hla Hra Hsa Hdd) as Eq.
  pose proof (mL_c m c p _ _ _ _ Hcp Hpp Hpc Hps Hcl Hcr Npc Hg Hla Hra Hsa Hdd) as Mc.
  pose proof (mL_p m c p _ _ _ _ Hcp Hpp Hpc Hps Hcl Hcr Npc Hg Hla Hra Hsa Hdd) as Mp.
  pose proof (mL_child m c p _ _ _ _ Hcp Hpp Hpc Hps Hcl Hcr Npc Hg Hla Hra Hsa Hdd) as Mch.
  pose proof (mL_sib m c p _ _ _ _ Hcp Hpp Hpc Hps Hcl Hcr Npc Hg Hla Hra Hsa Hdd) as Msb.
  pose proof (mL_gp m c p _ _ _ _ Hcp Hpp Hpc Hps Hcl Hcr Npc Hg Hla Hra Hsa Hdd) as Mgp.
  pose proof (mL_other m c p _ _ _ _ Hcp Hpp Hpc Hps Hcl Hcr Npc Hg Hla Hra Hsa Hdd) as Mot.
  set (m' := mL m c p) in *.
  eexists m', _. split; [exact Eq|].
  apply rep_zip. exists (Some c). split.
  - cbn [rep]. fold p c. rewrite Mc, Mp. cbn [np nl nr]. repeat split; auto.
    + rewrite <- Hcl. apply (rep_reparent m m' cl (Some c)); auto.
      * intros x Ex. apply Mch. left. congruence.
      * intros y Hy Hn. apply Mot; try (intros ->; tauto); try congruence.
        -- intros E1. apply IB in E1. eapply DAB; eauto.
        -- intros E1. apply IS in E1. eapply DAS; eauto.
        -- intros E1. apply IG in E1. eapply DAG; eauto.
    + rewrite <- Hcr. apply (rep_reparent m m' cr (Some c)); auto.
      * intros x Ex. apply Mch. right. congruence.
      * intros y Hy Hn. apply Mot; try (intros ->; tauto); try congruence.
        -- intros E1. apply IA in E1. eapply DAB; eauto.
        -- intros E1. apply IS in E1. eapply DBS; eauto.
        -- intros E1. apply IG in E1. eapply DBG; eauto.
    + rewrite <- Hps. apply (rep_reparent m m' sib (Some p)); auto.
      * intros x Ex. apply Msb. congruence.
      * intros y Hy Hn. apply Mot; try (intros ->; tauto); try congruence.
        -- intros E1. apply IA in E1. eapply DAS; eauto.
        -- intros E1. apply IB in E1. eapply DBS; eauto.
        -- intros E1. apply IG in E1. eapply DSG; eauto.
  - destruct c0 as [|[[d gx] gsib] c1]; cbn [rep_ctx ctx_par] in *; [reflexivity|].
    set (g := eid gx) in *. rewrite ids_ctx_cons in NG, NpG, NcG, DAG, DBG, DSG, IG. fold g in NG, NpG, NcG, DAG, DBG, DSG, IG.
    inversion NG as [|? ? NgG NG']; subst. destruct (NoDup_app_inv _ _ NG') as (NGs & NGc & DG).
    assert (Fr : forall y, In y (ids gsib ++ ids_ctx c1) -> m' y = m y).
    { intros y Hy. apply Mot.
      - intros ->. apply NcG. right; auto.
      - intros ->. apply NpG. right; auto.
      - intros E1. apply IA in E1. apply (DAG y); auto. right; auto.
      - intros E1. apply IB in E1. apply (DBG y); auto. right; auto.
      - intros E1. apply IS in E1. apply (DSG y); auto. right; auto.
      - intros [= ->]. auto. }
    specialize (Mgp g eq_refl).
    destruct d; destruct R2 as (Hh & Hgp & Rgs & Rc1).
    + rewrite Hh in Mgp. cbn [oeqb] in Mgp. rewrite Nat.eqb_refl in Mgp. rewrite Mgp. cbn [np nl nr].
      repeat split; auto.
      * apply (rep_frame m); auto. intros y Hy. apply Fr. apply in_or_app; auto.
      * apply (rep_ctx_frame m); auto. intros y Hy. apply Fr. apply in_or_app; auto.
    + assert (Hnl : oeqb (nl (m g)) (Some p) = false).
      { destruct (oeqb (nl (m g)) (Some p)) eqn:E1; auto. apply oeqb_some in E1.
        apply rep_root in Rgs. rewrite Rgs in E1. apply root_addr_in in E1.
        exfalso. apply NpG. right. apply in_or_app; auto. }
      rewrite Hnl in Mgp. rewrite Mgp. cbn [np nl nr].
      repeat split; auto.
      * apply (rep_frame m); auto. intros y Hy. apply Fr. apply in_or_app; auto.
      * apply (rep_ctx_frame m); auto. intros y Hy. apply Fr. apply in_or_app; auto.
Qed.

(** ... and for a RIGHT child *)
Theorem promote_right_refines m root c0 cl cx cr px sib :
  NoDup (ids (zip c0 (T sib px (T cl cx cr)))) ->
  rep m None root (zip c0 (T sib px (T cl cx cr))) ->
  exists m' root', promote m root (eid cx) = Some (m', root') /\
                   rep m' None root' (zip c0 (T sib cx (T cl px cr))).
Proof.
  intros Hd Hr.
  apply rep_zip in Hr. destruct Hr as (hole & R1 & R2).
  cbn [rep] in R1. destruct R1 as (-> & Hpp & Rsib & (Hpc & Hcp & Rcl & Rcr)).
  set (p := eid px) in *. set (c := eid cx) in *.
  pose proof (rep_root _ _ _ _ Rcl) as Hcl. pose proof (rep_root _ _ _ _ Rcr) as Hcr.
  pose proof (rep_root _ _ _ _ Rsib) as Hps.
  assert (P : Permutation (ids (zip c0 (T sib px (T cl cx cr))))
                          (p :: c :: ids cl ++ ids cr ++ ids sib ++ ids_ctx c0)).
  { rewrite ids_zip, !ids_T. cbn [app]. apply perm_skip. fold c.
    replace (c :: ids cl ++ ids cr ++ ids sib ++ ids_ctx c0)
      with (((c :: ids cl ++ ids cr) ++ ids sib) ++ ids_ctx c0)
      by (cbn [app]; rewrite <- !app_assoc; reflexivity).
    apply Permutation_app_tail. apply Permutation_app_comm. }
  destruct (nodup_pkg _ _ _ _ _ _ _ P Hd) as
    (Npc & NpA & NpB & NpS & NpG & NcA & NcB & NcS & NcG & DAB & DAS & DAG & DBS & DBG & DSG & NA & NB & NS & NG).
  assert (IA : forall y, root_addr cl = Some y -> In y (ids cl)) by (intros; apply root_addr_in; auto).
  assert (IB : forall y, root_addr cr = Some y -> In y (ids cr)) by (intros; apply root_addr_in; auto).
  assert (IS : forall y, root_addr sib = Some y -> In y (ids sib)) by (intros; apply root_addr_in; auto).
  assert (IG : forall y, ctx_par c0 = Some y -> In y (ids_ctx c0)) by (intros; apply ctx_par_in; auto).
  (* the hypotheses of the memory lemmas *)
  assert (Hg : forall g, ctx_par c0 = Some g ->
             g <> p /\ g <> c /\ root_addr cl <> Some g /\ root_addr cr <> Some g /\ root_addr sib <> Some g).
  { intros g Eg. apply IG in Eg. repeat split; try (intros ->; tauto); intros E1.
    - apply (DAG g); auto. - apply (DBG g); auto. - apply (DSG g); auto. }
  assert (Hla : root_addr cl <> Some p /\ root_addr cl <> Some c) by (split; intros E1; apply IA in E1; tauto).
  assert (Hra : root_addr cr <> Some p /\ root_addr cr <> Some c) by (split; intros E1; apply IB in E1; tauto).
  assert (Hsa : root_addr sib <> Some p /\ root_addr sib <> Some c) by (split; intros E1; apply IS in E1; tauto).
  assert (Hdd : (root_addr cl = None \/ root_addr cl <> root_addr cr) /\
                (root_addr cl = None \/ root_addr cl <> root_addr sib) /\
                (root_addr cr = None \/ root_addr cr <> root_addr sib)).
  { repeat split.
    - destruct (root_addr cl) as [a|] eqn:Ea; auto. right. intros E1. symmetry in E1. eapply DAB; eauto.
    - destruct (root_addr cl) as [a|] eqn:Ea; auto. right. intros E1. symmetry in E1. eapply DAS; eauto.
    - destruct (root_addr cr) as [a|] eqn:Ea; auto. right. intros E1. symmetry in E1. eapply DBS; eauto. }
  pose proof (promote_R_eq m root c p _ _ _ _ Hcp Hpp Hpc Hps Hcl Hcr Npc Hg Hla Hra Hsa Hdd) as Eq.
  pose proof (mR_c m c p _ _ _ _ Hcp Hpp Hpc Hps Hcl Hcr Npc Hg Hla Hra Hsa Hdd) as Mc.
  pose proof (mR_p m c p _ _ _ _ Hcp Hpp Hpc Hps Hcl Hcr Npc Hg Hla Hra Hsa Hdd) as Mp.
  pose proof (mR_child m c p _ _ _ _ Hcp Hpp Hpc Hps Hcl Hcr Npc Hg Hla Hra Hsa Hdd) as Mch.
  pose proof (mR_sib m c p _ _ _ _ Hcp Hpp Hpc Hps Hcl Hcr Npc Hg Hla Hra Hsa Hdd) as Msb.
  pose proof (mR_gp m c p _ _ _ _ Hcp Hpp Hpc Hps Hcl Hcr Npc Hg Hla Hra Hsa Hdd) as Mgp.
  pose proof (mR_other m c p _ _ _ _ Hcp Hpp Hpc Hps Hcl Hcr Npc Hg Hla Hra Hsa Hdd) as Mot.
  set (m' := mR m c p) in *.
  eexists m', _. split; [exact Eq|].
  apply rep_zip. exists (Some c). split.
  - cbn [rep]. fold p c. rewrite Mc, Mp. cbn [np nl nr]. repeat split; auto.
    + rewrite <- Hps. apply (rep_reparent m m' sib (Some p)); auto.
      * intros x Ex. apply Msb. congruence.
      * intros y Hy Hn. apply Mot; try (intros ->; tauto); try congruence.
        -- intros E1. apply IA in E1. eapply DAS; eauto.
        -- intros E1. apply IB in E1. eapply DBS; eauto.
        -- intros E1. apply IG in E1. eapply DSG; eauto.
    + rewrite <- Hcl. apply (rep_reparent m m' cl (Some c)); auto.
      * intros x Ex. apply Mch. left. congruence.
      * intros y Hy Hn. apply Mot; try (intros ->; tauto); try congruence.
        -- intros E1. apply IB in E1. eapply DAB; eauto.
        -- intros E1. apply IS in E1. eapply DAS; eauto.
        -- intros E1. apply IG in E1. eapply DAG; eauto.
    + rewrite <- Hcr. apply (rep_reparent m m' cr (Some c)); auto.
      * intros x Ex. apply Mch. right. congruence.
      * intros y Hy Hn. apply Mot; try (intros ->; tauto); try congruence.
        -- intros E1. apply IA in E1. eapply DAB; eauto.
        -- intros E1. apply IS in E1. eapply DBS; eauto.
        -- intros E1. apply IG in E1. eapply DBG; eauto.
  - destruct c0 as [|[[d gx] gsib] c1]; cbn [rep_ctx ctx_par] in *; [reflexivity|].
    set (g := eid gx) in *. rewrite ids_ctx_cons in NG, NpG, NcG, DAG, DBG, DSG, IG. fold g in NG, NpG, NcG, DAG, DBG, DSG, IG.
    inversion NG as [|? ? NgG NG']; subst. destruct (NoDup_app_inv _ _ NG') as (NGs & NGc & DG).
    assert (Fr : forall y, In y (ids gsib ++ ids_ctx c1) -> m' y = m y).
    { intros y Hy. apply Mot.
      - intros ->. apply NcG. right; auto.
      - intros ->. apply NpG. right; auto.
      - intros E1. apply IA in E1. apply (DAG y); auto. right; auto.
      - intros E1. apply IB in E1. apply (DBG y); auto. right; auto.
      - intros E1. apply IS in E1. apply (DSG y); auto. right; auto.
      - intros [= ->]. auto. }
    specialize (Mgp g eq_refl).
    destruct d; destruct R2 as (Hh & Hgp & Rgs & Rc1).
    + rewrite Hh in Mgp. cbn [oeqb] in Mgp. rewrite Nat.eqb_refl in Mgp. rewrite Mgp. cbn [np nl nr].
      repeat split; auto.
      * apply (rep_frame m); auto. intros y Hy. apply Fr. apply in_or_app; auto.
      * apply (rep_ctx_frame m); auto. intros y Hy. apply Fr. apply in_or_app; auto.
    + assert (Hnl : oeqb (nl (m g)) (Some p) = false).
      { destruct (oeqb (nl (m g)) (Some p)) eqn:E1; auto. apply oeqb_some in E1.
        apply rep_root in Rgs. rewrite Rgs in E1. apply root_addr_in in E1.
        exfalso. apply NpG. right. apply in_or_app; auto. }
      rewrite Hnl in Mgp. rewrite Mgp. cbn [np nl nr].
      repeat split; auto.
      * apply (rep_frame m); auto. intros y Hy. apply Fr. apply in_or_app; auto.
      * apply (rep_ctx_frame m); auto. intros y Hy. apply Fr. apply in_or_app; auto.
Qed.
