(** Executable model of src/bintree.c and src/rbtree.c (C01, C02).

    A tree is the inductive [E | T colour left elem right]; an element is a
    pair (pointer identity [eid], key [ekey]).  The comparison callback is
    modelled as the order of the keys: [cmp a b < 0] is [ekey a <? ekey b],
    [cmp a b == 0] is [ekey a =? ekey b] (only the sign is inspected by the
    C code).  The colour of a node is meaningful for red-black trees only;
    the plain binary tree functions carry it around untouched (in C it lives
    in the enclosing [struct cstl_rbtree_node]).

    Walking parent pointers is modelled by zippers: a context [ctx] is the
    list of frames (innermost first) between a position and the root; a
    frame records on which side of its parent the position hangs, and the
    parent's colour, element and other subtree.  The bottom-up loops of
    rbtree.c are loops over contexts with the same case analysis and the
    same mirrored (l, r) parametrisation as the C code ([mk d], [unmk d],
    [rotate d] with d = the side called "l").

    Every dereference the C code performs without a NULL check yields [None]
    (reported as [Fault] by [step]).  Parent pointers themselves have no
    counterpart in an inductive tree; the driver checks them at every state. *)
From Cstl Require Import Prelude.
Local Open Scope Z_scope.

Inductive colour := Red | Black.
Record elem := mkE { eid : nat; ekey : Z }.
Inductive tree := E | T (c : colour) (l : tree) (x : elem) (r : tree).
Inductive dir := Lf | Rt.

Record frame := mkF { fd : dir; fc : colour; fe : elem; fs : tree }.
Definition ctx := list frame.

Definition opp (d : dir) : dir := match d with Lf => Rt | Rt => Lf end.
Definition dir_eqb (a b : dir) : bool :=
  match a, b with Lf, Lf => true | Rt, Rt => true | _, _ => false end.

(** node whose child selected by "l" (= side [d]) is [a] and whose other
    child is [b] *)
Definition mk (d : dir) (c : colour) (a : tree) (x : elem) (b : tree) : tree :=
  match d with Lf => T c a x b | Rt => T c b x a end.

(** the fields of a node seen through the selectors (l, r) = (d, opp d);
    [None] for NULL *)
Definition unmk (d : dir) (t : tree) : option (colour * tree * elem * tree) :=
  match t with
  | E => None
  | T c l x r => Some (match d with Lf => (c, l, x, r) | Rt => (c, r, x, l) end)
  end.

Definition plug1 (f : frame) (t : tree) : tree := mk (fd f) (fc f) t (fe f) (fs f).
Fixpoint plug (c : ctx) (t : tree) : tree :=
  match c with [] => t | f :: c' => plug c' (plug1 f t) end.

Definition isE (t : tree) : bool := match t with E => true | _ => false end.
(** [x == NULL || colour(x) == B] *)
Definition col (t : tree) : colour := match t with E => Black | T c _ _ _ => c end.
Definition is_red (t : tree) : bool := match t with T Red _ _ _ => true | _ => false end.
Definition blacken (t : tree) : tree := match t with E => E | T _ l x r => T Black l x r end.
Definition recolour (f : frame) (c : colour) : frame := mkF (fd f) c (fe f) (fs f).

Definition root_elem (t : tree) : option elem := match t with E => None | T _ _ x _ => Some x end.
Definition top_elem (c : ctx) : option elem := match c with [] => None | f :: _ => Some (fe f) end.

Fixpoint inorder (t : tree) : list elem :=
  match t with E => [] | T _ l x r => inorder l ++ x :: inorder r end.

(** * bintree.c *)

(** loop of cstl_bintree_insert started at the subtree [t] whose context is
    [c]: the context of the NULL link that receives the new node.  Equal
    keys go right. *)
Fixpoint descend (x : elem) (t : tree) (c : ctx) : ctx :=
  match t with
  | E => c
  | T k l y r =>
    if ekey x <? ekey y then descend x l (mkF Lf k y r :: c)
    else descend x r (mkF Rt k y l :: c)
  end.

(** the node with identity [h] (the hint [p] of cstl_bintree_insert) and its
    context; [None] if it is not in the tree *)
Fixpoint locate (h : nat) (t : tree) (c : ctx) : option (tree * ctx) :=
  match t with
  | E => None
  | T k l y r =>
    if Nat.eqb (eid y) h then Some (t, c)
    else match locate h l (mkF Lf k y r :: c) with
         | Some res => Some res
         | None => locate h r (mkF Rt k y l :: c)
         end
  end.

(** cstl_bintree_insert(bt, x, hint): context of the new leaf.  With a hint
    the descent starts at the hinted node instead of the root. *)
Definition insert_ctx (hint : option nat) (t : tree) (x : elem) : option ctx :=
  match hint with
  | None => Some (descend x t [])
  | Some h =>
    match locate h t [] with
    | Some (sub, c) => Some (descend x sub c)
    | None => None
    end
  end.

(** the colour argument stands for whatever the colour field holds; it is
    not part of a plain binary tree *)
Definition bt_insert_from (hint : option nat) (t : tree) (x : elem) : option tree :=
  match insert_ctx hint t x with
  | Some c => Some (plug c (T Black E x E))
  | None => None
  end.
Definition bt_insert (t : tree) (x : elem) : tree := plug (descend x t []) (T Black E x E).

(** loop of cstl_bintree_find: three-way descent.  Returns the subtree at
    which the loop stopped ([E] = not found) and its context; the would-be
    parent reported through [par] is the element of the innermost frame. *)
Fixpoint find_ctx (k : Z) (t : tree) (c : ctx) : tree * ctx :=
  match t with
  | E => (E, c)
  | T col l y r =>
    if k =? ekey y then (t, c)
    else if k <? ekey y then find_ctx k l (mkF Lf col y r :: c)
    else find_ctx k r (mkF Rt col y l :: c)
  end.

Definition bt_find (t : tree) (k : Z) : option elem * option elem :=
  let '(sub, c) := find_ctx k t [] in (root_elem sub, top_elem c).

(** cstl_bintree_slide(bn, left) from the node (k, l, y, r): the leftmost
    node of that subtree (colour, element, right child) and its context
    relative to [c] *)
Fixpoint slide (k : colour) (l : tree) (y : elem) (r : tree) (c : ctx)
  : colour * elem * tree * ctx :=
  match l with
  | E => (k, y, r, c)
  | T lk ll ly lr => slide lk ll ly lr (mkF Lf k y r :: c)
  end.

(** __cstl_bintree_erase(bt, n) for the node n = (nc, nl, ne, nr).
    [z_x] is the subtree [x] that is spliced into the place of the node [y]
    that physically leaves its position, [z_col] the colour stored in [y],
    [z_inner] the frames between that position and n's position, [z_y] the
    frame by which [y] (with its own colour field) replaces [n] when
    [y != n]: [y]'s identity sits where [n] was, with [n]'s left subtree and
    the rest of [n]'s right subtree. *)
Record erz := mkZ { z_inner : ctx; z_y : option frame; z_x : tree; z_col : colour }.

Definition erase_zip (nc : colour) (nl : tree) (ne : elem) (nr : tree) : erz :=
  match nl, nr with
  | T _ _ _ _, T rk rl ry rr =>
    (* two children: y = __cstl_bintree_next(n) = leftmost node of n->r *)
    let '(yc, ye, yr, inner) := slide rk rl ry rr [] in
    mkZ inner (Some (mkF Rt yc ye nl)) yr yc
  | T _ _ _ _, E => mkZ [] None nl nc      (* y = n, x = y->l *)
  | E, _ => mkZ [] None nr nc              (* y = n, x = y->r (maybe NULL) *)
  end.

Definition hole_ctx (z : erz) (yf : option frame) (c : ctx) : ctx :=
  z_inner z ++ match yf with Some f => f :: c | None => c end.

(** tree after __cstl_bintree_erase of the node (nc nl ne nr) at context c *)
Definition bt_erase_at (nc : colour) (nl : tree) (ne : elem) (nr : tree) (c : ctx) : tree :=
  let z := erase_zip nc nl ne nr in plug (hole_ctx z (z_y z) c) (z_x z).

(** cstl_bintree_erase: find, then unlink the found node *)
Definition bt_erase (t : tree) (k : Z) : option elem * tree :=
  match find_ctx k t [] with
  | (T nc nl ne nr, c) => (Some ne, bt_erase_at nc nl ne nr c)
  | (E, _) => (None, t)
  end.

(** ** traversal *)
Inductive vorder := PRE | MID | POST | LEAF.
Definition vcode (o : vorder) : Z :=
  match o with PRE => 0 | MID => 1 | POST => 2 | LEAF => 3 end.

Section Foreach.
  Context {S : Type} (visit : S -> vorder -> elem -> S * Z).

  (** [if (res == 0 && b) res = f(...)] *)
  Definition when (b : bool) (f : S -> S * Z) (sr : S * Z) : S * Z :=
    if (snd sr =? 0) && b then f (fst sr) else sr.

  (** __cstl_bintree_foreach with (l, r) = (d, opp d).  Both children are
      captured before the first visit. *)
  Fixpoint foreach_node (d : dir) (t : tree) (s : S) : S * Z :=
    match t with
    | E => (s, 0)          (* never called on NULL *)
    | T _ lt x rt =>
      let ln := match d with Lf => lt | Rt => rt end in
      let rn := match d with Lf => rt | Rt => lt end in
      let leaf := isE ln && isE rn in
      let r1 := when (negb leaf) (fun s => visit s PRE x) (s, 0) in
      let r2 := when (negb (isE ln)) (foreach_node d ln) r1 in
      let r3 := when true (fun s => visit s (if leaf then LEAF else MID) x) r2 in
      let r4 := when (negb (isE rn)) (foreach_node d rn) r3 in
      when (negb leaf) (fun s => visit s POST x) r4
    end.

  (** cstl_bintree_foreach *)
  Definition foreach (d : dir) (t : tree) (s : S) : S * Z :=
    match t with E => (s, 0) | _ => foreach_node d t s end.
End Foreach.

(** Event view of __cstl_bintree_foreach with a visitor that always answers
    0: [Rd x] is the read of x's child links at entry (the only access to
    the node's memory the traversal itself performs), [Vis o x] a call of
    the visit function. *)
Inductive tev := Rd (x : elem) | Vis (o : vorder) (x : elem).

Fixpoint tevents (d : dir) (t : tree) : list tev :=
  match t with
  | E => []
  | T _ lt x rt =>
    let ln := match d with Lf => lt | Rt => rt end in
    let rn := match d with Lf => rt | Rt => lt end in
    if isE ln && isE rn then [Rd x; Vis LEAF x]
    else Rd x :: Vis PRE x :: tevents d ln ++ Vis MID x :: tevents d rn ++ [Vis POST x]
  end.

(** the visits alone *)
Fixpoint events (d : dir) (t : tree) : list (vorder * elem) :=
  match t with
  | E => []
  | T _ lt x rt =>
    let ln := match d with Lf => lt | Rt => rt end in
    let rn := match d with Lf => rt | Rt => lt end in
    if isE ln && isE rn then [(LEAF, x)]
    else (PRE, x) :: events d ln ++ (MID, x) :: events d rn ++ [(POST, x)]
  end.

(** the visitor used by the scripts: logs every call and answers [stop] at
    its [stop]-th call (0: never) *)
Definition sv_state := (nat * list (vorder * elem))%type.
Definition script_visit (stop : nat) (s : sv_state) (o : vorder) (e : elem) : sv_state * Z :=
  let n := S (fst s) in
  ((n, (o, e) :: snd s), if Nat.eqb n stop then Z.of_nat stop else 0).

(** __cstl_bintree_clear_visit: the user callback runs on POST and LEAF *)
Definition clear_visit (log : list elem) (o : vorder) (e : elem) : list elem * Z :=
  (match o with POST | LEAF => e :: log | _ => log end, 0).

(** cstl_bintree_clear: callback log (in call order) *)
Definition bt_clear (t : tree) : list elem := rev (fst (foreach clear_visit Lf t [])).

(** cstl_bintree_height: at every LEAF visit the number of nodes up to the
    root is counted through the parent pointers *)
Fixpoint leaf_depths (t : tree) (depth : nat) : list nat :=
  match t with
  | E => []
  | T _ l _ r =>
    match l, r with
    | E, E => [S depth]
    | _, _ => leaf_depths l (S depth) ++ leaf_depths r (S depth)
    end
  end.
Definition size_max : N := 18446744073709551615%N.
Definition bt_height (t : tree) : N * N :=
  match t with
  | E => (0%N, 0%N)
  | _ => fold_left (fun mm h => (if (h <? fst mm)%N then h else fst mm,
                                 if (snd mm <? h)%N then h else snd mm))
                   (map N.of_nat (leaf_depths t 0)) (size_max, 0%N)
  end.

(** * rbtree.c *)

(** __cstl_bintree_rotate(t, x, l, r) with (l, r) = (d, opp d) applied to
    the subtree rooted at x: x's r-child y moves up, x becomes y's l-child,
    y's former l-child becomes x's r-child.  [None]: y == NULL. *)
Definition rotate (d : dir) (t : tree) : option tree :=
  match unmk d t with
  | None => None
  | Some (xc, a, xe, y) =>
    match unmk d y with
    | None => None
    | Some (yc, b, ye, cc) => Some (mk d yc (mk d xc a xe b) ye cc)
    end
  end.

Definition setcol (k : colour) (t : tree) : tree :=
  match t with E => E | T _ l x r => T k l x r end.

(** loop of cstl_rbtree_insert with the body cstl_rbtree_fix_insertion.
    [x] is the subtree rooted at the node x, [c] its context. *)
Fixpoint fix_ins (x : tree) (c : ctx) : option tree :=
  match c with
  | [] => Some x                                      (* x->p == NULL *)
  | p :: up =>
    match fc p with
    | Black => Some (plug c x)                        (* colour(x->p) != R *)
    | Red =>
      match up with
      | [] => None                                    (* x->p->p->l with x->p->p == NULL *)
      | g :: up' =>
        let d := fd g in                              (* x->p == x->p->p->l ? (l,r) : (r,l) *)
        let y := fs g in                              (* y = *r(x->p->p) *)
        if is_red y then
          (* colour(x->p) = B; colour(y) = B; colour(x->p->p) = R; x = x->p->p *)
          fix_ins (mk d Red (plug1 (recolour p Black) x) (fe g) (blacken y)) up'
        else
          let px :=
            if dir_eqb (fd p) d then Some (mk d Red x (fe p) (fs p))
            else
              (* x == *r(x->p): x = x->p; rotate(x, l, r) *)
              rotate d (mk d Red (fs p) (fe p) x) in
          match px with
          | None => None
          | Some px =>
            (* colour(x->p) = B; colour(x->p->p) = R; rotate(x->p->p, r, l);
               x->p is black now, the loop ends *)
            match rotate (opp d) (mk d Red (setcol Black px) (fe g) y) with
            | None => None
            | Some t => Some (plug up' t)
            end
          end
      end
    end
  end.

(** cstl_rbtree_insert *)
Definition rb_insert_from (hint : option nat) (t : tree) (x : elem) : option (option tree) :=
  match insert_ctx hint t x with
  | None => None                                      (* hint not in the tree *)
  | Some c =>
    Some (match fix_ins (T Red E x E) c with
          | Some t' => Some (blacken t')              (* colour(root) = B *)
          | None => None
          end)
  end.
Definition rb_insert (t : tree) (x : elem) : option tree :=
  match fix_ins (T Red E x E) (descend x t []) with
  | Some t' => Some (blacken t')
  | None => None
  end.

(** second half of cstl_rbtree_fix_deletion (after the red-sibling case):
    x hangs on side d of its parent (pc, pe), w is x's sibling.
    [Up t]: w was recoloured red and x moves up to its parent, whose subtree
    is t.  [Fin t]: the subtree that replaces the parent's after the final
    rotation; x = root. *)
Inductive dstep := Up (t : tree) | Fin (t : tree) | DFault.

Definition del_cases (d : dir) (x : tree) (pc : colour) (pe : elem) (w : tree) : dstep :=
  match unmk d w with
  | None => DFault                                    (* *l(w) with w == NULL *)
  | Some (_, wa, we, wb) =>
    if negb (is_red wa) && negb (is_red wb) then
      Up (mk d pc x pe (mk d Red wa we wb))           (* colour(w) = R; x = x->p *)
    else
      let w' :=
        if is_red wb then Some w
        else
          (* colour(l(w)) = B; colour(w) = R; rotate(w, r, l); w = *r(x->p) *)
          rotate (opp d) (mk d Red (blacken wa) we wb) in
      match w' with
      | None => DFault
      | Some w' =>
        (* colour(w) = colour(x->p); colour(x->p) = B; colour(r(w)) = B;
           rotate(x->p, l, r); x = root *)
        match unmk d w' with
        | None => DFault
        | Some (_, wa', we', wb') =>
          if isE wb' then DFault
          else match rotate d (mk d Black x pe (mk d pc wa' we' (blacken wb'))) with
               | None => DFault
               | Some t => Fin t
               end
        end
      end
  end.

(** loop at the end of __cstl_rbtree_erase with the body
    cstl_rbtree_fix_deletion.  [x] is the subtree at the position that is
    one black short ([E] = the stack stand-in [_x], which is black and is
    not linked from its parent), [c] its context. *)
Fixpoint fix_del (x : tree) (c : ctx) : option tree :=
  match c with
  | [] => Some (blacken x)                            (* x->p == NULL; colour(x) = B *)
  | p :: up =>
    if is_red x then Some (plug c (blacken x))        (* colour(x) != B; colour(x) = B *)
    else
      (* x == x->p->l || (x == &_x.n && x->p->l == NULL) *)
      let d := match x with
               | E => if isE (match fd p with Lf => E | Rt => fs p end) then Lf else Rt
               | T _ _ _ _ => fd p
               end in
      if negb (dir_eqb d (fd p)) then None            (* w = *r(x->p) is the stand-in's NULL slot *)
      else
        match unmk d (fs p) with
        | None => None                                (* colour(w) with w == NULL *)
        | Some (Black, _, _, _) =>
          match del_cases d x (fc p) (fe p) (fs p) with
          | DFault => None
          | Up x' => fix_del x' up
          | Fin t => Some (blacken (plug up t))       (* x = root; colour(x) = B *)
          end
        | Some (Red, wa, we, wb) =>
          (* colour(w) = B; colour(x->p) = R; rotate(x->p, l, r); w = *r(x->p):
             w is now x's grandparent (black), x's parent is red, the new
             sibling is w's former l-child *)
          let g := mkF d Black we wb in
          match del_cases d x Red (fe p) wa with
          | DFault => None
          | Up x' => Some (plug (g :: up) (blacken x'))   (* x' is red: loop ends; colour(x) = B *)
          | Fin t => Some (blacken (plug (g :: up) t))
          end
        end
  end.

(** __cstl_rbtree_erase(t, n) for the node n = (nc nl ne nr) at context c:
    c = colour(y); colour(y) = colour(n); if c == B, fix up from x *)
Definition rb_erase_at (nc : colour) (nl : tree) (ne : elem) (nr : tree) (c : ctx) : option tree :=
  let z := erase_zip nc nl ne nr in
  let hole := hole_ctx z (option_map (fun f => recolour f nc) (z_y z)) c in
  match z_col z with
  | Red => Some (plug hole (z_x z))
  | Black => fix_del (z_x z) hole
  end.

(** cstl_rbtree_erase *)
Definition rb_erase (t : tree) (k : Z) : option (option elem * tree) :=
  match find_ctx k t [] with
  | (T nc nl ne nr, c) =>
    match rb_erase_at nc nl ne nr c with
    | Some t' => Some (Some ne, t')
    | None => None
    end
  | (E, _) => Some (None, t)
  end.

(** * The scripted system: one tree (binary or red-black) over an element pool *)

Inductive kind := Bin | RB.

Inductive op :=
| Insert (e : nat)            (* insert(e, NULL) *)
| InsertH (e : nat)           (* find(e, &p); insert(e, p) *)
| Find (k : Z)
| Erase (k : Z)
| Foreach (rev : bool) (stop : nat)
| Clear
| Height
| Size.

Record tstate := mkS { tr : tree; sz : N }.
Definition t_init : tstate := mkS E 0.

Definition zelem (o : option elem) : Z :=
  match o with Some e => zid (eid e) | None => znull end.

Definition held (t : tree) (e : nat) : bool := existsb (fun y => Nat.eqb (eid y) e) (inorder t).

Fixpoint zevents (l : list (vorder * elem)) : list Z :=
  match l with [] => [] | (o, e) :: r => vcode o :: zid (eid e) :: zevents r end.

Section Step.
  Variable key : nat -> Z.
  Variable kd : kind.

  Definition do_insert (s : tstate) (hint : option nat) (x : elem) (out : list Z) : outcome tstate :=
    match kd with
    | Bin =>
      match bt_insert_from hint (tr s) x with
      | Some t' => Done (mkS t' (sz s + 1)) out
      | None => Precond
      end
    | RB =>
      match rb_insert_from hint (tr s) x with
      | Some (Some t') => Done (mkS t' (sz s + 1)) out
      | Some None => Fault
      | None => Precond
      end
    end.

  Definition step (s : tstate) (o : op) : outcome tstate :=
    match o with
    | Insert e =>
      if held (tr s) e then Precond else do_insert s None (mkE e (key e)) []
    | InsertH e =>
      if held (tr s) e then Precond
      else let par := snd (bt_find (tr s) (key e)) in
           do_insert s (option_map eid par) (mkE e (key e)) [zelem par]
    | Find k => let '(f, p) := bt_find (tr s) k in Done s [zelem f; zelem p]
    | Erase k =>
      match kd with
      | Bin => let '(r, t') := bt_erase (tr s) k in
               Done (mkS t' (match r with Some _ => sz s - 1 | None => sz s end)%N) [zelem r]
      | RB =>
        match rb_erase (tr s) k with
        | Some (r, t') =>
          Done (mkS t' (match r with Some _ => sz s - 1 | None => sz s end)%N) [zelem r]
        | None => Fault
        end
      end
    | Foreach rev stop =>
      let '((_, log), res) :=
          foreach (script_visit stop) (if rev then Rt else Lf) (tr s) (O, []) in
      Done s (res :: zevents (List.rev log))
    | Clear =>
      match tr s with
      | E => Done s []
      | _ => Done t_init (map (fun e => zid (eid e)) (bt_clear (tr s)))
      end
    | Height => let '(mn, mx) := bt_height (tr s) in Done s [Z.of_N mn; Z.of_N mx]
    | Size => Done s [Z.of_N (sz s)]
    end.
End Step.

(** state dump used by the correspondence check: size field, then the tree
    in pre-order ("." = NULL; "(" colour id left right ")", colour 0 = red,
    1 = black, omitted for a plain binary tree) is printed by the runner. *)
